(* C09 -- refinement, world level: every operation of the code-shaped model (L1) is the ideal
   ordered-map operation (L0) on the abstraction, with the same result. *)
From Coq Require Import List Arith ZArith NArith PArith Bool Lia FMapPositive Permutation.
From Muscle Require Import Cont.HtModel Cont.HtStep Cont.HtIdeal Cont.HtLemmas Cont.HtRepr Cont.HtWalk Cont.HtIters
                           Cont.HtTable Cont.HtMoves Cont.HtPut Cont.HtExact Cont.HtAbs Cont.HtOrdered
                           Cont.HtRefTab Cont.HtRefQ Cont.HtRefTab2 Cont.HtInv Cont.HtInvIter Cont.HtSafe Cont.HtSwap Cont.HtSafeAll.
Import ListNotations.

(* ------------------------------------------------------------------ glue *)

Lemma abs_congr : forall h h', nodes h' = nodes h -> hd h' = hd h -> cnt h' = cnt h -> abs h' = abs h.
Proof.
  intros h h' En Eh Ec. unfold abs, ids, kvs_of. rewrite Eh, Ec.
  assert (G : forall y, getn h' y = getn h y) by (intros; unfold getn; rewrite En; reflexivity).
  assert (W : forall fuel x, walk h' x fuel = walk h x fuel).
  { induction fuel as [|f IH]; intros x; [reflexivity|]. cbn [walk]. destruct x; [|reflexivity]. f_equal.
    unfold get_next. rewrite G. apply IH. }
  rewrite W. apply flat_map_ext. intros y. unfold kv_of. rewrite G. reflexivity.
Qed.

Lemma abs_tab_with_ilist : forall h il, abs_tab (with_ilist h il) = abs_tab h.
Proof. intros. unfold abs_tab. rewrite (abs_congr h (with_ilist h il)); reflexivity. Qed.

Lemma map_upd_nth : forall A B (f : A -> B) l i x, map f (upd_nth l i x) = upd_nth (map f l) i (f x).
Proof.
  intros. unfold upd_nth. rewrite map_length. destruct (i <? length l); [|reflexivity].
  rewrite map_app, firstn_map. cbn [map]. rewrite skipn_map. reflexivity.
Qed.

Lemma abs_world_put : forall w t h I, abs_world (put_ti w t h I) = sett0 (abs_world w) t (abs_tab h).
Proof. intros. unfold abs_world, put_ti, sett0. cbn [tabs]. apply map_upd_nth. Qed.

Lemma abs_world_sett : forall w t h, abs_world (sett w t h) = sett0 (abs_world w) t (abs_tab h).
Proof. intros. apply abs_world_put. Qed.

Lemma abs_world_seti : forall w I, abs_world (seti_w w I) = abs_world w.
Proof. reflexivity. Qed.

Lemma gett0_abs : forall w t, gett0 (abs_world w) t = abs_tab (gett w t).
Proof.
  intros. unfold gett0, abs_world, gett.
  change (mkT0 [] 0 true) with (abs_tab (empty_ht 0)). apply map_nth.
Qed.

Lemma valid_t0_abs : forall w t, valid_t0 (abs_world w) t = valid_t w t.
Proof. intros. unfold valid_t0, valid_t, abs_world. rewrite map_length. reflexivity. Qed.

Lemma upd_nth_nth_same : forall A (l : list A) i d, upd_nth l i (nth i l d) = l.
Proof.
  intros A l i d. unfold upd_nth. destruct (i <? length l) eqn:E; [|reflexivity]. apply Nat.ltb_lt in E.
  revert i E. induction l as [|x l IH]; intros i E; [cbn in E; lia|].
  destruct i; [reflexivity|]. cbn [firstn skipn nth app]. f_equal. apply IH. cbn in E. lia.
Qed.

Lemma sett0_same : forall w t, sett0 (abs_world w) t (abs_tab (gett w t)) = abs_world w.
Proof. intros w t. rewrite <- gett0_abs. unfold sett0, gett0. apply upd_nth_nth_same. Qed.

(* the key of the entry returned by PutAux *)
Lemma put_aux_key : forall var dcap h I l k v, tinv h l ->
  keyf (pa_h (put_aux var dcap h I k v)) (pa_e (put_aux var dcap h I k v)) = k /\
  exists l', tinv (pa_h (put_aux var dcap h I k v)) l' /\ In (pa_e (put_aux var dcap h I k v)) l'.
Proof.
  intros var dcap h I l k v T0. unfold put_aux.
  set (h0 := ensure_allocated dcap h).
  assert (T : tinv h0 l) by (unfold h0, ensure_allocated; destruct (N.eqb (cap h) 0); [apply tinv_with_cap|]; exact T0).
  destruct (find_key h0 k) as [e|] eqn:Ef.
  - destruct (find_key_split h0 l k e T Ef) as (l1 & l2 & -> & Hk).
    assert (Hin : In e (l1 ++ e :: l2)) by (apply in_or_app; right; left; reflexivity).
    destruct (tinv_set_val h0 _ e v T Hin) as (T1 & _ & Ke & _).
    destruct (reposition_aux_exact var (set_val h0 e v) I l1 l2 e T1) as (l' & (T' & S & _ & _) & _).
    destruct (reposition_aux var (set_val h0 e v) I e) as [h1 I1]. unfold pa_h, pa_e. cbn [fst snd] in *.
    split.
    + unfold keyf. rewrite (kvf_same_data _ _ S), Ke. exact Hk.
    + exists l'. split; [exact T'|]. apply (ti_dom _ _ T'). apply S. apply (lk_live _ _ (ti_linked _ _ T1)). exact Hin.
  - rewrite (tinv_find_key h0 l k T) in Ef.
    assert (ES : exists h00 I0 st l0,
              (if N.eqb (N.of_nat (cnt h0)) (cap h0) then ensure_size dcap h0 I (cap h0 * 2) false else (h0, I, 0)) = (h00, I0, st) /\
              tinv h00 l0 /\ find_id h00 k l0 = None).
    { destruct (N.eqb (N.of_nat (cnt h0)) (cap h0)); [|exists h0, I, 0, l; auto].
      unfold ensure_size. destruct (N.eqb _ (cap h0)); [exists h0, I, 0, l; auto|].
      destruct (N.eqb _ 0); [eexists _, _, _, []; split; [reflexivity|split; [apply tinv_empty|reflexivity]]|].
      destruct (N.eqb _ 4294967295); [exists h0, I, 3, l; auto|].
      eexists _, _, _, l. split; [reflexivity|split; [apply tinv_with_cap; exact T|rewrite find_id_with_cap; exact Ef]]. }
    destruct ES as (h00 & I0 & st & l0 & -> & T00 & Ef00).
    destruct (abs_insert_new var h00 l0 k v T00 Ef00) as (m1 & m2 & _ & T' & _ & _ & _ & _ & _ & _ & Kve & _).
    destruct (alloc_node h00 k v) as [h1 e]. unfold pa_h, pa_e. cbn [fst snd] in *.
    split; [unfold keyf; rewrite Kve; reflexivity|].
    eexists. split; [exact T'|]. apply in_or_app. right. left. reflexivity.
Qed.

Section Ref.
Variable var : variant.
Variable dcap : N.

Definition refines_step (w : world) (o : op) : Prop :=
  abs_world (fst (step1 var dcap w o)) = fst (step0 var dcap (abs_world w) o) /\
  (is_iter_op o = false -> snd (step1 var dcap w o) = snd (step0 var dcap (abs_world w) o)).

Lemma WF_tinv : forall w t, WF w -> t < length (tabs w) -> exists l, tinv (gett w t) l.
Proof. intros w t W Ht. apply (tl_tinv _ _ _ (wf_tabs _ W t Ht)). Qed.

Ltac pre W :=
  unfold refines_step; cbn [step1 step0 is_iter_op]; rewrite ?valid_t0_abs, ?gett0_abs.
Ltac vt1 :=
  match goal with
  | |- context [valid_t ?w ?t] => destruct (valid_t w t) eqn:?V1; [apply valid_t_lt in V1|split; [reflexivity|intros; reflexivity]]
  end.
Ltac vt2 :=
  match goal with
  | |- context [valid_t ?w ?t && valid_t ?w ?u] =>
      destruct (valid_t w t) eqn:?V1; [apply valid_t_lt in V1|split; [reflexivity|intros; reflexivity]];
      destruct (valid_t w u) eqn:?V2; [apply valid_t_lt in V2|split; [reflexivity|intros; reflexivity]]; cbn [andb]
  end.

Lemma refines_put_family : forall w o, WF w ->
  match o with
  | OPut _ _ _ | OPutIfAbsent _ _ _ | OGetOrPut _ _ _ | OPutAtFront _ _ _ | OPutAtBack _ _ _
  | OPutBefore _ _ _ _ | OPutBehind _ _ _ _ | OPutAtPos _ _ _ _ => refines_step w o
  | _ => True
  end.
Proof.
  intros w o W. destruct o; try exact I.
  - (* Put *) pre W. vt1. destruct (WF_tinv w t W V1) as (l & T).
    rewrite (put_aux_split var dcap (gett w t)). rewrite (surjective_pairing (l0_put var dcap (abs_tab (gett w t)) k v)).
    destruct (abs_tab_put_aux var dcap (gett w t) (its w) l k v T) as [A B]. cbn [fst snd].
    rewrite abs_world_put, A, B. split; [reflexivity|intros; reflexivity].
  - (* PutIfAbsent *) pre W. vt1. destruct (WF_tinv w t W V1) as (l & T). cbn [pairs abs_tab].
    rewrite (find_key_get (gett w t) l k T).
    destruct (find_key (gett w t) k) as [e|] eqn:Ef.
    + destruct (find_key_some_in _ l k e T Ef) as [He _]. rewrite (val_of_valf _ e (lk_live _ _ (ti_linked _ _ T) e He)).
      split; [reflexivity|intros; reflexivity].
    + rewrite (put_aux_split var dcap (gett w t)). destruct (abs_tab_put_aux var dcap (gett w t) (its w) l k v T) as [A B].
      cbn [fst snd]. rewrite abs_world_put, A. split; [reflexivity|intros; reflexivity].
  - (* GetOrPut *) pre W. vt1. destruct (WF_tinv w t W V1) as (l & T). cbn [pairs abs_tab].
    rewrite (find_key_get (gett w t) l k T).
    destruct (find_key (gett w t) k) as [e|] eqn:Ef.
    + destruct (find_key_some_in _ l k e T Ef) as [He _]. rewrite (val_of_valf _ e (lk_live _ _ (ti_linked _ _ T) e He)).
      split; [reflexivity|intros; reflexivity].
    + rewrite (put_aux_split var dcap (gett w t)). destruct (abs_tab_put_aux var dcap (gett w t) (its w) l k v T) as [A B].
      cbn [fst snd]. rewrite abs_world_put, A. split; [reflexivity|intros; reflexivity].
  - (* PutAtFront *) pre W. vt1. destruct (WF_tinv w t W V1) as (l & T).
    rewrite (put_aux_split var dcap (gett w t)).
    destruct (abs_tab_put_aux var dcap (gett w t) (its w) l k v T) as [A _].
    destruct (put_aux_key var dcap (gett w t) (its w) l k v T) as (Hk & l' & T' & He).
    set (h := pa_h _) in *. set (J := pa_i _) in *. set (e := pa_e _) in *.
    destruct (in_split _ _ He) as (l1 & l2 & ->).
    destruct (abs_moved h J e _ _ _ T' (move_front_exact h J l1 l2 e T')) as (_ & Ab & Cp & As & _).
    destruct (move_front_aux h J e) as [h1 J1]. cbn [fst snd] in *.
    rewrite abs_world_put, <- A. split; [|intros; reflexivity]. f_equal.
    unfold abs_tab, with_pairs. cbn [pairs acap aasort]. rewrite Ab, Cp, As. f_equal.
    rewrite (tinv_abs h _ T'), <- Hk. rewrite (a_move_to_map h l1 l2 e 0 (ti_keys _ _ T')). reflexivity.
  - (* PutAtBack *) pre W. vt1. destruct (WF_tinv w t W V1) as (l & T).
    rewrite (put_aux_split var dcap (gett w t)).
    destruct (abs_tab_put_aux var dcap (gett w t) (its w) l k v T) as [A _].
    destruct (put_aux_key var dcap (gett w t) (its w) l k v T) as (Hk & l' & T' & He).
    set (h := pa_h _) in *. set (J := pa_i _) in *. set (e := pa_e _) in *.
    destruct (in_split _ _ He) as (l1 & l2 & ->).
    destruct (abs_moved h J e _ _ _ T' (move_back_exact h J l1 l2 e T')) as (_ & Ab & Cp & As & _).
    destruct (move_back_aux h J e) as [h1 J1]. cbn [fst snd] in *.
    rewrite abs_world_put, <- A. split; [|intros; reflexivity]. f_equal.
    unfold abs_tab, with_pairs. cbn [pairs acap aasort]. rewrite Ab, Cp, As. f_equal.
    rewrite (tinv_abs h _ T'), <- Hk. rewrite (a_move_to_map h l1 l2 e _ (ti_keys _ _ T')).
    rewrite map_length. replace (length (l1 ++ e :: l2) - 1) with (length (l1 ++ l2)) by (rewrite !app_length; cbn [length]; lia).
    rewrite Nat.min_id, firstn_all, skipn_all, <- app_assoc. reflexivity.
  - (* PutBefore *) pre W. vt1. destruct (WF_tinv w t W V1) as (l & T).
    rewrite (put_aux_split var dcap (gett w t)).
    destruct (abs_tab_put_aux var dcap (gett w t) (its w) l k v T) as [A _].
    destruct (put_aux_key var dcap (gett w t) (its w) l k v T) as (Hk & l' & T' & He).
    set (h := pa_h _) in *. set (J := pa_i _) in *. set (e := pa_e _) in *.
    assert (Same : abs_world (put_ti w t h J) = sett0 (abs_world w) t (with_pairs (fst (l0_put var dcap (abs_tab (gett w t)) k v)) (pairs (fst (l0_put var dcap (abs_tab (gett w t)) k v))))).
    { rewrite abs_world_put, <- A. f_equal. }
    destruct (in_split _ _ He) as (l1 & l2 & El).
    destruct (find_key h k2) as [f|] eqn:Ef.
    + destruct (find_key_some_in h l' k2 f T' Ef) as [Hf Hkf].
      destruct (Pos.eqb e f) eqn:Eef.
      * apply Pos.eqb_eq in Eef. subst f. assert (Ekk : k = k2) by congruence. rewrite Ekk, Z.eqb_refl.
        cbn [fst snd]. split; [rewrite <- Ekk; exact Same|intros; reflexivity].
      * apply Pos.eqb_neq in Eef.
        assert (Hkne : Z.eqb k k2 = false).
        { apply Z.eqb_neq. intro Ekk. apply Eef. rewrite <- Hkf in Ekk. rewrite <- Hk in Ekk.
          pose proof (find_id_unique h (keyf h e) l' e (ti_keys _ _ T') He eq_refl) as U1.
          pose proof (find_id_unique h (keyf h e) l' f (ti_keys _ _ T') Hf (eq_sym Ekk)) as U2. congruence. }
        rewrite Hkne. subst l'.
        assert (Hf' : In f (l1 ++ l2)) by (apply in_app_or in Hf; apply in_or_app; destruct Hf as [Hf|[Hf|Hf]]; [left; exact Hf|congruence|right; exact Hf]).
        destruct (in_split _ _ Hf') as (p & q & Epq).
        destruct (abs_moved h J e _ _ _ T' (move_before_exact h J l1 l2 p q e f T' Epq)) as (_ & Ab & Cp & As & _).
        destruct (move_before_aux h J e f) as [h1 J1]. cbn [fst snd] in *.
        rewrite abs_world_put, <- A. split; [|intros; reflexivity]. f_equal.
        unfold abs_tab, with_pairs. cbn [pairs acap aasort]. rewrite Ab, Cp, As. f_equal.
        rewrite (tinv_abs h _ T'), <- Hk, <- Hkf. symmetry. apply (l0_move_before_map h l1 l2 p q e f (ti_keys _ _ T') Epq).
    + cbn [fst snd]. split; [|intros; reflexivity]. rewrite Same. f_equal. unfold with_pairs. f_equal.
      destruct (Z.eqb k k2); [reflexivity|].
      rewrite <- A. cbn [pairs abs_tab]. unfold l0_move_before.
      rewrite (tinv_abs h _ T'). rewrite El in *. rewrite <- Hk.
      rewrite (a_get_map_in h (l1 ++ e :: l2) e (ti_keys _ _ T') He).
      rewrite (a_remove_map_split h l1 e l2 (keys_split_left h l1 e l2 (ti_keys _ _ T'))).
      rewrite a_index_map_none; [reflexivity|].
      intros y Hy. apply (find_id_none h k2 (l1 ++ e :: l2)); [rewrite <- (tinv_find_key h _ k2 T'); exact Ef|].
      apply in_app_or in Hy. apply in_or_app. destruct Hy; [left|right; right]; assumption.
  - (* PutBehind *) pre W. vt1. destruct (WF_tinv w t W V1) as (l & T).
    rewrite (put_aux_split var dcap (gett w t)).
    destruct (abs_tab_put_aux var dcap (gett w t) (its w) l k v T) as [A _].
    destruct (put_aux_key var dcap (gett w t) (its w) l k v T) as (Hk & l' & T' & He).
    set (h := pa_h _) in *. set (J := pa_i _) in *. set (e := pa_e _) in *.
    assert (Same : abs_world (put_ti w t h J) = sett0 (abs_world w) t (with_pairs (fst (l0_put var dcap (abs_tab (gett w t)) k v)) (pairs (fst (l0_put var dcap (abs_tab (gett w t)) k v))))).
    { rewrite abs_world_put, <- A. f_equal. }
    destruct (in_split _ _ He) as (l1 & l2 & El).
    destruct (find_key h k2) as [f|] eqn:Ef.
    + destruct (find_key_some_in h l' k2 f T' Ef) as [Hf Hkf].
      destruct (Pos.eqb e f) eqn:Eef.
      * apply Pos.eqb_eq in Eef. subst f. assert (Ekk : k = k2) by congruence. rewrite Ekk, Z.eqb_refl.
        cbn [fst snd]. split; [rewrite <- Ekk; exact Same|intros; reflexivity].
      * apply Pos.eqb_neq in Eef.
        assert (Hkne : Z.eqb k k2 = false).
        { apply Z.eqb_neq. intro Ekk. apply Eef. rewrite <- Hkf in Ekk. rewrite <- Hk in Ekk.
          pose proof (find_id_unique h (keyf h e) l' e (ti_keys _ _ T') He eq_refl) as U1.
          pose proof (find_id_unique h (keyf h e) l' f (ti_keys _ _ T') Hf (eq_sym Ekk)) as U2. congruence. }
        rewrite Hkne. subst l'.
        assert (Hf' : In f (l1 ++ l2)) by (apply in_app_or in Hf; apply in_or_app; destruct Hf as [Hf|[Hf|Hf]]; [left; exact Hf|congruence|right; exact Hf]).
        destruct (in_split _ _ Hf') as (p & q & Epq).
        destruct (abs_moved h J e _ _ _ T' (move_behind_exact h J l1 l2 p q e f T' Epq)) as (_ & Ab & Cp & As & _).
        destruct (move_behind_aux h J e f) as [h1 J1]. cbn [fst snd] in *.
        rewrite abs_world_put, <- A. split; [|intros; reflexivity]. f_equal.
        unfold abs_tab, with_pairs. cbn [pairs acap aasort]. rewrite Ab, Cp, As. f_equal.
        rewrite (tinv_abs h _ T'), <- Hk, <- Hkf. symmetry. apply (l0_move_behind_map h l1 l2 p q e f (ti_keys _ _ T') Epq).
    + cbn [fst snd]. split; [|intros; reflexivity]. rewrite Same. f_equal. unfold with_pairs. f_equal.
      destruct (Z.eqb k k2); [reflexivity|].
      rewrite <- A. cbn [pairs abs_tab]. unfold l0_move_behind.
      rewrite (tinv_abs h _ T'). rewrite El in *. rewrite <- Hk.
      rewrite (a_get_map_in h (l1 ++ e :: l2) e (ti_keys _ _ T') He).
      rewrite (a_remove_map_split h l1 e l2 (keys_split_left h l1 e l2 (ti_keys _ _ T'))).
      rewrite a_index_map_none; [reflexivity|].
      intros y Hy. apply (find_id_none h k2 (l1 ++ e :: l2)); [rewrite <- (tinv_find_key h _ k2 T'); exact Ef|].
      apply in_app_or in Hy. apply in_or_app. destruct Hy; [left|right; right]; assumption.
  - (* PutAtPos *) pre W. vt1. destruct (WF_tinv w t W V1) as (l & T).
    rewrite (put_aux_split var dcap (gett w t)).
    destruct (abs_tab_put_aux var dcap (gett w t) (its w) l k v T) as [A _].
    destruct (put_aux_key var dcap (gett w t) (its w) l k v T) as (Hk & l' & T' & He).
    set (h := pa_h _) in *. set (J := pa_i _) in *. set (e := pa_e _) in *.
    destruct (in_split _ _ He) as (l1 & l2 & ->).
    destruct (abs_moved h J e _ _ _ T' (move_pos_exact h J l1 l2 e idx T')) as (_ & Ab & Cp & As & _).
    destruct (move_pos_aux h J e idx) as [h1 J1]. cbn [fst snd] in *.
    rewrite abs_world_put, <- A. split; [|intros; reflexivity]. f_equal.
    unfold abs_tab, with_pairs. cbn [pairs acap aasort]. rewrite Ab, Cp, As. f_equal.
    rewrite (tinv_abs h _ T'), <- Hk. rewrite (a_move_to_map h l1 l2 e idx (ti_keys _ _ T')). reflexivity.
Qed.

Lemma refines_queries : forall w o, WF w ->
  match o with
  | OGet _ _ | OContains _ _ | OIndexOfKey _ _ | OKeyAt _ _ | OValAt _ _ | OFirstKey _ | OLastKey _
  | OKeyBefore _ _ | OKeyAfter _ _ | OIndexOfValue _ _ _ | ONumItems _ | OEqual _ _ _ => refines_step w o
  | _ => True
  end.
Proof.
  intros w o W.
  assert (TV : forall t, exists l, tinv (gett w t) l).
  { intros t. destruct (Nat.lt_ge_cases t (length (tabs w))) as [Ht|Ht]; [apply (WF_tinv w t W Ht)|].
    exists []. unfold gett. rewrite nth_overflow by exact Ht. apply tinv_empty. }
  destruct o; try exact I; pre W; cbn [pairs abs_tab]; try (destruct (TV t) as (l & T)).
  - split; [reflexivity|intros _]. cbn [snd]. f_equal. symmetry. apply (find_key_get _ l k T).
  - split; [reflexivity|intros _]. cbn [snd]. f_equal. apply (q_contains _ l T).
  - split; [reflexivity|intros _]. cbn [snd]. f_equal. apply (q_index_of_key _ l T).
  - split; [reflexivity|intros _]. cbn [snd]. f_equal. apply (q_key_at _ l T).
  - split; [reflexivity|intros _]. cbn [snd]. f_equal. apply (q_val_at _ l T).
  - split; [reflexivity|intros _]. cbn [snd]. f_equal. apply (q_first_key _ l T).
  - split; [reflexivity|intros _]. cbn [snd]. f_equal. apply (q_last_key _ l T).
  - split; [reflexivity|intros _]. cbn [snd]. f_equal. apply (q_key_before _ l T).
  - split; [reflexivity|intros _]. cbn [snd]. f_equal. apply (q_key_after _ l T).
  - split; [reflexivity|intros _]. cbn [snd]. f_equal. apply (q_index_of_value _ l v bw T).
  - split; [reflexivity|intros _]. cbn [snd]. f_equal. rewrite (tinv_abs _ l T), map_length. apply (ti_cnt _ _ T).
  - vt2. split; [reflexivity|intros _]. cbn [snd]. f_equal. destruct (t =? u); [reflexivity|].
    destruct (TV t) as (la & Ta). destruct (TV u) as (lb & Tb). apply (abs_equal_tabs _ _ la lb ordered Ta Tb).
Qed.

Lemma refines_removals : forall w o, WF w ->
  match o with
  | ORemove _ _ | ORemoveFirst _ | ORemoveLast _ => refines_step w o
  | _ => True
  end.
Proof.
  intros w o W. destruct o; try exact I.
  - (* Remove *) pre W. vt1. destruct (WF_tinv w t W V1) as (l & T). cbn [pairs abs_tab].
    rewrite (find_key_get (gett w t) l k T).
    destruct (find_key (gett w t) k) as [e|] eqn:Ef; [|split; [reflexivity|intros; reflexivity]].
    destruct (find_key_split _ l k e T Ef) as (l1 & l2 & -> & Hk).
    assert (Le : live (gett w t) e) by (apply (lk_live _ _ (ti_linked _ _ T)); apply in_or_app; right; left; reflexivity).
    rewrite (val_of_valf _ e Le).
    destruct (abs_remove_entry (gett w t) (its w) l1 l2 e T) as (_ & Ab & Cp & As & _).
    destruct (remove_entry (gett w t) (its w) e) as [h1 I1]. cbn [fst snd] in *.
    rewrite abs_world_put. split; [|intros; reflexivity]. f_equal.
    unfold abs_tab, with_pairs. cbn [pairs acap aasort]. rewrite Ab, Cp, As, Hk. reflexivity.
  - (* RemoveFirst *) pre W. vt1. destruct (WF_tinv w t W V1) as (l & T). cbn [pairs abs_tab].
    rewrite (lk_hd _ _ (ti_linked _ _ T)), (tinv_abs _ l T).
    destruct l as [|e l2]; [split; [reflexivity|intros; reflexivity]|]. cbn [head_opt map].
    assert (Le : live (gett w t) e) by (apply (lk_live _ _ (ti_linked _ _ T)); left; reflexivity).
    destruct (abs_remove_entry (gett w t) (its w) [] l2 e T) as (T1 & Ab & Cp & As & _).
    rewrite (kv_of_live _ e Le).
    destruct (remove_entry (gett w t) (its w) e) as [h1 I1]. cbn [fst snd app] in *.
    rewrite abs_world_put. split; [|intros; reflexivity]. f_equal.
    unfold abs_tab, with_pairs. cbn [pairs acap aasort]. rewrite Cp, As. f_equal.
    rewrite Ab, (tinv_abs _ _ T). cbn [map]. apply a_remove_cons_eq.
  - (* RemoveLast *) pre W. vt1. destruct (WF_tinv w t W V1) as (l & T). cbn [pairs abs_tab].
    rewrite (lk_tl _ _ (ti_linked _ _ T)), (tinv_abs _ l T), last_opt_map. fold (last_of l).
    destruct (last_of l) as [e|] eqn:EL; [|split; [reflexivity|intros; reflexivity]].
    destruct (last_of_split _ _ _ EL) as (l1 & ->). cbn [option_map].
    assert (Le : live (gett w t) e) by (apply (lk_live _ _ (ti_linked _ _ T)); apply in_or_app; right; left; reflexivity).
    destruct (abs_remove_entry (gett w t) (its w) l1 [] e T) as (T1 & Ab & Cp & As & _).
    rewrite (kv_of_live _ e Le).
    destruct (remove_entry (gett w t) (its w) e) as [h1 I1]. cbn [fst snd] in *.
    rewrite abs_world_put. split; [|intros; reflexivity]. f_equal.
    unfold abs_tab, with_pairs. cbn [pairs acap aasort]. rewrite Cp, As. f_equal.
    rewrite Ab, (tinv_abs _ _ T). rewrite (a_remove_map_split (gett w t) l1 e [] (keys_split_left _ l1 e [] (ti_keys _ _ T))).
    rewrite app_nil_r, map_app. cbn [map]. rewrite removelast_last. reflexivity.
Qed.

(* a move of the entry found for key k, whose exact effect is known, against an ideal list function *)
Lemma refines_move_found : forall w t k (mv : ht -> itab -> positive -> ht * itab) (f0 : amap -> amap),
  WF w -> t < length (tabs w) ->
  (forall h I l1 l2 e, tinv h (l1 ++ e :: l2) -> keyf h e = k ->
      exists l', moved h I e (l1 ++ e :: l2) l' (mv h I e) /\ map (kvf h) l' = f0 (map (kvf h) (l1 ++ e :: l2))) ->
  forall e, find_key (gett w t) k = Some e ->
  abs_world (put_ti w t (fst (mv (gett w t) (its w) e)) (snd (mv (gett w t) (its w) e)))
  = sett0 (abs_world w) t (with_pairs (abs_tab (gett w t)) (f0 (abs (gett w t)))).
Proof.
  intros w t k mv f0 W Ht Hmv e Ef. destruct (WF_tinv w t W Ht) as (l & T).
  destruct (find_key_split _ l k e T Ef) as (l1 & l2 & -> & Hk).
  destruct (Hmv (gett w t) (its w) l1 l2 e T Hk) as (l' & Mv & El').
  destruct (abs_moved _ _ _ _ _ _ T Mv) as (_ & Ab & Cp & As & _).
  rewrite abs_world_put. f_equal. unfold abs_tab, with_pairs. cbn [pairs acap aasort]. rewrite Ab, Cp, As, El', (tinv_abs _ _ T). reflexivity.
Qed.

Lemma mv_front_spec : forall k h I l1 l2 e, tinv h (l1 ++ e :: l2) -> keyf h e = k ->
  exists l', moved h I e (l1 ++ e :: l2) l' (move_front_aux h I e) /\
             map (kvf h) l' = a_move_to (map (kvf h) (l1 ++ e :: l2)) k 0.
Proof.
  intros k h I l1 l2 e T Hk. eexists. split; [apply move_front_exact; exact T|].
  rewrite <- Hk, (a_move_to_map h l1 l2 e 0 (ti_keys _ _ T)). reflexivity.
Qed.

Lemma mv_back_spec : forall k h I l1 l2 e, tinv h (l1 ++ e :: l2) -> keyf h e = k ->
  exists l', moved h I e (l1 ++ e :: l2) l' (move_back_aux h I e) /\
             map (kvf h) l' = a_move_to (map (kvf h) (l1 ++ e :: l2)) k (length (map (kvf h) (l1 ++ e :: l2)) - 1).
Proof.
  intros k h I l1 l2 e T Hk. eexists. split; [apply move_back_exact; exact T|].
  rewrite <- Hk, (a_move_to_map h l1 l2 e _ (ti_keys _ _ T)).
  rewrite map_length. replace (length (l1 ++ e :: l2) - 1) with (length (l1 ++ l2)) by (rewrite !app_length; cbn [length]; lia).
  rewrite Nat.min_id, firstn_all, skipn_all, <- app_assoc. reflexivity.
Qed.

Lemma mv_pos_spec : forall k idx h I l1 l2 e, tinv h (l1 ++ e :: l2) -> keyf h e = k ->
  exists l', moved h I e (l1 ++ e :: l2) l' (move_pos_aux h I e idx) /\
             map (kvf h) l' = a_move_to (map (kvf h) (l1 ++ e :: l2)) k idx.
Proof.
  intros k idx h I l1 l2 e T Hk. eexists. split; [apply move_pos_exact; exact T|].
  rewrite <- Hk, (a_move_to_map h l1 l2 e idx (ti_keys _ _ T)). reflexivity.
Qed.

Lemma mv_repos_spec : forall k h I l1 l2 e, tinv h (l1 ++ e :: l2) -> keyf h e = k ->
  exists l', moved h I e (l1 ++ e :: l2) l' (reposition_aux var h I e) /\
             map (kvf h) l' = l0_reposition var (map (kvf h) (l1 ++ e :: l2)) k.
Proof. intros k h I l1 l2 e T Hk. rewrite <- Hk. apply reposition_aux_exact. exact T. Qed.

Lemma refines_moves : forall w o, WF w ->
  match o with
  | OMoveFront _ _ | OMoveBack _ _ | OMoveBefore _ _ _ | OMoveBehind _ _ _ | OMovePos _ _ _
  | OGetMoveFront _ _ | OGetMoveBack _ _ | OReposition _ _ => refines_step w o
  | _ => True
  end.
Proof.
  intros w o W. destruct o; try exact I.
  - (* MoveFront *) pre W. vt1. destruct (WF_tinv w t W V1) as (l & T). cbn [pairs abs_tab].
    rewrite (find_key_get (gett w t) l k T).
    destruct (find_key (gett w t) k) as [e|] eqn:Ef; [|split; [reflexivity|intros; reflexivity]].
    destruct (find_key_some_in _ l k e T Ef) as [He Hk]. rewrite (val_of_valf _ e (lk_live _ _ (ti_linked _ _ T) e He)).
    rewrite (surjective_pairing (move_front_aux (gett w t) (its w) e)). cbn [fst snd]. split; [|intros; reflexivity].
    apply (refines_move_found w t k (fun h I e => move_front_aux h I e) (fun A => a_move_to A k 0) W V1 (mv_front_spec k) e Ef).
  - (* MoveBack *) pre W. vt1. destruct (WF_tinv w t W V1) as (l & T). cbn [pairs abs_tab].
    rewrite (find_key_get (gett w t) l k T).
    destruct (find_key (gett w t) k) as [e|] eqn:Ef; [|split; [reflexivity|intros; reflexivity]].
    destruct (find_key_some_in _ l k e T Ef) as [He Hk]. rewrite (val_of_valf _ e (lk_live _ _ (ti_linked _ _ T) e He)).
    rewrite (surjective_pairing (move_back_aux (gett w t) (its w) e)). cbn [fst snd]. split; [|intros; reflexivity].
    rewrite (refines_move_found w t k (fun h I e => move_back_aux h I e) (fun A => a_move_to A k (length A - 1)) W V1 (mv_back_spec k) e Ef).
    reflexivity.
  - (* MoveBefore *) pre W. vt1. destruct (WF_tinv w t W V1) as (l & T). cbn [pairs abs_tab].
    rewrite (find_key_get (gett w t) l k T), (find_key_get (gett w t) l k2 T).
    destruct (find_key (gett w t) k) as [e|] eqn:Ef; [|split; [reflexivity|intros; reflexivity]].
    destruct (find_key_some_in _ l k e T Ef) as [He Hk]. rewrite (val_of_valf _ e (lk_live _ _ (ti_linked _ _ T) e He)).
    destruct (find_key (gett w t) k2) as [f|] eqn:Ef2; [|split; [reflexivity|intros; reflexivity]].
    destruct (find_key_some_in _ l k2 f T Ef2) as [Hf Hkf]. rewrite (val_of_valf _ f (lk_live _ _ (ti_linked _ _ T) f Hf)).
    destruct (Pos.eqb e f) eqn:Eef.
    + apply Pos.eqb_eq in Eef. subst f. assert (Ekk : k = k2) by congruence. rewrite Ekk, Z.eqb_refl. split; [reflexivity|intros; reflexivity].
    + apply Pos.eqb_neq in Eef.
      assert (Hkne : Z.eqb k k2 = false).
      { apply Z.eqb_neq. intro Ekk. apply Eef.
        pose proof (find_id_unique _ k l e (ti_keys _ _ T) He Hk) as U1.
        pose proof (find_id_unique _ k l f (ti_keys _ _ T) Hf (eq_trans Hkf (eq_sym Ekk))) as U2. congruence. }
      rewrite Hkne. destruct (in_split _ _ He) as (l1 & l2 & ->).
      assert (Hf' : In f (l1 ++ l2)) by (apply in_app_or in Hf; apply in_or_app; destruct Hf as [Hf|[Hf|Hf]]; [left; exact Hf|congruence|right; exact Hf]).
      destruct (in_split _ _ Hf') as (p & q & Epq).
      destruct (abs_moved _ (its w) e _ _ _ T (move_before_exact _ (its w) l1 l2 p q e f T Epq)) as (_ & Ab & Cp & As & _).
      destruct (move_before_aux (gett w t) (its w) e f) as [h1 J1]. cbn [fst snd] in *.
      rewrite abs_world_put. split; [|intros; reflexivity]. f_equal.
      unfold abs_tab, with_pairs. cbn [pairs acap aasort]. rewrite Ab, Cp, As. f_equal.
      rewrite (tinv_abs _ _ T), <- Hk, <- Hkf. symmetry. apply (l0_move_before_map _ l1 l2 p q e f (ti_keys _ _ T) Epq).
  - (* MoveBehind *) pre W. vt1. destruct (WF_tinv w t W V1) as (l & T). cbn [pairs abs_tab].
    rewrite (find_key_get (gett w t) l k T), (find_key_get (gett w t) l k2 T).
    destruct (find_key (gett w t) k) as [e|] eqn:Ef; [|split; [reflexivity|intros; reflexivity]].
    destruct (find_key_some_in _ l k e T Ef) as [He Hk]. rewrite (val_of_valf _ e (lk_live _ _ (ti_linked _ _ T) e He)).
    destruct (find_key (gett w t) k2) as [f|] eqn:Ef2; [|split; [reflexivity|intros; reflexivity]].
    destruct (find_key_some_in _ l k2 f T Ef2) as [Hf Hkf]. rewrite (val_of_valf _ f (lk_live _ _ (ti_linked _ _ T) f Hf)).
    destruct (Pos.eqb e f) eqn:Eef.
    + apply Pos.eqb_eq in Eef. subst f. assert (Ekk : k = k2) by congruence. rewrite Ekk, Z.eqb_refl. split; [reflexivity|intros; reflexivity].
    + apply Pos.eqb_neq in Eef.
      assert (Hkne : Z.eqb k k2 = false).
      { apply Z.eqb_neq. intro Ekk. apply Eef.
        pose proof (find_id_unique _ k l e (ti_keys _ _ T) He Hk) as U1.
        pose proof (find_id_unique _ k l f (ti_keys _ _ T) Hf (eq_trans Hkf (eq_sym Ekk))) as U2. congruence. }
      rewrite Hkne. destruct (in_split _ _ He) as (l1 & l2 & ->).
      assert (Hf' : In f (l1 ++ l2)) by (apply in_app_or in Hf; apply in_or_app; destruct Hf as [Hf|[Hf|Hf]]; [left; exact Hf|congruence|right; exact Hf]).
      destruct (in_split _ _ Hf') as (p & q & Epq).
      destruct (abs_moved _ (its w) e _ _ _ T (move_behind_exact _ (its w) l1 l2 p q e f T Epq)) as (_ & Ab & Cp & As & _).
      destruct (move_behind_aux (gett w t) (its w) e f) as [h1 J1]. cbn [fst snd] in *.
      rewrite abs_world_put. split; [|intros; reflexivity]. f_equal.
      unfold abs_tab, with_pairs. cbn [pairs acap aasort]. rewrite Ab, Cp, As. f_equal.
      rewrite (tinv_abs _ _ T), <- Hk, <- Hkf. symmetry. apply (l0_move_behind_map _ l1 l2 p q e f (ti_keys _ _ T) Epq).
  - (* MovePos *) pre W. vt1. destruct (WF_tinv w t W V1) as (l & T). cbn [pairs abs_tab].
    rewrite (find_key_get (gett w t) l k T).
    destruct (find_key (gett w t) k) as [e|] eqn:Ef; [|split; [reflexivity|intros; reflexivity]].
    destruct (find_key_some_in _ l k e T Ef) as [He Hk]. rewrite (val_of_valf _ e (lk_live _ _ (ti_linked _ _ T) e He)).
    rewrite (surjective_pairing (move_pos_aux (gett w t) (its w) e idx)). cbn [fst snd]. split; [|intros; reflexivity].
    apply (refines_move_found w t k (fun h I e => move_pos_aux h I e idx) (fun A => a_move_to A k idx) W V1 (mv_pos_spec k idx) e Ef).
  - (* GetMoveFront *) pre W. vt1. destruct (WF_tinv w t W V1) as (l & T). cbn [pairs abs_tab].
    rewrite (find_key_get (gett w t) l k T).
    destruct (find_key (gett w t) k) as [e|] eqn:Ef; [|split; [reflexivity|intros; reflexivity]].
    destruct (find_key_some_in _ l k e T Ef) as [He Hk]. rewrite (val_of_valf _ e (lk_live _ _ (ti_linked _ _ T) e He)).
    rewrite (surjective_pairing (move_front_aux (gett w t) (its w) e)). cbn [fst snd]. split; [|intros; reflexivity].
    apply (refines_move_found w t k (fun h I e => move_front_aux h I e) (fun A => a_move_to A k 0) W V1 (mv_front_spec k) e Ef).
  - (* GetMoveBack *) pre W. vt1. destruct (WF_tinv w t W V1) as (l & T). cbn [pairs abs_tab].
    rewrite (find_key_get (gett w t) l k T).
    destruct (find_key (gett w t) k) as [e|] eqn:Ef; [|split; [reflexivity|intros; reflexivity]].
    destruct (find_key_some_in _ l k e T Ef) as [He Hk]. rewrite (val_of_valf _ e (lk_live _ _ (ti_linked _ _ T) e He)).
    rewrite (surjective_pairing (move_back_aux (gett w t) (its w) e)). cbn [fst snd]. split; [|intros; reflexivity].
    rewrite (refines_move_found w t k (fun h I e => move_back_aux h I e) (fun A => a_move_to A k (length A - 1)) W V1 (mv_back_spec k) e Ef).
    reflexivity.
  - (* Reposition *) pre W. vt1. destruct (WF_tinv w t W V1) as (l & T). cbn [pairs abs_tab].
    rewrite (find_key_get (gett w t) l k T).
    destruct (find_key (gett w t) k) as [e|] eqn:Ef; [|split; [reflexivity|intros; reflexivity]].
    destruct (find_key_some_in _ l k e T Ef) as [He Hk]. rewrite (val_of_valf _ e (lk_live _ _ (ti_linked _ _ T) e He)).
    rewrite (surjective_pairing (reposition_aux var (gett w t) (its w) e)). cbn [fst snd]. split; [|intros; reflexivity].
    apply (refines_move_found w t k (fun h I e => reposition_aux var h I e) (fun A => l0_reposition var A k) W V1 (mv_repos_spec k) e Ef).
Qed.

Lemma abs_tab_with_asort : forall h b, abs_tab (with_asort h b) = mkT0 (abs h) (cap h) b.
Proof. intros. unfold abs_tab. rewrite (abs_congr h (with_asort h b)); reflexivity. Qed.

Lemma setauto_ref : forall v w t l en sortnow, tinv (gett w t) l ->
  let h := gett w t in
  abs_world (fst (if Bool.eqb en (asort h) then (w, ONone)
                  else (sett w t (if sortnow && en then sort_aux v (with_asort h en) else with_asort h en), ONone)))
  = fst (if Bool.eqb en (asort h) then (abs_world w, ONone)
         else (sett0 (abs_world w) t (mkT0 (if sortnow && en then l0_sort_aux v (abs h) else abs h) (cap h) en), ONone))
  /\ snd (if Bool.eqb en (asort h) then (w, ONone)
          else (sett w t (if sortnow && en then sort_aux v (with_asort h en) else with_asort h en), ONone))
     = snd (if Bool.eqb en (asort h) then (abs_world w, ONone)
            else (sett0 (abs_world w) t (mkT0 (if sortnow && en then l0_sort_aux v (abs h) else abs h) (cap h) en), ONone)).
Proof.
  intros v w t l en sortnow T h. destruct (Bool.eqb en (asort h)); [split; reflexivity|]. cbn [fst snd]. split; [|reflexivity].
  rewrite abs_world_sett. f_equal.
  assert (Ta : tinv (with_asort h en) l).
  { destruct T as [L C D F K]. constructor; try assumption. apply (linked_ext _ _ l L); reflexivity. }
  destruct (sortnow && en).
  - destruct (abs_sort_aux v _ l Ta) as (A & C & S & _). unfold abs_tab. rewrite A, C, S.
    rewrite (abs_congr h (with_asort h en)) by reflexivity. reflexivity.
  - apply abs_tab_with_asort.
Qed.

Lemma refines_sorts_sizes : forall w o, WF w ->
  match o with
  | OSortKey _ | OSortVal _ | OSort _ | OSetAutoSort _ _ _ | OEnsure _ _ _ | OShrinkFit _ _ | OEnsureCanPut _ _
  | OClear _ _ | ODestroy _ | OPrealloc _ _ => refines_step w o
  | _ => True
  end.
Proof.
  intros w o W. destruct o; try exact I.
  - (* SortKey *) pre W. vt1. destruct (WF_tinv w t W V1) as (l & T). cbn [fst snd pairs abs_tab].
    destruct (abs_sort_by (gett w t) l cmp_key T) as (A & C & S & _).
    rewrite abs_world_sett. split; [|intros; reflexivity]. f_equal. unfold abs_tab, with_pairs. cbn [pairs acap aasort]. rewrite A, C, S. reflexivity.
  - (* SortVal *) pre W. vt1. destruct (WF_tinv w t W V1) as (l & T). cbn [fst snd pairs abs_tab].
    destruct (abs_sort_by (gett w t) l cmp_val T) as (A & C & S & _).
    rewrite abs_world_sett. split; [|intros; reflexivity]. f_equal. unfold abs_tab, with_pairs. cbn [pairs acap aasort]. rewrite A, C, S. reflexivity.
  - (* Sort *) pre W. vt1. destruct (WF_tinv w t W V1) as (l & T). cbn [fst snd pairs abs_tab].
    destruct (abs_sort_aux var (gett w t) l T) as (A & C & S & _).
    rewrite abs_world_sett. split; [|intros; reflexivity]. f_equal. unfold abs_tab, with_pairs. cbn [pairs acap aasort]. rewrite A, C, S. reflexivity.
  - (* SetAutoSort *) pre W. vt1. destruct (WF_tinv w t W V1) as (l & T). cbn [pairs acap aasort abs_tab].
    pose proof (fun v => setauto_ref v w t l en sortnow T) as G. cbn zeta in G.
    destruct var; [split; [reflexivity|intros; reflexivity]| |].
    + destruct (G VKeys) as [A B]. split; [exact A|intros _; exact B].
    + destruct (G VVals) as [A B]. split; [exact A|intros _; exact B].
  - (* Ensure *) pre W. vt1. destruct (WF_tinv w t W V1) as (l & T).
    destruct (abs_tab_ensure dcap (gett w t) (its w) l n shrink T) as [A B].
    rewrite (surjective_pairing (l0_ensure dcap (abs_tab (gett w t)) n shrink)).
    destruct (ensure_size dcap (gett w t) (its w) n shrink) as [[h1 I1] st]. cbn [fst snd] in *.
    rewrite abs_world_put, A, B. split; [reflexivity|intros; reflexivity].
  - (* ShrinkFit *) pre W. vt1. destruct (WF_tinv w t W V1) as (l & T). cbn [pairs abs_tab].
    assert (El : length (abs (gett w t)) = cnt (gett w t)) by (rewrite (tinv_abs _ l T), map_length; symmetry; apply (ti_cnt _ _ T)).
    rewrite El. destruct (N.ltb _ _); [split; [reflexivity|intros; reflexivity]|].
    destruct (abs_tab_ensure dcap (gett w t) (its w) l (N.of_nat (cnt (gett w t)) + extra) true T) as [A B].
    rewrite (surjective_pairing (l0_ensure dcap (abs_tab (gett w t)) (N.of_nat (cnt (gett w t)) + extra) true)).
    destruct (ensure_size dcap (gett w t) (its w) _ true) as [[h1 I1] st]. cbn [fst snd] in *.
    rewrite abs_world_put, A, B. split; [reflexivity|intros; reflexivity].
  - (* EnsureCanPut *) pre W. vt1. destruct (WF_tinv w t W V1) as (l & T). cbn [pairs abs_tab].
    assert (El : length (abs (gett w t)) = cnt (gett w t)) by (rewrite (tinv_abs _ l T), map_length; symmetry; apply (ti_cnt _ _ T)).
    rewrite El. destruct (N.ltb _ _); [split; [reflexivity|intros; reflexivity]|].
    destruct (abs_tab_ensure dcap (gett w t) (its w) l (N.of_nat (cnt (gett w t)) + extra) false T) as [A B].
    rewrite (surjective_pairing (l0_ensure dcap (abs_tab (gett w t)) (N.of_nat (cnt (gett w t)) + extra) false)).
    destruct (ensure_size dcap (gett w t) (its w) _ false) as [[h1 I1] st]. cbn [fst snd] in *.
    rewrite abs_world_put, A, B. split; [reflexivity|intros; reflexivity].
  - (* Clear *) pre W. vt1. pose proof (abs_tab_clear dcap (gett w t) (its w) release) as A.
    destruct (clear_tab dcap (gett w t) (its w) release) as [h1 I1]. cbn [fst snd] in *.
    rewrite abs_world_put, A. split; [reflexivity|intros; reflexivity].
  - (* Destroy *) pre W. vt1.
    destruct (clear_tab dcap (gett w t) (its w) true) as [h1 I1]. cbn [fst snd].
    rewrite abs_world_put. split; [reflexivity|intros; reflexivity].
  - (* Prealloc *) pre W. vt1.
    destruct (clear_tab dcap (gett w t) (its w) true) as [hold J0].
    set (h0 := mkHt (PositiveMap.empty node) None None 0 0 (fresh hold) true []).
    destruct (abs_tab_ensure dcap h0 J0 [] n false (tinv_empty _ _ _ _)) as [A _].
    destruct (ensure_size dcap h0 J0 n false) as [[h1 I1] st]. cbn [fst snd] in *.
    rewrite abs_world_put, A. split; [reflexivity|intros; reflexivity].
Qed.

Lemma abs_nodup_keys : forall h l, tinv h l -> NoDup (map fst (abs h)).
Proof. intros h l T. rewrite (tinv_abs _ l T), map_map. apply (ti_keys _ _ T). Qed.

Lemma abs_world_put2 : forall w t u ht1 hu I, abs_world (mkW (upd_nth (upd_nth (tabs w) u hu) t ht1) I)
  = sett0 (sett0 (abs_world w) u (abs_tab hu)) t (abs_tab ht1).
Proof. intros. unfold abs_world, sett0. cbn [tabs]. rewrite !map_upd_nth. reflexivity. Qed.

Lemma gett0_sett0_other : forall w0 t u x, t <> u -> gett0 (sett0 w0 u x) t = gett0 w0 t.
Proof. intros. unfold gett0, sett0. apply nth_upd_nth_other. congruence. Qed.

Lemma refines_two_tables : forall w o, WF w ->
  match o with
  | OCopyFrom _ _ _ | OCopyCtor _ _ | OSwap _ _ | OMoveToTable _ _ _ | OCopyToTable _ _ _
  | ORemoveTable _ _ | OIntersect _ _ | OMoveCtor _ _ => refines_step w o
  | _ => True
  end.
Proof.
  intros w o W. destruct o; try exact I.
  - (* CopyFrom *) pre W. vt2. destruct (t =? u); [split; [reflexivity|intros; reflexivity]|].
    destruct (WF_tinv w t W V1) as (l & T). destruct (WF_tinv w u W V2) as (lu & Tu). cbn [pairs abs_tab].
    destruct (abs_tab_copy_from var dcap (gett w t) (its w) l (abs (gett w u)) (cap (gett w u)) clearfirst T (abs_nodup_keys _ lu Tu)) as [A B].
    rewrite (surjective_pairing (l0_copy_from var dcap (abs_tab (gett w t)) (abs (gett w u)) clearfirst)).
    destruct (copy_from var dcap (gett w t) (its w) (abs (gett w u)) (cap (gett w u)) clearfirst) as [[h1 I1] st]. cbn [fst snd] in *.
    rewrite abs_world_put, A, B. split; [reflexivity|intros; reflexivity].
  - (* CopyCtor *) pre W. vt2. destruct (t =? u); [split; [reflexivity|intros; reflexivity]|].
    destruct (WF_tinv w u W V2) as (lu & Tu). cbn [pairs acap abs_tab].
    destruct (clear_tab dcap (gett w t) (its w) true) as [hold J0].
    set (hnew := mkHt (PositiveMap.empty node) None None 0 (cap (gett w u)) (fresh hold) true []).
    destruct (abs_tab_copy_from var dcap hnew J0 [] (abs (gett w u)) (cap (gett w u)) true (tinv_empty _ _ _ _) (abs_nodup_keys _ lu Tu)) as [A _].
    rewrite (surjective_pairing (l0_copy_from var dcap (mkT0 [] (cap (gett w u)) true) (abs (gett w u)) true)).
    destruct (copy_from var dcap hnew J0 (abs (gett w u)) (cap (gett w u)) true) as [[h1 I1] st]. cbn [fst snd] in *.
    rewrite abs_world_put, A. split; [reflexivity|intros; reflexivity].
  - (* Swap *) pre W. vt2. destruct (t =? u) eqn:E; [split; [reflexivity|intros; reflexivity]|]. cbn [fst snd pairs acap aasort abs_tab].
    split; [|intros; reflexivity]. rewrite abs_world_put2.
    set (a := gett w t). set (b := gett w u).
    assert (Ea : abs_tab (mkHt (nodes b) (hd b) (tl b) (cnt b) (cap b) (fresh b) (asort a) (ilist b)) = mkT0 (abs b) (cap b) (asort a)).
    { unfold abs_tab. cbn [cap asort]. f_equal. apply abs_congr; reflexivity. }
    assert (Eb : abs_tab (mkHt (nodes a) (hd a) (tl a) (cnt a) (cap a) (fresh a) (asort b) (ilist a)) = mkT0 (abs a) (cap a) (asort b)).
    { unfold abs_tab. cbn [cap asort]. f_equal. apply abs_congr; reflexivity. }
    rewrite Ea, Eb. reflexivity.
  - (* MoveToTable *) pre W. vt2. destruct (WF_tinv w t W V1) as (l & T). destruct (WF_tinv w u W V2) as (lu & Tu). cbn [pairs abs_tab].
    rewrite (find_key_get (gett w t) l k T).
    destruct (find_key (gett w t) k) as [e|] eqn:Ef; [|split; [reflexivity|intros; reflexivity]].
    destruct (find_key_split _ l k e T Ef) as (l1 & l2 & -> & Hk).
    assert (Le : live (gett w t) e) by (apply (lk_live _ _ (ti_linked _ _ T)); apply in_or_app; right; left; reflexivity).
    rewrite (val_of_valf _ e Le).
    destruct (t =? u) eqn:E; [split; [reflexivity|intros; reflexivity]|]. apply Nat.eqb_neq in E.
    rewrite (put_aux_split var dcap (gett w u)).
    destruct (abs_tab_put_aux var dcap (gett w u) (its w) lu k (valf (gett w t) e) Tu) as [A _].
    set (hu := pa_h _) in *. set (I1 := pa_i _) in *.
    destruct (abs_remove_entry (gett w t) I1 l1 l2 e T) as (_ & Ab & Cp & As & _).
    destruct (remove_entry (gett w t) I1 e) as [ht1 I2]. cbn [fst snd] in *.
    rewrite abs_world_put2, A. split; [|intros; reflexivity]. f_equal.
    unfold abs_tab, with_pairs. cbn [pairs acap aasort]. rewrite Ab, Cp, As, Hk. reflexivity.
  - (* CopyToTable *) pre W. vt2. destruct (WF_tinv w t W V1) as (l & T). destruct (WF_tinv w u W V2) as (lu & Tu). cbn [pairs abs_tab].
    rewrite (find_key_get (gett w t) l k T).
    destruct (find_key (gett w t) k) as [e|] eqn:Ef; [|split; [reflexivity|intros; reflexivity]].
    destruct (find_key_some_in _ l k e T Ef) as [He Hk]. rewrite (val_of_valf _ e (lk_live _ _ (ti_linked _ _ T) e He)).
    destruct (t =? u); [split; [reflexivity|intros; reflexivity]|].
    rewrite (put_aux_split var dcap (gett w u)).
    destruct (abs_tab_put_aux var dcap (gett w u) (its w) lu k (valf (gett w t) e) Tu) as [A _]. cbn [fst snd].
    rewrite abs_world_put, A. split; [reflexivity|intros; reflexivity].
  - (* RemoveTable *) pre W. vt2. destruct (WF_tinv w t W V1) as (l & T). destruct (WF_tinv w u W V2) as (lu & Tu). cbn [pairs abs_tab].
    assert (El : length (abs (gett w t)) = cnt (gett w t)) by (rewrite (tinv_abs _ l T), map_length; symmetry; apply (ti_cnt _ _ T)).
    destruct (t =? u).
    + pose proof (abs_tab_clear dcap (gett w t) (its w) false) as A.
      destruct (clear_tab dcap (gett w t) (its w) false) as [h1 I1]. cbn [fst snd] in *.
      rewrite abs_world_put, A, El. split; [reflexivity|intros; reflexivity].
    + destruct (abs_remove_keys (map fst (abs (gett w u))) (gett w t) (its w) l T) as (_ & A & C & Cp & As).
      destruct (remove_keys (gett w t) (its w) (map fst (abs (gett w u)))) as [[h1 I1] c]. cbn [fst snd] in *.
      assert (Ef : abs h1 = filter (fun kv => negb (is_some (a_get (abs (gett w u)) (fst kv)))) (abs (gett w t))).
      { rewrite A, (fold_a_remove_filter _ _ (abs_nodup_keys _ l T)). apply filter_ext. intros kv. rewrite is_some_a_get. reflexivity. }
      rewrite abs_world_put. split.
      * f_equal. unfold abs_tab, with_pairs. cbn [pairs acap aasort]. rewrite Ef, Cp, As. reflexivity.
      * intros _. f_equal. rewrite <- Ef. lia.
  - (* Intersect *) pre W. vt2. destruct (t =? u); [split; [reflexivity|intros; reflexivity]|].
    destruct (WF_tinv w t W V1) as (l & T). cbn [pairs abs_tab].
    pose proof (abs_intersect_ids (abs (gett w u)) (gett w t) (its w) l T) as X. rewrite (tinv_ids _ l T).
    cbn zeta in X. destruct X as (_ & A & C & Cp & As).
    destruct (intersect_ids (gett w t) (its w) (abs (gett w u)) l) as [[h1 I1] c]. cbn [fst snd] in *.
    rewrite abs_world_put. split.
    + f_equal. unfold abs_tab, with_pairs. cbn [pairs acap aasort]. rewrite A, Cp, As. reflexivity.
    + intros _. f_equal. rewrite <- A. lia.
  - (* MoveCtor *) pre W. vt2. destruct (t =? u) eqn:E; [split; [reflexivity|intros; reflexivity]|]. cbn [pairs acap aasort abs_tab].
    destruct (clear_tab dcap (gett w t) (its w) true) as [hold J0]. cbn [fst snd].
    split; [|intros; reflexivity]. rewrite abs_world_put2.
    set (b := gett w u).
    assert (Ea : abs_tab (mkHt (nodes b) (hd b) (tl b) (cnt b) (cap b) (fresh b) true (ilist b)) = mkT0 (abs b) (cap b) true).
    { unfold abs_tab. cbn [cap asort]. f_equal. apply abs_congr; reflexivity. }
    rewrite Ea. reflexivity.
Qed.

Lemma abs_world_unregister : forall w i, abs_world (unregister w i) = abs_world w.
Proof.
  intros w i. unfold unregister. destruct (geti (its w) i) as [it|]; [|reflexivity].
  destruct (inoreg it); [reflexivity|]. destruct (iown it) as [t|]; [|reflexivity].
  rewrite abs_world_sett, abs_tab_with_ilist. apply sett0_same.
Qed.

Lemma abs_world_register : forall w i t c bw nr scr, abs_world (register w i t c bw nr scr) = abs_world w.
Proof.
  intros. unfold register. destruct nr; [reflexivity|]. destruct c; [|reflexivity].
  rewrite abs_world_sett, abs_tab_with_ilist. rewrite gett_seti_w. rewrite abs_world_seti. apply sett0_same.
Qed.

Lemma refines_iters : forall w o, is_iter_op o = true -> refines_step w o.
Proof.
  intros w o Hi. unfold refines_step. rewrite Hi. split; [|discriminate].
  destruct o; try discriminate Hi; cbn [step1 step0 fst].
  - destruct (valid_i w i && valid_t w t); [|reflexivity]. cbn [fst]. rewrite abs_world_register. apply abs_world_unregister.
  - destruct (valid_i w i && valid_t w t); [|reflexivity]. cbn [fst]. rewrite abs_world_register. apply abs_world_unregister.
  - destruct (geti (its w) i); reflexivity.
  - destruct (geti (its w) i); reflexivity.
  - destruct (geti (its w) i); reflexivity.
  - destruct (valid_i w i); [|reflexivity]. cbn [fst]. rewrite abs_world_seti. apply abs_world_unregister.
  - destruct (valid_i w i && negb (i =? j)); [|reflexivity]. destruct (geti (its w) j) as [src|]; [|reflexivity]. cbn [fst].
    destruct (iown src); [rewrite abs_world_register|rewrite abs_world_seti]; apply abs_world_unregister.
  - reflexivity.
Qed.

(* the refinement theorem: one step *)
Theorem step_refines : forall w o, WF w -> refines_step w o.
Proof.
  intros w o W.
  pose proof (refines_put_family w o W) as R1. pose proof (refines_queries w o W) as R2.
  pose proof (refines_removals w o W) as R3. pose proof (refines_moves w o W) as R4.
  pose proof (refines_sorts_sizes w o W) as R5. pose proof (refines_two_tables w o W) as R6.
  destruct o; try assumption; apply refines_iters; reflexivity.
Qed.

(* all finite histories *)
Fixpoint run0 (w0 : world0) (ops : list op) : world0 :=
  match ops with [] => w0 | o :: r => run0 (fst (step0 var dcap w0 o)) r end.

Fixpoint outs1 (w : world) (ops : list op) : list out :=
  match ops with [] => [] | o :: r => snd (step1 var dcap w o) :: outs1 (fst (step1 var dcap w o)) r end.
Fixpoint outs0 (w0 : world0) (ops : list op) : list out :=
  match ops with [] => [] | o :: r => snd (step0 var dcap w0 o) :: outs0 (fst (step0 var dcap w0 o)) r end.

Lemma run1_cons : forall w o r, run1 var dcap w (o :: r) = run1 var dcap (fst (step1 var dcap w o)) r.
Proof. reflexivity. Qed.

Theorem run_refines : forall ops w, WF w ->
  abs_world (run1 var dcap w ops) = run0 (abs_world w) ops /\
  (Forall (fun o => is_iter_op o = false) ops -> outs1 w ops = outs0 (abs_world w) ops).
Proof.
  induction ops as [|o r IH]; intros w W; [split; reflexivity|].
  destruct (step_refines w o W) as [A B].
  destruct (IH (fst (step1 var dcap w o)) (step1_WF var dcap w o W)) as [A2 B2].
  rewrite run1_cons. cbn [run0 outs1 outs0]. rewrite <- A. split; [exact A2|].
  intros F. inversion F; subst. rewrite (B H1). f_equal. apply B2. assumption.
Qed.

Theorem init_refines : forall nt ni ops,
  abs_world (run1 var dcap (init_world dcap nt ni) ops) = run0 (abs_world (init_world dcap nt ni)) ops /\
  (Forall (fun o => is_iter_op o = false) ops ->
   outs1 (init_world dcap nt ni) ops = outs0 (abs_world (init_world dcap nt ni)) ops).
Proof. intros. apply run_refines. apply WF_init. Qed.

End Ref.
