(* C16 -- the arithmetic of rotating by cycles: the orbits of q |-> (q + s) mod m.  Used by the rotation inside
   Merge (gcd cycles) and by Normalize (cycles counted until every slot has moved). *)
From Coq Require Import List Arith Lia.
Import ListNotations.
Local Open Scope nat_scope.

Lemma NoDup_map_seq {B} (f : nat -> B) n : forall a,
  (forall i j, a <= i < j -> j < a + n -> f i <> f j) -> NoDup (map f (seq a n)).
Proof.
  induction n as [|n IH]; intros a H; cbn [seq map]; constructor.
  - intros Hin. apply in_map_iff in Hin. destruct Hin as (j & E & Hj). apply in_seq in Hj.
    apply (H a j); [lia|lia|symmetry; exact E].
  - apply IH. intros i j Hi Hj. apply H; lia.
Qed.

Lemma add_mod_step q s m : q < m -> s < m -> (q + s) mod m = if s <? m - q then q + s else q + s - m.
Proof.
  intros Hq Hs. destruct (s <? m - q) eqn:E.
  - apply Nat.ltb_lt in E. apply Nat.mod_small. lia.
  - apply Nat.ltb_ge in E. symmetry. apply (Nat.mod_unique _ _ 1); lia.
Qed.

Lemma add_mod_cancel x y m : x < m -> y < m -> (x + y) mod m = x -> y = 0.
Proof. intros Hx Hy H. rewrite add_mod_step in H by assumption. destruct (y <? m - x) eqn:E; [lia|apply Nat.ltb_ge in E; lia]. Qed.

Lemma mod_mod_divide a m g : g <> 0 -> m <> 0 -> Nat.divide g m -> (a mod m) mod g = a mod g.
Proof.
  intros Hg Hm [c Hc].
  assert (E : a = a mod m + (c * (a / m)) * g) by (pose proof (Nat.div_mod a m Hm); nia).
  rewrite E at 2. symmetry. apply Nat.mod_add. exact Hg.
Qed.

Section Orbit.
Variables (m s : nat).
Hypothesis Hs : 0 < s < m.
Definition og := Nat.gcd m s.
Definition oT := m / og.
Definition posn (n i : nat) : nat := (n + i * s) mod m.

Lemma og_pos : 0 < og.
Proof.
  unfold og. destruct (Nat.gcd m s) eqn:E; [|lia]. pose proof (Nat.gcd_divide_l m s) as [c Hc]. rewrite E in Hc. lia.
Qed.

Lemma m_eq : m = og * oT.
Proof.
  unfold oT. apply Nat.div_exact; [pose proof og_pos; lia|]. apply Nat.mod_divide; [pose proof og_pos; lia|].
  apply Nat.gcd_divide_l.
Qed.

Lemma s_eq : s = og * (s / og).
Proof.
  apply Nat.div_exact; [pose proof og_pos; lia|]. apply Nat.mod_divide; [pose proof og_pos; lia|].
  apply Nat.gcd_divide_r.
Qed.

Lemma oT_pos : 0 < oT.
Proof. pose proof m_eq. destruct oT; [|lia]. lia. Qed.

Lemma og_le : og <= m - s.
Proof.
  pose proof m_eq as E1. pose proof s_eq as E2. pose proof og_pos.
  assert (s / og < oT) by nia. nia.
Qed.

Lemma oT_mult : (oT * s) mod m = 0.
Proof.
  apply Nat.mod_divide; [lia|]. exists (s / og). pose proof m_eq as E1. pose proof s_eq as E2.
  remember (s / og) as a. remember oT as t. nia.
Qed.

Lemma oT_min i : 0 < i < oT -> (i * s) mod m <> 0.
Proof.
  intros Hi H0. apply Nat.mod_divide in H0; [|lia]. destruct H0 as [c Hc].
  pose proof m_eq as E1. pose proof s_eq as E2. pose proof og_pos as Hg.
  assert (Hc' : i * (s / og) = c * oT) by nia.
  assert (G : Nat.gcd oT (s / og) = 1) by (unfold oT; apply Nat.gcd_div_gcd; [unfold og in *; lia|reflexivity]).
  assert (D : Nat.divide oT (s / og * i)) by (exists c; lia).
  apply Nat.gauss in D; [|exact G]. destruct D as [d Hd]. destruct d; nia.
Qed.

Lemma posn_lt n i : posn n i < m.
Proof. apply Nat.mod_upper_bound. lia. Qed.

Lemma posn_0 n : n < m -> posn n 0 = n.
Proof. intros H. unfold posn. rewrite Nat.add_0_r. apply Nat.mod_small. exact H. Qed.

Lemma posn_S n i : posn n (S i) = (posn n i + s) mod m.
Proof. unfold posn. rewrite Nat.add_mod_idemp_l by lia. f_equal. lia. Qed.

Lemma posn_T n : n < m -> posn n oT = n.
Proof.
  intros H. unfold posn. pose proof oT_mult as HT. apply Nat.mod_divide in HT; [|lia]. destruct HT as [c Hc].
  rewrite Hc, Nat.mod_add by lia. apply Nat.mod_small. exact H.
Qed.

Lemma posn_inj n i j : i < j < oT -> posn n i <> posn n j.
Proof.
  intros Hij E. unfold posn in E.
  replace (n + j * s) with ((n + i * s) + (j - i) * s) in E by nia.
  rewrite (Nat.add_mod (n + i * s)) in E by lia. symmetry in E.
  apply add_mod_cancel in E; try (apply Nat.mod_upper_bound; lia).
  apply (oT_min (j - i)); [lia|exact E].
Qed.

Lemma posn_class n i : n < og -> posn n i mod og = n.
Proof.
  intros Hn. unfold posn. pose proof og_pos.
  rewrite mod_mod_divide; [|lia|lia|apply Nat.gcd_divide_l].
  pose proof s_eq as E2. rewrite E2. replace (n + i * (og * (s / og))) with (n + (i * (s / og)) * og) by lia.
  rewrite Nat.mod_add by lia. apply Nat.mod_small. exact Hn.
Qed.

Lemma orbit_cover n q : n < og -> q < m -> q mod og = n -> exists i, i < oT /\ posn n i = q.
Proof.
  intros Hn Hq Hc. pose proof og_pos as Hg. pose proof m_eq as E1.
  set (L := map (posn n) (seq 0 oT)). set (C := map (fun r => n + og * r) (seq 0 oT)).
  assert (ND : NoDup L).
  { apply NoDup_map_seq. intros i j Hi Hj. apply posn_inj. lia. }
  assert (IN : incl L C).
  { intros x Hx. apply in_map_iff in Hx. destruct Hx as (i & <- & Hi). apply in_map_iff.
    exists (posn n i / og). pose proof (posn_class n i Hn) as Hcl. pose proof (posn_lt n i) as Hlt.
    pose proof (Nat.div_mod (posn n i) og ltac:(lia)) as Hd. split; [lia|].
    apply in_seq. split; [lia|]. apply Nat.div_lt_upper_bound; lia. }
  assert (IN' : incl C L).
  { apply NoDup_length_incl; [exact ND| |exact IN]. unfold L, C. rewrite !map_length. lia. }
  assert (Hq' : In q C).
  { apply in_map_iff. exists (q / og). pose proof (Nat.div_mod q og ltac:(lia)) as Hd. split; [lia|].
    apply in_seq. split; [lia|]. apply Nat.div_lt_upper_bound; lia. }
  apply IN' in Hq'. apply in_map_iff in Hq'. destruct Hq' as (i & E & Hi). apply in_seq in Hi.
  exists i. split; [lia|exact E].
Qed.

End Orbit.

(* gcd by the remainder loop *)
Lemma gcd_unfold n m : n <> 0 -> Nat.gcd n m = Nat.gcd (m mod n) n.
Proof. intros H. destruct n; [lia|]. reflexivity. Qed.
