(* Proofs about the storage-layer model of muscle's Hashtable (HtStore.v):
   structural invariant, its preservation, correctness of the chain walk,
   finite-map laws, lossless index narrowing, rebuild and run-level refinement. *)
From Coq Require Import List Arith ZArith NArith Bool Lia.
From Muscle Require Import Cont.HtStore.
Import ListNotations.

(* ------------------------------------------------------------------ sto_upd *)

Lemma sto_upd_length : forall l i f, length (sto_upd l i f) = length l.
Proof.
  induction l as [|x r IH]; intros i f; simpl; [reflexivity|].
  destruct i; simpl; [reflexivity|]. rewrite IH. reflexivity.
Qed.

Lemma sto_nth_upd : forall l i f j d,
  nth j (sto_upd l i f) d = if (i =? j) && (i <? length l) then f (nth j l d) else nth j l d.
Proof.
  induction l as [|x r IH]; intros i f j d; simpl.
  - destruct j; destruct (i =? _); reflexivity.
  - destruct i as [|i]; destruct j as [|j]; simpl; try reflexivity.
    rewrite IH. reflexivity.
Qed.

Ltac st_gs :=
  intros;
  unfold st_gh, st_gk, st_gv, st_gp, st_gn, st_gmt, st_gmf, st_slot,
         st_set_bprev, st_set_bnext, st_set_mapto, st_set_mfrom, st_set_pay, st_set_v;
  rewrite sto_nth_upd; destruct (_ && _); reflexivity.

Lemma st_len_set_bprev : forall sl i v, length (st_set_bprev sl i v) = length sl.
Proof. intros; unfold st_set_bprev; apply sto_upd_length. Qed.
Lemma st_gh_set_bprev : forall sl i v j, st_gh (st_set_bprev sl i v) j = st_gh sl j.
Proof. st_gs. Qed.
Lemma st_gk_set_bprev : forall sl i v j, st_gk (st_set_bprev sl i v) j = st_gk sl j.
Proof. st_gs. Qed.
Lemma st_gv_set_bprev : forall sl i v j, st_gv (st_set_bprev sl i v) j = st_gv sl j.
Proof. st_gs. Qed.
Lemma st_gp_set_bprev : forall sl i v j, st_gp (st_set_bprev sl i v) j = if (i =? j) && (i <? length sl) then v else st_gp sl j.
Proof. st_gs. Qed.
Lemma st_gn_set_bprev : forall sl i v j, st_gn (st_set_bprev sl i v) j = st_gn sl j.
Proof. st_gs. Qed.
Lemma st_gmt_set_bprev : forall sl i v j, st_gmt (st_set_bprev sl i v) j = st_gmt sl j.
Proof. st_gs. Qed.
Lemma st_gmf_set_bprev : forall sl i v j, st_gmf (st_set_bprev sl i v) j = st_gmf sl j.
Proof. st_gs. Qed.
Lemma st_len_set_bnext : forall sl i v, length (st_set_bnext sl i v) = length sl.
Proof. intros; unfold st_set_bnext; apply sto_upd_length. Qed.
Lemma st_gh_set_bnext : forall sl i v j, st_gh (st_set_bnext sl i v) j = st_gh sl j.
Proof. st_gs. Qed.
Lemma st_gk_set_bnext : forall sl i v j, st_gk (st_set_bnext sl i v) j = st_gk sl j.
Proof. st_gs. Qed.
Lemma st_gv_set_bnext : forall sl i v j, st_gv (st_set_bnext sl i v) j = st_gv sl j.
Proof. st_gs. Qed.
Lemma st_gp_set_bnext : forall sl i v j, st_gp (st_set_bnext sl i v) j = st_gp sl j.
Proof. st_gs. Qed.
Lemma st_gn_set_bnext : forall sl i v j, st_gn (st_set_bnext sl i v) j = if (i =? j) && (i <? length sl) then v else st_gn sl j.
Proof. st_gs. Qed.
Lemma st_gmt_set_bnext : forall sl i v j, st_gmt (st_set_bnext sl i v) j = st_gmt sl j.
Proof. st_gs. Qed.
Lemma st_gmf_set_bnext : forall sl i v j, st_gmf (st_set_bnext sl i v) j = st_gmf sl j.
Proof. st_gs. Qed.
Lemma st_len_set_mapto : forall sl i v, length (st_set_mapto sl i v) = length sl.
Proof. intros; unfold st_set_mapto; apply sto_upd_length. Qed.
Lemma st_gh_set_mapto : forall sl i v j, st_gh (st_set_mapto sl i v) j = st_gh sl j.
Proof. st_gs. Qed.
Lemma st_gk_set_mapto : forall sl i v j, st_gk (st_set_mapto sl i v) j = st_gk sl j.
Proof. st_gs. Qed.
Lemma st_gv_set_mapto : forall sl i v j, st_gv (st_set_mapto sl i v) j = st_gv sl j.
Proof. st_gs. Qed.
Lemma st_gp_set_mapto : forall sl i v j, st_gp (st_set_mapto sl i v) j = st_gp sl j.
Proof. st_gs. Qed.
Lemma st_gn_set_mapto : forall sl i v j, st_gn (st_set_mapto sl i v) j = st_gn sl j.
Proof. st_gs. Qed.
Lemma st_gmt_set_mapto : forall sl i v j, st_gmt (st_set_mapto sl i v) j = if (i =? j) && (i <? length sl) then v else st_gmt sl j.
Proof. st_gs. Qed.
Lemma st_gmf_set_mapto : forall sl i v j, st_gmf (st_set_mapto sl i v) j = st_gmf sl j.
Proof. st_gs. Qed.
Lemma st_len_set_mfrom : forall sl i v, length (st_set_mfrom sl i v) = length sl.
Proof. intros; unfold st_set_mfrom; apply sto_upd_length. Qed.
Lemma st_gh_set_mfrom : forall sl i v j, st_gh (st_set_mfrom sl i v) j = st_gh sl j.
Proof. st_gs. Qed.
Lemma st_gk_set_mfrom : forall sl i v j, st_gk (st_set_mfrom sl i v) j = st_gk sl j.
Proof. st_gs. Qed.
Lemma st_gv_set_mfrom : forall sl i v j, st_gv (st_set_mfrom sl i v) j = st_gv sl j.
Proof. st_gs. Qed.
Lemma st_gp_set_mfrom : forall sl i v j, st_gp (st_set_mfrom sl i v) j = st_gp sl j.
Proof. st_gs. Qed.
Lemma st_gn_set_mfrom : forall sl i v j, st_gn (st_set_mfrom sl i v) j = st_gn sl j.
Proof. st_gs. Qed.
Lemma st_gmt_set_mfrom : forall sl i v j, st_gmt (st_set_mfrom sl i v) j = st_gmt sl j.
Proof. st_gs. Qed.
Lemma st_gmf_set_mfrom : forall sl i v j, st_gmf (st_set_mfrom sl i v) j = if (i =? j) && (i <? length sl) then v else st_gmf sl j.
Proof. st_gs. Qed.
Lemma st_len_set_pay : forall sl i h k v, length (st_set_pay sl i h k v) = length sl.
Proof. intros; unfold st_set_pay; apply sto_upd_length. Qed.
Lemma st_gh_set_pay : forall sl i h k v j, st_gh (st_set_pay sl i h k v) j = if (i =? j) && (i <? length sl) then h else st_gh sl j.
Proof. st_gs. Qed.
Lemma st_gk_set_pay : forall sl i h k v j, st_gk (st_set_pay sl i h k v) j = if (i =? j) && (i <? length sl) then k else st_gk sl j.
Proof. st_gs. Qed.
Lemma st_gv_set_pay : forall sl i h k v j, st_gv (st_set_pay sl i h k v) j = if (i =? j) && (i <? length sl) then v else st_gv sl j.
Proof. st_gs. Qed.
Lemma st_gp_set_pay : forall sl i h k v j, st_gp (st_set_pay sl i h k v) j = st_gp sl j.
Proof. st_gs. Qed.
Lemma st_gn_set_pay : forall sl i h k v j, st_gn (st_set_pay sl i h k v) j = st_gn sl j.
Proof. st_gs. Qed.
Lemma st_gmt_set_pay : forall sl i h k v j, st_gmt (st_set_pay sl i h k v) j = st_gmt sl j.
Proof. st_gs. Qed.
Lemma st_gmf_set_pay : forall sl i h k v j, st_gmf (st_set_pay sl i h k v) j = st_gmf sl j.
Proof. st_gs. Qed.
Lemma st_len_set_v : forall sl i v, length (st_set_v sl i v) = length sl.
Proof. intros; unfold st_set_v; apply sto_upd_length. Qed.
Lemma st_gh_set_v : forall sl i v j, st_gh (st_set_v sl i v) j = st_gh sl j.
Proof. st_gs. Qed.
Lemma st_gk_set_v : forall sl i v j, st_gk (st_set_v sl i v) j = st_gk sl j.
Proof. st_gs. Qed.
Lemma st_gv_set_v : forall sl i v j, st_gv (st_set_v sl i v) j = if (i =? j) && (i <? length sl) then v else st_gv sl j.
Proof. st_gs. Qed.
Lemma st_gp_set_v : forall sl i v j, st_gp (st_set_v sl i v) j = st_gp sl j.
Proof. st_gs. Qed.
Lemma st_gn_set_v : forall sl i v j, st_gn (st_set_v sl i v) j = st_gn sl j.
Proof. st_gs. Qed.
Lemma st_gmt_set_v : forall sl i v j, st_gmt (st_set_v sl i v) j = st_gmt sl j.
Proof. st_gs. Qed.
Lemma st_gmf_set_v : forall sl i v j, st_gmf (st_set_v sl i v) j = st_gmf sl j.
Proof. st_gs. Qed.
Global Hint Rewrite st_len_set_bprev st_gh_set_bprev st_gk_set_bprev st_gv_set_bprev st_gp_set_bprev st_gn_set_bprev st_gmt_set_bprev st_gmf_set_bprev st_len_set_bnext st_gh_set_bnext st_gk_set_bnext st_gv_set_bnext st_gp_set_bnext st_gn_set_bnext st_gmt_set_bnext st_gmf_set_bnext st_len_set_mapto st_gh_set_mapto st_gk_set_mapto st_gv_set_mapto st_gp_set_mapto st_gn_set_mapto st_gmt_set_mapto st_gmf_set_mapto st_len_set_mfrom st_gh_set_mfrom st_gk_set_mfrom st_gv_set_mfrom st_gp_set_mfrom st_gn_set_mfrom st_gmt_set_mfrom st_gmf_set_mfrom st_len_set_pay st_gh_set_pay st_gk_set_pay st_gv_set_pay st_gp_set_pay st_gn_set_pay st_gmt_set_pay st_gmf_set_pay st_len_set_v st_gh_set_v st_gk_set_v st_gv_set_v st_gp_set_v st_gn_set_v st_gmt_set_v st_gmf_set_v : stg.

(* ------------------------------------------------------------------ doubly linked lists over getter functions *)

Fixpoint st_lk (gp gn : nat -> option nat) (p : option nat) (l : list nat) : Prop :=
  match l with
  | [] => True
  | x :: r => gp x = p /\ gn x = hd_error r /\ st_lk gp gn (Some x) r
  end.

Lemma st_lk_ext : forall gp gn gp' gn' l p,
  (forall x, In x l -> gp' x = gp x /\ gn' x = gn x) ->
  st_lk gp gn p l -> st_lk gp' gn' p l.
Proof.
  intros gp gn gp' gn'. induction l as [|x r IH]; intros p Hext Hl; simpl in *; [exact I|].
  destruct Hl as (Hp & Hn & Hr).
  destruct (Hext x (or_introl eq_refl)) as [E1 E2].
  repeat split; try congruence.
  apply IH; [|exact Hr]. intros y Hy. apply Hext. right; exact Hy.
Qed.

(* facts about the element in the middle of a linked list *)
Lemma st_lk_mid : forall gp gn l1 x l2 p,
  st_lk gp gn p (l1 ++ x :: l2) ->
  gn x = hd_error l2 /\ gp x = match rev l1 with [] => p | y :: _ => Some y end.
Proof.
  intros gp gn. induction l1 as [|a l1 IH]; intros x l2 p H; simpl in *.
  - destruct H as (Hp & Hn & _). split; assumption.
  - destruct H as (_ & _ & Hr). destruct (IH _ _ _ Hr) as [E1 E2]. split; [exact E1|].
    rewrite E2. destruct (rev l1) as [|y t] eqn:Er; simpl; reflexivity.
Qed.

Lemma st_hd_app_cons : forall (l1 : list nat) x l2, hd_error (l1 ++ x :: l2) = hd_error (l1 ++ [x]).
Proof. intros [|a l1] x l2; reflexivity. Qed.

Lemma st_lk_unlink : forall gp gn gp' gn' x l1 l2 p,
  st_lk gp gn p (l1 ++ x :: l2) ->
  NoDup (l1 ++ x :: l2) ->
  (forall y, p = Some y -> ~ In y (l1 ++ x :: l2)) ->
  (forall y, In y (l1 ++ l2) ->
     gp' y = match gn x with Some n => if n =? y then gp x else gp y | None => gp y end /\
     gn' y = match gp x with Some q => if q =? y then gn x else gn y | None => gn y end) ->
  st_lk gp' gn' p (l1 ++ l2).
Proof.
  intros gp gn gp' gn' x. induction l1 as [|a l1 IH]; intros l2 p Hl Hnd Hp Hupd; simpl in *.
  - destruct Hl as (Hpx & Hnx & Hr).
    destruct l2 as [|n r]; simpl in *; [exact I|].
    destruct Hr as (Hpn & Hnn & Hrr).
    assert (Hxn : x <> n). { apply NoDup_cons_iff in Hnd as [Hni _]. intro Hc; apply Hni; left; symmetry; exact Hc. }
    destruct (Hupd n (or_introl eq_refl)) as [E1 E2].
    rewrite Hnx in E1. rewrite Nat.eqb_refl in E1.
    repeat split.
    + congruence.
    + rewrite E2. rewrite Hpx. destruct p as [q|]; [|exact Hnn].
      destruct (Nat.eqb_spec q n) as [->|Hqn]; [|exact Hnn].
      exfalso. apply (Hp n eq_refl). right; left; reflexivity.
    + apply st_lk_ext with (gp := gp) (gn := gn); [|exact Hrr].
      intros y Hy. destruct (Hupd y (or_intror Hy)) as [F1 F2].
      rewrite Hnx in F1. rewrite Hpx in F2.
      assert (n <> y).
      { apply NoDup_cons_iff in Hnd as [_ Hnd2]. apply NoDup_cons_iff in Hnd2 as [Hni _]. intro Hc; apply Hni; rewrite Hc; exact Hy. }
      destruct (Nat.eqb_spec n y); [contradiction|].
      split; [exact F1|].
      destruct p as [q|]; [|exact F2].
      destruct (Nat.eqb_spec q y) as [->|]; [|exact F2].
      exfalso. apply (Hp y eq_refl). right; right; exact Hy.
  - destruct Hl as (Hpa & Hna & Hr).
    apply NoDup_cons_iff in Hnd as [Hani Hnd'].
    destruct (st_lk_mid _ _ _ _ _ _ Hr) as [Mn Mp].
    destruct (Hupd a (or_introl eq_refl)) as [E1 E2].
    assert (Hax : a <> x). { intro; subst. apply Hani. apply in_or_app. right; left; reflexivity. }
    repeat split.
    + rewrite E1. rewrite Mn. destruct l2 as [|n r]; simpl; [exact Hpa|].
      destruct (Nat.eqb_spec n a) as [->|]; [|exact Hpa].
      exfalso. apply Hani. apply in_or_app. right; right; left; reflexivity.
    + rewrite E2. rewrite Mp.
      destruct l1 as [|c l1']; simpl in *.
      * rewrite Nat.eqb_refl. exact Mn.
      * destruct (rev l1' ++ [c]) as [|y t] eqn:Er.
        { destruct (rev l1'); discriminate. }
        assert (Hy : In y (c :: l1')).
        { apply in_rev. simpl. rewrite Er. left; reflexivity. }
        destruct (Nat.eqb_spec y a) as [->|]; [|exact Hna].
        exfalso. apply Hani. destruct Hy as [Hy|Hy]; [left; exact Hy|right; apply in_or_app; left; exact Hy].
    + apply IH; try assumption.
      * intros y Hy. injection Hy as <-. exact Hani.
      * intros y Hy. apply Hupd. right; exact Hy.
Qed.

Lemma st_hd_unlink : forall (l1 : list nat) x l2 (fh : option nat),
  NoDup (l1 ++ x :: l2) -> fh = hd_error (l1 ++ x :: l2) ->
  (if st_opt_eqb fh (Some x) then hd_error l2 else fh) = hd_error (l1 ++ l2).
Proof.
  intros l1 x l2 fh Hnd ->. destruct l1 as [|a l1]; simpl in *.
  - rewrite Nat.eqb_refl. reflexivity.
  - destruct (Nat.eqb_spec a x) as [->|]; [|reflexivity].
    exfalso. inversion Hnd as [|? ? Hni _]; subst. apply Hni. apply in_or_app; right; left; reflexivity.
Qed.

Lemma st_nodup_remove_mid : forall (l1 : list nat) x l2, NoDup (l1 ++ x :: l2) -> NoDup (l1 ++ l2) /\ ~ In x (l1 ++ l2).
Proof.
  intros l1 x l2 H. split; [apply NoDup_remove_1 with (a := x); exact H | apply NoDup_remove_2; exact H].
Qed.

(* pigeonhole *)
Lemma st_nodup_bound : forall (l : list nat) n, NoDup l -> (forall x, In x l -> x < n) -> length l <= n.
Proof.
  intros l n Hnd Hb. rewrite <- (seq_length n 0).
  apply NoDup_incl_length; [exact Hnd|]. intros x Hx. apply in_seq. specialize (Hb x Hx). lia.
Qed.

Lemma st_nodup_bound_strict : forall (l : list nat) n e, NoDup l -> (forall x, In x l -> x < n) -> e < n -> ~ In e l -> length l < n.
Proof.
  intros l n e Hnd Hb He Hni.
  assert (H : length (e :: l) <= n).
  { apply st_nodup_bound; [constructor; assumption|]. intros x [<-|Hx]; [exact He|apply Hb; exact Hx]. }
  simpl in H. lia.
Qed.

(* ------------------------------------------------------------------ the invariant *)

Definition st_in_bkt (sl : list slot) (x b : nat) : Prop :=
  exists h, st_gh sl x = Some h /\ st_bkt (length sl) h = b.

Definition st_perm (sl : list slot) : Prop :=
  forall i, i < length sl ->
    st_gmt sl i < length sl /\ st_gmf sl i < length sl /\
    st_gmf sl (st_gmt sl i) = i /\ st_gmt sl (st_gmf sl i) = i.

(* L is an optional "limbo" slot: one that is currently in neither the free list nor a chain
   (used for the intermediate states inside PutAuxAux and RemoveEntry). *)
Record st_ginv (L : option nat) (sl : list slot) (fh : option nat) (n : nat)
               (ch : nat -> list nat) (fl : list nat) : Prop := mkGinv {
  gi_pos   : 0 < length sl;
  gi_limbo : forall e, L = Some e -> e < length sl;
  gi_perm  : st_perm sl;
  gi_ch_lk : forall b, b < length sl -> st_lk (st_gp sl) (st_gn sl) None (ch b);
  gi_ch_nd : forall b, b < length sl -> NoDup (ch b);
  gi_ch_in : forall b x, b < length sl ->
               (In x (ch b) <-> x < length sl /\ L <> Some x /\ st_in_bkt sl x b);
  gi_ch_hd : forall b x, b < length sl -> hd_error (ch b) = Some x -> st_gmt sl b = x;
  gi_fl_lk : st_lk (st_gp sl) (st_gn sl) None fl;
  gi_fl_nd : NoDup fl;
  gi_fl_in : forall x, In x fl <-> x < length sl /\ L <> Some x /\ st_gh sl x = None;
  gi_fh    : fh = hd_error fl;
  gi_cnt   : n + length fl + (match L with Some _ => 1 | None => 0 end) = length sl;
  gi_keys  : forall x y, x < length sl -> y < length sl -> L <> Some x -> L <> Some y ->
               st_gh sl x <> None -> st_gh sl y <> None -> st_gk sl x = st_gk sl y -> x = y
}.

Definition sinv (st : store) : Prop :=
  exists ch fl, st_ginv None (slots st) (free_head st) (nitems st) ch fl.

Lemma st_bkt_lt : forall size h, 0 < size -> st_bkt size h < size.
Proof.
  intros size h Hs. unfold st_bkt.
  assert (H : (h mod N.of_nat size < N.of_nat size)%N) by (apply N.mod_lt; lia).
  lia.
Qed.

Lemma st_in_mid : forall (l1 : list nat) e l2 x, In x (l1 ++ e :: l2) <-> x = e \/ In x (l1 ++ l2).
Proof.
  intros. rewrite !in_app_iff. simpl. intuition congruence.
Qed.

Lemma st_perm_inj : forall sl i j, st_perm sl -> i < length sl -> j < length sl -> st_gmt sl i = st_gmt sl j -> i = j.
Proof.
  intros sl i j Hp Hi Hj E. destruct (Hp i Hi) as (_ & _ & E1 & _). destruct (Hp j Hj) as (_ & _ & E2 & _).
  rewrite <- E1, <- E2, E. reflexivity.
Qed.

(* chain members and free-list members are different slots *)
Lemma st_ch_fl_disj : forall L sl fh n ch fl b x,
  st_ginv L sl fh n ch fl -> b < length sl -> In x (ch b) -> In x fl -> False.
Proof.
  intros L sl fh n ch fl b x G Hb Hc Hf.
  apply (gi_ch_in _ _ _ _ _ _ G b x Hb) in Hc. apply (gi_fl_in _ _ _ _ _ _ G) in Hf.
  destruct Hc as (_ & _ & h & Hh & _). destruct Hf as (_ & _ & Hn). congruence.
Qed.

Lemma st_ch_ch_disj : forall L sl fh n ch fl b b' x,
  st_ginv L sl fh n ch fl -> b < length sl -> b' < length sl -> In x (ch b) -> In x (ch b') -> b = b'.
Proof.
  intros L sl fh n ch fl b b' x G Hb Hb' H1 H2.
  apply (gi_ch_in _ _ _ _ _ _ G b x Hb) in H1. apply (gi_ch_in _ _ _ _ _ _ G b' x Hb') in H2.
  destruct H1 as (_ & _ & h & Hh & E1). destruct H2 as (_ & _ & h' & Hh' & E2). congruence.
Qed.

Lemma st_ch_lt : forall L sl fh n ch fl b x,
  st_ginv L sl fh n ch fl -> b < length sl -> In x (ch b) -> x < length sl.
Proof.
  intros L sl fh n ch fl b x G Hb H. apply (gi_ch_in _ _ _ _ _ _ G b x Hb) in H. tauto.
Qed.

Lemma st_fl_lt : forall L sl fh n ch fl x,
  st_ginv L sl fh n ch fl -> In x fl -> x < length sl.
Proof.
  intros L sl fh n ch fl x G H. apply (gi_fl_in _ _ _ _ _ _ G) in H. tauto.
Qed.

Lemma st_hd_in : forall (l : list nat) x, hd_error l = Some x -> In x l.
Proof. intros [|a l] x H; simpl in *; [discriminate|]. injection H as ->. left; reflexivity. Qed.

(* decide nat equalities and bound tests appearing in the goal *)
Ltac st_dec :=
  repeat match goal with
  | |- context[?a =? ?b] => destruct (Nat.eqb_spec a b)
  | |- context[?a <? ?b] => destruct (Nat.ltb_spec a b)
  end; simpl.

(* ------------------------------------------------------------------ PopFromFreeList *)

Ltac st_frame :=
  intros; unfold st_unlink; unfold st_pop_free, st_push_free, st_swap_maps, st_link_after, st_link_first; simpl;
  repeat match goal with
  | |- context[match ?o with Some _ => _ | None => _ end] => destruct o
  end; autorewrite with stg; reflexivity.

Lemma st_pop_free_len : forall sl e fh, length (fst (st_pop_free sl e fh)) = length sl.
Proof. st_frame. Qed.
Lemma st_pop_free_gh : forall sl e fh x, st_gh (fst (st_pop_free sl e fh)) x = st_gh sl x.
Proof. st_frame. Qed.
Lemma st_pop_free_gk : forall sl e fh x, st_gk (fst (st_pop_free sl e fh)) x = st_gk sl x.
Proof. st_frame. Qed.
Lemma st_pop_free_gv : forall sl e fh x, st_gv (fst (st_pop_free sl e fh)) x = st_gv sl x.
Proof. st_frame. Qed.
Lemma st_pop_free_gmt : forall sl e fh x, st_gmt (fst (st_pop_free sl e fh)) x = st_gmt sl x.
Proof. st_frame. Qed.
Lemma st_pop_free_gmf : forall sl e fh x, st_gmf (fst (st_pop_free sl e fh)) x = st_gmf sl x.
Proof. st_frame. Qed.

Lemma st_pop_free_gp : forall sl e fh y,
  e < length sl -> (forall n, st_gn sl e = Some n -> n < length sl) ->
  st_gp (fst (st_pop_free sl e fh)) y =
    if e =? y then None
    else match st_gn sl e with
         | Some n => if n =? y then st_gp sl e else st_gp sl y
         | None => st_gp sl y
         end.
Proof.
  intros sl e fh y He Hn. unfold st_pop_free; simpl.
  destruct (st_gn sl e) as [n|] eqn:En; [specialize (Hn n eq_refl)|];
  destruct (st_gp sl e) as [p|] eqn:Ep; autorewrite with stg; st_dec; try reflexivity; try lia.
Qed.

Lemma st_pop_free_gn : forall sl e fh y,
  e < length sl -> (forall p, st_gp sl e = Some p -> p < length sl) ->
  st_gn (fst (st_pop_free sl e fh)) y =
    if e =? y then None
    else match st_gp sl e with
         | Some q => if q =? y then st_gn sl e else st_gn sl y
         | None => st_gn sl y
         end.
Proof.
  intros sl e fh y He Hp. unfold st_pop_free; simpl.
  destruct (st_gn sl e) as [n|] eqn:En;
  (destruct (st_gp sl e) as [p|] eqn:Ep; [specialize (Hp p eq_refl)|]); autorewrite with stg; st_dec; try reflexivity; try lia.
Qed.

Lemma st_pop_free_fh : forall sl e fh,
  snd (st_pop_free sl e fh) = if st_opt_eqb fh (Some e) then st_gn sl e else fh.
Proof. reflexivity. Qed.

Arguments gi_pos {L sl fh n ch fl}.
Arguments gi_limbo {L sl fh n ch fl}.
Arguments gi_perm {L sl fh n ch fl}.
Arguments gi_ch_lk {L sl fh n ch fl}.
Arguments gi_ch_nd {L sl fh n ch fl}.
Arguments gi_ch_in {L sl fh n ch fl}.
Arguments gi_ch_hd {L sl fh n ch fl}.
Arguments gi_fl_lk {L sl fh n ch fl}.
Arguments gi_fl_nd {L sl fh n ch fl}.
Arguments gi_fl_in {L sl fh n ch fl}.
Arguments gi_fh {L sl fh n ch fl}.
Arguments gi_cnt {L sl fh n ch fl}.
Arguments gi_keys {L sl fh n ch fl}.

Lemma st_rev_hd_in : forall (l : list nat) y t, rev l = y :: t -> In y l.
Proof. intros l y t E. apply in_rev. rewrite E. left; reflexivity. Qed.

Lemma st_pop_free_ginv : forall sl fh n ch fl e,
  st_ginv None sl fh n ch fl -> In e fl ->
  exists fl', st_ginv (Some e) (fst (st_pop_free sl e fh)) (snd (st_pop_free sl e fh)) n ch fl'.
Proof.
  intros sl fh n ch fl e G Hin.
  destruct (in_split e fl Hin) as (l1 & l2 & Efl).
  pose proof (gi_fl_lk G) as Hlk. rewrite Efl in Hlk.
  destruct (st_lk_mid _ _ _ _ _ _ Hlk) as [Mn Mp].
  pose proof (gi_fl_nd G) as Hnd. rewrite Efl in Hnd.
  destruct (st_nodup_remove_mid _ _ _ Hnd) as [Hnd' Heni].
  assert (He : e < length sl) by (eapply st_fl_lt; eauto).
  assert (Hn_in : forall n', st_gn sl e = Some n' -> In n' fl).
  { intros n' E. rewrite Mn in E. apply st_hd_in in E. rewrite Efl. apply in_or_app. right; right; exact E. }
  assert (Hp_in : forall p, st_gp sl e = Some p -> In p fl).
  { intros p E. rewrite Mp in E. destruct (rev l1) as [|y t] eqn:Er; [discriminate|]. injection E as <-.
    rewrite Efl. apply in_or_app. left. eapply st_rev_hd_in; eauto. }
  assert (Hn_lt : forall n', st_gn sl e = Some n' -> n' < length sl) by (intros; eapply st_fl_lt; eauto).
  assert (Hp_lt : forall p, st_gp sl e = Some p -> p < length sl) by (intros; eapply st_fl_lt; eauto).
  assert (Hghe : st_gh sl e = None) by (apply (gi_fl_in G) in Hin; tauto).
  assert (Hbk : forall x b, st_in_bkt (fst (st_pop_free sl e fh)) x b <-> st_in_bkt sl x b).
  { intros x b. unfold st_in_bkt. rewrite st_pop_free_len, st_pop_free_gh. tauto. }
  exists (l1 ++ l2). constructor.
  - rewrite st_pop_free_len. exact (gi_pos G).
  - intros e0 E. injection E as <-. rewrite st_pop_free_len. exact He.
  - intros i. rewrite st_pop_free_len, !st_pop_free_gmt, !st_pop_free_gmf, ?st_pop_free_gmt. apply (gi_perm G).
  - intros b Hb. rewrite st_pop_free_len in Hb.
    apply st_lk_ext with (gp := st_gp sl) (gn := st_gn sl); [|apply (gi_ch_lk G); exact Hb].
    intros x Hx.
    assert (Hxfl : ~ In x fl) by (intro; eapply st_ch_fl_disj; eauto).
    rewrite st_pop_free_gp, st_pop_free_gn by assumption.
    destruct (Nat.eqb_spec e x) as [->|_]; [contradiction|].
    split.
    + destruct (st_gn sl e) as [n'|] eqn:En; [|reflexivity].
      destruct (Nat.eqb_spec n' x) as [->|_]; [|reflexivity]. exfalso. apply Hxfl, Hn_in. reflexivity.
    + destruct (st_gp sl e) as [p|] eqn:Ep; [|reflexivity].
      destruct (Nat.eqb_spec p x) as [->|_]; [|reflexivity]. exfalso. apply Hxfl, Hp_in. reflexivity.
  - intros b Hb. rewrite st_pop_free_len in Hb. apply (gi_ch_nd G); exact Hb.
  - intros b x Hb. rewrite st_pop_free_len in *. rewrite Hbk. rewrite (gi_ch_in G b x Hb).
    split; intros (A & B & C); repeat split; auto; try discriminate.
    intro E. injection E as <-. destruct C as (h & Hh & _). congruence.
  - intros b x Hb. rewrite st_pop_free_len in Hb. rewrite st_pop_free_gmt. apply (gi_ch_hd G); exact Hb.
  - apply st_lk_unlink with (gp := st_gp sl) (gn := st_gn sl) (x := e); try assumption.
    + intros y E; discriminate.
    + intros y Hy. rewrite st_pop_free_gp, st_pop_free_gn by assumption.
      destruct (Nat.eqb_spec e y) as [->|_]; [contradiction|]. split; reflexivity.
  - exact Hnd'.
  - intros x. rewrite st_pop_free_len, st_pop_free_gh. split.
    + intro Hx. assert (Hxf : In x fl) by (rewrite Efl; apply st_in_mid; right; exact Hx).
      apply (gi_fl_in G) in Hxf. destruct Hxf as (A & _ & C). repeat split; auto.
      intro E. injection E as <-. contradiction.
    + intros (A & B & C). assert (Hxf : In x fl) by (apply (gi_fl_in G); repeat split; auto; discriminate).
      rewrite Efl in Hxf. apply st_in_mid in Hxf. destruct Hxf as [->|Hxf]; [|exact Hxf].
      exfalso. apply B. reflexivity.
  - rewrite st_pop_free_fh, Mn. apply st_hd_unlink; [exact Hnd|]. rewrite <- Efl. exact (gi_fh G).
  - pose proof (gi_cnt G) as Hc. rewrite Efl in Hc. rewrite st_pop_free_len.
    rewrite app_length in *. simpl length in *. lia.
  - intros x y. rewrite st_pop_free_len, !st_pop_free_gh, !st_pop_free_gk. intros.
    apply (gi_keys G); auto; discriminate.
Qed.

(* ------------------------------------------------------------------ PutAuxAux: linking the popped entry *)

Lemma st_link_after_len : forall sl ts e h k v, length (st_link_after sl ts e h k v) = length sl.
Proof. st_frame. Qed.
Lemma st_link_after_gmt : forall sl ts e h k v x, st_gmt (st_link_after sl ts e h k v) x = st_gmt sl x.
Proof. st_frame. Qed.
Lemma st_link_after_gmf : forall sl ts e h k v x, st_gmf (st_link_after sl ts e h k v) x = st_gmf sl x.
Proof. st_frame. Qed.

Lemma st_link_after_gh : forall sl ts e h k v y, e < length sl ->
  st_gh (st_link_after sl ts e h k v) y = if e =? y then Some h else st_gh sl y.
Proof.
  intros. unfold st_link_after; simpl. autorewrite with stg.
  destruct (st_gn sl ts); autorewrite with stg; st_dec; try reflexivity; lia.
Qed.
Lemma st_link_after_gk : forall sl ts e h k v y, e < length sl ->
  st_gk (st_link_after sl ts e h k v) y = if e =? y then k else st_gk sl y.
Proof.
  intros. unfold st_link_after; simpl. autorewrite with stg.
  destruct (st_gn sl ts); autorewrite with stg; st_dec; try reflexivity; lia.
Qed.
Lemma st_link_after_gv : forall sl ts e h k v y, e < length sl ->
  st_gv (st_link_after sl ts e h k v) y = if e =? y then v else st_gv sl y.
Proof.
  intros. unfold st_link_after; simpl. autorewrite with stg.
  destruct (st_gn sl ts); autorewrite with stg; st_dec; try reflexivity; lia.
Qed.

Lemma st_link_after_gp : forall sl ts e h k v y,
  e < length sl -> (forall n', st_gn sl ts = Some n' -> n' < length sl) ->
  st_gp (st_link_after sl ts e h k v) y =
    match st_gn sl ts with
    | Some n' => if n' =? y then Some e else if e =? y then Some ts else st_gp sl y
    | None => if e =? y then Some ts else st_gp sl y
    end.
Proof.
  intros sl ts e h k v y He Hn. unfold st_link_after; simpl. autorewrite with stg.
  destruct (st_gn sl ts) as [n'|]; [specialize (Hn n' eq_refl)|]; autorewrite with stg; st_dec; try reflexivity; lia.
Qed.

Lemma st_link_after_gn : forall sl ts e h k v y,
  e < length sl -> ts < length sl ->
  st_gn (st_link_after sl ts e h k v) y =
    if ts =? y then Some e else if e =? y then st_gn sl ts else st_gn sl y.
Proof.
  intros sl ts e h k v y He Hts. unfold st_link_after; simpl. autorewrite with stg.
  destruct (st_gn sl ts) as [n'|]; autorewrite with stg; st_dec; try reflexivity; lia.
Qed.

Lemma st_link_first_len : forall sl e h k v, length (st_link_first sl e h k v) = length sl.
Proof. st_frame. Qed.
Lemma st_link_first_gmt : forall sl e h k v x, st_gmt (st_link_first sl e h k v) x = st_gmt sl x.
Proof. st_frame. Qed.
Lemma st_link_first_gmf : forall sl e h k v x, st_gmf (st_link_first sl e h k v) x = st_gmf sl x.
Proof. st_frame. Qed.
Lemma st_link_first_gh : forall sl e h k v y, e < length sl ->
  st_gh (st_link_first sl e h k v) y = if e =? y then Some h else st_gh sl y.
Proof. intros. unfold st_link_first. autorewrite with stg. st_dec; try reflexivity; lia. Qed.
Lemma st_link_first_gk : forall sl e h k v y, e < length sl ->
  st_gk (st_link_first sl e h k v) y = if e =? y then k else st_gk sl y.
Proof. intros. unfold st_link_first. autorewrite with stg. st_dec; try reflexivity; lia. Qed.
Lemma st_link_first_gv : forall sl e h k v y, e < length sl ->
  st_gv (st_link_first sl e h k v) y = if e =? y then v else st_gv sl y.
Proof. intros. unfold st_link_first. autorewrite with stg. st_dec; try reflexivity; lia. Qed.
Lemma st_link_first_gp : forall sl e h k v y, e < length sl ->
  st_gp (st_link_first sl e h k v) y = if e =? y then None else st_gp sl y.
Proof. intros. unfold st_link_first. autorewrite with stg. st_dec; try reflexivity; lia. Qed.
Lemma st_link_first_gn : forall sl e h k v y, e < length sl ->
  st_gn (st_link_first sl e h k v) y = if e =? y then None else st_gn sl y.
Proof. intros. unfold st_link_first. autorewrite with stg. st_dec; try reflexivity; lia. Qed.

(* generic step: the limbo slot e receives (hash,key) and joins the chain of its bucket *)
Lemma st_fill_ginv : forall sl sl' fh n ch fl e hash key b ch',
  st_ginv (Some e) sl fh n ch fl ->
  length sl' = length sl ->
  (forall x, st_gmt sl' x = st_gmt sl x) ->
  (forall x, st_gmf sl' x = st_gmf sl x) ->
  (forall y, st_gh sl' y = if e =? y then Some hash else st_gh sl y) ->
  (forall y, st_gk sl' y = if e =? y then key else st_gk sl y) ->
  b = st_bkt (length sl) hash ->
  (forall x, x < length sl -> x <> e -> st_gh sl x <> None -> st_gk sl x <> key) ->
  (forall b', b' < length sl -> st_lk (st_gp sl') (st_gn sl') None (ch' b')) ->
  st_lk (st_gp sl') (st_gn sl') None fl ->
  (forall b', b' < length sl -> NoDup (ch' b')) ->
  (forall b' x, b' < length sl -> (In x (ch' b') <-> (x = e /\ b' = b) \/ In x (ch b'))) ->
  (forall b' x, b' < length sl -> hd_error (ch' b') = Some x -> st_gmt sl b' = x) ->
  st_ginv None sl' fh (S n) ch' fl.
Proof.
  intros sl sl' fh n ch fl e hash key b ch' G Hlen Hmt Hmf Hgh Hgk Hb Habs Hclk Hflk Hcnd Hcin Hchd.
  assert (He : e < length sl) by (apply (gi_limbo G); reflexivity).
  constructor.
  - rewrite Hlen. exact (gi_pos G).
  - intros e0 E; discriminate.
  - intros i. rewrite Hlen, !Hmt, !Hmf, ?Hmt. apply (gi_perm G).
  - intros b' Hb'. rewrite Hlen in Hb'. apply Hclk; exact Hb'.
  - intros b' Hb'. rewrite Hlen in Hb'. apply Hcnd; exact Hb'.
  - intros b' x Hb'. rewrite Hlen in *. rewrite (Hcin b' x Hb'). rewrite (gi_ch_in G b' x Hb').
    unfold st_in_bkt. rewrite Hlen, Hgh. split.
    + intros [[-> ->]|(A & B & h & Hh & Hk)].
      * repeat split; [exact He|discriminate|]. exists hash. rewrite Nat.eqb_refl. split; [reflexivity|symmetry; exact Hb].
      * repeat split; [exact A|discriminate|]. exists h.
        destruct (Nat.eqb_spec e x) as [->|_]; [exfalso; apply B; reflexivity|]. split; assumption.
    + intros (A & _ & h & Hh & Hk). destruct (Nat.eqb_spec e x) as [->|Hne].
      * left. split; [reflexivity|]. injection Hh as <-. rewrite Hb. symmetry; exact Hk.
      * right. repeat split; [exact A|congruence|]. exists h. split; assumption.
  - intros b' x Hb'. rewrite Hlen in Hb'. rewrite Hmt. apply Hchd; exact Hb'.
  - exact Hflk.
  - exact (gi_fl_nd G).
  - intros x. rewrite Hlen, Hgh. rewrite (gi_fl_in G x). split.
    + intros (A & B & C). repeat split; [exact A|discriminate|].
      destruct (Nat.eqb_spec e x) as [->|_]; [exfalso; apply B; reflexivity|exact C].
    + intros (A & _ & C). destruct (Nat.eqb_spec e x) as [->|Hne]; [discriminate|].
      repeat split; [exact A|congruence|exact C].
  - exact (gi_fh G).
  - pose proof (gi_cnt G) as Hc. rewrite Hlen. simpl in Hc. lia.
  - intros x y. rewrite Hlen, !Hgh, !Hgk. intros Hx Hy _ _ Ux Uy.
    destruct (Nat.eqb_spec e x) as [Hex|Hex]; destruct (Nat.eqb_spec e y) as [Hey|Hey]; intro E.
    + congruence.
    + exfalso. apply (Habs y); auto.
    + exfalso. apply (Habs x); auto.
    + apply (gi_keys G); auto; congruence.
Qed.

Ltac st_eqs :=
  repeat match goal with
  | |- context[?a =? ?a] => rewrite (Nat.eqb_refl a)
  | H : ?a <> ?b |- context[?a =? ?b] => rewrite (proj2 (Nat.eqb_neq a b) H)
  | H : ?b <> ?a |- context[?a =? ?b] => rewrite (proj2 (Nat.eqb_neq a b) (not_eq_sym H))
  end.

Lemma st_link_after_other : forall sl ts e h k v y,
  e < length sl -> ts < length sl -> (forall n', st_gn sl ts = Some n' -> n' < length sl) ->
  e <> y -> ts <> y -> (forall n', st_gn sl ts = Some n' -> n' <> y) ->
  st_gp (st_link_after sl ts e h k v) y = st_gp sl y /\ st_gn (st_link_after sl ts e h k v) y = st_gn sl y.
Proof.
  intros sl ts e h k v y He Hts Hn Hey Hty Hny.
  rewrite st_link_after_gp, st_link_after_gn by assumption.
  destruct (Nat.eqb_spec ts y); [contradiction|]. destruct (Nat.eqb_spec e y); [contradiction|].
  destruct (st_gn sl ts) as [n'|]; [|split; reflexivity].
  destruct (Nat.eqb_spec n' y) as [E|_]; [exfalso; apply (Hny n' eq_refl); exact E|]. split; reflexivity.
Qed.

Lemma st_link_after_ginv : forall sl fh n ch fl e hash key val ts cr b,
  st_ginv (Some e) sl fh n ch fl ->
  b = st_bkt (length sl) hash ->
  ch b = ts :: cr ->
  (forall x, x < length sl -> x <> e -> st_gh sl x <> None -> st_gk sl x <> key) ->
  st_ginv None (st_link_after sl ts e hash key val) fh (S n)
          (fun b' => if b' =? b then ts :: e :: cr else ch b') fl.
Proof.
  intros sl fh n ch fl e hash key val ts cr b G Hb Ech Habs.
  assert (He : e < length sl) by (apply (gi_limbo G); reflexivity).
  assert (Hbl : b < length sl) by (rewrite Hb; apply st_bkt_lt; exact (gi_pos G)).
  assert (Hnotin : forall b' x, b' < length sl -> In x (ch b') -> e <> x).
  { intros b' x Hb' Hx E. apply (gi_ch_in G b' x Hb') in Hx. destruct Hx as (_ & B & _). apply B. rewrite E; reflexivity. }
  assert (Hnotinf : forall x, In x fl -> e <> x).
  { intros x Hx E. apply (gi_fl_in G) in Hx. destruct Hx as (_ & B & _). apply B. rewrite E; reflexivity. }
  assert (Htsin : In ts (ch b)) by (rewrite Ech; left; reflexivity).
  assert (Hts : ts < length sl) by (eapply st_ch_lt; eauto).
  pose proof (gi_ch_lk G b Hbl) as Hlkb. rewrite Ech in Hlkb. simpl in Hlkb. destruct Hlkb as (Hpts & Hnts & Hlkcr).
  pose proof (gi_ch_nd G b Hbl) as Hndb. rewrite Ech in Hndb.
  assert (Hnin : forall n', st_gn sl ts = Some n' -> In n' cr).
  { intros n' E. rewrite Hnts in E. apply st_hd_in; exact E. }
  assert (Hnlt : forall n', st_gn sl ts = Some n' -> n' < length sl).
  { intros n' E. apply (st_ch_lt _ _ _ _ _ _ b n' G Hbl). rewrite Ech. right. apply Hnin; exact E. }
  apply st_fill_ginv with (sl := sl) (ch := ch) (e := e) (hash := hash) (key := key) (b := b); try assumption.
  - apply st_link_after_len.
  - apply st_link_after_gmt.
  - apply st_link_after_gmf.
  - intros y. apply st_link_after_gh; exact He.
  - intros y. apply st_link_after_gk; exact He.
  - (* chains linked *)
    intros b' Hb'. destruct (Nat.eqb_spec b' b) as [->|Hne].
    + assert (Hets : e <> ts) by (apply (Hnotin b); assumption).
      apply NoDup_cons_iff in Hndb as [Htsni Hndcr].
      destruct cr as [|n' cr']; simpl in *.
      * rewrite !st_link_after_gp, !st_link_after_gn by assumption. rewrite Hnts. st_eqs.
        repeat split; try assumption; reflexivity.
      * destruct Hlkcr as (Hpn & Hnn & Hlk').
        assert (Hen : e <> n') by (apply (Hnotin b); [exact Hbl|rewrite Ech; right; left; reflexivity]).
        assert (Htn : ts <> n') by (intro E; apply Htsni; left; symmetry; exact E).
        apply NoDup_cons_iff in Hndcr as [Hnni Hndcr'].
        rewrite !st_link_after_gp, !st_link_after_gn by assumption. rewrite Hnts. st_eqs.
        repeat split; try assumption; try reflexivity.
        apply st_lk_ext with (gp := st_gp sl) (gn := st_gn sl); [|exact Hlk'].
        intros y Hy. apply st_link_after_other; try assumption.
        -- apply (Hnotin b); [exact Hbl|rewrite Ech; right; right; exact Hy].
        -- intro E. apply Htsni. right. rewrite E. exact Hy.
        -- intros n'' E1 E2. rewrite Hnts in E1. injection E1 as <-. apply Hnni. rewrite E2. exact Hy.
    + apply st_lk_ext with (gp := st_gp sl) (gn := st_gn sl); [|apply (gi_ch_lk G); exact Hb'].
      intros y Hy. apply st_link_after_other; try assumption.
      * apply (Hnotin b'); assumption.
      * intro E. apply Hne. symmetry. apply (st_ch_ch_disj _ _ _ _ _ _ b b' ts G Hbl Hb' Htsin). rewrite E; exact Hy.
      * intros n' E1 E2. apply Hne. symmetry. apply (st_ch_ch_disj _ _ _ _ _ _ b b' y G Hbl Hb'); [|exact Hy].
        rewrite Ech. right. rewrite <- E2. apply Hnin; exact E1.
  - (* free list linked *)
    apply st_lk_ext with (gp := st_gp sl) (gn := st_gn sl); [|exact (gi_fl_lk G)].
    intros y Hy. apply st_link_after_other; try assumption.
    + apply Hnotinf; exact Hy.
    + intro E. apply (st_ch_fl_disj _ _ _ _ _ _ b ts G Hbl Htsin). rewrite E; exact Hy.
    + intros n' E1 E2. apply (st_ch_fl_disj _ _ _ _ _ _ b y G Hbl); [|exact Hy].
      rewrite Ech. right. rewrite <- E2. apply Hnin; exact E1.
  - intros b' Hb'. destruct (Nat.eqb_spec b' b) as [->|Hne]; [|apply (gi_ch_nd G); exact Hb'].
    apply NoDup_cons_iff in Hndb as [Htsni Hndcr].
    constructor; [|constructor].
    + intros [E|Hin]; [apply (Hnotin b ts Hbl Htsin); exact E|contradiction].
    + intro Hin. apply (Hnotin b e Hbl); [rewrite Ech; right; exact Hin|reflexivity].
    + exact Hndcr.
  - intros b' x Hb'. destruct (Nat.eqb_spec b' b) as [->|Hne].
    + rewrite Ech. simpl. intuition congruence.
    + intuition congruence.
  - intros b' x Hb'. destruct (Nat.eqb_spec b' b) as [->|Hne]; [|apply (gi_ch_hd G); exact Hb'].
    intro E. apply (gi_ch_hd G b x Hbl). rewrite Ech. exact E.
Qed.

Lemma st_link_first_ginv : forall sl fh n ch fl e hash key val b,
  st_ginv (Some e) sl fh n ch fl ->
  b = st_bkt (length sl) hash ->
  ch b = [] ->
  st_gmt sl b = e ->
  (forall x, x < length sl -> x <> e -> st_gh sl x <> None -> st_gk sl x <> key) ->
  st_ginv None (st_link_first sl e hash key val) fh (S n)
          (fun b' => if b' =? b then [e] else ch b') fl.
Proof.
  intros sl fh n ch fl e hash key val b G Hb Ech Hmt Habs.
  assert (He : e < length sl) by (apply (gi_limbo G); reflexivity).
  assert (Hbl : b < length sl) by (rewrite Hb; apply st_bkt_lt; exact (gi_pos G)).
  assert (Hnotin : forall b' x, b' < length sl -> In x (ch b') -> e <> x).
  { intros b' x Hb' Hx E. apply (gi_ch_in G b' x Hb') in Hx. destruct Hx as (_ & B & _). apply B. rewrite E; reflexivity. }
  assert (Hnotinf : forall x, In x fl -> e <> x).
  { intros x Hx E. apply (gi_fl_in G) in Hx. destruct Hx as (_ & B & _). apply B. rewrite E; reflexivity. }
  apply st_fill_ginv with (sl := sl) (ch := ch) (e := e) (hash := hash) (key := key) (b := b); try assumption.
  - apply st_link_first_len.
  - apply st_link_first_gmt.
  - apply st_link_first_gmf.
  - intros y. apply st_link_first_gh; exact He.
  - intros y. apply st_link_first_gk; exact He.
  - intros b' Hb'. destruct (Nat.eqb_spec b' b) as [->|Hne].
    + simpl. rewrite st_link_first_gp, st_link_first_gn by assumption. rewrite Nat.eqb_refl. repeat split; reflexivity.
    + apply st_lk_ext with (gp := st_gp sl) (gn := st_gn sl); [|apply (gi_ch_lk G); exact Hb'].
      intros y Hy. rewrite st_link_first_gp, st_link_first_gn by assumption.
      pose proof (Hnotin b' y Hb' Hy) as Hey. st_eqs. split; reflexivity.
  - apply st_lk_ext with (gp := st_gp sl) (gn := st_gn sl); [|exact (gi_fl_lk G)].
    intros y Hy. rewrite st_link_first_gp, st_link_first_gn by assumption.
    pose proof (Hnotinf y Hy) as Hey. st_eqs. split; reflexivity.
  - intros b' Hb'. destruct (Nat.eqb_spec b' b) as [->|Hne]; [|apply (gi_ch_nd G); exact Hb'].
    constructor; [intros []|constructor].
  - intros b' x Hb'. destruct (Nat.eqb_spec b' b) as [->|Hne].
    + rewrite Ech. simpl. intuition congruence.
    + intuition congruence.
  - intros b' x Hb'. destruct (Nat.eqb_spec b' b) as [->|Hne]; [|apply (gi_ch_hd G); exact Hb'].
    simpl. intro E. injection E as <-. exact Hmt.
Qed.

(* ------------------------------------------------------------------ SwapEntryMaps *)

Lemma st_swap_len : forall sl i1 i2, length (st_swap_maps sl i1 i2) = length sl.
Proof. st_frame. Qed.
Lemma st_swap_gh : forall sl i1 i2 x, st_gh (st_swap_maps sl i1 i2) x = st_gh sl x.
Proof. st_frame. Qed.
Lemma st_swap_gk : forall sl i1 i2 x, st_gk (st_swap_maps sl i1 i2) x = st_gk sl x.
Proof. st_frame. Qed.
Lemma st_swap_gv : forall sl i1 i2 x, st_gv (st_swap_maps sl i1 i2) x = st_gv sl x.
Proof. st_frame. Qed.
Lemma st_swap_gp : forall sl i1 i2 x, st_gp (st_swap_maps sl i1 i2) x = st_gp sl x.
Proof. st_frame. Qed.
Lemma st_swap_gn : forall sl i1 i2 x, st_gn (st_swap_maps sl i1 i2) x = st_gn sl x.
Proof. st_frame. Qed.

Lemma st_swap_gmt : forall sl i1 i2 i, i1 < length sl -> i2 < length sl ->
  st_gmt (st_swap_maps sl i1 i2) i =
    if i =? i1 then st_gmt sl i2 else if i =? i2 then st_gmt sl i1 else st_gmt sl i.
Proof.
  intros sl i1 i2 i H1 H2. unfold st_swap_maps. autorewrite with stg.
  st_dec; subst; try reflexivity; try lia; congruence.
Qed.

Lemma st_swap_gmf : forall sl i1 i2 x, st_perm sl -> i1 < length sl -> i2 < length sl ->
  st_gmf (st_swap_maps sl i1 i2) x =
    if x =? st_gmt sl i2 then i1 else if x =? st_gmt sl i1 then i2 else st_gmf sl x.
Proof.
  intros sl i1 i2 x Hp H1 H2. unfold st_swap_maps. autorewrite with stg.
  destruct (Hp i1 H1) as (A1 & _ & _ & _). destruct (Hp i2 H2) as (A2 & _ & _ & _).
  pose proof (st_perm_inj sl i1 i2 Hp H1 H2) as Hinj.
  rewrite (proj2 (Nat.ltb_lt _ _) H1), (proj2 (Nat.ltb_lt _ _) H2). rewrite ?andb_true_r, ?Nat.eqb_refl.
  destruct (Nat.eqb_spec i2 i1) as [E|NE].
  - subst i2. rewrite (proj2 (Nat.ltb_lt _ _) A1), ?andb_true_r.
    rewrite (Nat.eqb_sym x). destruct (Nat.eqb_spec (st_gmt sl i1) x); reflexivity.
  - destruct (Nat.eqb_spec i1 i2) as [E'|_]; [exfalso; apply NE; symmetry; exact E'|].
    rewrite (proj2 (Nat.ltb_lt _ _) A1), (proj2 (Nat.ltb_lt _ _) A2), ?andb_true_r.
    rewrite (Nat.eqb_sym x (st_gmt sl i2)), (Nat.eqb_sym x (st_gmt sl i1)).
    destruct (Nat.eqb_spec (st_gmt sl i1) x) as [E1|N1]; destruct (Nat.eqb_spec (st_gmt sl i2) x) as [E2|N2]; try reflexivity.
    exfalso. apply NE. symmetry. apply Hinj. congruence.
Qed.

Lemma st_swap_perm : forall sl i1 i2, st_perm sl -> i1 < length sl -> i2 < length sl ->
  st_perm (st_swap_maps sl i1 i2).
Proof.
  intros sl i1 i2 Hp H1 H2 i Hi. rewrite st_swap_len in Hi. rewrite st_swap_len.
  destruct (Hp i1 H1) as (A1 & B1 & C1 & D1). destruct (Hp i2 H2) as (A2 & B2 & C2 & D2).
  destruct (Hp i Hi) as (A & B & C & D).
  pose proof (st_perm_inj sl i1 i2 Hp H1 H2) as Hinj12.
  pose proof (st_perm_inj sl i i1 Hp Hi H1) as Hinj1.
  pose proof (st_perm_inj sl i i2 Hp Hi H2) as Hinj2.
  repeat split.
  - rewrite st_swap_gmt by assumption. st_dec; assumption.
  - rewrite st_swap_gmf by assumption. st_dec; assumption.
  - rewrite st_swap_gmt by assumption.
    destruct (Nat.eqb_spec i i1) as [->|N1].
    + rewrite st_swap_gmf by assumption. rewrite Nat.eqb_refl. reflexivity.
    + destruct (Nat.eqb_spec i i2) as [->|N2].
      * rewrite st_swap_gmf by assumption.
        destruct (Nat.eqb_spec (st_gmt sl i1) (st_gmt sl i2)) as [E|_].
        { exfalso. apply N1. symmetry. apply Hinj12. exact E. }
        rewrite Nat.eqb_refl. reflexivity.
      * rewrite st_swap_gmf by assumption.
        destruct (Nat.eqb_spec (st_gmt sl i) (st_gmt sl i2)) as [E|_]; [exfalso; apply N2, Hinj2; exact E|].
        destruct (Nat.eqb_spec (st_gmt sl i) (st_gmt sl i1)) as [E|_]; [exfalso; apply N1, Hinj1; exact E|].
        exact C.
  - rewrite st_swap_gmf by assumption.
    destruct (Nat.eqb_spec i (st_gmt sl i2)) as [E2|N2].
    + rewrite st_swap_gmt by assumption. rewrite Nat.eqb_refl. symmetry; exact E2.
    + destruct (Nat.eqb_spec i (st_gmt sl i1)) as [E1|N1].
      * rewrite st_swap_gmt by assumption.
        destruct (Nat.eqb_spec i2 i1) as [E|_]; [exfalso; apply N2; rewrite E; exact E1|].
        rewrite Nat.eqb_refl. symmetry; exact E1.
      * rewrite st_swap_gmt by assumption.
        destruct (Nat.eqb_spec (st_gmf sl i) i1) as [E|_]; [exfalso; apply N1; rewrite <- E; symmetry; exact D|].
        destruct (Nat.eqb_spec (st_gmf sl i) i2) as [E|_]; [exfalso; apply N2; rewrite <- E; symmetry; exact D|].
        exact D.
Qed.

Lemma st_swap_ginv_empty : forall L sl fh n ch fl i1 i2,
  st_ginv L sl fh n ch fl -> i1 < length sl -> i2 < length sl ->
  ch i1 = [] -> ch i2 = [] ->
  st_ginv L (st_swap_maps sl i1 i2) fh n ch fl.
Proof.
  intros L sl fh n ch fl i1 i2 G H1 H2 E1 E2.
  assert (Hbk : forall x b, st_in_bkt (st_swap_maps sl i1 i2) x b <-> st_in_bkt sl x b).
  { intros x b. unfold st_in_bkt. rewrite st_swap_len, st_swap_gh. tauto. }
  constructor.
  - rewrite st_swap_len. exact (gi_pos G).
  - intros e E. rewrite st_swap_len. apply (gi_limbo G); exact E.
  - apply st_swap_perm; try assumption. exact (gi_perm G).
  - intros b Hb. rewrite st_swap_len in Hb.
    apply st_lk_ext with (gp := st_gp sl) (gn := st_gn sl); [|apply (gi_ch_lk G); exact Hb].
    intros x _. rewrite st_swap_gp, st_swap_gn. split; reflexivity.
  - intros b Hb. rewrite st_swap_len in Hb. apply (gi_ch_nd G); exact Hb.
  - intros b x Hb. rewrite st_swap_len in *. rewrite Hbk. apply (gi_ch_in G); exact Hb.
  - intros b x Hb Hhd. rewrite st_swap_len in Hb. rewrite st_swap_gmt by assumption.
    destruct (Nat.eqb_spec b i1) as [->|_]; [rewrite E1 in Hhd; discriminate|].
    destruct (Nat.eqb_spec b i2) as [->|_]; [rewrite E2 in Hhd; discriminate|].
    apply (gi_ch_hd G); assumption.
  - apply st_lk_ext with (gp := st_gp sl) (gn := st_gn sl); [|exact (gi_fl_lk G)].
    intros x _. rewrite st_swap_gp, st_swap_gn. split; reflexivity.
  - exact (gi_fl_nd G).
  - intros x. rewrite st_swap_len, st_swap_gh. apply (gi_fl_in G).
  - exact (gi_fh G).
  - rewrite st_swap_len. exact (gi_cnt G).
  - intros x y. rewrite st_swap_len, !st_swap_gh, !st_swap_gk. apply (gi_keys G).
Qed.

(* ------------------------------------------------------------------ RemoveEntry: unlinking from the chain *)

Lemma st_unlink_len : forall sl i, length (st_unlink sl i) = length sl.
Proof. st_frame. Qed.
Lemma st_unlink_gh : forall sl i x, st_gh (st_unlink sl i) x = st_gh sl x.
Proof. st_frame. Qed.
Lemma st_unlink_gk : forall sl i x, st_gk (st_unlink sl i) x = st_gk sl x.
Proof. st_frame. Qed.
Lemma st_unlink_gv : forall sl i x, st_gv (st_unlink sl i) x = st_gv sl x.
Proof. st_frame. Qed.

Lemma st_unlink_gp : forall sl i y,
  (forall n', st_gn sl i = Some n' -> n' < length sl) ->
  st_gp (st_unlink sl i) y =
    match st_gn sl i with Some n' => if n' =? y then st_gp sl i else st_gp sl y | None => st_gp sl y end.
Proof.
  intros sl i y Hn. unfold st_unlink.
  destruct (st_gp sl i) as [p|] eqn:Ep; destruct (st_gn sl i) as [n'|] eqn:En;
    try specialize (Hn n' eq_refl); unfold st_swap_maps; autorewrite with stg; st_dec; try reflexivity; lia.
Qed.

Lemma st_unlink_gn : forall sl i y,
  (forall p, st_gp sl i = Some p -> p < length sl) ->
  st_gn (st_unlink sl i) y =
    match st_gp sl i with Some q => if q =? y then st_gn sl i else st_gn sl y | None => st_gn sl y end.
Proof.
  intros sl i y Hp. unfold st_unlink.
  destruct (st_gp sl i) as [p|] eqn:Ep; destruct (st_gn sl i) as [n'|] eqn:En;
    try specialize (Hp p eq_refl); unfold st_swap_maps; autorewrite with stg; st_dec; try reflexivity; lia.
Qed.

Lemma st_unlink_maps_same : forall sl i x,
  (st_gp sl i <> None \/ st_gn sl i = None) ->
  st_gmt (st_unlink sl i) x = st_gmt sl x /\ st_gmf (st_unlink sl i) x = st_gmf sl x.
Proof.
  intros sl i x H. unfold st_unlink.
  destruct (st_gp sl i) as [p|] eqn:Ep; destruct (st_gn sl i) as [n'|] eqn:En; autorewrite with stg; try (split; reflexivity).
  destruct H as [H|H]; [contradiction|discriminate].
Qed.

Lemma st_unlink_head : forall sl i n',
  st_gp sl i = None -> st_gn sl i = Some n' ->
  st_unlink sl i = st_swap_maps (st_set_bprev sl n' None) (st_gmf sl i) (st_gmf sl n').
Proof.
  intros sl i n' Ep En. unfold st_unlink. rewrite Ep, En. autorewrite with stg. reflexivity.
Qed.

Lemma st_perm_ext : forall sl sl', length sl' = length sl ->
  (forall x, st_gmt sl' x = st_gmt sl x) -> (forall x, st_gmf sl' x = st_gmf sl x) ->
  st_perm sl -> st_perm sl'.
Proof.
  intros sl sl' Hl Hmt Hmf Hp i Hi. rewrite Hl in *. rewrite !Hmt, !Hmf, ?Hmt. apply Hp; exact Hi.
Qed.

Lemma st_unlink_ginv : forall sl fh n ch fl e b l1 l2,
  st_ginv None sl fh n ch fl -> b < length sl -> ch b = l1 ++ e :: l2 ->
  st_ginv (Some e) (st_unlink sl e) fh (pred n)
          (fun b' => if b' =? b then l1 ++ l2 else ch b') fl.
Proof.
  intros sl fh n ch fl e b l1 l2 G Hbl Ech.
  assert (Hein : In e (ch b)) by (rewrite Ech; apply in_or_app; right; left; reflexivity).
  assert (He : e < length sl) by (eapply st_ch_lt; eauto).
  pose proof (proj1 (gi_ch_in G b e Hbl) Hein) as (_ & _ & Hebk).
  pose proof (gi_ch_lk G b Hbl) as Hlk. rewrite Ech in Hlk.
  destruct (st_lk_mid _ _ _ _ _ _ Hlk) as [Mn Mp].
  pose proof (gi_ch_nd G b Hbl) as Hnd. rewrite Ech in Hnd.
  destruct (st_nodup_remove_mid _ _ _ Hnd) as [Hnd' Heni].
  assert (Hn_in : forall n', st_gn sl e = Some n' -> In n' (ch b)).
  { intros n' E. rewrite Mn in E. apply st_hd_in in E. rewrite Ech. apply in_or_app. right; right; exact E. }
  assert (Hp_in : forall p, st_gp sl e = Some p -> In p (ch b)).
  { intros p E. rewrite Mp in E. destruct (rev l1) as [|y t] eqn:Er; [discriminate|]. injection E as <-.
    rewrite Ech. apply in_or_app. left. eapply st_rev_hd_in; eauto. }
  assert (Hn_lt : forall n', st_gn sl e = Some n' -> n' < length sl)
    by (intros n' E; apply (st_ch_lt _ _ _ _ _ _ b n' G Hbl); apply Hn_in; exact E).
  assert (Hp_lt : forall p, st_gp sl e = Some p -> p < length sl)
    by (intros p E; apply (st_ch_lt _ _ _ _ _ _ b p G Hbl); apply Hp_in; exact E).
  assert (Hbk : forall x b', st_in_bkt (st_unlink sl e) x b' <-> st_in_bkt sl x b').
  { intros x b'. unfold st_in_bkt. rewrite st_unlink_len, st_unlink_gh. tauto. }
  assert (Hother : forall y, ~ In y (ch b) ->
            st_gp (st_unlink sl e) y = st_gp sl y /\ st_gn (st_unlink sl e) y = st_gn sl y).
  { intros y Hy. rewrite st_unlink_gp, st_unlink_gn by assumption. split.
    - destruct (st_gn sl e) as [n'|] eqn:En; [|reflexivity].
      destruct (Nat.eqb_spec n' y) as [<-|_]; [|reflexivity]. exfalso. apply Hy, Hn_in. reflexivity.
    - destruct (st_gp sl e) as [p|] eqn:Ep; [|reflexivity].
      destruct (Nat.eqb_spec p y) as [<-|_]; [|reflexivity]. exfalso. apply Hy, Hp_in. reflexivity. }
  (* the maps: permutation and bucket heads *)
  assert (Hmaps : st_perm (st_unlink sl e) /\
            forall b' x, b' < length sl ->
              hd_error (if b' =? b then l1 ++ l2 else ch b') = Some x -> st_gmt (st_unlink sl e) b' = x).
  { destruct (st_gp sl e) as [p|] eqn:Ep; [|destruct (st_gn sl e) as [n'|] eqn:En].
    - (* has a predecessor *)
      assert (Hs : forall x, st_gmt (st_unlink sl e) x = st_gmt sl x /\ st_gmf (st_unlink sl e) x = st_gmf sl x).
      { intros x. apply st_unlink_maps_same. left. rewrite Ep. discriminate. }
      split.
      + apply st_perm_ext with (sl := sl); [apply st_unlink_len|apply Hs|apply Hs|exact (gi_perm G)].
      + intros b' x Hb' Hhd. rewrite (proj1 (Hs b')).
        destruct (Nat.eqb_spec b' b) as [->|Hne]; [|apply (gi_ch_hd G); assumption].
        apply (gi_ch_hd G b x Hbl). rewrite Ech.
        destruct l1 as [|a l1']; [simpl in Mp; discriminate|]. simpl in *. exact Hhd.
    - (* head with a successor: the maps are swapped *)
      assert (El1 : l1 = []).
      { destruct l1 as [|a l1']; [reflexivity|]. simpl in Mp. destruct (rev l1' ++ [a]) eqn:Er; [|discriminate].
        destruct (rev l1'); discriminate. }
      subst l1. simpl in *.
      assert (El2 : exists r, l2 = n' :: r).
      { destruct l2 as [|n'' r]; simpl in Mn; [discriminate|]. injection Mn as ->. exists r; reflexivity. }
      destruct El2 as (r & ->).
      rewrite (st_unlink_head sl e n' Ep En).
      set (a := st_set_bprev sl n' None).
      assert (Hla : length a = length sl) by apply st_len_set_bprev.
      assert (Hpa : st_perm a).
      { apply st_perm_ext with (sl := sl); [exact Hla| | |exact (gi_perm G)]; intros x; unfold a; autorewrite with stg; reflexivity. }
      assert (Hmta : forall x, st_gmt a x = st_gmt sl x) by (intros x; unfold a; autorewrite with stg; reflexivity).
      assert (Hhead : st_gmt sl b = e) by (apply (gi_ch_hd G b e Hbl); rewrite Ech; reflexivity).
      assert (Hn'lt : n' < length sl) by (apply Hn_lt; reflexivity).
      destruct (gi_perm G b Hbl) as (_ & _ & Cb & _).
      destruct (gi_perm G n' Hn'lt) as (_ & Bn & _ & Dn).
      assert (Hmfe : st_gmf sl e = b) by (rewrite <- Hhead; exact Cb).
      rewrite Hmfe.
      split.
      + apply st_swap_perm; [exact Hpa|rewrite Hla; exact Hbl|rewrite Hla; exact Bn].
      + intros b' x Hb' Hhd.
        rewrite st_swap_gmt by (rewrite Hla; assumption). rewrite !Hmta.
        destruct (Nat.eqb_spec b' b) as [->|Hne].
        * simpl in Hhd. injection Hhd as <-. exact Dn.
        * destruct (Nat.eqb_spec b' (st_gmf sl n')) as [->|_]; [|apply (gi_ch_hd G); assumption].
          exfalso. apply Hne.
          assert (Hx : st_gmt sl (st_gmf sl n') = x) by (apply (gi_ch_hd G); assumption).
          rewrite Dn in Hx. subst x.
          apply (st_ch_ch_disj _ _ _ _ _ _ (st_gmf sl n') b n' G Hb' Hbl); [apply st_hd_in; exact Hhd|].
          rewrite Ech. right; left; reflexivity.
    - (* only entry of its chain *)
      assert (Hs : forall x, st_gmt (st_unlink sl e) x = st_gmt sl x /\ st_gmf (st_unlink sl e) x = st_gmf sl x).
      { intros x. apply st_unlink_maps_same. right. exact En. }
      split.
      + apply st_perm_ext with (sl := sl); [apply st_unlink_len|apply Hs|apply Hs|exact (gi_perm G)].
      + intros b' x Hb' Hhd. rewrite (proj1 (Hs b')).
        destruct (Nat.eqb_spec b' b) as [->|Hne]; [|apply (gi_ch_hd G); assumption].
        exfalso.
        destruct l1 as [|a l1'].
        * destruct l2 as [|n'' r]; simpl in *; [discriminate|discriminate].
        * simpl in Mp. destruct (rev l1' ++ [a]) eqn:Er; [destruct (rev l1'); discriminate|discriminate]. }
  destruct Hmaps as [Hperm Hhd].
  constructor.
  - rewrite st_unlink_len. exact (gi_pos G).
  - intros e0 E. injection E as <-. rewrite st_unlink_len. exact He.
  - exact Hperm.
  - intros b' Hb'. rewrite st_unlink_len in Hb'. destruct (Nat.eqb_spec b' b) as [->|Hne].
    + apply st_lk_unlink with (gp := st_gp sl) (gn := st_gn sl) (x := e); try assumption.
      * intros y E; discriminate.
      * intros y _. rewrite st_unlink_gp, st_unlink_gn by assumption. split; reflexivity.
    + apply st_lk_ext with (gp := st_gp sl) (gn := st_gn sl); [|apply (gi_ch_lk G); exact Hb'].
      intros y Hy. apply Hother. intro Hy'. apply Hne. exact (st_ch_ch_disj _ _ _ _ _ _ b' b y G Hb' Hbl Hy Hy').
  - intros b' Hb'. rewrite st_unlink_len in Hb'. destruct (Nat.eqb_spec b' b) as [->|Hne]; [exact Hnd'|apply (gi_ch_nd G); exact Hb'].
  - intros b' x Hb'. rewrite st_unlink_len in *. rewrite Hbk.
    destruct (Nat.eqb_spec b' b) as [->|Hne].
    + split.
      * intro Hx. assert (Hx' : In x (ch b)) by (rewrite Ech; apply st_in_mid; right; exact Hx).
        apply (gi_ch_in G b x Hbl) in Hx'. destruct Hx' as (A & _ & C). repeat split; auto.
        intro E. injection E as <-. contradiction.
      * intros (A & B & C). assert (Hx' : In x (ch b)) by (apply (gi_ch_in G b x Hbl); repeat split; auto; discriminate).
        rewrite Ech in Hx'. apply st_in_mid in Hx'. destruct Hx' as [->|Hx']; [exfalso; apply B; reflexivity|exact Hx'].
    + rewrite (gi_ch_in G b' x Hb'). split; intros (A & B & C); repeat split; auto; try discriminate.
      intro E. injection E as <-. apply Hne. destruct C as (h & Hh & Hk). destruct Hebk as (h' & Hh' & Hk'). congruence.
  - intros b' x Hb'. rewrite st_unlink_len in Hb'. apply Hhd; exact Hb'.
  - apply st_lk_ext with (gp := st_gp sl) (gn := st_gn sl); [|exact (gi_fl_lk G)].
    intros y Hy. apply Hother. intro Hy'. exact (st_ch_fl_disj _ _ _ _ _ _ b y G Hbl Hy' Hy).
  - exact (gi_fl_nd G).
  - intros x. rewrite st_unlink_len, st_unlink_gh. rewrite (gi_fl_in G x).
    split; intros (A & B & C); repeat split; auto; try discriminate.
    intro E. injection E as <-. destruct Hebk as (h' & Hh' & _). congruence.
  - exact (gi_fh G).
  - rewrite st_unlink_len. pose proof (gi_cnt G) as Hc.
    assert (Hlt : length fl < length sl).
    { apply st_nodup_bound_strict with (e := e); [exact (gi_fl_nd G)| |exact He|].
      - intros x Hx. exact (st_fl_lt _ _ _ _ _ _ x G Hx).
      - intro Hx. exact (st_ch_fl_disj _ _ _ _ _ _ b e G Hbl Hein Hx). }
    simpl in Hc. lia.
  - intros x y. rewrite st_unlink_len, !st_unlink_gh, !st_unlink_gk. intros.
    apply (gi_keys G); auto; discriminate.
Qed.

(* ------------------------------------------------------------------ PushToFreeList *)

Lemma st_push_free_len : forall sl e fh, length (fst (st_push_free sl e fh)) = length sl.
Proof. st_frame. Qed.
Lemma st_push_free_gmt : forall sl e fh x, st_gmt (fst (st_push_free sl e fh)) x = st_gmt sl x.
Proof. st_frame. Qed.
Lemma st_push_free_gmf : forall sl e fh x, st_gmf (fst (st_push_free sl e fh)) x = st_gmf sl x.
Proof. st_frame. Qed.
Lemma st_push_free_gh : forall sl e fh y, e < length sl ->
  st_gh (fst (st_push_free sl e fh)) y = if e =? y then None else st_gh sl y.
Proof.
  intros. unfold st_push_free; simpl. destruct fh; autorewrite with stg; st_dec; try reflexivity; lia.
Qed.
Lemma st_push_free_gk : forall sl e fh y, e < length sl ->
  st_gk (fst (st_push_free sl e fh)) y = if e =? y then 0%Z else st_gk sl y.
Proof.
  intros. unfold st_push_free; simpl. destruct fh; autorewrite with stg; st_dec; try reflexivity; lia.
Qed.
Lemma st_push_free_gv : forall sl e fh y, e < length sl ->
  st_gv (fst (st_push_free sl e fh)) y = if e =? y then 0%Z else st_gv sl y.
Proof.
  intros. unfold st_push_free; simpl. destruct fh; autorewrite with stg; st_dec; try reflexivity; lia.
Qed.
Lemma st_push_free_gn : forall sl e fh y, e < length sl ->
  st_gn (fst (st_push_free sl e fh)) y = if e =? y then fh else st_gn sl y.
Proof.
  intros. unfold st_push_free; simpl. destruct fh; autorewrite with stg; st_dec; try reflexivity; lia.
Qed.
Lemma st_push_free_gp : forall sl e fh y, e < length sl -> (forall f, fh = Some f -> f < length sl) ->
  st_gp (fst (st_push_free sl e fh)) y =
    match fh with
    | Some f => if f =? y then Some e else if e =? y then None else st_gp sl y
    | None => if e =? y then None else st_gp sl y
    end.
Proof.
  intros sl e fh y He Hf. unfold st_push_free; simpl.
  destruct fh as [f|]; [specialize (Hf f eq_refl)|]; autorewrite with stg; st_dec; try reflexivity; lia.
Qed.

Lemma st_push_free_ginv : forall sl fh n ch fl e,
  st_ginv (Some e) sl fh n ch fl ->
  st_ginv None (fst (st_push_free sl e fh)) (snd (st_push_free sl e fh)) n ch (e :: fl).
Proof.
  intros sl fh n ch fl e G.
  assert (He : e < length sl) by (apply (gi_limbo G); reflexivity).
  assert (Hfh : fh = hd_error fl) by exact (gi_fh G).
  assert (Hf_in : forall f, fh = Some f -> In f fl) by (intros f E; apply st_hd_in; rewrite <- Hfh; exact E).
  assert (Hf_lt : forall f, fh = Some f -> f < length sl).
  { intros f E. exact (st_fl_lt _ _ _ _ _ _ f G (Hf_in f E)). }
  assert (Henf : ~ In e fl).
  { intro Hx. apply (gi_fl_in G) in Hx. destruct Hx as (_ & B & _). apply B; reflexivity. }
  assert (Hother : forall y, e <> y -> ~ In y fl ->
            st_gp (fst (st_push_free sl e fh)) y = st_gp sl y /\ st_gn (fst (st_push_free sl e fh)) y = st_gn sl y).
  { intros y Hey Hy. rewrite st_push_free_gp, st_push_free_gn by assumption. st_eqs.
    destruct fh as [f|] eqn:Ef; [|split; reflexivity].
    destruct (Nat.eqb_spec f y) as [<-|_]; [exfalso; apply Hy, Hf_in; reflexivity|split; reflexivity]. }
  constructor.
  - rewrite st_push_free_len. exact (gi_pos G).
  - intros e0 E; discriminate.
  - apply st_perm_ext with (sl := sl); [apply st_push_free_len|apply st_push_free_gmt|apply st_push_free_gmf|exact (gi_perm G)].
  - intros b Hb. rewrite st_push_free_len in Hb.
    apply st_lk_ext with (gp := st_gp sl) (gn := st_gn sl); [|apply (gi_ch_lk G); exact Hb].
    intros y Hy. apply Hother.
    + intro E. apply (gi_ch_in G b y Hb) in Hy. destruct Hy as (_ & B & _). apply B. rewrite E; reflexivity.
    + intro Hy'. exact (st_ch_fl_disj _ _ _ _ _ _ b y G Hb Hy Hy').
  - intros b Hb. rewrite st_push_free_len in Hb. apply (gi_ch_nd G); exact Hb.
  - intros b x Hb. rewrite st_push_free_len in *. rewrite (gi_ch_in G b x Hb).
    unfold st_in_bkt. rewrite st_push_free_len. rewrite st_push_free_gh by assumption.
    split.
    + intros (A & B & h & Hh & Hk). repeat split; [exact A|discriminate|]. exists h.
      destruct (Nat.eqb_spec e x) as [E|_]; [exfalso; apply B; rewrite E; reflexivity|]. split; assumption.
    + intros (A & _ & h & Hh & Hk). destruct (Nat.eqb_spec e x) as [E|NE]; [discriminate|].
      repeat split; [exact A|congruence|]. exists h; split; assumption.
  - intros b x Hb. rewrite st_push_free_len in Hb. rewrite st_push_free_gmt. apply (gi_ch_hd G); exact Hb.
  - cbn [st_lk hd_error]. rewrite st_push_free_gp, st_push_free_gn by assumption. rewrite Nat.eqb_refl.
    pose proof (gi_fl_lk G) as Hlk. pose proof (gi_fl_nd G) as Hnd.
    destruct fl as [|f r]; cbn [st_lk hd_error] in *.
    + subst fh. repeat split; reflexivity.
    + subst fh. assert (Hef : e <> f) by (intro E; apply Henf; left; symmetry; exact E).
      st_eqs. destruct Hlk as (Hpf & Hnf & Hlkr). apply NoDup_cons_iff in Hnd as [Hfni Hndr].
      rewrite st_push_free_gp, st_push_free_gn by assumption. st_eqs.
      repeat split; try reflexivity; try assumption.
      apply st_lk_ext with (gp := st_gp sl) (gn := st_gn sl); [|exact Hlkr].
      intros y Hy. rewrite st_push_free_gp, st_push_free_gn by assumption.
      assert (Hfy : f <> y) by (intro E; apply Hfni; rewrite E; exact Hy).
      assert (Hey : e <> y) by (intro E; apply Henf; right; rewrite E; exact Hy).
      st_eqs. split; reflexivity.
  - constructor; [exact Henf|exact (gi_fl_nd G)].
  - intros x. rewrite st_push_free_len. rewrite st_push_free_gh by assumption. cbn [In]. rewrite (gi_fl_in G x). split.
    + intros [<-|(A & B & C)].
      * rewrite Nat.eqb_refl. repeat split; [exact He|discriminate].
      * destruct (Nat.eqb_spec e x) as [E|_]; repeat split; auto; discriminate.
    + intros (A & _ & C). destruct (Nat.eqb_spec e x) as [E|NE]; [left; exact E|].
      right. repeat split; [exact A|congruence|exact C].
  - reflexivity.
  - rewrite st_push_free_len. pose proof (gi_cnt G) as Hc. simpl in Hc |- *. lia.
  - intros x y. rewrite st_push_free_len. rewrite !st_push_free_gh, !st_push_free_gk by assumption.
    intros Hx Hy _ _.
    destruct (Nat.eqb_spec e x) as [Ex|Nx]; [intros U; exfalso; apply U; reflexivity|].
    destruct (Nat.eqb_spec e y) as [Ey|Ny]; [intros _ U; exfalso; apply U; reflexivity|].
    intros. apply (gi_keys G); auto; congruence.
Qed.

(* ------------------------------------------------------------------ CreateEntriesArray *)

Lemma st_create_len : forall n, length (st_create_slots n) = n.
Proof. intros n. unfold st_create_slots. rewrite st_len_set_bnext, map_length, seq_length. reflexivity. Qed.

Lemma st_init_slot_nth : forall n i, i < n -> st_slot (map st_init_slot (seq 0 n)) i = st_init_slot i.
Proof.
  intros n i Hi. unfold st_slot.
  rewrite nth_indep with (d' := st_init_slot 0) by (rewrite map_length, seq_length; exact Hi).
  rewrite map_nth. rewrite seq_nth by exact Hi. reflexivity.
Qed.

Lemma st_create_gh : forall n i, st_gh (st_create_slots n) i = None.
Proof.
  intros n i. unfold st_create_slots. rewrite st_gh_set_bnext. unfold st_gh.
  destruct (Nat.ltb_spec i n) as [Hi|Hi].
  - rewrite st_init_slot_nth by exact Hi. reflexivity.
  - unfold st_slot. rewrite nth_overflow by (rewrite map_length, seq_length; exact Hi). reflexivity.
Qed.

Lemma st_create_gmt : forall n i, i < n -> st_gmt (st_create_slots n) i = i.
Proof.
  intros n i Hi. unfold st_create_slots. rewrite st_gmt_set_bnext. unfold st_gmt.
  rewrite st_init_slot_nth by exact Hi. reflexivity.
Qed.

Lemma st_create_gmf : forall n i, i < n -> st_gmf (st_create_slots n) i = i.
Proof.
  intros n i Hi. unfold st_create_slots. rewrite st_gmf_set_bnext. unfold st_gmf.
  rewrite st_init_slot_nth by exact Hi. reflexivity.
Qed.

Lemma st_create_gp : forall n i, i < n ->
  st_gp (st_create_slots n) i = match i with 0 => None | S j => Some j end.
Proof.
  intros n i Hi. unfold st_create_slots. rewrite st_gp_set_bnext. unfold st_gp.
  rewrite st_init_slot_nth by exact Hi. reflexivity.
Qed.

Lemma st_create_gn : forall n i, i < n ->
  st_gn (st_create_slots n) i = if S i =? n then None else Some (S i).
Proof.
  intros n i Hi. unfold st_create_slots. rewrite st_gn_set_bnext. rewrite map_length, seq_length.
  unfold st_gn. rewrite st_init_slot_nth by exact Hi. cbn [st_init_slot s_bnext].
  st_dec; try reflexivity; lia.
Qed.

Lemma st_create_lk : forall n m a,
  a + m = n ->
  st_lk (st_gp (st_create_slots n)) (st_gn (st_create_slots n))
        (match a with 0 => None | S j => Some j end) (seq a m).
Proof.
  intros n. induction m as [|m IH]; intros a Ha; simpl; [exact I|].
  rewrite st_create_gp, st_create_gn by lia.
  repeat split.
  - destruct m as [|m]; cbn [seq hd_error]; st_dec; try reflexivity; lia.
  - apply (IH (S a)). lia.
Qed.

Lemma st_create_ginv : forall n, 0 < n ->
  st_ginv None (st_create_slots n) (Some 0) 0 (fun _ => []) (seq 0 n).
Proof.
  intros n Hn. constructor.
  - rewrite st_create_len. exact Hn.
  - intros e E; discriminate.
  - intros i Hi. rewrite st_create_len in *.
    rewrite !st_create_gmt, !st_create_gmf by (rewrite ?st_create_gmt by exact Hi; exact Hi).
    rewrite st_create_gmt by exact Hi. auto.
  - intros b _. exact I.
  - intros b _. constructor.
  - intros b x _. split; [intros []|]. intros (_ & _ & h & Hh & _). rewrite st_create_gh in Hh. discriminate.
  - intros b x _ E. discriminate.
  - apply (st_create_lk n n 0). reflexivity.
  - apply seq_NoDup.
  - intros x. rewrite st_create_len, st_create_gh, in_seq. split.
    + intros [_ H]. repeat split; [exact H|discriminate].
    + intros (H & _ & _). lia.
  - destruct n; [lia|reflexivity].
  - rewrite st_create_len, seq_length. lia.
  - intros x y _ _ _ _ U. rewrite st_create_gh in U. exfalso; apply U; reflexivity.
Qed.

Theorem sinv_create : forall n, 0 < n -> sinv (st_create n).
Proof.
  intros n Hn. exists (fun _ => []), (seq 0 n). simpl. apply st_create_ginv; exact Hn.
Qed.

(* ------------------------------------------------------------------ PutAuxAux *)

Definition st_key_absent (sl : list slot) (key : Z) : Prop :=
  forall x, x < length sl -> st_gh sl x <> None -> st_gk sl x <> key.

(* what a put of a new key does to the payload fields *)
Definition st_put_post (sl sl' : list slot) (e : nat) (hash : N) (key val : Z) : Prop :=
  length sl' = length sl /\ e < length sl /\ st_gh sl e = None /\
  (forall y, st_gh sl' y = if e =? y then Some hash else st_gh sl y) /\
  (forall y, st_gk sl' y = if e =? y then key else st_gk sl y) /\
  (forall y, st_gv sl' y = if e =? y then val else st_gv sl y).

Lemma st_is_head_true : forall L sl fh n ch fl b,
  st_ginv L sl fh n ch fl -> b < length sl -> L = None ->
  st_is_head sl (st_gmt sl b) = true -> exists cr, ch b = st_gmt sl b :: cr.
Proof.
  intros L sl fh n ch fl b G Hb HL Hh. subst L. unfold st_is_head in Hh.
  destruct (st_gh sl (st_gmt sl b)) as [h'|] eqn:Eh; [|discriminate].
  apply Nat.eqb_eq in Hh.
  destruct (gi_perm G b Hb) as (A & _ & _ & _).
  assert (Hb' : st_bkt (length sl) h' < length sl) by (apply st_bkt_lt; exact (gi_pos G)).
  assert (Eb : st_bkt (length sl) h' = b) by (apply (st_perm_inj sl _ _ (gi_perm G) Hb' Hb Hh)).
  assert (Hin : In (st_gmt sl b) (ch b)).
  { apply (gi_ch_in G b _ Hb). repeat split; [exact A|discriminate|]. exists h'. split; assumption. }
  destruct (ch b) as [|x cr] eqn:Ech; [destruct Hin|].
  assert (Hx : st_gmt sl b = x) by (apply (gi_ch_hd G b x Hb); rewrite Ech; reflexivity).
  exists cr. rewrite Hx. reflexivity.
Qed.

Lemma st_is_head_false : forall sl fh n ch fl b,
  st_ginv None sl fh n ch fl -> b < length sl ->
  st_is_head sl (st_gmt sl b) = false -> ch b = [].
Proof.
  intros sl fh n ch fl b G Hb Hh.
  destruct (ch b) as [|x cr] eqn:Ech; [reflexivity|]. exfalso.
  assert (Hx : st_gmt sl b = x) by (apply (gi_ch_hd G b x Hb); rewrite Ech; reflexivity).
  assert (Hin : In x (ch b)) by (rewrite Ech; left; reflexivity).
  apply (gi_ch_in G b x Hb) in Hin. destruct Hin as (_ & _ & h & Eh & Ek).
  unfold st_is_head in Hh. rewrite Hx, Eh, Ek in Hh. rewrite Hx, Nat.eqb_refl in Hh. discriminate.
Qed.

Lemma st_put_new_spec : forall st hash key val ch fl,
  st_ginv None (slots st) (free_head st) (nitems st) ch fl ->
  nitems st < st_size st ->
  st_key_absent (slots st) key ->
  let st' := fst (st_put_new st hash key val) in
  let e := snd (st_put_new st hash key val) in
  (exists ch' fl', st_ginv None (slots st') (free_head st') (nitems st') ch' fl') /\
  st_put_post (slots st) (slots st') e hash key val /\
  nitems st' = S (nitems st).
Proof.
  intros st hash key val ch fl G Hfree Habs. unfold st_size in Hfree.
  set (sl := slots st) in *.
  set (b := st_bkt (length sl) hash).
  assert (Hbl : b < length sl) by (apply st_bkt_lt; exact (gi_pos G)).
  destruct (gi_perm G b Hbl) as (Hts & _ & Cb & _).
  (* the free list is not empty *)
  pose proof (gi_cnt G) as Hc. simpl in Hc.
  destruct fl as [|f fr] eqn:Efl; [simpl in Hc; lia|].
  assert (Hfh : free_head st = Some f) by (rewrite (gi_fh G); reflexivity).
  assert (Hfin : In f fl) by (rewrite Efl; left; reflexivity).
  rewrite <- Efl in G.
  assert (Hf : f < length sl) by exact (st_fl_lt _ _ _ _ _ _ f G Hfin).
  assert (Hghf : st_gh sl f = None) by (apply (gi_fl_in G) in Hfin; tauto).
  cbv zeta. unfold st_put_new. fold sl. fold b.
  destruct (st_is_head sl (st_gmt sl b)) eqn:Ehd.
  - (* the bucket already has a chain: link behind its head *)
    destruct (st_is_head_true _ _ _ _ _ _ b G Hbl eq_refl Ehd) as (cr & Ech).
    rewrite Hfh.
    destruct (st_pop_free sl f (Some f)) as [sl1 fh1] eqn:Epop.
    assert (E1 : sl1 = fst (st_pop_free sl f (free_head st))) by (rewrite Hfh, Epop; reflexivity).
    assert (E2 : fh1 = snd (st_pop_free sl f (free_head st))) by (rewrite Hfh, Epop; reflexivity).
    destruct (st_pop_free_ginv _ _ _ _ _ f G Hfin) as (fl' & G1). rewrite <- E1, <- E2 in G1.
    assert (Hl1 : length sl1 = length sl) by (rewrite E1; apply st_pop_free_len).
    cbn [fst snd slots free_head nitems].
    repeat split.
    + eexists. exists fl'.
      apply st_link_after_ginv with (ch := ch) (cr := cr); try exact G1.
      * reflexivity.
      * rewrite Hl1. exact Ech.
      * intros x Hx _. rewrite E1, st_pop_free_gh, st_pop_free_gk. rewrite Hl1 in Hx. apply Habs; exact Hx.
    + rewrite st_link_after_len. exact Hl1.
    + exact Hf.
    + exact Hghf.
    + intros y. rewrite st_link_after_gh by (rewrite Hl1; exact Hf). rewrite E1, st_pop_free_gh. reflexivity.
    + intros y. rewrite st_link_after_gk by (rewrite Hl1; exact Hf). rewrite E1, st_pop_free_gk. reflexivity.
    + intros y. rewrite st_link_after_gv by (rewrite Hl1; exact Hf). rewrite E1, st_pop_free_gv. reflexivity.
  - (* the bucket is empty *)
    pose proof (st_is_head_false _ _ _ _ _ b G Hbl Ehd) as Ech.
    (* choose the slot: the starter slot, or the free head after swapping the maps *)
    assert (Hpre : exists sl0 ts0,
      (match st_gh sl (st_gmt sl b), free_head st with
       | Some _, Some f0 => (st_swap_maps sl (st_gmf sl (st_gmt sl b)) (st_gmf sl f0), f0)
       | _, _ => (sl, st_gmt sl b)
       end) = (sl0, ts0) /\
      st_ginv None sl0 (free_head st) (nitems st) ch fl /\ In ts0 fl /\ st_gmt sl0 b = ts0 /\
      length sl0 = length sl /\ (forall x, st_gh sl0 x = st_gh sl x) /\
      (forall x, st_gk sl0 x = st_gk sl x) /\ (forall x, st_gv sl0 x = st_gv sl x)).
    { destruct (st_gh sl (st_gmt sl b)) as [h'|] eqn:Eh.
      - rewrite Hfh. rewrite Cb.
        destruct (gi_perm G f Hf) as (_ & Bf & _ & Df).
        assert (Ecf : ch (st_gmf sl f) = []).
        { destruct (ch (st_gmf sl f)) as [|x cr] eqn:Ec; [reflexivity|]. exfalso.
          assert (Hx : st_gmt sl (st_gmf sl f) = x) by (apply (gi_ch_hd G _ x Bf); rewrite Ec; reflexivity).
          rewrite Df in Hx. subst x.
          apply (st_ch_fl_disj _ _ _ _ _ _ (st_gmf sl f) f G Bf); [rewrite Ec; left; reflexivity|exact Hfin]. }
        eexists. eexists. split; [reflexivity|]. rewrite <- Hfh.
        split; [exact (st_swap_ginv_empty _ _ _ _ _ _ b (st_gmf sl f) G Hbl Bf Ech Ecf)|].
        split; [exact Hfin|].
        split; [rewrite st_swap_gmt by assumption; rewrite Nat.eqb_refl; exact Df|].
        split; [apply st_swap_len|].
        split; [intros x; apply st_swap_gh|]. split; intros x; [apply st_swap_gk|apply st_swap_gv].
      - eexists. eexists. split; [destruct (free_head st); reflexivity|].
        split; [exact G|].
        split; [apply (gi_fl_in G); repeat split; [exact Hts|discriminate|exact Eh]|].
        repeat split; reflexivity. }
    destruct Hpre as (sl0 & ts0 & Epre & G0 & Hin0 & Hmt0 & Hl0 & Hgh0 & Hgk0 & Hgv0).
    rewrite Epre.
    destruct (st_pop_free sl0 ts0 (free_head st)) as [sl1 fh1] eqn:Epop.
    assert (E1 : sl1 = fst (st_pop_free sl0 ts0 (free_head st))) by (rewrite Epop; reflexivity).
    assert (E2 : fh1 = snd (st_pop_free sl0 ts0 (free_head st))) by (rewrite Epop; reflexivity).
    destruct (st_pop_free_ginv _ _ _ _ _ ts0 G0 Hin0) as (fl' & G1). rewrite <- E1, <- E2 in G1.
    assert (Hl1 : length sl1 = length sl) by (rewrite E1, st_pop_free_len; exact Hl0).
    assert (Ht0 : ts0 < length sl) by (rewrite <- Hl0; exact (st_fl_lt _ _ _ _ _ _ ts0 G0 Hin0)).
    cbn [fst snd slots free_head nitems].
    repeat split.
    + eexists. exists fl'.
      apply st_link_first_ginv with (ch := ch); try exact G1.
      * rewrite Hl1. reflexivity.
      * exact Ech.
      * rewrite E1, st_pop_free_gmt. exact Hmt0.
      * intros x Hx _. rewrite E1, st_pop_free_gh, st_pop_free_gk, Hgh0, Hgk0. rewrite Hl1 in Hx. apply Habs; exact Hx.
    + rewrite st_link_first_len. exact Hl1.
    + exact Ht0.
    + rewrite <- Hgh0. apply (gi_fl_in G0) in Hin0. tauto.
    + intros y. rewrite st_link_first_gh by (rewrite Hl1; exact Ht0). rewrite E1, st_pop_free_gh, Hgh0. reflexivity.
    + intros y. rewrite st_link_first_gk by (rewrite Hl1; exact Ht0). rewrite E1, st_pop_free_gk, Hgk0. reflexivity.
    + intros y. rewrite st_link_first_gv by (rewrite Hl1; exact Ht0). rewrite E1, st_pop_free_gv, Hgv0. reflexivity.
Qed.

Theorem sinv_put_new : forall st hash key val,
  sinv st -> nitems st < st_size st -> st_key_absent (slots st) key ->
  sinv (fst (st_put_new st hash key val)).
Proof.
  intros st hash key val (ch & fl & G) Hfree Habs.
  destruct (st_put_new_spec st hash key val ch fl G Hfree Habs) as (H & _ & _). exact H.
Qed.

(* ------------------------------------------------------------------ RemoveEntry *)

Definition st_remove_post (sl sl' : list slot) (i : nat) : Prop :=
  length sl' = length sl /\
  (forall y, st_gh sl' y = if i =? y then None else st_gh sl y) /\
  (forall y, st_gk sl' y = if i =? y then 0%Z else st_gk sl y) /\
  (forall y, st_gv sl' y = if i =? y then 0%Z else st_gv sl y).

Lemma st_remove_spec : forall st i ch fl,
  st_ginv None (slots st) (free_head st) (nitems st) ch fl ->
  i < st_size st -> st_gh (slots st) i <> None ->
  (exists ch' fl', st_ginv None (slots (st_remove st i)) (free_head (st_remove st i)) (nitems (st_remove st i)) ch' fl') /\
  st_remove_post (slots st) (slots (st_remove st i)) i /\
  nitems (st_remove st i) = pred (nitems st).
Proof.
  intros st i ch fl G Hi Hu. unfold st_size in Hi.
  destruct (st_gh (slots st) i) as [h|] eqn:Eh; [clear Hu|exfalso; apply Hu; reflexivity].
  set (b := st_bkt (length (slots st)) h).
  assert (Hbl : b < length (slots st)) by (apply st_bkt_lt; exact (gi_pos G)).
  assert (Hin : In i (ch b)).
  { apply (gi_ch_in G b i Hbl). repeat split; [exact Hi|discriminate|]. exists h. split; [exact Eh|reflexivity]. }
  destruct (in_split i (ch b) Hin) as (l1 & l2 & Ech).
  pose proof (st_unlink_ginv _ _ _ _ _ i b l1 l2 G Hbl Ech) as G1.
  pose proof (st_push_free_ginv _ _ _ _ _ i G1) as G2.
  assert (Hi1 : i < length (st_unlink (slots st) i)) by (rewrite st_unlink_len; exact Hi).
  unfold st_remove.
  destruct (st_push_free (st_unlink (slots st) i) i (free_head st)) as [sl2 fh2] eqn:Ep.
  cbn [fst snd] in G2. cbn [slots free_head nitems].
  assert (E2 : sl2 = fst (st_push_free (st_unlink (slots st) i) i (free_head st))) by (rewrite Ep; reflexivity).
  repeat split.
  - eexists. eexists. exact G2.
  - rewrite E2, st_push_free_len, st_unlink_len. reflexivity.
  - intros y. rewrite E2. rewrite st_push_free_gh by exact Hi1. rewrite st_unlink_gh. reflexivity.
  - intros y. rewrite E2. rewrite st_push_free_gk by exact Hi1. rewrite st_unlink_gk. reflexivity.
  - intros y. rewrite E2. rewrite st_push_free_gv by exact Hi1. rewrite st_unlink_gv. reflexivity.
Qed.

Theorem sinv_remove : forall st i,
  sinv st -> i < st_size st -> st_gh (slots st) i <> None -> sinv (st_remove st i).
Proof.
  intros st i (ch & fl & G) Hi Hu.
  destruct (st_remove_spec st i ch fl G Hi Hu) as (H & _ & _). exact H.
Qed.

(* ------------------------------------------------------------------ value replacement *)

Lemma st_set_v_ginv : forall L sl fh n ch fl i v,
  st_ginv L sl fh n ch fl -> st_ginv L (st_set_v sl i v) fh n ch fl.
Proof.
  intros L sl fh n ch fl i v G.
  assert (Hbk : forall x b, st_in_bkt (st_set_v sl i v) x b <-> st_in_bkt sl x b).
  { intros x b. unfold st_in_bkt. rewrite st_len_set_v, st_gh_set_v. tauto. }
  constructor.
  - rewrite st_len_set_v. exact (gi_pos G).
  - intros e E. rewrite st_len_set_v. apply (gi_limbo G); exact E.
  - apply st_perm_ext with (sl := sl); [apply st_len_set_v| | |exact (gi_perm G)]; intros x; autorewrite with stg; reflexivity.
  - intros b Hb. rewrite st_len_set_v in Hb.
    apply st_lk_ext with (gp := st_gp sl) (gn := st_gn sl); [|apply (gi_ch_lk G); exact Hb].
    intros x _. autorewrite with stg. split; reflexivity.
  - intros b Hb. rewrite st_len_set_v in Hb. apply (gi_ch_nd G); exact Hb.
  - intros b x Hb. rewrite st_len_set_v in *. rewrite Hbk. apply (gi_ch_in G); exact Hb.
  - intros b x Hb. rewrite st_len_set_v in Hb. rewrite st_gmt_set_v. apply (gi_ch_hd G); exact Hb.
  - apply st_lk_ext with (gp := st_gp sl) (gn := st_gn sl); [|exact (gi_fl_lk G)].
    intros x _. autorewrite with stg. split; reflexivity.
  - exact (gi_fl_nd G).
  - intros x. rewrite st_len_set_v, st_gh_set_v. apply (gi_fl_in G).
  - exact (gi_fh G).
  - rewrite st_len_set_v. exact (gi_cnt G).
  - intros x y. rewrite st_len_set_v, !st_gh_set_v, !st_gk_set_v. apply (gi_keys G).
Qed.

Theorem sinv_set_val : forall st i v, sinv st -> sinv (st_set_val st i v).
Proof.
  intros st i v (ch & fl & G). exists ch, fl. unfold st_set_val. cbn [slots free_head nitems].
  apply st_set_v_ginv. exact G.
Qed.

(* ------------------------------------------------------------------ GetEntry: the chain walk *)

Definition st_match (sl : list slot) (hash : N) (key : Z) (y : nat) : bool :=
  (match st_gh sl y with Some h => N.eqb h hash | None => false end) && Z.eqb (st_gk sl y) key.

Lemma st_walk_sound : forall sl fuel x hash key i,
  st_walk sl fuel x hash key = Some i -> st_match sl hash key i = true.
Proof.
  intros sl. induction fuel as [|f IH]; intros x hash key i H; simpl in H; [discriminate|].
  fold (st_match sl hash key x) in H.
  destruct (st_match sl hash key x) eqn:Em.
  - injection H as <-. exact Em.
  - destruct (st_gn sl x) as [n'|]; [|discriminate]. apply (IH _ _ _ _ H).
Qed.

Lemma st_walk_none : forall sl hash key l p x r fuel,
  st_lk (st_gp sl) (st_gn sl) p l -> l = x :: r ->
  (forall y, In y l -> st_match sl hash key y = false) ->
  st_walk sl fuel x hash key = None.
Proof.
  intros sl hash key. induction l as [|a l IH]; intros p x r fuel Hlk El Hno; [discriminate|].
  injection El as -> ->. destruct fuel as [|f]; [reflexivity|]. simpl.
  fold (st_match sl hash key x). rewrite (Hno x (or_introl eq_refl)).
  destruct Hlk as (_ & Hn & Hr). rewrite Hn.
  destruct r as [|y r']; [reflexivity|]. simpl.
  apply (IH (Some x) y r' f Hr eq_refl). intros z Hz. apply Hno. right; exact Hz.
Qed.

Lemma st_walk_found : forall sl hash key i l2 l1 p x fuel,
  st_lk (st_gp sl) (st_gn sl) p (l1 ++ i :: l2) ->
  hd_error (l1 ++ [i]) = Some x ->
  (forall y, In y l1 -> st_match sl hash key y = false) ->
  st_match sl hash key i = true ->
  length (l1 ++ i :: l2) <= fuel ->
  st_walk sl fuel x hash key = Some i.
Proof.
  intros sl hash key i l2. induction l1 as [|a l1 IH]; intros p x fuel Hlk Hhd Hno Hm Hf; simpl in *.
  - injection Hhd as <-. destruct fuel as [|f]; [lia|]. simpl. fold (st_match sl hash key i). rewrite Hm. reflexivity.
  - injection Hhd as <-. destruct fuel as [|f]; [lia|]. simpl. fold (st_match sl hash key a).
    rewrite (Hno a (or_introl eq_refl)).
    destruct Hlk as (_ & Hn & Hr). rewrite Hn. rewrite st_hd_app_cons.
    destruct (hd_error (l1 ++ [i])) as [y|] eqn:Ey; [|destruct l1; discriminate].
    apply (IH (Some a) y f Hr eq_refl); [|exact Hm|lia]. intros z Hz. apply Hno. right; exact Hz.
Qed.

Lemma st_gh_lt : forall sl i, st_gh sl i <> None -> i < length sl.
Proof.
  intros sl i H. destruct (Nat.ltb_spec i (length sl)) as [Hi|Hi]; [exact Hi|].
  exfalso. apply H. unfold st_gh, st_slot. rewrite nth_overflow by exact Hi. reflexivity.
Qed.

Section WithHash.
Variable hashf : Z -> N.

Definition st_hash_ok (sl : list slot) : Prop :=
  forall x h, st_gh sl x = Some h -> h = hashf (st_gk sl x).

Lemma st_match_iff : forall sl k y, st_hash_ok sl ->
  (st_match sl (hashf k) k y = true <-> st_gh sl y <> None /\ st_gk sl y = k).
Proof.
  intros sl k y Hok. unfold st_match. split.
  - intro H. apply andb_true_iff in H as [H1 H2]. apply Z.eqb_eq in H2.
    destruct (st_gh sl y); [|discriminate]. split; [discriminate|exact H2].
  - intros [H1 H2]. destruct (st_gh sl y) as [h|] eqn:Eh; [|exfalso; apply H1; reflexivity].
    rewrite (Hok y h Eh), H2, N.eqb_refl, Z.eqb_refl. reflexivity.
Qed.

Theorem st_get_correct : forall st k i,
  sinv st -> st_hash_ok (slots st) ->
  (st_get st (hashf k) k = Some i <->
   i < st_size st /\ st_gh (slots st) i <> None /\ st_gk (slots st) i = k).
Proof.
  intros st k i (ch & fl & G) Hok. unfold st_size. set (sl := slots st) in *. split.
  - unfold st_get. fold sl. intro H.
    destruct (nitems st =? 0); [discriminate|].
    destruct (st_is_head sl _); [|discriminate].
    apply st_walk_sound in H. apply (st_match_iff sl k i Hok) in H. destruct H as [H1 H2].
    repeat split; try assumption. apply st_gh_lt; exact H1.
  - intros (Hi & Hu & Hk).
    destruct (st_gh sl i) as [h|] eqn:Eh; [clear Hu|exfalso; apply Hu; reflexivity].
    assert (Ehk : h = hashf k) by (rewrite <- Hk; apply Hok; exact Eh).
    set (b := st_bkt (length sl) (hashf k)).
    assert (Hbl : b < length sl) by (apply st_bkt_lt; exact (gi_pos G)).
    assert (Hin : In i (ch b)).
    { apply (gi_ch_in G b i Hbl). repeat split; [exact Hi|discriminate|]. exists h. split; [exact Eh|rewrite Ehk; reflexivity]. }
    destruct (in_split i (ch b) Hin) as (l1 & l2 & Ech).
    assert (Hhd : hd_error (ch b) = Some (st_gmt sl b)).
    { destruct (ch b) as [|x cr] eqn:E; [destruct l1; discriminate|].
      rewrite (gi_ch_hd G b x Hbl); [reflexivity|rewrite E; reflexivity]. }
    assert (Hn0 : nitems st <> 0).
    { pose proof (gi_cnt G) as Hc. simpl in Hc.
      assert (Hlt : length fl < length sl).
      { apply st_nodup_bound_strict with (e := i); [exact (gi_fl_nd G)| |exact Hi|].
        - intros x Hx. exact (st_fl_lt _ _ _ _ _ _ x G Hx).
        - intro Hx. exact (st_ch_fl_disj _ _ _ _ _ _ b i G Hbl Hin Hx). }
      lia. }
    unfold st_get. fold sl. fold b.
    destruct (Nat.eqb_spec (nitems st) 0) as [E|_]; [contradiction|].
    assert (Htsin : In (st_gmt sl b) (ch b)) by (apply st_hd_in; exact Hhd).
    assert (Hish : st_is_head sl (st_gmt sl b) = true).
    { pose proof (proj1 (gi_ch_in G b _ Hbl) Htsin) as (_ & _ & h' & Eh' & Ek').
      unfold st_is_head. rewrite Eh', Ek'. apply Nat.eqb_refl. }
    rewrite Hish.
    pose proof (gi_ch_lk G b Hbl) as Hlk. rewrite Ech in Hlk.
    pose proof (gi_ch_nd G b Hbl) as Hnd. rewrite Ech in Hnd.
    apply st_walk_found with (l1 := l1) (l2 := l2) (p := None); try assumption.
    + rewrite <- st_hd_app_cons with (l2 := l2). rewrite <- Ech. exact Hhd.
    + intros y Hy. destruct (st_match sl (hashf k) k y) eqn:Em; [|reflexivity]. exfalso.
      apply (st_match_iff sl k y Hok) in Em. destruct Em as [U K].
      assert (Hyin : In y (ch b)) by (rewrite Ech; apply in_or_app; left; exact Hy).
      assert (Hyi : y = i).
      { apply (gi_keys G); try assumption; try discriminate.
        - exact (st_ch_lt _ _ _ _ _ _ b y G Hbl Hyin).
        - rewrite Eh; discriminate.
        - congruence. }
      subst y. apply NoDup_remove_2 in Hnd. apply Hnd. apply in_or_app. left; exact Hy.
    + apply (st_match_iff sl k i Hok). split; [rewrite Eh; discriminate|exact Hk].
    + rewrite <- Ech. apply st_nodup_bound; [apply (gi_ch_nd G); exact Hbl|].
      intros x Hx. exact (st_ch_lt _ _ _ _ _ _ b x G Hbl Hx).
Qed.

Theorem st_keys_distinct : forall st x y,
  sinv st -> x < st_size st -> y < st_size st ->
  st_gh (slots st) x <> None -> st_gh (slots st) y <> None ->
  st_gk (slots st) x = st_gk (slots st) y -> x = y.
Proof.
  intros st x y (ch & fl & G) Hx Hy Ux Uy E. apply (gi_keys G); try assumption; discriminate.
Qed.

(* ------------------------------------------------------------------ lookup by scanning all slots *)

Definition st_holds (sl : list slot) (k v : Z) (i : nat) : Prop :=
  i < length sl /\ st_gh sl i <> None /\ st_gk sl i = k /\ st_gv sl i = v.

Lemma st_used_key_iff : forall k s, st_used_key k s = true <-> s_hash s <> None /\ s_key s = k.
Proof.
  intros k s. unfold st_used_key. destruct (s_hash s); split.
  - intro H. apply Z.eqb_eq in H. split; [discriminate|exact H].
  - intros [_ H]. apply Z.eqb_eq; exact H.
  - discriminate.
  - intros [H _]. exfalso; apply H; reflexivity.
Qed.

Lemma st_lookup_some_elim : forall st k v,
  st_lookup st k = Some v -> exists i, st_holds (slots st) k v i.
Proof.
  intros st k v H. unfold st_lookup in H.
  destruct (find (st_used_key k) (slots st)) as [s|] eqn:Ef; [|discriminate].
  injection H as <-. apply find_some in Ef. destruct Ef as [Hin Hf].
  apply st_used_key_iff in Hf. destruct Hf as [Hu Hk].
  destruct (In_nth _ _ st_dflt Hin) as (i & Hi & En).
  exists i. unfold st_holds, st_gh, st_gk, st_gv, st_slot. rewrite En. auto.
Qed.

Lemma st_lookup_none_elim : forall st k,
  st_lookup st k = None -> st_key_absent (slots st) k.
Proof.
  intros st k H i Hi Hu Hk. unfold st_lookup in H.
  destruct (find (st_used_key k) (slots st)) as [s|] eqn:Ef; [discriminate|].
  pose proof (find_none _ _ Ef (st_slot (slots st) i) (nth_In _ _ Hi)) as Hf.
  assert (Ht : st_used_key k (st_slot (slots st) i) = true) by (apply st_used_key_iff; split; assumption).
  congruence.
Qed.

Lemma st_lookup_some_intro : forall st k v i,
  sinv st -> st_holds (slots st) k v i -> st_lookup st k = Some v.
Proof.
  intros st k v i Hs (Hi & Hu & Hk & Hv).
  destruct (st_lookup st k) as [v'|] eqn:El.
  - destruct (st_lookup_some_elim st k v' El) as (j & Hj & Uj & Kj & Vj).
    assert (E : j = i) by (apply (st_keys_distinct st j i Hs); try assumption; congruence).
    subst j. congruence.
  - exfalso. apply (st_lookup_none_elim st k El i Hi Hu Hk).
Qed.

Lemma st_lookup_none_intro : forall st k,
  st_key_absent (slots st) k -> st_lookup st k = None.
Proof.
  intros st k Habs. destruct (st_lookup st k) as [v|] eqn:El; [|reflexivity].
  destruct (st_lookup_some_elim st k v El) as (j & Hj & Uj & Kj & _).
  exfalso. apply (Habs j Hj Uj Kj).
Qed.

Lemma st_lookup_transfer : forall st st' k k',
  sinv st -> sinv st' ->
  (forall v, (exists i, st_holds (slots st) k v i) <-> (exists i, st_holds (slots st') k' v i)) ->
  st_lookup st' k' = st_lookup st k.
Proof.
  intros st st' k k' Hs Hs' Hiff.
  destruct (st_lookup st k) as [v|] eqn:El.
  - destruct (proj1 (Hiff v) (st_lookup_some_elim st k v El)) as (i & Hi).
    apply (st_lookup_some_intro st' k' v i Hs' Hi).
  - destruct (st_lookup st' k') as [v'|] eqn:El'; [|reflexivity].
    destruct (proj2 (Hiff v') (st_lookup_some_elim st' k' v' El')) as (i & Hi).
    rewrite (st_lookup_some_intro st k v' i Hs Hi) in El. discriminate.
Qed.

(* ------------------------------------------------------------------ finite-map laws *)

Theorem st_put_new_lookup_same : forall st hash key val,
  sinv st -> nitems st < st_size st -> st_key_absent (slots st) key ->
  st_lookup (fst (st_put_new st hash key val)) key = Some val.
Proof.
  intros st hash key val Hs Hfree Habs.
  pose proof (sinv_put_new st hash key val Hs Hfree Habs) as Hs'.
  destruct Hs as (ch & fl & G).
  destruct (st_put_new_spec st hash key val ch fl G Hfree Habs) as (_ & (Hl & He & _ & Hgh & Hgk & Hgv) & _).
  apply (st_lookup_some_intro _ key val (snd (st_put_new st hash key val)) Hs').
  unfold st_holds. rewrite Hl, Hgh, Hgk, Hgv, Nat.eqb_refl. repeat split; [exact He|discriminate].
Qed.

Theorem st_put_new_lookup_other : forall st hash key val k',
  sinv st -> nitems st < st_size st -> st_key_absent (slots st) key -> k' <> key ->
  st_lookup (fst (st_put_new st hash key val)) k' = st_lookup st k'.
Proof.
  intros st hash key val k' Hs Hfree Habs Hne.
  pose proof (sinv_put_new st hash key val Hs Hfree Habs) as Hs'.
  apply st_lookup_transfer; try assumption.
  destruct Hs as (ch & fl & G).
  destruct (st_put_new_spec st hash key val ch fl G Hfree Habs) as (_ & (Hl & He & Hfe & Hgh & Hgk & Hgv) & _).
  set (e := snd (st_put_new st hash key val)) in *.
  intros v. split; intros (i & Hi & Hu & Hk & Hv); exists i; unfold st_holds in *.
  - rewrite Hl, Hgh, Hgk, Hgv.
    destruct (Nat.eqb_spec e i) as [E|_]; [exfalso; apply Hu; rewrite <- E; exact Hfe|]. auto.
  - rewrite Hl, Hgh, Hgk, Hgv in *.
    destruct (Nat.eqb_spec e i) as [E|_]; [exfalso; apply Hne; symmetry; exact Hk|]. auto.
Qed.

Theorem st_remove_lookup_same : forall st i,
  sinv st -> i < st_size st -> st_gh (slots st) i <> None ->
  st_lookup (st_remove st i) (st_gk (slots st) i) = None.
Proof.
  intros st i Hs Hi Hu.
  pose proof Hs as (ch & fl & G).
  destruct (st_remove_spec st i ch fl G Hi Hu) as (_ & (Hl & Hgh & Hgk & Hgv) & _).
  apply st_lookup_none_intro. intros j Hj Uj Kj. rewrite Hl in Hj. rewrite Hgh in Uj. rewrite Hgk in Kj.
  destruct (Nat.eqb_spec i j) as [E|NE]; [apply Uj; reflexivity|].
  apply NE. apply (st_keys_distinct st i j Hs); try assumption. symmetry; exact Kj.
Qed.

Theorem st_remove_lookup_other : forall st i k',
  sinv st -> i < st_size st -> st_gh (slots st) i <> None -> k' <> st_gk (slots st) i ->
  st_lookup (st_remove st i) k' = st_lookup st k'.
Proof.
  intros st i k' Hs Hi Hu Hne.
  pose proof (sinv_remove st i Hs Hi Hu) as Hs'.
  apply st_lookup_transfer; try assumption.
  destruct Hs as (ch & fl & G).
  destruct (st_remove_spec st i ch fl G Hi Hu) as (_ & (Hl & Hgh & Hgk & Hgv) & _).
  intros v. split; intros (j & Hj & Uj & Kj & Vj); exists j; unfold st_holds in *.
  - rewrite Hl, Hgh, Hgk, Hgv.
    destruct (Nat.eqb_spec i j) as [E|_]; [exfalso; apply Hne; rewrite E; symmetry; exact Kj|]. auto.
  - rewrite Hl, Hgh, Hgk, Hgv in *.
    destruct (Nat.eqb_spec i j) as [E|_]; [exfalso; apply Uj; reflexivity|]. auto.
Qed.

Theorem st_set_val_lookup : forall st i v k',
  sinv st -> i < st_size st -> st_gh (slots st) i <> None ->
  st_lookup (st_set_val st i v) k' =
    if Z.eqb k' (st_gk (slots st) i) then Some v else st_lookup st k'.
Proof.
  intros st i v k' Hs Hi Hu. unfold st_size in Hi.
  pose proof (sinv_set_val st i v Hs) as Hs'.
  destruct (Z.eqb_spec k' (st_gk (slots st) i)) as [E|NE].
  - apply (st_lookup_some_intro _ k' v i Hs'). unfold st_holds, st_set_val. cbn [slots].
    rewrite st_len_set_v, st_gh_set_v, st_gk_set_v, st_gv_set_v.
    rewrite Nat.eqb_refl, (proj2 (Nat.ltb_lt _ _) Hi). simpl. auto.
  - apply st_lookup_transfer; try assumption.
    intros w. unfold st_holds, st_set_val. cbn [slots].
    split; intros (j & Hj & Uj & Kj & Vj); exists j;
      rewrite st_len_set_v, st_gh_set_v, st_gk_set_v, st_gv_set_v in *;
      (destruct (Nat.eqb_spec i j) as [E|_]; [exfalso; apply NE; rewrite E; symmetry; exact Kj|]); simpl in *; auto.
Qed.

(* ------------------------------------------------------------------ index narrowing is lossless *)

Lemma st_lk_closed : forall gp gn l p x,
  st_lk gp gn p l -> In x l ->
  (forall n', gn x = Some n' -> In n' l) /\
  (forall q, gp x = Some q -> In q l \/ p = Some q).
Proof.
  intros gp gn. induction l as [|a l IH]; intros p x Hlk Hx; [destruct Hx|].
  simpl in Hlk. destruct Hlk as (Hp & Hn & Hr). destruct Hx as [<-|Hx].
  - split.
    + intros n' E. rewrite Hn in E. right. apply st_hd_in; exact E.
    + intros q E. right. rewrite <- Hp. exact E.
  - destruct (IH (Some a) x Hr Hx) as [A B]. split.
    + intros n' E. right. apply A; exact E.
    + intros q E. destruct (B q E) as [H|H]; [left; right; exact H|]. injection H as <-. left; left; reflexivity.
Qed.

Lemma st_links_lt : forall sl fh n ch fl i,
  st_ginv None sl fh n ch fl -> i < length sl ->
  (forall q, st_gp sl i = Some q -> q < length sl) /\ (forall n', st_gn sl i = Some n' -> n' < length sl).
Proof.
  intros sl fh n ch fl i G Hi.
  destruct (st_gh sl i) as [h|] eqn:Eh.
  - set (b := st_bkt (length sl) h).
    assert (Hbl : b < length sl) by (apply st_bkt_lt; exact (gi_pos G)).
    assert (Hin : In i (ch b)).
    { apply (gi_ch_in G b i Hbl). repeat split; [exact Hi|discriminate|]. exists h. split; [exact Eh|reflexivity]. }
    destruct (st_lk_closed _ _ _ _ i (gi_ch_lk G b Hbl) Hin) as [A B]. split.
    + intros q E. destruct (B q E) as [H|H]; [|discriminate]. exact (st_ch_lt _ _ _ _ _ _ b q G Hbl H).
    + intros n' E. exact (st_ch_lt _ _ _ _ _ _ b n' G Hbl (A n' E)).
  - assert (Hin : In i fl) by (apply (gi_fl_in G); repeat split; [exact Hi|discriminate|exact Eh]).
    destruct (st_lk_closed _ _ _ _ i (gi_fl_lk G) Hin) as [A B]. split.
    + intros q E. destruct (B q E) as [H|H]; [|discriminate]. exact (st_fl_lt _ _ _ _ _ _ q G H).
    + intros n' E. exact (st_fl_lt _ _ _ _ _ _ n' G (A n' E)).
Qed.

Lemma st_255_le_65535 : 255 <= 65535.
Proof. apply Nat.leb_le. vm_compute. reflexivity. Qed.

(* the table size never reaches the sentinel of the chosen index width *)
Lemma st_size_le_limit : forall size, size < idx_limit 2 -> size <= idx_limit (idx_type size).
Proof.
  intros size H. unfold idx_type. pose proof st_255_le_65535 as H0.
  destruct (Nat.leb_spec 255 size) as [H1|H1]; destruct (Nat.leb_spec 65535 size) as [H2|H2].
  - change (1 + 1) with 2. lia.
  - change (1 + 0) with 1. change (idx_limit 1) with 65535. lia.
  - exfalso. lia.
  - change (0 + 0) with 0. change (idx_limit 0) with 255. lia.
Qed.

Theorem st_narrow_ok_sinv : forall st,
  sinv st -> st_size st < idx_limit 2 -> st_narrow_ok st = true.
Proof.
  intros st (ch & fl & G) Hsz. unfold st_size in Hsz.
  pose proof (st_size_le_limit _ Hsz) as Hlim.
  unfold st_narrow_ok. set (lim := idx_limit (idx_type (length (slots st)))) in *.
  assert (Hok : forall o, (forall x, o = Some x -> x < length (slots st)) -> st_idx_ok lim o = true).
  { intros [x|] H; [|reflexivity]. simpl. apply Nat.ltb_lt. specialize (H x eq_refl). lia. }
  apply andb_true_iff. split.
  - apply Hok. intros x E. apply (st_fl_lt _ _ _ _ _ _ x G). apply st_hd_in. rewrite <- (gi_fh G). exact E.
  - apply forallb_forall. intros s Hs.
    destruct (In_nth _ _ st_dflt Hs) as (i & Hi & En).
    destruct (st_links_lt _ _ _ _ _ i G Hi) as [A B].
    destruct (gi_perm G i Hi) as (C & D & _ & _).
    unfold st_gp, st_gn, st_gmt, st_gmf, st_slot in A, B, C, D. rewrite En in A, B, C, D.
    unfold st_slot_narrow_ok. rewrite (Hok _ A), (Hok _ B). simpl.
    apply andb_true_iff. split; apply Nat.ltb_lt; lia.
Qed.

Lemma st_idx_limit_2 : idx_limit 2 = 4294967295.
Proof. reflexivity. Qed.

(* ------------------------------------------------------------------ EnsureSize: re-Put of all entries *)

Definition st_ekey (e : N * Z * Z) : Z := snd (fst e).
Definition st_ehash (e : N * Z * Z) : N := fst (fst e).

Fixpoint st_assoc (k : Z) (es : list (N * Z * Z)) : option Z :=
  match es with
  | [] => None
  | e :: r => if Z.eqb k (st_ekey e) then Some (snd e) else st_assoc k r
  end.

Lemma st_assoc_notin : forall k es, ~ In k (map st_ekey es) -> st_assoc k es = None.
Proof.
  intros k. induction es as [|e r IH]; intros H; simpl in *; [reflexivity|].
  destruct (Z.eqb_spec k (st_ekey e)) as [E|_]; [exfalso; apply H; left; symmetry; exact E|].
  apply IH. intro Hr. apply H. right; exact Hr.
Qed.

Definition st_used (sl : list slot) (i : nat) : Prop := st_gh sl i <> None.

Lemma st_put_all_inv : forall es st,
  sinv st ->
  nitems st + length es <= st_size st ->
  NoDup (map st_ekey es) ->
  (forall e, In e es -> st_key_absent (slots st) (st_ekey e)) ->
  let st' := fst (st_put_all st es) in
  let idx := snd (st_put_all st es) in
  sinv st' /\ st_size st' = st_size st /\ nitems st' = nitems st + length es /\
  NoDup idx /\ (forall i, In i idx -> st_gh (slots st) i = None) /\
  (forall i, st_used (slots st') i <-> st_used (slots st) i \/ In i idx) /\
  (forall k, st_lookup st' k = match st_assoc k es with Some v => Some v | None => st_lookup st k end) /\
  (st_hash_ok (slots st) -> (forall e, In e es -> st_ehash e = hashf (st_ekey e)) -> st_hash_ok (slots st')).
Proof.
  induction es as [|[[h k] v] r IH]; intros st Hs Hcap Hnd Habs; cbv zeta.
  - simpl. repeat split; auto; try lia.
    + constructor.
    + intros [H|[]]; exact H.
  - simpl in Hcap. simpl in Hnd. apply NoDup_cons_iff in Hnd as [Hkni Hndr].
    change (st_ekey (h, k, v)) with k in Hkni.
    assert (Habs0 : st_key_absent (slots st) k) by (apply (Habs (h, k, v)); left; reflexivity).
    assert (Hfree : nitems st < st_size st) by lia.
    pose proof (sinv_put_new st h k v Hs Hfree Habs0) as Hs1.
    pose proof Hs as (ch & fl & G).
    destruct (st_put_new_spec st h k v ch fl G Hfree Habs0) as (_ & (Hl & He & Hfe & Hgh & Hgk & Hgv) & Hn1).
    pose proof (st_put_new_lookup_same st h k v Hs Hfree Habs0) as Hlk_same.
    pose proof (fun k' => st_put_new_lookup_other st h k v k' Hs Hfree Habs0) as Hlk_other.
    simpl st_put_all.
    destruct (st_put_new st h k v) as [st1 e] eqn:Eput. cbn [fst snd] in *.
    assert (Hsz1 : st_size st1 = st_size st) by (unfold st_size; exact Hl).
    assert (Habs1 : forall e', In e' r -> st_key_absent (slots st1) (st_ekey e')).
    { intros e' He' j Hj Uj Kj. rewrite Hl in Hj. rewrite Hgh in Uj. rewrite Hgk in Kj.
      destruct (Nat.eqb_spec e j) as [E|_].
      - apply Hkni. rewrite Kj. apply in_map; exact He'.
      - apply (Habs e' (or_intror He') j Hj Uj Kj). }
    assert (Hcap1 : nitems st1 + length r <= st_size st1) by (rewrite Hn1, Hsz1; lia).
    specialize (IH st1 Hs1 Hcap1 Hndr Habs1). cbv zeta in IH.
    destruct (st_put_all st1 r) as [st2 idx] eqn:Eall. cbn [fst snd] in *.
    destruct IH as (I1 & I2 & I3 & I4 & I5 & I6 & I7 & I8).
    assert (Heni : ~ In e idx).
    { intro Hin. specialize (I5 e Hin). rewrite Hgh, Nat.eqb_refl in I5. discriminate. }
    repeat split.
    + exact I1.
    + rewrite I2. exact Hsz1.
    + rewrite I3, Hn1. simpl. lia.
    + constructor; assumption.
    + intros i [<-|Hi]; [exact Hfe|]. specialize (I5 i Hi). rewrite Hgh in I5.
      destruct (Nat.eqb_spec e i); [discriminate|exact I5].
    + intro H. apply I6 in H. destruct H as [H|H]; [|right; right; exact H].
      unfold st_used in H. rewrite Hgh in H.
      destruct (Nat.eqb_spec e i) as [E|_]; [right; left; exact E|left; exact H].
    + intro H. apply I6. destruct H as [H|[<-|H]]; [left|left|right; exact H]; unfold st_used; rewrite Hgh.
      * destruct (Nat.eqb_spec e i); [discriminate|exact H].
      * rewrite Nat.eqb_refl. discriminate.
    + intros k0. rewrite I7. simpl. unfold st_ekey at 1. cbn [fst snd].
      destruct (Z.eqb_spec k0 k) as [->|NE].
      * rewrite (st_assoc_notin k r Hkni). exact Hlk_same.
      * rewrite (Hlk_other k0 NE). reflexivity.
    + intros Hok Heh. apply I8.
      * intros x hx. rewrite Hgh, Hgk. destruct (Nat.eqb_spec e x) as [_|_].
        -- intro E. injection E as <-. apply (Heh (h, k, v)). left; reflexivity.
        -- apply Hok.
      * intros e' He'. apply Heh. right; exact He'.
Qed.

Lemma st_create_absent : forall n k, st_key_absent (slots (st_create n)) k.
Proof. intros n k i _ U. simpl in U. rewrite st_create_gh in U. exfalso; apply U; reflexivity. Qed.

Lemma st_create_lookup : forall n k, st_lookup (st_create n) k = None.
Proof. intros n k. apply st_lookup_none_intro. apply st_create_absent. Qed.

Theorem sinv_rebuild : forall n es,
  0 < n -> length es <= n -> NoDup (map st_ekey es) -> sinv (st_rebuild n es).
Proof.
  intros n es Hn Hlen Hnd. unfold st_rebuild.
  apply (st_put_all_inv es (st_create n)).
  - apply sinv_create; exact Hn.
  - unfold st_size. simpl. rewrite st_create_len. lia.
  - exact Hnd.
  - intros e _. apply st_create_absent.
Qed.

Theorem st_rebuild_lookup_assoc : forall n es k,
  0 < n -> length es <= n -> NoDup (map st_ekey es) ->
  st_lookup (st_rebuild n es) k = st_assoc k es.
Proof.
  intros n es k Hn Hlen Hnd. unfold st_rebuild.
  assert (H : sinv (st_create n)) by (apply sinv_create; exact Hn).
  assert (Hcap : nitems (st_create n) + length es <= st_size (st_create n)).
  { unfold st_size. simpl. rewrite st_create_len. lia. }
  destruct (st_put_all_inv es (st_create n) H Hcap Hnd (fun e _ => st_create_absent n (st_ekey e)))
    as (_ & _ & _ & _ & _ & _ & Hl & _).
  rewrite Hl, st_create_lookup. destruct (st_assoc k es); reflexivity.
Qed.

(* the explicit insertion-order list of a run state *)
Definition st_order_ok (st : store) (order : list nat) : Prop :=
  NoDup order /\ forall i, In i order <-> i < st_size st /\ st_used (slots st) i.

Lemma st_nodup_map_inj : forall (f : nat -> Z) l,
  NoDup l -> (forall x y, In x l -> In y l -> f x = f y -> x = y) -> NoDup (map f l).
Proof.
  intros f. induction l as [|a l IH]; intros Hnd Hinj; simpl; [constructor|].
  apply NoDup_cons_iff in Hnd as [Ha Hl]. constructor.
  - intro Hin. apply in_map_iff in Hin. destruct Hin as (y & Ey & Hy).
    assert (y = a) by (apply Hinj; [right; exact Hy|left; reflexivity|exact Ey]). subst y. contradiction.
  - apply IH; [exact Hl|]. intros x y Hx Hy. apply Hinj; right; assumption.
Qed.

Lemma st_entries_keys : forall st order, map st_ekey (st_entries st order) = map (st_gk (slots st)) order.
Proof. intros st order. unfold st_entries. rewrite map_map. reflexivity. Qed.

Lemma st_entries_nodup : forall st order,
  sinv st -> st_order_ok st order -> NoDup (map st_ekey (st_entries st order)).
Proof.
  intros st order Hs [Hnd Hin]. rewrite st_entries_keys. apply st_nodup_map_inj; [exact Hnd|].
  intros x y Hx Hy E. apply Hin in Hx. apply Hin in Hy. destruct Hx as [Hx Ux]. destruct Hy as [Hy Uy].
  apply (st_keys_distinct st x y Hs); assumption.
Qed.

Lemma st_assoc_entries_some : forall sl k v l,
  st_assoc k (map (st_entry sl) l) = Some v -> exists j, In j l /\ st_gk sl j = k /\ st_gv sl j = v.
Proof.
  intros sl k v. induction l as [|a l IH]; simpl; [discriminate|].
  unfold st_ekey at 1. cbn [st_entry fst snd].
  destruct (Z.eqb_spec k (st_gk sl a)) as [E|_].
  - intro H. injection H as <-. exists a. repeat split; [left; reflexivity|symmetry; exact E].
  - intro H. destruct (IH H) as (j & Hj & R). exists j. split; [right; exact Hj|exact R].
Qed.

Lemma st_assoc_entries_none : forall sl k l,
  st_assoc k (map (st_entry sl) l) = None -> forall j, In j l -> st_gk sl j <> k.
Proof.
  intros sl k. induction l as [|a l IH]; simpl; [intros _ j []|].
  unfold st_ekey at 1. cbn [st_entry fst snd].
  destruct (Z.eqb_spec k (st_gk sl a)) as [E|NE]; [discriminate|].
  intros H j [<-|Hj]; [intro E; apply NE; symmetry; exact E|apply IH; assumption].
Qed.

Lemma st_assoc_entries : forall st order k,
  sinv st -> st_order_ok st order -> st_assoc k (st_entries st order) = st_lookup st k.
Proof.
  intros st order k Hs [Hnd Hin]. unfold st_entries.
  destruct (st_assoc k (map (st_entry (slots st)) order)) as [v|] eqn:Ea.
  - destruct (st_assoc_entries_some _ _ _ _ Ea) as (j & Hj & Kj & Vj).
    apply Hin in Hj. destruct Hj as [Hj Uj]. symmetry.
    apply (st_lookup_some_intro st k v j Hs). unfold st_holds. auto.
  - symmetry. apply st_lookup_none_intro. intros j Hj Uj Kj.
    apply (st_assoc_entries_none _ _ _ Ea j); [|exact Kj]. apply Hin. split; assumption.
Qed.

Theorem st_rebuild_lookup : forall st order n k,
  sinv st -> st_order_ok st order -> 0 < n -> length order <= n ->
  st_lookup (st_rebuild n (st_entries st order)) k = st_lookup st k.
Proof.
  intros st order n k Hs Hord Hn Hlen.
  rewrite st_rebuild_lookup_assoc; [apply st_assoc_entries; assumption|exact Hn| |apply st_entries_nodup; assumption].
  unfold st_entries. rewrite map_length. exact Hlen.
Qed.

Lemma st_nodup_app : forall (a b : list nat),
  NoDup a -> NoDup b -> (forall x, In x a -> ~ In x b) -> NoDup (a ++ b).
Proof.
  induction a as [|x a IH]; intros b Ha Hb Hd; simpl; [exact Hb|].
  apply NoDup_cons_iff in Ha as [Hx Ha]. constructor.
  - intro Hin. apply in_app_or in Hin. destruct Hin as [Hin|Hin]; [contradiction|].
    apply (Hd x (or_introl eq_refl) Hin).
  - apply IH; [exact Ha|exact Hb|]. intros y Hy. apply Hd. right; exact Hy.
Qed.

Lemma st_order_length : forall st order,
  sinv st -> st_order_ok st order -> length order = nitems st.
Proof.
  intros st order (ch & fl & G) [Hnd Hin]. unfold st_size, st_used in Hin.
  pose proof (gi_cnt G) as Hc. simpl in Hc.
  assert (Hnd2 : NoDup (order ++ fl)).
  { apply st_nodup_app; [exact Hnd|exact (gi_fl_nd G)|].
    intros x Hx Hf. apply Hin in Hx. apply (gi_fl_in G) in Hf. destruct Hx as [_ U]. destruct Hf as (_ & _ & F). contradiction. }
  assert (H1 : length (order ++ fl) <= length (slots st)).
  { apply st_nodup_bound; [exact Hnd2|]. intros x Hx. apply in_app_or in Hx. destruct Hx as [Hx|Hx].
    - apply Hin in Hx. tauto.
    - exact (st_fl_lt _ _ _ _ _ _ x G Hx). }
  assert (H2 : length (slots st) <= length (order ++ fl)).
  { rewrite <- (seq_length (length (slots st)) 0). apply NoDup_incl_length; [apply seq_NoDup|].
    intros x Hx. apply in_seq in Hx. apply in_or_app.
    destruct (st_gh (slots st) x) as [h|] eqn:Eh.
    - left. apply Hin. split; [lia|rewrite Eh; discriminate].
    - right. apply (gi_fl_in G). repeat split; [lia|discriminate|exact Eh]. }
  rewrite app_length in *. lia.
Qed.

(* ------------------------------------------------------------------ run-level refinement *)

Definition st_rinv (r : srun) (f : Z -> option Z) : Prop :=
  sinv (r_st r) /\ st_hash_ok (slots (r_st r)) /\ st_order_ok (r_st r) (r_order r) /\
  forall k, st_lookup (r_st r) k = f k.

Lemma st_get_lookup : forall st k,
  sinv st -> st_hash_ok (slots st) ->
  match st_get st (hashf k) k with Some i => Some (st_gv (slots st) i) | None => None end = st_lookup st k.
Proof.
  intros st k Hs Hok. destruct (st_get st (hashf k) k) as [i|] eqn:Eg.
  - apply (st_get_correct st k i Hs Hok) in Eg. destruct Eg as (Hi & Hu & Hk). symmetry.
    apply (st_lookup_some_intro st k _ i Hs). unfold st_holds. auto.
  - symmetry. apply st_lookup_none_intro. intros i Hi Hu Hk.
    assert (E : st_get st (hashf k) k = Some i) by (apply (st_get_correct st k i Hs Hok); auto).
    congruence.
Qed.

Lemma st_grow_inv : forall r f req,
  st_rinv r f ->
  st_rinv (st_grow r req) f /\
  nitems (r_st (st_grow r req)) = nitems (r_st r) /\
  st_size (r_st (st_grow r req)) = Nat.max (nitems (r_st r)) (Nat.max req (st_size (r_st r))).
Proof.
  intros r f req (Hs & Hok & Hord & Hlk). unfold st_grow.
  set (st := r_st r) in *. set (newsize := Nat.max (nitems st) (Nat.max req (st_size st))).
  destruct (Nat.eqb_spec newsize (st_size st)) as [E|NE].
  - split; [exact (conj Hs (conj Hok (conj Hord Hlk)))|split; [reflexivity|symmetry; exact E]].
  - assert (Hpos : 0 < st_size st) by (destruct Hs as (ch & fl & G); exact (gi_pos G)).
    assert (Hn : 0 < newsize) by lia.
    pose proof (st_order_length st (r_order r) Hs Hord) as Hlen.
    assert (Hsc : sinv (st_create newsize)) by (apply sinv_create; exact Hn).
    assert (Hcap : nitems (st_create newsize) + length (st_entries st (r_order r)) <= st_size (st_create newsize)).
    { unfold st_size, st_entries. simpl. rewrite st_create_len, map_length. lia. }
    pose proof (st_put_all_inv (st_entries st (r_order r)) (st_create newsize) Hsc Hcap
                  (st_entries_nodup st (r_order r) Hs Hord)
                  (fun e _ => st_create_absent newsize (st_ekey e))) as Hall.
    cbv zeta in Hall.
    destruct (st_put_all (st_create newsize) (st_entries st (r_order r))) as [st' ord'] eqn:Eall.
    cbn [fst snd] in Hall. destruct Hall as (I1 & I2 & I3 & I4 & I5 & I6 & I7 & I8).
    cbn [r_st r_order].
    assert (Hsz' : st_size st' = newsize) by (rewrite I2; unfold st_size; simpl; apply st_create_len).
    repeat split.
    + exact I1.
    + apply I8.
      * intros x h Hx. simpl in Hx. rewrite st_create_gh in Hx. discriminate.
      * intros e He. unfold st_entries in He. apply in_map_iff in He. destruct He as (i & <- & Hi).
        unfold st_ehash, st_ekey, st_entry. cbn [fst snd].
        destruct Hord as [_ Hin]. apply Hin in Hi. destruct Hi as [_ Ui]. unfold st_used in Ui.
        destruct (st_gh (slots st) i) as [h|] eqn:Eh; [|exfalso; apply Ui; reflexivity].
        apply Hok. exact Eh.
    + exact I4.
    + cbn [r_st r_order] in *. apply st_gh_lt. apply I6. right; assumption.
    + cbn [r_st r_order] in *. apply I6. right; assumption.
    + cbn [r_st r_order] in *.
      intros [_ Ui].
      apply I6 in Ui. destruct Ui as [Ui|Ui]; [|exact Ui].
      unfold st_used in Ui. simpl in Ui. rewrite st_create_gh in Ui. exfalso; apply Ui; reflexivity.
    + intros k. rewrite I7, st_create_lookup, <- Hlk.
      rewrite (st_assoc_entries st (r_order r) k Hs Hord). destruct (st_lookup st k); reflexivity.
    + rewrite I3. simpl. unfold st_entries. rewrite map_length. exact Hlen.
    + exact Hsz'.
Qed.

Lemma st_filter_nodup : forall (p : nat -> bool) l, NoDup l -> NoDup (filter p l).
Proof.
  intros p. induction l as [|a l IH]; intros H; simpl; [constructor|].
  apply NoDup_cons_iff in H as [Ha Hl]. destruct (p a); [|apply IH; exact Hl].
  constructor; [|apply IH; exact Hl]. intro Hin. apply filter_In in Hin. destruct Hin as [Hin _]. contradiction.
Qed.

Lemma st_step_refines : forall r f op,
  st_rinv r f ->
  snd (st_step hashf r op) = snd (fm_step f op) /\
  st_rinv (fst (st_step hashf r op)) (fst (fm_step f op)).
Proof.
  intros r f op Hr. pose proof Hr as (Hs & Hok & Hord & Hlk).
  destruct op as [k v|k|k|req]; unfold st_step, fm_step.
  - (* SPut *)
    pose proof (st_get_lookup (r_st r) k Hs Hok) as Hgl.
    destruct (st_get (r_st r) (hashf k) k) as [i|] eqn:Eg.
    + (* replace the value *)
      apply (st_get_correct (r_st r) k i Hs Hok) in Eg. destruct Eg as (Hi & Hu & Hk).
      cbn [fst snd]. split; [rewrite Hgl; apply Hlk|].
      split; [|split; [|split; [split|]]]; cbn [r_st r_order].
      * apply sinv_set_val; exact Hs.
      * intros x h. unfold st_set_val. cbn [slots]. rewrite st_gh_set_v, st_gk_set_v. apply Hok.
      * exact (proj1 Hord).
      * intros x. unfold st_size, st_used, st_set_val. cbn [slots]. rewrite st_len_set_v, st_gh_set_v.
        apply (proj2 Hord).
      * intros k'. rewrite (st_set_val_lookup (r_st r) i v k' Hs Hi Hu). rewrite Hk, Hlk. reflexivity.
    + (* new key, growing first when the table is full *)
      assert (Habsent : f k = None) by (rewrite <- Hlk, <- Hgl; reflexivity).
      set (r1 := if nitems (r_st r) =? st_size (r_st r) then st_grow r (2 * st_size (r_st r)) else r).
      assert (Hr1 : st_rinv r1 f /\ nitems (r_st r1) < st_size (r_st r1)).
      { unfold r1. destruct (Nat.eqb_spec (nitems (r_st r)) (st_size (r_st r))) as [E|NE].
        - destruct (st_grow_inv r f (2 * st_size (r_st r)) Hr) as (A & B & C). split; [exact A|].
          assert (Hpos : 0 < st_size (r_st r)) by (destruct Hs as (ch & fl & G); exact (gi_pos G)).
          rewrite B, C. lia.
        - split; [exact Hr|].
          destruct Hs as (ch & fl & G). pose proof (gi_cnt G) as Hc. simpl in Hc. unfold st_size in *. lia. }
      destruct Hr1 as ((Hs1 & Hok1 & Hord1 & Hlk1) & Hfree1).
      assert (Habs1 : st_key_absent (slots (r_st r1)) k).
      { apply st_lookup_none_elim. rewrite Hlk1. exact Habsent. }
      pose proof (sinv_put_new (r_st r1) (hashf k) k v Hs1 Hfree1 Habs1) as Hs2.
      pose proof (st_put_new_lookup_same (r_st r1) (hashf k) k v Hs1 Hfree1 Habs1) as Hsame.
      pose proof (fun k' => st_put_new_lookup_other (r_st r1) (hashf k) k v k' Hs1 Hfree1 Habs1) as Hother.
      pose proof Hs1 as (ch & fl & G).
      destruct (st_put_new_spec (r_st r1) (hashf k) k v ch fl G Hfree1 Habs1) as (_ & (Hl & He & Hfe & Hgh & Hgk & Hgv) & _).
      destruct (st_put_new (r_st r1) (hashf k) k v) as [st2 e] eqn:Eput. cbn [fst snd] in *.
      split; [rewrite Habsent; reflexivity|].
      destruct Hord1 as [Hnd1 Hin1].
      split; [|split; [|split; [split|]]]; cbn [r_st r_order].
      * exact Hs2.
      * intros x h. rewrite Hgh, Hgk. destruct (Nat.eqb_spec e x) as [_|_]; [|apply Hok1].
        intro E. injection E as <-. reflexivity.
      * apply st_nodup_app; [exact Hnd1|constructor; [intros []|constructor]|].
        intros x Hx [<-|[]]. apply Hin1 in Hx. destruct Hx as [_ U]. apply U. exact Hfe.
      * intros i. unfold st_size, st_used. rewrite Hl, Hgh. split.
        -- intro Hx. apply in_app_or in Hx. destruct Hx as [Hx|[<-|[]]].
           ++ apply Hin1 in Hx. destruct Hx as [Hx U]. split; [exact Hx|].
              destruct (Nat.eqb_spec e i); [discriminate|exact U].
           ++ split; [exact He|]. rewrite Nat.eqb_refl. discriminate.
        -- intros [Hi U]. apply in_or_app.
           destruct (Nat.eqb_spec e i) as [E|_]; [right; left; exact E|]. left. apply Hin1. split; assumption.
      * intros k'. destruct (Z.eqb_spec k' k) as [->|NE]; [exact Hsame|]. rewrite (Hother k' NE). apply Hlk1.
  - (* SGet *)
    cbn [fst snd]. split; [|exact Hr]. rewrite (st_get_lookup (r_st r) k Hs Hok). apply Hlk.
  - (* SRemove *)
    pose proof (st_get_lookup (r_st r) k Hs Hok) as Hgl.
    destruct (st_get (r_st r) (hashf k) k) as [i|] eqn:Eg.
    + apply (st_get_correct (r_st r) k i Hs Hok) in Eg. destruct Eg as (Hi & Hu & Hk).
      cbn [fst snd]. split; [rewrite Hgl; apply Hlk|].
      pose proof Hs as (ch & fl & G).
      destruct (st_remove_spec (r_st r) i ch fl G Hi Hu) as (_ & (Hl & Hgh & Hgk & Hgv) & _).
      destruct Hord as [Hnd Hin].
      split; [|split; [|split; [split|]]]; cbn [r_st r_order].
      * apply sinv_remove; assumption.
      * intros x h. rewrite Hgh, Hgk. destruct (Nat.eqb_spec i x) as [_|_]; [discriminate|apply Hok].
      * apply st_filter_nodup; exact Hnd.
      * intros j. unfold st_size, st_used, st_remove_nat. rewrite Hl, Hgh. split.
        -- intro Hx. apply filter_In in Hx. destruct Hx as [Hx Hne].
           apply Hin in Hx. destruct Hx as [Hj U]. split; [exact Hj|].
           destruct (Nat.eqb_spec i j) as [E|_]; [|exact U].
           subst j. rewrite Nat.eqb_refl in Hne. discriminate.
        -- intros [Hx U]. apply filter_In.
           destruct (Nat.eqb_spec i j) as [E|NE]; [exfalso; apply U; reflexivity|].
           split; [apply Hin; split; assumption|]. apply negb_true_iff. apply Nat.eqb_neq. intro E; apply NE; symmetry; exact E.
      * intros k'. destruct (Z.eqb_spec k' k) as [->|NE].
        -- rewrite <- Hk. apply st_remove_lookup_same; assumption.
        -- rewrite st_remove_lookup_other by (try assumption; rewrite Hk; exact NE). apply Hlk.
    + cbn [fst snd]. split; [rewrite Hgl; apply Hlk|].
      split; [exact Hs|split; [exact Hok|split; [exact Hord|]]].
      intros k'. cbn beta. destruct (Z.eqb_spec k' k) as [->|NE]; [symmetry; exact Hgl|apply Hlk].
  - (* SGrow *)
    cbn [fst snd]. split; [reflexivity|]. apply st_grow_inv; exact Hr.
Qed.

Lemma st_run_refines : forall ops r f,
  st_rinv r f -> st_run hashf r ops = fm_run f ops.
Proof.
  induction ops as [|op ops IH]; intros r f Hr; simpl; [reflexivity|].
  destruct (st_step_refines r f op Hr) as [Hout Hinv].
  destruct (st_step hashf r op) as [r' out]. destruct (fm_step f op) as [f' out'].
  cbn [fst snd] in *. rewrite Hout, (IH r' f' Hinv). reflexivity.
Qed.

Theorem st_run_correct : forall n ops, 0 < n ->
  st_run hashf (mkRun (st_create n) []) ops = fm_run (fun _ => None) ops.
Proof.
  intros n ops Hn. apply st_run_refines. split; [|split; [|split; [split|]]]; cbn [r_st r_order].
  - apply sinv_create; exact Hn.
  - intros x h Hx. simpl in Hx. rewrite st_create_gh in Hx. discriminate.
  - constructor.
  - intros i. split; [intros []|].
    intros [_ U]. unfold st_used in U. simpl in U. rewrite st_create_gh in U. apply U; reflexivity.
  - intros k. apply st_create_lookup.
Qed.

End WithHash.

(* ------------------------------------------------------------------ concrete runs (non-vacuity) *)
(* The expected values below are the dumps printed by the C++ probe (real muscle Hashtable<int,int>
   with hash(k) = k/10, default table size 7) after the same operations:
   per table [size; numItems; freeHead] then per slot [hash; key; value; bprev; bnext; mapto; mfrom], -1 = invalid. *)

Definition st_ex_hf (k : Z) : N := Z.to_N (k / 10).
Definition st_ex_on (o : option nat) : Z := match o with Some i => Z.of_nat i | None => (-1)%Z end.
Definition st_ex_slot (s : slot) : list Z :=
  match s_hash s with
  | Some h => [Z.of_N h; s_key s; s_val s; st_ex_on (s_bprev s); st_ex_on (s_bnext s); Z.of_nat (s_mapto s); Z.of_nat (s_mfrom s)]
  | None => [(-1)%Z; 0%Z; 0%Z; st_ex_on (s_bprev s); st_ex_on (s_bnext s); Z.of_nat (s_mapto s); Z.of_nat (s_mfrom s)]
  end.
Definition st_ex_dump (st : store) : list (list Z) :=
  [Z.of_nat (length (slots st)); Z.of_nat (nitems st); st_ex_on (free_head st)] :: map st_ex_slot (slots st).
Fixpoint st_ex_exec (r : srun) (ops : list sop) : srun :=
  match ops with [] => r | op :: rest => st_ex_exec (fst (st_step st_ex_hf r op)) rest end.
Definition st_ex_after (ops : list sop) : store := r_st (st_ex_exec (mkRun (st_create 7) []) ops).

(* keys 10,11 share bucket 1 and occupy slots 1,0; Put 1 (bucket 0) finds its starter slot 0 taken by the other chain: SwapEntryMaps in PutAuxAux *)
Example st_ex_put_swap :
  st_ex_dump (st_ex_after [SPut 10 100; SPut 11 110; SPut 1 5]%Z) =
  ([[7; 3; 3]; [1; 11; 110; 1; (-1); 2; 2]; [1; 10; 100; (-1); 0; 1; 1]; [0; 1; 5; (-1); (-1); 0; 0]; [(-1); 0; 0; (-1); 4; 3; 3]; [(-1); 0; 0; 3; 5; 4; 4]; [(-1); 0; 0; 4; 6; 5; 5]; [(-1); 0; 0; 5; (-1); 6; 6]])%Z.
Proof. vm_compute. reflexivity. Qed.

(* Remove 10: the head of bucket 1 with a successor: SwapEntryMaps in RemoveEntry *)
Example st_ex_remove_head :
  st_ex_dump (st_ex_after [SPut 10 100; SPut 11 110; SPut 1 5; SPut 12 120; SPut 80 800; SPut 21 210; SGet 80; SGet 13; SRemove 10]%Z) =
  ([[7; 5; 1]; [1; 11; 110; 3; (-1); 2; 5]; [(-1); 0; 0; (-1); 6; 4; 4]; [0; 1; 5; (-1); (-1); 5; 0]; [1; 12; 120; 4; 0; 3; 3]; [8; 80; 800; (-1); 3; 1; 1]; [2; 21; 210; (-1); (-1); 0; 2]; [(-1); 0; 0; 1; (-1); 6; 6]])%Z.
Proof. vm_compute. reflexivity. Qed.

(* eighth Put on a full table of 7: rebuild into 14 slots in insertion order, then insert *)
Example st_ex_grow :
  st_ex_dump (st_ex_after [SPut 10 100; SPut 11 110; SPut 1 5; SPut 12 120; SPut 80 800; SPut 21 210; SGet 80; SGet 13; SRemove 10; SRemove 12; SRemove 1; SPut 30 300; SPut 40 400; SPut 50 500; SPut 60 600; SPut 2 20]%Z) =
  ([[14; 8; 7]; [0; 2; 20; (-1); (-1); 0; 0]; [1; 11; 110; (-1); (-1); 1; 1]; [2; 21; 210; (-1); (-1); 2; 2]; [3; 30; 300; (-1); (-1); 3; 3]; [4; 40; 400; (-1); (-1); 4; 4]; [5; 50; 500; (-1); (-1); 5; 5]; [6; 60; 600; (-1); (-1); 6; 6]; [(-1); 0; 0; (-1); 9; 7; 7]; [8; 80; 800; (-1); (-1); 8; 8]; [(-1); 0; 0; 7; 10; 9; 9]; [(-1); 0; 0; 9; 11; 10; 10]; [(-1); 0; 0; 10; 12; 11; 11]; [(-1); 0; 0; 11; 13; 12; 12]; [(-1); 0; 0; 12; (-1); 13; 13]])%Z.
Proof. vm_compute. reflexivity. Qed.

(* EnsureSize(20) with 6 items *)
Example st_ex_ensure :
  st_ex_dump (st_ex_after [SPut 10 100; SPut 11 110; SPut 1 5; SPut 12 120; SPut 80 800; SPut 21 210; SGet 80; SGet 13; SRemove 10; SRemove 12; SRemove 1; SPut 30 300; SPut 40 400; SPut 50 500; SPut 60 600; SPut 2 20; SPut 70 700; SGet 70; SRemove 11; SRemove 80; SRemove 70; SGrow 20%nat]%Z) =
  ([[20; 6; 1]; [0; 2; 20; (-1); (-1); 0; 0]; [(-1); 0; 0; (-1); 7; 1; 1]; [2; 21; 210; (-1); (-1); 2; 2]; [3; 30; 300; (-1); (-1); 3; 3]; [4; 40; 400; (-1); (-1); 4; 4]; [5; 50; 500; (-1); (-1); 5; 5]; [6; 60; 600; (-1); (-1); 6; 6]; [(-1); 0; 0; 1; 8; 7; 7]; [(-1); 0; 0; 7; 9; 8; 8]; [(-1); 0; 0; 8; 10; 9; 9]; [(-1); 0; 0; 9; 11; 10; 10]; [(-1); 0; 0; 10; 12; 11; 11]; [(-1); 0; 0; 11; 13; 12; 12]; [(-1); 0; 0; 12; 14; 13; 13]; [(-1); 0; 0; 13; 15; 14; 14]; [(-1); 0; 0; 14; 16; 15; 15]; [(-1); 0; 0; 15; 17; 16; 16]; [(-1); 0; 0; 16; 18; 17; 17]; [(-1); 0; 0; 17; 19; 18; 18]; [(-1); 0; 0; 18; (-1); 19; 19]])%Z.
Proof. vm_compute. reflexivity. Qed.

Example st_ex_narrow : st_narrow_ok (st_ex_after [SPut 10 100; SPut 11 110; SPut 1 5; SRemove 10]%Z) = true.
Proof. vm_compute. reflexivity. Qed.

Example st_ex_idx_type : (idx_type 254, idx_type 255, idx_type 65534, idx_type 65535) = (0, 1, 1, 2).
Proof. vm_compute. reflexivity. Qed.
