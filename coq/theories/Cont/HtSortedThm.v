(* C09 -- the auto-sorting classes: every reachable table is sorted (by key / by value) as long as
   auto-sort stays enabled and no operation that explicitly reorders entries is used. *)
From Coq Require Import List Arith ZArith NArith PArith Bool Lia FMapPositive Permutation.
From Muscle Require Import Cont.HtModel Cont.HtStep Cont.HtIdeal Cont.HtLemmas Cont.HtInv Cont.HtSafeAll
                           Cont.HtRefine Cont.HtSorted Gen.Consts.
Import ListNotations.

Section T.
Variable var : variant.
Variable dcap : N.
Hypothesis Hvar : var <> VPlain.

Lemma Inv0_init : forall nt ni, Inv0 var (abs_world (init_world dcap nt ni)).
Proof.
  intros nt ni u Hu. rewrite gett0_abs. unfold abs_world, init_world in Hu. cbn in Hu. rewrite map_length, repeat_length in Hu.
  unfold gett, init_world. cbn [tabs]. rewrite nth_repeat' by exact Hu. split; [reflexivity|exact I].
Qed.

Lemma run_sorted : forall ops w, WF w -> Inv0 var (abs_world w) -> Forall (fun o => keeps_sorted o = true) ops ->
  Inv0 var (abs_world (run1 var dcap w ops)).
Proof.
  induction ops as [|o r IH]; intros w W H F; [exact H|]. inversion F; subst.
  change (run1 var dcap w (o :: r)) with (run1 var dcap (fst (step1 var dcap w o)) r).
  apply IH; [apply step1_WF; exact W| |assumption].
  destruct (step_refines var dcap w o W) as [A _]. rewrite A. apply step0_inv; assumption.
Qed.

Theorem sorted_inv : forall nt ni ops, Forall (fun o => keeps_sorted o = true) ops ->
  let w := run1 var dcap (init_world dcap nt ni) ops in
  forall t, t < length (tabs w) -> asort (gett w t) = true /\ sorted var (abs (gett w t)).
Proof.
  intros nt ni ops F w t Ht.
  pose proof (run_sorted ops (init_world dcap nt ni) (WF_init dcap nt ni) (Inv0_init nt ni) F) as H.
  assert (Hu : t < length (abs_world w)) by (unfold abs_world; rewrite map_length; exact Ht).
  specialize (H t Hu). rewrite gett0_abs in H. exact H.
Qed.

End T.

Lemma default_capacity_ok :
  (0 < c_MUSCLE_HASHTABLE_DEFAULT_CAPACITY)%N /\ (c_MUSCLE_HASHTABLE_DEFAULT_CAPACITY < 255)%N.
Proof. vm_compute. split; reflexivity. Qed.
