(* C09 -- every operation preserves the world invariant; iterator safety for all reachable worlds. *)
From Coq Require Import List Arith ZArith NArith PArith Bool Lia FMapPositive Permutation.
From Muscle Require Import Cont.HtModel Cont.HtStep Cont.HtLemmas Cont.HtRepr Cont.HtWalk Cont.HtIters
                           Cont.HtTable Cont.HtMoves Cont.HtPut Cont.HtInv Cont.HtInvIter.
Import ListNotations.

Section Safe.
Variable var : variant.
Variable dcap : N.

Lemma TL_live_in : forall t h I e, TL t h I -> live h e -> exists l, tinv h l /\ In e l.
Proof. intros t h I e HTL Le. destruct (tl_tinv _ _ _ HTL) as (l & T). exists l. split; [exact T|apply (ti_dom _ _ T); exact Le]. Qed.

Lemma TL_find_in : forall t h I k e, TL t h I -> find_key h k = Some e -> exists l, tinv h l /\ In e l.
Proof.
  intros t h I k e HTL Hf. destruct (tl_tinv _ _ _ HTL) as (l & T). exists l. split; [exact T|].
  apply (find_key_some_in h l k e T Hf).
Qed.

Lemma TL_find_live : forall t h I k e, TL t h I -> find_key h k = Some e -> live h e.
Proof.
  intros t h I k e HTL Hf. destruct (TL_find_in _ _ _ _ _ HTL Hf) as (l & T & He).
  apply (lk_live _ _ (ti_linked _ _ T)). exact He.
Qed.

(* Put followed by one of the positional moves *)
Lemma put_then : forall t h I k v (mv : ht -> itab -> positive -> ht * itab),
  TL t h I ->
  (forall h1 I1 e l, TL t h1 I1 -> tinv h1 l -> In e l -> okstep t I1 (mv h1 I1 e)) ->
  okstep t I (mv (pa_h (put_aux var dcap h I k v)) (pa_i (put_aux var dcap h I k v)) (pa_e (put_aux var dcap h I k v))).
Proof.
  intros t h I k v mv HTL Hmv. destruct (put_aux_ok var dcap t h I k v HTL) as [[HTL1 F1] Le]. cbn [fst snd] in HTL1, F1.
  destruct (TL_live_in _ _ _ _ HTL1 Le) as (l & T & He).
  eapply okstep_trans; [split; [exact HTL1|exact F1]|]. eapply Hmv; eassumption.
Qed.

Lemma put_aux_split : forall h I k v,
  put_aux var dcap h I k v = (pa_h (put_aux var dcap h I k v), pa_i (put_aux var dcap h I k v), pa_e (put_aux var dcap h I k v), snd (put_aux var dcap h I k v)).
Proof. intros. unfold pa_h, pa_i, pa_e. destruct (put_aux var dcap h I k v) as [[[a b] c] d]. reflexivity. Qed.

Lemma fresh_table_TL : forall t hold I0 c a, TL t hold I0 -> ilist hold = [] ->
  TL t (mkHt (PositiveMap.empty node) None None 0 c (fresh hold) a []) I0.
Proof.
  intros t hold I0 c a [_ _ _ Hown] Hil. constructor.
  - exists []. apply tinv_empty.
  - constructor.
  - intros i [].
  - intros i it Hg O. destruct (Hown i it Hg O) as [A B]. rewrite Hil in A. split; [exact A|].
    intros c0 Hc. destruct (B c0 Hc) as [R L]. exfalso. exact (A R).
Qed.

Definition covered (o : op) : bool :=
  match o with OSwap _ _ | OMoveCtor _ _ => false | _ => true end.

Ltac vt W :=
  match goal with
  | |- context [valid_t ?w ?t && valid_t ?w ?u] =>
      destruct (valid_t w t) eqn:?V1; [apply valid_t_lt in V1|exact W];
      destruct (valid_t w u) eqn:?V2; [apply valid_t_lt in V2|exact W]; cbn [andb]
  | |- context [valid_t ?w ?t] => destruct (valid_t w t) eqn:?V1; [apply valid_t_lt in V1|exact W]
  end.

Ltac fin W V R := exact (WF_okstep _ _ _ W V R).

Lemma step1_WF_covered : forall w o, WF w -> covered o = true -> WF (fst (step1 var dcap w o)).
Proof.
  intros w o W Hc. pose proof (wf_tabs _ W) as WT.
  destruct o; try discriminate Hc; cbn [step1]; try exact W.
  - (* Put *) vt W. rewrite (put_aux_split (gett w t)). cbn [fst].
    fin W V1 (proj1 (put_aux_ok var dcap t _ _ k v (WT t V1))).
  - (* PutIfAbsent *) vt W. destruct (find_key (gett w t) k); [exact W|]. rewrite (put_aux_split (gett w t)). cbn [fst].
    fin W V1 (proj1 (put_aux_ok var dcap t _ _ k v (WT t V1))).
  - (* GetOrPut *) vt W. destruct (find_key (gett w t) k); [exact W|]. rewrite (put_aux_split (gett w t)). cbn [fst].
    fin W V1 (proj1 (put_aux_ok var dcap t _ _ k v (WT t V1))).
  - (* PutAtFront *) vt W. rewrite (put_aux_split (gett w t)).
    pose proof (put_then t _ _ k v (fun h I e => move_front_aux h I e) (WT t V1) (fun h1 I1 e l A B C => move_front_ok t h1 I1 e l A B C)) as R.
    cbn beta in R. destruct (move_front_aux _ _ _) as [h1 I1]. cbn [fst]. fin W V1 R.
  - (* PutAtBack *) vt W. rewrite (put_aux_split (gett w t)).
    pose proof (put_then t _ _ k v (fun h I e => move_back_aux h I e) (WT t V1) (fun h1 I1 e l A B C => move_back_ok t h1 I1 e l A B C)) as R.
    cbn beta in R. destruct (move_back_aux _ _ _) as [h1 I1]. cbn [fst]. fin W V1 R.
  - (* PutBefore *) vt W. rewrite (put_aux_split (gett w t)).
    destruct (put_aux_ok var dcap t _ _ k v (WT t V1)) as [R0 Le].
    set (h := pa_h _) in *. set (I := pa_i _) in *. set (e := pa_e _) in *.
    destruct (find_key h k2) as [f|] eqn:Ef; [|cbn [fst]; fin W V1 R0].
    destruct (Pos.eqb e f) eqn:Eef; [cbn [fst]; fin W V1 R0|].
    destruct R0 as [HTL1 F1]. cbn [fst snd] in HTL1, F1.
    destruct (TL_live_in _ _ _ _ HTL1 Le) as (l & T & He).
    destruct (find_key_some_in h l k2 f T Ef) as [Hf _]. apply Pos.eqb_neq in Eef.
    pose proof (move_before_ok t h I e f l HTL1 T He Hf (fun x => Eef (eq_sym x))) as R.
    destruct (move_before_aux h I e f) as [h1 I1]. cbn [fst].
    fin W V1 (okstep_trans t _ h I _ (conj HTL1 F1) R).
  - (* PutBehind *) vt W. rewrite (put_aux_split (gett w t)).
    destruct (put_aux_ok var dcap t _ _ k v (WT t V1)) as [R0 Le].
    set (h := pa_h _) in *. set (I := pa_i _) in *. set (e := pa_e _) in *.
    destruct (find_key h k2) as [f|] eqn:Ef; [|cbn [fst]; fin W V1 R0].
    destruct (Pos.eqb e f) eqn:Eef; [cbn [fst]; fin W V1 R0|].
    destruct R0 as [HTL1 F1]. cbn [fst snd] in HTL1, F1.
    destruct (TL_live_in _ _ _ _ HTL1 Le) as (l & T & He).
    destruct (find_key_some_in h l k2 f T Ef) as [Hf _]. apply Pos.eqb_neq in Eef.
    pose proof (move_behind_ok t h I e f l HTL1 T He Hf (fun x => Eef (eq_sym x))) as R.
    destruct (move_behind_aux h I e f) as [h1 I1]. cbn [fst].
    fin W V1 (okstep_trans t _ h I _ (conj HTL1 F1) R).
  - (* PutAtPos *) vt W. rewrite (put_aux_split (gett w t)).
    pose proof (put_then t _ _ k v (fun h I e => move_pos_aux h I e idx) (WT t V1) (fun h1 I1 e l A B C => move_pos_ok t h1 I1 e idx l A B C)) as R.
    cbn beta in R. destruct (move_pos_aux _ _ _ _) as [h1 I1]. cbn [fst]. fin W V1 R.
  - (* Remove *) vt W. destruct (find_key (gett w t) k) as [e|] eqn:Ef; [|exact W].
    pose proof (remove_entry_TL t _ _ e (WT t V1) (TL_find_live _ _ _ _ _ (WT t V1) Ef)) as R.
    destruct (remove_entry _ _ e) as [h1 I1]. cbn [fst]. exact (WF_table_step _ _ _ _ W V1 (proj1 R) (proj2 R)).
  - (* RemoveFirst *) vt W. destruct (hd (gett w t)) as [e|] eqn:Eh; [|exact W].
    assert (Le : live (gett w t) e).
    { destruct (tl_tinv _ _ _ (WT t V1)) as (l & T). apply (lk_live _ _ (ti_linked _ _ T)).
      apply head_opt_in. rewrite <- (lk_hd _ _ (ti_linked _ _ T)). exact Eh. }
    pose proof (remove_entry_TL t _ _ e (WT t V1) Le) as R.
    destruct (remove_entry _ _ e) as [h1 I1]. cbn [fst]. exact (WF_table_step _ _ _ _ W V1 (proj1 R) (proj2 R)).
  - (* RemoveLast *) vt W. destruct (tl (gett w t)) as [e|] eqn:Eh; [|exact W].
    assert (Le : live (gett w t) e).
    { destruct (tl_tinv _ _ _ (WT t V1)) as (l & T). apply (lk_live _ _ (ti_linked _ _ T)).
      apply last_of_in. rewrite <- (lk_tl _ _ (ti_linked _ _ T)). exact Eh. }
    pose proof (remove_entry_TL t _ _ e (WT t V1) Le) as R.
    destruct (remove_entry _ _ e) as [h1 I1]. cbn [fst]. exact (WF_table_step _ _ _ _ W V1 (proj1 R) (proj2 R)).
  - (* MoveFront *) vt W. destruct (find_key (gett w t) k) as [e|] eqn:Ef; [|exact W].
    destruct (TL_find_in _ _ _ _ _ (WT t V1) Ef) as (l & T & He).
    pose proof (move_front_ok t _ _ e l (WT t V1) T He) as R. destruct (move_front_aux _ _ e) as [h1 I1]. cbn [fst]. fin W V1 R.
  - (* MoveBack *) vt W. destruct (find_key (gett w t) k) as [e|] eqn:Ef; [|exact W].
    destruct (TL_find_in _ _ _ _ _ (WT t V1) Ef) as (l & T & He).
    pose proof (move_back_ok t _ _ e l (WT t V1) T He) as R. destruct (move_back_aux _ _ e) as [h1 I1]. cbn [fst]. fin W V1 R.
  - (* MoveBefore *) vt W. destruct (find_key (gett w t) k) as [e|] eqn:Ef; [|exact W].
    destruct (find_key (gett w t) k2) as [f|] eqn:Ef2; [|exact W].
    destruct (Pos.eqb e f) eqn:Eef; [exact W|]. apply Pos.eqb_neq in Eef.
    destruct (tl_tinv _ _ _ (WT t V1)) as (l & T).
    destruct (find_key_some_in _ l k e T Ef) as [He _]. destruct (find_key_some_in _ l k2 f T Ef2) as [Hf _].
    pose proof (move_before_ok t _ _ e f l (WT t V1) T He Hf (fun x => Eef (eq_sym x))) as R.
    destruct (move_before_aux _ _ e f) as [h1 I1]. cbn [fst]. fin W V1 R.
  - (* MoveBehind *) vt W. destruct (find_key (gett w t) k) as [e|] eqn:Ef; [|exact W].
    destruct (find_key (gett w t) k2) as [f|] eqn:Ef2; [|exact W].
    destruct (Pos.eqb e f) eqn:Eef; [exact W|]. apply Pos.eqb_neq in Eef.
    destruct (tl_tinv _ _ _ (WT t V1)) as (l & T).
    destruct (find_key_some_in _ l k e T Ef) as [He _]. destruct (find_key_some_in _ l k2 f T Ef2) as [Hf _].
    pose proof (move_behind_ok t _ _ e f l (WT t V1) T He Hf (fun x => Eef (eq_sym x))) as R.
    destruct (move_behind_aux _ _ e f) as [h1 I1]. cbn [fst]. fin W V1 R.
  - (* MovePos *) vt W. destruct (find_key (gett w t) k) as [e|] eqn:Ef; [|exact W].
    destruct (TL_find_in _ _ _ _ _ (WT t V1) Ef) as (l & T & He).
    pose proof (move_pos_ok t _ _ e idx l (WT t V1) T He) as R. destruct (move_pos_aux _ _ e idx) as [h1 I1]. cbn [fst]. fin W V1 R.
  - (* GetMoveFront *) vt W. destruct (find_key (gett w t) k) as [e|] eqn:Ef; [|exact W].
    destruct (TL_find_in _ _ _ _ _ (WT t V1) Ef) as (l & T & He).
    pose proof (move_front_ok t _ _ e l (WT t V1) T He) as R. destruct (move_front_aux _ _ e) as [h1 I1]. cbn [fst]. fin W V1 R.
  - (* GetMoveBack *) vt W. destruct (find_key (gett w t) k) as [e|] eqn:Ef; [|exact W].
    destruct (TL_find_in _ _ _ _ _ (WT t V1) Ef) as (l & T & He).
    pose proof (move_back_ok t _ _ e l (WT t V1) T He) as R. destruct (move_back_aux _ _ e) as [h1 I1]. cbn [fst]. fin W V1 R.
  - (* SortKey *) vt W. cbn [fst]. rewrite sett_as_put.
    fin W V1 (okstep_id t _ _ (sort_by_TL t _ _ cmp_key (WT t V1))).
  - (* SortVal *) vt W. cbn [fst]. rewrite sett_as_put.
    fin W V1 (okstep_id t _ _ (sort_by_TL t _ _ cmp_val (WT t V1))).
  - (* Sort *) vt W. cbn [fst]. rewrite sett_as_put.
    fin W V1 (okstep_id t _ _ (sort_aux_TL t var _ _ (WT t V1))).
  - (* Reposition *) vt W. destruct (find_key (gett w t) k) as [e|] eqn:Ef; [|exact W].
    destruct (TL_find_in _ _ _ _ _ (WT t V1) Ef) as (l & T & He).
    pose proof (proj1 (reposition_ok var t _ _ e l (WT t V1) T He)) as R. destruct (reposition_aux var _ _ e) as [h1 I1]. cbn [fst]. fin W V1 R.
  - (* SetAutoSort *) vt W.
    assert (G : forall v, WF (fst (if Bool.eqb en (asort (gett w t)) then (w, ONone)
                 else (sett w t (if sortnow && en then sort_aux v (with_asort (gett w t) en) else with_asort (gett w t) en), ONone)))).
    { intros v. destruct (Bool.eqb en (asort (gett w t))); [exact W|]. cbn [fst]. rewrite sett_as_put.
      assert (HA : TL t (with_asort (gett w t) en) (its w)).
      { apply (TL_same_I t (gett w t)); [apply WT; exact V1| |reflexivity|intros; assumption].
        destruct (tl_tinv _ _ _ (WT t V1)) as (l & [L C D F K]). exists l. constructor; try assumption. apply (linked_ext _ _ l L); reflexivity. }
      destruct (sortnow && en); [fin W V1 (okstep_id t _ _ (sort_aux_TL t v _ _ HA))|fin W V1 (okstep_id t _ _ HA)]. }
    destruct var; [exact W|apply G|apply G].
  - (* Ensure *) vt W. pose proof (ensure_size_ok t dcap _ _ n shrink (WT t V1)) as R.
    destruct (ensure_size dcap _ _ n shrink) as [[h1 I1] st]. cbn [fst] in *. fin W V1 R.
  - (* ShrinkFit *) vt W. destruct (N.ltb _ _); [exact W|].
    pose proof (ensure_size_ok t dcap _ _ (N.of_nat (cnt (gett w t)) + extra) true (WT t V1)) as R.
    destruct (ensure_size dcap _ _ _ true) as [[h1 I1] st]. cbn [fst] in *. fin W V1 R.
  - (* EnsureCanPut *) vt W. destruct (N.ltb _ _); [exact W|].
    pose proof (ensure_size_ok t dcap _ _ (N.of_nat (cnt (gett w t)) + extra) false (WT t V1)) as R.
    destruct (ensure_size dcap _ _ _ false) as [[h1 I1] st]. cbn [fst] in *. fin W V1 R.
  - (* Clear *) vt W. pose proof (clear_ok t dcap _ _ release (WT t V1)) as R.
    destruct (clear_tab dcap _ _ release) as [h1 I1]. cbn [fst]. fin W V1 R.
  - (* CopyFrom *) vt W. destruct (t =? u); [exact W|].
    assert (Hnd : NoDup (map fst (abs (gett w u)))).
    { destruct (tl_tinv _ _ _ (WT u V2)) as (l & T). rewrite (tinv_abs _ l T), map_map. apply (ti_keys _ _ T). }
    pose proof (copy_from_ok var dcap t _ _ (abs (gett w u)) (cap (gett w u)) clearfirst (WT t V1) Hnd) as R.
    destruct (copy_from var dcap _ _ _ _ clearfirst) as [[h1 I1] st]. cbn [fst] in *. fin W V1 R.
  - (* CopyCtor *) vt W. destruct (t =? u); [exact W|].
    assert (Hnd : NoDup (map fst (abs (gett w u)))).
    { destruct (tl_tinv _ _ _ (WT u V2)) as (l & T). rewrite (tinv_abs _ l T), map_map. apply (ti_keys _ _ T). }
    pose proof (clear_ok t dcap _ _ true (WT t V1)) as R0.
    rewrite (surjective_pairing (clear_tab dcap (gett w t) (its w) true)).
    set (hold := fst (clear_tab dcap (gett w t) (its w) true)) in *. set (I0 := snd (clear_tab dcap (gett w t) (its w) true)) in *.
    destruct R0 as [HTL0 F0].
    pose proof (fresh_table_TL t hold I0 (cap (gett w u)) true HTL0 eq_refl) as HTLn.
    pose proof (copy_from_ok var dcap t _ _ (abs (gett w u)) (cap (gett w u)) true HTLn Hnd) as R.
    destruct (copy_from var dcap _ I0 _ _ true) as [[h1 I1] st]. cbn [fst] in *.
    fin W V1 (okstep_trans t _ _ I0 _ (conj HTLn F0) R).
  - (* Equal *) vt W. exact W.
  - (* MoveToTable *) vt W. destruct (find_key (gett w t) k) as [e|] eqn:Ef; [|exact W].
    destruct (t =? u) eqn:Etu; [exact W|]. apply Nat.eqb_neq in Etu.
    destruct (val_of (gett w t) e) as [v|]; [|exact W].
    rewrite (put_aux_split (gett w u)).
    pose proof (proj1 (put_aux_ok var dcap u _ _ k v (WT u V2))) as R1.
    set (hu := pa_h _) in *. set (I1 := pa_i _) in *.
    pose proof (WF_okstep _ _ _ W V2 R1) as W1. cbn [fst snd] in W1.
    assert (Et : gett (put_ti w u hu I1) t = gett w t) by (apply gett_put_other; congruence).
    assert (V1' : t < length (tabs (put_ti w u hu I1))) by (rewrite len_put; exact V1).
    pose proof (wf_tabs _ W1 t V1') as HTLt. rewrite Et, its_put in HTLt.
    pose proof (remove_entry_TL t _ _ e HTLt (TL_find_live _ _ _ _ _ (WT t V1) Ef)) as R2.
    destruct (remove_entry (gett w t) I1 e) as [ht1 I2]. cbn [fst].
    exact (WF_table_step _ _ _ _ W1 V1' (proj1 R2) (proj2 R2)).
  - (* CopyToTable *) vt W. destruct (find_key (gett w t) k) as [e|] eqn:Ef; [|exact W].
    destruct (t =? u); [exact W|]. destruct (val_of (gett w t) e) as [v|]; [|exact W].
    rewrite (put_aux_split (gett w u)). cbn [fst].
    fin W V2 (proj1 (put_aux_ok var dcap u _ _ k v (WT u V2))).
  - (* RemoveTable *) vt W. destruct (t =? u).
    + pose proof (clear_ok t dcap _ _ false (WT t V1)) as R. destruct (clear_tab dcap _ _ false) as [h1 I1]. cbn [fst]. fin W V1 R.
    + pose proof (remove_keys_ok t (map fst (abs (gett w u))) _ _ (WT t V1)) as R.
      destruct (remove_keys _ _ _) as [[h1 I1] c]. cbn [fst] in *. fin W V1 R.
  - (* Intersect *) vt W. destruct (t =? u); [exact W|].
    pose proof (intersect_ids_ok t (abs (gett w u)) (ids (gett w t)) _ _ (WT t V1)) as R.
    destruct (intersect_ids _ _ _ _) as [[h1 I1] c]. cbn [fst] in *. fin W V1 R.
  - (* Destroy *) vt W. pose proof (clear_ok t dcap _ _ true (WT t V1)) as R0.
    rewrite (surjective_pairing (clear_tab dcap (gett w t) (its w) true)).
    set (hold := fst (clear_tab dcap (gett w t) (its w) true)) in *. set (I0 := snd (clear_tab dcap (gett w t) (its w) true)) in *.
    destruct R0 as [HTL0 F0]. cbn [fst].
    apply WF_table_step; [exact W|exact V1|apply (fresh_table_TL t hold I0 dcap true HTL0 eq_refl)|exact F0].
  - (* Prealloc *) vt W. pose proof (clear_ok t dcap _ _ true (WT t V1)) as R0.
    rewrite (surjective_pairing (clear_tab dcap (gett w t) (its w) true)).
    set (hold := fst (clear_tab dcap (gett w t) (its w) true)) in *. set (I0 := snd (clear_tab dcap (gett w t) (its w) true)) in *.
    destruct R0 as [HTL0 F0].
    pose proof (fresh_table_TL t hold I0 0%N true HTL0 eq_refl) as HTLn.
    pose proof (ensure_size_ok t dcap _ _ n false HTLn) as R.
    destruct (ensure_size dcap _ I0 n false) as [[h1 I1] st]. cbn [fst] in *.
    fin W V1 (okstep_trans t _ _ I0 _ (conj HTLn F0) R).
  - (* IterNew *)
    destruct (valid_i w i) eqn:Vi; [apply valid_i_lt in Vi|exact W]. vt W. cbn [fst].
    rewrite register_del. apply WF_register.
    + apply WF_del. exact W.
    + rewrite geti_del, Nat.eqb_refl. reflexivity.
    + rewrite len_its_del. exact Vi.
    + rewrite len_tabs_del. exact V1.
    + intros c0 Ec. split; [reflexivity|].
      assert (V1' : t < length (tabs (del_world w i))) by (rewrite len_tabs_del; exact V1).
      destruct (tl_tinv _ _ _ (wf_tabs _ (WF_del w i W) t V1')) as (l & T).
      rewrite gett_unreg_del in Ec. apply (lk_live _ _ (ti_linked _ _ T)). destruct bw.
      * apply last_of_in. rewrite <- (lk_tl _ _ (ti_linked _ _ T)). exact Ec.
      * apply head_opt_in. rewrite <- (lk_hd _ _ (ti_linked _ _ T)). exact Ec.
  - (* IterAt *)
    destruct (valid_i w i) eqn:Vi; [apply valid_i_lt in Vi|exact W]. vt W. cbn [fst].
    rewrite register_del. apply WF_register.
    + apply WF_del. exact W.
    + rewrite geti_del, Nat.eqb_refl. reflexivity.
    + rewrite len_its_del. exact Vi.
    + rewrite len_tabs_del. exact V1.
    + intros c0 Ec. split; [reflexivity|].
      assert (V1' : t < length (tabs (del_world w i))) by (rewrite len_tabs_del; exact V1).
      rewrite gett_unreg_del in Ec. apply (TL_find_live _ _ _ _ _ (wf_tabs _ (WF_del w i W) t V1') Ec).
  - (* IterAdv *)
    destruct (geti (its w) i) as [it|] eqn:Hg; [|exact W]. cbn [fst].
    apply (WF_iter_update w i it _ W Hg).
    + destruct (iscr it); reflexivity.
    + destruct (iscr it); reflexivity.
    + intros c Hck. destruct (iscr it).
      * cbn in Hck. destruct (WF_cookie w i it c W Hg Hck) as [R (t & O & Ht & L)]. split; [exact R|]. exists t. auto.
      * cbn in Hck. destruct (iown it) as [t|] eqn:O; [|discriminate].
        destruct (icookie it) as [c0|] eqn:Ec; [|discriminate].
        destruct (WF_cookie w i it c0 W Hg Ec) as [R (t' & O' & Ht & L)]. rewrite O in O'. inversion O'; subst t'.
        split; [exact R|]. exists t. split; [reflexivity|]. eapply subseq_live; [apply WT; exact Ht|exact L|exact Hck].
  - (* IterRet *)
    destruct (geti (its w) i) as [it|] eqn:Hg; [|exact W]. cbn [fst].
    apply (WF_iter_update w i it _ W Hg).
    + destruct (iscr it); reflexivity.
    + destruct (iscr it); reflexivity.
    + intros c Hck. destruct (iscr it).
      * cbn in Hck. destruct (WF_cookie w i it c W Hg Hck) as [R (t & O & Ht & L)]. split; [exact R|]. exists t. auto.
      * cbn in Hck. destruct (iown it) as [t|] eqn:O; [|discriminate].
        destruct (icookie it) as [c0|] eqn:Ec; [|discriminate].
        destruct (WF_cookie w i it c0 W Hg Ec) as [R (t' & O' & Ht & L)]. rewrite O in O'. inversion O'; subst t'.
        split; [exact R|]. exists t. split; [reflexivity|]. eapply subseq_live; [apply WT; exact Ht|exact L|exact Hck].
  - (* IterSetBw *)
    destruct (geti (its w) i) as [it|] eqn:Hg; [|exact W]. cbn [fst].
    apply (WF_iter_update w i it _ W Hg); try reflexivity.
    intros c Hck. cbn in Hck. destruct (WF_cookie w i it c W Hg Hck) as [R (t & O & Ht & L)]. split; [exact R|]. exists t. auto.
  - (* IterDel *)
    destruct (valid_i w i); [|exact W]. cbn [fst]. apply (WF_del w i W).
  - (* IterCopy *)
    destruct (valid_i w i) eqn:Vi; [apply valid_i_lt in Vi|exact W]. cbn [andb].
    destruct (negb (i =? j)) eqn:Eij; [|exact W]. apply negb_true_iff in Eij. apply Nat.eqb_neq in Eij.
    destruct (geti (its w) j) as [src|] eqn:Hg; [|exact W]. cbn [fst].
    destruct (iown src) as [t|] eqn:O.
    + rewrite register_del. pose proof (wf_its _ W j src Hg) as Ht. rewrite O in Ht. apply WF_register.
      * apply WF_del. exact W.
      * rewrite geti_del, Nat.eqb_refl. reflexivity.
      * rewrite len_its_del. exact Vi.
      * rewrite len_tabs_del. exact Ht.
      * intros c0 Ec. destruct (WF_cookie w j src c0 W Hg Ec) as [R (t' & O' & Ht' & L)].
        rewrite O in O'. inversion O'; subst t'. split; [exact R|]. apply (live_del w i t c0 W Ht). exact L.
    + change (seti_w (unregister w i) (seti (its (unregister w i)) i (Some (mkIter None None (ibw src) (inoreg src) (iscr src)))))
        with (seti_w (del_world w i) (seti (its (unregister w i)) i (Some (mkIter None None (ibw src) (inoreg src) (iscr src))))).
      replace (seti (its (unregister w i)) i (Some (mkIter None None (ibw src) (inoreg src) (iscr src))))
        with (seti (its (del_world w i)) i (Some (mkIter None None (ibw src) (inoreg src) (iscr src))))
        by (unfold del_world; cbn [its seti_w]; apply seti_seti).
      apply WF_add_detached.
      * apply WF_del. exact W.
      * rewrite geti_del, Nat.eqb_refl. reflexivity.
      * rewrite len_its_del. exact Vi.
Qed.

End Safe.

(* ------------------------------------------------------------------ all reachable worlds *)

Section Reach.
Variable var : variant.
Variable dcap : N.

Lemma run1_WF_covered : forall ops w, WF w -> Forall (fun o => covered o = true) ops -> WF (run1 var dcap w ops).
Proof.
  induction ops as [|o ops IH]; intros w W F; [exact W|]. inversion F; subst. cbn [run1 fold_left].
  apply IH; [apply step1_WF_covered; assumption|assumption].
Qed.

(* iterator safety: in every reachable world the cookie of every iterator is an entry that is
   currently linked in the iteration list of the iterator's own table (never a removed entry) *)
Lemma iter_safe_covered : forall nt ni ops, Forall (fun o => covered o = true) ops ->
  let w := run1 var dcap (init_world dcap nt ni) ops in
  forall i it c, geti (its w) i = Some it -> icookie it = Some c ->
    inoreg it = false /\
    exists t, iown it = Some t /\ t < length (tabs w) /\ In i (ilist (gett w t)) /\
              In c (ids (gett w t)) /\ kv_of (gett w t) c <> None.
Proof.
  intros nt ni ops F w i it c Hg Hc.
  assert (W : WF w) by (apply run1_WF_covered; [apply WF_init|exact F]).
  destruct (WF_cookie w i it c W Hg Hc) as [R (t & O & Ht & L)]. split; [exact R|]. exists t.
  destruct (tl_own _ _ _ (wf_tabs _ W t Ht) i it Hg O) as [A _].
  destruct (tl_tinv _ _ _ (wf_tabs _ W t Ht)) as (l & T).
  split; [exact O|split; [exact Ht|split; [apply A; exact R|split]]].
  - rewrite (tinv_ids _ l T). apply (ti_dom _ _ T). exact L.
  - rewrite (kv_of_live _ _ L). discriminate.
Qed.

(* the structure every reachable table has: both link directions describe the same sequence, keys
   are unique, the count is the length *)
Lemma tables_consistent_covered : forall nt ni ops, Forall (fun o => covered o = true) ops ->
  let w := run1 var dcap (init_world dcap nt ni) ops in
  forall t, t < length (tabs w) ->
    abs_back (gett w t) = rev (abs (gett w t)) /\ NoDup (map fst (abs (gett w t))) /\
    cnt (gett w t) = length (abs (gett w t)).
Proof.
  intros nt ni ops F w t Ht.
  assert (W : WF w) by (apply run1_WF_covered; [apply WF_init|exact F]).
  destruct (tl_tinv _ _ _ (wf_tabs _ W t Ht)) as (l & T).
  split; [apply (tinv_abs_back _ l T)|split].
  - rewrite (tinv_abs _ l T), map_map. apply (ti_keys _ _ T).
  - rewrite (tinv_abs _ l T), map_length. apply (ti_cnt _ _ T).
Qed.

End Reach.
