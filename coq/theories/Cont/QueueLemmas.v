(* C16 -- basic lemmas used by the Queue refinement proofs: list indexing, ring-index
   arithmetic (InternalizeIndex / NextIndex / PrevIndex), getu/setu, the abstraction [abs]. *)
From Coq Require Import List Arith ZArith Bool Lia ZifyBool.
From Muscle Require Import Cont.QueueModel.
Import ListNotations.
Local Open Scope nat_scope.

(* ------------------------------------------------------------------ tactics *)

(* one case split per [if]; the boolean facts stay as equations that [lia] (ZifyBool) reads *)
Ltac dif :=
  repeat match goal with
  | |- context [if ?c then _ else _] =>
      let E := fresh "E" in destruct c eqn:E; try rewrite E in *
  end.

(* the same, also splitting on the [if]s of the hypotheses *)
Ltac difh :=
  repeat match goal with
  | |- context [if ?c then _ else _] =>
      let E := fresh "E" in destruct c eqn:E; try rewrite E in *
  | H : context [if ?c then _ else _] |- _ =>
      let E := fresh "E" in destruct c eqn:E; try rewrite E in *
  end.

Ltac fin := try reflexivity; try lia; try congruence; try (f_equal; lia).

(* ------------------------------------------------------------------ lists *)

Section Lists.
Context {A : Type}.
Implicit Types (l : list A) (d : A).

Lemma nth_firstn' l n i d : nth i (firstn n l) d = if i <? n then nth i l d else d.
Proof.
  revert n i. induction l as [|x l IH]; intros n i.
  - rewrite firstn_nil. destruct i; dif; reflexivity.
  - destruct n as [|n]; [destruct i; reflexivity|].
    destruct i as [|i]; [reflexivity|]. cbn [firstn nth]. rewrite IH.
    change (S i <? S n) with (i <? n). reflexivity.
Qed.

Lemma nth_skipn' l n i d : nth i (skipn n l) d = nth (n + i) l d.
Proof.
  revert l. induction n as [|n IH]; intros l; [reflexivity|].
  destruct l as [|x l]; [destruct i; reflexivity|]. cbn [skipn Nat.add nth]. apply IH.
Qed.

Lemma nth_app' l l' i d :
  nth i (l ++ l') d = if i <? length l then nth i l d else nth (i - length l) l' d.
Proof.
  destruct (i <? length l) eqn:E.
  - apply app_nth1. lia.
  - apply app_nth2. lia.
Qed.

Lemma nth_repeat' (a : A) n i d : nth i (repeat a n) d = if i <? n then a else d.
Proof.
  revert i. induction n as [|n IH]; intros i; [destruct i; reflexivity|].
  destruct i as [|i]; [reflexivity|]. cbn [repeat nth]. rewrite IH.
  change (S i <? S n) with (i <? n). reflexivity.
Qed.

Lemma nth_rev' l i d :
  nth i (rev l) d = if i <? length l then nth (length l - S i) l d else d.
Proof.
  destruct (i <? length l) eqn:E.
  - apply rev_nth. lia.
  - apply nth_overflow. rewrite rev_length. lia.
Qed.

Lemma nth_cons' (x : A) l i d : nth i (x :: l) d = if i =? 0 then x else nth (i - 1) l d.
Proof. destruct i as [|i]; [reflexivity|]. cbn [nth Nat.eqb]. f_equal. lia. Qed.

Lemma list_ext l l' d :
  length l = length l' -> (forall i, i < length l -> nth i l d = nth i l' d) -> l = l'.
Proof. intros. eapply nth_ext; eauto. Qed.

Lemma skipn_length' l n : length (skipn n l) = length l - n.
Proof. apply skipn_length. Qed.

Lemma firstn_length' l n : length (firstn n l) = Nat.min n (length l).
Proof. apply firstn_length. Qed.

End Lists.

Lemma skipn_skipn' {A} (a b : nat) (l : list A) : skipn a (skipn b l) = skipn (b + a) l.
Proof.
  revert l. induction b as [|b IH]; intros l; [reflexivity|].
  destruct l as [|x l]; [rewrite !skipn_nil; reflexivity|]. cbn [skipn Nat.add]. apply IH.
Qed.

Lemma upd_length a i v : length (upd a i v) = length a.
Proof.
  unfold upd. destruct (i <? length a) eqn:E; [|reflexivity].
  rewrite app_length. cbn [length]. rewrite firstn_length, skipn_length. lia.
Qed.

Lemma nth_upd a i v j d :
  nth j (upd a i v) d = if (j =? i) && (i <? length a) then v else nth j a d.
Proof.
  unfold upd. destruct (i <? length a) eqn:E.
  - rewrite nth_app', firstn_length', nth_firstn', nth_cons', nth_skipn'.
    replace (Nat.min i (length a)) with i by lia.
    dif; fin.
  - rewrite andb_false_r. reflexivity.
Qed.

Lemma upd_oob a i v : length a <= i -> upd a i v = a.
Proof. intros H. unfold upd. destruct (i <? length a) eqn:E; [lia|reflexivity]. Qed.

#[export] Hint Rewrite @nth_firstn' @nth_skipn' @nth_app' @nth_repeat' @nth_rev' @nth_cons' nth_upd
  @firstn_length' @skipn_length' @app_length @rev_length @repeat_length upd_length @map_length @seq_length : nthdb.

(* ------------------------------------------------------------------ ring indices *)

Lemma qsize_mk s a c h t i : qsize (mkQ s a c h t i) = length a.
Proof. reflexivity. Qed.

Lemma intern_congr q q' i : head q' = head q -> qsize q' = qsize q -> intern q' i = intern q i.
Proof. intros H1 H2. unfold intern. rewrite H1, H2. reflexivity. Qed.

Lemma intern_lt q i : head q < qsize q -> i <= qsize q -> intern q i < qsize q.
Proof. intros. unfold intern. cbv zeta. dif; lia. Qed.

Lemma intern_inj q i j :
  head q < qsize q -> i < qsize q -> j < qsize q -> intern q i = intern q j -> i = j.
Proof. unfold intern. cbv zeta. intros. difh; lia. Qed.

Lemma intern_0 q : head q < qsize q -> intern q 0 = head q.
Proof. unfold intern. cbv zeta. intros. difh; lia. Qed.

(* every slot is the image of exactly one user index below qsize *)
Definition extern (q : q1) (s : nat) : nat := if head q <=? s then s - head q else s + qsize q - head q.

Lemma intern_extern q s : head q < qsize q -> s < qsize q ->
  extern q s < qsize q /\ intern q (extern q s) = s.
Proof. unfold intern, extern. cbv zeta. intros. difh; lia. Qed.

Lemma extern_intern q i : head q < qsize q -> i < qsize q -> extern q (intern q i) = i.
Proof. unfold intern, extern. cbv zeta. intros. difh; lia. Qed.

Lemma next_intern q i : head q < qsize q -> i < qsize q ->
  next_index q (intern q i) = intern q (if i + 1 =? qsize q then 0 else i + 1).
Proof. unfold intern, next_index. cbv zeta. intros. difh; lia. Qed.

Lemma next_intern' q i : head q < qsize q -> i + 1 < qsize q ->
  next_index q (intern q i) = intern q (i + 1).
Proof. unfold intern, next_index. cbv zeta. intros. difh; lia. Qed.

Lemma prev_intern q i : head q < qsize q -> 0 < i -> i <= qsize q ->
  prev_index q (intern q i) = intern q (i - 1).
Proof. unfold intern, prev_index. cbv zeta. intros. difh; lia. Qed.

Lemma prev_head q : head q < qsize q -> prev_index q (head q) = intern q (qsize q - 1).
Proof. unfold intern, prev_index. cbv zeta. intros. difh; lia. Qed.

Lemma next_lt q i : 0 < qsize q -> next_index q i < qsize q.
Proof. unfold next_index. intros. difh; lia. Qed.

Lemma prev_lt q i : 0 < qsize q -> i < qsize q -> prev_index q i < qsize q.
Proof. unfold prev_index. intros. difh; lia. Qed.

Lemma mod_intern q n : head q < qsize q -> n <= qsize q -> (head q + n) mod qsize q = intern q n.
Proof.
  intros Hh Hn. unfold intern. cbv zeta. destruct (head q + n <? qsize q) eqn:E.
  - apply Nat.mod_small. lia.
  - symmetry. apply (Nat.mod_unique _ _ 1); lia.
Qed.

(* ------------------------------------------------------------------ getu / setu / set_raw *)

Lemma setu_set_raw q i v : setu q i v = set_raw q (intern q i) v.
Proof. reflexivity. Qed.

Section Proj.
Variables (q : q1) (i : nat) (v : Z).
Lemma st_setu : st (setu q i v) = st q. Proof. reflexivity. Qed.
Lemma cnt_setu : cnt (setu q i v) = cnt q. Proof. reflexivity. Qed.
Lemma head_setu : head (setu q i v) = head q. Proof. reflexivity. Qed.
Lemma tail_setu : tail (setu q i v) = tail q. Proof. reflexivity. Qed.
Lemma inl_setu : inl (setu q i v) = inl q. Proof. reflexivity. Qed.
Lemma qsize_setu : qsize (setu q i v) = qsize q. Proof. apply upd_length. Qed.
Lemma st_set_raw : st (set_raw q i v) = st q. Proof. reflexivity. Qed.
Lemma cnt_set_raw : cnt (set_raw q i v) = cnt q. Proof. reflexivity. Qed.
Lemma head_set_raw : head (set_raw q i v) = head q. Proof. reflexivity. Qed.
Lemma tail_set_raw : tail (set_raw q i v) = tail q. Proof. reflexivity. Qed.
Lemma inl_set_raw : inl (set_raw q i v) = inl q. Proof. reflexivity. Qed.
Lemma qsize_set_raw : qsize (set_raw q i v) = qsize q. Proof. apply upd_length. Qed.
Lemma intern_setu j : intern (setu q i v) j = intern q j.
Proof. apply intern_congr; [reflexivity|apply qsize_setu]. Qed.
Lemma intern_set_raw j : intern (set_raw q i v) j = intern q j.
Proof. apply intern_congr; [reflexivity|apply qsize_set_raw]. Qed.
Lemma next_setu j : next_index (setu q i v) j = next_index q j.
Proof. unfold next_index. rewrite qsize_setu. reflexivity. Qed.
Lemma prev_setu j : prev_index (setu q i v) j = prev_index q j.
Proof. unfold prev_index. rewrite qsize_setu. reflexivity. Qed.
Lemma next_set_raw j : next_index (set_raw q i v) j = next_index q j.
Proof. unfold next_index. rewrite qsize_set_raw. reflexivity. Qed.
Lemma prev_set_raw j : prev_index (set_raw q i v) j = prev_index q j.
Proof. unfold prev_index. rewrite qsize_set_raw. reflexivity. Qed.
End Proj.

#[export] Hint Rewrite inl_setu inl_set_raw st_setu cnt_setu head_setu tail_setu qsize_setu st_set_raw cnt_set_raw head_set_raw
  tail_set_raw qsize_set_raw intern_setu intern_set_raw next_setu prev_setu next_set_raw prev_set_raw : qdb.

Lemma getu_set_raw q s v j :
  getu (set_raw q s v) j = if (intern q j =? s) && (s <? qsize q) then v else getu q j.
Proof. unfold getu. rewrite intern_set_raw. cbn [arr set_raw]. rewrite nth_upd. reflexivity. Qed.

Lemma getu_setu q i v j : head q < qsize q -> i < qsize q -> j < qsize q ->
  getu (setu q i v) j = if j =? i then v else getu q j.
Proof.
  intros Hh Hi Hj. rewrite setu_set_raw, getu_set_raw.
  pose proof (intern_lt q i Hh ltac:(lia)) as Li.
  destruct (j =? i) eqn:E.
  - assert (j = i) by lia. subst j. dif; fin.
  - destruct (intern q j =? intern q i) eqn:E2; [|reflexivity].
    exfalso. assert (intern q j = intern q i) as E3 by lia. apply intern_inj in E3; lia.
Qed.

(* raw slot view *)
Lemma nth_arr_getu q s d : head q < qsize q -> s < qsize q -> nth s (arr q) d = getu q (extern q s).
Proof.
  intros Hh Hs. unfold getu. destruct (intern_extern q s Hh Hs) as [_ E]. rewrite E.
  apply nth_indep. exact Hs.
Qed.

(* ------------------------------------------------------------------ abs *)

Lemma abs_length q : length (abs q) = cnt q.
Proof. unfold abs. rewrite map_length, seq_length. reflexivity. Qed.

Lemma nth_abs q i d : i < cnt q -> nth i (abs q) d = getu q i.
Proof.
  intros H. unfold abs. rewrite (nth_indep _ d (getu q 0)) by (rewrite map_length, seq_length; exact H).
  rewrite map_nth, seq_nth by exact H. reflexivity.
Qed.

Lemma nth_abs' q i d : nth i (abs q) d = if i <? cnt q then getu q i else d.
Proof.
  destruct (i <? cnt q) eqn:E.
  - apply nth_abs. lia.
  - apply nth_overflow. rewrite abs_length. lia.
Qed.

Lemma abs_ext q l : cnt q = length l -> (forall i, i < length l -> getu q i = nth i l 0%Z) -> abs q = l.
Proof.
  intros Hc Hn. apply (list_ext _ _ 0%Z).
  - rewrite abs_length. exact Hc.
  - intros i Hi. rewrite abs_length in Hi. rewrite nth_abs by exact Hi. apply Hn. lia.
Qed.

Lemma abs_congr q q' : cnt q' = cnt q -> (forall i, i < cnt q -> getu q' i = getu q i) -> abs q' = abs q.
Proof.
  intros Hc Hn. apply abs_ext.
  - rewrite abs_length. exact Hc.
  - intros i Hi. rewrite abs_length in Hi. rewrite nth_abs by exact Hi. apply Hn. exact Hi.
Qed.

#[export] Hint Rewrite abs_length : nthdb.
#[export] Hint Rewrite nth_abs' : absdb.
