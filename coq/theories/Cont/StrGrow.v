(* C17 -- arithmetic of String::GetNextBufferSize / NextPowerOfTwo (uint32): for requests up to 2^30 the
   next buffer size is at least the request and below 2^31; above that the doubling wraps around. *)
From Coq Require Import List NArith ZArith Bool Lia.
From Muscle Require Import Cont.StrL0 Cont.StrModel.
Local Open Scope N_scope.

Lemma lor_ge a b : a <= N.lor a b.
Proof.
  assert (E : N.lor a b = a + N.ldiff b a).
  { rewrite N.add_nocarry_lxor.
    - rewrite N.lxor_lor.
      + apply N.bits_inj. intros n. rewrite !N.lor_spec, N.ldiff_spec.
        destruct (N.testbit a n), (N.testbit b n); reflexivity.
      + apply N.bits_inj. intros n. rewrite N.land_spec, N.ldiff_spec, N.bits_0.
        destruct (N.testbit a n), (N.testbit b n); reflexivity.
    - apply N.bits_inj. intros n. rewrite N.land_spec, N.ldiff_spec, N.bits_0.
      destruct (N.testbit a n), (N.testbit b n); reflexivity. }
  lia.
Qed.

Lemma lor_lt_pow2 a b k : a < 2 ^ k -> b < 2 ^ k -> N.lor a b < 2 ^ k.
Proof.
  intros Ha Hb.
  destruct (N.eq_dec a 0) as [->|Na]; [now rewrite N.lor_0_l|].
  destruct (N.eq_dec b 0) as [->|Nb]; [now rewrite N.lor_0_r|].
  assert (P : 0 < N.lor a b) by (pose proof (lor_ge a b); lia).
  apply N.log2_lt_pow2; [assumption|]. rewrite N.log2_lor.
  apply N.log2_lt_pow2 in Ha; [|lia]. apply N.log2_lt_pow2 in Hb; [|lia]. lia.
Qed.

Lemma shiftr_le a n : N.shiftr a n <= a.
Proof.
  rewrite N.shiftr_div_pow2. apply N.div_le_upper_bound.
  - apply N.pow_nonzero. discriminate.
  - assert (2 ^ n <> 0) by (apply N.pow_nonzero; discriminate). nia.
Qed.

Definition smear (n : N) : N :=
  let n := N.lor n (N.shiftr n 1) in
  let n := N.lor n (N.shiftr n 2) in
  let n := N.lor n (N.shiftr n 4) in
  let n := N.lor n (N.shiftr n 8) in
  N.lor n (N.shiftr n 16).

Lemma smear_step_ge n k : n <= N.lor n (N.shiftr n k).
Proof. apply lor_ge. Qed.
Lemma smear_step_lt n k j : n < 2 ^ j -> N.lor n (N.shiftr n k) < 2 ^ j.
Proof. intros H. apply lor_lt_pow2; [assumption|]. pose proof (shiftr_le n k). lia. Qed.

Lemma smear_ge n : n <= smear n.
Proof.
  unfold smear.
  eapply N.le_trans; [apply (smear_step_ge n 1)|].
  eapply N.le_trans; [apply (smear_step_ge _ 2)|].
  eapply N.le_trans; [apply (smear_step_ge _ 4)|].
  eapply N.le_trans; [apply (smear_step_ge _ 8)|].
  apply (smear_step_ge _ 16).
Qed.
Lemma smear_lt n j : n < 2 ^ j -> smear n < 2 ^ j.
Proof. intros H. unfold smear. repeat apply smear_step_lt. exact H. Qed.

Lemma npot_smear n : npot n = u32 (smear (u32 (n + 4294967295)) + 1).
Proof. reflexivity. Qed.

Lemma npot_bounds n : 1 <= n -> n <= 2147483648 -> n <= npot n /\ npot n <= 2147483648.
Proof.
  intros H1 H2. rewrite npot_smear.
  assert (E : u32 (n + 4294967295) = n - 1).
  { unfold u32. replace (n + 4294967295) with ((n - 1) + 1 * 4294967296) by lia.
    rewrite N.mod_add by discriminate. apply N.mod_small. lia. }
  rewrite E.
  pose proof (smear_ge (n - 1)) as G.
  assert (L : smear (n - 1) < 2 ^ 31) by (apply smear_lt; change (2 ^ 31) with 2147483648; lia).
  change (2 ^ 31) with 2147483648 in L.
  unfold u32. rewrite N.mod_small by lia. lia.
Qed.

Section Grow.
Variables (M TH PG OV : N).
Hypothesis TH_ge : 2 <= TH.
Hypothesis PG_pos : 0 < PG.
Hypothesis PG_le : PG <= 1048576.
Hypothesis OV_lt : OV < PG.
Hypothesis M_le : M <= 1048576.

Lemma next_buf_size_ok req :
  1 <= req -> req <= 1073741824 ->
  req <= next_buf_size M TH PG OV req /\ next_buf_size M TH PG OV req < 2147483648.
Proof.
  intros H1 H2. unfold next_buf_size.
  destruct (req <? TH) eqn:E; [lia|]. apply N.ltb_ge in E.
  assert (X : u32 ((req - 1) * 2) = (req - 1) * 2) by (unfold u32; apply N.mod_small; lia).
  rewrite X.
  destruct (npot_bounds ((req - 1) * 2)) as [B1 B2]; try lia.
  destruct (npot ((req - 1) * 2) <? PG - OV) eqn:E2.
  - apply N.ltb_lt in E2. lia.
  - assert (U1 : u32 (req + OV) = req + OV) by (unfold u32; apply N.mod_small; lia).
    rewrite U1.
    pose proof (N.mul_succ_div_gt (req + OV) PG ltac:(lia)) as D.
    pose proof (N.mul_div_le (req + OV) PG ltac:(lia)) as D2.
    set (q := (req + OV) / PG) in *.
    assert (U2 : u32 ((q + 1) * PG) = (q + 1) * PG) by (unfold u32; apply N.mod_small; nia).
    rewrite U2.
    assert (U3 : u32 ((q + 1) * PG + 4294967296 - OV) = (q + 1) * PG - OV).
    { unfold u32. replace ((q + 1) * PG + 4294967296 - OV) with (((q + 1) * PG - OV) + 1 * 4294967296) by nia.
      rewrite N.mod_add by discriminate. apply N.mod_small. nia. }
    rewrite U3. nia.
Qed.

End Grow.

(* the doubling wraps for requests above 2^30: the size computed for 2^30+2 bytes is 0 *)
Example next_buf_size_wraps : next_buf_size 15 32 4096 12 1073741826 = 0.
Proof. vm_compute. reflexivity. Qed.
