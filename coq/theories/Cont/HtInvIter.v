(* C09 -- [WF] and the iterator objects: unregistering / destroying, registering, advancing. *)
From Coq Require Import List Arith ZArith NArith PArith Bool Lia FMapPositive Permutation.
From Muscle Require Import Cont.HtModel Cont.HtStep Cont.HtLemmas Cont.HtRepr Cont.HtWalk Cont.HtIters
                           Cont.HtTable Cont.HtMoves Cont.HtPut Cont.HtInv.
Import ListNotations.

Lemma gett_sett_same : forall w t h, t < length (tabs w) -> gett (sett w t h) t = h.
Proof. intros. rewrite sett_as_put. apply gett_put_same. assumption. Qed.
Lemma gett_sett_other : forall w t u h, t <> u -> gett (sett w t h) u = gett w u.
Proof. intros. rewrite sett_as_put. apply gett_put_other. assumption. Qed.
Lemma gett_seti_w : forall w I t, gett (seti_w w I) t = gett w t.
Proof. reflexivity. Qed.

Lemma in_remove_nat : forall x y l, In y (remove_nat x l) <-> In y l /\ y <> x.
Proof.
  intros x y l. unfold remove_nat. rewrite filter_In. split.
  - intros [A B]. split; [exact A|]. apply negb_true_iff in B. apply Nat.eqb_neq in B. exact B.
  - intros [A B]. split; [exact A|]. apply negb_true_iff. apply Nat.eqb_neq. exact B.
Qed.

Lemma nodup_remove_nat : forall x l, NoDup l -> NoDup (remove_nat x l).
Proof. intros. unfold remove_nat. apply NoDup_filter. assumption. Qed.

(* the world after the iterator object in slot i has been destroyed *)
Definition del_world (w : world) (i : nat) : world :=
  let w1 := unregister w i in seti_w w1 (seti (its w1) i None).

Lemma tabs_unregister_len : forall w i, length (tabs (unregister w i)) = length (tabs w).
Proof.
  intros w i. unfold unregister. destruct (geti (its w) i) as [it|]; [|reflexivity].
  destruct (inoreg it); [reflexivity|]. destruct (iown it); [|reflexivity]. unfold sett. cbn. apply upd_nth_length.
Qed.

Lemma its_unregister : forall w i, its (unregister w i) = its w.
Proof.
  intros w i. unfold unregister. destruct (geti (its w) i) as [it|]; [|reflexivity].
  destruct (inoreg it); [reflexivity|]. destruct (iown it); reflexivity.
Qed.

Lemma geti_del : forall w i j, geti (its (del_world w i)) j = if Nat.eqb j i then None else geti (its w) j.
Proof.
  intros w i j. unfold del_world. cbn [its seti_w]. rewrite its_unregister.
  destruct (Nat.eqb j i) eqn:E.
  - apply Nat.eqb_eq in E; subst. unfold geti, seti, upd_nth. destruct (i <? length (its w)) eqn:El.
    + apply Nat.ltb_lt in El. fold (upd_nth (its w) i (@None iter)).
      replace (firstn i (its w) ++ None :: skipn (S i) (its w)) with (upd_nth (its w) i None) by (unfold upd_nth; apply Nat.ltb_lt in El; rewrite El; reflexivity).
      apply nth_upd_nth_same. exact El.
    + apply Nat.ltb_ge in El. apply nth_overflow. exact El.
  - apply Nat.eqb_neq in E. apply geti_seti_other. congruence.
Qed.

Lemma gett_del : forall w i t, WF w -> t < length (tabs w) ->
  gett (del_world w i) t =
    match geti (its w) i with
    | Some it => if inoreg it then gett w t
                 else match iown it with
                      | Some u => if Nat.eqb t u then with_ilist (gett w t) (remove_nat i (ilist (gett w t))) else gett w t
                      | None => gett w t
                      end
    | None => gett w t
    end.
Proof.
  intros w i t W Ht. unfold del_world. rewrite gett_seti_w. unfold unregister.
  destruct (geti (its w) i) as [it|] eqn:Hg; [|reflexivity].
  destruct (inoreg it); [reflexivity|]. destruct (iown it) as [u|] eqn:O; [|reflexivity].
  destruct (Nat.eqb t u) eqn:E.
  - apply Nat.eqb_eq in E; subst. apply gett_sett_same. exact Ht.
  - apply Nat.eqb_neq in E. apply gett_sett_other. congruence.
Qed.

Lemma WF_del : forall w i, WF w -> WF (del_world w i).
Proof.
  intros w i W. pose proof W as [WT WI]. constructor.
  - intros t Ht. unfold del_world in Ht. cbn [tabs seti_w] in Ht. rewrite tabs_unregister_len in Ht.
    rewrite (gett_del w i t W Ht). destruct (WT t Ht) as [HT Hnd Hreg Hown].
    assert (Base : forall il, (il = ilist (gett w t) /\ (forall it, geti (its w) i = Some it -> ~ In i (ilist (gett w t))))
                     \/ (il = remove_nat i (ilist (gett w t))) ->
                   TL t (with_ilist (gett w t) il) (its (del_world w i))).
    { intros il Hil. constructor.
      - destruct HT as (l & [L C D F K]). exists l. constructor; try assumption. apply (linked_ext _ _ l L); reflexivity.
      - cbn [ilist with_ilist]. destruct Hil as [[-> _]| ->]; [exact Hnd|apply nodup_remove_nat; exact Hnd].
      - cbn [ilist with_ilist]. intros j Hj.
        assert (Hj' : In j (ilist (gett w t)) /\ j <> i).
        { destruct Hil as [[-> Hni]| ->].
          - split; [exact Hj|]. intro; subst. destruct (Hreg i Hj) as (it & Hg & _). apply (Hni it Hg). exact Hj.
          - apply in_remove_nat. exact Hj. }
        destruct Hj' as [Hj1 Hj2]. destruct (Hreg j Hj1) as (it & Hg & O & R). exists it.
        rewrite geti_del. apply Nat.eqb_neq in Hj2. rewrite Hj2. auto.
      - cbn [ilist with_ilist]. intros j it Hg O. rewrite geti_del in Hg. destruct (Nat.eqb j i) eqn:E; [discriminate|].
        apply Nat.eqb_neq in E. destruct (Hown j it Hg O) as [A B]. split; [|exact B].
        intro R. destruct Hil as [[-> _]| ->]; [apply A; exact R|apply in_remove_nat; split; [apply A; exact R|exact E]]. }
    destruct (geti (its w) i) as [it|] eqn:Hg.
    + destruct (inoreg it) eqn:R.
      * replace (gett w t) with (with_ilist (gett w t) (ilist (gett w t))) at 1 by (destruct (gett w t); reflexivity).
        apply Base. left. split; [reflexivity|]. intros it' Hg' Hin. inversion Hg'; subst it'.
        destruct (Hreg i Hin) as (it2 & Hg2 & _ & R2). rewrite Hg in Hg2. inversion Hg2; subst. congruence.
      * destruct (iown it) as [u|] eqn:O.
        -- destruct (Nat.eqb t u) eqn:E.
           ++ apply Base. right. reflexivity.
           ++ replace (gett w t) with (with_ilist (gett w t) (ilist (gett w t))) at 1 by (destruct (gett w t); reflexivity).
              apply Base. left. split; [reflexivity|]. intros it' Hg' Hin. inversion Hg'; subst it'.
              destruct (Hreg i Hin) as (it2 & Hg2 & O2 & _). rewrite Hg in Hg2. inversion Hg2; subst.
              rewrite O in O2. inversion O2; subst. rewrite Nat.eqb_refl in E. discriminate.
        -- replace (gett w t) with (with_ilist (gett w t) (ilist (gett w t))) at 1 by (destruct (gett w t); reflexivity).
           apply Base. left. split; [reflexivity|]. intros it' Hg' Hin. inversion Hg'; subst it'.
           destruct (Hreg i Hin) as (it2 & Hg2 & O2 & _). rewrite Hg in Hg2. inversion Hg2; subst. congruence.
    + replace (gett w t) with (with_ilist (gett w t) (ilist (gett w t))) at 1 by (destruct (gett w t); reflexivity).
      apply Base. left. split; [reflexivity|]. intros it' Hg'. discriminate.
  - intros j it Hg. rewrite geti_del in Hg. destruct (Nat.eqb j i); [discriminate|].
    unfold del_world. cbn [tabs seti_w]. rewrite tabs_unregister_len. apply (WI j it Hg).
Qed.

(* ------------------------------------------------------------------ registering *)

Lemma seti_seti : forall (I : itab) i x y, seti (seti I i x) i y = seti I i y.
Proof.
  intros I i x y. unfold seti. apply (nth_ext _ _ None None).
  - rewrite !upd_nth_length. reflexivity.
  - intros n Hn. rewrite !upd_nth_length in Hn. destruct (Nat.eq_dec n i) as [->|Hni].
    + rewrite !nth_upd_nth_same; rewrite ?upd_nth_length; auto.
    + rewrite !nth_upd_nth_other by congruence. reflexivity.
Qed.

Lemma register_del : forall w i t c bw nr scr,
  register (unregister w i) i t c bw nr scr = register (del_world w i) i t c bw nr scr.
Proof.
  intros. unfold register, del_world. cbn [its seti_w tabs]. rewrite !seti_seti.
  destruct nr; [reflexivity|]. destruct c; reflexivity.
Qed.

Lemma WF_register : forall w i t c bw nr scr, WF w -> geti (its w) i = None -> i < length (its w) ->
  t < length (tabs w) -> (forall c0, c = Some c0 -> nr = false /\ live (gett w t) c0) ->
  WF (register w i t c bw nr scr).
Proof.
  intros w i t c bw nr scr W Hn Hi Ht Hc. pose proof W as [WT WI].
  assert (NotIn : forall u, u < length (tabs w) -> ~ In i (ilist (gett w u))).
  { intros u Hu Hin. destruct (tl_reg _ _ _ (WT u Hu) i Hin) as (it & Hg & _). congruence. }
  (* the unregistered form *)
  assert (Unreg : forall c', c' = None -> WF (seti_w w (seti (its w) i (Some (mkIter (Some t) c' bw true scr))))).
  { intros c' ->. constructor.
    - intros u Hu. cbn [tabs seti_w] in Hu. rewrite gett_seti_w. cbn [its seti_w].
      destruct (WT u Hu) as [HT Hnd Hreg Hown]. constructor; try assumption.
      + intros j Hj. destruct (Hreg j Hj) as (it & Hg & O & R). exists it. split; [|auto].
        rewrite geti_seti_other; [exact Hg|]. intro; subst. apply (NotIn u Hu Hj).
      + intros j it Hg O. destruct (Nat.eq_dec j i) as [->|Hji].
        * rewrite geti_seti_same in Hg by exact Hi. inversion Hg; subst it. cbn. split; [discriminate|intros; discriminate].
        * rewrite geti_seti_other in Hg by congruence. apply (Hown j it Hg O).
    - intros j it Hg. cbn [its seti_w] in Hg. cbn [tabs seti_w]. destruct (Nat.eq_dec j i) as [->|Hji].
      + rewrite geti_seti_same in Hg by exact Hi. inversion Hg; subst it. cbn. exact Ht.
      + rewrite geti_seti_other in Hg by congruence. apply (WI j it Hg). }
  unfold register. destruct nr; [apply Unreg|].
  - destruct c as [c0|]; [destruct (Hc c0 eq_refl); discriminate|reflexivity].
  - destruct c as [c0|]; [|apply Unreg; reflexivity].
    destruct (Hc c0 eq_refl) as [_ Lc].
    set (it0 := mkIter (Some t) (Some c0) bw false scr).
    set (w1 := seti_w w (seti (its w) i (Some it0))).
    constructor.
    + intros u Hu. unfold sett in Hu. cbn [tabs] in Hu. rewrite upd_nth_length in Hu. change (length (tabs w1)) with (length (tabs w)) in Hu.
      destruct (Nat.eq_dec u t) as [->|Hut].
      * rewrite gett_sett_same by exact Ht. change (gett w1 t) with (gett w t). change (its (sett w1 t _)) with (seti (its w) i (Some it0)).
        destruct (WT t Ht) as [HT Hnd Hreg Hown]. constructor.
        -- destruct HT as (l & [L C D F K]). exists l. constructor; try assumption. apply (linked_ext _ _ l L); reflexivity.
        -- cbn [ilist with_ilist]. constructor; [apply NotIn; exact Ht|exact Hnd].
        -- cbn [ilist with_ilist]. intros j [<-|Hj].
           ++ exists it0. rewrite geti_seti_same by exact Hi. auto.
           ++ destruct (Hreg j Hj) as (it & Hg & O & R). exists it. split; [|auto].
              rewrite geti_seti_other; [exact Hg|]. intro; subst. apply (NotIn t Ht Hj).
        -- cbn [ilist with_ilist]. intros j it Hg O. destruct (Nat.eq_dec j i) as [->|Hji].
           ++ rewrite geti_seti_same in Hg by exact Hi. inversion Hg; subst it. cbn. split; [intros; left; reflexivity|].
              intros c Hc'. inversion Hc'; subst. split; [reflexivity|exact Lc].
           ++ rewrite geti_seti_other in Hg by congruence. destruct (Hown j it Hg O) as [A B]. split; [intro R; right; apply A; exact R|exact B].
      * rewrite gett_sett_other by congruence. change (gett w1 u) with (gett w u). change (its (sett w1 t _)) with (seti (its w) i (Some it0)).
        destruct (WT u Hu) as [HT Hnd Hreg Hown]. constructor; try assumption.
        -- intros j Hj. destruct (Hreg j Hj) as (it & Hg & O & R). exists it. split; [|auto].
           rewrite geti_seti_other; [exact Hg|]. intro; subst. apply (NotIn u Hu Hj).
        -- intros j it Hg O. destruct (Nat.eq_dec j i) as [->|Hji].
           ++ rewrite geti_seti_same in Hg by exact Hi. inversion Hg; subst it. cbn in O. inversion O; subst. contradiction.
           ++ rewrite geti_seti_other in Hg by congruence. apply (Hown j it Hg O).
    + intros j it Hg. change (its (sett w1 t _)) with (seti (its w) i (Some it0)) in Hg.
      unfold sett. cbn [tabs]. rewrite upd_nth_length. change (length (tabs w1)) with (length (tabs w)).
      destruct (Nat.eq_dec j i) as [->|Hji].
      * rewrite geti_seti_same in Hg by exact Hi. inversion Hg; subst it. cbn. exact Ht.
      * rewrite geti_seti_other in Hg by congruence. apply (WI j it Hg).
Qed.

(* ------------------------------------------------------------------ updating one iterator in place *)

Lemma WF_iter_update : forall w i it it', WF w -> geti (its w) i = Some it ->
  iown it' = iown it -> inoreg it' = inoreg it ->
  (forall c, icookie it' = Some c -> inoreg it = false /\ exists t, iown it = Some t /\ live (gett w t) c) ->
  WF (seti_w w (seti (its w) i (Some it'))).
Proof.
  intros w i it it' W Hg Eo En Hc. pose proof W as [WT WI].
  pose proof (geti_some_lt _ _ _ Hg) as Hi. constructor.
  - intros u Hu. cbn [tabs seti_w] in Hu. rewrite gett_seti_w. cbn [its seti_w].
    destruct (WT u Hu) as [HT Hnd Hreg Hown]. constructor; try assumption.
    + intros j Hj. destruct (Hreg j Hj) as (it2 & Hg2 & O & R). destruct (Nat.eq_dec j i) as [->|Hji].
      * rewrite Hg in Hg2. inversion Hg2; subst it2. exists it'. rewrite geti_seti_same by exact Hi. split; [reflexivity|split; congruence].
      * exists it2. rewrite geti_seti_other by congruence. auto.
    + intros j it2 Hg2 O. destruct (Nat.eq_dec j i) as [->|Hji].
      * rewrite geti_seti_same in Hg2 by exact Hi. inversion Hg2; subst it2. rewrite Eo in O.
        destruct (Hown i it Hg O) as [A B]. split; [rewrite En; exact A|].
        intros c Hc'. destruct (Hc c Hc') as [R (t' & O' & L')]. rewrite En. split; [exact R|].
        rewrite O in O'. inversion O'; subst. exact L'.
      * rewrite geti_seti_other in Hg2 by congruence. apply (Hown j it2 Hg2 O).
  - intros j it2 Hg2. cbn [its seti_w] in Hg2. cbn [tabs seti_w]. destruct (Nat.eq_dec j i) as [->|Hji].
    + rewrite geti_seti_same in Hg2 by exact Hi. inversion Hg2; subst it2. rewrite Eo. pose proof (WI i it Hg) as P.
      destruct (iown it) as [t'|] eqn:O; [exact P|].
      destruct (icookie it') as [c|] eqn:Ec; [|reflexivity]. destruct (Hc c eq_refl) as [_ (t' & O' & _)]. discriminate.
    + rewrite geti_seti_other in Hg2 by congruence. apply (WI j it2 Hg2).
Qed.

(* a cookie reached by following a link from a safe cookie is safe *)
Lemma subseq_live : forall w t h c bw c', TL t h (its w) -> live h c -> subseq h (Some c) bw = Some c' -> live h c'.
Proof.
  intros w t h c bw c' HTL Lc Hs. destruct (tl_tinv _ _ _ HTL) as (l & T).
  pose proof (ti_dom _ _ T c Lc) as Hc.
  destruct (subseq_in_list h l c bw c' (ti_linked _ _ T) Hc Hs) as [Hin _].
  apply (lk_live _ _ (ti_linked _ _ T)). exact Hin.
Qed.

Lemma len_its_del : forall w i, length (its (del_world w i)) = length (its w).
Proof. intros. unfold del_world. cbn [its seti_w]. rewrite length_seti, its_unregister. reflexivity. Qed.

Lemma len_tabs_del : forall w i, length (tabs (del_world w i)) = length (tabs w).
Proof. intros. unfold del_world. cbn [tabs seti_w]. apply tabs_unregister_len. Qed.

Lemma gett_unreg_del : forall w i t, gett (unregister w i) t = gett (del_world w i) t.
Proof. reflexivity. Qed.

Lemma live_del : forall w i t c, WF w -> t < length (tabs w) -> (live (gett (del_world w i) t) c <-> live (gett w t) c).
Proof.
  intros w i t c W Ht. rewrite (gett_del w i t W Ht).
  destruct (geti (its w) i) as [it|]; [|tauto]. destruct (inoreg it); [tauto|].
  destruct (iown it); [|tauto]. destruct (Nat.eqb t n); [|tauto]. unfold live. rewrite getn_with_ilist. tauto.
Qed.

Lemma WF_cookie : forall w i it c, WF w -> geti (its w) i = Some it -> icookie it = Some c ->
  inoreg it = false /\ exists t, iown it = Some t /\ t < length (tabs w) /\ live (gett w t) c.
Proof.
  intros w i it c [WT WI] Hg Hc. pose proof (WI i it Hg) as P. destruct (iown it) as [t|] eqn:O; [|congruence].
  destruct (tl_own _ _ _ (WT t P) i it Hg O) as [_ B]. destruct (B c Hc) as [R L]. split; [exact R|].
  exists t. auto.
Qed.

Lemma WF_add_detached : forall w i bw nr scr, WF w -> geti (its w) i = None -> i < length (its w) ->
  WF (seti_w w (seti (its w) i (Some (mkIter None None bw nr scr)))).
Proof.
  intros w i bw nr scr [WT WI] Hn Hi. constructor.
  - intros u Hu. cbn [tabs seti_w] in Hu. rewrite gett_seti_w. cbn [its seti_w].
    destruct (WT u Hu) as [HT Hnd Hreg Hown]. constructor; try assumption.
    + intros j Hj. destruct (Hreg j Hj) as (it & Hg & O & R). exists it. split; [|auto].
      rewrite geti_seti_other; [exact Hg|]. intro; subst. congruence.
    + intros j it Hg O. destruct (Nat.eq_dec j i) as [->|Hji].
      * rewrite geti_seti_same in Hg by exact Hi. inversion Hg; subst it. discriminate.
      * rewrite geti_seti_other in Hg by congruence. apply (Hown j it Hg O).
  - intros j it Hg. cbn [its seti_w] in Hg. cbn [tabs seti_w]. destruct (Nat.eq_dec j i) as [->|Hji].
    + rewrite geti_seti_same in Hg by exact Hi. inversion Hg; subst it. reflexivity.
    + rewrite geti_seti_other in Hg by congruence. apply (WI j it Hg).
Qed.
