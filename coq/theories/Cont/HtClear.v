(* C09 -- the literal Clear loop (HtClearModel.v) has exactly the effect modelled by clear_tab: the same
   iterator table, the same head/tail/count/capacity/fresh counter/auto-sort flag/iterator list, and
   no node left (the node maps are compared extensionally: every lookup gives None). *)
From Coq Require Import List Arith ZArith NArith PArith Bool Lia FMapPositive.
From Muscle Require Import Cont.HtModel Cont.HtLemmas Cont.HtRepr Cont.HtWalk Cont.HtIters Cont.HtTable Cont.HtClearModel.
Import ListNotations.

Lemma tinv_with_ilist : forall h l il, tinv h l -> tinv (with_ilist h il) l.
Proof.
  intros h l il [L C D F K]. constructor; try assumption.
  apply (linked_ext h _ l L); reflexivity.
Qed.

Lemma clear_loop_spec : forall l h I, tinv h l -> ilist h = [] ->
  tinv (fst (clear_loop h I (length l))) [] /\ snd (clear_loop h I (length l)) = I /\
  cap (fst (clear_loop h I (length l))) = cap h /\ fresh (fst (clear_loop h I (length l))) = fresh h /\
  asort (fst (clear_loop h I (length l))) = asort h /\ ilist (fst (clear_loop h I (length l))) = [].
Proof.
  induction l as [|e l IH]; intros h I T Hil.
  - cbn [length clear_loop fst snd]. split; [exact T|split; [reflexivity|split; [reflexivity|split; [reflexivity|split; [reflexivity|exact Hil]]]]].
  - cbn [length clear_loop]. rewrite (lk_hd _ _ (ti_linked _ _ T)). cbn [head_opt].
    unfold remove_entry, remove_iter_entry.
    assert (Ep : patch_all h e I = I) by (unfold patch_all; rewrite Hil; reflexivity). rewrite Ep.
    destruct (tinv_remove_entry h [] l e T) as (T' & _ & _ & _ & _ & Ecap & Ef & Ea & Ei). cbn [app] in T'.
    set (h' := with_cnt (with_nodes (unlink h e) (PositiveMap.remove e (nodes (unlink h e)))) (cnt (unlink h e) - 1)) in *.
    destruct (IH h' I T' (eq_trans Ei Hil)) as (A & B & C & D & E & F).
    split; [exact A|split; [exact B|split; [congruence|split; [congruence|split; [congruence|exact F]]]]].
Qed.

(* the literal loop and the modelled effect agree *)
Theorem clear_literal_spec : forall dcap h I release l, tinv h l ->
  let a := clear_literal dcap h I release in
  let b := clear_tab dcap h I release in
  snd a = snd b /\ hd (fst a) = hd (fst b) /\ tl (fst a) = tl (fst b) /\ cnt (fst a) = cnt (fst b) /\
  cap (fst a) = cap (fst b) /\ fresh (fst a) = fresh (fst b) /\ asort (fst a) = asort (fst b) /\
  ilist (fst a) = ilist (fst b) /\ (forall y, getn (fst a) y = getn (fst b) y).
Proof.
  intros dcap h I release l T a b. unfold a, b, clear_literal, clear_tab.
  pose proof (tinv_with_ilist h l [] T) as T0.
  destruct (clear_loop_spec l (with_ilist h []) (detach_all h I) T0 eq_refl) as (A & B & C & D & E & F).
  rewrite (ti_cnt _ _ T).
  destruct (clear_loop (with_ilist h []) (detach_all h I) (length l)) as [h2 I2]. cbn [fst snd] in *.
  assert (N : forall y, getn h2 y = None).
  { intros y. destruct (getn h2 y) eqn:G; [|reflexivity]. exfalso. apply (ti_dom _ _ A y). unfold live. rewrite G. discriminate. }
  pose proof (lk_hd _ _ (ti_linked _ _ A)) as Hh. pose proof (lk_tl _ _ (ti_linked _ _ A)) as Ht. pose proof (ti_cnt _ _ A) as Hc.
  cbn in Hh, Ht, Hc.
  assert (G0 : forall y c f a il, getn (mkHt (PositiveMap.empty node) None None 0 c f a il) y = None).
  { intros. unfold getn. cbn [nodes]. apply PositiveMap.gempty. }
  destruct release; cbn [fst snd hd tl cnt cap fresh asort ilist with_cap];
    (split; [exact B|split; [exact Hh|split; [exact Ht|split; [exact Hc|split; [try reflexivity; exact C|split; [exact D|split; [exact E|split; [exact F|]]]]]]]]);
    intros y; rewrite G0; [unfold getn; cbn [nodes with_cap]; apply (N y)|apply N].
Qed.
