(* C09 -- the link-following functions of the model computed on the represented list, and the
   table invariant [tinv]. *)
From Coq Require Import List Arith ZArith NArith PArith Bool Lia FMapPositive.
From Muscle Require Import Cont.HtModel Cont.HtLemmas Cont.HtRepr.
Import ListNotations.

Definition kvf (h : ht) (e : positive) : Z * Z := match kv_of h e with Some kv => kv | None => (0%Z, 0%Z) end.
Definition keyf (h : ht) (e : positive) : Z := fst (kvf h e).
Definition valf (h : ht) (e : positive) : Z := snd (kvf h e).

Lemma kv_of_live : forall h e, live h e -> kv_of h e = Some (kvf h e).
Proof. intros h e L. unfold kvf, kv_of, live in *. destruct (getn h e); [reflexivity|congruence]. Qed.

Lemma kvf_same_data : forall h h', same_data h h' -> forall e, kvf h' e = kvf h e.
Proof. intros h h' [K _] e. unfold kvf. rewrite K. reflexivity. Qed.

(* ------------------------------------------------------------------ forward / backward walks *)

Lemma next_of_suffix : forall h l pre x suf, linked h l -> l = pre ++ x :: suf -> get_next h x = head_opt suf.
Proof.
  intros h l pre x suf L ->. rewrite (lk_next _ _ L) by (apply in_or_app; right; left; reflexivity).
  apply next_in_mid. apply (nodup_split_notin _ _ _ (lk_nodup _ _ L)).
Qed.

Lemma prev_of_prefix : forall h l pre x suf, linked h l -> l = pre ++ x :: suf -> get_prev h x = last_of pre.
Proof.
  intros h l pre x suf L ->. rewrite (lk_prev _ _ L) by (apply in_or_app; right; left; reflexivity).
  apply prev_in_mid. apply (nodup_split_notin _ _ _ (lk_nodup _ _ L)).
Qed.

Lemma walk_suffix : forall h l, linked h l -> forall n pre suf, l = pre ++ suf ->
  walk h (head_opt suf) n = firstn n suf.
Proof.
  intros h l L. induction n as [|n IH]; intros pre suf E; [reflexivity|].
  destruct suf as [|x suf']; [reflexivity|]. cbn [head_opt walk firstn]. f_equal.
  rewrite (next_of_suffix h l pre x suf' L E). apply (IH (pre ++ [x])). rewrite <- app_assoc. exact E.
Qed.

Lemma walk_all : forall h l, linked h l -> walk h (hd h) (length l) = l.
Proof.
  intros h l L. rewrite (lk_hd _ _ L). rewrite (walk_suffix h l L (length l) [] l eq_refl). apply firstn_all.
Qed.

Lemma walk_back_prefix : forall h l, linked h l -> forall n pre suf, l = pre ++ suf ->
  walk_back h (last_of pre) n = firstn n (rev pre).
Proof.
  intros h l L. induction n as [|n IH]; intros pre suf E; [reflexivity|].
  destruct (last_of pre) as [x|] eqn:EL.
  - destruct (last_of_split _ _ _ EL) as [pre' ->]. rewrite rev_app_distr. cbn [rev app walk_back firstn]. f_equal.
    rewrite <- app_assoc in E. cbn [app] in E.
    rewrite (prev_of_prefix h l pre' x suf L E). apply (IH pre' (x :: suf)). exact E.
  - apply last_of_none in EL. subst pre. reflexivity.
Qed.

Lemma walk_back_all : forall h l, linked h l -> walk_back h (tl h) (length l) = rev l.
Proof.
  intros h l L. rewrite (lk_tl _ _ L).
  rewrite (walk_back_prefix h l L (length l) l [] (eq_sym (app_nil_r l))).
  rewrite <- rev_length. apply firstn_all.
Qed.

(* ------------------------------------------------------------------ stepping *)

Lemma nth_next_suffix : forall h l, linked h l -> forall s pre suf, l = pre ++ suf ->
  nth_next h (head_opt suf) s = head_opt (skipn s suf).
Proof.
  intros h l L. induction s as [|s IH]; intros pre suf E; [reflexivity|].
  destruct suf as [|x suf']; [reflexivity|]. cbn [head_opt nth_next skipn].
  rewrite (next_of_suffix h l pre x suf' L E). apply (IH (pre ++ [x])). rewrite <- app_assoc. exact E.
Qed.

Lemma nth_prev_prefix : forall h l, linked h l -> forall s pre suf, l = pre ++ suf ->
  nth_prev h (last_of pre) s = head_opt (skipn s (rev pre)).
Proof.
  intros h l L. induction s as [|s IH]; intros pre suf E.
  - cbn [nth_prev skipn]. reflexivity.
  - destruct (last_of pre) as [x|] eqn:EL.
    + destruct (last_of_split _ _ _ EL) as [pre' ->]. rewrite rev_app_distr. cbn [rev app nth_prev skipn].
      rewrite <- app_assoc in E. cbn [app] in E.
      rewrite (prev_of_prefix h l pre' x suf L E). apply (IH pre' (x :: suf)). exact E.
    + apply last_of_none in EL. subst pre. reflexivity.
Qed.

Lemma head_skipn_nth_error : forall A (l : list A) n, head_opt (skipn n l) = nth_error l n.
Proof. induction l as [|x l IH]; intros [|n]; cbn; auto. Qed.

Lemma nth_error_rev : forall A (l : list A) n, n < length l -> nth_error (rev l) n = nth_error l (length l - S n).
Proof.
  intros A l n H. destruct (nth_error l (length l - S n)) as [x|] eqn:E.
  - rewrite (nth_error_nth' _ x) by (rewrite rev_length; lia). rewrite rev_nth by lia.
    f_equal. apply nth_error_nth. exact E.
  - apply nth_error_None in E. lia.
Qed.

Lemma entry_at_linked : forall h l idx, linked h l -> cnt h = length l -> entry_at h idx = nth_error l idx.
Proof.
  intros h l idx L C. unfold entry_at. rewrite C. destruct (idx <? length l) eqn:E.
  - apply Nat.ltb_lt in E. destruct (idx <? length l / 2).
    + rewrite (lk_hd _ _ L). rewrite (nth_next_suffix h l L idx [] l eq_refl). apply head_skipn_nth_error.
    + rewrite (lk_tl _ _ L). rewrite (nth_prev_prefix h l L _ l [] (eq_sym (app_nil_r l))).
      rewrite head_skipn_nth_error. rewrite nth_error_rev by lia. f_equal. lia.
  - apply Nat.ltb_ge in E. symmetry. apply nth_error_None. exact E.
Qed.

(* ------------------------------------------------------------------ lookup *)

Fixpoint find_id (h : ht) (k : Z) (l : list positive) : option positive :=
  match l with
  | [] => None
  | e :: r => if Z.eqb (keyf h e) k then Some e else find_id h k r
  end.


Lemma keyf_live : forall h e n, getn h e = Some n -> keyf h e = nk n /\ valf h e = nv n.
Proof. intros h e n E. unfold keyf, valf, kvf, kv_of. rewrite E. split; reflexivity. Qed.

Lemma find_from_suffix : forall h l k, linked h l -> forall n pre suf, l = pre ++ suf ->
  find_from h k (head_opt suf) n = find_id h k (firstn n suf).
Proof.
  intros h l k L. induction n as [|n IH]; intros pre suf E; [reflexivity|].
  destruct suf as [|x suf']; [reflexivity|]. cbn [head_opt find_from firstn find_id].
  assert (Lx : live h x) by (apply (lk_live _ _ L); subst l; apply in_or_app; right; left; reflexivity).
  unfold live in Lx. destruct (getn h x) as [nd|] eqn:Ex; [|congruence].
  destruct (keyf_live _ _ _ Ex) as [-> _]. destruct (Z.eqb (nk nd) k); [reflexivity|].
  assert (En : nnext nd = get_next h x) by (unfold get_next; rewrite Ex; reflexivity).
  rewrite En, (next_of_suffix h l pre x suf' L E). apply (IH (pre ++ [x])). rewrite <- app_assoc. exact E.
Qed.

(* ------------------------------------------------------------------ the table invariant *)

Record tinv (h : ht) (l : list positive) : Prop := mkTinv {
  ti_linked : linked h l;
  ti_cnt : cnt h = length l;
  ti_dom : forall e, live h e -> In e l;
  ti_fresh : forall e, live h e -> (e < fresh h)%positive;
  ti_keys : NoDup (map (keyf h) l) }.

Lemma tinv_ids : forall h l, tinv h l -> ids h = l.
Proof. intros h l T. unfold ids. rewrite (ti_cnt _ _ T). apply walk_all. apply T. Qed.

Lemma kvs_of_live : forall h l, (forall e, In e l -> live h e) -> kvs_of h l = map (kvf h) l.
Proof.
  intros h l. induction l as [|x l IH]; intros H; [reflexivity|].
  unfold kvs_of in *. cbn [flat_map map]. rewrite kv_of_live by (apply H; left; reflexivity).
  cbn [app]. f_equal. apply IH. intros e He. apply H. right; exact He.
Qed.

Lemma tinv_abs : forall h l, tinv h l -> abs h = map (kvf h) l.
Proof. intros h l T. unfold abs. rewrite (tinv_ids h l T). apply kvs_of_live. apply (lk_live _ _ (ti_linked _ _ T)). Qed.

Lemma tinv_abs_back : forall h l, tinv h l -> abs_back h = rev (abs h).
Proof.
  intros h l T. rewrite (tinv_abs h l T). unfold abs_back. rewrite (ti_cnt _ _ T), (walk_back_all h l (ti_linked _ _ T)).
  rewrite kvs_of_live by (intros e He; apply (lk_live _ _ (ti_linked _ _ T)); apply in_rev; exact He).
  apply map_rev.
Qed.

Lemma tinv_find_key : forall h l k, tinv h l -> find_key h k = find_id h k l.
Proof.
  intros h l k T. unfold find_key. rewrite (ti_cnt _ _ T), (lk_hd _ _ (ti_linked _ _ T)).
  rewrite (find_from_suffix h l k (ti_linked _ _ T) (length l) [] l eq_refl). rewrite firstn_all. reflexivity.
Qed.

Lemma find_id_some : forall h k l e, find_id h k l = Some e -> In e l /\ keyf h e = k.
Proof.
  induction l as [|x l IH]; intros e H; cbn in H; [discriminate|].
  destruct (Z.eqb (keyf h x) k) eqn:E.
  - inversion H; subst. apply Z.eqb_eq in E. split; [left; reflexivity|exact E].
  - apply IH in H. destruct H. split; [right; assumption|assumption].
Qed.

Lemma find_id_none : forall h k l, find_id h k l = None -> forall e, In e l -> keyf h e <> k.
Proof.
  induction l as [|x l IH]; intros H e He; [destruct He|]. cbn in H.
  destruct (Z.eqb (keyf h x) k) eqn:E; [discriminate|]. apply Z.eqb_neq in E.
  destruct He as [->|He]; [exact E|apply IH; assumption].
Qed.

Lemma find_id_unique : forall h k l e, NoDup (map (keyf h) l) -> In e l -> keyf h e = k -> find_id h k l = Some e.
Proof.
  induction l as [|x l IH]; intros e Hnd He Hk; [destruct He|]. cbn. inversion Hnd as [|? ? Hx Hnd']; subst.
  destruct (Z.eqb (keyf h x) (keyf h e)) eqn:E.
  - apply Z.eqb_eq in E. destruct He as [->|He]; [reflexivity|].
    exfalso. apply Hx. rewrite E. apply in_map. exact He.
  - destruct He as [->|He]; [rewrite Z.eqb_refl in E; discriminate|]. apply IH; auto.
Qed.

Lemma find_id_split : forall h k l e, find_id h k l = Some e ->
  exists l1 l2, l = l1 ++ e :: l2 /\ (forall y, In y l1 -> keyf h y <> k).
Proof.
  induction l as [|x l IH]; intros e H; cbn in H; [discriminate|].
  destruct (Z.eqb (keyf h x) k) eqn:E.
  - inversion H; subst. exists [], l. split; [reflexivity|intros y []].
  - destruct (IH e H) as (l1 & l2 & -> & Hl1). exists (x :: l1), l2. split; [reflexivity|].
    intros y [->|Hy]; [apply Z.eqb_neq; exact E|apply Hl1; exact Hy].
Qed.

(* ------------------------------------------------------------------ ideal-map functions on map kvf l *)

Lemma a_get_map : forall h k l, a_get (map (kvf h) l) k = match find_id h k l with Some e => Some (valf h e) | None => None end.
Proof.
  induction l as [|x l IH]; [reflexivity|]. cbn [map a_get find_id]. unfold keyf, valf in *.
  destruct (kvf h x) as [kx vx] eqn:Ex. cbn [fst snd]. destruct (Z.eqb kx k); [rewrite Ex; reflexivity|exact IH].
Qed.

