(* C09 -- the purely semantic premise "no mutation changes the relative order of the surviving
   entries" is NOT sufficient for the no-skip theorem: PutAtFront on an OrderedValuesHashtable moves
   an existing entry twice (to its sorted place when the value is replaced, then to the front) and
   can leave the net order unchanged while an iterator has been pushed past the entry.  The witness
   is replayed on the implementation (corpus/C09.txt, last line). *)
From Coq Require Import List Arith ZArith NArith PArith Bool Lia FMapPositive.
From Muscle Require Import Cont.HtModel Cont.HtStep Cont.HtTravW Cont.HtTravOps Cont.HtTravSem Cont.HtTravThm.
Import ListNotations.

Section R.
Variable var : variant.
Variable dcap : N.

(* advances of iterator i interleaved with operations that do not operate on i and keep the
   relative order of the surviving entries of i's table *)
Fixpoint sem_ok (i : nat) (w : world) (ops : list op) : bool :=
  match ops with
  | [] => true
  | o :: r =>
    let w' := fst (step1 var dcap w o) in
    (match o with
     | OIterAdv j => Nat.eqb j i
     | _ => negb (touches i o) && order_keptb (it_list w i) (it_list w' i)
     end) && sem_ok i w' r
  end.

Fixpoint staysb (i : nat) (n : positive) (w : world) (ops : list op) : bool :=
  match ops with
  | [] => true
  | o :: r => memb n (it_list (fst (step1 var dcap w o)) i) && staysb i n (fst (step1 var dcap w o)) r
  end.

End R.

Lemma traversal_semantic_refuted :
  exists (w : world) (ops : list op) (n : positive),
    sem_ok VVals 7%N 0 w ops = true /\
    memb n (it_list w 0) = true /\ staysb VVals 7%N 0 n w ops = true /\
    shown (run1 VVals 7%N w ops) 0 = None /\
    memb n (opt_list (cur w 0) ++ trav VVals 7%N 0 w ops) = false.
Proof.
  exists (run1 VVals 7%N (init_world 7%N 1 1)
            [OPut 0 0%Z 0%Z; OPut 0 1%Z 1%Z; OPut 0 2%Z 2%Z; OIterNew 0 0 false; ORemove 0 0%Z]).
  exists [OPutAtFront 0 1%Z 5%Z; OIterAdv 0; OIterAdv 0].
  exists 2%positive.
  vm_compute. repeat split; reflexivity.
Qed.
