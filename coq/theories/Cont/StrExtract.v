(* Extraction of the String model for the correspondence run (ExtrOcamlBasic only). *)
From Coq Require Import ExtrOcamlBasic.
From Coq Require Extraction.
From Coq Require Import NArith List.
From Muscle Require Import Gen.Consts Cont.StrL0 Cont.StrModel Cont.StrSpec.
Definition c17_M : N := c_STRING_MAX_SHORT_LENGTH.
Definition c17_TH : N := c_string_small_growth_threshold.
Definition c17_PG : N := c_string_page_size.
Definition c17_OV : N := c_string_malloc_overhead.
Definition c17_SIZEOF : N := c_STRING_SIZEOF.
Definition c17_NOLIMIT : N := c_MUSCLE_NO_LIMIT.
Definition c17_MAXLEN : N := c_STRING_MAX_LENGTH.
Extraction "str_model.ml" step0 step1 empty1 abs slen cap is_long buf abs_out NOLIMIT
  c17_M c17_TH c17_PG c17_OV c17_SIZEOF c17_NOLIMIT c17_MAXLEN.
