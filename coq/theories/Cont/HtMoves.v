(* C09 -- preservation of the table-local invariant by the MoveTo*Aux family, Clear, EnsureSize. *)
From Coq Require Import List Arith ZArith NArith PArith Bool Lia FMapPositive Permutation.
From Muscle Require Import Cont.HtModel Cont.HtLemmas Cont.HtRepr Cont.HtWalk Cont.HtIters Cont.HtTable.
Import ListNotations.

Definition okstep (t : nat) (I : itab) (r : ht * itab) : Prop := TL t (fst r) (snd r) /\ frame t I (snd r).

Lemma okstep_id : forall t h I, TL t h I -> okstep t I (h, I).
Proof. intros. split; [assumption|apply frame_refl]. Qed.

Lemma okstep_trans : forall t I h1 I1 r, okstep t I (h1, I1) -> okstep t I1 r -> okstep t I r.
Proof. intros t I h1 I1 r [_ F1] [T2 F2]. split; [exact T2|eapply frame_trans; eassumption]. Qed.

Definition opt_in (o : option positive) (l : list positive) : Prop := o = None \/ exists b, o = Some b /\ In b l.

Lemma opt_in_rest : forall o l1 l2 e, NoDup (l1 ++ e :: l2) -> opt_in o (l1 ++ l2) ->
  o = None \/ exists b, o = Some b /\ In b (l1 ++ e :: l2) /\ b <> e.
Proof.
  intros o l1 l2 e Hnd [->|(b & -> & Hb)]; [left; reflexivity|right]. exists b. split; [reflexivity|].
  destruct (nodup_split_notin _ _ _ Hnd) as [H1 H2]. split.
  - apply in_app_or in Hb. apply in_or_app. destruct Hb; [left|right; right]; assumption.
  - intro; subst. apply in_app_or in Hb. tauto.
Qed.

Lemma opt_in_last : forall (l : list positive), opt_in (last_of l) l.
Proof. intros l. destruct (last_of l) eqn:E; [right; eexists; split; [reflexivity|apply last_of_in; exact E]|left; reflexivity]. Qed.

Lemma opt_in_head : forall (l : list positive), opt_in (head_opt l) l.
Proof. intros [|x l]; [left; reflexivity|right; exists x; split; [reflexivity|left; reflexivity]]. Qed.

Lemma opt_in_head_skipn : forall (l : list positive) n, opt_in (head_opt (skipn n l)) l.
Proof.
  intros l n. rewrite head_skipn_nth_error. destruct (nth_error l n) eqn:E; [right|left; reflexivity].
  eexists; split; [reflexivity|eapply nth_error_In; eassumption].
Qed.

Lemma opt_in_prev : forall h l f, linked h l -> In f l -> opt_in (get_prev h f) l.
Proof.
  intros h l f L Hf. rewrite (lk_prev _ _ L) by exact Hf. destruct (prev_in l f) eqn:E; [right|left; reflexivity].
  eexists; split; [reflexivity|]. apply prev_in_in in E. tauto.
Qed.

Lemma opt_in_next : forall h l f, linked h l -> In f l -> opt_in (get_next h f) l.
Proof.
  intros h l f L Hf. rewrite (lk_next _ _ L) by exact Hf. destruct (next_in l f) eqn:E; [right|left; reflexivity].
  eexists; split; [reflexivity|]. apply next_in_in in E. tauto.
Qed.

Section Moves.
Variable t : nat.

Lemma move_generic : forall h I e l behind, TL t h I -> tinv h l -> In e l ->
  (forall l1 l2, l = l1 ++ e :: l2 -> linked (unlink h e) (l1 ++ l2) -> opt_in behind (l1 ++ l2)) ->
  okstep t I (insert_iter_entry (unlink h e) e behind, patch_all h e I).
Proof.
  intros h I e l behind HTL T He Hb.
  destruct (in_split _ _ He) as (l1 & l2 & El).
  pose proof (lk_nodup _ _ (ti_linked _ _ T)) as Hnd. rewrite El in Hnd.
  assert (L1 : linked (unlink h e) (l1 ++ l2)).
  { rewrite El in T. apply (unlink_linked h l1 l2 e (ti_linked _ _ T)). }
  pose proof (move_TL t h I e behind l HTL T He) as M. unfold remove_iter_entry in M.
  unfold okstep. cbn [fst snd]. apply M. rewrite El. apply opt_in_rest; [exact Hnd|]. apply (Hb l1 l2 El L1).
Qed.

Lemma move_front_ok : forall h I e l, TL t h I -> tinv h l -> In e l -> okstep t I (move_front_aux h I e).
Proof.
  intros h I e l HTL T He. unfold move_front_aux. destruct (get_prev h e); [|apply okstep_id; exact HTL].
  unfold remove_iter_entry. apply (move_generic h I e l None HTL T He). intros. left; reflexivity.
Qed.

Lemma move_back_ok : forall h I e l, TL t h I -> tinv h l -> In e l -> okstep t I (move_back_aux h I e).
Proof.
  intros h I e l HTL T He. unfold move_back_aux. destruct (get_next h e); [|apply okstep_id; exact HTL].
  unfold remove_iter_entry. apply (move_generic h I e l _ HTL T He).
  intros l1 l2 El L1. rewrite (lk_tl _ _ L1). apply opt_in_last.
Qed.

Lemma move_before_ok : forall h I e f l, TL t h I -> tinv h l -> In e l -> In f l -> f <> e ->
  okstep t I (move_before_aux h I e f).
Proof.
  intros h I e f l HTL T He Hf Hfe. unfold move_before_aux.
  destruct (opt_pos_eqb (get_next h e) (Some f)); [apply okstep_id; exact HTL|].
  unfold remove_iter_entry. apply (move_generic h I e l _ HTL T He).
  intros l1 l2 El L1. apply (opt_in_prev _ _ f L1).
  rewrite El in Hf. apply in_app_or in Hf. apply in_or_app. destruct Hf as [Hf|[Hf|Hf]]; [left; exact Hf|congruence|right; exact Hf].
Qed.

Lemma move_behind_ok : forall h I e d l, TL t h I -> tinv h l -> In e l -> In d l -> d <> e ->
  okstep t I (move_behind_aux h I e d).
Proof.
  intros h I e d l HTL T He Hd Hde. unfold move_behind_aux.
  destruct (opt_pos_eqb (get_prev h e) (Some d)); [apply okstep_id; exact HTL|].
  unfold remove_iter_entry. apply (move_generic h I e l _ HTL T He).
  intros l1 l2 El L1. right. exists d. split; [reflexivity|].
  rewrite El in Hd. apply in_app_or in Hd. apply in_or_app. destruct Hd as [Hd|[Hd|Hd]]; [left; exact Hd|congruence|right; exact Hd].
Qed.

Lemma move_pos_ok : forall h I e idx l, TL t h I -> tinv h l -> In e l -> okstep t I (move_pos_aux h I e idx).
Proof.
  intros h I e idx l HTL T He. unfold move_pos_aux.
  destruct (idx =? 0); [eapply move_front_ok; eassumption|].
  destruct (cnt h <=? idx); [eapply move_back_ok; eassumption|].
  destruct (opt_pos_eqb (entry_at h idx) (Some e)); [apply okstep_id; exact HTL|].
  unfold remove_iter_entry. apply (move_generic h I e l _ HTL T He).
  intros l1 l2 El L1. destruct (idx <? cnt h / 2).
  - rewrite (lk_hd _ _ L1). rewrite (nth_next_suffix _ _ L1 _ [] (l1 ++ l2) eq_refl). apply opt_in_head_skipn.
  - rewrite (lk_tl _ _ L1). rewrite (nth_prev_prefix _ _ L1 _ (l1 ++ l2) [] (eq_sym (app_nil_r _))).
    destruct (opt_in_head_skipn (rev (l1 ++ l2)) (cnt h - 1 - idx)) as [E|(b & E & Hb)]; [left; exact E|right].
    exists b. split; [exact E|apply in_rev; exact Hb].
Qed.

(* ------------------------------------------------------------------ Clear *)

Lemma tinv_empty : forall c f a il, tinv (mkHt (PositiveMap.empty node) None None 0 c f a il) [].
Proof.
  intros. constructor.
  - constructor; try reflexivity; try constructor; intros e [].
  - reflexivity.
  - intros e H. exfalso. apply H. unfold getn. cbn. apply PositiveMap.gempty.
  - intros e H. exfalso. apply H. unfold getn. cbn. apply PositiveMap.gempty.
  - constructor.
Qed.

Lemma not_live_empty : forall c f a il e, ~ live (mkHt (PositiveMap.empty node) None None 0 c f a il) e.
Proof. intros. intro H. apply H. unfold getn. cbn. apply PositiveMap.gempty. Qed.

Lemma detach_iter_own : forall h it, iown (detach_iter h it) = None /\ icookie (detach_iter h it) = None.
Proof. intros. split; reflexivity. Qed.

Lemma clear_ok : forall dcap h I release, TL t h I -> okstep t I (clear_tab dcap h I release).
Proof.
  intros dcap h I release [HT Hnd Hreg Hown]. unfold clear_tab, okstep. cbn [fst snd]. rewrite detach_all_eq.
  assert (Fr : frame t I (map_its (detach_iter h) (ilist h) I)).
  { apply frame_map_its; [exact Hnd| |].
    - intros i it Hi Hg. destruct (Hreg i Hi) as (it0 & Hg0 & O & _). congruence.
    - intros it O. right. apply detach_iter_own. }
  split; [|exact Fr]. constructor.
  - exists []. apply tinv_empty.
  - constructor.
  - intros i [].
  - cbn [ilist]. intros i it' Hg' O'.
    destruct (in_dec Nat.eq_dec i (ilist h)) as [Hin|Hn].
    + rewrite map_its_in in Hg' by assumption. destruct (geti I i) as [it|]; [|discriminate].
      cbn in Hg'. inversion Hg'; subst. cbn in O'. discriminate.
    + rewrite map_its_notin in Hg' by assumption. destruct (Hown i it' Hg' O') as [HR HC]. split.
      * intro R. exfalso. apply Hn. apply HR. exact R.
      * intros c Hc. destruct (HC c Hc) as [R _]. exfalso. apply Hn. apply HR. exact R.
Qed.

(* ------------------------------------------------------------------ EnsureSize *)

Lemma tinv_with_cap : forall h l c, tinv h l -> tinv (with_cap h c) l.
Proof.
  intros h l c [L C D F K]. constructor; try assumption.
  apply (linked_ext h _ l L); reflexivity.
Qed.

Lemma TL_with_cap : forall h I c, TL t h I -> TL t (with_cap h c) I.
Proof.
  intros h I c HTL. apply (TL_same_I t h); try assumption; try reflexivity.
  - destruct (tl_tinv _ _ _ HTL) as (l & T). exists l. apply tinv_with_cap. exact T.
  - intros; assumption.
Qed.

Lemma ensure_size_ok : forall dcap h I req shrink, TL t h I ->
  okstep t I (fst (ensure_size dcap h I req shrink)).
Proof.
  intros dcap h I req shrink HTL. unfold ensure_size.
  destruct (N.eqb _ (cap h)); [apply okstep_id; exact HTL|].
  destruct (N.eqb _ 0).
  - pose proof (clear_ok dcap h I true HTL) as C. destruct (clear_tab dcap h I true). exact C.
  - destruct (N.eqb _ 4294967295); [apply okstep_id; exact HTL|].
    cbn [fst]. apply okstep_id. apply TL_with_cap. exact HTL.
Qed.

End Moves.
