(* C09 -- traversal theory: every calm operation (one that does not relink surviving entries) is in
   the calm relation for every registered iterator it does not itself operate on. *)
From Coq Require Import List Arith ZArith NArith PArith Bool Lia FMapPositive Permutation.
From Muscle Require Import Cont.HtModel Cont.HtStep Cont.HtIdeal Cont.HtLemmas Cont.HtRepr Cont.HtWalk Cont.HtIters
                           Cont.HtTable Cont.HtMoves Cont.HtPut Cont.HtExact Cont.HtPend Cont.HtTrav Cont.HtRefTab
                           Cont.HtInv Cont.HtInvIter Cont.HtSafe Cont.HtSwap Cont.HtSafeAll Cont.HtTravW.
Import ListNotations.

Definition touches (i : nat) (o : op) : bool :=
  match o with
  | OIterNew j _ _ | OIterAt j _ _ _ | OIterAdv j | OIterRet j | OIterSetBw j _ | OIterDel j | OIterCopy j _ => Nat.eqb j i
  | _ => false
  end.

Section Calm.
Variable var : variant.
Variable dcap : N.

Definition put_calm (w : world) (t : nat) (k : Z) : Prop :=
  var = VPlain \/ find_key (ensure_allocated dcap (gett w t)) k = None.

(* operations that may relink a surviving entry are calm only when they change nothing *)
Definition calm (w : world) (o : op) : Prop :=
  match o with
  | OPut t k _ => put_calm w t k
  | OMoveToTable _ u k | OCopyToTable _ u k => put_calm w u k
  | OPutAtFront _ _ _ | OPutAtBack _ _ _ | OPutBefore _ _ _ _ | OPutBehind _ _ _ _ | OPutAtPos _ _ _ _
  | OMoveFront _ _ | OMoveBack _ _ | OMoveBefore _ _ _ | OMoveBehind _ _ _ | OMovePos _ _ _
  | OGetMoveFront _ _ | OGetMoveBack _ _ | OSortKey _ | OSortVal _ | OSort _ | OReposition _ _
  | OSetAutoSort _ _ _ => fst (step1 var dcap w o) = w
  | OCopyFrom _ _ cf => cf = true \/ fst (step1 var dcap w o) = w
  | OCopyCtor _ _ => True
  | _ => True
  end.

Lemma tstep_calm : forall w t r i, WF w -> t < length (tabs w) -> okstep t (its w) r ->
  tscalm t (gett w t) (its w) (fst r) (snd r) -> reg w i ->
  calm_rel w (put_ti w t (fst r) (snd r)) i /\ reg (put_ti w t (fst r) (snd r)) i.
Proof.
  intros w t r i W Ht [_ F] S R. split; [apply calm_of_tstep; assumption|apply reg_of_tstep; assumption].
Qed.

Lemma find_key_ensure_allocated : forall h k, find_key (ensure_allocated dcap h) k = find_key h k.
Proof. intros. unfold ensure_allocated. destruct (N.eqb (cap h) 0); [apply find_key_with_cap|reflexivity]. Qed.

Lemma ids_empty : forall c f a il, ids (mkHt (PositiveMap.empty node) None None 0 c f a il) = [].
Proof. reflexivity. Qed.

(* iterator operations on other slots only touch registration lists *)
Lemma ids_unregister : forall w j t, ids (gett (unregister w j) t) = ids (gett w t) /\ fresh (gett (unregister w j) t) = fresh (gett w t).
Proof.
  intros w j t. unfold unregister. destruct (geti (its w) j) as [it|]; [|auto]. destruct (inoreg it); [auto|].
  destruct (iown it) as [u|]; [|auto]. destruct (Nat.eq_dec u t) as [->|Hut].
  - destruct (Nat.lt_ge_cases t (length (tabs w))) as [Ht|Ht].
    + rewrite gett_sett_same by exact Ht. split; [apply ids_congr; reflexivity|reflexivity].
    + unfold sett, gett. cbn. unfold upd_nth. apply Nat.ltb_ge in Ht. rewrite Ht. auto.
  - rewrite gett_sett_other by exact Hut. auto.
Qed.

Lemma ids_register : forall w j t c bw nr scr u, ids (gett (register w j t c bw nr scr) u) = ids (gett w u) /\
  fresh (gett (register w j t c bw nr scr) u) = fresh (gett w u).
Proof.
  intros. unfold register. destruct nr; [auto|]. destruct c; [|auto].
  destruct (Nat.eq_dec t u) as [->|Htu].
  - destruct (Nat.lt_ge_cases u (length (tabs w))) as [Hu|Hu].
    + rewrite gett_sett_same by exact Hu. split; [apply ids_congr; reflexivity|reflexivity].
    + unfold sett, gett. cbn. unfold upd_nth. apply Nat.ltb_ge in Hu. rewrite Hu. auto.
  - rewrite gett_sett_other by exact Htu. auto.
Qed.

Lemma geti_register_other : forall w j t c bw nr scr i, i <> j -> geti (its (register w j t c bw nr scr)) i = geti (its w) i.
Proof.
  intros. unfold register. destruct nr; [cbn; apply geti_seti_other; congruence|].
  destruct c; cbn; apply geti_seti_other; congruence.
Qed.

Lemma calm_same_records : forall w w' i, geti (its w') i = geti (its w) i ->
  (forall t, ids (gett w' t) = ids (gett w t) /\ fresh (gett w' t) = fresh (gett w t)) -> reg w i ->
  calm_rel w w' i /\ reg w' i.
Proof.
  intros w w' i Hg Ht (it & Hgi & R). split; [apply calm_rel_same; [exact Hg|intros; apply Ht]|].
  exists it. rewrite Hg. auto.
Qed.

Lemma copy_from_detaches : forall t h I src srccap, TL t h I -> NoDup (map fst src) ->
  forall j it, geti I j = Some it -> iown it = Some t -> inoreg it = false ->
    exists it', geti (snd (fst (copy_from var dcap h I src srccap true))) j = Some it' /\ iown it' = None /\ inoreg it' = false.
Proof.
  intros t h I src srccap HTL Hnd j it Hg O R. unfold copy_from.
  pose proof (clear_detaches t dcap h I ((length src =? 0) && (dcap <? cap h)%N) HTL j it Hg O R) as (it' & Hg' & O' & R').
  pose proof (clear_ok t dcap h I ((length src =? 0) && (dcap <? cap h)%N) HTL) as C.
  destruct (clear_tab dcap h I ((length src =? 0) && (dcap <? cap h)%N)) as [h1 I1]. cbn [fst snd] in *. destruct C as [HTL1 _].
  destruct src as [|kv src']; [exists it'; auto|].
  pose proof (ensure_size_ok t dcap h1 I1 (N.of_nat (cnt h1 + length (kv :: src'))) false HTL1) as [_ F2].
  destruct (ensure_size dcap h1 I1 _ false) as [[h2 I2] st]. cbn [fst snd] in *.
  exists it'. split; [|auto]. destruct (st =? 0); cbn [fst snd]; apply (detached_through_frame t I1 I2 j it' F2 Hg' O').
Qed.

Ltac vt W :=
  match goal with
  | |- context [valid_t ?w ?t && valid_t ?w ?u] =>
      destruct (valid_t w t) eqn:?V1; [apply valid_t_lt in V1|cbn [andb fst]; split; [apply calm_rel_refl|assumption]];
      destruct (valid_t w u) eqn:?V2; [apply valid_t_lt in V2|cbn [andb fst]; split; [apply calm_rel_refl|assumption]]; cbn [andb]
  | |- context [valid_t ?w ?t] => destruct (valid_t w t) eqn:?V1; [apply valid_t_lt in V1|cbn [fst]; split; [apply calm_rel_refl|assumption]]
  end.

Lemma calm_step : forall w o i, WF w -> calm w o -> touches i o = false -> reg w i ->
  calm_rel w (fst (step1 var dcap w o)) i /\ reg (fst (step1 var dcap w o)) i.
Proof.
  intros w o i W Hc Ht R. pose proof (wf_tabs _ W) as WT.
  assert (Same : calm_rel w w i /\ reg w i) by (split; [apply calm_rel_refl|exact R]).
  destruct o; cbn [calm] in Hc; try (rewrite Hc; exact Same); cbn [step1]; try exact Same.
  - (* Put *) vt W. rewrite (put_aux_split var dcap (gett w t)). cbn [fst].
    apply (tstep_calm w t (pa_h _, pa_i _) i W V1 (proj1 (put_aux_ok var dcap t _ _ k v (WT t V1)))); [|exact R].
    apply tscalm_put_aux; [apply WT; exact V1|exact Hc].
  - (* PutIfAbsent *) vt W. destruct (find_key (gett w t) k) eqn:Ef; [exact Same|].
    rewrite (put_aux_split var dcap (gett w t)). cbn [fst].
    apply (tstep_calm w t (pa_h _, pa_i _) i W V1 (proj1 (put_aux_ok var dcap t _ _ k v (WT t V1)))); [|exact R].
    apply tscalm_put_aux; [apply WT; exact V1|right; rewrite find_key_ensure_allocated; exact Ef].
  - (* GetOrPut *) vt W. destruct (find_key (gett w t) k) eqn:Ef; [exact Same|].
    rewrite (put_aux_split var dcap (gett w t)). cbn [fst].
    apply (tstep_calm w t (pa_h _, pa_i _) i W V1 (proj1 (put_aux_ok var dcap t _ _ k v (WT t V1)))); [|exact R].
    apply tscalm_put_aux; [apply WT; exact V1|right; rewrite find_key_ensure_allocated; exact Ef].
  - (* Remove *) vt W. destruct (find_key (gett w t) k) as [e|] eqn:Ef; [|exact Same].
    destruct (tl_tinv _ _ _ (WT t V1)) as (l & T). destruct (find_key_split _ l k e T Ef) as (l1 & l2 & -> & _).
    assert (Le : live (gett w t) e) by (apply (lk_live _ _ (ti_linked _ _ T)); apply in_or_app; right; left; reflexivity).
    pose proof (remove_entry_TL t _ _ e (WT t V1) Le) as O. pose proof (tscalm_remove_entry t _ _ e l1 l2 (WT t V1) T) as S.
    destruct (remove_entry (gett w t) (its w) e) as [h1 I1]. cbn [fst snd] in *.
    apply (tstep_calm w t (h1, I1) i W V1 O S R).
  - (* RemoveFirst *) vt W. destruct (hd (gett w t)) as [e|] eqn:Eh; [|exact Same].
    destruct (tl_tinv _ _ _ (WT t V1)) as (l & T).
    assert (He : In e l) by (apply head_opt_in; rewrite <- (lk_hd _ _ (ti_linked _ _ T)); exact Eh).
    destruct (in_split _ _ He) as (l1 & l2 & ->).
    pose proof (remove_entry_TL t _ _ e (WT t V1) (lk_live _ _ (ti_linked _ _ T) e He)) as O.
    pose proof (tscalm_remove_entry t _ _ e l1 l2 (WT t V1) T) as S.
    destruct (remove_entry (gett w t) (its w) e) as [h1 I1]. cbn [fst snd] in *.
    apply (tstep_calm w t (h1, I1) i W V1 O S R).
  - (* RemoveLast *) vt W. destruct (tl (gett w t)) as [e|] eqn:Eh; [|exact Same].
    destruct (tl_tinv _ _ _ (WT t V1)) as (l & T).
    assert (He : In e l) by (apply last_of_in; rewrite <- (lk_tl _ _ (ti_linked _ _ T)); exact Eh).
    destruct (in_split _ _ He) as (l1 & l2 & ->).
    pose proof (remove_entry_TL t _ _ e (WT t V1) (lk_live _ _ (ti_linked _ _ T) e He)) as O.
    pose proof (tscalm_remove_entry t _ _ e l1 l2 (WT t V1) T) as S.
    destruct (remove_entry (gett w t) (its w) e) as [h1 I1]. cbn [fst snd] in *.
    apply (tstep_calm w t (h1, I1) i W V1 O S R).
  - (* Ensure *) vt W. pose proof (ensure_size_ok t dcap _ _ n shrink (WT t V1)) as O.
    pose proof (tscalm_ensure_size t dcap _ _ n shrink (WT t V1)) as S.
    destruct (ensure_size dcap (gett w t) (its w) n shrink) as [[h1 I1] st]. cbn [fst snd] in *.
    apply (tstep_calm w t (h1, I1) i W V1 O S R).
  - (* ShrinkFit *) vt W. destruct (N.ltb _ _); [exact Same|].
    pose proof (ensure_size_ok t dcap _ _ (N.of_nat (cnt (gett w t)) + extra) true (WT t V1)) as O.
    pose proof (tscalm_ensure_size t dcap _ _ (N.of_nat (cnt (gett w t)) + extra) true (WT t V1)) as S.
    destruct (ensure_size dcap (gett w t) (its w) _ true) as [[h1 I1] st]. cbn [fst snd] in *.
    apply (tstep_calm w t (h1, I1) i W V1 O S R).
  - (* EnsureCanPut *) vt W. destruct (N.ltb _ _); [exact Same|].
    pose proof (ensure_size_ok t dcap _ _ (N.of_nat (cnt (gett w t)) + extra) false (WT t V1)) as O.
    pose proof (tscalm_ensure_size t dcap _ _ (N.of_nat (cnt (gett w t)) + extra) false (WT t V1)) as S.
    destruct (ensure_size dcap (gett w t) (its w) _ false) as [[h1 I1] st]. cbn [fst snd] in *.
    apply (tstep_calm w t (h1, I1) i W V1 O S R).
  - (* Clear *) vt W. pose proof (clear_ok t dcap _ _ release (WT t V1)) as O.
    pose proof (tscalm_clear t dcap _ _ release (WT t V1)) as S.
    destruct (clear_tab dcap (gett w t) (its w) release) as [h1 I1]. cbn [fst snd] in *.
    apply (tstep_calm w t (h1, I1) i W V1 O S R).
  - (* CopyFrom *) destruct Hc as [->|Hc]; [|cbn [step1] in Hc; rewrite Hc; exact Same]. vt W. destruct (t =? u); [exact Same|].
    assert (Hnd : NoDup (map fst (abs (gett w u)))).
    { destruct (tl_tinv _ _ _ (WT u V2)) as (l & T). rewrite (tinv_abs _ l T), map_map. apply (ti_keys _ _ T). }
    pose proof (copy_from_ok var dcap t _ _ (abs (gett w u)) (cap (gett w u)) true (WT t V1) Hnd) as [_ F].
    pose proof (copy_from_detaches t _ _ (abs (gett w u)) (cap (gett w u)) (WT t V1) Hnd) as D.
    destruct (copy_from var dcap (gett w t) (its w) (abs (gett w u)) (cap (gett w u)) true) as [[h1 I1] st]. cbn [fst snd] in *.
    apply (calm_of_detaching w t h1 I1 i W V1 F D R).
  - (* CopyCtor *) vt W. destruct (t =? u); [exact Same|].
    assert (Hnd : NoDup (map fst (abs (gett w u)))).
    { destruct (tl_tinv _ _ _ (WT u V2)) as (l & T). rewrite (tinv_abs _ l T), map_map. apply (ti_keys _ _ T). }
    pose proof (clear_ok t dcap _ _ true (WT t V1)) as O0. pose proof (clear_detaches t dcap _ _ true (WT t V1)) as D0.
    rewrite (surjective_pairing (clear_tab dcap (gett w t) (its w) true)).
    set (hold := fst (clear_tab dcap (gett w t) (its w) true)) in *. set (I0 := snd (clear_tab dcap (gett w t) (its w) true)) in *.
    destruct O0 as [HTL0 F0]. cbn [fst snd] in *.
    pose proof (fresh_table_TL t hold I0 (cap (gett w u)) true HTL0 eq_refl) as HTLn.
    pose proof (copy_from_ok var dcap t _ _ (abs (gett w u)) (cap (gett w u)) true HTLn Hnd) as [_ F1].
    destruct (copy_from var dcap _ I0 (abs (gett w u)) (cap (gett w u)) true) as [[h1 I1] st]. cbn [fst snd] in *.
    apply (calm_of_detaching w t h1 I1 i W V1 (frame_trans _ _ _ _ F0 F1)); [|exact R].
    intros j it Hg O Rg. destruct (D0 j it Hg O Rg) as (it' & Hg' & O' & R'). exists it'. split; [|auto].
    apply (detached_through_frame t I0 I1 j it' F1 Hg' O').
  - (* Swap *) vt W. destruct (t =? u) eqn:E; [exact Same|]. apply Nat.eqb_neq in E. cbn [fst].
    apply (calm_exchange w t u _ _ W V1 V2 E); [repeat split|repeat split|exact R].
  - (* Equal *) destruct (valid_t w t && valid_t w u); exact Same.
  - (* MoveToTable *) vt W. destruct (find_key (gett w t) k) as [e|] eqn:Ef; [|exact Same].
    destruct (t =? u) eqn:Etu; [exact Same|]. apply Nat.eqb_neq in Etu.
    destruct (val_of (gett w t) e) as [v|]; [|exact Same].
    rewrite (put_aux_split var dcap (gett w u)).
    pose proof (proj1 (put_aux_ok var dcap u _ _ k v (WT u V2))) as O1.
    pose proof (tscalm_put_aux var dcap u _ _ k v (WT u V2) Hc) as S1.
    set (hu := pa_h _) in *. set (I1 := pa_i _) in *.
    destruct (tstep_calm w u (hu, I1) i W V2 O1 S1 R) as [C1 R1]. cbn [fst snd] in C1, R1.
    pose proof (WF_okstep _ _ _ W V2 O1) as W1. cbn [fst snd] in W1.
    assert (Et : gett (put_ti w u hu I1) t = gett w t) by (apply gett_put_other; congruence).
    assert (V1' : t < length (tabs (put_ti w u hu I1))) by (rewrite len_put; exact V1).
    pose proof (wf_tabs _ W1 t V1') as HTLt. rewrite Et, its_put in HTLt.
    destruct (tl_tinv _ _ _ HTLt) as (l & T). destruct (find_key_split _ l k e T Ef) as (l1 & l2 & -> & _).
    assert (Le : live (gett w t) e) by (apply (lk_live _ _ (ti_linked _ _ T)); apply in_or_app; right; left; reflexivity).
    pose proof (remove_entry_TL t _ _ e HTLt Le) as O2. pose proof (tscalm_remove_entry t _ _ e l1 l2 HTLt T) as S2.
    destruct (remove_entry (gett w t) I1 e) as [ht1 I2]. cbn [fst snd] in *.
    assert (S2' : tscalm t (gett (put_ti w u hu I1) t) (its (put_ti w u hu I1)) ht1 I2) by (rewrite Et, its_put; exact S2).
    assert (O2' : okstep t (its (put_ti w u hu I1)) (ht1, I2)) by (rewrite its_put; exact O2).
    destruct (tstep_calm (put_ti w u hu I1) t (ht1, I2) i W1 V1' O2' S2' R1) as [C2 R2]. cbn [fst snd] in C2, R2.
    split; [eapply calm_rel_trans; [exact W|exact C1|exact C2]|exact R2].
  - (* CopyToTable *) vt W. destruct (find_key (gett w t) k) as [e|] eqn:Ef; [|exact Same].
    destruct (t =? u); [exact Same|]. destruct (val_of (gett w t) e) as [v|]; [|exact Same].
    rewrite (put_aux_split var dcap (gett w u)). cbn [fst].
    apply (tstep_calm w u (pa_h _, pa_i _) i W V2 (proj1 (put_aux_ok var dcap u _ _ k v (WT u V2)))); [|exact R].
    apply tscalm_put_aux; [apply WT; exact V2|exact Hc].
  - (* RemoveTable *) vt W. destruct (t =? u).
    + pose proof (clear_ok t dcap _ _ false (WT t V1)) as O. pose proof (tscalm_clear t dcap _ _ false (WT t V1)) as S.
      destruct (clear_tab dcap (gett w t) (its w) false) as [h1 I1]. cbn [fst snd] in *.
      apply (tstep_calm w t (h1, I1) i W V1 O S R).
    + pose proof (remove_keys_ok t (map fst (abs (gett w u))) _ _ (WT t V1)) as O.
      pose proof (tscalm_remove_keys t (map fst (abs (gett w u))) _ _ (WT t V1)) as S.
      destruct (remove_keys (gett w t) (its w) (map fst (abs (gett w u)))) as [[h1 I1] c]. cbn [fst snd] in *.
      apply (tstep_calm w t (h1, I1) i W V1 O S R).
  - (* Intersect *) vt W. destruct (t =? u); [exact Same|].
    pose proof (intersect_ids_ok t (abs (gett w u)) (ids (gett w t)) _ _ (WT t V1)) as O.
    pose proof (tscalm_intersect_ids t (abs (gett w u)) (ids (gett w t)) _ _ (WT t V1)) as S.
    destruct (intersect_ids (gett w t) (its w) (abs (gett w u)) (ids (gett w t))) as [[h1 I1] c]. cbn [fst snd] in *.
    apply (tstep_calm w t (h1, I1) i W V1 O S R).
  - (* Destroy *) vt W. pose proof (clear_ok t dcap _ _ true (WT t V1)) as O. pose proof (tscalm_clear t dcap _ _ true (WT t V1)) as S.
    rewrite (surjective_pairing (clear_tab dcap (gett w t) (its w) true)).
    set (hold := fst (clear_tab dcap (gett w t) (its w) true)) in *. set (I0 := snd (clear_tab dcap (gett w t) (its w) true)) in *.
    destruct O as [HTL0 F0]. cbn [fst snd] in *.
    apply (tstep_calm w t (mkHt (PositiveMap.empty node) None None 0 dcap (fresh hold) true [], I0) i W V1); [| |exact R].
    + split; [apply (fresh_table_TL t hold I0 dcap true HTL0 eq_refl)|exact F0].
    + cbn [fst snd]. eapply tscalm_trans; [apply WT; exact V1|apply frame_refl|exact S|]. apply tscalm_same; reflexivity.
  - (* MoveCtor *) vt W. destruct (t =? u) eqn:E; [exact Same|]. apply Nat.eqb_neq in E.
    (* first the destruction of tab[t], then the exchange *)
    pose proof (clear_ok t dcap _ _ true (WT t V1)) as O. pose proof (tscalm_clear t dcap _ _ true (WT t V1)) as S.
    rewrite (surjective_pairing (clear_tab dcap (gett w t) (its w) true)).
    set (hold := fst (clear_tab dcap (gett w t) (its w) true)) in *. set (J0 := snd (clear_tab dcap (gett w t) (its w) true)) in *.
    destruct O as [HTL0 F0]. cbn [fst snd] in *.
    set (a0 := mkHt (PositiveMap.empty node) None None 0 dcap (fresh hold) true []).
    assert (O0 : okstep t (its w) (a0, J0)) by (split; [apply (fresh_table_TL t hold J0 dcap true HTL0 eq_refl)|exact F0]).
    assert (S0 : tscalm t (gett w t) (its w) a0 J0).
    { eapply tscalm_trans; [apply WT; exact V1|apply frame_refl|exact S|]. apply tscalm_same; reflexivity. }
    destruct (tstep_calm w t (a0, J0) i W V1 O0 S0 R) as [C1 R1]. cbn [fst snd] in C1, R1.
    pose proof (WF_okstep _ _ _ W V1 O0) as W0. cbn [fst snd] in W0.
    set (w0 := put_ti w t a0 J0) in *.
    assert (V1' : t < length (tabs w0)) by (unfold w0; rewrite len_put; exact V1).
    assert (V2' : u < length (tabs w0)) by (unfold w0; rewrite len_put; exact V2).
    assert (Ga : gett w0 t = a0) by (apply gett_put_same; exact V1).
    assert (Gb : gett w0 u = gett w u) by (apply gett_put_other; exact E).
    set (b := gett w u) in *.
    pose proof (calm_exchange w0 t u
                  (mkHt (nodes b) (hd b) (tl b) (cnt b) (cap b) (fresh b) true (ilist b))
                  (mkHt (PositiveMap.empty node) None None 0 0 (fresh hold) (asort b) [])
                  W0 V1' V2' E) as X.
    rewrite Ga, Gb in X. specialize (X ltac:(repeat split) ltac:(repeat split) i R1). cbn zeta in X.
    cbn [ilist] in X. unfold a0 in X. cbn [ilist set_owners fold_left] in X.
    unfold w0, put_ti in X. cbn [tabs its] in X. rewrite upd_nth_upd_nth_same in X.
    destruct X as [C2 R2]. split; [eapply calm_rel_trans; [exact W|exact C1|exact C2]|exact R2].
  - (* Prealloc *) vt W. pose proof (clear_ok t dcap _ _ true (WT t V1)) as O. pose proof (tscalm_clear t dcap _ _ true (WT t V1)) as S.
    rewrite (surjective_pairing (clear_tab dcap (gett w t) (its w) true)).
    set (hold := fst (clear_tab dcap (gett w t) (its w) true)) in *. set (I0 := snd (clear_tab dcap (gett w t) (its w) true)) in *.
    destruct O as [HTL0 F0]. cbn [fst snd] in *.
    set (a0 := mkHt (PositiveMap.empty node) None None 0 0 (fresh hold) true []).
    pose proof (fresh_table_TL t hold I0 0%N true HTL0 eq_refl) as HTLn. fold a0 in HTLn.
    pose proof (ensure_size_ok t dcap a0 I0 n false HTLn) as O2. pose proof (tscalm_ensure_size t dcap a0 I0 n false HTLn) as S2.
    destruct (ensure_size dcap a0 I0 n false) as [[h1 I1] st]. cbn [fst snd] in *.
    apply (tstep_calm w t (h1, I1) i W V1); [| |exact R].
    + destruct O2 as [A B]. split; [exact A|eapply frame_trans; eassumption].
    + cbn [fst snd]. destruct O2 as [_ F2]. cbn [snd] in F2.
      eapply tscalm_trans; [apply WT; exact V1|exact F2| |exact S2].
      eapply tscalm_trans; [apply WT; exact V1|apply frame_refl|exact S|]. apply tscalm_same; reflexivity.
  - (* IterNew j *) cbn [touches] in Ht. apply Nat.eqb_neq in Ht.
    destruct (valid_i w i0 && valid_t w t); [|exact Same]. cbn [fst].
    apply calm_same_records; [|intros t0; destruct (ids_register (unregister w i0) i0 t (if bw then tl (gett (unregister w i0) t) else hd (gett (unregister w i0) t)) bw false None t0) as [A B]; destruct (ids_unregister w i0 t0) as [A2 B2]; split; congruence|exact R].
    rewrite geti_register_other by congruence. rewrite its_unregister. reflexivity.
  - (* IterAt j *) cbn [touches] in Ht. apply Nat.eqb_neq in Ht.
    destruct (valid_i w i0 && valid_t w t); [|exact Same]. cbn [fst].
    apply calm_same_records; [|intros t0; destruct (ids_register (unregister w i0) i0 t (find_key (gett (unregister w i0) t) k) bw false None t0) as [A B]; destruct (ids_unregister w i0 t0) as [A2 B2]; split; congruence|exact R].
    rewrite geti_register_other by congruence. rewrite its_unregister. reflexivity.
  - (* IterAdv j *) cbn [touches] in Ht. apply Nat.eqb_neq in Ht.
    destruct (geti (its w) i0); [|exact Same]. cbn [fst].
    apply calm_same_records; [cbn; apply geti_seti_other; congruence|intros; split; reflexivity|exact R].
  - (* IterRet j *) cbn [touches] in Ht. apply Nat.eqb_neq in Ht.
    destruct (geti (its w) i0); [|exact Same]. cbn [fst].
    apply calm_same_records; [cbn; apply geti_seti_other; congruence|intros; split; reflexivity|exact R].
  - (* IterSetBw j *) cbn [touches] in Ht. apply Nat.eqb_neq in Ht.
    destruct (geti (its w) i0); [|exact Same]. cbn [fst].
    apply calm_same_records; [cbn; apply geti_seti_other; congruence|intros; split; reflexivity|exact R].
  - (* IterDel j *) cbn [touches] in Ht. apply Nat.eqb_neq in Ht.
    destruct (valid_i w i0); [|exact Same]. cbn [fst].
    apply calm_same_records; [cbn; rewrite its_unregister; apply geti_seti_other; congruence|intros t0; apply (ids_unregister w i0 t0)|exact R].
  - (* IterCopy j from k *) cbn [touches] in Ht. apply Nat.eqb_neq in Ht.
    destruct (valid_i w i0 && negb (i0 =? j)); [|exact Same]. destruct (geti (its w) j) as [src|]; [|exact Same]. cbn [fst].
    destruct (iown src) as [t0|].
    + apply calm_same_records; [|intros t1; destruct (ids_register (unregister w i0) i0 t0 (icookie src) (ibw src) (inoreg src) (iscr src) t1) as [A B]; destruct (ids_unregister w i0 t1) as [A2 B2]; split; congruence|exact R].
      rewrite geti_register_other by congruence. rewrite its_unregister. reflexivity.
    + apply calm_same_records; [cbn; rewrite its_unregister; apply geti_seti_other; congruence|intros t1; apply (ids_unregister w i0 t1)|exact R].
Qed.

End Calm.
