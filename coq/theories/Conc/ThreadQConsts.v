(* C11 -- the translated constants of the Thread messaging model. *)
From Coq Require Import NArith.
From Muscle Require Import Gen.Consts.

(* sizeof(bytes) in Thread::WaitForNextMessageAux: how many signal bytes one call absorbs; regenerated from
   system/Thread.cpp on every run (gen/gen_consts.py, section C11) *)
Definition ABS : nat := N.to_nat c_thread_signal_absorb_size.

(* MUSCLE_NO_LIMIT, at which WaitCondition's pending-notification count saturates (support/MuscleSupport.h) *)
Definition NOLIM : N := c_MUSCLE_NO_LIMIT.
