(* Extraction of the reference-count / pool model for the correspondence run (ExtrOcamlBasic only). *)
From Coq Require Import ExtrOcamlBasic.
From Coq Require Extraction.
From Muscle Require Import Conc.Pool Conc.RefCnt.
Extraction "refcnt_model.ml" step run_op run_sched init_state ev_is_bad free_nodes fork_state next_silent thread_done.
