(* C10 -- the atomic-step premise tied to the source, and what it buys. *)
From Coq Require Import List Arith Bool NArith Lia.
From Muscle Require Import Gen.Consts Conc.Pool Conc.PoolProofs Conc.RefCnt Conc.RefStep Conc.AtomicStep.
Import ListNotations.
Local Open Scope nat_scope.

(* the translated code shape IS the single read-modify-write (re-checked whenever system/AtomicCounter.h changes) *)
Lemma code_atomic_tied : code_atomic_ok = true.
Proof. vm_compute. reflexivity. Qed.

Lemma run_rmw_zeros : forall k c, k <= c -> zeros (run_rmw c k) = if (k =? c) && (1 <=? c) then 1 else 0.
Proof.
  induction k as [|k IH]; intros c Hk; cbn [run_rmw zeros].
  - destruct c; reflexivity.
  - destruct c as [|c]; [lia|]. replace (S c - 1) with c by lia. rewrite IH by lia.
    destruct c as [|c].
    + assert (k = 0) by lia. subst. reflexivity.
    + cbn [Nat.eqb]. destruct (k =? S c) eqn:E; cbn; reflexivity.
Qed.

(* n threads drop the last n references with single-RMW decrements: exactly one of them is told "zero" *)
Theorem rmw_exactly_one : forall n, 1 <= n -> zeros (run_rmw n n) = 1.
Proof.
  intros n Hn. rewrite run_rmw_zeros by lia. rewrite Nat.eqb_refl. destruct n; [lia|]. reflexivity.
Qed.

(* with the split decrement two threads can both be told "zero": the object is released twice *)
Theorem split_refuted : exists sched, snd (run_split 2 [(0, false); (0, false)] sched) = [(2, true); (2, true)].
Proof. exists [0; 1; 0; 1]. vm_compute. reflexivity. Qed.

(* the model's decrement step is the single RMW: count and answer come from one and the same step *)
Theorem dec_obj_is_rmw : forall h q h' z, dec_obj h q = Some (h', z) ->
  o_cnt (get_obj h' q) = o_cnt (get_obj h q) - 1 /\ z = (o_cnt (get_obj h q) - 1 =? 0).
Proof.
  intros h q h' z H. unfold dec_obj in H.
  destruct (is_live (get_obj h q)) eqn:El; cbn [andb] in H; [|discriminate].
  destruct (0 <? o_cnt (get_obj h q)); [|discriminate].
  pose proof (live_lt _ _ El) as Hq.
  destruct (o_cnt (get_obj h q) - 1 =? 0) eqn:E; inversion H; subst; rewrite get_upd_same by auto; cbn; split; auto.
  apply Nat.eqb_eq in E. lia.
Qed.

Theorem atomic_premise_tied :
  code_atomic_ok = true /\
  (forall h q h' z, dec_obj h q = Some (h', z) ->
     o_cnt (get_obj h' q) = o_cnt (get_obj h q) - 1 /\ z = (o_cnt (get_obj h q) - 1 =? 0)) /\
  (forall n, 1 <= n -> zeros (run_rmw n n) = 1).
Proof. split; [exact code_atomic_tied|]. split; [exact dec_obj_is_rmw|exact rmw_exactly_one]. Qed.
