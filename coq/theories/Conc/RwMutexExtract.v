(* Extraction of the ReaderWriterMutex LTS for the correspondence run (ExtrOcamlBasic only). *)
From Coq Require Import ExtrOcamlBasic.
From Coq Require Extraction.
From Muscle Require Import Conc.RwMutexModel Conc.RwMutexCheck.
Extraction "rwmutex_model.ml" sys_step sys0 s_g s_l check_state.
