(* C19 -- basic lemmas about the insertion-ordered tables and key lists of Conc/TPool.v *)
From Coq Require Import List Arith Bool Lia.
From Muscle Require Import Conc.TPool.
Import ListNotations.

(* ---------------------------------------------------------------- tget / tset / tdel *)

Lemma tget_tset_same : forall V (k : nat) (v : V) t, tget k (tset k v t) = Some v.
Proof.
  intros V k v t. induction t as [|[k' v'] r IH]; cbn.
  - now rewrite Nat.eqb_refl.
  - destruct (Nat.eqb k k') eqn:E; cbn; rewrite E; auto.
Qed.

Lemma tget_tset_other : forall V (k k0 : nat) (v : V) t, k <> k0 -> tget k (tset k0 v t) = tget k t.
Proof.
  intros V k k0 v t Hne. induction t as [|[k' v'] r IH]; cbn.
  - destruct (Nat.eqb_spec k k0); congruence.
  - destruct (Nat.eqb_spec k0 k') as [->|Hn]; cbn.
    + destruct (Nat.eqb_spec k k'); congruence.
    + destruct (Nat.eqb k k'); auto.
Qed.

Lemma tget_tdel_same : forall V (k : nat) (t : table V), tget k (tdel k t) = None.
Proof.
  intros V k t. induction t as [|[k' v'] r IH]; cbn; auto.
  destruct (Nat.eqb k k') eqn:E; cbn; auto. now rewrite E.
Qed.

Lemma tget_tdel_other : forall V (k k0 : nat) (t : table V), k <> k0 -> tget k (tdel k0 t) = tget k t.
Proof.
  intros V k k0 t Hne. induction t as [|[k' v'] r IH]; cbn; auto.
  destruct (Nat.eqb_spec k0 k') as [->|Hn]; cbn.
  - destruct (Nat.eqb_spec k k'); congruence.
  - destruct (Nat.eqb k k'); auto.
Qed.

Lemma tget_In : forall V (k : nat) (v : V) t, tget k t = Some v -> In (k, v) t.
Proof.
  intros V k v t. induction t as [|[k' v'] r IH]; cbn; [discriminate|].
  destruct (Nat.eqb_spec k k') as [->|Hn]; intros H.
  - injection H as ->. now left.
  - right. auto.
Qed.

Lemma tget_In_keys : forall V (k : nat) (v : V) t, tget k t = Some v -> In k (tkeys t).
Proof. intros V k v t H. apply tget_In in H. unfold tkeys. change k with (fst (k, v)). now apply in_map. Qed.

Lemma tget_None_keys : forall V (k : nat) (t : table V), tget k t = None <-> ~ In k (tkeys t).
Proof.
  intros V k t. induction t as [|[k' v'] r IH]; cbn.
  - tauto.
  - destruct (Nat.eqb_spec k k') as [->|Hn].
    + split; [discriminate|]. intros H. exfalso. apply H. now left.
    + rewrite IH. split; intros H; [intros [E|I]; [congruence|auto]|tauto].
Qed.

Lemma In_tget : forall V (k : nat) (v : V) t, NoDup (tkeys t) -> In (k, v) t -> tget k t = Some v.
Proof.
  intros V k v t. induction t as [|[k' v'] r IH]; cbn; [tauto|].
  intros Hnd [E|I].
  - injection E as -> ->. now rewrite Nat.eqb_refl.
  - inversion Hnd as [|? ? Hni Hnd']; subst.
    destruct (Nat.eqb_spec k k') as [->|Hn]; auto.
    exfalso. apply Hni. unfold tkeys. change k' with (fst (k', v)). now apply in_map.
Qed.

Lemma tkeys_tset_in : forall V (k k0 : nat) (v : V) t, In k (tkeys (tset k0 v t)) <-> k = k0 \/ In k (tkeys t).
Proof.
  intros V k k0 v t. induction t as [|[k' v'] r IH]; cbn.
  - intuition.
  - destruct (Nat.eqb_spec k0 k') as [->|Hn]; cbn.
    + intuition.
    + rewrite IH. intuition.
Qed.

Lemma tkeys_tset_nodup : forall V (k0 : nat) (v : V) t, NoDup (tkeys t) -> NoDup (tkeys (tset k0 v t)).
Proof.
  intros V k0 v t. induction t as [|[k' v'] r IH]; cbn; intros Hnd.
  - constructor; [cbn; tauto|constructor].
  - inversion Hnd as [|? ? Hni Hnd']; subst.
    destruct (Nat.eqb_spec k0 k') as [->|Hn]; cbn.
    + now constructor.
    + constructor; auto. fold (tkeys (tset k0 v r)). rewrite tkeys_tset_in. intros [E|I]; [congruence|auto].
Qed.

Lemma tkeys_tdel_in : forall V (k k0 : nat) (t : table V), In k (tkeys (tdel k0 t)) <-> k <> k0 /\ In k (tkeys t).
Proof.
  intros V k k0 t. induction t as [|[k' v'] r IH]; cbn.
  - tauto.
  - destruct (Nat.eqb_spec k0 k') as [->|Hn]; cbn.
    + rewrite IH. intuition. congruence.
    + rewrite IH. intuition. subst. auto.
Qed.

Lemma tkeys_tdel_nodup : forall V (k0 : nat) (t : table V), NoDup (tkeys t) -> NoDup (tkeys (tdel k0 t)).
Proof.
  intros V k0 t. induction t as [|[k' v'] r IH]; cbn; intros Hnd; auto.
  inversion Hnd as [|? ? Hni Hnd']; subst.
  destruct (Nat.eqb_spec k0 k') as [->|Hn]; cbn; auto.
  constructor; auto. fold (tkeys (tdel k0 r)). rewrite tkeys_tdel_in. tauto.
Qed.

(* the first entry, and RemoveFirst() *)
Lemma tget_hd : forall V (k : nat) (v : V) r, tget k ((k, v) :: r) = Some v.
Proof. intros. cbn. now rewrite Nat.eqb_refl. Qed.

Lemma tget_tl_same : forall V (k : nat) (v : V) r, NoDup (tkeys ((k, v) :: r)) -> tget k r = None.
Proof. intros V k v r H. inversion H; subst. now apply tget_None_keys. Qed.

Lemma tget_tl_other : forall V (k k0 : nat) (v : V) r, k <> k0 -> tget k ((k0, v) :: r) = tget k r.
Proof. intros V k k0 v r Hne. cbn. destruct (Nat.eqb_spec k k0); congruence. Qed.

(* ---------------------------------------------------------------- key lists *)

Lemma lmem_In : forall k l, lmem k l = true <-> In k l.
Proof.
  intros k l. unfold lmem. rewrite existsb_exists. split.
  - intros [x [Hi He]]. apply Nat.eqb_eq in He. now subst.
  - intros H. exists k. split; auto. apply Nat.eqb_refl.
Qed.

Lemma lmem_false : forall k l, lmem k l = false <-> ~ In k l.
Proof. intros k l. rewrite <- lmem_In. destruct (lmem k l); split; congruence. Qed.

Lemma lrem_In : forall k k0 l, In k (lrem k0 l) <-> k <> k0 /\ In k l.
Proof.
  intros k k0 l. unfold lrem. rewrite filter_In. split.
  - intros [Hi Hn]. split; auto. intros ->. now rewrite Nat.eqb_refl in Hn.
  - intros [Hn Hi]. split; auto. destruct (Nat.eqb_spec k0 k); [congruence|auto].
Qed.

Lemma lrem_nodup : forall k l, NoDup l -> NoDup (lrem k l).
Proof. intros. unfold lrem. now apply NoDup_filter. Qed.

Lemma lrem_notin : forall k l, ~ In k l -> lrem k l = l.
Proof.
  intros k l. unfold lrem. induction l as [|x r IH]; cbn; auto. intros H.
  destruct (Nat.eqb_spec k x) as [->|Hn]; cbn.
  - exfalso. apply H. now left.
  - f_equal. apply IH. tauto.
Qed.

Lemma lrem_cons : forall k x r, lrem k (x :: r) = if Nat.eqb k x then lrem k r else x :: lrem k r.
Proof. intros. unfold lrem. cbn. now destruct (Nat.eqb k x). Qed.

Lemma lrem_length : forall k l, NoDup l -> In k l -> S (length (lrem k l)) = length l.
Proof.
  intros k l. induction l as [|x r IH]; [cbn; tauto|]. intros Hnd Hin.
  inversion Hnd as [|? ? Hni Hnd']; subst. rewrite lrem_cons.
  destruct (Nat.eqb_spec k x) as [->|Hn].
  - now rewrite lrem_notin.
  - destruct Hin as [E|I]; [congruence|]. cbn [length]. f_equal. auto.
Qed.

Lemma ladd_In : forall k k0 l, In k (ladd k0 l) <-> k = k0 \/ In k l.
Proof.
  intros k k0 l. unfold ladd. destruct (lmem k0 l) eqn:E.
  - apply lmem_In in E. split; [tauto|]. intros [->|H]; auto.
  - rewrite in_app_iff. cbn. intuition.
Qed.

Lemma last_opt_spec : forall A (l : list A) x, last_opt l = Some x -> exists l', l = l' ++ [x].
Proof.
  intros A l. induction l as [|a r IH]; cbn; [discriminate|]. intros x.
  destruct r as [|b r'].
  - intros H. injection H as ->. now exists [].
  - intros H. destruct (IH x H) as [l' E]. exists (a :: l'). cbn. now rewrite <- E.
Qed.

Lemma last_opt_None : forall A (l : list A), last_opt l = None -> l = [].
Proof.
  intros A l. induction l as [|a r IH]; cbn; auto.
  destruct r as [|b r']; [discriminate|]. intros H. apply IH in H. discriminate.
Qed.

Lemma last_opt_In : forall A (l : list A) x, last_opt l = Some x -> In x l.
Proof. intros A l x H. destruct (last_opt_spec _ _ _ H) as [l' ->]. apply in_or_app. right. now left. Qed.

Lemma is_nil_true : forall A (l : list A), is_nil l = true <-> l = [].
Proof. intros A [|a r]; cbn; split; congruence. Qed.

Lemma is_nil_false : forall A (l : list A), is_nil l = false <-> l <> [].
Proof. intros A [|a r]; cbn; split; congruence. Qed.

(* ---------------------------------------------------------------- observations distribute over trace concatenation *)

Lemma submitted_app : forall a b c, submitted (a ++ b) c = submitted a c ++ submitted b c.
Proof.
  intros a b c. induction a as [|e r IH]; cbn; auto.
  destruct e; auto. destruct (Nat.eqb c c0 && is_ok r0); cbn; now rewrite IH.
Qed.

Lemma entered_app : forall a b c, entered (a ++ b) c = entered a c ++ entered b c.
Proof.
  intros a b c. induction a as [|e r IH]; cbn; auto.
  destruct e; auto. destruct (Nat.eqb c c0); cbn; now rewrite IH.
Qed.

Lemma exited_app : forall a b c, exited (a ++ b) c = exited a c ++ exited b c.
Proof.
  intros a b c. induction a as [|e r IH]; cbn; auto.
  destruct e; auto. destruct (Nat.eqb c c0); cbn; now rewrite IH.
Qed.

(* ---------------------------------------------------------------- one-step rewriting forms *)

Lemma tget_tset : forall V (k k0 : nat) (v : V) t, tget k (tset k0 v t) = if Nat.eqb k k0 then Some v else tget k t.
Proof.
  intros. destruct (Nat.eqb_spec k k0) as [->|Hn]; [apply tget_tset_same|now apply tget_tset_other].
Qed.

Lemma tget_tdel : forall V (k k0 : nat) (t : table V), tget k (tdel k0 t) = if Nat.eqb k k0 then None else tget k t.
Proof.
  intros. destruct (Nat.eqb_spec k k0) as [->|Hn]; [apply tget_tdel_same|now apply tget_tdel_other].
Qed.

Lemma qof_tset : forall (k k0 : nat) (q : list msg) t, qof (tset k0 q t) k = if Nat.eqb k k0 then q else qof t k.
Proof. intros. unfold qof. rewrite tget_tset. now destruct (Nat.eqb k k0). Qed.

Lemma qof_tdel : forall (k k0 : nat) t, qof (tdel k0 t) k = if Nat.eqb k k0 then [] else qof t k.
Proof. intros. unfold qof. rewrite tget_tdel. now destruct (Nat.eqb k k0). Qed.

Lemma In_app_single : forall A (x y : A) l, In x (l ++ [y]) <-> In x l \/ x = y.
Proof. intros. rewrite in_app_iff. cbn. intuition. Qed.

Lemma NoDup_app_single : forall A (y : A) l, NoDup l -> ~ In y l -> NoDup (l ++ [y]).
Proof.
  intros A y l. induction l as [|a r IH]; cbn; intros Hnd Hni.
  - constructor; [cbn; tauto|constructor].
  - inversion Hnd; subst. constructor.
    + rewrite In_app_single. intuition.
    + apply IH; tauto.
Qed.
