(* C10 -- preservation of [inv1] by each kind of atomic action (part 1: increment, store,
   stop-counting, decrement, unreference). *)
From Coq Require Import List Arith Bool Lia.
From Muscle Require Import Conc.Pool Conc.PoolProofs Conc.RefCnt Conc.RefInv Conc.RefExcl Conc.RefStep.
Import ListNotations.
Local Open Scope nat_scope.

Definition bad124 (e : event) : bool :=
  match e with EvBad w => (w =? 1) || (w =? 2) || (w =? 4) | _ => false end.

Ltac eqcase z o :=
  let Hne := fresh "Hne" in
  destruct (Nat.eq_dec z o) as [->|Hne];
  [ rewrite ?Nat.eqb_refl in *
  | let H1 := fresh "Hn1" in let H2 := fresh "Hn2" in
    assert (H1 : (z =? o) = false) by (apply Nat.eqb_neq; auto);
    assert (H2 : (o =? z) = false) by (apply Nat.eqb_neq; auto);
    rewrite ?H1, ?H2 in * ].

Section Acts.
Variables N K : nat.

(* facts about the acting thread, shared by all cases *)
Record ctx (s : state) (t : nat) (stk : list ref) (a : act) (rest : list act) (prog : list op) : Prop := mkCtx {
  c_inv : inv1 K s;
  c_t : t < length (s_thr s);
  c_thr : thr s t = mkThr stk (a :: rest) prog
}.

Lemma ctx_shape : forall s t stk a rest prog, ctx s t stk a rest prog -> shape (a :: rest).
Proof. intros s t stk a rest prog [I Ht E]. pose proof (i_shape K s I t Ht). rewrite E in H. exact H. Qed.

Lemma ctx_act : forall s t stk a rest prog b, ctx s t stk a rest prog -> In b (a :: rest) -> act_ok s stk b.
Proof. intros s t stk a rest prog b [I Ht E] Hin. pose proof (i_acts K s I t b Ht). rewrite E in H. apply H; auto. Qed.

(* the object record after a count change only *)
Lemma set_cnt_fields : forall ob c, o_mem (set_cnt ob c) = o_mem ob /\ o_st (set_cnt ob c) = o_st ob /\
  o_pooled (set_cnt ob c) = o_pooled ob /\ o_births (set_cnt ob c) = o_births ob /\ o_deaths (set_cnt ob c) = o_deaths ob /\
  o_cnt (set_cnt ob c) = c /\ o_val (set_cnt ob c) = o_val ob.
Proof. intros; cbn; auto 10. Qed.

Lemma hobj_wt : forall s t th' h' p' z, hobj (with_thr s t th' h' p') z = get_obj h' z.
Proof. reflexivity. Qed.

Lemma tu_cons : forall o stk a rest prog, thr_units o (mkThr stk (a :: rest) prog) = refs_in o stk + act_unit o a + sumf (act_unit o) rest.
Proof. intros; unfold thr_units; cbn [t_stk t_todo sumf]; lia. Qed.
Lemma tu_mk : forall o stk todo prog, thr_units o (mkThr stk todo prog) = refs_in o stk + sumf (act_unit o) todo.
Proof. reflexivity. Qed.
Lemma td_cons : forall o stk a rest prog, thr_debts o (mkThr stk (a :: rest) prog) = act_debt o a + sumf (act_debt o) rest.
Proof. reflexivity. Qed.
Lemma td_mk : forall o stk todo prog, thr_debts o (mkThr stk todo prog) = sumf (act_debt o) todo.
Proof. reflexivity. Qed.
Lemma rc_cons : forall o a rest, sumf (rel_count o) (a :: rest) = rel_count o a + sumf (rel_count o) rest.
Proof. reflexivity. Qed.
Lemma ou_cnt : forall o ob c, obj_units o (set_cnt ob c) = obj_units o ob.
Proof. reflexivity. Qed.

(* ------------------------------------------------------------------ AInc *)

Lemma src_live : forall s t stk o src, inv1 K s -> t < length (s_thr s) -> t_stk (thr s t) = stk ->
  src_ok s stk o src -> is_live (hobj s o) = true.
Proof.
  intros s t stk o [[i|q j]|] I Ht Es W; cbn in W.
  - rewrite <- Es in W. destruct (held_live K s t i o I Ht W); auto.
  - destruct W as (W & _). destruct (member_live K s q j o I W); auto.
  - tauto.
Qed.

Lemma src_touch : forall s t stk o src rest prog, ctx s t stk (AInc o src) rest prog -> touch_c s t o.
Proof.
  intros s t stk o src rest prog C. pose proof (ctx_act _ _ _ _ _ _ (AInc o src) C (or_introl eq_refl)) as W.
  destruct C as [I Ht E]. destruct src as [[i|q j]|]; cbn in W.
  - left. exists i. rewrite E. exact W.
  - right; left. destruct W as (W & _). exists q, j. exact W.
  - right; right; right; left. rewrite E. cbn. left; auto.
Qed.

Lemma act_inc : forall s t stk o src rest prog, ctx s t stk (AInc o src) rest prog ->
  forall h' stk' todo' p' ev, do_act N K (s_heap s) (s_pool s) stk (AInc o src) rest = (h', stk', todo', p', ev) ->
  inv1 K (with_thr s t (mkThr stk' todo' prog) h' p') /\ bad124 ev = false.
Proof.
  intros s t stk o src rest prog C h' stk' todo' p' ev Hdo.
  pose proof (ctx_shape _ _ _ _ _ _ C) as Hsh.
  pose proof (ctx_act _ _ _ _ _ _ (AInc o src) C (or_introl eq_refl)) as Wsrc. cbn in Wsrc.
  pose proof (src_touch _ _ _ _ _ _ _ C) as Htouch.
  pose proof C as [I Ht E].
  assert (Hlive : is_live (hobj s o) = true) by (apply (src_live s t stk o src I Ht); [rewrite E; reflexivity|exact Wsrc]).
  pose proof (live_lt _ _ Hlive) as Hlt.
  cbn in Hdo. unfold inc_obj in Hdo. unfold hobj in Hlive. rewrite Hlive in Hdo. inversion Hdo; subst; clear Hdo.
  split; [|reflexivity].
  set (ob := get_obj (s_heap s) o) in *.
  set (h' := upd (s_heap s) o (set_cnt ob (S (o_cnt ob)))).
  assert (Hget : forall z, get_obj h' z = if z =? o then set_cnt ob (S (o_cnt ob)) else get_obj (s_heap s) z).
  { intros z. unfold h'. destruct (z =? o) eqn:Ez.
    - apply Nat.eqb_eq in Ez. subst z. apply get_upd_same; auto.
    - apply Nat.eqb_neq in Ez. apply get_upd_other; auto. }
  assert (Hunits : forall z, units z (with_thr s t (mkThr stk' todo' prog) h' (s_pool s)) = units z s).
  { intros z. pose proof (wt_units s t (mkThr stk' todo' prog) h' (s_pool s) z Ht) as HU.
    pose proof (heap_units_upd (s_heap s) o (set_cnt ob (S (o_cnt ob))) z Hlt) as HH. fold h' in HH. fold ob in HH.
    rewrite E in HU.  rewrite tu_cons, tu_mk in HU. rewrite ou_cnt in HH. cbn [act_unit] in HU. lia. }
  assert (Hdebts : forall z, debts z (with_thr s t (mkThr stk' todo' prog) h' (s_pool s)) + eq1 o z = debts z s).
  { intros z. pose proof (wt_debts s t (mkThr stk' todo' prog) h' (s_pool s) z Ht) as HD. rewrite E in HD.  rewrite td_cons, td_mk in HD. cbn [act_debt] in HD. lia. }
  (* the tail of the todo list and its shape *)
  assert (Htail : (exists l, todo' = [AStore l (Some (o, true))]) \/ (exists l, todo' = [ATake l; AStore l (Some (o, true))])).
  { inversion Hsh as [fr Hf Ef|fr l v Hf Ef|q sr l Ef|q sr l Ef|l Ef|l v Ef|a Ha Ef]; subst.
    - cbn in Hf. discriminate.
    - destruct fr as [|f fr]; cbn in Ef; [discriminate|]. inversion Ef; subst. cbn in Hf. discriminate.
    - left; eexists; eauto.
    - right; eexists; eauto.
    - cbn in Ha. tauto. }
  apply assemble; auto.
  - (* count equation *)
    intros z. rewrite Hunits, hobj_wt, Hget. pose proof (Hdebts z) as HD. pose proof (i_count K s I z) as HC.
    unfold hobj in HC. unfold eq1 in HD. eqcase z o; [fold ob in HC; cbn [o_cnt set_cnt]|]. all: lia.
  - intros z Hz. rewrite Hunits. apply (i_nolive K s I). rewrite hobj_wt, Hget in Hz. unfold hobj.
    eqcase z o; auto.
  - intros z Hz. unfold h' in Hz. rewrite upd_length in Hz. rewrite hobj_wt, Hget. pose proof (i_mem K s I z Hz) as HM. unfold hobj in HM.
    eqcase z o; auto.
  - cbn. destruct Htail as [(l & ->)|(l & ->)]; [apply (sh_store [] l)|apply sh_take2]; reflexivity.
  - (* own remaining actions *)
    cbn [t_todo t_stk]. intros a Hin.
    assert (Hold : act_ok s stk' a) by (apply (ctx_act _ _ _ _ _ _ a C); right; auto).
    eapply act_ok_transfer; [|exact Hold].
    assert (Hloc : forall l, wloc_ok (s_heap s) stk' l -> not_self l (Some o) -> loc_same s (with_thr s t (mkThr stk' todo' prog) h' (s_pool s)) l).
    { intros [i|q j] W NS; cbn [loc_same]; auto. rewrite !hobj_wt, Hget. cbn in NS. destruct (q =? o) eqn:Eq; auto.
      apply Nat.eqb_eq in Eq. congruence. }
    destruct Htail as [(l & ->)|(l & ->)].
    + assert (Hst : act_ok s stk' (AStore l (Some (o, true)))) by (apply (ctx_act _ _ _ _ _ _ _ C); cbn; auto).
      cbn in Hst. destruct Hin as [<-|[]]. cbn [same_for]. apply Hloc; tauto.
    + assert (Hst : act_ok s stk' (AStore l (Some (o, true)))) by (apply (ctx_act _ _ _ _ _ _ _ C); cbn; auto).
      cbn in Hst. destruct Hin as [<-|[<-|[]]]; cbn [same_for]; apply Hloc; tauto.
  - (* count-touched objects *)
    intros z. destruct (Nat.eq_dec z o) as [->|Hne]; [left; exact Htouch|right].
    rewrite hobj_wt, Hget. apply Nat.eqb_neq in Hne. rewrite Hne. auto.
  - intros y. right. rewrite hobj_wt, Hget. destruct (y =? o) eqn:Ey; auto. apply Nat.eqb_eq in Ey; subst y. reflexivity.
  - intros y Hy. rewrite hobj_wt, Hget. destruct (y =? o) eqn:Ey; auto. apply Nat.eqb_eq in Ey; subst y. reflexivity.
  - intros z. destruct (Nat.eq_dec z o) as [->|Hne]; [left; exact Htouch|right].
    rewrite E. rewrite td_cons, td_mk. cbn [act_debt]. unfold eq1. apply not_eq_sym in Hne. apply Nat.eqb_neq in Hne. rewrite Hne. lia.
  - (* release bookkeeping *)
    intros z. pose proof (wt_rels s t (mkThr stk' todo' prog) h' (s_pool s) z Ht) as HR. rewrite E in HR.  cbn [t_todo] in HR. rewrite rc_cons in HR. cbn [rel_count] in HR.
    rewrite hobj_wt, Hget. pose proof (i_rels K s I z) as HI. unfold hobj in HI.
    eqcase z o; [fold ob in HI; change (is_releasing (set_cnt ob (S (o_cnt ob)))) with (is_releasing ob)|]; lia.
  - intros z Hz. unfold h' in Hz. rewrite upd_length in Hz. rewrite hobj_wt, Hget. pose proof (i_ghost K s I z Hz) as HG. unfold hobj in HG.
    eqcase z o; auto.
Qed.

(* ------------------------------------------------------------------ slot writes (ATake, AUntag, AStore) *)

Lemma frames_rel_ok_same : forall s s' stk a, is_frame a = true ->
  (forall o n, a = ARel o n -> o_st (hobj s' o) = o_st (hobj s o) /\ o_mem (hobj s' o) = o_mem (hobj s o) /\ o_pooled (hobj s' o) = o_pooled (hobj s o)) ->
  act_ok s stk a -> act_ok s' stk a.
Proof.
  intros s s' stk a Hf H W. destruct a; cbn in Hf; try discriminate; cbn in *; auto.
  destruct (H o n eq_refl) as (H1 & H2 & H3). destruct W as (W1 & W2 & W3).
  unfold is_releasing, processed_none, rel_index in *. rewrite H1, H2, H3. auto.
Qed.

Lemma frame_ok_any_stk : forall s stk stk' a, is_frame a = true -> act_ok s stk a -> act_ok s stk' a.
Proof. intros s stk stk' a Hf W. destruct a; cbn in Hf; try discriminate; cbn in *; auto. Qed.

Lemma rest_kinds : forall a rest, shape (a :: rest) ->
  forall b, In b rest -> is_frame b = true \/ (exists l v, b = AStore l v) \/ (exists l, b = ATake l).
Proof.
  intros a rest H b Hin. remember (a :: rest) as td eqn:Etd.
  destruct H as [fr Hf|fr l v Hf|q src l|q src l|l|l v|x Hx].
  - left. rewrite forallb_forall in Hf. apply Hf. rewrite Etd. right; auto.
  - assert (Hb : In b (fr ++ [AStore l v])) by (rewrite Etd; right; auto).
    apply in_app_or in Hb. destruct Hb as [Hb|[Hb|[]]].
    + left. rewrite forallb_forall in Hf. auto.
    + right; left. eauto.
  - inversion Etd; subst. destruct Hin as [<-|[]]. right; left; eauto.
  - inversion Etd; subst. destruct Hin as [<-|[<-|[]]]; [right; right; eauto|right; left; eauto].
  - inversion Etd; subst. destruct Hin.
  - inversion Etd; subst. destruct Hin as [<-|[]]. right; left; eauto.
  - inversion Etd; subst. destruct Hin.
Qed.

Lemma two_rels : forall s t o n m rest, inv1 K s -> t < length (s_thr s) ->
  t_todo (thr s t) = ARel o n :: rest -> In (ARel o m) rest -> False.
Proof.
  intros s t o n m rest I Ht E Hin. pose proof (i_rels K s I o) as HR. unfold rels in HR.
  pose proof (sumf_nth_le _ (fun t => sumf (rel_count o) (t_todo t)) (s_thr s) t dthr Ht) as Hle. cbn beta in Hle.
  unfold thr in E. rewrite E in Hle. rewrite rc_cons in Hle. pose proof (in_todo_rel o _ _ Hin) as A.
  cbn in A, Hle. unfold eq1 in A, Hle. rewrite Nat.eqb_refl in A, Hle. destruct (is_releasing (hobj s o)); lia.
Qed.

(* why thread t, whose next action is a, may write slot l *)
Definition wjust (s : state) (stk : list ref) (a : act) (l : rloc) : Prop :=
  match l with
  | RStk i => i < length stk
  | RMem q j => j < length (o_mem (hobj s q)) /\
                ((o_cnt (hobj s q) = 1 /\ exists i, nth i stk None = Some (q, true)) \/ (exists n, a = ARel q n))
  end.

Lemma wloc_wjust : forall s stk a l, wloc_ok (s_heap s) stk l -> wjust s stk a l.
Proof. intros s stk a [i|q j] W; cbn in *; auto. destruct W as (W1 & W2 & W3). split; auto. Qed.

(* the core: thread t overwrites slot l (which it may write) with v; the credits held in its todo
   list change so that the total is conserved *)
Lemma write_core : forall s t stk a rest prog l v todo',
  ctx s t stk a rest prog ->
  wjust s stk a l ->
  (forall z, cref z v + sumf (act_unit z) todo' = cref z (read_slot (s_heap s) stk l) + act_unit z a + sumf (act_unit z) rest) ->
  (forall z, sumf (act_debt z) todo' = act_debt z a + sumf (act_debt z) rest) ->
  (forall z, sumf (rel_count z) todo' = rel_count z a + sumf (rel_count z) rest) ->
  shape todo' ->
  (match l with RStk _ => forall b y j, In b rest -> (exists v', b = AStore (RMem y j) v') \/ b = ATake (RMem y j) -> False | RMem _ _ => True end) ->
  forall h1 stk1, write_slot (s_heap s) stk l v = (h1, stk1) ->
  (forall b, In b todo' -> In b rest \/ act_ok (with_thr s t (mkThr stk1 todo' prog) h1 (s_pool s)) stk1 b) ->
  inv1 K (with_thr s t (mkThr stk1 todo' prog) h1 (s_pool s)).
Proof.
  intros s t stk a rest prog l v todo' C W Bu Bd Br Hsh Hsame h1 stk1 Hw Hown.
  pose proof C as [I Ht E].
  assert (Estk : t_stk (thr s t) = stk) by (rewrite E; auto).
  assert (Etodo : t_todo (thr s t) = a :: rest) by (rewrite E; auto).
  (* the heap after the write, object by object *)
  assert (Hheap : exists wq : nat -> bool,
            (forall z, get_obj h1 z = if wq z then set_mem (get_obj (s_heap s) z) (o_mem (get_obj h1 z)) else get_obj (s_heap s) z) /\
            (forall z, wq z = true -> touch_m s t z /\ (is_live (hobj s z) = true \/ exists n, a = ARel z n)) /\
            length h1 = length (s_heap s) /\
            (forall z, length (o_mem (get_obj h1 z)) = length (o_mem (get_obj (s_heap s) z))) /\
            (forall z, refs_in z stk1 + sumf (obj_units z) h1 + cref z (read_slot (s_heap s) stk l)
                       = refs_in z stk + sumf (obj_units z) (s_heap s) + cref z v) /\
            (match l with RStk _ => True | RMem _ _ => stk1 = stk end) /\ length stk1 = length stk).
  { destruct l as [i|q j]; cbn in Hw, W |- *; injection Hw as Eh Es; subst h1 stk1.
    - exists (fun _ => false). repeat split; auto; try discriminate.
      + intros z. pose proof (refs_in_upd z stk i v W). lia.
      + apply upd_length.
    - destruct W as (Wj & Wc).
      assert (Hq : q < length (s_heap s)).
      { destruct Wc as [(Wc & (i & Wi))|(n & ->)].
        - rewrite <- Estk in Wi. destruct (held_live K s t i q I Ht Wi) as (Hlv & _). apply live_lt in Hlv; auto.
        - pose proof (ctx_act _ _ _ _ _ _ (ARel q n) C (or_introl eq_refl)) as A. cbn in A. destruct A as (A & _).
          apply releasing_lt in A; auto. }
      exists (fun z => z =? q). split; [|split; [|split; [|split; [|split; [|split]]]]]; auto.
      + intros z. destruct (z =? q) eqn:Ez.
        * apply Nat.eqb_eq in Ez; subst z. rewrite get_upd_same by auto. reflexivity.
        * apply Nat.eqb_neq in Ez. rewrite get_upd_other by auto. reflexivity.
      + intros z Ez. apply Nat.eqb_eq in Ez; subst z. destruct Wc as [(Wc & (i & Wi))|(n & ->)].
        * split; [left; split; auto; exists i; rewrite Estk; auto|].
          left. rewrite <- Estk in Wi. destruct (held_live K s t i q I Ht Wi); auto.
        * split; [right; exists n; rewrite Etodo; left; auto|]. right; eauto.
      + apply upd_length.
      + intros z. destruct (Nat.eq_dec z q) as [->|Hne].
        * rewrite get_upd_same by auto. cbn. apply upd_length.
        * rewrite get_upd_other by auto. auto.
      + intros z. pose proof (heap_units_upd (s_heap s) q (set_mem (get_obj (s_heap s) q) (upd (o_mem (get_obj (s_heap s) q)) j v)) z Hq) as HH.
        change (obj_units z (set_mem (get_obj (s_heap s) q) (upd (o_mem (get_obj (s_heap s) q)) j v)))
          with (refs_in z (upd (o_mem (get_obj (s_heap s) q)) j v)) in HH.
        change (obj_units z (get_obj (s_heap s) q)) with (refs_in z (o_mem (get_obj (s_heap s) q))) in HH.
        pose proof (refs_in_upd z (o_mem (get_obj (s_heap s) q)) j v Wj). unfold get_obj in *. lia. }
  destruct Hheap as (wq & Hget & Hwq & Hlen1 & Hlenm & Hbal & Hstk1 & Hlstk).
  assert (Hcnt : forall z, o_cnt (get_obj h1 z) = o_cnt (get_obj (s_heap s) z) /\ o_st (get_obj h1 z) = o_st (get_obj (s_heap s) z) /\
                           o_pooled (get_obj h1 z) = o_pooled (get_obj (s_heap s) z) /\ o_births (get_obj h1 z) = o_births (get_obj (s_heap s) z) /\
                           o_deaths (get_obj h1 z) = o_deaths (get_obj (s_heap s) z)).
  { intros z. rewrite (Hget z). destruct (wq z); cbn; auto. }
  assert (Hunits : forall z, units z (with_thr s t (mkThr stk1 todo' prog) h1 (s_pool s)) = units z s).
  { intros z. pose proof (wt_units s t (mkThr stk1 todo' prog) h1 (s_pool s) z Ht) as HU. rewrite E in HU.
    rewrite tu_cons, tu_mk in HU. pose proof (Bu z). pose proof (Hbal z). lia. }
  assert (Hdebts : forall z, debts z (with_thr s t (mkThr stk1 todo' prog) h1 (s_pool s)) = debts z s).
  { intros z. pose proof (wt_debts s t (mkThr stk1 todo' prog) h1 (s_pool s) z Ht) as HD. rewrite E in HD.
    rewrite td_cons, td_mk in HD. pose proof (Bd z). lia. }
  assert (Hmemsame : forall z, wq z = false -> o_mem (get_obj h1 z) = o_mem (get_obj (s_heap s) z)).
  { intros z Ez. rewrite (Hget z), Ez. auto. }
  assert (Hnotrel : forall o n, In (ARel o n) rest -> wq o = false).
  { intros o n Hr. destruct (wq o) eqn:Eo; auto. exfalso. destruct (Hwq o Eo) as (_ & [Hlv|(m & ->)]).
    - pose proof (ctx_act _ _ _ _ _ _ (ARel o n) C (or_intror Hr)) as A. cbn in A. destruct A as (A & _).
      unfold is_live, is_releasing in *. destruct (o_st (hobj s o)); discriminate.
    - eapply (two_rels s t o m n rest); eauto. }
  apply assemble; auto.
  - intros z. rewrite Hunits, Hdebts, hobj_wt. destruct (Hcnt z) as (-> & _). apply (i_count K s I).
  - intros z Hz. rewrite Hunits. apply (i_nolive K s I). rewrite hobj_wt in Hz. unfold is_live, hobj in *.
    destruct (Hcnt z) as (_ & <- & _). auto.
  - intros z Hz. rewrite Hlen1 in Hz. rewrite hobj_wt. destruct (i_mem K s I z Hz) as (M1 & M2). unfold hobj in *.
    split; [rewrite Hlenm; auto|]. unfold quiet in *. destruct (Hcnt z) as (_ & -> & _).
    destruct (wq z) eqn:Ez; [|rewrite (Hmemsame z Ez); auto].
    destruct (Hwq z Ez) as (_ & [Hlv|(n & ->)]).
    + unfold is_live, hobj in Hlv. destruct (o_st (get_obj (s_heap s) z)); auto; discriminate.
    + pose proof (ctx_act _ _ _ _ _ _ (ARel z n) C (or_introl eq_refl)) as A. cbn in A. destruct A as (A & _).
      unfold is_releasing, hobj in A. destruct (o_st (get_obj (s_heap s) z)); auto; discriminate.
  - (* own pending actions *)
    cbn [t_todo t_stk]. intros b Hin. destruct (Hown b Hin) as [Hr|Hok]; auto.
    pose proof (ctx_act _ _ _ _ _ _ b C (or_intror Hr)) as A.
    destruct (rest_kinds a rest (ctx_shape _ _ _ _ _ _ C) b Hr) as [Hf|[(l' & v' & ->)|(l' & ->)]].
    + apply (frames_rel_ok_same s _ stk1 b Hf); [|apply (frame_ok_any_stk s stk stk1 b Hf); auto].
      intros o n ->. rewrite !hobj_wt. destruct (Hcnt o) as (_ & -> & -> & _). split; auto. split; auto.
      apply Hmemsame. eapply Hnotrel; eauto.
    + cbn in A |- *. destruct A as (A1 & A2). split; auto. destruct l' as [i'|y j']; cbn in *; [lia|].
      destruct (Hcnt y) as (-> & _). rewrite Hlenm. destruct l as [i|q j]; [|subst stk1; auto].
      exfalso. eapply (Hsame _ y j' Hr). left; eauto.
    + cbn in A |- *. destruct l' as [i'|y j']; cbn in *; [lia|].
      destruct (Hcnt y) as (-> & _). rewrite Hlenm. destruct l as [i|q j]; [|subst stk1; auto].
      exfalso. eapply (Hsame _ y j' Hr). right; eauto.
  - intros z. right. rewrite !hobj_wt. destruct (Hcnt z) as (-> & -> & -> & _). auto.
  - intros y. destruct (wq y) eqn:Ey.
    + left. apply (Hwq y Ey).
    + right. rewrite hobj_wt. apply Hmemsame; auto.
  - intros y Hy. rewrite hobj_wt. apply Hlenm.
  - intros z. right. rewrite E, td_cons, td_mk. pose proof (Bd z). lia.
  - intros z. pose proof (wt_rels s t (mkThr stk1 todo' prog) h1 (s_pool s) z Ht) as HR. rewrite E in HR. cbn [t_todo] in HR.
    rewrite rc_cons in HR. pose proof (Br z). rewrite hobj_wt. pose proof (i_rels K s I z) as HI. unfold hobj in HI.
    unfold is_releasing in *. destruct (Hcnt z) as (_ & -> & _). lia.
  - intros z Hz. rewrite Hlen1 in Hz. rewrite hobj_wt. pose proof (i_ghost K s I z Hz) as HG. unfold hobj, is_live in *.
    destruct (Hcnt z) as (_ & -> & _ & -> & ->). auto.
Qed.

Definition dec_of (old : ref) : list act := match old with Some (q, true) => [ADec q] | _ => [] end.

Lemma dec_of_unit : forall z old, sumf (act_unit z) (dec_of old) = cref z old.
Proof. intros z [[q [|]]|]; cbn; auto. Qed.
Lemma dec_of_debt : forall z old, sumf (act_debt z) (dec_of old) = 0.
Proof. intros z [[q [|]]|]; cbn; auto. Qed.
Lemma dec_of_rel : forall z old, sumf (rel_count z) (dec_of old) = 0.
Proof. intros z [[q [|]]|]; cbn; auto. Qed.
Lemma dec_of_frames : forall old, forallb is_frame (dec_of old) = true.
Proof. intros [[q [|]]|]; cbn; auto. Qed.
Lemma dec_of_ok : forall s stk old b, In b (dec_of old) -> act_ok s stk b.
Proof. intros s stk [[q [|]]|] b H; cbn in H; try tauto. destruct H as [<-|[]]. exact Logic.I. Qed.

Lemma act_take : forall s t stk l rest prog, ctx s t stk (ATake l) rest prog ->
  forall h' stk' todo' p' ev, do_act N K (s_heap s) (s_pool s) stk (ATake l) rest = (h', stk', todo', p', ev) ->
  inv1 K (with_thr s t (mkThr stk' todo' prog) h' p') /\ bad124 ev = false.
Proof.
  intros s t stk l rest prog C h' stk' todo' p' ev Hdo.
  pose proof (ctx_shape _ _ _ _ _ _ C) as Hsh.
  pose proof (ctx_act _ _ _ _ _ _ (ATake l) C (or_introl eq_refl)) as W. cbn in W.
  cbn in Hdo. destruct (write_slot (s_heap s) stk l None) as [h1 stk1] eqn:Hw. inversion Hdo; subst; clear Hdo.
  fold (dec_of (read_slot (s_heap s) stk l)). split; [|reflexivity].
  assert (Hrest : rest = [] \/ exists v, rest = [AStore l v]).
  { inversion Hsh as [fr Hf Ef|fr l0 v Hf Ef|q sr l0 Ef|q sr l0 Ef|l0 Ef|l0 v Ef|a Ha Ef]; subst; auto;
      try (cbn in Hf; discriminate); try (right; eexists; reflexivity).
    destruct fr as [|f fr]; cbn in Ef; [discriminate|]. inversion Ef; subst. cbn in Hf. discriminate. }
  apply (write_core s t stk (ATake l) rest prog l None); auto.
  - apply wloc_wjust; auto.
  - intros z. rewrite sumf_app, dec_of_unit. cbn. lia.
  - intros z. rewrite sumf_app, dec_of_debt. cbn. lia.
  - intros z. rewrite sumf_app, dec_of_rel. cbn. lia.
  - destruct Hrest as [->|(v & ->)].
    + rewrite app_nil_r. apply sh_frames. apply dec_of_frames.
    + apply sh_store. apply dec_of_frames.
  - destruct l as [i|q j]; auto. intros b y j Hin Hb. destruct Hrest as [->|(v & ->)]; [destruct Hin|].
    destruct Hin as [<-|[]]. destruct Hb as [(v' & Hb)|Hb]; discriminate.
  - intros b Hin. apply in_app_or in Hin. destruct Hin as [Hin|Hin]; [right; eapply dec_of_ok; eauto|left; auto].
Qed.

Lemma act_store : forall s t stk l v rest prog, ctx s t stk (AStore l v) rest prog ->
  forall h' stk' todo' p' ev, do_act N K (s_heap s) (s_pool s) stk (AStore l v) rest = (h', stk', todo', p', ev) ->
  inv1 K (with_thr s t (mkThr stk' todo' prog) h' p') /\ bad124 ev = false.
Proof.
  intros s t stk l v rest prog C h' stk' todo' p' ev Hdo.
  pose proof (ctx_shape _ _ _ _ _ _ C) as Hsh.
  pose proof (ctx_act _ _ _ _ _ _ (AStore l v) C (or_introl eq_refl)) as W. cbn in W. destruct W as (W & NS).
  cbn in Hdo. destruct (write_slot (s_heap s) stk l v) as [h1 stk1] eqn:Hw. inversion Hdo; subst; clear Hdo.
  fold (dec_of (read_slot (s_heap s) stk l)). split; [|reflexivity].
  assert (Hrest : rest = []).
  { inversion Hsh as [fr Hf Ef|fr l0 v0 Hf Ef|q sr l0 Ef|q sr l0 Ef|l0 Ef|l0 v0 Ef|a Ha Ef]; subst; auto;
      try (cbn in Hf; discriminate); try (cbn in Ha; tauto).
    destruct fr as [|f fr]; cbn in Ef; [inversion Ef; auto|]. inversion Ef; subst. cbn in Hf. discriminate. }
  subst rest. apply (write_core s t stk (AStore l v) [] prog l v); auto.
  - apply wloc_wjust; auto.
  - intros z. rewrite sumf_app, dec_of_unit. cbn. lia.
  - intros z. rewrite sumf_app, dec_of_debt. cbn. lia.
  - intros z. rewrite sumf_app, dec_of_rel. cbn. lia.
  - rewrite app_nil_r. apply sh_frames. apply dec_of_frames.
  - destruct l as [i|q j]; auto; intros b y j [].
  - intros b Hin. rewrite app_nil_r in Hin. right; eapply dec_of_ok; eauto.
Qed.


(* ------------------------------------------------------------------ steps that only rewrite the todo list *)

Lemma heap_same_ok : forall s s' stk b, s_heap s' = s_heap s ->
  (forall o, b = AInc o None -> units o s' = units o s) -> act_ok s stk b -> act_ok s' stk b.
Proof.
  intros s s' stk b Eh Hu W. eapply act_ok_transfer; [|exact W].
  destruct b; cbn; unfold hobj; rewrite ?Eh; auto.
  - destruct src as [[i|q j]|]; cbn; unfold hobj; rewrite ?Eh; auto.
  - destruct l; cbn; unfold hobj; rewrite ?Eh; auto.
  - destruct l; cbn; unfold hobj; rewrite ?Eh; auto.
  - destruct l; cbn; unfold hobj; rewrite ?Eh; auto.
  - destruct l; cbn; unfold hobj; rewrite ?Eh; auto.
Qed.

Lemma todo_core : forall s t stk todo prog todo' prog' (d : nat -> nat),
  inv1 K s -> t < length (s_thr s) -> thr s t = mkThr stk todo prog ->
  (forall z, sumf (act_unit z) todo' = sumf (act_unit z) todo + d z) ->
  (forall z, sumf (act_debt z) todo' = sumf (act_debt z) todo + d z) ->
  (forall z, 0 < d z -> touch_c s t z /\ is_live (hobj s z) = true) ->
  (forall z, sumf (rel_count z) todo' = sumf (rel_count z) todo) ->
  shape todo' ->
  (forall b, In b todo' -> act_ok (with_thr s t (mkThr stk todo' prog') (s_heap s) (s_pool s)) stk b) ->
  forall p', inv1 K (with_thr s t (mkThr stk todo' prog') (s_heap s) p').
Proof.
  intros s t stk todo prog todo' prog' d I Ht E Bu Bd Hd Br Hsh Hown p'.
  assert (Hunits : forall z, units z (with_thr s t (mkThr stk todo' prog') (s_heap s) p') = units z s + d z).
  { intros z. pose proof (wt_units s t (mkThr stk todo' prog') (s_heap s) p' z Ht) as HU. rewrite E in HU.
    rewrite !tu_mk in HU. pose proof (Bu z). lia. }
  assert (Hdebts : forall z, debts z (with_thr s t (mkThr stk todo' prog') (s_heap s) p') = debts z s + d z).
  { intros z. pose proof (wt_debts s t (mkThr stk todo' prog') (s_heap s) p' z Ht) as HD. rewrite E in HD.
    rewrite !td_mk in HD. pose proof (Bd z). lia. }
  apply assemble; [exact I|exact Ht|..].
  - intros z. rewrite Hunits, Hdebts, hobj_wt. pose proof (i_count K s I z). unfold hobj in *. lia.
  - intros z Hz. rewrite Hunits. rewrite hobj_wt in Hz. pose proof (i_nolive K s I z Hz).
    destruct (d z) eqn:Ed; [lia|]. destruct (Hd z) as (_ & Hl); [lia|]. unfold hobj in *. congruence.
  - intros z Hz. rewrite hobj_wt. apply (i_mem K s I z Hz).
  - exact Hsh.
  - intros b Hin. cbn [t_todo t_stk] in *. specialize (Hown b Hin).
    exact Hown.
  - intros z. right. rewrite !hobj_wt. auto.
  - intros y. right. rewrite hobj_wt. auto.
  - intros y Hy. rewrite hobj_wt. auto.
  - intros z. destruct (d z) eqn:Ed.
    + right. rewrite E, !td_mk. pose proof (Bd z). lia.
    + left. apply Hd. lia.
  - intros z. pose proof (wt_rels s t (mkThr stk todo' prog') (s_heap s) p' z Ht) as HR. rewrite E in HR. cbn [t_todo] in HR.
    rewrite hobj_wt. pose proof (i_rels K s I z) as HI. unfold hobj in HI. pose proof (Br z). lia.
  - intros z Hz. rewrite hobj_wt. apply (i_ghost K s I z Hz).
Qed.

Lemma act_untag : forall s t stk l rest prog, ctx s t stk (AUntag l) rest prog ->
  forall h' stk' todo' p' ev, do_act N K (s_heap s) (s_pool s) stk (AUntag l) rest = (h', stk', todo', p', ev) ->
  inv1 K (with_thr s t (mkThr stk' todo' prog) h' p') /\ bad124 ev = false.
Proof.
  intros s t stk l rest prog C h' stk' todo' p' ev Hdo.
  pose proof (ctx_shape _ _ _ _ _ _ C) as Hsh.
  pose proof (ctx_act _ _ _ _ _ _ (AUntag l) C (or_introl eq_refl)) as W. cbn in W.
  pose proof C as [I Ht E].
  assert (Hrest : rest = []).
  { inversion Hsh as [fr Hf Ef|fr l0 v0 Hf Ef|q sr l0 Ef|q sr l0 Ef|l0 Ef|l0 v0 Ef|a Ha Ef]; subst; auto;
      try (cbn in Hf; discriminate).
    destruct fr as [|f fr]; cbn in Ef; [discriminate|]. inversion Ef; subst. cbn in Hf. discriminate. }
  subst rest. cbn in Hdo.
  assert (Hnoop : inv1 K (with_thr s t (mkThr stk [] prog) (s_heap s) (s_pool s))).
  { apply (todo_core s t stk [AUntag l] prog [] prog (fun _ => 0)); auto.
    - intros z Hz. lia.
    - apply (sh_frames []). reflexivity.
    - intros b []. }
  destruct (read_slot (s_heap s) stk l) as [[q [|]]|] eqn:Hrd.
  - destruct (write_slot (s_heap s) stk l (Some (q, false))) as [h1 stk1] eqn:Hw. inversion Hdo; subst; clear Hdo.
    split; [|reflexivity].
    apply (write_core s t stk (AUntag l) [] prog l (Some (q, false))); auto.
    + apply wloc_wjust; auto.
    + intros z. rewrite Hrd. cbn. unfold eq1. lia.
    + apply (sh_frames [ADecKeep q]). reflexivity.
    + destruct l as [i|q' j]; auto; intros b y j [].
    + intros b [<-|[]]. right. exact Logic.I.
  - inversion Hdo; subst; clear Hdo. split; [exact Hnoop|reflexivity].
  - inversion Hdo; subst; clear Hdo. split; [exact Hnoop|reflexivity].
Qed.

End Acts.
