(* C10 -- preservation of [inv1] by each kind of atomic action (part 1: increment, store,
   stop-counting, decrement, unreference). *)
From Coq Require Import List Arith Bool Lia.
From Muscle Require Import Conc.Pool Conc.PoolProofs Conc.RefCnt Conc.RefInv Conc.RefExcl Conc.RefStep.
Import ListNotations.
Local Open Scope nat_scope.

Definition bad124 (e : event) : bool :=
  match e with EvBad w => (w =? 1) || (w =? 2) || (w =? 4) | _ => false end.

Ltac eqcase z o :=
  let Hne := fresh "Hne" in
  destruct (Nat.eq_dec z o) as [->|Hne];
  [ rewrite ?Nat.eqb_refl in *
  | let H1 := fresh "Hn1" in let H2 := fresh "Hn2" in
    assert (H1 : (z =? o) = false) by (apply Nat.eqb_neq; auto);
    assert (H2 : (o =? z) = false) by (apply Nat.eqb_neq; auto);
    rewrite ?H1, ?H2 in * ].

Section Acts.
Variables N K : nat.

(* facts about the acting thread, shared by all cases *)
Record ctx (s : state) (t : nat) (stk : list ref) (a : act) (rest : list act) (prog : list op) : Prop := mkCtx {
  c_inv : inv1 K s;
  c_t : t < length (s_thr s);
  c_thr : thr s t = mkThr stk (a :: rest) prog
}.

Lemma ctx_shape : forall s t stk a rest prog, ctx s t stk a rest prog -> shape (a :: rest).
Proof. intros s t stk a rest prog [I Ht E]. pose proof (i_shape K s I t Ht). rewrite E in H. exact H. Qed.

Lemma ctx_act : forall s t stk a rest prog b, ctx s t stk a rest prog -> In b (a :: rest) -> act_ok s stk b.
Proof. intros s t stk a rest prog b [I Ht E] Hin. pose proof (i_acts K s I t b Ht). rewrite E in H. apply H; auto. Qed.

(* the object record after a count change only *)
Lemma set_cnt_fields : forall ob c, o_mem (set_cnt ob c) = o_mem ob /\ o_st (set_cnt ob c) = o_st ob /\
  o_pooled (set_cnt ob c) = o_pooled ob /\ o_births (set_cnt ob c) = o_births ob /\ o_deaths (set_cnt ob c) = o_deaths ob /\
  o_cnt (set_cnt ob c) = c /\ o_val (set_cnt ob c) = o_val ob.
Proof. intros; cbn; auto 10. Qed.

Lemma hobj_wt : forall s t th' h' p' z, hobj (with_thr s t th' h' p') z = get_obj h' z.
Proof. reflexivity. Qed.

Lemma tu_cons : forall o stk a rest prog, thr_units o (mkThr stk (a :: rest) prog) = refs_in o stk + act_unit o a + sumf (act_unit o) rest.
Proof. intros; unfold thr_units; cbn [t_stk t_todo sumf]; lia. Qed.
Lemma tu_mk : forall o stk todo prog, thr_units o (mkThr stk todo prog) = refs_in o stk + sumf (act_unit o) todo.
Proof. reflexivity. Qed.
Lemma td_cons : forall o stk a rest prog, thr_debts o (mkThr stk (a :: rest) prog) = act_debt o a + sumf (act_debt o) rest.
Proof. reflexivity. Qed.
Lemma td_mk : forall o stk todo prog, thr_debts o (mkThr stk todo prog) = sumf (act_debt o) todo.
Proof. reflexivity. Qed.
Lemma rc_cons : forall o a rest, sumf (rel_count o) (a :: rest) = rel_count o a + sumf (rel_count o) rest.
Proof. reflexivity. Qed.
Lemma ou_cnt : forall o ob c, obj_units o (set_cnt ob c) = obj_units o ob.
Proof. reflexivity. Qed.

(* ------------------------------------------------------------------ AInc *)

Lemma src_live : forall s t stk o src, inv1 K s -> t < length (s_thr s) -> t_stk (thr s t) = stk ->
  src_ok s stk o src -> is_live (hobj s o) = true.
Proof.
  intros s t stk o [[i|q j]|] I Ht Es W; cbn in W.
  - rewrite <- Es in W. destruct (held_live K s t i o I Ht W); auto.
  - destruct W as (W & _). destruct (member_live K s q j o I W); auto.
  - tauto.
Qed.

Lemma src_touch : forall s t stk o src rest prog, ctx s t stk (AInc o src) rest prog -> touch_c s t o.
Proof.
  intros s t stk o src rest prog C. pose proof (ctx_act _ _ _ _ _ _ (AInc o src) C (or_introl eq_refl)) as W.
  destruct C as [I Ht E]. destruct src as [[i|q j]|]; cbn in W.
  - left. exists i. rewrite E. exact W.
  - right; left. destruct W as (W & _). exists q, j. exact W.
  - right; right; right; left. rewrite E. cbn. left; auto.
Qed.

Lemma act_inc : forall s t stk o src rest prog, ctx s t stk (AInc o src) rest prog ->
  forall h' stk' todo' p' ev, do_act N K (s_heap s) (s_pool s) stk (AInc o src) rest = (h', stk', todo', p', ev) ->
  inv1 K (with_thr s t (mkThr stk' todo' prog) h' p') /\ bad124 ev = false.
Proof.
  intros s t stk o src rest prog C h' stk' todo' p' ev Hdo.
  pose proof (ctx_shape _ _ _ _ _ _ C) as Hsh.
  pose proof (ctx_act _ _ _ _ _ _ (AInc o src) C (or_introl eq_refl)) as Wsrc. cbn in Wsrc.
  pose proof (src_touch _ _ _ _ _ _ _ C) as Htouch.
  pose proof C as [I Ht E].
  assert (Hlive : is_live (hobj s o) = true) by (apply (src_live s t stk o src I Ht); [rewrite E; reflexivity|exact Wsrc]).
  pose proof (live_lt _ _ Hlive) as Hlt.
  cbn in Hdo. unfold inc_obj in Hdo. unfold hobj in Hlive. rewrite Hlive in Hdo. inversion Hdo; subst; clear Hdo.
  split; [|reflexivity].
  set (ob := get_obj (s_heap s) o) in *.
  set (h' := upd (s_heap s) o (set_cnt ob (S (o_cnt ob)))).
  assert (Hget : forall z, get_obj h' z = if z =? o then set_cnt ob (S (o_cnt ob)) else get_obj (s_heap s) z).
  { intros z. unfold h'. destruct (z =? o) eqn:Ez.
    - apply Nat.eqb_eq in Ez. subst z. apply get_upd_same; auto.
    - apply Nat.eqb_neq in Ez. apply get_upd_other; auto. }
  assert (Hunits : forall z, units z (with_thr s t (mkThr stk' todo' prog) h' (s_pool s)) = units z s).
  { intros z. pose proof (wt_units s t (mkThr stk' todo' prog) h' (s_pool s) z Ht) as HU.
    pose proof (heap_units_upd (s_heap s) o (set_cnt ob (S (o_cnt ob))) z Hlt) as HH. fold h' in HH. fold ob in HH.
    rewrite E in HU.  rewrite tu_cons, tu_mk in HU. rewrite ou_cnt in HH. cbn [act_unit] in HU. lia. }
  assert (Hdebts : forall z, debts z (with_thr s t (mkThr stk' todo' prog) h' (s_pool s)) + eq1 o z = debts z s).
  { intros z. pose proof (wt_debts s t (mkThr stk' todo' prog) h' (s_pool s) z Ht) as HD. rewrite E in HD.  rewrite td_cons, td_mk in HD. cbn [act_debt] in HD. lia. }
  (* the tail of the todo list and its shape *)
  assert (Htail : (exists l, todo' = [AStore l (Some (o, true))]) \/ (exists l, todo' = [AUnref l; AStore l (Some (o, true))])).
  { inversion Hsh as [fr Hf Ef|fr l v Hf Ef|q sr l Ef|q sr l Ef|l Ef|l v Ef|a Ha Ef]; subst.
    - cbn in Hf. discriminate.
    - destruct fr as [|f fr]; cbn in Ef; [discriminate|]. inversion Ef; subst. cbn in Hf. discriminate.
    - left; eexists; eauto.
    - right; eexists; eauto.
    - cbn in Ha. tauto. }
  apply assemble; auto.
  - (* count equation *)
    intros z. rewrite Hunits, hobj_wt, Hget. pose proof (Hdebts z) as HD. pose proof (i_count K s I z) as HC.
    unfold hobj in HC. unfold eq1 in HD. eqcase z o; [fold ob in HC; cbn [o_cnt set_cnt]|]. all: lia.
  - intros z Hz. rewrite Hunits. apply (i_nolive K s I). rewrite hobj_wt, Hget in Hz. unfold hobj.
    eqcase z o; auto.
  - intros z Hz. unfold h' in Hz. rewrite upd_length in Hz. rewrite hobj_wt, Hget. pose proof (i_mem K s I z Hz) as HM. unfold hobj in HM.
    eqcase z o; auto.
  - cbn. destruct Htail as [(l & ->)|(l & ->)]; [apply (sh_store [] l)|apply sh_unref2]; reflexivity.
  - (* own remaining actions *)
    cbn [t_todo t_stk]. intros a Hin.
    assert (Hold : act_ok s stk' a) by (apply (ctx_act _ _ _ _ _ _ a C); right; auto).
    eapply act_ok_transfer; [|exact Hold].
    assert (Hloc : forall l, wloc_ok (s_heap s) stk' l -> not_self l (Some o) -> loc_same s (with_thr s t (mkThr stk' todo' prog) h' (s_pool s)) l).
    { intros [i|q j] W NS; cbn [loc_same]; auto. rewrite !hobj_wt, Hget. cbn in NS. destruct (q =? o) eqn:Eq; auto.
      apply Nat.eqb_eq in Eq. congruence. }
    destruct Htail as [(l & ->)|(l & ->)].
    + assert (Hst : act_ok s stk' (AStore l (Some (o, true)))) by (apply (ctx_act _ _ _ _ _ _ _ C); cbn; auto).
      cbn in Hst. destruct Hin as [<-|[]]. cbn [same_for]. apply Hloc; tauto.
    + assert (Hst : act_ok s stk' (AStore l (Some (o, true)))) by (apply (ctx_act _ _ _ _ _ _ _ C); cbn; auto).
      cbn in Hst. destruct Hin as [<-|[<-|[]]]; cbn [same_for]; apply Hloc; tauto.
  - (* count-touched objects *)
    intros z. destruct (Nat.eq_dec z o) as [->|Hne]; [left; exact Htouch|right].
    rewrite hobj_wt, Hget. apply Nat.eqb_neq in Hne. rewrite Hne. auto.
  - intros y. right. rewrite hobj_wt, Hget. destruct (y =? o) eqn:Ey; auto. apply Nat.eqb_eq in Ey; subst y. reflexivity.
  - intros y Hy. rewrite hobj_wt, Hget. destruct (y =? o) eqn:Ey; auto. apply Nat.eqb_eq in Ey; subst y. reflexivity.
  - intros z. destruct (Nat.eq_dec z o) as [->|Hne]; [left; exact Htouch|right].
    rewrite E. rewrite td_cons, td_mk. cbn [act_debt]. unfold eq1. apply not_eq_sym in Hne. apply Nat.eqb_neq in Hne. rewrite Hne. lia.
  - (* release bookkeeping *)
    intros z. pose proof (wt_rels s t (mkThr stk' todo' prog) h' (s_pool s) z Ht) as HR. rewrite E in HR.  cbn [t_todo] in HR. rewrite rc_cons in HR. cbn [rel_count] in HR.
    rewrite hobj_wt, Hget. pose proof (i_rels K s I z) as HI. unfold hobj in HI.
    eqcase z o; [fold ob in HI; change (is_releasing (set_cnt ob (S (o_cnt ob)))) with (is_releasing ob)|]; lia.
  - intros z Hz. unfold h' in Hz. rewrite upd_length in Hz. rewrite hobj_wt, Hget. pose proof (i_ghost K s I z Hz) as HG. unfold hobj in HG.
    eqcase z o; auto.
Qed.

End Acts.
