(* C18 -- the "obvious repair" of known finding F22 is wrong.  Variant of the upgrade path in which the restoring re-lock
   honours the caller's deadline (LockReadOnly(optTimeoutTimestamp) instead of LockReadOnly()): a timed upgrade that failed can
   then return B_TIMED_OUT holding NO lock at all, although the caller's completed calls entitle it to its read lock.
   Only the continuation function differs from RwMutexModel (the critical sections are shared); the deadline is carried through
   the FInner/FRelock frames encoded in their count field (n*3 + code of the deadline).  The variant is exact on the path the
   witness takes (first re-lock fails after the inner call failed: nothing to unlock, the error is returned). *)
From Coq Require Import List Arith Bool.
Import ListNotations.
From Muscle Require Import Conc.RwMutexModel Conc.RwMutexInv.

Definition code (d : tmo) : nat := match d with Never => 0 | Try => 1 | Timed => 2 end.
Definition dec_d (m : nat) : tmo := match Nat.modulo m 3 with 0 => Never | 1 => Try | _ => Timed end.
Definition dec_n (m : nat) : nat := Nat.div m 3.
Definition enc (n : nat) (d : tmo) : nat := n * 3 + code d.

Fixpoint finishV (stk : list frame) (s : status) : (act * list frame) + status :=
  match stk with
  | [] => inr s
  | FDrop n i d :: k =>
      match s with
      | SOk => if Nat.ltb (S i) n then inl (AEnterUnRO, FDrop n (S i) d :: k) else inl (AEnterRW d, FInner (enc n d) :: k)
      | _ => finishV k s
      end
  | FInner m :: k =>
      match dec_n m with
      | 0 => finishV k s
      | S _ => inl (AEnterRO (dec_d m), FRelock m 0 s :: k)        (* the changed line: the caller's deadline, not Never *)
      end
  | FRelock m i lrw :: k =>
      match s with
      | SOk => if Nat.ltb (S i) (dec_n m) then inl (AEnterRO (dec_d m), FRelock m (S i) lrw :: k) else finishV k lrw
      | _ => finishV k s      (* i = 0 and lrw <> SOk: nothing to undo, return lroRet *)
      end
  end.

Definition completeV (l : loc) (s : status) : loc * option status :=
  match finishV (l_stk l) s with
  | inl (a, k) => (mkL a k (l_op l) (l_hro l) (l_hrw l), None)
  | inr s' => (mkL AIdle [] None (ghost_ro (l_op l) s' (l_hro l)) (ghost_rw (l_op l) s' (l_hrw l)), Some s')
  end.

Definition run_csV (pref : bool) (t : tid) (g : gst) (l : loc) : option (gst * loc) :=
  match cs pref t (l_act l) g with
  | None => None
  | Some (g', _, Done s) => Some (g', fst (completeV l s))
  | Some (g', _, Parked a' _) => Some (g', keep l a')
  | Some (g', _, Call a' f) => Some (g', mkL a' (f :: l_stk l) (l_op l) (l_hro l) (l_hrw l))
  end.

Definition stepV (pref : bool) (t : tid) (c : choice) (g : gst) (l : loc) : option (gst * loc) :=
  match c with
  | CRun =>
      match l_act l with
      | AParkRO d => match find t (g_wr g) with Some (S _) => Some (set_wr g (setc t 0 (g_wr g)), keep l (AWokeRO d true)) | _ => None end
      | AParkRW d => match find t (g_ww g) with Some (S _) => Some (set_ww g (setc t 0 (g_ww g)), keep l (AWokeRW d true)) | _ => None end
      | _ => run_csV pref t g l
      end
  | CTimeout =>
      match l_act l with
      | AParkRO Timed => Some (g, keep l (AWokeRO Timed false))
      | AParkRW Timed => Some (g, keep l (AWokeRW Timed false))
      | _ => None
      end
  end.

Definition sys_stepV (pref : bool) (s : sys) (lab : label) : option sys :=
  match lab with
  | LBegin t o => match begin_op o (s_l s t) with Some l' => Some (mkS (s_g s) (upd (s_l s) t l')) | None => None end
  | LStep t c => match stepV pref t c (s_g s) (s_l s t) with Some (g', l') => Some (mkS g' (upd (s_l s) t l')) | None => None end
  | LEnv p => Some (mkS (set_pool (s_g s) p) (s_l s))
  end.

Inductive reachableV (pref : bool) : sys -> Prop :=
| reachV_init : reachableV pref sys0
| reachV_step : forall s lab s', reachableV pref s -> sys_stepV pref s lab = Some s' -> reachableV pref s'.

Fixpoint runV (pref : bool) (labs : list label) (s : sys) : option sys :=
  match labs with
  | [] => Some s
  | a :: r => match sys_stepV pref s a with Some s' => runV pref r s' | None => None end
  end.

Lemma runV_reachable : forall pref labs s s', reachableV pref s -> runV pref labs s = Some s' -> reachableV pref s'.
Proof.
  induction labs as [|a r IH]; cbn [runV]; intros s s' Hr H.
  - inversion H; subst; auto.
  - destruct (sys_stepV pref s a) as [s1|] eqn:E; [|discriminate]. eapply IH; [|eauto]. eapply reachV_step; eauto.
Qed.

(* threads 0 and 1 read; 0 asks for a timed upgrade, gives its read lock up, times out behind 1; 1 (now the only reader)
   upgrades; 0's restoring re-lock parks WITH the expired deadline, times out, and LockReadWrite(deadline) returns B_TIMED_OUT *)
Definition variant_trace : list label :=
  [LBegin 0 (OLockRO Never); LStep 0 CRun; LBegin 1 (OLockRO Never); LStep 1 CRun;
   LBegin 0 (OLockRW Timed); LStep 0 CRun; LStep 0 CRun; LStep 0 CRun; LStep 0 CTimeout; LStep 0 CRun;
   LBegin 1 (OLockRW Never); LStep 1 CRun;
   LStep 0 CRun; LStep 0 CTimeout; LStep 0 CRun].

(* "lock state unchanged on failure" and exclusion at the level of the returned calls both fail in the variant: thread 0 is
   outside any call, its returned calls entitle it to one read lock (its failed LockReadWrite changed nothing), yet the table
   has no entry for it -- and thread 1 holds the lock for writing *)
Lemma relock_with_deadline_refuted : forall pref,
  exists s, reachableV pref s /\ l_act (s_l s 0) = AIdle /\ l_hro (s_l s 0) = 1 /\ find 0 (g_exec (s_g s)) = None /\
            find 0 (g_exec (s_g s)) <> exp_ent (s_l s 0) /\ find 1 (g_exec (s_g s)) = Some (mkEnt 1 1).
Proof.
  intros pref. destruct (runV pref variant_trace sys0) as [s|] eqn:E.
  - exists s. split; [eapply runV_reachable; [apply reachV_init|exact E]|].
    destruct pref; vm_compute in E; inversion E; subst; vm_compute; repeat split; auto; discriminate.
  - destruct pref; vm_compute in E; discriminate.
Qed.
