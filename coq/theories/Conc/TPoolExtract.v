From Coq Require Import ExtrOcamlBasic.
From Coq Require Extraction.
From Muscle Require Import Conc.TPool.
Extraction "tpool_model.ml" step init run submitted entered exited serial queued outstanding handled.
