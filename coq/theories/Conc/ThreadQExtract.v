(* Extraction of the Thread messaging LTS for the correspondence run (ExtrOcamlBasic only). *)
From Coq Require Import ExtrOcamlBasic NArith.
From Coq Require Extraction.
From Muscle Require Import Conc.ThreadQ Conc.ThreadQConsts.

(* sizeof(bytes) in Thread::WaitForNextMessageAux, regenerated from /repo on every run *)
Definition absorb_const : nat := ABS.
Definition no_limit_const : N := NOLIM.

Extraction "threadq_model.ml" sys_step sys0 is_dp absorb_const no_limit_const s_g s_l ch.
