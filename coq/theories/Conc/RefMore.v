(* C10 -- further consequences of the invariant: an object whose count reached zero is being released
   by exactly one thread; objects die only through that release. *)
From Coq Require Import List Arith Bool Lia.
From Muscle Require Import Conc.Pool Conc.PoolProofs Conc.RefCnt Conc.RefInv Conc.RefExcl Conc.RefStep Conc.RefActs Conc.RefProofs.
Import ListNotations.
Local Open Scope nat_scope.

Section More.
Variables N K : nat.

Lemma sumf_pos_in : forall A (f : A -> nat) l, 0 < sumf f l -> exists x, In x l /\ 0 < f x.
Proof.
  induction l as [|h t IH]; cbn; intros H; [lia|].
  destruct (f h) eqn:E.
  - destruct IH as (x & Hx & Hp); [lia|]. exists x; auto.
  - exists h. split; auto. lia.
Qed.

Lemma rel_count_in : forall o todo, 0 < sumf (rel_count o) todo -> exists n, In (ARel o n) todo.
Proof.
  intros o todo H. destruct (sumf_pos_in _ _ _ H) as (a & Hin & Hp).
  destruct a; cbn in Hp; try lia. unfold eq1 in Hp. destruct (o0 =? o) eqn:E; [|lia]. apply Nat.eqb_eq in E. subst. eauto.
Qed.

(* once the count of an object has reached zero through a releasing decrement, some thread is carrying
   out its release (and, by [rel_unique], only one): the release cannot be forgotten or duplicated *)
Theorem release_in_progress : forall s0 s o, inv1 K s0 -> progs_ok s0 -> reachable N K s0 s ->
  is_releasing (hobj s o) = true ->
  exists t n, t < length (s_thr s) /\ In (ARel o n) (t_todo (thr s t)) /\
              forall u m, u < length (s_thr s) -> In (ARel o m) (t_todo (thr s u)) -> u = t.
Proof.
  intros s0 s o I0 P0 H Hr. destruct (reachable_inv1 N K s0 s I0 P0 H) as (I & _).
  pose proof (i_rels K s I o) as HR. rewrite Hr in HR. unfold rels in HR.
  destruct (sumf_pos_in _ (fun t => sumf (rel_count o) (t_todo t)) (s_thr s)) as (th & Hin & Hp); [lia|].
  apply In_nth with (d := dthr) in Hin. destruct Hin as (t & Ht & Et).
  destruct (rel_count_in o (t_todo th) Hp) as (n & Hn).
  exists t, n. split; auto. split; [unfold thr; rewrite Et; auto|].
  intros u m Hu Hm. destruct (Nat.eq_dec u t) as [->|Hne]; auto. exfalso.
  apply (rel_unique K s o t u n m I Ht Hu (not_eq_sym Hne)); auto. unfold thr. rewrite Et. auto.
Qed.

(* what an object that is being released looks like: count zero, no reference to it anywhere *)
Theorem releasing_is_unreferenced : forall s0 s o, inv1 K s0 -> progs_ok s0 -> reachable N K s0 s ->
  is_releasing (hobj s o) = true -> o_cnt (hobj s o) = 0 /\ units o s = 0 /\ debts o s = 0.
Proof.
  intros s0 s o I0 P0 H Hr. destruct (reachable_inv1 N K s0 s I0 P0 H) as (I & _).
  assert (Hnl : is_live (hobj s o) = false) by (unfold is_live, is_releasing in *; destruct (o_st (hobj s o)); auto; discriminate).
  pose proof (i_nolive K s I o Hnl). pose proof (i_count K s I o). lia.
Qed.

(* an object just created or just obtained from the pool, before its first increment: it is live, its
   count is zero, and the one reference unit in the whole system that designates it is the pending
   store of the thread that created / obtained it -- one owner, nobody else *)
Theorem fresh_single_owner : forall s0 s t o, inv1 K s0 -> progs_ok s0 -> reachable N K s0 s ->
  t < length (s_thr s) -> In (AInc o None) (t_todo (thr s t)) ->
  is_live (hobj s o) = true /\ o_cnt (hobj s o) = 0 /\ units o s = 1 /\ slots o s = 0 /\
  forall u, u < length (s_thr s) -> u <> t -> thr_units o (thr s u) = 0.
Proof.
  intros s0 s t o I0 P0 H Ht Hin. destruct (reachable_inv1 N K s0 s I0 P0 H) as (I & _).
  pose proof (i_acts K s I t _ Ht Hin) as A. cbn in A. destruct A as (A1 & A2 & A3).
  split; auto. split; auto. split; auto.
  destruct (zero_no_slots K s o I A2) as (Z1 & Z2). split; auto.
  intros u Hu Hne. pose proof (fresh_units K s t o I Ht Hin) as F.
  pose proof (thr_units2_le s o t u Ht Hu (not_eq_sym Hne)). lia.
Qed.

End More.
