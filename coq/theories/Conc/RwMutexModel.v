(* C18 -- model of muscle::ReaderWriterMutex (system/ReaderWriterMutex.h/.cpp) as an interleaving labelled
   transition system.  Model only (no proofs); the proofs are in RwMutexProofs*.v.

   What one transition is.  Every access to the lock's tables happens inside a critical section of the private
   [_stateMutex]; the only other shared objects are the per-waiter WaitConditions.  One transition of thread [t] is
   therefore what [t] does from one *decision point* to the next, a decision point being "about to lock _stateMutex"
   or "inside WaitCondition::Wait()":
     - a critical section (LockReadOnlyAux top / after a wake-up, LockReadWriteAux top / after a wake-up,
       UnlockReadOnlyAux, UnlockReadWriteAux), including the Notify() calls it makes, or
     - the return of Wait(): because the wait-condition's counter is positive ([CRun], the counter is flushed to 0),
       or -- for a timed wait only, at any time -- because the timeout fired ([CTimeout], counter untouched).
   The controlled scheduler (harness/sched) takes its decisions at exactly these points, so one decision of a
   controlled run of the real code is one transition here.

   Threads are identified by numbers; any number of them; each runs an arbitrary sequence of API calls
   ([LBegin t o] is enabled for every operation [o] whenever [t] is outside a call). *)
From Coq Require Import List Arith Bool.
Import ListNotations.

Definition tid := nat.

Inductive tmo := Never | Try | Timed.                 (* optTimeoutAt: MUSCLE_TIME_NEVER | 0 | a finite timestamp *)
Inductive status := SOk | STimedOut | SLockFailed.    (* B_NO_ERROR | B_TIMED_OUT | B_LOCK_FAILED *)
Inductive op := OLockRO (d : tmo) | OLockRW (d : tmo) | OUnlockRO | OUnlockRW.

(* ThreadState: the two recursion counts of one thread in _executingThreads *)
Record ent := mkEnt { e_ro : nat; e_rw : nat }.

(* muscle::Hashtable keeps insertion order; Remove() keeps the order of the others; PutAndGet() of a new key appends *)
Fixpoint find {A} (t : tid) (l : list (tid * A)) : option A :=
  match l with
  | [] => None
  | (k, v) :: r => if Nat.eqb k t then Some v else find t r
  end.

(* keys are unique in a Hashtable (setv never duplicates one), so "remove the entry of t" = "drop every entry whose key is t" *)
Fixpoint remove {A} (t : tid) (l : list (tid * A)) : list (tid * A) :=
  match l with
  | [] => []
  | (k, v) :: r => if Nat.eqb k t then remove t r else (k, v) :: remove t r
  end.

Fixpoint setv {A} (t : tid) (v : A) (l : list (tid * A)) : list (tid * A) :=
  match l with
  | [] => [(t, v)]
  | (k, w) :: r => if Nat.eqb k t then (k, v) :: r else (k, w) :: setv t v r
  end.

Definition is_nil {A} (l : list A) : bool := match l with [] => true | _ => false end.

(* The member variables guarded by _stateMutex.  A waiting-table entry carries the pending-notification counter of
   the WaitCondition that entry references; [g_pool] are the counters of the recycled RefCountableWaitConditions
   sitting in _waitConditionPool (most recently released first): RefCountableWaitCondition::operator= is a deliberate
   no-op, so a recycled WaitCondition keeps whatever notifications were pending when it was released. *)
Record gst := mkG {
  g_total : nat;                    (* _totalReadWriteRecurseCount *)
  g_exec  : list (tid * ent);       (* _executingThreads *)
  g_wr    : list (tid * nat);       (* _waitingReaderThreads, FIFO *)
  g_ww    : list (tid * nat);       (* _waitingWriterThreads, FIFO *)
  g_pool  : list nat
}.

Definition g0 : gst := mkG 0 [] [] [] [].

(* where a thread is inside the code *)
Inductive act :=
| AIdle                                   (* outside any call *)
| AEnterRO (d : tmo)                      (* LockReadOnlyAux: about to take _stateMutex at the top *)
| AEnterRW (d : tmo)                      (* LockReadWriteAux: about to take _stateMutex at the top *)
| AEnterUnRO                              (* UnlockReadOnlyAux *)
| AEnterUnRW                              (* UnlockReadWriteAux *)
| AParkRO (d : tmo)                       (* LockReadOnlyAux: inside tempWCRef()->_waitCondition.Wait(d) *)
| AWokeRO (d : tmo) (ok : bool)           (* Wait() returned (ok / B_TIMED_OUT); about to re-take _stateMutex *)
| AParkRW (d : tmo)
| AWokeRW (d : tmo) (ok : bool).

(* the upgrade path of LockReadWriteAux ("tricky case") calls the public methods recursively; its own progress: *)
Inductive frame :=
| FDrop (n i : nat) (d : tmo)             (* loop 1: UnlockReadOnly() number i (from 0) of n is in flight *)
| FInner (n : nat)                        (* the recursive LockReadWriteAux(d) is in flight *)
| FRelock (n i : nat) (lrw : status).     (* loop 3: LockReadOnly() number i of n is in flight; lrw = result of the inner call *)

Record loc := mkL {
  l_act : act;
  l_stk : list frame;
  l_op  : option op;      (* the API call in flight (ghost) *)
  l_hro : nat;            (* ghost: successful LockReadOnly  calls minus successful UnlockReadOnly  calls that have returned *)
  l_hrw : nat             (* ghost: successful LockReadWrite calls minus successful UnlockReadWrite calls that have returned *)
}.

Definition l0 : loc := mkL AIdle [] None 0 0.

Inductive outcome :=
| Done (s : status)                 (* the (sub-)call returns s *)
| Parked (a : act) (c : nat)        (* the thread enters Wait(); its counter is c at that moment *)
| Call (a : act) (f : frame).       (* upgrade path: push f, continue at a *)

Definition set_exec (g : gst) (x : list (tid * ent)) : gst := mkG (g_total g) x (g_wr g) (g_ww g) (g_pool g).
Definition set_wr (g : gst) (x : list (tid * nat)) : gst := mkG (g_total g) (g_exec g) x (g_ww g) (g_pool g).
Definition set_ww (g : gst) (x : list (tid * nat)) : gst := mkG (g_total g) (g_exec g) (g_wr g) x (g_pool g).
Definition set_total (g : gst) (n : nat) : gst := mkG n (g_exec g) (g_wr g) (g_ww g) (g_pool g).
Definition set_pool (g : gst) (p : list nat) : gst := mkG (g_total g) (g_exec g) (g_wr g) (g_ww g) p.

(* ObtainObject(): the most recently recycled WaitCondition, or a fresh one (counter 0) *)
Definition pool_get (p : list nat) : nat * list nat :=
  match p with
  | c :: r => (c, r)
  | [] => (0, [])
  end.

(* _waitingReaderThreads.Remove(tid) + the last reference to its WaitCondition going away at the end of the call *)
Definition leave_wr (t : tid) (g : gst) : gst :=
  match find t (g_wr g) with
  | Some c => mkG (g_total g) (g_exec g) (remove t (g_wr g)) (g_ww g) (c :: g_pool g)
  | None => g
  end.

Definition leave_ww (t : tid) (g : gst) : gst :=
  match find t (g_ww g) with
  | Some c => mkG (g_total g) (g_exec g) (g_wr g) (remove t (g_ww g)) (c :: g_pool g)
  | None => g
  end.

Definition bump (x : tid * nat) : tid * nat := (fst x, S (snd x)).

Section Model.

Variable pref : bool.     (* _preferWriters *)

(* IsOkayForReaderThreadsToExecuteNow / IsOkayForWriterThreadToExecuteNow *)
Definition ok_readers (g : gst) : bool :=
  Nat.eqb (g_total g) 0 && (negb pref || is_nil (g_ww g)).

Definition ok_writer (t : tid) (g : gst) : bool :=
  is_nil (g_exec g) && match g_ww g with [] => true | (h, _) :: _ => Nat.eqb h t end.

(* NotifyAllReaderThreads / NotifyNextWriterThread / NotifySomeWaitingThreads / MaybeNotifySomeWaitingThreads;
   second component: the waiting threads whose WaitCondition got a Notify(), in order *)
Definition notify_all_readers (g : gst) : gst * list tid :=
  (set_wr g (map bump (g_wr g)), map fst (g_wr g)).

Definition notify_next_writer (g : gst) : gst * list tid :=
  match g_ww g with
  | [] => (g, [])
  | (t, c) :: r => (set_ww g ((t, S c) :: r), [t])
  end.

Definition notify_some (g : gst) : gst * list tid :=
  let rw := negb (is_nil (g_wr g)) in
  let ww := negb (is_nil (g_ww g)) in
  if rw && ww then (if pref then notify_next_writer g else notify_all_readers g)
  else if rw then notify_all_readers g
  else if ww then notify_next_writer g
  else (g, []).

Definition maybe_notify (g : gst) : gst * list tid :=
  if Nat.eqb (g_total g) 0 && is_nil (g_exec g) then notify_some g else (g, []).

(* ---- the critical sections ---- *)

(* LockReadOnlyAux, first critical section *)
Definition enter_ro (t : tid) (d : tmo) (g : gst) : gst * list tid * outcome :=
  match find t (g_exec g) with
  | Some e => (set_exec g (setv t (mkEnt (S (e_ro e)) (e_rw e)) (g_exec g)), [], Done SOk)
  | None =>
      if ok_readers g then (set_exec g (setv t (mkEnt 1 0) (g_exec g)), [], Done SOk)
      else match d with
           | Try => (g, [], Done STimedOut)
           | _ => let (c, p) := pool_get (g_pool g) in
                  (mkG (g_total g) (g_exec g) (setv t c (g_wr g)) (g_ww g) p, [], Parked (AParkRO d) c)
           end
  end.

(* LockReadOnlyAux, critical section after Wait() returned *)
Definition woke_ro (t : tid) (d : tmo) (ok : bool) (g : gst) : gst * list tid * outcome :=
  if negb ok then
    let (g2, ns) := maybe_notify (leave_wr t g) in (g2, ns, Done STimedOut)
  else if ok_readers g then
    (leave_wr t (set_exec g (setv t (mkEnt 1 0) (g_exec g))), [], Done SOk)
  else (g, [], Parked (AParkRO d) (match find t (g_wr g) with Some c => c | None => 0 end)).

(* LockReadWriteAux, first critical section *)
Definition enter_rw (t : tid) (d : tmo) (g : gst) : gst * list tid * outcome :=
  match find t (g_exec g) with
  | Some e =>
      if Nat.ltb 0 (e_rw e) || Nat.eqb (length (g_exec g)) 1
      then (mkG (S (g_total g)) (setv t (mkEnt (e_ro e) (S (e_rw e))) (g_exec g)) (g_wr g) (g_ww g) (g_pool g), [], Done SOk)
      else match d with
           | Try => (g, [], Done STimedOut)     (* (fix F21) a non-blocking call neither gives its read locks up nor blocks re-taking them *)
           | _ => (g, [], match e_ro e with
                          | 0 => Call (AEnterRW d) (FInner 0)
                          | S _ => Call AEnterUnRO (FDrop (e_ro e) 0 d)
                          end)
           end
  | None =>
      if ok_writer t g
      then (mkG (S (g_total g)) (setv t (mkEnt 0 1) (g_exec g)) (g_wr g) (g_ww g) (g_pool g), [], Done SOk)
      else match d with
           | Try => (g, [], Done STimedOut)
           | _ => let (c, p) := pool_get (g_pool g) in
                  (mkG (g_total g) (g_exec g) (g_wr g) (setv t c (g_ww g)) p, [], Parked (AParkRW d) c)
           end
  end.

(* LockReadWriteAux, critical section after Wait() returned *)
Definition woke_rw (t : tid) (d : tmo) (ok : bool) (g : gst) : gst * list tid * outcome :=
  if negb ok then
    let (g2, ns) := maybe_notify (leave_ww t g) in (g2, ns, Done STimedOut)
  else if ok_writer t g then
    (leave_ww t (mkG (S (g_total g)) (setv t (mkEnt 0 1) (g_exec g)) (g_wr g) (g_ww g) (g_pool g)), [], Done SOk)
  else (g, [], Parked (AParkRW d) (match find t (g_ww g) with Some c => c | None => 0 end)).

(* UnlockReadOnlyAux *)
Definition unlock_ro (t : tid) (g : gst) : gst * list tid * outcome :=
  match find t (g_exec g) with
  | None => (g, [], Done SLockFailed)
  | Some e =>
      match e_ro e with
      | 0 => (g, [], Done SLockFailed)
      | S r =>
          if Nat.eqb r 0 && Nat.eqb (e_rw e) 0
          then let (g2, ns) := maybe_notify (set_exec g (remove t (g_exec g))) in (g2, ns, Done SOk)
          else (set_exec g (setv t (mkEnt r (e_rw e)) (g_exec g)), [], Done SOk)
      end
  end.

(* UnlockReadWriteAux *)
Definition unlock_rw (t : tid) (g : gst) : gst * list tid * outcome :=
  match find t (g_exec g) with
  | None => (g, [], Done SLockFailed)
  | Some e =>
      match e_rw e with
      | 0 => (g, [], Done SLockFailed)
      | S w =>
          let ex := if Nat.eqb w 0 && Nat.eqb (e_ro e) 0 then remove t (g_exec g) else setv t (mkEnt (e_ro e) w) (g_exec g) in
          let tot := pred (g_total g) in
          let g1 := mkG tot ex (g_wr g) (g_ww g) (g_pool g) in
          let (g2, ns) := if Nat.eqb tot 0
                          then (if Nat.ltb 0 (e_ro e) then notify_all_readers g1
                                else if is_nil ex then notify_some g1 else (g1, []))
                          else (g1, []) in
          (g2, ns, Done SOk)
      end
  end.

(* the critical section a thread at [a] executes when it is scheduled *)
Definition cs (t : tid) (a : act) (g : gst) : option (gst * list tid * outcome) :=
  match a with
  | AEnterRO d => Some (enter_ro t d g)
  | AEnterRW d => Some (enter_rw t d g)
  | AEnterUnRO => Some (unlock_ro t g)
  | AEnterUnRW => Some (unlock_rw t g)
  | AWokeRO d ok => Some (woke_ro t d ok g)
  | AWokeRW d ok => Some (woke_rw t d ok g)
  | _ => None
  end.

(* a (sub-)call returned [s]: continue the upgrade path, or return to the user *)
Fixpoint finish (stk : list frame) (s : status) : (act * list frame) + status :=
  match stk with
  | [] => inr s
  | FDrop n i d :: k =>
      match s with
      | SOk => if Nat.ltb (S i) n then inl (AEnterUnRO, FDrop n (S i) d :: k) else inl (AEnterRW d, FInner n :: k)
      | _ => finish k s                                          (* MRETURN_ON_ERROR *)
      end
  | FInner n :: k =>
      match n with
      | 0 => finish k s
      | S _ => inl (AEnterRO Never, FRelock n 0 s :: k)
      end
  | FRelock n i lrw :: k =>
      match s with
      | SOk => if Nat.ltb (S i) n then inl (AEnterRO Never, FRelock n (S i) lrw :: k) else finish k lrw
      | _ => finish k s    (* LockReadOnly() failing is out-of-memory only; the unlock-everything fallback is not modelled (never reached) *)
      end
  end.

Definition ghost_ro (o : option op) (s : status) (h : nat) : nat :=
  match o, s with
  | Some (OLockRO _), SOk => S h
  | Some OUnlockRO, SOk => pred h
  | _, _ => h
  end.

Definition ghost_rw (o : option op) (s : status) (h : nat) : nat :=
  match o, s with
  | Some (OLockRW _), SOk => S h
  | Some OUnlockRW, SOk => pred h
  | _, _ => h
  end.

Definition complete (l : loc) (s : status) : loc * option status :=
  match finish (l_stk l) s with
  | inl (a, k) => (mkL a k (l_op l) (l_hro l) (l_hrw l), None)
  | inr s' => (mkL AIdle [] None (ghost_ro (l_op l) s' (l_hro l)) (ghost_rw (l_op l) s' (l_hrw l)), Some s')
  end.

Inductive choice := CRun | CTimeout.

(* what a transition shows to the outside (compared with the controlled run of the real code) *)
Record sout := mkOut {
  o_woke : option bool;      (* Wait() returned: Some true = notified, Some false = timed out *)
  o_cs   : bool;             (* a critical section was executed *)
  o_ns   : list tid;         (* Notify() calls made, by waiting thread *)
  o_park : option nat;       (* the thread entered Wait() with this counter value *)
  o_ret  : option status     (* the API call returned to the user *)
}.

Definition setc (t : tid) (c : nat) (l : list (tid * nat)) : list (tid * nat) :=
  match find t l with Some _ => setv t c l | None => l end.

Definition keep (l : loc) (a : act) : loc := mkL a (l_stk l) (l_op l) (l_hro l) (l_hrw l).

Definition wake_out (notified : bool) : sout := mkOut (Some notified) false [] None None.

(* the thread takes _stateMutex and executes the critical section it stands in front of *)
Definition run_cs (t : tid) (g : gst) (l : loc) : option (gst * loc * sout) :=
  match cs t (l_act l) g with
  | None => None
  | Some (g', ns, Done s) =>
      let (l', r) := complete l s in Some (g', l', mkOut None true ns None r)
  | Some (g', ns, Parked a' k) => Some (g', keep l a', mkOut None true ns (Some k) None)
  | Some (g', ns, Call a' f) =>
      Some (g', mkL a' (f :: l_stk l) (l_op l) (l_hro l) (l_hrw l), mkOut None true ns None None)
  end.

Definition step (t : tid) (c : choice) (g : gst) (l : loc) : option (gst * loc * sout) :=
  match c with
  | CRun =>
      match l_act l with
      | AParkRO d =>          (* Wait() returns only when the counter is positive, and flushes it *)
          match find t (g_wr g) with
          | Some (S _) => Some (set_wr g (setc t 0 (g_wr g)), keep l (AWokeRO d true), wake_out true)
          | _ => None
          end
      | AParkRW d =>
          match find t (g_ww g) with
          | Some (S _) => Some (set_ww g (setc t 0 (g_ww g)), keep l (AWokeRW d true), wake_out true)
          | _ => None
          end
      | _ => run_cs t g l
      end
  | CTimeout =>               (* a timed Wait() may return B_TIMED_OUT at any moment; the counter is left alone *)
      match l_act l with
      | AParkRO Timed => Some (g, keep l (AWokeRO Timed false), wake_out false)
      | AParkRW Timed => Some (g, keep l (AWokeRW Timed false), wake_out false)
      | _ => None
      end
  end.

Definition act_of_op (o : op) : act :=
  match o with
  | OLockRO d => AEnterRO d
  | OLockRW d => AEnterRW d
  | OUnlockRO => AEnterUnRO
  | OUnlockRW => AEnterUnRW
  end.

(* a thread outside any call starts the API call o (no shared state is touched before the first decision point) *)
Definition begin_op (o : op) (l : loc) : option loc :=
  match l_act l, l_stk l with
  | AIdle, [] => Some (mkL (act_of_op o) [] (Some o) (l_hro l) (l_hrw l))
  | _, _ => None
  end.

(* ---- the system: the lock plus any number of threads ---- *)
Record sys := mkS { s_g : gst; s_l : tid -> loc }.

Definition upd (f : tid -> loc) (t : tid) (v : loc) : tid -> loc := fun x => if Nat.eqb x t then v else f x.

Definition sys0 : sys := mkS g0 (fun _ => l0).

(* [LEnv p]: the environment replaces the contents of the wait-condition pool by anything.  In the code a recycled
   WaitCondition goes back to _waitConditionPool at the END of the call that used it, after _stateMutex was released, so that
   release can interleave with the ObtainObject() calls other threads make inside their critical sections; [step] performs it
   together with the preceding critical section, and this label lets the pool change arbitrarily in between -- every
   interleaving of releases and obtains (and more) is covered, and no theorem depends on what the pool holds. *)
Inductive label := LBegin (t : tid) (o : op) | LStep (t : tid) (c : choice) | LEnv (p : list nat).

Definition no_out : sout := mkOut None false [] None None.

Definition sys_step (s : sys) (lab : label) : option (sys * sout) :=
  match lab with
  | LBegin t o =>
      match begin_op o (s_l s t) with
      | Some l' => Some (mkS (s_g s) (upd (s_l s) t l'), no_out)
      | None => None
      end
  | LStep t c =>
      match step t c (s_g s) (s_l s t) with
      | Some (g', l', o) => Some (mkS g' (upd (s_l s) t l'), o)
      | None => None
      end
  | LEnv p => Some (mkS (set_pool (s_g s) p) (s_l s), no_out)
  end.

Inductive reachable : sys -> Prop :=
| reach_init : reachable sys0
| reach_step : forall s lab s' o, reachable s -> sys_step s lab = Some (s', o) -> reachable s'.

End Model.
