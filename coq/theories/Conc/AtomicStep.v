(* C10 -- the premise "decrement-and-test is ONE atomic step", spelled out: two small transition systems for n threads
   that each decrement a shared counter once and are told whether they brought it to zero.
     single RMW (the code as translated: `return (--_count == 0);` on a std::atomic): the answer is computed from the value the
       one read-modify-write produced;
     split (fetch_sub, then a separate load): the answer is computed from a later read.
   No proofs in this file. *)
From Coq Require Import List Arith Bool NArith.
From Muscle Require Import Gen.Consts Conc.Pool.
Import ListNotations.
Local Open Scope nat_scope.

(* the code shape found by the translator (system/AtomicCounter.h, the branch compiled here) *)
Definition code_atomic_ok : bool :=
  (N.eqb c_c10_inc_single_rmw 1 && N.eqb c_c10_dec_single_rmw 1 && N.eqb c_c10_count_is_std_atomic 1)%bool.

(* single RMW: all threads do the same thing, so a run is determined by how many decrements have happened *)
Fixpoint run_rmw (c k : nat) : list bool :=
  match k with
  | O => []
  | S k' => (c - 1 =? 0) :: run_rmw (c - 1) k'
  end.

Fixpoint zeros (l : list bool) : nat := match l with [] => 0 | true :: t => S (zeros t) | false :: t => zeros t end.

(* split decrement: per thread (stage, answer); stage 0 = not started, 1 = subtracted, 2 = answered *)
Definition split_step (c : nat) (ths : list (nat * bool)) (t : nat) : nat * list (nat * bool) :=
  match nth t ths (2, false) with
  | (0, _) => (c - 1, upd ths t (1, false))
  | (1, _) => (c, upd ths t (2, c =? 0))
  | _ => (c, ths)
  end.

Fixpoint run_split (c : nat) (ths : list (nat * bool)) (sched : list nat) : nat * list (nat * bool) :=
  match sched with
  | [] => (c, ths)
  | t :: r => let '(c', ths') := split_step c ths t in run_split c' ths' r
  end.
