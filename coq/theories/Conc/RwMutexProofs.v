(* C18 -- lemmas about the ReaderWriterMutex LTS (RwMutexModel.v). *)
From Coq Require Import List Arith Bool Lia.
Import ListNotations.
From Muscle Require Import Conc.RwMutexModel.

(* stage 1 placeholder lemma (the invariants follow in this file) *)
Lemma find_setv_same : forall A (t : tid) (v : A) l, find t (setv t v l) = Some v.
Proof.
  induction l as [|[k w] r IH]; cbn [setv find].
  - rewrite Nat.eqb_refl. reflexivity.
  - destruct (Nat.eqb k t) eqn:E; cbn [find]; rewrite E; auto.
Qed.
