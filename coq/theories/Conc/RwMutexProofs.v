(* C18 -- basic lemmas about the ReaderWriterMutex LTS (RwMutexModel.v): association lists, the notification
   functions, the frame property of a transition (a step of thread t touches only t's own table entries and the
   notification counters of others). *)
From Coq Require Import List Arith Bool Lia.
Import ListNotations.
From Muscle Require Import Conc.RwMutexModel.

Definition memk {A} (t : tid) (l : list (tid * A)) : bool :=
  match find t l with Some _ => true | None => false end.

Section Assoc.
Context {A : Type}.
Implicit Types (l : list (tid * A)) (t k : tid) (v w : A).

Lemma find_setv_same : forall t v l, find t (setv t v l) = Some v.
Proof.
  induction l as [|[k w] r IH]; cbn [setv find].
  - rewrite Nat.eqb_refl. reflexivity.
  - destruct (Nat.eqb k t) eqn:E; cbn [find]; rewrite E; auto.
Qed.

Lemma find_setv_other : forall t k v l, k <> t -> find k (setv t v l) = find k l.
Proof.
  intros t k v l Hne. induction l as [|[k' w] r IH]; cbn [setv find].
  - destruct (Nat.eqb t k) eqn:E; auto. apply Nat.eqb_eq in E. congruence.
  - destruct (Nat.eqb k' t) eqn:E; cbn [find].
    + apply Nat.eqb_eq in E. subst k'. destruct (Nat.eqb t k) eqn:E2; auto. apply Nat.eqb_eq in E2. congruence.
    + destruct (Nat.eqb k' k); auto.
Qed.

Lemma find_remove_same : forall t l, find t (remove t l) = None.
Proof.
  induction l as [|[k w] r IH]; cbn [remove find]; auto.
  destruct (Nat.eqb k t) eqn:E; auto. cbn [find]. rewrite E. auto.
Qed.

Lemma find_remove_other : forall t k l, k <> t -> find k (remove t l) = find k l.
Proof.
  intros t k l Hne. induction l as [|[k' w] r IH]; cbn [remove find]; auto.
  destruct (Nat.eqb k' t) eqn:E; cbn [find].
  - apply Nat.eqb_eq in E. subst k'. destruct (Nat.eqb t k) eqn:E2; auto. apply Nat.eqb_eq in E2. congruence.
  - destruct (Nat.eqb k' k); auto.
Qed.

Lemma in_setv : forall t v l k w, In (k, w) (setv t v l) -> (k = t /\ w = v) \/ In (k, w) l.
Proof.
  induction l as [|[k' w'] r IH]; cbn [setv]; intros k w H.
  - destruct H as [H|[]]. inversion H. auto.
  - destruct (Nat.eqb k' t) eqn:E.
    + destruct H as [H|H]; [inversion H; subst; apply Nat.eqb_eq in E; auto | right; right; auto].
    + destruct H as [H|H]; [right; left; auto|]. destruct (IH _ _ H); auto. right. right. auto.
Qed.

Lemma in_remove : forall t l k w, In (k, w) (remove t l) -> In (k, w) l.
Proof.
  induction l as [|[k' w'] r IH]; cbn [remove]; intros k w H; auto.
  destruct (Nat.eqb k' t); [right; auto|]. destruct H as [H|H]; [left; auto | right; auto].
Qed.

Lemma find_in : forall t l v, find t l = Some v -> In (t, v) l.
Proof.
  induction l as [|[k w] r IH]; cbn [find]; intros v H; [discriminate|].
  destruct (Nat.eqb k t) eqn:E.
  - apply Nat.eqb_eq in E. inversion H. subst. left. auto.
  - right. auto.
Qed.

Lemma find_single : forall t k v w, find t [(k, v)] = Some w -> k = t /\ v = w.
Proof.
  intros t k v w H. cbn [find] in H. destruct (Nat.eqb k t) eqn:E; [|discriminate].
  apply Nat.eqb_eq in E. inversion H. auto.
Qed.

Lemma find_none_remove : forall t l, find t l = None -> remove t l = l.
Proof.
  induction l as [|[k w] r IH]; cbn [find remove]; auto.
  destruct (Nat.eqb k t); [discriminate|]. intros H. rewrite IH; auto.
Qed.

Lemma memk_setv_same : forall t v l, memk t (setv t v l) = true.
Proof. intros. unfold memk. rewrite find_setv_same. reflexivity. Qed.

Lemma memk_setv_other : forall t k v l, k <> t -> memk k (setv t v l) = memk k l.
Proof. intros. unfold memk. rewrite find_setv_other; auto. Qed.

Lemma memk_remove_same : forall t l, memk t (remove t l) = false.
Proof. intros. unfold memk. rewrite find_remove_same. reflexivity. Qed.

Lemma memk_remove_other : forall t k l, k <> t -> memk k (remove t l) = memk k l.
Proof. intros. unfold memk. rewrite find_remove_other; auto. Qed.

Lemma setv_not_nil : forall t v l, setv t v l <> [].
Proof. intros t v [|[k w] r]; cbn [setv]; [discriminate|]. destruct (Nat.eqb k t); discriminate. Qed.

Lemma is_nil_true : forall (l : list (tid * A)), is_nil l = true -> l = [].
Proof. intros [|x r]; cbn; [auto|discriminate]. Qed.

Lemma is_nil_false : forall (l : list (tid * A)), is_nil l = false -> l <> [].
Proof. intros [|x r]; cbn; [discriminate|]. intros _ H. discriminate. Qed.

End Assoc.

Lemma find_bump : forall t (l : list (tid * nat)), find t (map bump l) = option_map S (find t l).
Proof.
  induction l as [|[k c] r IH]; cbn [map find bump fst snd option_map]; auto.
  destruct (Nat.eqb k t); auto.
Qed.

Lemma memk_bump : forall t (l : list (tid * nat)), memk t (map bump l) = memk t l.
Proof. intros. unfold memk. rewrite find_bump. destruct (find t l); reflexivity. Qed.

Lemma memk_setc : forall t k c (l : list (tid * nat)), memk k (setc t c l) = memk k l.
Proof.
  intros. unfold setc. destruct (find t l) eqn:E; auto.
  destruct (Nat.eq_dec k t) as [->|Hne].
  - rewrite memk_setv_same. unfold memk. rewrite E. reflexivity.
  - apply memk_setv_other; auto.
Qed.

(* ---- the notification functions change nothing but notification counters ---- *)

Record same_shape (g g' : gst) : Prop := mkShape {
  ss_total : g_total g' = g_total g;
  ss_exec  : g_exec g' = g_exec g;
  ss_pool  : g_pool g' = g_pool g;
  ss_wr    : forall k, memk k (g_wr g') = memk k (g_wr g);
  ss_ww    : forall k, memk k (g_ww g') = memk k (g_ww g);
  ss_wr_nil : is_nil (g_wr g') = is_nil (g_wr g);
  ss_ww_nil : is_nil (g_ww g') = is_nil (g_ww g)
}.

Lemma same_shape_refl : forall g, same_shape g g.
Proof. intros. constructor; auto. Qed.

Lemma notify_all_readers_shape : forall g, same_shape g (fst (notify_all_readers g)).
Proof.
  intros g. unfold notify_all_readers. cbn [fst]. constructor; cbn; auto.
  - intros k. apply memk_bump.
  - destruct (g_wr g); reflexivity.
Qed.

Lemma notify_next_writer_shape : forall g, same_shape g (fst (notify_next_writer g)).
Proof.
  intros g. unfold notify_next_writer. destruct (g_ww g) as [|[t c] r] eqn:E; cbn [fst].
  - apply same_shape_refl.
  - constructor; cbn; auto; rewrite E; auto.
    intros k. unfold memk. cbn [find]. destruct (Nat.eqb t k); auto.
Qed.

Section WithPref.
Variable pref : bool.

Lemma notify_some_shape : forall g, same_shape g (fst (notify_some pref g)).
Proof.
  intros g. unfold notify_some.
  destruct (negb (is_nil (g_wr g)) && negb (is_nil (g_ww g))).
  - destruct pref; [apply notify_next_writer_shape | apply notify_all_readers_shape].
  - destruct (negb (is_nil (g_wr g))); [apply notify_all_readers_shape|].
    destruct (negb (is_nil (g_ww g))); [apply notify_next_writer_shape | apply same_shape_refl].
Qed.

Lemma maybe_notify_shape : forall g, same_shape g (fst (maybe_notify pref g)).
Proof.
  intros g. unfold maybe_notify. destruct (Nat.eqb (g_total g) 0 && is_nil (g_exec g)).
  - apply notify_some_shape.
  - apply same_shape_refl.
Qed.

End WithPref.

Lemma pool_get_cases : forall p, pool_get p = (0, []) /\ p = [] \/ exists c r, p = c :: r /\ pool_get p = (c, r).
Proof. intros [|c r]; cbn; eauto. Qed.
