(* C18 -- executable versions of the proved invariants, evaluated by the model driver on every state of every replayed
   trace (whose states were compared equal to the state dumps of the real ReaderWriterMutex): table mode (exclusion),
   per-thread consistency of code position and table entries (counts), hand-off (no lost wake-up).  The lemma below shows
   that the check can only fail on a state that violates the proved invariants, i.e. never on a reachable model state. *)
From Coq Require Import List Arith Bool Lia.
Import ListNotations.
From Muscle Require Import Conc.RwMutexModel Conc.RwMutexProofs Conc.RwMutexInv Conc.RwMutexLive.

Definition ent_eqb (a b : ent) : bool := Nat.eqb (e_ro a) (e_ro b) && Nat.eqb (e_rw a) (e_rw b).
Definition oent_eqb (a b : option ent) : bool :=
  match a, b with
  | Some x, Some y => ent_eqb x y
  | None, None => true
  | _, _ => false
  end.

Definition check_thread (g : gst) (t : tid) (l : loc) : bool :=
  oent_eqb (find t (g_exec g)) (exp_ent l) && Bool.eqb (memk t (g_wr g)) (inwr l) && Bool.eqb (memk t (g_ww g)) (inww l).

Definition check_mode (g : gst) : bool :=
  (Nat.eqb (g_total g) 0 && forallb (fun x => Nat.eqb (e_rw (snd x)) 0) (g_exec g))
  || match g_exec g with
     | [(_, e)] => Nat.eqb (e_rw e) (g_total g) && Nat.ltb 0 (g_total g)
     | _ => false
     end.

Definition enabled (pref : bool) (s : sys) (t : tid) : bool :=
  match step pref t CRun (s_g s) (s_l s t) with Some _ => true | None => false end.

Definition check_handoff (pref : bool) (s : sys) (tids : list tid) : bool :=
  if is_nil (g_exec (s_g s)) && negb (is_nil (g_wr (s_g s)) && is_nil (g_ww (s_g s)))
  then existsb (fun t => (memk t (g_wr (s_g s)) || memk t (g_ww (s_g s))) && enabled pref s t) tids
  else true.

Definition check_state (pref : bool) (s : sys) (tids : list tid) : bool :=
  check_mode (s_g s) && forallb (fun t => check_thread (s_g s) t (s_l s t)) tids && check_handoff pref s tids.

Lemma oent_eqb_refl : forall a, oent_eqb a a = true.
Proof. intros [[x y]|]; cbn; auto. unfold ent_eqb. cbn. rewrite !Nat.eqb_refl. reflexivity. Qed.

Lemma check_mode_complete : forall g, mode g -> check_mode g = true.
Proof.
  intros g [[Ht Hz]|(t & e & Hx & Hw & Hp)]; unfold check_mode.
  - rewrite Ht. cbn [Nat.eqb andb]. replace (forallb _ (g_exec g)) with true; [reflexivity|].
    symmetry. apply forallb_forall. intros [k e] Hin. cbn [snd]. apply Nat.eqb_eq. eauto.
  - rewrite Hx. apply orb_true_iff. right. apply andb_true_iff. split; [apply Nat.eqb_eq; auto|apply Nat.ltb_lt; auto].
Qed.

Lemma check_thread_complete : forall g t l, linv g t l -> check_thread g t l = true.
Proof.
  intros g t l [_ Hex Hwr Hww]. unfold check_thread. rewrite Hex, Hwr, Hww, oent_eqb_refl, !eqb_reflx. reflexivity.
Qed.

Theorem check_state_complete : forall pref s tids, reachable pref s ->
  (forall t, memk t (g_wr (s_g s)) = true \/ memk t (g_ww (s_g s)) = true -> In t tids) ->
  check_state pref s tids = true.
Proof.
  intros pref s tids Hr Hall. destruct (inv_reachable pref s Hr) as [Hm Hl]. unfold check_state.
  rewrite (check_mode_complete _ Hm). cbn [andb].
  replace (forallb _ tids) with true.
  2: { symmetry. apply forallb_forall. intros t _. apply check_thread_complete. apply Hl. }
  cbn [andb]. unfold check_handoff.
  destruct (is_nil (g_exec (s_g s))) eqn:En; [|reflexivity]. cbn [andb].
  destruct (is_nil (g_wr (s_g s)) && is_nil (g_ww (s_g s))) eqn:Ew; [reflexivity|]. cbn [negb].
  apply is_nil_true in En.
  assert (Hw : g_wr (s_g s) <> [] \/ g_ww (s_g s) <> []).
  { destruct (g_wr (s_g s)); [|left; discriminate]. destruct (g_ww (s_g s)); [discriminate|right; discriminate]. }
  destruct (no_lost_wakeup pref s Hr En Hw) as (t & Hin & Hen).
  apply existsb_exists. exists t. split; [apply Hall; exact Hin|].
  apply andb_true_iff. split.
  - destruct Hin as [-> | ->]; [reflexivity|apply orb_true_r].
  - unfold enabled. destruct (step pref t CRun (s_g s) (s_l s t)); [reflexivity|contradiction].
Qed.
