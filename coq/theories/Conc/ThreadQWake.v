(* C11 -- the no-lost-wake-up invariants of the Thread messaging LTS (Conc/ThreadQ.v).

   For each direction: whenever the reader of a queue has committed itself to block without looking at the queue again
   and the queue is not empty, a wake-up token exists: its wait is already satisfiable (signal bytes / end-of-file /
   notifications pending) or some thread that found the queue empty when it appended has yet to send its signal
   (or, for the internal thread, the owner has yet to send StartInternalThread's initial signal).

   This holds for every program of every thread and for both kinds of internal thread, for StartInternalThread as
   repaired ([early] = false: needsInitialSignal is read under the lock after the socket pair and the thread exist).
   With the order the code had before ([early] = true) an event-driven internal thread can lose a wake-up
   (ThreadQProofs.evd_lost_wakeup_refuted). *)
From Coq Require Import List Arith Bool Lia NArith.
From Muscle Require Import Conc.ThreadQ Conc.ThreadQWf.
Import ListNotations.

Ltac inv H := inversion H; subst; clear H.
Ltac destr_k k := destruct k as [|[] [|? ?]]; try contradiction.
Ltac kill_ret :=
  repeat match goal with
  | Hr : ret _ _ _ _ = _ |- _ => simpl in Hr
  | Hr : (if ?w then _ else _) = (_, _, _) |- _ => destruct w
  | Hr : (_, _, _) = (_, _, _) |- _ => inv Hr
  end.

(* ---------- "some user thread is at a program counter satisfying f" ---------- *)

Definition pendU (f : pc -> bool) (L : tid -> local) : Prop := exists t, f (l_pc (L t)) = true.

Lemma pendU_upd_keep : forall f L t l', f (l_pc (L t)) = false -> f (l_pc l') = false -> (pendU f (upd L t l') <-> pendU f L).
Proof.
  intros f L t l' H1 H2. unfold pendU, upd. split; intros [u Hu].
  - destruct (Nat.eqb_spec u t); [congruence | eauto].
  - exists u. destruct (Nat.eqb_spec u t); [subst; congruence | exact Hu].
Qed.

Lemma pendU_upd_new : forall f L t l', f (l_pc l') = true -> pendU f (upd L t l').
Proof. intros f L t l' H. exists t. unfold upd. rewrite Nat.eqb_refl. exact H. Qed.

Lemma pendU_upd_mono : forall f L t l', f (l_pc (L t)) = false -> pendU f L -> pendU f (upd L t l').
Proof.
  intros f L t l' H1 [u Hu]. exists u. unfold upd. destruct (Nat.eqb_spec u t); [subst; congruence | exact Hu].
Qed.

(* ---------- the tokens ---------- *)

(* a thread that owes the internal thread a signal: it appended to an empty queue, or it is StartInternalThread
   which has yet to look at the queue (under the lock) or has found it non-empty (needsInitialSignal) *)
Definition is_pend_i (p : pc) : bool :=
  match p with PSendSig CI true | PStartSpawned | PStartCheck | PStartSig true => true | _ => false end.

Definition is_pend_o (p : pc) : bool :=
  match p with PSendSig CO true => true | _ => false end.

(* the internal thread will try to dequeue before it next blocks (or it is on its way out) *)
Definition will_look (evd : bool) (p : pc) : bool :=
  match p with
  | PRecvPark CI _ => false
  | PRecvNone CI WPoll => negb evd
  | PRecvNone CI _ => false
  | PIEntry | PIStartupCS | PIAfterStartup | PILoop => negb evd
  | PIEvLoop | PIEvWait => false
  | _ => true
  end.

Definition tok_i (s : sys) : Prop := readable (s_g s) CI = true \/ pendU is_pend_i (s_l s).

Definition A_i (s : sys) : Prop :=
  g_ist (s_g s) = ILive -> will_look (g_evd (s_g s)) (l_pc (g_il (s_g s))) = false -> c_q (g_ci (s_g s)) <> [] -> tok_i s.

(* the owner has committed itself to block on the reply queue *)
Definition parked_o (s : sys) : bool :=
  match l_pc (s_l s 0) with
  | PRecvPark CO _ => true
  | PRecvNone CO WPoll => false
  | PRecvNone CO _ => negb (g_sockets (s_g s)) || g_alloc (s_g s)
  | _ => false
  end.

Definition tok_o (s : sys) : Prop :=
  readable (s_g s) CO = true \/ pendU is_pend_o (s_l s) \/ (g_ist (s_g s) = ILive /\ is_pend_o (l_pc (g_il (s_g s))) = true).

Definition A_o (s : sys) : Prop := parked_o s = true -> c_q (g_co (s_g s)) <> [] -> tok_o s.

(* a parked owner's socket is valid *)
Definition P_o (s : sys) : Prop :=
  forall w, l_pc (s_l s 0) = PRecvPark CO w -> g_sockets (s_g s) = true -> g_alloc (s_g s) = true.

Record wake (s : sys) : Prop := mkWake {
  wk_ai : A_i s;
  wk_ao : A_o s;
  wk_po : P_o s
}.

(* ---------- readability facts ---------- *)

Lemma readable_CI_same : forall g g', g_sockets g' = g_sockets g -> ch g' CI = ch g CI -> readable g' CI = readable g CI.
Proof. intros g g' H1 H2. unfold readable. simpl in *. rewrite H1, H2. reflexivity. Qed.

Lemma readable_CO_same : forall g g', g_sockets g' = g_sockets g -> ch g' CO = ch g CO -> g_alloc g' = g_alloc g ->
  g_iopen g' = g_iopen g -> readable g' CO = readable g CO.
Proof. intros g g' H1 H2 H3 H4. unfold readable. simpl in *. rewrite H1, H2, H3, H4. reflexivity. Qed.

Lemma wc_inc_pos : forall nl old, (0 < nl)%N -> N.ltb 0 (wc_inc nl old) = true.
Proof.
  intros nl old H. unfold wc_inc. apply N.ltb_lt.
  destruct (N.ltb_spec old ((old + 1) mod 4294967296)); lia.
Qed.

Lemma signal_CI_readable : forall nl g g' e, (0 < nl)%N -> signal nl CI g = (g', e) ->
  (g_sockets g = true -> g_alloc g = true /\ g_iopen g = true) -> readable g' CI = true.
Proof.
  intros nl g g' e Hnl H Hs. unfold signal in H. destruct (g_sockets g) eqn:Es.
  - destruct (Hs eq_refl) as [Ha Ho]. rewrite Ha, Ho in H. inv H. unfold readable; simpl. rewrite Es. reflexivity.
  - inv H. unfold readable; simpl. rewrite Es. apply wc_inc_pos; exact Hnl.
Qed.

Lemma signal_CO_readable : forall nl g g' e, (0 < nl)%N -> signal nl CO g = (g', e) ->
  (g_sockets g = true -> g_alloc g = true) -> readable g' CO = true.
Proof.
  intros nl g g' e Hnl H Hs. unfold signal in H. destruct (g_sockets g) eqn:Es.
  - rewrite (Hs eq_refl) in H. simpl in H. destruct (g_iopen g) eqn:Eo; inv H; unfold readable; simpl; rewrite ?Es; simpl;
      rewrite ?(Hs eq_refl), ?Eo; simpl; auto using orb_true_r.
  - inv H. unfold readable; simpl. rewrite Es. apply wc_inc_pos; exact Hnl.
Qed.

Lemma signal_readable_mono : forall nl c c' g g' e, (0 < nl)%N -> signal nl c g = (g', e) -> readable g c' = true -> readable g' c' = true.
Proof.
  intros nl c c' g g' e Hnl H R. unfold signal in H. unfold readable in *.
  destruct c, c', (g_sockets g) eqn:Es, (g_alloc g) eqn:Ea, (g_iopen g) eqn:Eo; simpl in *; inv H; simpl;
    rewrite ?Es, ?Ea, ?Eo; simpl; auto;
    try (apply wc_inc_pos; exact Hnl);
    try (apply Nat.ltb_lt in R; apply Nat.ltb_lt; lia);
    try (apply orb_true_iff in R; destruct R as [R|R]; [apply Nat.ltb_lt in R | discriminate]; apply orb_true_iff; left; apply Nat.ltb_lt; lia).
Qed.

Lemma alloc_noop : forall g, wfg g -> g_ist g = ILive -> alloc_sockets g = g.
Proof.
  intros g (W1 & W2 & W3 & W4) Hl. unfold alloc_sockets. destruct (g_sockets g) eqn:Es; simpl; auto.
  destruct (W2 Hl eq_refl) as [Ha _]. rewrite Ha. reflexivity.
Qed.

(* ---------- transfer lemmas: steps that do not concern an invariant ---------- *)

Lemma A_i_transfer : forall s g' t l',
  A_i s ->
  g_ist g' = g_ist (s_g s) -> g_il g' = g_il (s_g s) -> g_evd g' = g_evd (s_g s) ->
  c_q (g_ci g') = c_q (g_ci (s_g s)) ->
  (readable (s_g s) CI = true -> readable g' CI = true) ->
  is_pend_i (l_pc (s_l s t)) = false ->
  A_i (mkS g' (upd (s_l s) t l')).
Proof.
  intros s g' t l' A H1 H2 H3 H4 H5 H6. unfold A_i, tok_i in *. simpl. rewrite H1, H2, H3, H4.
  intros Hl Hw Hq. destruct (A Hl Hw Hq) as [R | P]; [left; auto | right; apply pendU_upd_mono; auto].
Qed.

Lemma A_i_dead : forall s', g_ist (s_g s') <> ILive -> A_i s'.
Proof. intros s' H Hl. contradiction. Qed.

Lemma A_i_looks : forall s', will_look (g_evd (s_g s')) (l_pc (g_il (s_g s'))) = true -> A_i s'.
Proof. intros s' H _ Hw. congruence. Qed.

Lemma A_i_readable : forall s', readable (s_g s') CI = true -> A_i s'.
Proof. intros s' H _ _ _. left. exact H. Qed.

Lemma A_i_transfer_int : forall s g' l',
  A_i s ->
  g_ist g' = g_ist (s_g s) -> g_evd g' = g_evd (s_g s) ->
  c_q (g_ci g') = c_q (g_ci (s_g s)) ->
  (readable (s_g s) CI = true -> readable g' CI = true) ->
  will_look (g_evd (s_g s)) (l_pc (g_il (s_g s))) = false ->
  A_i (mkS (set_il l' g') (s_l s)).
Proof.
  intros s g' l' A H1 H3 H4 H5 Hw0. unfold A_i, tok_i in *. simpl. rewrite H1, H4.
  intros Hl Hw Hq. destruct (A Hl Hw0 Hq) as [R | P]; [left | right; exact P].
  unfold readable in *. simpl in *. auto.
Qed.

Lemma tok_o_transfer : forall s g' t l',
  tok_o s ->
  g_ist g' = g_ist (s_g s) -> g_il g' = g_il (s_g s) ->
  (readable (s_g s) CO = true -> readable g' CO = true) ->
  is_pend_o (l_pc (s_l s t)) = false ->
  tok_o (mkS g' (upd (s_l s) t l')).
Proof.
  intros s g' t l' T H1 H2 H3 H4. unfold tok_o in *. simpl. rewrite H1, H2.
  destruct T as [R | [P | Q]]; [left; auto | right; left; apply pendU_upd_mono; auto | right; right; exact Q].
Qed.

Lemma readable_same_counts : forall g g' c,
  g_sockets g' = g_sockets g -> g_alloc g' = g_alloc g -> g_iopen g' = g_iopen g ->
  c_sig (ch g' c) = c_sig (ch g c) -> c_wc (ch g' c) = c_wc (ch g c) -> readable g' c = readable g c.
Proof. intros g g' c H1 H2 H3 H4 H5. unfold readable. rewrite H1, H2, H3, H4, H5. reflexivity. Qed.

Lemma readable_set_enq : forall g x m c, readable (set_ch x (enq (ch g x) m) g) c = readable g c.
Proof. intros g x m c. apply readable_same_counts; destruct x, c; reflexivity. Qed.

Lemma readable_set_deq : forall g x m r c, readable (set_ch x (deq (ch g x) m r) g) c = readable g c.
Proof. intros g x m r c. apply readable_same_counts; destruct x, c; reflexivity. Qed.

Lemma A_o_transfer : forall s g' t l',
  A_o s ->
  (parked_o (mkS g' (upd (s_l s) t l')) = true -> parked_o s = true) ->
  c_q (g_co g') = c_q (g_co (s_g s)) ->
  g_ist g' = g_ist (s_g s) -> g_il g' = g_il (s_g s) ->
  (readable (s_g s) CO = true -> readable g' CO = true) ->
  is_pend_o (l_pc (s_l s t)) = false ->
  A_o (mkS g' (upd (s_l s) t l')).
Proof.
  intros s g' t l' A Hp Hq H1 H2 H3 H4. unfold A_o in *. intros P Q. simpl in Q. rewrite Hq in Q.
  apply tok_o_transfer; auto.
Qed.

Lemma A_o_unparked : forall s', parked_o s' = false -> A_o s'.
Proof. intros s' H P. congruence. Qed.

Lemma parked_o_other : forall s g' t l', t <> 0 ->
  g_sockets g' = g_sockets (s_g s) -> g_alloc g' = g_alloc (s_g s) ->
  parked_o (mkS g' (upd (s_l s) t l')) = parked_o s.
Proof.
  intros s g' t l' Ht H1 H2. unfold parked_o. simpl. unfold upd. destruct (Nat.eqb_spec 0 t); [congruence|].
  rewrite H1, H2. reflexivity.
Qed.

Lemma A_o_transfer_int : forall s g' l',
  A_o s ->
  g_sockets g' = g_sockets (s_g s) -> g_alloc g' = g_alloc (s_g s) ->
  c_q (g_co g') = c_q (g_co (s_g s)) ->
  (readable (s_g s) CO = true -> readable g' CO = true) ->
  is_pend_o (l_pc (g_il (s_g s))) = false ->
  A_o (mkS (set_il l' g') (s_l s)).
Proof.
  intros s g' l' A H1 H2 Hq H3 H4. unfold A_o, parked_o, tok_o in *. simpl. rewrite H1, H2, Hq.
  intros P Q. destruct (A P Q) as [R | [U | [_ I]]].
  - left. unfold readable in *. simpl in *. auto.
  - right. left. exact U.
  - congruence.
Qed.

Lemma parked_alloc : forall s, P_o s -> parked_o s = true -> g_sockets (s_g s) = true -> g_alloc (s_g s) = true.
Proof.
  intros s Po. unfold parked_o. intros Hp Hs. destruct (l_pc (s_l s 0)) eqn:Ep; try discriminate; destruct c; try discriminate.
  - destruct w; try discriminate; rewrite Hs in Hp; simpl in Hp; exact Hp.
  - eapply Po; eauto.
Qed.

Section Wake.
Variable absorb_n : nat.
Variable no_limit : N.
Variable react : nat -> list (chanid * msg) * bool.
Hypothesis Hnl : (0 < no_limit)%N.

(* StartInternalThread as repaired *)
Notation Step := (Step false absorb_n no_limit react).

(* frames of a user thread's step with respect to the internal thread's queue *)
Ltac sig_frame Hs :=
  let F := fresh "F" in pose proof (signal_frame _ _ _ _ _ Hs) as F;
  destruct F as (F1 & F2 & F3 & F4 & F5 & F6 & F7 & F8 & F9 & F10 & F11 & F12).

Lemma A_i_user_step : forall s t p k c g' l' e',
  wf (g_sockets (s_g s)) (g_evd (s_g s)) s -> wake s ->
  s_l s t = mkL p k ->
  Step c (s_g s) (mkL p k) g' l' e' ->
  A_i (mkS g' (upd (s_l s) t l')).
Proof.
  intros s t p k c g' l' e' W Wk El Hst.
  pose proof (wf_wfg _ _ _ W) as Wg.
  assert (Hu : upc_ok t (mkL p k)) by (rewrite <- El; apply (wf_upc _ _ _ W)).
  destruct Wk as [Ai Ao Po].
  inversion Hst; subst; clear Hst; unfold upc_ok in Hu; simpl in Hu; try contradiction.
  - (* enqueue *)
    destruct x.
    + (* onto the internal thread's queue *)
      unfold A_i, tok_i. simpl. intros Hl Hw Hq.
      destruct (c_q (g_ci (s_g s))) as [|m0 q0] eqn:Eq.
      * right. apply pendU_upd_new. simpl. reflexivity.
      * assert (T : tok_i s) by (apply Ai; auto; rewrite Eq; discriminate).
        destruct T as [R | P]; [left; exact R | right].
        apply pendU_upd_mono; [rewrite El; reflexivity | exact P].
    + apply A_i_transfer; auto. rewrite El. reflexivity.
  - (* the signal of a thread that appended to an empty queue *)
    sig_frame H3. destruct x.
    + destruct (g_ist g') eqn:Hl; try (apply A_i_dead; simpl; congruence).
      apply A_i_readable. simpl. eapply signal_CI_readable; eauto.
      intros Hs. destruct Wg as (_ & W2 & _). apply W2; congruence.
    + apply A_i_transfer; auto.
      * destruct (F9 CI) as (Q & _). exact Q.
      * intros R. rewrite (readable_CI_same (s_g s) g'); auto. apply F10. discriminate.
      * rewrite El. reflexivity.
  - apply A_i_transfer; auto. rewrite El. destruct x; reflexivity.
  - (* absorb: a user thread only absorbs on the reply side *)
    destruct x; [destruct k; contradiction|].
    pose proof (absorb_frame absorb_n CO (s_g s)) as F. simpl in F.
    destruct F as (F1 & F2 & F3 & F4 & F5 & F6 & F7 & F8 & F9 & F10).
    apply A_i_transfer; auto.
    + destruct (F9 CI) as (Q & _). exact Q.
    + intros R. rewrite (readable_CI_same (s_g s) _); auto. apply F10. discriminate.
    + rewrite El. reflexivity.
  - unfold park_flags; try match goal with y : chanid |- _ => destruct y; [destruct k; contradiction|] end; try destruct (u_reg (g_usr (s_g s))); apply A_i_transfer; auto; rewrite El; reflexivity.
  - unfold park_flags; try match goal with y : chanid |- _ => destruct y; [destruct k; contradiction|] end; try destruct (u_reg (g_usr (s_g s))); apply A_i_transfer; auto; rewrite El; reflexivity.
  - unfold park_flags; try match goal with y : chanid |- _ => destruct y; [destruct k; contradiction|] end; try destruct (u_reg (g_usr (s_g s))); apply A_i_transfer; auto; rewrite El; reflexivity.
  - unfold park_flags; try match goal with y : chanid |- _ => destruct y; [destruct k; contradiction|] end; try destruct (u_reg (g_usr (s_g s))); apply A_i_transfer; auto; rewrite El; reflexivity.
  - unfold park_flags; try match goal with y : chanid |- _ => destruct y; [destruct k; contradiction|] end; try destruct (u_reg (g_usr (s_g s))); apply A_i_transfer; auto; rewrite El; reflexivity.
  - unfold park_flags; try match goal with y : chanid |- _ => destruct y; [destruct k; contradiction|] end; try destruct (u_reg (g_usr (s_g s))); apply A_i_transfer; auto; rewrite El; reflexivity.
  - unfold park_flags; try match goal with y : chanid |- _ => destruct y; [destruct k; contradiction|] end; try destruct (u_reg (g_usr (s_g s))); apply A_i_transfer; auto; rewrite El; reflexivity.
  - unfold park_flags; try match goal with y : chanid |- _ => destruct y; [destruct k; contradiction|] end; try destruct (u_reg (g_usr (s_g s))); apply A_i_transfer; auto; rewrite El; reflexivity.
  - unfold park_flags; try match goal with y : chanid |- _ => destruct y; [destruct k; contradiction|] end; try destruct (u_reg (g_usr (s_g s))); apply A_i_transfer; auto; rewrite El; reflexivity.
  - unfold park_flags; try match goal with y : chanid |- _ => destruct y; [destruct k; contradiction|] end; try destruct (u_reg (g_usr (s_g s))); apply A_i_transfer; auto; rewrite El; reflexivity.
  - unfold park_flags; try match goal with y : chanid |- _ => destruct y; [destruct k; contradiction|] end; try destruct (u_reg (g_usr (s_g s))); apply A_i_transfer; auto; rewrite El; reflexivity.
  - (* the thread is created: the owner has yet to check the queue *)
    unfold A_i, tok_i. simpl. intros _ _ _. right. apply pendU_upd_new. reflexivity.
  - (* ... it is about to *)
    unfold A_i, tok_i. simpl. intros _ _ _. right. apply pendU_upd_new. reflexivity.
  - (* ... it does, under the lock *)
    unfold A_i, tok_i. simpl. intros _ _ Hq. right. apply pendU_upd_new. simpl.
    destruct (c_q (g_ci (s_g s))); [contradiction | reflexivity].
  - (* the initial signal *)
    sig_frame H3.
    destruct (g_ist g') eqn:Hl; try (apply A_i_dead; simpl; congruence).
    apply A_i_readable. simpl. eapply signal_CI_readable; eauto.
    intros Hs. destruct Wg as (_ & W2 & _). apply W2; congruence.
  - unfold park_flags; try match goal with y : chanid |- _ => destruct y; [destruct k; contradiction|] end; try destruct (u_reg (g_usr (s_g s))); apply A_i_transfer; auto; rewrite El; reflexivity.
  - unfold park_flags; try match goal with y : chanid |- _ => destruct y; [destruct k; contradiction|] end; try destruct (u_reg (g_usr (s_g s))); apply A_i_transfer; auto; rewrite El; reflexivity.
  - unfold park_flags; try match goal with y : chanid |- _ => destruct y; [destruct k; contradiction|] end; try destruct (u_reg (g_usr (s_g s))); apply A_i_transfer; auto; rewrite El; reflexivity.
  - unfold park_flags; try match goal with y : chanid |- _ => destruct y; [destruct k; contradiction|] end; try destruct (u_reg (g_usr (s_g s))); apply A_i_transfer; auto; rewrite El; reflexivity.
  - unfold park_flags; try match goal with y : chanid |- _ => destruct y; [destruct k; contradiction|] end; try destruct (u_reg (g_usr (s_g s))); apply A_i_transfer; auto; rewrite El; reflexivity.
  - apply A_i_dead. simpl. discriminate.
  - (* GetOwnerWakeupSocket *)
    destruct (g_ist (s_g s)) eqn:Hl.
    + apply A_i_dead. simpl. pose proof (alloc_frame (s_g s)) as F. simpl in F. destruct F as (_ & _ & _ & F4 & _). congruence.
    + rewrite (alloc_noop _ Wg Hl). apply A_i_transfer; auto. rewrite El. reflexivity.
    + apply A_i_dead. simpl. pose proof (alloc_frame (s_g s)) as F. simpl in F. destruct F as (_ & _ & _ & F4 & _). congruence.
  - unfold park_flags; try match goal with y : chanid |- _ => destruct y; [destruct k; contradiction|] end; try destruct (u_reg (g_usr (s_g s))); apply A_i_transfer; auto; rewrite El; reflexivity.
  - match goal with Hu : user_step _ _ = _ |- _ => apply user_step_frame in Hu; destruct Hu as [? ->] end.
    apply A_i_transfer; auto. rewrite El. reflexivity.
Qed.

(* where the internal thread goes after a reply / a received Message: somewhere it will look at its queue again *)
Lemma next_reply_looks : forall evd rs q k p k' e', next_reply evd rs q k = (p, k', e') -> will_look evd p = true.
Proof.
  intros evd rs q k p k' e' H. unfold next_reply in H. destruct rs as [|[c0 m0] rest]; inv H; [|reflexivity].
  destruct q; [reflexivity|]. destruct evd; reflexivity.
Qed.

Lemma A_i_int_step : forall s p k c g' l' e',
  wf (g_sockets (s_g s)) (g_evd (s_g s)) s -> wake s ->
  g_ist (s_g s) = ILive -> g_il (s_g s) = mkL p k ->
  Step c (s_g s) (mkL p k) g' l' e' ->
  A_i (mkS (set_il l' g') (s_l s)).
Proof.
  intros s p k c g' l' e' W Wk Hl El Hst.
  pose proof (wf_wfg _ _ _ W) as Wg.
  assert (Hi : ipc_ok (mkL p k)) by (rewrite <- El; apply (wf_ipc _ _ _ W); exact Hl).
  destruct Wk as [Ai Ao Po].
  pose proof (Step_const _ _ _ _ _ _ _ _ _ _ Hst) as [Hc1 Hc2].
  assert (Look : forall q, will_look (g_evd (s_g s)) q = true -> l_pc l' = q -> A_i (mkS (set_il l' g') (s_l s))).
  { intros q Hq Hp. apply A_i_looks. simpl. rewrite Hc2, Hp. exact Hq. }
  assert (Keep : g_ist g' = g_ist (s_g s) -> c_q (g_ci g') = c_q (g_ci (s_g s)) ->
                 (readable (s_g s) CI = true -> readable g' CI = true) ->
                 will_look (g_evd (s_g s)) p = false -> A_i (mkS (set_il l' g') (s_l s))).
  { intros K1 K2 K3 K4. apply A_i_transfer_int; auto. rewrite El. exact K4. }
  inversion Hst; subst; clear Hst; unfold ipc_ok in Hi; simpl in Hi; try contradiction;
    try (eapply Look; [|reflexivity]; simpl; reflexivity).
  - (* 1: a Message of the reaction was signalled: continue with the next one, or poll again, or leave *)
    destr_k k.
    match goal with Hr : ret _ _ _ _ = _ |- _ => simpl in Hr; eapply Look; [|reflexivity]; rewrite <- Hc2; eapply next_reply_looks; exact Hr end.
  - (* 2 *)
    destr_k k.
    match goal with Hr : ret _ _ _ _ = _ |- _ => simpl in Hr; eapply Look; [|reflexivity]; eapply next_reply_looks; exact Hr end.
  - (* 3: the queue was empty *)
    destruct x; [|destr_k k]. unfold A_i. simpl. intros _ _ Hq. contradiction.
  - (* 4: a Message was received *)
    destruct x; [|destr_k k]. destr_k k.
    match goal with Hr : ret _ _ _ _ = _ |- _ => simpl in Hr; unfold dispatch in Hr; rename Hr into HR end.
    eapply Look; [|reflexivity].
    destruct m as [y|].
    + destruct (next_reply (g_evd (s_g s)) (fst (react y)) (snd (react y)) []) as [[p1 k1] e1] eqn:En. inv HR.
      eapply next_reply_looks; eauto.
    + inv HR. reflexivity.
  - (* 5: the poll found nothing *)
    destruct x; [|destr_k k]. destr_k k.
    match goal with Hr : ret _ _ _ _ = _ |- _ => simpl in Hr; inv Hr end.
    destruct (g_evd (s_g s)) eqn:Ee.
    + apply Keep; auto.
    + eapply Look; [|reflexivity]. reflexivity.
  - (* 6 *)
    destruct x; [|destr_k k]. apply Keep; auto. simpl. destruct w; try reflexivity. congruence.
  - (* 7 *)
    destruct x; [|destr_k k]. destr_k k.
    match goal with Hr : ret _ _ _ _ = _ |- _ => simpl in Hr; inv Hr end. eapply Look; [|reflexivity]. reflexivity.
  - (* 8: a timed wait of the internal thread timed out *)
    destruct x; [|destr_k k]. destr_k k.
    match goal with Hr : ret _ _ _ _ = _ |- _ => simpl in Hr; inv Hr end.
    destruct (g_evd (s_g s)) eqn:Ee.
    + apply Keep; auto.
    + eapply Look; [|reflexivity]. reflexivity.
  - (* 9 *)
    destruct (g_evd (s_g s)) eqn:Ee; [apply Keep; auto | eapply Look; [|reflexivity]; reflexivity].
  - (* 10 *)
    destruct (g_evd (s_g s)) eqn:Ee; [apply Keep; auto | eapply Look; [|reflexivity]; reflexivity].
  - (* 11 *)
    match goal with Hs : signal _ _ _ = _ |- _ => sig_frame Hs end.
    destruct (g_evd (s_g s)) eqn:Ee; [|eapply Look; [|reflexivity]; reflexivity].
    apply Keep; auto.
    + destruct (F9 CI) as (Q & _). exact Q.
    + intros R. rewrite (readable_CI_same (s_g s) g'); auto. apply F10. discriminate.
  - (* 12 *)
    destruct (g_evd (s_g s)) eqn:Ee; [apply Keep; auto | eapply Look; [|reflexivity]; reflexivity].
  - (* 13 *)
    apply Keep; auto. simpl. match goal with He : g_evd _ = true |- _ => rewrite He end. reflexivity.
  - (* 14 *)
    apply Keep; auto.
  - (* woken by a user socket: cannot happen for the internal thread, and would make it leave *)
    destruct x; [|destr_k k]. destr_k k.
    match goal with Hr : ret _ _ _ _ = _ |- _ => simpl in Hr; inv Hr end. eapply Look; [|reflexivity]. reflexivity.
Qed.

Lemma A_o_user_step : forall s t p k c g' l' e',
  wf (g_sockets (s_g s)) (g_evd (s_g s)) s -> wake s ->
  s_l s t = mkL p k ->
  Step c (s_g s) (mkL p k) g' l' e' ->
  A_o (mkS g' (upd (s_l s) t l')).
Proof.
  intros s t p k c g' l' e' W Wk El Hst.
  pose proof (wf_wfg _ _ _ W) as Wg.
  assert (Hu : upc_ok t (mkL p k)) by (rewrite <- El; apply (wf_upc _ _ _ W)).
  destruct Wk as [Ai Ao Po].
  destruct (Nat.eq_dec t 0) as [Ht | Ht].
  - (* the owner's own step *)
    subst t.
    assert (Unp : forall q, l_pc l' = q -> (match q with PRecvPark CO _ | PRecvNone CO _ => false | _ => true end) = true ->
                  A_o (mkS g' (upd (s_l s) 0 l'))).
    { intros q Hq Hm. apply A_o_unparked. unfold parked_o. simpl. rewrite upd_same, Hq.
      destruct q; try reflexivity; destruct c0; try reflexivity; discriminate. }
    inversion Hst; subst; clear Hst; unfold upc_ok in Hu; simpl in Hu; try contradiction;
      try (eapply Unp; [reflexivity | reflexivity]);
      try (destr_k k; kill_ret; eapply Unp; [reflexivity | reflexivity]);
      try (repeat match goal with y : chanid |- _ => destruct y | y : msg |- _ => destruct y | y : uop |- _ => destruct y end; try contradiction;
           destr_k k; kill_ret; eapply Unp; [reflexivity | reflexivity]).
    all: try (destruct x; simpl in Hu; destr_k k; simpl in Hu; try contradiction; kill_ret; eapply Unp; reflexivity).
    all: try (repeat match goal with y : chanid |- _ => destruct y | y : uop |- _ => destruct y end; simpl in Hu; try contradiction;
              destruct k as [|[] [|? ?]]; simpl in Hu; try contradiction; kill_ret; eapply Unp; reflexivity).
    + (* the reply queue was empty *)
      destruct x; simpl in Hu; [destruct k; contradiction|]. unfold A_o. simpl. intros _ Hq. contradiction.
    + (* the owner is about to block *)
      destruct x; simpl in Hu; [destruct k; contradiction|].
      assert (Pk : parked_o s = true).
      { unfold parked_o. rewrite El. simpl. destruct w; try congruence.
        - destruct (g_sockets (s_g s)) eqn:Es; simpl; auto.
          match goal with Hf : _ -> fd_ok _ CO = true |- _ => specialize (Hf eq_refl); unfold fd_ok in Hf; rewrite Es in Hf; simpl in Hf;
            rewrite andb_true_r in Hf; exact Hf end.
        - destruct (g_sockets (s_g s)) eqn:Es; simpl; auto.
          match goal with Hf : _ -> fd_ok _ CO = true |- _ => specialize (Hf eq_refl); unfold fd_ok in Hf; rewrite Es in Hf; simpl in Hf;
            rewrite andb_true_r in Hf; exact Hf end. }
      apply A_o_transfer; auto. rewrite El. reflexivity.
  - (* another thread's step: it can only be sending *)
    assert (Palloc : parked_o s = true -> g_sockets (s_g s) = true -> g_alloc (s_g s) = true).
    { unfold parked_o. intros Hp Hs. destruct (l_pc (s_l s 0)) eqn:Ep; try discriminate; destruct c0; try discriminate.
      - destruct w; try discriminate; rewrite Hs in Hp; simpl in Hp; exact Hp.
      - eapply Po; eauto. }
    inversion Hst; subst; clear Hst; unfold upc_ok in Hu; simpl in Hu; try contradiction;
      try (exfalso; repeat match goal with y : chanid |- _ => destruct y | y : msg |- _ => destruct y | y : uop |- _ => destruct y end;
           destruct k as [|[] [|? ?]]; simpl in Hu; try contradiction; congruence).
    + (* enqueue *)
      destruct x.
      * apply A_o_transfer; auto;
          try (rewrite parked_o_other by auto; auto; fail);
          try (intros R; rewrite readable_set_enq; exact R);
          try (rewrite El; reflexivity).
      * unfold A_o. rewrite parked_o_other by auto. simpl. intros Pk Hq.
        destruct (c_q (g_co (s_g s))) as [|m0 q0] eqn:Eq.
        -- right. left. apply pendU_upd_new. reflexivity.
        -- assert (T : tok_o s) by (apply Ao; auto; rewrite Eq; discriminate).
           apply tok_o_transfer; auto;
             try (intros R; rewrite readable_set_enq; exact R);
             try (rewrite El; reflexivity).
    + (* the signal *)
      match goal with Hs : signal _ _ _ = _ |- _ => pose proof Hs as Hsig; sig_frame Hs end.
      destruct x.
      * apply A_o_transfer; auto;
          try (rewrite parked_o_other by auto; auto; fail);
          try (destruct (F9 CO) as (Q & _); exact Q);
          try (intros R; rewrite (readable_CO_same (s_g s) g'); auto; apply F10; discriminate);
          try (rewrite El; reflexivity).
      * unfold A_o. rewrite parked_o_other by auto. intros Pk _. left. simpl.
        eapply signal_CO_readable; eauto.
    + apply A_o_transfer; auto;
        try (rewrite parked_o_other by auto; auto; fail);
        try (rewrite El; destruct x; reflexivity).
    + (* an operation on the owner's user socket *)
      match goal with Hu' : user_step _ _ = _ |- _ => apply user_step_frame in Hu'; destruct Hu' as [? ->] end.
      apply A_o_transfer; auto;
        try (rewrite parked_o_other by auto; auto; fail);
        try (rewrite El; reflexivity).
Qed.

Lemma A_o_int_step : forall s p k c g' l' e',
  wf (g_sockets (s_g s)) (g_evd (s_g s)) s -> wake s ->
  g_ist (s_g s) = ILive -> g_il (s_g s) = mkL p k ->
  Step c (s_g s) (mkL p k) g' l' e' ->
  A_o (mkS (set_il l' g') (s_l s)).
Proof.
  intros s p k c g' l' e' W Wk Hl El Hst.
  pose proof (wf_wfg _ _ _ W) as Wg.
  assert (Hi : ipc_ok (mkL p k)) by (rewrite <- El; apply (wf_ipc _ _ _ W); exact Hl).
  destruct Wk as [Ai Ao Po].
  assert (Same : g' = s_g s -> is_pend_o p = false -> A_o (mkS (set_il l' g') (s_l s))).
  { intros -> Hp. apply A_o_transfer_int; auto. rewrite El. exact Hp. }
  inversion Hst; subst; clear Hst; unfold ipc_ok in Hi; simpl in Hi; try contradiction;
    try (apply Same; reflexivity);
    try (match goal with |- context [park_flags ?y _] => destruct y; [simpl | destruct k as [|[] [|? ?]]; contradiction] end;
         apply Same; reflexivity).
  - (* 1: a Message of the reaction is appended: to its own queue, or a reply *)
    destruct x.
    { apply A_o_transfer_int; auto;
        try (intros R; rewrite readable_set_enq; exact R);
        try (rewrite El; reflexivity). }
    unfold A_o, parked_o. simpl. intros Pk Hq.
    destruct (c_q (g_co (s_g s))) as [|m0 q0] eqn:Eq.
    + right. right. split; [exact Hl | reflexivity].
    + assert (T : tok_o s) by (apply Ao; auto; rewrite Eq; discriminate).
      destruct T as [R | [U | [_ I]]].
      * left. rewrite <- R. unfold readable. reflexivity.
      * right. left. exact U.
      * rewrite El in I. discriminate.
  - (* 2: its signal *)
    destruct x.
    { match goal with Hs : signal _ _ _ = _ |- _ => pose proof Hs as Hsig; sig_frame Hs end.
      apply A_o_transfer_int; auto;
        try (destruct (F9 CO) as (Q & _); exact Q);
        try (intros R; eapply signal_readable_mono; eauto);
        try (rewrite El; reflexivity). }
    unfold A_o. intros Pk _. left. simpl.
    match goal with Hs : signal _ _ _ = _ |- _ => pose proof Hs as Hsig; sig_frame Hs end.
    assert (Pk0 : parked_o s = true).
    { unfold parked_o in *. simpl in Pk. rewrite F1, F3 in Pk. exact Pk. }
    assert (R : readable g' CO = true) by (eapply signal_CO_readable; eauto; intros; eapply parked_alloc; eauto).
    rewrite <- R. unfold readable. reflexivity.
  - (* 3 *) apply Same; [reflexivity | destruct x; reflexivity].
  - (* 4: absorb *)
    destruct x; [|destruct k as [|[] [|? ?]]; contradiction].
    pose proof (absorb_frame absorb_n CI (s_g s)) as F. simpl in F.
    destruct F as (F1 & F2 & F3 & F4 & F5 & F6 & F7 & F8 & F9 & F10).
    apply A_o_transfer_int; auto;
      try (destruct (F9 CO) as (Q & _); exact Q);
      try (intros R; rewrite (readable_CO_same (s_g s) _); auto; apply F10; discriminate);
      try (rewrite El; reflexivity).
  - (* 5: dequeue *)
    destruct x; [|destruct k as [|[] [|? ?]]; contradiction].
    apply A_o_transfer_int; auto;
      try (intros R; rewrite readable_set_deq; exact R);
      try (rewrite El; reflexivity).
  - (* 6: Wait() returned *)
    destruct x; [|destruct k as [|[] [|? ?]]; contradiction].
    apply A_o_transfer_int; auto; try (rewrite El; reflexivity).
  - (* 7: the start-up signal *)
    match goal with Hs : signal _ _ _ = _ |- _ => pose proof Hs as Hsig; sig_frame Hs end.
    apply A_o_transfer_int; auto;
      try (destruct (F9 CO) as (Q & _); exact Q);
      try (intros R; eapply signal_readable_mono; eauto);
      try (rewrite El; reflexivity).
  - (* 8: the thread leaves: end-of-file on the owner's socket *)
    unfold A_o. intros Pk Hq.
    assert (Pk0 : parked_o s = true) by (unfold parked_o, exited in *; simpl in *; exact Pk).
    destruct (g_sockets (s_g s)) eqn:Es.
    + left. simpl. unfold readable, exited. simpl. rewrite Es. simpl.
      rewrite (parked_alloc s Po Pk0 Es). apply orb_true_r.
    + assert (T : tok_o s).
      { apply Ao; auto. }
      destruct T as [R | [U | [_ I]]].
      * left. rewrite <- R. unfold readable, exited. simpl. rewrite Es. reflexivity.
      * right. left. exact U.
      * rewrite El in I. discriminate.
Qed.

(* which steps touch _messageSocketsAllocated *)
Lemma Step_alloc : forall c g l g' l' ev, Step c g l g' l' ev ->
  (g_alloc g' = g_alloc g /\ g_sockets g' = g_sockets g) \/ (exists n, l_pc l = PStartSpawn n) \/ l_pc l = PJoinWait \/ l_pc l = PGetSock.
Proof.
  intros c g l g' l' ev HS. inversion HS; subst; clear HS; simpl; eauto;
    try (left;
         try match goal with Hs : signal _ _ _ = _ |- _ => apply signal_frame in Hs end;
         try match goal with Hu : user_step _ _ = _ |- _ => apply user_step_frame in Hu; destruct Hu as [? ->] end;
         unfold park_flags;
         try match goal with x : chanid |- _ => destruct x end;
         try match goal with |- context [if u_reg ?u then _ else _] => destruct (u_reg u) end; simpl; tauto).
  - left. pose proof (absorb_frame absorb_n x g). simpl in *. tauto.
Qed.

(* what the queue of the internal thread looks like after a user thread's step that is not an append to it *)
Lemma Step_qi_user : forall t c g l g' l' ev, upc_ok t l -> Step c g l g' l' ev ->
  c_q (g_ci g') = c_q (g_ci g) \/ (exists m, l_pc l = PSendCS CI m).
Proof.
  intros t c g l g' l' ev Hu HS. inversion HS; subst; clear HS; unfold upc_ok in Hu; simpl in Hu; try contradiction; auto;
    try (left; reflexivity);
    try (left; match goal with Hs : signal _ _ _ = _ |- _ => apply signal_frame in Hs; destruct Hs as (_&_&_&_&_&_&_&_&Hs&_); destruct (Hs CI) as (Q&_); exact Q end);
    try (destruct x; simpl in Hu; try (destruct k; contradiction); first [left; reflexivity | right; eexists; reflexivity]);
    try (left; pose proof (absorb_frame absorb_n x g) as F; simpl in F; destruct F as (_&_&_&_&_&_&_&_&F&_); destruct (F CI) as (Q&_); exact Q);
    try (left; pose proof (alloc_frame g) as F; simpl in F; destruct F as (_&_&_&_&_&_&F); destruct (F CI) as (Q&_); exact Q);
    try (left; pose proof (close_frame g) as F; simpl in F; destruct F as (_&_&_&_&_&_&F); destruct (F CI) as (Q&_); exact Q);
    try (left; unfold park_flags; repeat match goal with y : chanid |- _ => destruct y end; try destruct (u_reg (g_usr g)); reflexivity);
    try (left; match goal with Hu' : user_step _ _ = _ |- _ => apply user_step_frame in Hu'; destruct Hu' as [? ->] end; reflexivity).
Qed.

(* the program counter a user thread's step leads to *)
Lemma Step_pc_user : forall t c g l g' l' ev, upc_ok t l -> Step c g l g' l' ev ->
  forall w, l_pc l' = PRecvPark CO w -> l_pc l = PRecvNone CO w /\ g' = g /\ (g_sockets g = true -> g_alloc g = true).
Proof.
  intros t c g l g' l' ev Hu HS.
  inversion HS; subst; clear HS; unfold upc_ok in Hu; simpl in Hu; try contradiction;
    repeat match goal with y : chanid |- _ => destruct y | y : msg |- _ => destruct y | y : uop |- _ => destruct y end; simpl in Hu; try contradiction;
    try (destruct k as [|[] [|? ?]]; simpl in Hu; try contradiction; kill_ret);
    simpl; intros; try discriminate;
    try match goal with Hq : PRecvPark _ _ = PRecvPark _ _ |- _ => inv Hq end; repeat split; auto.
  match goal with Hf : _ -> fd_ok _ CO = true |- _ => intros Hs; specialize (Hf Hs); unfold fd_ok in Hf;
    rewrite Hs in Hf; simpl in Hf; rewrite andb_true_r in Hf; exact Hf end.
Qed.

(* ---------- assembling the invariant ---------- *)

Variable ok : label -> bool.
Variables smode emode : bool.

Notation sys_step := (sys_step false absorb_n no_limit react).
Notation reachable_if := (reachable_if false absorb_n no_limit react).

Lemma wake_init : wake (sys0 smode emode).
Proof.
  constructor.
  - intros H. discriminate.
  - intros H. discriminate.
  - intros w H. discriminate.
Qed.

Lemma wf_self : forall s, wf smode emode s -> wf (g_sockets (s_g s)) (g_evd (s_g s)) s.
Proof. intros s W. rewrite (wf_sockets _ _ _ W), (wf_evd _ _ _ W). exact W. Qed.

Lemma pc_of_op_facts : forall o,
  is_pend_i (pc_of_op o) = false /\ is_pend_o (pc_of_op o) = false /\
  (forall w, pc_of_op o <> PRecvPark CO w) /\
  (match pc_of_op o with PRecvPark CO _ | PRecvNone CO _ => false | _ => true end) = true.
Proof.
  intros o. destruct o as [[] ?| | | | | | []]; simpl; repeat split; intros; try discriminate; eauto.
Qed.

Lemma wake_step : forall s lab s' ev, wf smode emode s -> wake s -> ok lab = true ->
  sys_step s lab = Some (s', ev) -> wake s'.
Proof.
  intros s lab s' ev W0 Wk Hok H.
  pose proof (wf_self s W0) as W. pose proof (wf_wfg _ _ _ W0) as Wg.
  destruct lab as [t o | [t|] c]; simpl in H.
  - (* a thread starts an API call *)
    destruct (begin_op t o (s_l s t)) eqn:Hb; [|discriminate]. inv H.
    unfold begin_op in Hb. destruct (l_pc (s_l s t)) eqn:Hp; try discriminate.
    destruct (l_k (s_l s t)) eqn:Hk; try discriminate.
    destruct (allowed t o) eqn:Ha; [|discriminate]. inv Hb.
    destruct (pc_of_op_facts o) as (O1 & O2 & O3 & O6).
    destruct Wk as [Ai Ao Po].
    constructor.
    + apply A_i_transfer; auto. rewrite Hp. reflexivity.
    + destruct (Nat.eq_dec t 0) as [-> | Ht].
      * apply A_o_unparked. unfold parked_o. simpl.
        destruct (pc_of_op o); try reflexivity; destruct c; try reflexivity; discriminate.
      * apply A_o_transfer; auto; try (rewrite Hp; reflexivity).
        rewrite parked_o_other by auto. auto.
    + intros w. simpl. unfold upd. destruct (Nat.eqb_spec 0 t).
      * simpl. intros Hq. exfalso. eapply O3; eauto.
      * apply Po.
  - (* a user thread's step *)
    destruct (step false absorb_n no_limit react c (s_g s) (s_l s t)) as [[[g' l'] e']|] eqn:Hst; [|discriminate]. inv H.
    apply step_spec in Hst.
    destruct (s_l s t) as [p k] eqn:El.
    assert (Hu : upc_ok t (mkL p k)) by (rewrite <- El; apply (wf_upc _ _ _ W)).
    pose proof (Step_pc_user _ _ _ _ _ _ _ Hu Hst) as PC1.
    constructor.
    + eapply A_i_user_step; eauto.
    + eapply A_o_user_step; eauto.
    + (* P_o *)
      intros w. simpl. unfold upd. destruct (Nat.eqb_spec 0 t) as [<- | Ht].
      * intros Hq. destruct (PC1 w Hq) as (_ & -> & Hal). exact Hal.
      * intros Hq Hs. destruct (Step_alloc _ _ _ _ _ _ Hst) as [[A1 A2] | [[n Hn] | [Hj | Hg]]]; simpl in *.
        -- rewrite A1. rewrite A2 in Hs. eapply (wk_po _ Wk); eauto.
        -- subst p. unfold upc_ok in Hu. simpl in Hu. destruct k; [congruence | contradiction].
        -- subst p. unfold upc_ok in Hu. simpl in Hu. destruct k as [|[] [|]]; try contradiction; congruence.
        -- subst p. unfold upc_ok in Hu. simpl in Hu. destruct k; [congruence | contradiction].
  - (* the internal thread's step *)
    destruct (g_ist (s_g s)) eqn:Hl; try discriminate.
    destruct (step false absorb_n no_limit react c (s_g s) (g_il (s_g s))) as [[[g' l'] e']|] eqn:Hst; [|discriminate]. inv H.
    apply step_spec in Hst.
    destruct (g_il (s_g s)) as [p k] eqn:El.
    assert (Hi : ipc_ok (mkL p k)) by (rewrite <- El; apply (wf_ipc _ _ _ W); exact Hl).
    constructor.
    + eapply A_i_int_step; eauto.
    + eapply A_o_int_step; eauto.
    + intros w. simpl. intros Hq Hs.
      destruct (Step_alloc _ _ _ _ _ _ Hst) as [[A1 A2] | [[n Hn] | [Hj | Hg]]]; simpl in *;
        try (subst p; unfold ipc_ok in Hi; simpl in Hi; contradiction).
      rewrite A1. rewrite A2 in Hs. eapply (wk_po _ Wk); eauto.
Qed.

Theorem reachable_wake : forall s, reachable_if ok smode emode s -> wake s.
Proof.
  intros s H. induction H.
  - apply wake_init.
  - eapply wake_step; eauto. eapply reachable_wf; eauto.
Qed.

End Wake.
