(* C11 -- the no-lost-wake-up invariants of the Thread messaging LTS (Conc/ThreadQ.v).

   For each direction: whenever the reader of a queue has committed itself to block without looking at the queue again
   and the queue is not empty, a wake-up token exists: its wait is already satisfiable (signal bytes / end-of-file /
   notifications pending) or some thread that found the queue empty when it appended has yet to send its signal
   (or, for the internal thread, the owner has yet to send StartInternalThread's initial signal).

   For the default InternalThreadEntry this holds for every program of every thread.  For the event-driven
   InternalThreadEntry (which blocks before it has looked at its queue) it holds under the contract [owner_sends_ci]
   (only the owner sends to the internal thread); without it the unlocked, too-early read of HasItems() in
   StartInternalThread loses a wake-up (see ThreadQProofs.evd_lost_wakeup_refuted). *)
From Coq Require Import List Arith Bool Lia.
From Muscle Require Import Conc.ThreadQ Conc.ThreadQWf.
Import ListNotations.

Ltac inv H := inversion H; subst; clear H.
Ltac destr_k k := destruct k as [|[] [|? ?]]; try contradiction.
Ltac kill_ret :=
  repeat match goal with
  | Hr : ret _ _ _ _ = _ |- _ => simpl in Hr
  | Hr : (if ?w then _ else _) = (_, _, _) |- _ => destruct w
  | Hr : (_, _, _) = (_, _, _) |- _ => inv Hr
  end.

(* ---------- "some user thread is at a program counter satisfying f" ---------- *)

Definition pendU (f : pc -> bool) (L : tid -> local) : Prop := exists t, f (l_pc (L t)) = true.

Lemma pendU_upd_keep : forall f L t l', f (l_pc (L t)) = false -> f (l_pc l') = false -> (pendU f (upd L t l') <-> pendU f L).
Proof.
  intros f L t l' H1 H2. unfold pendU, upd. split; intros [u Hu].
  - destruct (Nat.eqb_spec u t); [congruence | eauto].
  - exists u. destruct (Nat.eqb_spec u t); [subst; congruence | exact Hu].
Qed.

Lemma pendU_upd_new : forall f L t l', f (l_pc l') = true -> pendU f (upd L t l').
Proof. intros f L t l' H. exists t. unfold upd. rewrite Nat.eqb_refl. exact H. Qed.

Lemma pendU_upd_mono : forall f L t l', f (l_pc (L t)) = false -> pendU f L -> pendU f (upd L t l').
Proof.
  intros f L t l' H1 [u Hu]. exists u. unfold upd. destruct (Nat.eqb_spec u t); [subst; congruence | exact Hu].
Qed.

(* ---------- the tokens ---------- *)

(* a thread that owes the internal thread a signal: it appended to an empty queue, or it is StartInternalThread
   with needsInitialSignal set *)
Definition is_pend_i (p : pc) : bool :=
  match p with PSendSig CI true | PStartSig true => true | _ => false end.

Definition is_pend_o (p : pc) : bool :=
  match p with PSendSig CO true => true | _ => false end.

(* the internal thread will try to dequeue before it next blocks (or it is on its way out) *)
Definition will_look (evd : bool) (p : pc) : bool :=
  match p with
  | PRecvPark CI _ => false
  | PRecvNone CI WPoll => negb evd
  | PRecvNone CI _ => false
  | PIEntry | PIStartupCS | PIAfterStartup | PILoop | PIEvLoop | PIEvWait => negb evd
  | _ => true
  end.

Definition tok_i (s : sys) : Prop := readable (s_g s) CI = true \/ pendU is_pend_i (s_l s).

Definition A_i (s : sys) : Prop :=
  g_ist (s_g s) = ILive -> will_look (g_evd (s_g s)) (l_pc (g_il (s_g s))) = false -> c_q (g_ci (s_g s)) <> [] -> tok_i s.

(* the owner has committed itself to block on the reply queue *)
Definition parked_o (s : sys) : bool :=
  match l_pc (s_l s 0) with
  | PRecvPark CO _ => true
  | PRecvNone CO WPoll => false
  | PRecvNone CO _ => negb (g_sockets (s_g s)) || g_alloc (s_g s)
  | _ => false
  end.

Definition tok_o (s : sys) : Prop :=
  readable (s_g s) CO = true \/ pendU is_pend_o (s_l s) \/ (g_ist (s_g s) = ILive /\ is_pend_o (l_pc (g_il (s_g s))) = true).

Definition A_o (s : sys) : Prop := parked_o s = true -> c_q (g_co (s_g s)) <> [] -> tok_o s.

(* a parked owner's socket is valid *)
Definition P_o (s : sys) : Prop :=
  forall w, l_pc (s_l s 0) = PRecvPark CO w -> g_sockets (s_g s) = true -> g_alloc (s_g s) = true.

(* the contract's footprint on the state, and the accuracy of needsInitialSignal (event-driven threads only) *)
Definition in_ci_send (p : pc) : bool := match p with PSendCS CI _ | PSendSig CI _ => true | _ => false end.

Definition nociu (s : sys) : Prop := forall t, t <> 0 -> in_ci_send (l_pc (s_l s t)) = false.

Definition B_i (s : sys) : Prop := forall n, l_pc (s_l s 0) = PStartSpawn n -> n = negb (is_nil (c_q (g_ci (s_g s)))).

Record wake (s : sys) : Prop := mkWake {
  wk_ai : A_i s;
  wk_ao : A_o s;
  wk_po : P_o s;
  wk_strict : g_evd (s_g s) = true -> nociu s /\ B_i s
}.

(* ---------- readability facts ---------- *)

Lemma readable_CI_same : forall g g', g_sockets g' = g_sockets g -> ch g' CI = ch g CI -> readable g' CI = readable g CI.
Proof. intros g g' H1 H2. unfold readable. simpl in *. rewrite H1, H2. reflexivity. Qed.

Lemma readable_CO_same : forall g g', g_sockets g' = g_sockets g -> ch g' CO = ch g CO -> g_alloc g' = g_alloc g ->
  g_iopen g' = g_iopen g -> readable g' CO = readable g CO.
Proof. intros g g' H1 H2 H3 H4. unfold readable. simpl in *. rewrite H1, H2, H3, H4. reflexivity. Qed.

Lemma signal_CI_readable : forall g g' e, signal CI g = (g', e) ->
  (g_sockets g = true -> g_alloc g = true /\ g_iopen g = true) -> readable g' CI = true.
Proof.
  intros g g' e H Hs. unfold signal in H. destruct (g_sockets g) eqn:Es.
  - destruct (Hs eq_refl) as [Ha Ho]. rewrite Ha, Ho in H. inv H. unfold readable; simpl. rewrite Es. reflexivity.
  - inv H. unfold readable; simpl. rewrite Es. reflexivity.
Qed.

Lemma signal_CO_readable : forall g g' e, signal CO g = (g', e) ->
  (g_sockets g = true -> g_alloc g = true) -> readable g' CO = true.
Proof.
  intros g g' e H Hs. unfold signal in H. destruct (g_sockets g) eqn:Es.
  - rewrite (Hs eq_refl) in H. simpl in H. destruct (g_iopen g) eqn:Eo; inv H; unfold readable; simpl; rewrite ?Es; simpl;
      rewrite ?(Hs eq_refl), ?Eo; simpl; auto using orb_true_r.
  - inv H. unfold readable; simpl. rewrite Es. reflexivity.
Qed.

Lemma signal_readable_mono : forall c c' g g' e, signal c g = (g', e) -> readable g c' = true -> readable g' c' = true.
Proof.
  intros c c' g g' e H R. unfold signal in H. unfold readable in *.
  destruct c, c', (g_sockets g) eqn:Es, (g_alloc g) eqn:Ea, (g_iopen g) eqn:Eo; simpl in *; inv H; simpl;
    rewrite ?Es, ?Ea, ?Eo; simpl; auto;
    try (apply Nat.ltb_lt in R; apply Nat.ltb_lt; lia);
    try (apply orb_true_iff in R; destruct R as [R|R]; [apply Nat.ltb_lt in R | discriminate]; apply orb_true_iff; left; apply Nat.ltb_lt; lia).
Qed.

Lemma alloc_noop : forall g, wfg g -> g_ist g = ILive -> alloc_sockets g = g.
Proof.
  intros g (W1 & W2 & W3 & W4) Hl. unfold alloc_sockets. destruct (g_sockets g) eqn:Es; simpl; auto.
  destruct (W2 Hl eq_refl) as [Ha _]. rewrite Ha. reflexivity.
Qed.

(* ---------- transfer lemmas: steps that do not concern an invariant ---------- *)

Lemma A_i_transfer : forall s g' t l',
  A_i s ->
  g_ist g' = g_ist (s_g s) -> g_il g' = g_il (s_g s) -> g_evd g' = g_evd (s_g s) ->
  c_q (g_ci g') = c_q (g_ci (s_g s)) ->
  (readable (s_g s) CI = true -> readable g' CI = true) ->
  is_pend_i (l_pc (s_l s t)) = false ->
  A_i (mkS g' (upd (s_l s) t l')).
Proof.
  intros s g' t l' A H1 H2 H3 H4 H5 H6. unfold A_i, tok_i in *. simpl. rewrite H1, H2, H3, H4.
  intros Hl Hw Hq. destruct (A Hl Hw Hq) as [R | P]; [left; auto | right; apply pendU_upd_mono; auto].
Qed.

Lemma A_i_dead : forall s', g_ist (s_g s') <> ILive -> A_i s'.
Proof. intros s' H Hl. contradiction. Qed.

Lemma A_i_looks : forall s', will_look (g_evd (s_g s')) (l_pc (g_il (s_g s'))) = true -> A_i s'.
Proof. intros s' H _ Hw. congruence. Qed.

Lemma A_i_readable : forall s', readable (s_g s') CI = true -> A_i s'.
Proof. intros s' H _ _ _. left. exact H. Qed.

Lemma A_i_transfer_int : forall s g' l',
  A_i s ->
  g_ist g' = g_ist (s_g s) -> g_evd g' = g_evd (s_g s) ->
  c_q (g_ci g') = c_q (g_ci (s_g s)) ->
  (readable (s_g s) CI = true -> readable g' CI = true) ->
  will_look (g_evd (s_g s)) (l_pc (g_il (s_g s))) = false ->
  A_i (mkS (set_il l' g') (s_l s)).
Proof.
  intros s g' l' A H1 H3 H4 H5 Hw0. unfold A_i, tok_i in *. simpl. rewrite H1, H4.
  intros Hl Hw Hq. destruct (A Hl Hw0 Hq) as [R | P]; [left | right; exact P].
  unfold readable in *. simpl in *. auto.
Qed.

Lemma tok_o_transfer : forall s g' t l',
  tok_o s ->
  g_ist g' = g_ist (s_g s) -> g_il g' = g_il (s_g s) ->
  (readable (s_g s) CO = true -> readable g' CO = true) ->
  is_pend_o (l_pc (s_l s t)) = false ->
  tok_o (mkS g' (upd (s_l s) t l')).
Proof.
  intros s g' t l' T H1 H2 H3 H4. unfold tok_o in *. simpl. rewrite H1, H2.
  destruct T as [R | [P | Q]]; [left; auto | right; left; apply pendU_upd_mono; auto | right; right; exact Q].
Qed.

Section Wake.
Variable absorb_n : nat.
Variable react : nat -> list msg * bool.

Notation Step := (Step absorb_n react).

(* frames of a user thread's step with respect to the internal thread's queue *)
Ltac sig_frame Hs :=
  let F := fresh "F" in pose proof (signal_frame _ _ _ _ Hs) as F;
  destruct F as (F1 & F2 & F3 & F4 & F5 & F6 & F7 & F8 & F9 & F10 & F11 & F12).

Lemma A_i_user_step : forall s t p k c g' l' e',
  wf (g_sockets (s_g s)) (g_evd (s_g s)) s -> wake s ->
  s_l s t = mkL p k ->
  Step c (s_g s) (mkL p k) g' l' e' ->
  A_i (mkS g' (upd (s_l s) t l')).
Proof.
  intros s t p k c g' l' e' W Wk El Hst.
  pose proof (wf_wfg _ _ _ W) as Wg.
  assert (Hu : upc_ok t (mkL p k)) by (rewrite <- El; apply (wf_upc _ _ _ W)).
  destruct Wk as [Ai Ao Po Hstrict].
  inversion Hst; subst; clear Hst; unfold upc_ok in Hu; simpl in Hu; try contradiction.
  - (* enqueue *)
    destruct x.
    + (* onto the internal thread's queue *)
      unfold A_i, tok_i. simpl. intros Hl Hw Hq.
      destruct (c_q (g_ci (s_g s))) as [|m0 q0] eqn:Eq.
      * right. apply pendU_upd_new. simpl. reflexivity.
      * assert (T : tok_i s) by (apply Ai; auto; rewrite Eq; discriminate).
        destruct T as [R | P]; [left; exact R | right].
        apply pendU_upd_mono; [rewrite El; reflexivity | exact P].
    + apply A_i_transfer; auto. rewrite El. reflexivity.
  - (* the signal of a thread that appended to an empty queue *)
    sig_frame H3. destruct x.
    + destruct (g_ist g') eqn:Hl; try (apply A_i_dead; simpl; congruence).
      apply A_i_readable. simpl. eapply signal_CI_readable; eauto.
      intros Hs. destruct Wg as (_ & W2 & _). apply W2; congruence.
    + apply A_i_transfer; auto.
      * destruct (F9 CI) as (Q & _). exact Q.
      * intros R. rewrite (readable_CI_same (s_g s) g'); auto. apply F10. discriminate.
      * rewrite El. reflexivity.
  - apply A_i_transfer; auto. rewrite El. destruct x; reflexivity.
  - (* absorb: a user thread only absorbs on the reply side *)
    destruct x; [destruct k; contradiction|].
    pose proof (absorb_frame absorb_n CO (s_g s)) as F. simpl in F.
    destruct F as (F1 & F2 & F3 & F4 & F5 & F6 & F7 & F8 & F9 & F10).
    apply A_i_transfer; auto.
    + destruct (F9 CI) as (Q & _). exact Q.
    + intros R. rewrite (readable_CI_same (s_g s) _); auto. apply F10. discriminate.
    + rewrite El. reflexivity.
  - apply A_i_transfer; auto. rewrite El. reflexivity.
  - destruct x; [destruct k; contradiction|]. apply A_i_transfer; auto. rewrite El. reflexivity.
  - apply A_i_transfer; auto. rewrite El. reflexivity.
  - apply A_i_transfer; auto. rewrite El. reflexivity.
  - apply A_i_transfer; auto. rewrite El. reflexivity.
  - apply A_i_transfer; auto. rewrite El. reflexivity.
  - apply A_i_transfer; auto. rewrite El. reflexivity.
  - destruct x; [destruct k; contradiction|]. apply A_i_transfer; auto. rewrite El. reflexivity.
  - apply A_i_transfer; auto. rewrite El. reflexivity.
  - apply A_i_transfer; auto. rewrite El. reflexivity.
  - apply A_i_transfer; auto. rewrite El. reflexivity.
  - (* the thread is created *)
    destr_k k. subst t.
    pose proof (alloc_frame (s_g s)) as F. simpl in F. destruct F as (F1 & F2 & F3 & F4 & F5 & F6 & F7).
    unfold A_i, tok_i. simpl. rewrite F2. intros _ Hw Hq.
    destruct (g_evd (s_g s)) eqn:Ee; simpl in Hw; [|discriminate].
    destruct (Hstrict eq_refl) as [_ B].
    right. apply pendU_upd_new. simpl.
    rewrite (B needs) by (rewrite El; reflexivity).
    destruct (F7 CI) as (Q & _). simpl in Q. rewrite Q in Hq.
    destruct (c_q (g_ci (s_g s))); [contradiction | reflexivity].
  - (* the initial signal *)
    sig_frame H3.
    destruct (g_ist g') eqn:Hl; try (apply A_i_dead; simpl; congruence).
    apply A_i_readable. simpl. eapply signal_CI_readable; eauto.
    intros Hs. destruct Wg as (_ & W2 & _). apply W2; congruence.
  - apply A_i_transfer; auto. rewrite El. reflexivity.
  - apply A_i_transfer; auto. rewrite El. reflexivity.
  - apply A_i_transfer; auto. rewrite El. reflexivity.
  - apply A_i_transfer; auto. rewrite El. reflexivity.
  - apply A_i_transfer; auto. rewrite El. reflexivity.
  - apply A_i_dead. simpl. discriminate.
  - (* GetOwnerWakeupSocket *)
    destruct (g_ist (s_g s)) eqn:Hl.
    + apply A_i_dead. simpl. pose proof (alloc_frame (s_g s)) as F. simpl in F. destruct F as (_ & _ & _ & F4 & _). congruence.
    + rewrite (alloc_noop _ Wg Hl). apply A_i_transfer; auto. rewrite El. reflexivity.
    + apply A_i_dead. simpl. pose proof (alloc_frame (s_g s)) as F. simpl in F. destruct F as (_ & _ & _ & F4 & _). congruence.
Qed.

End Wake.
