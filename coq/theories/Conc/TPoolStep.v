(* C19 -- every transition of the ThreadPool LTS preserves the state invariants SInv, UInv, WC and keeps the
   assertion flag down. *)
From Coq Require Import List Arith Bool Lia.
From Muscle Require Import Conc.TPool Conc.TPoolLemmas Conc.TPoolInv.
Import ListNotations.

(* ---------------------------------------------------------------- handler entry / return: the thread keeps its client *)

Lemma upd_thr_keep_inv : forall s t h h',
  SInv s -> tget t (s_thr s) = Some h -> th_client h <> None ->
  th_client h' = th_client h -> th_exited h' = th_exited h -> thr_wf h' ->
  SInv (upd_thr s t h').
Proof.
  intros s t h h' I Ht Hcn Hc He Hwf. dI I. unfold upd_thr.
  constructor; sst; auto.
  - now apply tkeys_tset_nodup.
  - intros t' x. rewrite tget_tset. destruct (Nat.eqb_spec t' t) as [->|]; [intros _; eauto|apply i_fresh_thr0].
  - intros t' x c. rewrite tget_tset. destruct (Nat.eqb_spec t' t) as [->|]; [|apply i_thr_reg0].
    intros E; injection E as <-. rewrite Hc. eauto.
  - intros t1 t2 h1 h2 c. rewrite !tget_tset.
    destruct (Nat.eqb_spec t1 t) as [->|]; destruct (Nat.eqb_spec t2 t) as [->|]; auto.
    + intros E; injection E as <-. rewrite Hc. eauto.
    + intros Hg E; injection E as <-. rewrite Hc. eauto.
    + apply i_thr_uniq0.
  - intros Hsh c Hr. destruct (i_reg_thr0 Hsh c Hr) as [t' [x [H1 H2]]].
    destruct (Nat.eq_dec t' t) as [->|Hn].
    + exists t, h'. rewrite tget_tset_same. split; auto. congruence.
    + exists t', x. now rewrite tget_tset_other.
  - intros t' Ha. destruct (i_avail_idle0 t' Ha) as [x [H1 [H2 H3]]]. exists x. split; auto.
    rewrite tget_tset_other; auto. intros ->. apply thr_idle_spec in H2. destruct H2 as [H2 _]. congruence.
  - intros Hsh t' Ha. destruct (i_active_busy0 Hsh t' Ha) as [x [c [H1 H2]]].
    destruct (Nat.eq_dec t' t) as [->|Hn].
    + exists h', c. rewrite tget_tset_same. split; auto. congruence.
    + exists x, c. now rewrite tget_tset_other.
  - intros t' x. rewrite tget_tset. destruct (Nat.eqb_spec t' t) as [->|]; [intros E; now injection E as <-|apply i_thr_wf0].
  - intros t' x. rewrite tget_tset. destruct (Nat.eqb_spec t' t) as [->|]; [|apply i_place0].
    intros E; injection E as <-. rewrite He. eauto.
Qed.

Lemma upd_thr_uinv : forall s t h', UInv s -> UInv (upd_thr s t h').
Proof. intros s t h' [U1 U2 U3]. constructor; auto. Qed.

Lemma upd_thr_wc : forall s t h', WC s -> WC (upd_thr s t h').
Proof. intros s t h' W. exact W. Qed.

(* ---------------------------------------------------------------- RegisterClient *)

Lemma register_inv : forall s c,
  SInv s -> UInv s -> WC s -> in_unreg s c = false -> lmem c (s_cl s) = false ->
  let s' := set_cl (set_reg s (tset c false (s_reg s))) (s_cl s ++ [c]) in SInv s' /\ UInv s' /\ WC s'.
Proof.
  intros s c I U W Hu Hcl s'. dI I. apply lmem_false in Hcl.
  assert (Hrc : tget c (s_reg s) = None) by now apply i_reg_cl0.
  assert (Hother : forall c', tget c' (s_reg s) <> None -> tget c' (tset c false (s_reg s)) = tget c' (s_reg s)).
  { intros c' Hn. apply tget_tset_other. intros ->. congruence. }
  split; [|split].
  - unfold s'. constructor; sst; auto.
    + intros c' q Hg. destruct (i_pend_ok0 c' q Hg) as [H1 H2]. split; auto. rewrite Hother; congruence.
    + intros c' q Hg Hq. rewrite Hother; [eauto|]. erewrite i_defer_ok0; eauto. discriminate.
    + intros t h c' Ht Hc. rewrite Hother; [eauto|]. erewrite i_thr_reg0; eauto. discriminate.
    + intros Hsh c'. rewrite tget_tset. destruct (Nat.eqb_spec c' c); [discriminate|]. now apply i_reg_thr0.
    + intros c' Hn. rewrite In_app_single in Hn. rewrite tget_tset_other; [apply i_reg_cl0|]; tauto.
  - destruct U as [U1 U2 U3]. unfold in_unreg in Hu.
    assert (Ho : forall c', tget c' (s_unreg s) <> None -> outstanding s' c' = outstanding s c').
    { intros c' Hn. apply outstanding_eq; unfold s'; sst; auto. apply tget_tset_other. intros ->.
      destruct (tget c (s_unreg s)); [discriminate|congruence]. }
    constructor; unfold s'; sst; auto.
    + intros c' Hg. fold s'. rewrite Ho; [auto|congruence].
    + intros c' u Hg Hn. fold s'. rewrite Ho; [eauto|congruence].
  - exact W.
Qed.

(* ---------------------------------------------------------------- SendMessageToThreadPool *)

Lemma send_inv : forall s c m s' r,
  SInv s -> UInv s -> WC s -> in_unreg s c = false -> pool_send s c m = (s', r) -> SInv s' /\ UInv s' /\ WC s'.
Proof.
  intros s c m s' r I U W Hu Hs. dI I. unfold pool_send in Hs. unfold in_unreg in Hu.
  assert (Hnu : tget c (s_unreg s) = None) by (destruct (tget c (s_unreg s)); [discriminate|auto]).
  destruct (tget c (s_reg s)) as [[|]|] eqn:Hr.
  - (* being handled: deferred *)
    injection Hs as <- <-. split; [|split].
    + constructor; sst; auto.
      intros c' q. unfold tappend. rewrite tget_tset. destruct (Nat.eqb_spec c' c) as [->|]; [auto|apply i_defer_ok0].
    + destruct U as [U1 U2 U3].
      assert (Ho : forall c', c' <> c -> outstanding (set_defer s (tappend c m (s_defer s))) c' = outstanding s c').
      { intros c' Hn. apply outstanding_eq; sst; auto. unfold tappend. now apply tget_tset_other. }
      constructor; sst; auto.
      * intros c' Hg. rewrite Ho; [auto|]. intros ->. congruence.
      * intros c' u Hg Hn. rewrite Ho; [eauto|]. intros ->. congruence.
    + exact W.
  - (* not being handled: pending, and dispatch if it is the client's first pending Message *)
    set (s1 := set_pend s (tappend c m (s_pend s))) in *.
    assert (I1 : SInv s1).
    { unfold s1. constructor; sst; auto.
      - unfold tappend. now apply tkeys_tset_nodup.
      - intros c' q. unfold tappend. rewrite tget_tset. destruct (Nat.eqb_spec c' c) as [->|]; [|apply i_pend_ok0].
        intros E; injection E as <-. split; auto. destruct (qof (s_pend s) c); discriminate. }
    assert (U1 : UInv s1).
    { destruct U as [U1 U2 U3].
      assert (Ho : forall c', c' <> c -> outstanding s1 c' = outstanding s c').
      { intros c' Hn. apply outstanding_eq; unfold s1; sst; auto. unfold tappend. now apply tget_tset_other. }
      constructor; unfold s1; sst; auto.
      * intros c' Hg. fold s1. rewrite Ho; [auto|]. intros ->. congruence.
      * intros c' u Hg Hn. fold s1. rewrite Ho; [eauto|]. intros ->. congruence. }
    destruct (length (qof (s_pend s1) c) =? 1) eqn:Hl; injection Hs as <- <-.
    + destruct (dispatch_inv s1 I1) as [I2 W2]. split; [auto|split; [now apply dispatch_uinv|auto]].
    + split; [auto|split; [auto|]].
      intros Hsh Hne. apply W; auto. unfold s1 in Hl; sst. unfold tappend in Hl. rewrite qof_tset, Nat.eqb_refl in Hl.
      intros Hp. unfold qof in Hl. rewrite Hp in Hl. cbn in Hl. discriminate.
  - injection Hs as <- <-. auto.
Qed.

(* ---------------------------------------------------------------- ThreadFinishedProcessingClientMessages *)

(* SInv does not look at _waitingForCompletion, the unregistering clients or the assertion flag *)
Lemma SInv_frame : forall s s',
  SInv s ->
  s_max s' = s_max s -> s_shut s' = s_shut s -> s_ctr s' = s_ctr s -> s_avail s' = s_avail s -> s_active s' = s_active s ->
  s_reg s' = s_reg s -> s_pend s' = s_pend s -> s_defer s' = s_defer s -> s_thr s' = s_thr s -> s_cl s' = s_cl s ->
  s_sd s' = s_sd s -> SInv s'.
Proof.
  intros s s' I E1 E2 E3 E4 E5 E6 E7 E8 E9 E10 E11. destruct I.
  constructor; rewrite ?E1, ?E2, ?E3, ?E4, ?E5, ?E6, ?E7, ?E8, ?E9, ?E10, ?E11; auto.
Qed.

(* the state after part (1) of ThreadFinishedProcessingClientMessages, described by what it must satisfy *)
Lemma fin_shape_inv : forall s t h c s2,
  SInv s -> s_shut s = false ->
  tget t (s_thr s) = Some h -> th_client h = Some c -> th_queue h = [] -> th_running h = false ->
  s_max s2 = s_max s -> s_shut s2 = s_shut s -> s_ctr s2 = s_ctr s -> s_cl s2 = s_cl s -> s_sd s2 = s_sd s ->
  s_thr s2 = tset t (mkThr None [] false (th_exited h)) (s_thr s) ->
  s_reg s2 = tset c false (s_reg s) ->
  s_avail s2 = s_avail s ++ [t] -> s_active s2 = lrem t (s_active s) ->
  NoDup (tkeys (s_pend s2)) ->
  (forall c', c' <> c -> tget c' (s_pend s2) = tget c' (s_pend s) /\ tget c' (s_defer s2) = tget c' (s_defer s)) ->
  (forall q, tget c (s_pend s2) = Some q -> q <> []) ->
  (forall q, tget c (s_defer s2) = Some q -> q = []) ->
  SInv s2.
Proof.
  intros s t h c s2 I Hsh Ht Hc Hq Hr E1 E2 E3 E4 E5 Ethr Ereg Eav Eac Hnd Hoth Hpc Hdc. dI I.
  assert (Hregc : tget c (s_reg s) = Some true) by eauto.
  destruct (i_thr_wf0 t h Ht) as [_ [_ Hwf3]].
  assert (Hex : th_exited h = false).
  { destruct (th_exited h) eqn:E; auto. rewrite Hwf3 in Hc; [discriminate|auto]. }
  assert (Hsd : s_sd s = SdNone) by now apply i_shut_sd0.
  assert (Hact : In t (s_active s)).
  { destruct (i_place0 t h Ht) as [H|[H|[H|H]]]; auto; try congruence.
    - destruct (i_avail_idle0 t H) as [x [H1 [H2 _]]]. apply thr_idle_spec in H2. destruct H2 as [H2 _]. congruence.
    - rewrite Hsd in H. destruct H. }
  assert (Hnav : ~ In t (s_avail s)) by (intros H; eapply i_disj0; eauto).
  assert (Huniq : forall t' h' , tget t' (s_thr s) = Some h' -> th_client h' = Some c -> t' = t) by (intros; eapply i_thr_uniq0; eauto).
  rewrite Hex in Ethr.
  constructor; rewrite ?E1, ?E2, ?E3, ?E4, ?E5, ?Ethr, ?Ereg, ?Eav, ?Eac; auto.
  - now apply tkeys_tset_nodup.
  - now apply NoDup_app_single.
  - now apply lrem_nodup.
  - intros t'. rewrite In_app_single, lrem_In. intros [Ha| ->] [Hn Hb]; [eapply i_disj0; eauto|congruence].
  - intros t' x. rewrite tget_tset. destruct (Nat.eqb_spec t' t) as [->|]; [intros _; eauto|apply i_fresh_thr0].
  - intros t'. rewrite In_app_single, lrem_In. intros H. apply i_fresh_tab0.
    destruct H as [[H| ->]|[[_ H]|H]]; tauto.
  - intros c' q Hg. destruct (Nat.eq_dec c' c) as [->|Hn].
    + split; [eauto|apply tget_tset_same].
    + destruct (Hoth c' Hn) as [H1 _]. rewrite H1 in Hg. destruct (i_pend_ok0 c' q Hg). split; auto. now rewrite tget_tset_other.
  - intros c' q Hg Hne. destruct (Nat.eq_dec c' c) as [->|Hn].
    + apply Hdc in Hg. congruence.
    + destruct (Hoth c' Hn) as [_ H2]. rewrite H2 in Hg. rewrite tget_tset_other; eauto.
  - intros t' x c'. rewrite tget_tset. destruct (Nat.eqb_spec t' t) as [->|Hn]; [intros E; injection E as <-; discriminate|].
    intros Hg Hcl. rewrite tget_tset_other; [eauto|]. intros ->. apply Hn. eauto.
  - intros t1 t2 h1 h2 c'. rewrite !tget_tset.
    destruct (Nat.eqb_spec t1 t); [intros E; injection E as <-; discriminate|].
    destruct (Nat.eqb_spec t2 t); [intros _ E; injection E as <-; discriminate|]. apply i_thr_uniq0.
  - intros _ c'. rewrite tget_tset. destruct (Nat.eqb_spec c' c) as [->|Hn]; [discriminate|].
    intros Hg. destruct (i_reg_thr0 Hsh c' Hg) as [t' [x [H1 H2]]]. exists t', x. split; auto.
    rewrite tget_tset_other; auto. intros ->. congruence.
  - intros t'. rewrite In_app_single. intros [Ha| ->].
    + destruct (i_avail_idle0 t' Ha) as [x [H1 H2]]. exists x. split; auto. rewrite tget_tset_other; auto. intros ->. auto.
    + eexists. rewrite tget_tset_same. split; [reflexivity|]. split; reflexivity.
  - intros _ t'. rewrite lrem_In. intros [Hn Ha]. destruct (i_active_busy0 Hsh t' Ha) as [x [c' [H1 H2]]].
    exists x, c'. now rewrite tget_tset_other.
  - intros t' x. rewrite tget_tset. destruct (Nat.eqb_spec t' t) as [->|]; [|apply i_thr_wf0].
    intros E; injection E as <-. unfold thr_wf; cbn. repeat split; auto; discriminate.
  - intros t' x. rewrite tget_tset. destruct (Nat.eqb_spec t' t) as [->|Hn].
    + intros _. right. left. rewrite In_app_single. tauto.
    + intros Hg. apply i_place0 in Hg. rewrite In_app_single, lrem_In. tauto.
  - rewrite app_length. cbn [length]. pose proof (lrem_length t (s_active s) i_nd_active0 Hact). lia.
  - intros c' Hn. rewrite tget_tset. destruct (Nat.eqb_spec c' c) as [->|]; auto.
    rewrite (i_reg_cl0 c Hn) in Hregc. discriminate.
  - now rewrite Hsd.
Qed.

Lemma fin_facts : forall s t h c,
  SInv s -> s_shut s = false -> tget t (s_thr s) = Some h -> th_client h = Some c ->
  tget c (s_reg s) = Some true /\ tget c (s_pend s) = None /\ lmem t (s_active s) = true /\ th_exited h = false.
Proof.
  intros s t h c I Hsh Ht Hc. dI I.
  assert (Hregc : tget c (s_reg s) = Some true) by eauto.
  split; auto. split.
  { destruct (tget c (s_pend s)) as [q|] eqn:E; auto. destruct (i_pend_ok0 c q E). congruence. }
  destruct (i_thr_wf0 t h Ht) as [_ [_ Hwf3]].
  assert (Hex : th_exited h = false).
  { destruct (th_exited h) eqn:E; auto. rewrite Hwf3 in Hc; [discriminate|auto]. }
  split; auto. apply lmem_In.
  assert (Hsd : s_sd s = SdNone) by now apply i_shut_sd0.
  destruct (i_place0 t h Ht) as [H|[H|[H|H]]]; auto; try congruence.
  - destruct (i_avail_idle0 t H) as [x [H1 [H2 _]]]. apply thr_idle_spec in H2. destruct H2 as [H2 _]. congruence.
  - rewrite Hsd in H. destruct H.
Qed.

Lemma fin_core_inv : forall s t h c,
  SInv s -> s_shut s = false ->
  tget t (s_thr s) = Some h -> th_client h = Some c -> th_queue h = [] -> th_running h = false ->
  SInv (fin_core (upd_thr s t (mkThr None [] false (th_exited h))) t c).
Proof.
  intros s t h c I Hsh Ht Hc Hq Hr.
  destruct (fin_facts s t h c I Hsh Ht Hc) as [Hregc [Hpn [Hm Hex]]].
  eapply (fin_shape_inv s t h c); eauto; unfold fin_core; sst; rewrite Hregc; sst;
    destruct (tget c (s_defer s)) as [[|d0 dr]|] eqn:Hd; sst; rewrite ?Hm; sst; auto;
    try apply (i_nd_pend _ I); try (apply tkeys_tset_nodup; apply (i_nd_pend _ I)).
  all: try (intros c' Hn; split; auto; now rewrite tget_tset_other).
  all: try (intros q Hg; congruence).
  - intros q. rewrite tget_tset_same. intros E; injection E as <-. discriminate.
  - intros q. rewrite tget_tset_same. unfold qof. rewrite Hpn. intros E; now injection E as <-.
Qed.

Lemma fin_core_other : forall s t h c,
  SInv s -> s_shut s = false -> tget t (s_thr s) = Some h -> th_client h = Some c ->
  let s2 := fin_core (upd_thr s t (mkThr None [] false (th_exited h))) t c in
  s_wait s2 = s_wait s /\ s_unreg s2 = s_unreg s /\ s_shut s2 = s_shut s /\ s_sd s2 = s_sd s /\
  (forall c', c' <> c -> tget c' (s_reg s2) = tget c' (s_reg s) /\ tget c' (s_pend s2) = tget c' (s_pend s) /\
                         tget c' (s_defer s2) = tget c' (s_defer s)) /\
  handled s2 c = false /\ qof (s_pend s2) c = qof (s_defer s) c /\ qof (s_defer s2) c = [].
Proof.
  intros s t h c I Hsh Ht Hc.
  destruct (fin_facts s t h c I Hsh Ht Hc) as [Hregc [Hpn [Hm Hex]]].
  unfold fin_core, handled; sst; rewrite Hregc; sst;
    destruct (tget c (s_defer s)) as [[|d0 dr]|] eqn:Hd; sst; rewrite ?Hm; sst; repeat split; auto;
    try (intros; now rewrite ?tget_tset_other by auto); rewrite ?tget_tset_same; auto;
    unfold qof; rewrite ?tget_tset_same, ?Hpn, ?Hd; auto.
Qed.

(* a thread that finishes its batch while Shutdown() is in progress just becomes idle *)
Lemma upd_thr_drop_inv : forall s t h,
  SInv s -> s_shut s = true -> tget t (s_thr s) = Some h -> th_client h <> None ->
  SInv (upd_thr s t (mkThr None [] false (th_exited h))).
Proof.
  intros s t h I Hsh Ht Hcn. dI I. unfold upd_thr.
  constructor; sst; auto; try (intros; congruence).
  - now apply tkeys_tset_nodup.
  - intros t' x. rewrite tget_tset. destruct (Nat.eqb_spec t' t) as [->|]; [intros _; eauto|apply i_fresh_thr0].
  - intros t' x c. rewrite tget_tset. destruct (Nat.eqb_spec t' t) as [->|]; [intros E; injection E as <-; discriminate|apply i_thr_reg0].
  - intros t1 t2 h1 h2 c. rewrite !tget_tset.
    destruct (Nat.eqb_spec t1 t); [intros E; injection E as <-; discriminate|].
    destruct (Nat.eqb_spec t2 t); [intros _ E; injection E as <-; discriminate|]. apply i_thr_uniq0.
  - intros t' Ha. destruct (i_avail_idle0 t' Ha) as [x [H1 [H2 H3]]]. exists x. split; auto.
    rewrite tget_tset_other; auto. intros ->. apply thr_idle_spec in H2. destruct H2 as [H2 _]. congruence.
  - intros t' x. rewrite tget_tset. destruct (Nat.eqb_spec t' t) as [->|]; [|apply i_thr_wf0].
    intros E; injection E as <-. unfold thr_wf; cbn. repeat split; auto; try discriminate.
  - intros t' x. rewrite tget_tset. destruct (Nat.eqb_spec t' t) as [->|]; [|apply i_place0].
    intros E; injection E as <-. cbn. eauto.
Qed.

Lemma finish_inv : forall s t h c s' ev,
  SInv s -> UInv s -> WC s ->
  tget t (s_thr s) = Some h -> th_client h = Some c -> th_queue h = [] -> th_running h = false ->
  finished (upd_thr s t (mkThr None [] false (th_exited h))) t c = (s', ev) ->
  SInv s' /\ UInv s' /\ WC s'.
Proof.
  intros s t h c s' ev I U W Ht Hc Hq Hr Hf. unfold finished in Hf.
  change (s_shut (upd_thr s t (mkThr None [] false (th_exited h)))) with (s_shut s) in Hf.
  destruct (s_shut s) eqn:Hsh.
  - injection Hf as <- <-. split; [apply upd_thr_drop_inv; auto; congruence|].
    split; [now apply upd_thr_uinv|]. intros H. unfold upd_thr in H; sst. congruence.
  - pose proof (fin_core_inv s t h c I Hsh Ht Hc Hq Hr) as I2.
    destruct (fin_core_other s t h c I Hsh Ht Hc) as [Ew [Eu [Es [Esd [Hoth [Hh2 [Hp2 Hd2]]]]]]].
    set (s2 := fin_core (upd_thr s t (mkThr None [] false (th_exited h))) t c) in *.
    destruct (dispatch_inv s2 I2) as [I3 W3].
    destruct (dispatch_frame s2) as [F1 [F2 [F3 [F4 [F5 [F6 F7]]]]]].
    set (s3 := dispatch s2) in *.
    destruct U as [U1 U2 U3].
    assert (Hreg : tget c (s_reg s) = Some true) by (eapply i_thr_reg; eauto).
    assert (Hoc : outstanding s c = true) by (unfold outstanding, handled; now rewrite Hreg).
    assert (Ho : forall c', c' <> c -> outstanding s3 c' = outstanding s c').
    { intros c' Hn. unfold s3. rewrite dispatch_outstanding by auto. destruct (Hoth c' Hn) as [H1 [H2 H3]].
      now apply outstanding_eq. }
    unfold fin_notify in Hf. destruct (outstanding s3 c) eqn:Ho3.
    + injection Hf as <- <-. split; [auto|split; [|auto]].
      constructor; rewrite ?F4, ?F6, ?Ew, ?Eu.
      * apply U1.
      * intros c' Hg. destruct (Nat.eq_dec c' c) as [->|Hn]; [auto|rewrite Ho; auto].
      * intros c' u Hg Hne. destruct (Nat.eq_dec c' c) as [->|Hn]; [|rewrite Ho; eauto].
        rewrite (U3 c u Hg Hne) in Hoc. discriminate.
    + assert (Hfr : forall s4, s_reg s4 = s_reg s3 -> s_pend s4 = s_pend s3 -> s_defer s4 = s_defer s3 ->
                                forall c', outstanding s4 c' = outstanding s3 c').
      { intros s4 E1 E2 E3 c'. apply outstanding_eq; congruence. }
      destruct (lmem c (s_wait s3)) eqn:Hw; injection Hf as <- <-.
      * assert (Hcw : tget c (s_unreg s) = Some (UWaiting false)).
        { apply U1. apply lmem_In. congruence. }
        assert (En : s_unreg (notify s3 c) = tset c (UWaiting true) (s_unreg s)).
        { unfold notify. rewrite F6, Eu, Hcw. sst. reflexivity. }
        split; [|split].
        -- eapply SInv_frame; [exact I3|..]; unfold notify; destruct (tget c (s_unreg s3)) as [[|]|]; reflexivity.
        -- constructor; sst; rewrite ?En.
           ++ intros c'. rewrite lrem_In, tget_tset. destruct (Nat.eqb_spec c' c) as [->|Hn].
              ** split; [tauto|discriminate].
              ** unfold notify. destruct (tget c (s_unreg s3)) as [[|]|]; sst; rewrite F4, Ew, <- U1; tauto.
           ++ intros c'. rewrite tget_tset. destruct (Nat.eqb_spec c' c) as [->|Hn]; [discriminate|].
              intros Hg. erewrite Hfr; [rewrite Ho; auto|..]; unfold notify; destruct (tget c (s_unreg s3)) as [[|]|]; reflexivity.
           ++ intros c' u. rewrite tget_tset. destruct (Nat.eqb_spec c' c) as [->|Hn].
              ** intros _ _. erewrite Hfr; [exact Ho3|..]; unfold notify; destruct (tget c (s_unreg s3)) as [[|]|]; reflexivity.
              ** intros Hg Hne. erewrite Hfr; [rewrite Ho; eauto|..]; unfold notify; destruct (tget c (s_unreg s3)) as [[|]|]; reflexivity.
        -- intros H1 H2. unfold notify in *. destruct (tget c (s_unreg s3)) as [[|]|]; sst; apply W3; auto.
      * split; [auto|split; [|auto]].
        apply lmem_false in Hw. rewrite F4, Ew in Hw.
        constructor; rewrite ?F4, ?F6, ?Ew, ?Eu.
        -- apply U1.
        -- intros c' Hg. destruct (Nat.eq_dec c' c) as [->|Hn]; [|rewrite Ho; auto]. exfalso. apply Hw. now apply U1.
        -- intros c' u Hg Hne. destruct (Nat.eq_dec c' c) as [->|Hn]; [auto|rewrite Ho; eauto].
Qed.

(* ---------------------------------------------------------------- UnregisterClient *)

Lemma unreg_begin_inv : forall s c s' ev,
  SInv s -> UInv s -> WC s -> in_unreg s c = false -> unreg_begin s c = (s', ev) -> SInv s' /\ UInv s' /\ WC s'.
Proof.
  intros s c s' ev I [U1 U2 U3] W Hu Hb. unfold in_unreg in Hu.
  assert (Hnu : tget c (s_unreg s) = None) by (destruct (tget c (s_unreg s)); [discriminate|auto]).
  assert (Hnw : ~ In c (s_wait s)) by (rewrite U1; congruence).
  unfold unreg_begin in Hb. destruct (outstanding s c) eqn:Ho; injection Hb as <- <-.
  - split; [eapply SInv_frame; eauto|split; [|exact W]].
    constructor; sst.
    + intros c'. rewrite ladd_In, tget_tset. destruct (Nat.eqb_spec c' c) as [->|Hn]; [tauto|]. rewrite <- U1. tauto.
    + intros c'. rewrite tget_tset. destruct (Nat.eqb_spec c' c) as [->|Hn]; [intros _; exact Ho|apply U2].
    + intros c' u. rewrite tget_tset. destruct (Nat.eqb_spec c' c) as [->|Hn]; [congruence|apply U3].
  - split; [eapply SInv_frame; eauto|split; [|exact W]].
    constructor; sst.
    + intros c'. rewrite tget_tset. destruct (Nat.eqb_spec c' c) as [->|Hn]; [split; [tauto|discriminate]|apply U1].
    + intros c'. rewrite tget_tset. destruct (Nat.eqb_spec c' c) as [->|Hn]; [discriminate|apply U2].
    + intros c' u. rewrite tget_tset. destruct (Nat.eqb_spec c' c) as [->|Hn]; [intros _ _; exact Ho|apply U3].
Qed.

Lemma unreg_wake_inv : forall s c,
  SInv s -> UInv s -> WC s -> tget c (s_unreg s) = Some (UWaiting true) ->
  let s' := set_unreg s (tset c UFinal (s_unreg s)) in SInv s' /\ UInv s' /\ WC s'.
Proof.
  intros s c I [U1 U2 U3] W Hu s'. split; [eapply SInv_frame; eauto|split; [|exact W]].
  constructor; unfold s'; sst.
  - intros c'. rewrite tget_tset. destruct (Nat.eqb_spec c' c) as [->|Hn]; [|apply U1].
    rewrite U1, Hu. split; discriminate.
  - intros c'. rewrite tget_tset. destruct (Nat.eqb_spec c' c) as [->|Hn]; [discriminate|apply U2].
  - intros c' u. rewrite tget_tset. destruct (Nat.eqb_spec c' c) as [->|Hn]; [|apply U3].
    intros _ _. apply (U3 c (UWaiting true)); auto. discriminate.
Qed.

Lemma not_outstanding : forall s c, SInv s -> outstanding s c = false ->
  handled s c = false /\ tget c (s_pend s) = None /\ qof (s_defer s) c = [].
Proof.
  intros s c I Ho. unfold outstanding in Ho. apply orb_false_iff in Ho. destruct Ho as [Ho H3].
  apply orb_false_iff in Ho. destruct Ho as [H1 H2].
  apply negb_false_iff, is_nil_true in H2. apply negb_false_iff, is_nil_true in H3.
  split; auto. split; auto.
  destruct (tget c (s_pend s)) as [q|] eqn:E; auto. destruct (i_pend_ok _ I c q E) as [Hq _].
  unfold qof in H2. rewrite E in H2. congruence.
Qed.

Lemma unreg_end_inv : forall s c,
  SInv s -> UInv s -> WC s -> tget c (s_unreg s) = Some UFinal ->
  SInv (unreg_end s c) /\ UInv (unreg_end s c) /\ WC (unreg_end s c).
Proof.
  intros s c I [U1 U2 U3] W Hu. dI I.
  assert (Ho : outstanding s c = false) by (apply (U3 c UFinal); auto; discriminate).
  destruct (not_outstanding s c I Ho) as [Hh [Hpn Hdn]]. unfold handled in Hh.
  assert (Hnt : forall c', tget c' (s_reg s) = Some true -> c' <> c).
  { intros c' H ->. rewrite H in Hh. discriminate. }
  unfold unreg_end. split; [|split].
  - constructor; sst; auto.
    + now apply tkeys_tdel_nodup.
    + intros c' q. rewrite !tget_tdel. destruct (Nat.eqb_spec c' c); [discriminate|apply i_pend_ok0].
    + intros c' q. rewrite !tget_tdel. destruct (Nat.eqb_spec c' c); [discriminate|apply i_defer_ok0].
    + intros t h c' Ht Hc. rewrite tget_tdel_other; eauto.
    + intros Hsh c'. rewrite tget_tdel. destruct (Nat.eqb_spec c' c); [discriminate|now apply i_reg_thr0].
    + intros c'. rewrite lrem_In, tget_tdel. destruct (Nat.eqb_spec c' c) as [->|Hn]; auto; intros H; apply i_reg_cl0; tauto.
  - assert (Hoo : forall c', c' <> c -> outstanding (unreg_end s c) c' = outstanding s c').
    { intros c' Hn. apply outstanding_eq; unfold unreg_end; sst; now apply tget_tdel_other. }
    constructor; unfold unreg_end in *; sst.
    + intros c'. rewrite lrem_In, tget_tdel. destruct (Nat.eqb_spec c' c) as [->|Hn]; [split; [tauto|discriminate]|].
      rewrite <- U1. tauto.
    + intros c'. rewrite tget_tdel. destruct (Nat.eqb_spec c' c) as [->|Hn]; [discriminate|]. intros Hg. rewrite Hoo; auto.
    + intros c' u. rewrite tget_tdel. destruct (Nat.eqb_spec c' c) as [->|Hn]; [discriminate|]. intros Hg Hne. rewrite Hoo; eauto.
  - intros Hsh Hne. sst. apply W; auto. intros E. rewrite E in Hne. now apply Hne.
Qed.

(* ---------------------------------------------------------------- Shutdown *)

Lemma shut_true : forall s, SInv s -> s_sd s <> SdNone -> s_shut s = true.
Proof. intros s I H. destruct (s_shut s) eqn:E; auto. apply (i_shut_sd _ I) in E. congruence. Qed.

Lemma shut_begin_inv : forall s,
  SInv s -> UInv s -> s_sd s = SdNone ->
  let s' := set_sd (set_shut s true) SdSwapAvail in SInv s' /\ UInv s' /\ WC s'.
Proof.
  intros s I [U1 U2 U3] Hsd s'. dI I. rewrite Hsd in *. split; [|split].
  - unfold s'. constructor; sst; auto; try (intros; discriminate).
    split; discriminate.
  - constructor; auto.
  - intros H. discriminate.
Qed.

Lemma shut_swap_avail_inv : forall s,
  SInv s -> UInv s -> (s_sd s = SdSwapAvail \/ s_sd s = SdJoinActive [] true) ->
  let s' := set_sd (set_avail s []) (SdJoinAvail (s_avail s) (negb (is_nil (s_avail s)))) in SInv s' /\ UInv s' /\ WC s'.
Proof.
  intros s I [U1 U2 U3] Hsd s'. dI I.
  assert (Hsh : s_shut s = true) by (apply shut_true; auto; destruct Hsd as [H|H]; rewrite H; discriminate).
  assert (Hj : joinlist (s_sd s) = []) by (destruct Hsd as [H|H]; now rewrite H).
  rewrite Hj in *. split; [|split].
  - unfold s'. constructor; sst; auto; try (intros; congruence).
    + constructor.
    + intros t [[]|[H|H]]; apply i_fresh_tab0; tauto.
    + intros t [].
    + intros t h Ht. apply i_place0 in Ht. cbn in *. tauto.
    + cbn. lia.
    + rewrite Hsh. split; discriminate.
  - constructor; auto.
  - intros H. unfold s' in H; sst. congruence.
Qed.

Lemma shut_swap_active_inv : forall s nz,
  SInv s -> UInv s -> s_sd s = SdJoinAvail [] nz ->
  let s' := set_sd (set_active s []) (SdJoinActive (s_active s) (nz || negb (is_nil (s_active s)))) in SInv s' /\ UInv s' /\ WC s'.
Proof.
  intros s nz I [U1 U2 U3] Hsd s'. dI I.
  assert (Hsh : s_shut s = true) by (apply shut_true; auto; rewrite Hsd; discriminate).
  rewrite Hsd in *. cbn [joinlist] in *. split; [|split].
  - unfold s'. constructor; sst; auto; try (intros; congruence).
    + intros t [H|[[]|H]]; apply i_fresh_tab0; tauto.
    + intros t h Ht. apply i_place0 in Ht. cbn in *. tauto.
    + rewrite i_sd_tabs0. cbn. lia.
    + rewrite Hsh. split; discriminate.
  - constructor; auto.
  - intros H. unfold s' in H; sst. congruence.
Qed.

Lemma shut_join_inv : forall s t r sd',
  SInv s -> UInv s ->
  ((exists nz, s_sd s = SdJoinAvail (t :: r) nz /\ sd' = SdJoinAvail r nz) \/
   (exists nz, s_sd s = SdJoinActive (t :: r) nz /\ sd' = SdJoinActive r nz)) ->
  let s' := set_sd (upd_thr s t (mkThr None [] false true)) sd' in SInv s' /\ UInv s' /\ WC s'.
Proof.
  intros s t r sd' I [U1 U2 U3] Hsd s'. dI I.
  assert (Hne : s_sd s <> SdNone) by (destruct Hsd as [[nz [H _]]|[nz [H _]]]; rewrite H; discriminate).
  assert (Hsh : s_shut s = true) by now apply shut_true.
  assert (Hj : joinlist (s_sd s) = t :: r /\ joinlist sd' = r) by (destruct Hsd as [[nz [H ->]]|[nz [H ->]]]; now rewrite H).
  destruct Hj as [Hj Hj']. rewrite Hj in *.
  assert (Hav : s_avail s = []).
  { destruct Hsd as [[nz [H _]]|[nz [H _]]]; rewrite H in i_sd_tabs0; tauto. }
  split; [|split].
  - unfold s', upd_thr. constructor; sst; auto; try (intros; congruence).
    + now apply tkeys_tset_nodup.
    + intros t' x. rewrite tget_tset. destruct (Nat.eqb_spec t' t) as [->|]; [intros _; apply i_fresh_tab0; cbn; tauto|apply i_fresh_thr0].
    + rewrite Hj'. intros t' H. apply i_fresh_tab0. cbn. tauto.
    + intros t' x c. rewrite tget_tset. destruct (Nat.eqb_spec t' t) as [->|]; [intros E; injection E as <-; discriminate|apply i_thr_reg0].
    + intros t1 t2 h1 h2 c. rewrite !tget_tset.
      destruct (Nat.eqb_spec t1 t); [intros E; injection E as <-; discriminate|].
      destruct (Nat.eqb_spec t2 t); [intros _ E; injection E as <-; discriminate|]. apply i_thr_uniq0.
    + rewrite Hav. intros t' [].
    + intros t' x. rewrite tget_tset. destruct (Nat.eqb_spec t' t) as [->|]; [|apply i_thr_wf0].
      intros E; injection E as <-. unfold thr_wf; cbn. repeat split; auto; discriminate.
    + rewrite Hj'. intros t' x. rewrite tget_tset. destruct (Nat.eqb_spec t' t) as [->|Hn].
      * intros E; injection E as <-. cbn. tauto.
      * intros Hg. apply i_place0 in Hg. cbn in Hg. destruct Hg as [H|[H|[H|[H|H]]]]; try tauto. congruence.
    + rewrite Hsh. split; [discriminate|]. destruct Hsd as [[nz [_ ->]]|[nz [_ ->]]]; discriminate.
    + destruct Hsd as [[nz [H ->]]|[nz [H ->]]]; rewrite H in i_sd_tabs0; auto.
  - constructor; auto.
  - intros H. unfold s' in H; sst. congruence.
Qed.

Lemma notify_spec : forall s a,
  s_max (notify s a) = s_max s /\ s_shut (notify s a) = s_shut s /\ s_ctr (notify s a) = s_ctr s /\
  s_avail (notify s a) = s_avail s /\ s_active (notify s a) = s_active s /\ s_reg (notify s a) = s_reg s /\
  s_pend (notify s a) = s_pend s /\ s_defer (notify s a) = s_defer s /\ s_wait (notify s a) = s_wait s /\
  s_thr (notify s a) = s_thr s /\ s_cl (notify s a) = s_cl s /\ s_sd (notify s a) = s_sd s /\ s_bad (notify s a) = s_bad s /\
  forall c, tget c (s_unreg (notify s a)) =
            match tget c (s_unreg s) with Some (UWaiting b) => Some (UWaiting (b || Nat.eqb c a)) | x => x end.
Proof.
  intros s a. unfold notify. destruct (tget a (s_unreg s)) as [[b|]|] eqn:E; sst; repeat split; auto; intros c.
  - rewrite tget_tset. destruct (Nat.eqb_spec c a) as [->|Hn]; [rewrite E; now rewrite orb_true_r|].
    destruct (tget c (s_unreg s)) as [[b'|]|]; auto. now rewrite orb_false_r.
  - destruct (Nat.eqb_spec c a) as [->|Hn]; [now rewrite E|]. destruct (tget c (s_unreg s)) as [[b'|]|]; auto. now rewrite orb_false_r.
  - destruct (Nat.eqb_spec c a) as [->|Hn]; [now rewrite E|]. destruct (tget c (s_unreg s)) as [[b'|]|]; auto. now rewrite orb_false_r.
Qed.

Lemma fold_notify_spec : forall l s,
  let s' := fold_left notify l s in
  s_max s' = s_max s /\ s_shut s' = s_shut s /\ s_ctr s' = s_ctr s /\
  s_avail s' = s_avail s /\ s_active s' = s_active s /\ s_reg s' = s_reg s /\
  s_pend s' = s_pend s /\ s_defer s' = s_defer s /\ s_wait s' = s_wait s /\
  s_thr s' = s_thr s /\ s_cl s' = s_cl s /\ s_sd s' = s_sd s /\ s_bad s' = s_bad s /\
  forall c, tget c (s_unreg s') =
            match tget c (s_unreg s) with Some (UWaiting b) => Some (UWaiting (b || lmem c l)) | x => x end.
Proof.
  induction l as [|a l IH]; intros s; cbn [fold_left].
  - repeat split; auto. intros c. destruct (tget c (s_unreg s)) as [[b|]|]; auto. cbn. now rewrite orb_false_r.
  - destruct (IH (notify s a)) as [A1 [A2 [A3 [A4 [A5 [A6 [A7 [A8 [A9 [A10 [A11 [A12 [A13 A14]]]]]]]]]]]]].
    destruct (notify_spec s a) as [B1 [B2 [B3 [B4 [B5 [B6 [B7 [B8 [B9 [B10 [B11 [B12 [B13 B14]]]]]]]]]]]]].
    cbv zeta. rewrite A1, A2, A3, A4, A5, A6, A7, A8, A9, A10, A11, A12, A13. repeat split; auto.
    intros c. rewrite A14, B14. destruct (tget c (s_unreg s)) as [[b|]|]; auto.
    cbn [lmem existsb]. unfold lmem. now rewrite orb_assoc.
Qed.

Lemma shut_end_fields : forall s,
  let s' := fst (shut_end s) in
  s_max s' = s_max s /\ s_shut s' = s_shut s /\ s_ctr s' = s_ctr s /\ s_avail s' = [] /\ s_active s' = [] /\
  s_reg s' = [] /\ s_pend s' = [] /\ s_defer s' = [] /\ s_wait s' = [] /\ s_thr s' = s_thr s /\ s_sd s' = SdDone /\
  s_bad s' = s_bad s /\
  forall c, tget c (s_unreg s') =
            match tget c (s_unreg s) with Some (UWaiting b) => Some (UWaiting (b || lmem c (s_wait s))) | x => x end.
Proof.
  intros s. unfold shut_end. cbn [fst]. sst.
  set (X := set_defer _ _).
  destruct (fold_notify_spec (s_wait s) X) as [A1 [A2 [A3 [A4 [A5 [A6 [A7 [A8 [A9 [A10 [A11 [A12 [A13 A14]]]]]]]]]]]]].
  cbv zeta in *. rewrite A1, A2, A3, A10, A13. unfold X; sst. repeat split; auto.
Qed.

Lemma shut_end_inv : forall s s' ev,
  SInv s -> UInv s -> s_sd s = SdJoinActive [] false -> shut_end s = (s', ev) -> SInv s' /\ UInv s' /\ WC s'.
Proof.
  intros s s' ev I [U1 U2 U3] Hsd He. dI I.
  destruct (shut_end_fields s) as [A1 [A2 [A3 [A4 [A5 [A6 [A7 [A8 [A9 [A10 [A11 [A12 A14]]]]]]]]]]]].
  rewrite He in *. cbn [fst] in *.
  assert (Hsh : s_shut s = true) by (apply shut_true; auto; rewrite Hsd; discriminate).
  rewrite Hsd in *. cbn [joinlist] in *. destruct i_sd_tabs0 as [Hav Hac]. rewrite Hav, Hac in *.
  assert (Hnc : forall t h, tget t (s_thr s) = Some h -> th_client h = None).
  { intros t h Ht. destruct (i_place0 t h Ht) as [H|[[]|[[]|[]]]]. destruct (i_thr_wf0 t h Ht) as [_ [_ H3]]. auto. }
  split; [|split].
  - constructor; rewrite ?A1, ?A2, ?A3, ?A4, ?A5, ?A6, ?A7, ?A8, ?A10, ?A11; auto;
      try (intros; discriminate); try (intros; congruence); try (cbn; tauto); try constructor.
    + intros t h c Ht Hc. rewrite (Hnc t h Ht) in Hc. discriminate.
    + congruence.
    + discriminate.
  - assert (Ho : forall c, outstanding s' c = false).
    { intros c. unfold outstanding, handled, qof. rewrite A6, A7, A8. reflexivity. }
    assert (Hnw : forall c, tget c (s_unreg s') <> Some (UWaiting false)).
    { intros c. rewrite A14. destruct (tget c (s_unreg s)) as [[b|]|] eqn:E; try discriminate.
      destruct b; [discriminate|]. apply U1 in E. apply lmem_In in E. rewrite E. discriminate. }
    constructor.
    + intros c. rewrite A9. split; [intros []|]. intros H. now apply Hnw in H.
    + intros c H. now apply Hnw in H.
    + intros c u _ _. apply Ho.
  - intros H. congruence.
Qed.

(* ---------------------------------------------------------------- every transition *)

Definition Inv (s : st) : Prop := SInv s /\ UInv s /\ WC s.

Lemma init_inv : forall n, Inv (init n).
Proof.
  intros n. unfold Inv, init. split; [|split].
  - constructor; sst; cbn; auto; try (intros; discriminate); try tauto; try constructor; try lia; try (intros; tauto).
  - constructor; sst; cbn; try (intros; discriminate). intros c; split; [tauto|discriminate].
  - intros _ H. now contradiction H.
Qed.

Theorem step_inv : forall s l s' ev, Inv s -> step s l = Some (s', ev) -> Inv s'.
Proof.
  intros s l s' ev [I [U W]] Hst. unfold Inv. destruct l as [c|c m|t|t|t|c|c|c| | | | |c m]; cbn [step] in Hst.
  - (* LRegister *)
    destruct (in_unreg s c) eqn:Hu; [discriminate|]. destruct (lmem c (s_cl s)) eqn:Hc; injection Hst as <- <-; auto.
    now apply register_inv.
  - (* LSubmit *)
    destruct (in_unreg s c) eqn:Hu; [discriminate|]. destruct (lmem c (s_cl s)) eqn:Hc.
    + destruct (pool_send s c m) as [s1 r] eqn:Hs. injection Hst as <- <-. eapply send_inv; eauto.
    + injection Hst as <- <-. auto.
  - (* LEnter *)
    destruct (tget t (s_thr s)) as [h|] eqn:Ht; [|discriminate].
    destruct (th_client h) as [c|] eqn:Hc; [|discriminate]. destruct (th_queue h) as [|m q] eqn:Hq; [discriminate|].
    destruct (th_running h) eqn:Hr; [discriminate|]. injection Hst as <- <-.
    split; [|split; [now apply upd_thr_uinv|now apply upd_thr_wc]].
    eapply upd_thr_keep_inv; eauto; try congruence.
    destruct (i_thr_wf _ I t h Ht) as [_ [_ W3]]. unfold thr_wf; cbn. repeat split; try discriminate. intros E. apply W3 in E. congruence.
  - (* LExit *)
    destruct (tget t (s_thr s)) as [h|] eqn:Ht; [|discriminate].
    destruct (th_client h) as [c|] eqn:Hc; [|discriminate]. destruct (th_queue h) as [|m q] eqn:Hq; [discriminate|].
    destruct (th_running h) eqn:Hr; [|discriminate]. injection Hst as <- <-.
    split; [|split; [now apply upd_thr_uinv|now apply upd_thr_wc]].
    eapply upd_thr_keep_inv; eauto; try congruence.
    destruct (i_thr_wf _ I t h Ht) as [_ [_ W3]]. unfold thr_wf; cbn. repeat split; try discriminate. intros E. apply W3 in E. congruence.
  - (* LFinish *)
    destruct (tget t (s_thr s)) as [h|] eqn:Ht; [|discriminate].
    destruct (th_client h) as [c|] eqn:Hc; [|discriminate]. destruct (th_queue h) as [|m q] eqn:Hq; [|discriminate].
    destruct (th_running h) eqn:Hr; [discriminate|]. injection Hst as Hf.
    destruct (finished (upd_thr s t (mkThr None [] false (th_exited h))) t c) as [s1 e1] eqn:Hfin.
    injection Hf as <- <-. eapply finish_inv; eauto.
  - (* LUnregBegin *)
    destruct (in_unreg s c) eqn:Hu; [discriminate|]. destruct (lmem c (s_cl s) || sd_done (s_sd s)); [|discriminate].
    injection Hst as Hb. destruct (unreg_begin s c) as [s1 e1] eqn:Hub. injection Hb as <- <-. eapply unreg_begin_inv; eauto.
  - (* LUnregWake *)
    destruct (tget c (s_unreg s)) as [[[|]|]|] eqn:Hu; try discriminate. injection Hst as <- <-. now apply unreg_wake_inv.
  - (* LUnregEnd *)
    destruct (tget c (s_unreg s)) as [[|]|] eqn:Hu; try discriminate. injection Hst as <- <-. now apply unreg_end_inv.
  - (* LShutBegin *)
    destruct (s_sd s) eqn:Hsd; try discriminate. injection Hst as <- <-. now apply shut_begin_inv.
  - (* LShutSwap *)
    destruct (s_sd s) as [| |[|t r] nz|[|t r] [|]|] eqn:Hsd; try discriminate; injection Hst as <- <-.
    + apply shut_swap_avail_inv; auto.
    + eapply shut_swap_active_inv; eauto.
    + apply shut_swap_avail_inv; auto.
  - (* LShutJoin *)
    destruct (s_sd s) as [| |[|t r] nz|[|t r] nz|] eqn:Hsd; try discriminate; cbv zeta in Hst;
      (destruct (thr_idle (thr_of s t)); [|discriminate]); injection Hst as E1 E2; subst s' ev;
      eapply shut_join_inv; eauto.
  - (* LShutEnd *)
    destruct (s_sd s) as [| | |[|t r] [|]|] eqn:Hsd; try discriminate.
    destruct (shut_end s) as [s1 e1] eqn:He. injection Hst as <- <-. eapply shut_end_inv; eauto.
  - (* LSubmitStale *)
    destruct (in_unreg s c) eqn:Hu; [discriminate|]. destruct (lmem c (s_cl s)); [discriminate|].
    destruct (s_sd s); try discriminate.
    destruct (pool_send s c m) as [s1 r] eqn:Hs. injection Hst as <- <-. eapply send_inv; eauto.
Qed.

Inductive reach (n : nat) : st -> list event -> Prop :=
| reach_init : reach n (init n) []
| reach_step : forall s tr l s' ev, reach n s tr -> step s l = Some (s', ev) -> reach n s' (tr ++ ev).

Theorem reach_inv : forall n s tr, reach n s tr -> Inv s.
Proof. intros n s tr H. induction H; [apply init_inv|eapply step_inv; eauto]. Qed.

(* ---------------------------------------------------------------- no MASSERT of ThreadPool.cpp fires *)

Lemma send_pend_inv : forall s c m, SInv s -> tget c (s_reg s) = Some false -> SInv (set_pend s (tappend c m (s_pend s))).
Proof.
  intros s c m I Hr. dI I. constructor; sst; auto.
  - unfold tappend. now apply tkeys_tset_nodup.
  - intros c' q. unfold tappend. rewrite tget_tset. destruct (Nat.eqb_spec c' c) as [->|]; [|apply i_pend_ok0].
    intros E; injection E as <-. split; auto. destruct (qof (s_pend s) c); discriminate.
Qed.

Lemma notify_bad : forall s c, s_bad (notify s c) = s_bad s.
Proof. intros s c. unfold notify. destruct (tget c (s_unreg s)) as [[|]|]; reflexivity. Qed.

Theorem step_bad : forall s l s' ev, Inv s -> s_bad s = false -> step s l = Some (s', ev) -> s_bad s' = false.
Proof.
  intros s l s' ev [I [U W]] Hb Hst. destruct l as [c|c m|t|t|t|c|c|c| | | | |c m]; cbn [step] in Hst.
  - destruct (in_unreg s c); [discriminate|]. destruct (lmem c (s_cl s)); injection Hst as <- <-; auto.
  - destruct (in_unreg s c); [discriminate|]. destruct (lmem c (s_cl s)); [|injection Hst as <- <-; auto].
    destruct (pool_send s c m) as [s1 r] eqn:Hs. injection Hst as <- <-. unfold pool_send in Hs.
    destruct (tget c (s_reg s)) as [[|]|] eqn:Hr; [injection Hs as <- <-; auto| |injection Hs as <- <-; auto].
    destruct (_ =? 1); injection Hs as <- <-; auto. apply dispatch_bad; auto. now apply send_pend_inv.
  - destruct (tget t (s_thr s)) as [h|]; [|discriminate].
    destruct (th_client h); [|discriminate]. destruct (th_queue h); [discriminate|].
    destruct (th_running h); [discriminate|]. injection Hst as <- <-. auto.
  - destruct (tget t (s_thr s)) as [h|]; [|discriminate].
    destruct (th_client h); [|discriminate]. destruct (th_queue h); [discriminate|].
    destruct (th_running h); [|discriminate]. injection Hst as <- <-. auto.
  - destruct (tget t (s_thr s)) as [h|] eqn:Ht; [|discriminate].
    destruct (th_client h) as [c|] eqn:Hc; [|discriminate]. destruct (th_queue h) as [|m q] eqn:Hq; [|discriminate].
    destruct (th_running h) eqn:Hr; [discriminate|].
    destruct (finished (upd_thr s t (mkThr None [] false (th_exited h))) t c) as [s1 e1] eqn:Hfin.
    injection Hst as <- <-. unfold finished in Hfin.
    change (s_shut (upd_thr s t (mkThr None [] false (th_exited h)))) with (s_shut s) in Hfin.
    destruct (s_shut s) eqn:Hsh; [injection Hfin as <- <-; auto|].
    pose proof (fin_core_inv s t h c I Hsh Ht Hc Hq Hr) as I2.
    destruct (fin_facts s t h c I Hsh Ht Hc) as [Hregc [Hpn [Hm Hex]]].
    assert (Hb2 : s_bad (fin_core (upd_thr s t (mkThr None [] false (th_exited h))) t c) = false).
    { unfold fin_core; sst; rewrite Hregc; sst.
      destruct (tget c (s_defer s)) as [[|d0 dr]|] eqn:Hd; sst; rewrite ?Hm; sst; rewrite ?Hb; auto.
      unfold qof. rewrite Hpn. reflexivity. }
    pose proof (dispatch_bad _ I2 Hb2) as Hb3.
    unfold fin_notify in Hfin. destruct (outstanding _ c); [injection Hfin as <- <-; auto|].
    destruct (lmem c _); injection Hfin as <- <-; auto. sst. now rewrite notify_bad.
  - destruct (in_unreg s c); [discriminate|]. destruct (lmem c (s_cl s) || sd_done (s_sd s)); [|discriminate].
    unfold unreg_begin in Hst. destruct (outstanding s c); injection Hst as <- <-; auto.
  - destruct (tget c (s_unreg s)) as [[[|]|]|]; try discriminate. injection Hst as <- <-. auto.
  - destruct (tget c (s_unreg s)) as [[|]|]; try discriminate. injection Hst as <- <-. auto.
  - destruct (s_sd s); try discriminate. injection Hst as <- <-. auto.
  - destruct (s_sd s) as [| |[|t r] nz|[|t r] [|]|]; try discriminate; injection Hst as <- <-; auto.
  - destruct (s_sd s) as [| |[|t r] nz|[|t r] nz|]; try discriminate; cbv zeta in Hst;
      (destruct (thr_idle (thr_of s t)); [|discriminate]); injection Hst as <- <-; auto.
  - destruct (s_sd s) as [| | |[|t r] [|]|]; try discriminate.
    destruct (shut_end s) as [s1 e1] eqn:He. injection Hst as <- <-.
    destruct (shut_end_fields s) as [_ [_ [_ [_ [_ [_ [_ [_ [_ [_ [_ [A _]]]]]]]]]]]]. rewrite He in A. cbn [fst] in A. congruence.
  - destruct (in_unreg s c); [discriminate|]. destruct (lmem c (s_cl s)); [discriminate|]. destruct (s_sd s); try discriminate.
    destruct (pool_send s c m) as [s1 r] eqn:Hs. injection Hst as <- <-. unfold pool_send in Hs.
    destruct (tget c (s_reg s)) as [[|]|] eqn:Hr; [injection Hs as <- <-; auto| |injection Hs as <- <-; auto].
    destruct (_ =? 1); injection Hs as <- <-; auto. apply dispatch_bad; auto. now apply send_pend_inv.
Qed.

Theorem reach_bad : forall n s tr, reach n s tr -> s_bad s = false.
Proof.
  intros n s tr H. induction H; [reflexivity|]. eapply step_bad; eauto. eapply reach_inv; eauto.
Qed.
