(* C10 -- every atomic step preserves the counting invariant [inv1] and raises none of the
   lifetime violations EvBad 1 (increment of a non-live object), 2 (decrement of a non-live
   object or below zero), 4 (release step on an object that is not being released). *)
From Coq Require Import List Arith Bool Lia.
From Muscle Require Import Conc.Pool Conc.PoolProofs Conc.RefCnt Conc.RefInv Conc.RefExcl.
Import ListNotations.
Local Open Scope nat_scope.

Section Step.
Variables N K : nat.

Definition with_thr (s : state) (t : nat) (th' : thread) (h' : list obj) (p' : pool) : state :=
  mkSt h' (upd (s_thr s) t th') p'.

Lemma wt_len : forall s t th' h' p', length (s_thr (with_thr s t th' h' p')) = length (s_thr s).
Proof. intros; cbn; apply upd_length. Qed.

Lemma wt_same : forall s t th' h' p', t < length (s_thr s) -> thr (with_thr s t th' h' p') t = th'.
Proof. intros; unfold thr; cbn. apply nth_upd_same; auto. Qed.

Lemma wt_other : forall s t u th' h' p', u <> t -> thr (with_thr s t th' h' p') u = thr s u.
Proof. intros; unfold thr; cbn. apply nth_upd_other; auto. Qed.

Lemma wt_units : forall s t th' h' p' o, t < length (s_thr s) ->
  units o (with_thr s t th' h' p') + thr_units o (thr s t) + sumf (obj_units o) (s_heap s)
  = units o s + thr_units o th' + sumf (obj_units o) h'.
Proof.
  intros. unfold units, with_thr, thr; cbn.
  pose proof (sumf_upd _ (thr_units o) (s_thr s) t th' dthr H). lia.
Qed.

Lemma wt_debts : forall s t th' h' p' o, t < length (s_thr s) ->
  debts o (with_thr s t th' h' p') + thr_debts o (thr s t) = debts o s + thr_debts o th'.
Proof.
  intros. unfold debts, with_thr, thr; cbn.
  pose proof (sumf_upd _ (thr_debts o) (s_thr s) t th' dthr H). lia.
Qed.

Lemma wt_rels : forall s t th' h' p' o, t < length (s_thr s) ->
  rels o (with_thr s t th' h' p') + sumf (rel_count o) (t_todo (thr s t)) = rels o s + sumf (rel_count o) (t_todo th').
Proof.
  intros. unfold rels, with_thr, thr; cbn.
  pose proof (sumf_upd _ (fun t => sumf (rel_count o) (t_todo t)) (s_thr s) t th' dthr H). cbn beta in H0. lia.
Qed.

(* heap point update *)
Lemma get_upd_same : forall h x ob, x < length h -> get_obj (upd h x ob) x = ob.
Proof. intros; unfold get_obj; apply nth_upd_same; auto. Qed.
Lemma get_upd_other : forall h x y ob, x <> y -> get_obj (upd h x ob) y = get_obj h y.
Proof. intros; unfold get_obj; apply nth_upd_other; auto. Qed.

Lemma heap_units_upd : forall h x ob o, x < length h ->
  sumf (obj_units o) (upd h x ob) + obj_units o (get_obj h x) = sumf (obj_units o) h + obj_units o ob.
Proof. intros. unfold get_obj. apply sumf_upd; auto. Qed.

Lemma live_lt : forall h o, is_live (get_obj h o) = true -> o < length h.
Proof.
  intros h o H. destruct (lt_dec o (length h)); auto. unfold get_obj in H. rewrite nth_overflow in H by lia. discriminate.
Qed.

Lemma releasing_lt : forall h o, is_releasing (get_obj h o) = true -> o < length h.
Proof.
  intros h o H. destruct (lt_dec o (length h)); auto. unfold get_obj in H. rewrite nth_overflow in H by lia. discriminate.
Qed.

(* ------------------------------------------------------------------ transfer of act_ok *)

Definition loc_same (s s' : state) (l : rloc) : Prop :=
  match l with
  | RStk _ => True
  | RMem q _ => o_cnt (hobj s' q) = o_cnt (hobj s q) /\ length (o_mem (hobj s' q)) = length (o_mem (hobj s q))
  end.

Definition src_same (s s' : state) (o : nat) (src : option rloc) : Prop :=
  match src with
  | Some (RStk _) => True
  | Some (RMem q j) => nth j (o_mem (hobj s' q)) None = nth j (o_mem (hobj s q)) None
  | None => is_live (hobj s' o) = is_live (hobj s o) /\ o_cnt (hobj s' o) = o_cnt (hobj s o) /\ units o s' = units o s
  end.

Definition same_for (s s' : state) (a : act) : Prop :=
  match a with
  | AInc o src => src_same s s' o src
  | ATake l | AUntag l | APoolObt l | AStore l _ => loc_same s s' l
  | ARel o _ => o_st (hobj s' o) = o_st (hobj s o) /\ o_mem (hobj s' o) = o_mem (hobj s o) /\ o_pooled (hobj s' o) = o_pooled (hobj s o)
  | _ => True
  end.

Lemma wloc_transfer : forall s s' stk l, loc_same s s' l -> wloc_ok (s_heap s) stk l -> wloc_ok (s_heap s') stk l.
Proof.
  intros s s' stk [i|q j] H W; cbn in *; auto. unfold hobj in H. destruct H as (H1 & H2). destruct W as (W1 & W2 & W3).
  rewrite H1, H2. auto.
Qed.

Lemma src_transfer : forall s s' stk o src, src_same s s' o src -> src_ok s stk o src -> src_ok s' stk o src.
Proof.
  intros s s' stk o [[i|q j]|] H W; cbn in *; auto.
  - rewrite H; auto.
  - destruct H as (H1 & H2 & H3). rewrite H1, H2, H3. auto.
Qed.

Lemma act_ok_transfer : forall s s' stk a, same_for s s' a -> act_ok s stk a -> act_ok s' stk a.
Proof.
  intros s s' stk a H W. destruct a; cbn in *; auto.
  - eapply src_transfer; eauto.
  - eapply wloc_transfer; eauto.
  - eapply wloc_transfer; eauto.
  - destruct W; split; auto. eapply wloc_transfer; eauto.
  - destruct H as (H1 & H2 & H3). destruct W as (W1 & W2 & W3). unfold is_releasing, processed_none, rel_index in *.
    rewrite H1, H2, H3. auto.
  - eapply wloc_transfer; eauto.
Qed.

(* ------------------------------------------------------------------ the actions of the other threads stay justified *)

(* why thread t may change the count / state of object z *)
Definition touch_c (s : state) (t z : nat) : Prop :=
  (exists i, nth i (t_stk (thr s t)) None = Some (z, true)) \/
  (exists y j, nth j (o_mem (hobj s y)) None = Some (z, true)) \/
  1 <= net z (thr s t) \/
  In (AInc z None) (t_todo (thr s t)) \/
  (is_live (hobj s z) = false /\ (is_releasing (hobj s z) = true -> exists n, In (ARel z n) (t_todo (thr s t)))).

(* why thread t may write member slots of object y *)
Definition touch_m (s : state) (t y : nat) : Prop :=
  (o_cnt (hobj s y) = 1 /\ exists i, nth i (t_stk (thr s t)) None = Some (y, true)) \/
  (exists n, In (ARel y n) (t_todo (thr s t))).

Lemma fresh_units : forall s t z, inv1 K s -> t < length (s_thr s) -> In (AInc z None) (t_todo (thr s t)) ->
  1 <= thr_units z (thr s t).
Proof.
  intros s t z I Ht Hin. pose proof (i_shape K s I t Ht) as Hs. unfold thr_units.
  assert (1 <= sumf (act_unit z) (t_todo (thr s t))); [|lia].
  remember (t_todo (thr s t)) as td eqn:Etd. clear Etd.
  destruct Hs as [fr Hf|fr l v Hf|q src l|q src l|l|l v|a Ha].
  - exfalso. rewrite forallb_forall in Hf. specialize (Hf _ Hin). discriminate.
  - exfalso. apply in_app_or in Hin. destruct Hin as [Hin|[Hin|[]]]; [|discriminate].
    rewrite forallb_forall in Hf. specialize (Hf _ Hin). discriminate.
  - destruct Hin as [Hin|[Hin|[]]]; [|discriminate]. inversion Hin; subst. cbn. rewrite Nat.eqb_refl. lia.
  - destruct Hin as [Hin|[Hin|[Hin|[]]]]; try discriminate. inversion Hin; subst. cbn. rewrite Nat.eqb_refl. lia.
  - destruct Hin as [Hin|[]]; discriminate.
  - destruct Hin as [Hin|[Hin|[]]]; discriminate.
  - destruct Hin as [Hin|[]]. subst a. cbn in Ha. tauto.
Qed.

Lemma net_units : forall s t z, inv1 K s -> t < length (s_thr s) -> 1 <= net z (thr s t) -> 1 <= units z s.
Proof.
  intros s t z I Ht H. pose proof (thr_units_le s z t Ht). unfold thr_units, net in *. lia.
Qed.

Section Others.
Variables (s : state) (t : nat) (th' : thread) (h' : list obj) (p' : pool).
Let s' := with_thr s t th' h' p'.
Hypothesis I : inv1 K s.
Hypothesis Ht : t < length (s_thr s).
Hypothesis Hcount' : forall o, units o s' = o_cnt (hobj s' o) + debts o s'.
Hypothesis Hc : forall z, touch_c s t z \/
  (o_cnt (hobj s' z) = o_cnt (hobj s z) /\ o_st (hobj s' z) = o_st (hobj s z) /\ o_pooled (hobj s' z) = o_pooled (hobj s z)).
Hypothesis Hm : forall y, touch_m s t y \/ o_mem (hobj s' y) = o_mem (hobj s y).
Hypothesis Hlen : forall y, y < length (s_heap s) -> length (o_mem (hobj s' y)) = length (o_mem (hobj s y)).
Hypothesis Hd : forall o, touch_c s t o \/ thr_debts o th' = thr_debts o (thr s t).

(* an object private to another thread is not count-touched by t *)
Lemma private_untouched : forall u i q, u < length (s_thr s) -> u <> t ->
  nth i (t_stk (thr s u)) None = Some (q, true) -> o_cnt (hobj s q) = 1 -> ~ touch_c s t q.
Proof.
  intros u i q Hu Hne Hheld Hone [(i' & H)|[(y & j & H)|[H|[H|(H & _)]]]].
  - apply (private_other_thread K s u i q I Hu Hheld Hone t i' Ht (not_eq_sym Hne) H).
  - apply (private_no_member K s u i q I Hu Hheld Hone y j H).
  - pose proof (private_no_net K s u i q I Hu Hheld Hone t Ht). lia.
  - pose proof (i_acts K s I t _ Ht H) as A. cbn in A. destruct A as (_ & A & _). lia.
  - destruct (held_live K s u i q I Hu Hheld). congruence.
Qed.

Lemma held_untouched_m : forall u i q, u < length (s_thr s) -> u <> t ->
  nth i (t_stk (thr s u)) None = Some (q, true) -> ~ touch_m s t q.
Proof.
  intros u i q Hu Hne Hheld [(Hone & i' & H)|(n & H)].
  - apply (private_other_thread K s t i' q I Ht H Hone u i Hu Hne Hheld).
  - pose proof (rel_releasing K s q t n I Ht H). destruct (held_live K s u i q I Hu Hheld).
    unfold is_live, is_releasing in *. destruct (o_st (hobj s q)); discriminate.
Qed.

Lemma fresh_untouched : forall u o, u < length (s_thr s) -> u <> t -> In (AInc o None) (t_todo (thr s u)) ->
  is_live (hobj s o) = true -> o_cnt (hobj s o) = 0 -> units o s = 1 -> ~ touch_c s t o.
Proof.
  intros u o Hu Hne Hin Hl Hz Hun [(i' & H)|[(y & j & H)|[H|[H|(H & _)]]]].
  - apply (zero_no_stack K s o t i' I Hz Ht H).
  - apply (zero_no_member K s o y j I Hz H).
  - pose proof (zero_no_net K s o t I Hz Ht). lia.
  - pose proof (fresh_units s t o I Ht H). pose proof (fresh_units s u o I Hu Hin).
    pose proof (thr_units2_le s o t u Ht Hu (not_eq_sym Hne)). lia.
  - congruence.
Qed.

Lemma releasing_untouched : forall u o n, u < length (s_thr s) -> u <> t -> In (ARel o n) (t_todo (thr s u)) ->
  ~ touch_c s t o /\ ~ touch_m s t o.
Proof.
  intros u o n Hu Hne Hin. pose proof (rel_releasing K s o u n I Hu Hin) as HR.
  assert (Hnl : is_live (hobj s o) = false) by (unfold is_live, is_releasing in *; destruct (o_st (hobj s o)); auto; discriminate).
  split.
  - intros [(i' & H)|[(y & j & H)|[H|[H|(H & H2)]]]].
    + apply (dead_no_stack K s o t i' I Hnl Ht H).
    + apply (dead_no_member K s o y j I Hnl H).
    + pose proof (net_units s t o I Ht H). pose proof (i_nolive K s I o Hnl). lia.
    + pose proof (i_acts K s I t _ Ht H) as A. cbn in A. destruct A as (A & _). congruence.
    + destruct (H2 HR) as (m & Hm2). apply (rel_unique K s o t u m n I Ht Hu (not_eq_sym Hne) Hm2 Hin).
  - intros [(Hone & i' & H)|(m & H)].
    + apply (dead_no_stack K s o t i' I Hnl Ht H).
    + apply (rel_unique K s o t u m n I Ht Hu (not_eq_sym Hne) H Hin).
Qed.

Lemma others_same : forall u a, u < length (s_thr s) -> u <> t -> In a (t_todo (thr s u)) ->
  act_ok s (t_stk (thr s u)) a -> same_for s s' a.
Proof.
  intros u a Hu Hne Hin A.
  assert (Lloc : forall l, wloc_ok (s_heap s) (t_stk (thr s u)) l -> loc_same s s' l).
  { intros [i|q j] W; cbn in *; auto. destruct W as (W1 & W2 & (i & W3)).
    destruct (held_live K s u i q I Hu W3) as (Hlv & _). apply live_lt in Hlv.
    split; [|apply Hlen; auto].
    destruct (Hc q) as [Hx|(E & _)]; auto. exfalso. eapply private_untouched; eauto. }
  assert (Lsrc : forall o src, In (AInc o src) (t_todo (thr s u)) ->
                 src_ok s (t_stk (thr s u)) o src -> src_same s s' o src).
  { intros o [[i|q j]|] Hin2 W; cbn [src_ok src_same] in *; auto.
    - destruct W as (W1 & (i & W2)). destruct (Hm q) as [Hx|E]; [|rewrite E; auto].
      exfalso. eapply held_untouched_m; eauto.
    - destruct W as (W1 & W2 & W3).
      assert (Hnt : ~ touch_c s t o) by (eapply fresh_untouched; eauto).
      destruct (Hc o) as [Hx|(E1 & E2 & E3)]; [tauto|].
      split; [unfold is_live; rewrite E2; auto|]. split; auto.
      rewrite Hcount', (i_count K s I o). rewrite E1. f_equal.
      destruct (Hd o) as [Hx|E]; [tauto|].
      pose proof (wt_debts s t th' h' p' o Ht). fold s' in H. lia. }
  destruct a; cbn [act_ok same_for] in *; auto.
  - destruct A; auto.
  - destruct (releasing_untouched u o n Hu Hne Hin) as (N1 & N2).
    destruct (Hc o) as [Hx|(E1 & E2 & E3)]; [tauto|]. destruct (Hm o) as [Hx|E]; [tauto|]. auto.
Qed.

End Others.

(* ------------------------------------------------------------------ assembling the invariant after a step of t *)

Lemma assemble : forall s t th' h' p',
  inv1 K s -> t < length (s_thr s) ->
  let s' := with_thr s t th' h' p' in
  (forall o, units o s' = o_cnt (hobj s' o) + debts o s') ->
  (forall o, is_live (hobj s' o) = false -> units o s' = 0) ->
  (forall o, o < length h' -> length (o_mem (hobj s' o)) = K /\ quiet (hobj s' o)) ->
  shape (t_todo th') ->
  (forall a, In a (t_todo th') -> act_ok s' (t_stk th') a) ->
  (forall z, touch_c s t z \/
     (o_cnt (hobj s' z) = o_cnt (hobj s z) /\ o_st (hobj s' z) = o_st (hobj s z) /\ o_pooled (hobj s' z) = o_pooled (hobj s z))) ->
  (forall y, touch_m s t y \/ o_mem (hobj s' y) = o_mem (hobj s y)) ->
  (forall y, y < length (s_heap s) -> length (o_mem (hobj s' y)) = length (o_mem (hobj s y))) ->
  (forall o, touch_c s t o \/ thr_debts o th' = thr_debts o (thr s t)) ->
  (forall o, rels o s' = if is_releasing (hobj s' o) then 1 else 0) ->
  (forall o, o < length h' -> o_births (hobj s' o) = o_deaths (hobj s' o) + (if is_live (hobj s' o) then 1 else 0)) ->
  inv1 K s'.
Proof.
  intros s t th' h' p' I Ht s' Hcount Hnl Hmem Hsh Hacts Hc Hm Hlen Hd Hrels Hgh.
  subst s'. constructor; auto.
  - intros u Hu. rewrite wt_len in Hu. destruct (Nat.eq_dec u t) as [->|Hne].
    + rewrite wt_same; auto.
    + rewrite wt_other; auto. apply (i_shape K s I); auto.
  - intros u a Hu Hin. rewrite wt_len in Hu. destruct (Nat.eq_dec u t) as [->|Hne].
    + rewrite wt_same in *; auto.
    + rewrite wt_other in *; auto.
      eapply act_ok_transfer; [|apply (i_acts K s I); eauto].
      eapply (others_same s t th' h' p'); eauto. apply (i_acts K s I); eauto.
Qed.

End Step.
