(* C10 -- thread creation preserves the counting invariant: [fork_state] (the parent, between two
   operations, hands each new thread a copy of its stack and counts every copied counting reference). *)
From Coq Require Import List Arith Bool Lia.
From Muscle Require Import Conc.Pool Conc.PoolProofs Conc.RefCnt Conc.RefInv Conc.RefExcl Conc.RefStep Conc.RefActs3.
Import ListNotations.
Local Open Scope nat_scope.

Section Fork.
Variable K : nat.

Lemma count_refs_refs_in : forall o l, count_refs o l = refs_in o l.
Proof.
  induction l as [|[[q [|]]|] t IH]; cbn; auto; unfold refs_in in *; cbn; rewrite IH; auto.
Qed.

Lemma bump_length : forall h b n stk, length (bump h b n stk) = length h.
Proof. induction h as [|ob t IH]; intros; cbn; auto. Qed.

Lemma bump_nth : forall h b n stk i, i < length h ->
  nth i (bump h b n stk) dobj = set_cnt (nth i h dobj) (o_cnt (nth i h dobj) + n * count_refs (b + i) stk).
Proof.
  induction h as [|ob t IH]; intros b n stk [|i] Hi; cbn in *; try lia.
  - rewrite Nat.add_0_r. reflexivity.
  - rewrite IH by lia. replace (S b + i) with (b + S i) by lia. reflexivity.
Qed.

Lemma refs_in_zero : forall o l, (forall i, nth i l None <> Some (o, true)) -> refs_in o l = 0.
Proof.
  intros o l H. unfold refs_in. apply sumf_zero. intros x Hx. apply In_nth with (d := None) in Hx.
  destruct Hx as (i & Hi & E). specialize (H i). rewrite E in H. destruct x as [[q [|]]|]; cbn; auto.
  destruct (q =? o) eqn:Eq; auto. apply Nat.eqb_eq in Eq. subst. congruence.
Qed.

Theorem fork_inv1 : forall s progs, inv1 K s -> 0 < length (s_thr s) -> t_todo (thr s 0) = [] ->
  inv1 K (fork_state s progs).
Proof.
  intros s progs I H0 Htodo. unfold fork_state. fold (thr s 0).
  set (stk0 := t_stk (thr s 0)). set (n := length progs).
  set (h' := bump (s_heap s) 0 n stk0).
  set (new := map (fun pr => mkThr stk0 [] pr) progs).
  set (s' := mkSt h' (s_thr s ++ new) (s_pool s)).
  assert (Hr0 : forall o, is_live (hobj s o) = false -> refs_in o stk0 = 0).
  { intros o Hl. apply refs_in_zero. intros i Hi. apply (dead_no_stack K s o 0 i I Hl H0 Hi). }
  assert (Hget : forall z, hobj s' z = set_cnt (hobj s z) (o_cnt (hobj s z) + n * refs_in z stk0)).
  { intros z. unfold hobj, s', h', get_obj; cbn [s_heap]. destruct (lt_dec z (length (s_heap s))) as [Hl|Hl].
    - rewrite bump_nth by auto. rewrite count_refs_refs_in. reflexivity.
    - rewrite nth_overflow by (rewrite bump_length; lia). rewrite (nth_overflow (s_heap s)) by lia.
      assert (E : refs_in z stk0 = 0).
      { apply Hr0. unfold hobj, get_obj. rewrite nth_overflow by lia. reflexivity. }
      rewrite E. rewrite Nat.mul_0_r. reflexivity. }
  assert (Hnew_u : forall o, sumf (thr_units o) new = n * refs_in o stk0).
  { intros o. unfold new, n. clear. induction progs as [|p ps IH]; cbn [map sumf length]; auto.
    rewrite IH. unfold thr_units at 1. cbn [t_stk t_todo sumf]. lia. }
  assert (Hnew_d : forall o, sumf (thr_debts o) new = 0).
  { intros o. unfold new. clear. induction progs as [|p ps IH]; cbn [map sumf]; auto. }
  assert (Hnew_r : forall o, sumf (fun t => sumf (rel_count o) (t_todo t)) new = 0).
  { intros o. unfold new. clear. induction progs as [|p ps IH]; cbn [map sumf]; auto. }
  assert (Hheap : forall o, sumf (obj_units o) h' = sumf (obj_units o) (s_heap s)).
  { intros o. apply (sumf_pointwise _ _ h' (s_heap s) dobj); [apply bump_length|].
    intros i Hi. unfold h' in *. rewrite bump_length in Hi. rewrite bump_nth by auto. reflexivity. }
  assert (Hunits : forall o, units o s' = units o s + n * refs_in o stk0).
  { intros o. unfold units, s'; cbn [s_thr s_heap]. rewrite sumf_app, Hnew_u, Hheap. lia. }
  assert (Hdebts : forall o, debts o s' = debts o s).
  { intros o. unfold debts, s'; cbn [s_thr]. rewrite sumf_app, Hnew_d. lia. }
  assert (Hthr_old : forall u, u < length (s_thr s) -> thr s' u = thr s u).
  { intros u Hu. unfold thr, s'; cbn [s_thr]. apply app_nth1; auto. }
  assert (Hthr_new : forall u, length (s_thr s) <= u -> u < length (s_thr s ++ new) -> t_todo (thr s' u) = []).
  { intros u Hu Hu2. unfold thr, s'; cbn [s_thr]. rewrite app_nth2 by lia.
    rewrite app_length in Hu2. unfold new in *. rewrite map_length in Hu2.
    rewrite (nth_indep _ dthr (mkThr stk0 [] [])) by (rewrite map_length; lia).
    rewrite (map_nth (fun pr => mkThr stk0 [] pr)). reflexivity. }
  constructor.
  - intros o. rewrite Hunits, Hdebts, Hget. cbn [o_cnt set_cnt]. pose proof (i_count K s I o). lia.
  - intros o Ho. rewrite Hget in Ho. change (is_live (set_cnt (hobj s o) (o_cnt (hobj s o) + n * refs_in o stk0))) with (is_live (hobj s o)) in Ho.
    rewrite Hunits, (Hr0 o Ho), (i_nolive K s I o Ho). lia.
  - intros o Ho. unfold s', h' in Ho; cbn [s_heap] in Ho. rewrite bump_length in Ho. rewrite Hget. apply (i_mem K s I o Ho).
  - intros u Hu. unfold s' in Hu; cbn [s_thr] in Hu. destruct (lt_dec u (length (s_thr s))) as [Hl|Hl].
    + rewrite Hthr_old by auto. apply (i_shape K s I u Hl).
    + rewrite Hthr_new by (auto; lia). apply (sh_frames []). reflexivity.
  - intros u a Hu Hin. unfold s' in Hu; cbn [s_thr] in Hu. destruct (lt_dec u (length (s_thr s))) as [Hl|Hl].
    2:{ rewrite Hthr_new in Hin by (auto; lia). destruct Hin. }
    rewrite Hthr_old in * by auto. pose proof (i_acts K s I u a Hl Hin) as A.
    assert (Hu0 : u <> 0) by (intros ->; rewrite Htodo in Hin; destruct Hin).
    eapply act_ok_transfer; [|exact A].
    assert (Hpriv : forall q i, nth i (t_stk (thr s u)) None = Some (q, true) -> o_cnt (hobj s q) = 1 -> refs_in q stk0 = 0).
    { intros q i Hq Hc. apply refs_in_zero. intros i0 Hi0.
      apply (private_other_thread K s u i q I Hl Hq Hc 0 i0 H0 (not_eq_sym Hu0) Hi0). }
    assert (Lloc : forall l, wloc_ok (s_heap s) (t_stk (thr s u)) l -> loc_same s s' l).
    { intros [i|q j] W; cbn in *; auto. destruct W as (W1 & W2 & (i & W3)). rewrite Hget. cbn [o_cnt o_mem set_cnt].
      rewrite (Hpriv q i W3 W2). split; [lia|reflexivity]. }
    destruct a; cbn [same_for act_ok] in *; auto.
    + destruct src as [[i|q j]|]; cbn [src_same src_ok] in *; auto.
      * rewrite Hget. reflexivity.
      * destruct A as (A1 & A2 & A3). rewrite Hget. cbn [o_cnt set_cnt].
        assert (E : refs_in o stk0 = 0).
        { apply refs_in_zero. intros i0 Hi0. apply (zero_no_stack K s o 0 i0 I A2 H0 Hi0). }
        rewrite Hunits, E. split; [reflexivity|]. split; lia.
    + destruct A; auto.
    + rewrite Hget. auto.
  - intros o. unfold rels, s'; cbn [s_thr]. rewrite sumf_app, Hnew_r, Hget. pose proof (i_rels K s I o) as HR. unfold rels in HR.
    change (is_releasing (set_cnt (hobj s o) (o_cnt (hobj s o) + n * refs_in o stk0))) with (is_releasing (hobj s o)). lia.
  - intros o Ho. unfold s', h' in Ho; cbn [s_heap] in Ho. rewrite bump_length in Ho. rewrite Hget. apply (i_ghost K s I o Ho).
Qed.

End Fork.
