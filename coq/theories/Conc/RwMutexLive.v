(* C18 -- no lost wake-up, no stranding, writer preference: safety forms (DESIGN.md section 3). *)
From Coq Require Import List Arith Bool Lia.
Import ListNotations.
From Muscle Require Import Conc.RwMutexModel Conc.RwMutexProofs Conc.RwMutexInv.

(* a waiting thread is awake when a notification is pending for it, or when it has already returned from Wait()
   (notified or timed out) and is about to re-take _stateMutex: in both cases one of its transitions is enabled *)
Definition woke_r (A : tid -> act) (k : tid) : Prop := exists d ok, A k = AWokeRO d ok.
Definition woke_w (A : tid -> act) (k : tid) : Prop := exists d ok, A k = AWokeRW d ok.
Definition awake_r (A : tid -> act) (k : tid) (c : nat) : Prop := 0 < c \/ woke_r A k.
Definition awake_w (A : tid -> act) (k : tid) (c : nat) : Prop := 0 < c \/ woke_w A k.

Definition all_awake (A : tid -> act) (wr : list (tid * nat)) : Prop := forall k c, find k wr = Some c -> awake_r A k c.
Definition head_awake (A : tid -> act) (ww : list (tid * nat)) : Prop :=
  match ww with (h, c) :: _ => awake_w A h c | [] => True end.

Section P.
Variable pref : bool.

(* what must hold whenever nobody holds the lock: the threads that the hand-off policy favours are awake *)
Definition Jbody (g : gst) (A : tid -> act) : Prop :=
  if pref
  then match g_ww g with [] => all_awake A (g_wr g) | _ => head_awake A (g_ww g) end
  else all_awake A (g_wr g) /\ (g_wr g = [] -> head_awake A (g_ww g)).

Definition acts (s : sys) : tid -> act := fun k => l_act (s_l s k).
Definition J (s : sys) : Prop := g_exec (s_g s) = [] -> Jbody (s_g s) (acts s).

Lemma head_memk : forall (ww : list (tid * nat)) h c r, ww = (h, c) :: r -> memk h ww = true.
Proof. intros ww h c r ->. unfold memk. cbn [find]. rewrite Nat.eqb_refl. reflexivity. Qed.

Lemma find_memk : forall (l : list (tid * nat)) k c, find k l = Some c -> memk k l = true.
Proof. intros l k c H. unfold memk. rewrite H. reflexivity. Qed.

(* threads that are in no waiting table do not matter *)
Lemma Jbody_ext : forall g A A',
  (forall k, memk k (g_wr g) = true \/ memk k (g_ww g) = true -> A' k = A k) -> Jbody g A -> Jbody g A'.
Proof.
  intros g A A' Hext. unfold Jbody.
  assert (Hall : all_awake A (g_wr g) -> all_awake A' (g_wr g)).
  { intros H k c Hf. destruct (H k c Hf) as [Hc|(d & ok & Hw)]; [left; auto|right].
    exists d, ok. rewrite Hext; auto. left. eapply find_memk; eauto. }
  assert (Hhd : head_awake A (g_ww g) -> head_awake A' (g_ww g)).
  { unfold head_awake. destruct (g_ww g) as [|[h c] r] eqn:E; auto.
    intros [Hc|(d & ok & Hw)]; [left; auto|right]. exists d, ok. rewrite Hext; auto. right. eapply head_memk; reflexivity. }
  destruct pref.
  - destruct (g_ww g); auto.
  - intros [H1 H2]. split; auto.
Qed.

(* NotifySomeWaitingThreads establishes it from scratch, whatever the threads are doing *)
Lemma notify_some_J : forall g g2 ns A, notify_some pref g = (g2, ns) -> Jbody g2 A.
Proof.
  intros g g2 ns A H. unfold notify_some in H. unfold Jbody, all_awake, head_awake.
  assert (Hall : forall g', g_wr g' = map bump (g_wr g) -> forall k c, find k (g_wr g') = Some c -> awake_r A k c).
  { intros g' E k c Hf. rewrite E, find_bump in Hf. destruct (find k (g_wr g)); inversion Hf. left. lia. }
  destruct (g_wr g) as [|[k0 c0] r0] eqn:Er; destruct (g_ww g) as [|[h c] r] eqn:Ew; cbn [is_nil negb andb] in H.
  - inversion H; subst. rewrite Er, Ew. destruct pref; [|split; auto]; intros k c Hf; discriminate.
  - unfold notify_next_writer in H. rewrite Ew in H. inversion H; subst. cbn [set_ww g_ww g_wr]. rewrite Er.
    destruct pref; [left; lia|]. split; [intros k c' Hf; discriminate|]. intros _. left. lia.
  - unfold notify_all_readers in H. inversion H; subst. cbn [set_wr g_ww g_wr]. rewrite Ew.
    destruct pref; [|split; [|intros Hc; rewrite Er in Hc; discriminate]]; apply (Hall (set_wr g (map bump (g_wr g)))); cbn [set_wr g_wr]; rewrite Er; reflexivity.
  - destruct pref.
    + unfold notify_next_writer in H. rewrite Ew in H. inversion H; subst. cbn [set_ww g_ww]. left. lia.
    + unfold notify_all_readers in H. inversion H; subst. cbn [set_wr g_ww g_wr].
      split; [apply (Hall (set_wr g (map bump (g_wr g)))); cbn [set_wr g_wr]; rewrite Er; reflexivity|]. rewrite Er. intros Hc. discriminate.
Qed.


(* a transition of t that leaves the tables alone: t may only gain wokeness where it matters *)
Lemma J_mono : forall g A A' t,
  (forall k, k <> t -> A' k = A k) ->
  (memk t (g_wr g) = true -> woke_r A t -> woke_r A' t) ->
  (memk t (g_ww g) = true -> woke_w A t -> woke_w A' t) ->
  Jbody g A -> Jbody g A'.
Proof.
  intros g A A' t Ho Hr Hw. unfold Jbody.
  assert (Hall : all_awake A (g_wr g) -> all_awake A' (g_wr g)).
  { intros H k c Hf. destruct (H k c Hf) as [Hc|Hk]; [left; auto|right].
    destruct (Nat.eq_dec k t) as [->|Hne].
    - apply Hr; auto. eapply find_memk; eauto.
    - destruct Hk as (d & ok & Hk). exists d, ok. rewrite Ho; auto. }
  assert (Hhd : head_awake A (g_ww g) -> head_awake A' (g_ww g)).
  { unfold head_awake. destruct (g_ww g) as [|[h c] r] eqn:E; auto.
    intros [Hc|Hk]; [left; auto|right]. destruct (Nat.eq_dec h t) as [->|Hne].
    - apply Hw; auto. eapply head_memk; reflexivity.
    - destruct Hk as (d & ok & Hk). exists d, ok. rewrite Ho; auto. }
  destruct pref.
  - destruct (g_ww g); auto.
  - intros [H1 H2]. split; auto.
Qed.

Lemma find_setc_same : forall t c (l : list (tid * nat)), memk t l = true -> find t (setc t c l) = Some c.
Proof. intros t c l H. unfold setc, memk in *. destruct (find t l); [apply find_setv_same|discriminate]. Qed.

Lemma find_setc_other : forall t k c (l : list (tid * nat)), k <> t -> find k (setc t c l) = find k l.
Proof. intros t k c l H. unfold setc. destruct (find t l); [apply find_setv_other; auto|auto]. Qed.

Lemma setc_nil : forall t c (l : list (tid * nat)), setc t c l = [] -> l = [].
Proof. intros t c l H. unfold setc in H. destruct (find t l); auto. apply setv_not_nil in H. contradiction. Qed.

Lemma setv_head : forall t h (c x : nat) r, h <> t -> setv t c ((h, x) :: r) = (h, x) :: setv t c r.
Proof. intros. cbn [setv]. destruct (Nat.eqb h t) eqn:E; auto. apply Nat.eqb_eq in E. contradiction. Qed.

Lemma setc_head : forall t (c : nat) (l : list (tid * nat)) h x r, l = (h, x) :: r ->
  exists x' r', setc t c l = (h, x') :: r' /\ (h <> t -> x' = x) /\ (h = t -> x' = c).
Proof.
  intros t c l h x r ->. unfold setc. destruct (find t ((h, x) :: r)) eqn:E.
  - cbn [setv]. destruct (Nat.eqb h t) eqn:Eh.
    + apply Nat.eqb_eq in Eh. do 2 eexists. split; [reflexivity|]. split; congruence.
    + apply Nat.eqb_neq in Eh. do 2 eexists. split; [reflexivity|]. split; congruence.
  - do 2 eexists. split; [reflexivity|]. split; auto. intros ->. cbn [find] in E. rewrite Nat.eqb_refl in E. discriminate.
Qed.

(* Wait() returned with a notification: the counter is flushed, the thread is now woke *)
Lemma J_wake_ro : forall g A A' t,
  (forall k, k <> t -> A' k = A k) -> woke_r A' t -> memk t (g_wr g) = true -> memk t (g_ww g) = false ->
  Jbody g A -> Jbody (set_wr g (setc t 0 (g_wr g))) A'.
Proof.
  intros g A A' t Ho Ht Hin Hnw. unfold Jbody. cbn [set_wr g_wr g_ww].
  assert (Hall : all_awake A (g_wr g) -> all_awake A' (setc t 0 (g_wr g))).
  { intros H k c Hf. destruct (Nat.eq_dec k t) as [->|Hne]; [right; auto|].
    rewrite find_setc_other in Hf by auto. destruct (H k c Hf) as [Hc|(d & ok & Hk)]; [left; auto|right].
    exists d, ok. rewrite Ho; auto. }
  assert (Hhd : head_awake A (g_ww g) -> head_awake A' (g_ww g)).
  { unfold head_awake. destruct (g_ww g) as [|[h c] r] eqn:E; auto.
    assert (h <> t). { intros ->. unfold memk in Hnw. cbn [find] in Hnw. rewrite Nat.eqb_refl in Hnw. discriminate. }
    intros [Hc|(d & ok & Hk)]; [left; auto|right]. exists d, ok. rewrite Ho; auto. }
  destruct pref.
  - destruct (g_ww g); auto.
  - intros [H1 H2]. split; auto. intros Hn. apply setc_nil in Hn. auto.
Qed.

Lemma J_wake_rw : forall g A A' t,
  (forall k, k <> t -> A' k = A k) -> woke_w A' t -> memk t (g_ww g) = true -> memk t (g_wr g) = false ->
  Jbody g A -> Jbody (set_ww g (setc t 0 (g_ww g))) A'.
Proof.
  intros g A A' t Ho Ht Hin Hnr. unfold Jbody. cbn [set_ww g_wr g_ww].
  assert (Hall : all_awake A (g_wr g) -> all_awake A' (g_wr g)).
  { intros H k c Hf. assert (k <> t). { intros ->. unfold memk in Hnr. rewrite Hf in Hnr. discriminate. }
    destruct (H k c Hf) as [Hc|(d & ok & Hk)]; [left; auto|right]. exists d, ok. rewrite Ho; auto. }
  assert (Hhd : head_awake A (g_ww g) -> head_awake A' (setc t 0 (g_ww g))).
  { unfold head_awake. destruct (g_ww g) as [|[h c] r] eqn:E.
    - unfold setc. cbn [find]. auto.
    - destruct (setc_head t 0 _ h c r eq_refl) as (x' & r' & Hs & Hne & Heq). rewrite Hs.
      destruct (Nat.eq_dec h t) as [->|Hn]; [intros _; right; auto|].
      rewrite (Hne Hn). intros [Hc|(d & ok & Hk)]; [left; auto|right]. exists d, ok. rewrite Ho; auto. }
  destruct pref.
  - destruct (g_ww g) as [|[h c] r] eqn:E.
    + unfold setc. cbn [find]. auto.
    + destruct (setc_head t 0 _ h c r eq_refl) as (x' & r' & Hs & _ & _). intros H. specialize (Hhd H). rewrite Hs in *. exact Hhd.
  - intros [H1 H2]. split; auto.
Qed.

(* a writer joins the queue behind its head, or re-parks without being the head *)
Lemma J_behind_head : forall g A A' t h x r ww',
  (forall k, k <> t -> A' k = A k) -> g_ww g = (h, x) :: r -> h <> t -> memk t (g_wr g) = false ->
  (ww' = g_ww g \/ exists c, ww' = setv t c (g_ww g)) ->
  forall tot ex p, Jbody g A -> Jbody (mkG tot ex (g_wr g) ww' p) A'.
Proof.
  intros g A A' t h x r ww' Ho Ew Hh Hnr Hww tot ex p. unfold Jbody. cbn [g_wr g_ww].
  assert (Hall : all_awake A (g_wr g) -> all_awake A' (g_wr g)).
  { intros H k c Hf. assert (k <> t). { intros ->. unfold memk in Hnr. rewrite Hf in Hnr. discriminate. }
    destruct (H k c Hf) as [Hc|(d & ok & Hk)]; [left; auto|right]. exists d, ok. rewrite Ho; auto. }
  assert (Hw' : exists r', ww' = (h, x) :: r').
  { destruct Hww as [->|[c ->]]; rewrite Ew; [eauto|]. rewrite setv_head by auto. eauto. }
  destruct Hw' as [r' ->]. rewrite Ew.
  assert (Hhd : awake_w A h x -> awake_w A' h x).
  { intros [Hc|(d & ok & Hk)]; [left; auto|right]. exists d, ok. rewrite Ho; auto. }
  unfold head_awake. destruct pref; auto. intros [H1 H2]. split; auto.
Qed.

(* a reader joins or re-joins the queue while a writer is waiting under writer preference *)
Lemma J_reader_behind_writer : forall g A A' t wr',
  pref = true -> g_ww g <> [] -> memk t (g_ww g) = false -> (forall k, k <> t -> A' k = A k) ->
  forall tot ex p, Jbody g A -> Jbody (mkG tot ex wr' (g_ww g) p) A'.
Proof.
  intros g A A' t wr' Hp Hne Hnw Ho tot ex p. unfold Jbody. rewrite Hp. cbn [g_wr g_ww].
  destruct (g_ww g) as [|[h c] r] eqn:E; [contradiction|].
  assert (h <> t). { intros ->. unfold memk in Hnw. cbn [find] in Hnw. rewrite Nat.eqb_refl in Hnw. discriminate. }
  unfold head_awake. intros [Hc|(d & ok & Hk)]; [left; auto|right]. exists d, ok. rewrite Ho; auto.
Qed.


Lemma exec_nil_total : forall g, mode g -> g_exec g = [] -> g_total g = 0.
Proof. intros g [[H _]|(t & e & Hx & _)] Hn; auto. rewrite Hn in Hx. discriminate. Qed.

Lemma maybe_fires : forall g, g_total g = 0 -> g_exec g = [] -> maybe_notify pref g = notify_some pref g.
Proof. intros g Ht Hx. unfold maybe_notify. rewrite Ht, Hx. reflexivity. Qed.

Lemma memk_false_ne : forall (l : list (tid * nat)) t h c r, memk t l = false -> l = (h, c) :: r -> h <> t.
Proof. intros l t h c r Hm -> ->. unfold memk in Hm. cbn [find] in Hm. rewrite Nat.eqb_refl in Hm. discriminate. Qed.

Lemma ok_writer_false : forall t g, ok_writer t g = false -> g_exec g = [] -> exists h c r, g_ww g = (h, c) :: r /\ h <> t.
Proof.
  intros t g H Hx. unfold ok_writer in H. rewrite Hx in H. cbn [is_nil andb] in H.
  destruct (g_ww g) as [|[h c] r]; [discriminate|]. exists h, c, r. split; auto. apply Nat.eqb_neq. exact H.
Qed.

Lemma ok_readers_false : forall g, ok_readers pref g = false -> g_total g = 0 -> pref = true /\ g_ww g <> [].
Proof.
  intros g H Ht. unfold ok_readers in H. rewrite Ht in H. cbn [Nat.eqb andb] in H.
  destruct pref; cbn [negb orb] in H; [|discriminate]. split; auto. intros Hn. rewrite Hn in H. discriminate.
Qed.

(* the critical sections: if nobody holds the lock afterwards, the favoured waiters are awake *)
Lemma J_cs : forall t a g g' ns out (A A' : tid -> act),
  mode g -> mode g' ->
  memk t (g_wr g) = (match a with AWokeRO _ _ => true | _ => false end) ->
  memk t (g_ww g) = (match a with AWokeRW _ _ => true | _ => false end) ->
  A t = a ->
  (forall k, k <> t -> A' k = A k) ->
  (match out with Parked a' _ => A' t = a' | _ => True end) ->
  (g_exec g = [] -> Jbody g A) ->
  cs pref t a g = Some (g', ns, out) -> g_exec g' = [] -> Jbody g' A'.
Proof.
  intros t a g g' ns out A A' Hm Hm' Hwr Hww Ha Ho Hp HJ H Hn'.
  pose proof (exec_nil_total _ Hm' Hn') as Ht'.
  assert (Hstay : g' = g -> memk t (g_wr g) = false -> memk t (g_ww g) = false -> Jbody g' A').
  { intros -> H1 H2. eapply J_mono; [exact Ho| | |apply HJ; auto]; intros Hc; congruence. }
  destruct a; cbn [cs] in H; try discriminate; inversion H as [H1]; clear H.
  - (* enter_ro *)
    unfold enter_ro in H1. destruct (find t (g_exec g)) as [e|] eqn:Hf.
    + inversion H1; subst. cbn [set_exec g_exec] in Hn'. apply setv_not_nil in Hn'. contradiction.
    + destruct (ok_readers pref g) eqn:Hok.
      * inversion H1; subst. cbn [set_exec g_exec] in Hn'. apply setv_not_nil in Hn'. contradiction.
      * assert (Hpark : forall c p, g' = mkG (g_total g) (g_exec g) (setv t c (g_wr g)) (g_ww g) p -> Jbody g' A').
        { intros c p ->. cbn [g_exec g_total] in Hn', Ht'. destruct (ok_readers_false _ Hok Ht') as [Hpt Hwn].
          eapply J_reader_behind_writer; eauto. }
        destruct d.
        -- destruct (pool_get (g_pool g)) as [c p]. inversion H1; subst. eapply Hpark; eauto.
        -- inversion H1; subst. auto.
        -- destruct (pool_get (g_pool g)) as [c p]. inversion H1; subst. eapply Hpark; eauto.
  - (* enter_rw *)
    unfold enter_rw in H1. destruct (find t (g_exec g)) as [e|] eqn:Hf.
    + assert (Hne : g_exec g <> []) by (intros Hc; rewrite Hc in Hf; discriminate).
      destruct (Nat.ltb 0 (e_rw e) || Nat.eqb (length (g_exec g)) 1).
      * inversion H1; subst. cbn [g_exec] in Hn'. apply setv_not_nil in Hn'. contradiction.
      * destruct d; inversion H1; subst; contradiction.
    + destruct (ok_writer t g) eqn:Hok.
      * inversion H1; subst. cbn [g_exec] in Hn'. apply setv_not_nil in Hn'. contradiction.
      * assert (Hpark : forall c p, g' = mkG (g_total g) (g_exec g) (g_wr g) (setv t c (g_ww g)) p -> Jbody g' A').
        { intros c p ->. cbn [g_exec] in Hn'. destruct (ok_writer_false _ _ Hok Hn') as (h & x & r & Ew & Hh).
          eapply J_behind_head; eauto. }
        destruct d.
        -- destruct (pool_get (g_pool g)) as [c p]. inversion H1; subst. eapply Hpark; eauto.
        -- inversion H1; subst. auto.
        -- destruct (pool_get (g_pool g)) as [c p]. inversion H1; subst. eapply Hpark; eauto.
  - (* unlock_ro *)
    unfold unlock_ro in H1. destruct (find t (g_exec g)) as [e|] eqn:Hf; [|inversion H1; subst; auto].
    destruct (e_ro e) as [|r]; [inversion H1; subst; auto|].
    destruct (Nat.eqb r 0 && Nat.eqb (e_rw e) 0).
    + destruct (maybe_notify pref (set_exec g (remove t (g_exec g)))) as [g2 ns2] eqn:E. inversion H1; subst.
      pose proof (maybe_notify_shape pref (set_exec g (remove t (g_exec g)))) as S. rewrite E in S. cbn [fst] in S.
      destruct S as [St Se _ _ _ _ _]. rewrite maybe_fires in E by congruence. eapply notify_some_J; eauto.
    + inversion H1; subst. cbn [set_exec g_exec] in Hn'. apply setv_not_nil in Hn'. contradiction.
  - (* unlock_rw *)
    unfold unlock_rw in H1. destruct (find t (g_exec g)) as [e|] eqn:Hf; [|inversion H1; subst; auto].
    destruct (e_rw e) as [|w]; [inversion H1; subst; auto|].
    match type of H1 with context [if Nat.eqb (pred (g_total g)) 0 then ?x else ?y] =>
      destruct (if Nat.eqb (pred (g_total g)) 0 then x else y) as [g2 ns2] eqn:E end.
    inversion H1; subst. clear H1.
    destruct (Nat.eqb (pred (g_total g)) 0) eqn:E0.
    2: { inversion E; subst. cbn [g_total] in Ht'. apply Nat.eqb_neq in E0. contradiction. }
    destruct (Nat.ltb 0 (e_ro e)) eqn:E1.
    { exfalso. apply Nat.ltb_lt in E1. unfold notify_all_readers in E. inversion E; subst. cbn [set_wr g_exec] in Hn'.
      destruct (e_ro e); [lia|]. rewrite andb_false_r in Hn'. apply setv_not_nil in Hn'. contradiction. }
    match type of E with (if is_nil ?ex then _ else _) = _ => destruct (is_nil ex) eqn:E2 end.
    + eapply notify_some_J; eauto.
    + inversion E; subst. cbn [g_exec] in Hn'. rewrite Hn' in E2. discriminate.
  - (* woke_ro *)
    unfold woke_ro in H1. destruct ok; cbn [negb] in H1.
    + destruct (ok_readers pref g) eqn:Hok.
      * inversion H1; subst. rewrite leave_wr_exec in Hn'. cbn [set_exec g_exec] in Hn'. apply setv_not_nil in Hn'. contradiction.
      * inversion H1; subst. destruct (ok_readers_false _ Hok Ht') as [Hpt Hwn].
        destruct g' as [tot ex wr ww p]. cbn [g_ww g_exec] in *.
        change (Jbody (mkG tot ex wr (g_ww (mkG tot ex wr ww p)) p) A').
        eapply J_reader_behind_writer; eauto.
    + destruct (maybe_notify pref (leave_wr t g)) as [g2 ns2] eqn:E. inversion H1; subst.
      pose proof (maybe_notify_shape pref (leave_wr t g)) as S. rewrite E in S. cbn [fst] in S.
      destruct S as [St Se _ _ _ _ _]. rewrite maybe_fires in E by congruence. eapply notify_some_J; eauto.
  - (* woke_rw *)
    unfold woke_rw in H1. destruct ok; cbn [negb] in H1.
    + destruct (ok_writer t g) eqn:Hok.
      * inversion H1; subst. rewrite leave_ww_exec in Hn'. cbn [g_exec] in Hn'. apply setv_not_nil in Hn'. contradiction.
      * inversion H1; subst. destruct (ok_writer_false _ _ Hok Hn') as (h & x & r & Ew & Hh).
        destruct g' as [tot ex wr ww p]. cbn [g_ww g_wr g_exec] in *.
        change (Jbody (mkG tot ex (g_wr (mkG tot ex wr ww p)) ww p) A').
        eapply J_behind_head; eauto.
    + destruct (maybe_notify pref (leave_ww t g)) as [g2 ns2] eqn:E. inversion H1; subst.
      pose proof (maybe_notify_shape pref (leave_ww t g)) as S. rewrite E in S. cbn [fst] in S.
      destruct S as [St Se _ _ _ _ _]. rewrite maybe_fires in E by congruence. eapply notify_some_J; eauto.
Qed.


Lemma acts_upd_other : forall g L t l k, k <> t -> acts (mkS g (upd L t l)) k = l_act (L k).
Proof. intros g L t l k H. unfold acts, upd. cbn [s_l]. destruct (Nat.eqb k t) eqn:E; auto. apply Nat.eqb_eq in E. contradiction. Qed.

Lemma acts_upd_same : forall g L t l, acts (mkS g (upd L t l)) t = l_act l.
Proof. intros. unfold acts, upd. cbn [s_l]. rewrite Nat.eqb_refl. reflexivity. Qed.

Lemma J_init : J sys0.
Proof. intros _. unfold Jbody. cbn. destruct pref; [|split; auto]; intros k c H; discriminate. Qed.

Lemma J_step : forall s lab s' o, inv s -> J s -> sys_step pref s lab = Some (s', o) -> J s'.
Proof.
  intros s lab s' o Hinv HJ H.
  pose proof (inv_step pref s lab s' o Hinv H) as Hinv'.
  destruct Hinv as [Hm Hl]. destruct Hinv' as [Hm' _].
  destruct lab as [t op|t c|p]; cbn [sys_step] in H.
  3: { inversion H; subst; clear H. intros Hn. cbn [s_g set_pool g_exec] in Hn. exact (HJ Hn). }
  - (* begin: the tables are untouched; t is in no table *)
    destruct (begin_op op (s_l s t)) as [l'|] eqn:E; [|discriminate]. inversion H; subst; clear H.
    intros Hn. cbn [s_g] in *. specialize (HJ Hn).
    destruct (Hl t) as [_ _ Hwr Hww]. unfold begin_op in E.
    destruct (l_act (s_l s t)) eqn:Ha; try discriminate. unfold inwr in Hwr. unfold inww in Hww. rewrite Ha in Hwr, Hww.
    eapply J_mono with (t := t); [| | |exact HJ].
    + intros k Hk. apply acts_upd_other; auto.
    + intros Hc; congruence.
    + intros Hc; congruence.
  - destruct (step pref t c (s_g s) (s_l s t)) as [[[g' l'] o']|] eqn:E; [|discriminate]. inversion H; subst; clear H.
    intros Hn. cbn [s_g] in *.
    assert (Ho : forall k, k <> t -> acts (mkS g' (upd (s_l s) t l')) k = acts s k) by (intros; apply acts_upd_other; auto).
    destruct (Hl t) as [Hwf Hex Hwr Hww]. unfold inwr in Hwr. unfold inww in Hww.
    unfold step in E. destruct c.
    + (* run *)
      destruct (l_act (s_l s t)) eqn:Ha.
      1: { unfold run_cs in E; rewrite Ha in E; cbn in E; discriminate. }
      all: try (unfold run_cs in E; rewrite Ha in E;
                match type of E with context [cs pref ?tt ?a ?gg] =>
                  destruct (cs pref tt a gg) as [[[g1 ns1] out1]|] eqn:Ecs; [|discriminate];
                  assert (Hg : g1 = g' /\ match out1 with Parked a' _ => acts (mkS g' (upd (s_l s) t l')) t = a' | _ => True end);
                  [destruct out1; [destruct (complete (s_l s t) s0)|..]; inversion E; subst; split; auto; rewrite acts_upd_same; reflexivity|];
                  destruct Hg as [Hg1 Hp]; subst g1;
                  eapply (J_cs tt a gg g' ns1 out1 (acts s)); eauto
                end).
      * (* wake-up of a parked reader *)
        destruct (find t (g_wr (s_g s))) as [[|n]|] eqn:Ef; try discriminate. inversion E; subst; clear E.
        cbn [set_wr g_exec] in Hn. eapply J_wake_ro; eauto.
        exists d, true. rewrite acts_upd_same. reflexivity.
      * destruct (find t (g_ww (s_g s))) as [[|n]|] eqn:Ef; try discriminate. inversion E; subst; clear E.
        cbn [set_ww g_exec] in Hn. eapply J_wake_rw; eauto.
        exists d, true. rewrite acts_upd_same. reflexivity.
    + (* timeout *)
      destruct (l_act (s_l s t)) eqn:Ha; try discriminate; destruct d; try discriminate; inversion E; subst; clear E.
      * eapply J_mono with (t := t); [exact Ho| | |apply HJ; auto].
        -- intros _ _. exists Timed, false. rewrite acts_upd_same. reflexivity.
        -- intros Hc; congruence.
      * eapply J_mono with (t := t); [exact Ho| | |apply HJ; auto].
        -- intros Hc; congruence.
        -- intros _ _. exists Timed, false. rewrite acts_upd_same. reflexivity.
Qed.

Theorem J_reachable : forall s, reachable pref s -> J s.
Proof.
  intros s H. induction H as [|s lab s' o Hr IH Hs]; [apply J_init|].
  eapply J_step; eauto. apply (inv_reachable pref); auto.
Qed.


(* ---- consequences ---- *)

Lemma run_cs_enabled : forall t g l,
  match l_act l with AIdle | AParkRO _ | AParkRW _ => False | _ => True end -> run_cs pref t g l <> None.
Proof.
  intros t g l H. unfold run_cs.
  assert (Hgen : forall x : gst * list tid * outcome,
            match Some x with
            | None => None
            | Some (g', ns, Done s) => let (l', r) := complete l s in Some (g', l', mkOut None true ns None r)
            | Some (g', ns, Parked a' k) => Some (g', keep l a', mkOut None true ns (Some k) None)
            | Some (g', ns, Call a' f) => Some (g', mkL a' (f :: l_stk l) (l_op l) (l_hro l) (l_hrw l), mkOut None true ns None None)
            end <> None).
  { intros [[g1 ns1] out1]. destruct out1; [destruct (complete l s)|..]; discriminate. }
  destruct (l_act l); try contradiction; cbn [cs]; apply Hgen.
Qed.

Lemma step_run_cs : forall t g l,
  match l_act l with AIdle | AParkRO _ | AParkRW _ => False | _ => True end -> step pref t CRun g l = run_cs pref t g l.
Proof. intros t g l H. unfold step. destruct (l_act l); try contradiction; reflexivity. Qed.

Lemma awake_reader_enabled : forall g t l c, linv g t l -> find t (g_wr g) = Some c ->
  (0 < c \/ exists d ok, l_act l = AWokeRO d ok) -> step pref t CRun g l <> None.
Proof.
  intros g t l c [Hwf Hex Hwr Hww] Hf Haw. unfold memk in Hwr. rewrite Hf in Hwr. unfold inwr in Hwr.
  destruct (l_act l) eqn:Ha; try discriminate.
  - destruct Haw as [Hc|(d0 & ok & Hk)]; [|discriminate]. unfold step. rewrite Ha, Hf. destruct c; [lia|discriminate].
  - rewrite step_run_cs by (rewrite Ha; exact I). apply run_cs_enabled. rewrite Ha. exact I.
Qed.

Lemma awake_writer_enabled : forall g t l c, linv g t l -> find t (g_ww g) = Some c ->
  (0 < c \/ exists d ok, l_act l = AWokeRW d ok) -> step pref t CRun g l <> None.
Proof.
  intros g t l c [Hwf Hex Hwr Hww] Hf Haw. unfold memk in Hww. rewrite Hf in Hww. unfold inww in Hww.
  destruct (l_act l) eqn:Ha; try discriminate.
  - destruct Haw as [Hc|(d0 & ok & Hk)]; [|discriminate]. unfold step. rewrite Ha, Hf. destruct c; [lia|discriminate].
  - rewrite step_run_cs by (rewrite Ha; exact I). apply run_cs_enabled. rewrite Ha. exact I.
Qed.

Lemma find_head : forall (l : list (tid * nat)) h c r, l = (h, c) :: r -> find h l = Some c.
Proof. intros l h c r ->. cbn [find]. rewrite Nat.eqb_refl. reflexivity. Qed.

(* rw_no_lost_wakeup: whenever nobody holds the lock and somebody waits, a waiting thread has an enabled transition
   (a notification is pending for it, or it already returned from Wait() and is about to re-check) *)
Theorem no_lost_wakeup : forall s, reachable pref s -> g_exec (s_g s) = [] ->
  (g_wr (s_g s) <> [] \/ g_ww (s_g s) <> []) ->
  exists t, (memk t (g_wr (s_g s)) = true \/ memk t (g_ww (s_g s)) = true) /\
            step pref t CRun (s_g s) (s_l s t) <> None.
Proof.
  intros s Hr Hn Hw. pose proof (J_reachable s Hr Hn) as HJ. destruct (inv_reachable pref s Hr) as [_ Hl].
  assert (Hrd : forall k c r, g_wr (s_g s) = (k, c) :: r -> all_awake (acts s) (g_wr (s_g s)) ->
                exists t, (memk t (g_wr (s_g s)) = true \/ memk t (g_ww (s_g s)) = true) /\ step pref t CRun (s_g s) (s_l s t) <> None).
  { intros k c r E Hall. exists k. pose proof (find_head _ _ _ _ E) as Hf. split; [left; eapply find_memk; eauto|].
    eapply awake_reader_enabled; [apply Hl|exact Hf|]. exact (Hall k c Hf). }
  assert (Hwt : forall k c r, g_ww (s_g s) = (k, c) :: r -> head_awake (acts s) (g_ww (s_g s)) ->
                exists t, (memk t (g_wr (s_g s)) = true \/ memk t (g_ww (s_g s)) = true) /\ step pref t CRun (s_g s) (s_l s t) <> None).
  { intros k c r E Hh. exists k. pose proof (find_head _ _ _ _ E) as Hf. split; [right; eapply find_memk; eauto|].
    eapply awake_writer_enabled; [apply Hl|exact Hf|]. rewrite E in Hh. exact Hh. }
  unfold Jbody in HJ. destruct pref.
  - destruct (g_ww (s_g s)) as [|[h c] r] eqn:Ew.
    + destruct (g_wr (s_g s)) as [|[k c] r] eqn:Er; [destruct Hw; contradiction|]. eapply Hrd; eauto.
    + eapply Hwt; eauto.
  - destruct HJ as [Hall Hhd]. destruct (g_wr (s_g s)) as [|[k c] r] eqn:Er.
    + destruct (g_ww (s_g s)) as [|[h c] r] eqn:Ew; [destruct Hw; contradiction|]. eapply Hwt; eauto.
    + eapply Hrd; eauto.
Qed.

(* a thread that holds the lock is never parked *)
Lemma holder_not_parked : forall g t l e, linv g t l -> find t (g_exec g) = Some e -> inwr l = false /\ inww l = false.
Proof.
  intros g t l e [Hwf Hex _ _] Hf. rewrite Hf in Hex. unfold exp_ent, hold in Hex. unfold wf in Hwf. unfold inwr, inww.
  destruct (l_stk l) as [|[n i d|n|n i lrw] [|]]; try contradiction; cbn [fst snd] in Hex.
  - destruct (l_act l); auto; destruct Hwf as (_ & _ & H); try (destruct H as (_ & H0 & H1)); try (destruct H as (H0 & H1));
      rewrite H0, H1 in Hex; discriminate.
  - destruct Hwf as (-> & _). auto.
  - discriminate.
  - destruct Hwf as (_ & _ & _ & _ & _ & [-> |(-> & -> & _)]); [auto|discriminate].
Qed.

(* rw_no_stranding (deadlock freedom among threads that use only this lock): if no transition is enabled at all although some
   thread is waiting, then the lock is held by a thread that is outside any call -- the waiters wait for a holder that has
   not released yet, never for a wake-up that got lost *)
Theorem no_stranding : forall s, reachable pref s ->
  (forall t c, step pref t c (s_g s) (s_l s t) = None) ->
  (g_wr (s_g s) <> [] \/ g_ww (s_g s) <> []) ->
  exists h e, find h (g_exec (s_g s)) = Some e /\ l_act (s_l s h) = AIdle.
Proof.
  intros s Hr Hstuck Hw. destruct (g_exec (s_g s)) as [|[h e] r] eqn:Ex.
  - destruct (no_lost_wakeup s Hr Ex Hw) as (t & _ & Hen). exfalso. apply Hen. apply Hstuck.
  - exists h, e. assert (Hf : find h (g_exec (s_g s)) = Some e) by (rewrite Ex; cbn [find]; rewrite Nat.eqb_refl; reflexivity).
    rewrite <- Ex. split; [exact Hf|].
    destruct (inv_reachable pref s Hr) as [_ Hl]. destruct (holder_not_parked _ _ _ _ (Hl h) Hf) as [H1 H2].
    unfold inwr in H1. unfold inww in H2.
    assert (Hen : forall a, l_act (s_l s h) = a -> match a with AIdle | AParkRO _ | AParkRW _ => False | _ => True end -> False).
    { intros a Ha Hma. apply (run_cs_enabled h (s_g s) (s_l s h)); [rewrite Ha; exact Hma|].
      rewrite <- step_run_cs by (rewrite Ha; exact Hma). apply Hstuck. }
    destruct (l_act (s_l s h)) eqn:Ha; auto; try discriminate; exfalso; (eapply Hen; [reflexivity|exact I]).
Qed.

(* rw_writer_pref: with writer preference on, a thread that holds nothing becomes a reader only when no writer is waiting;
   rw_writer_fifo: a thread that holds nothing becomes a writer only when nobody executes and it is the first waiting writer
   (or none waits) *)
Theorem admission : forall t g l g' l' o e,
  step pref t CRun g l = Some (g', l', o) -> find t (g_exec g) = None -> find t (g_exec g') = Some e ->
  (e = mkEnt 1 0 /\ g_total g = 0 /\ (pref = true -> g_ww g = [])) \/
  (e = mkEnt 0 1 /\ g_exec g = [] /\ (g_ww g = [] \/ exists c r, g_ww g = (t, c) :: r)).
Proof.
  intros t g l g' l' o e H Hf Hf'.
  assert (Hrd : ok_readers pref g = true -> g_total g = 0 /\ (pref = true -> g_ww g = [])).
  { unfold ok_readers. intros Hok. apply andb_prop in Hok. destruct Hok as [H1 H2]. apply Nat.eqb_eq in H1. split; auto.
    intros ->. cbn [negb orb] in H2. apply is_nil_true in H2. auto. }
  assert (Hwt : ok_writer t g = true -> g_exec g = [] /\ (g_ww g = [] \/ exists c r, g_ww g = (t, c) :: r)).
  { unfold ok_writer. intros Hok. apply andb_prop in Hok. destruct Hok as [H1 H2]. apply is_nil_true in H1. split; auto.
    destruct (g_ww g) as [|[h c] r]; auto. apply Nat.eqb_eq in H2. subst h. right. eauto. }
  unfold step in H.
  destruct (l_act l) eqn:Ha.
  all: try (unfold run_cs in H; rewrite Ha in H; cbn [cs] in H).
  - discriminate.
  - (* enter_ro *) unfold enter_ro in H. rewrite Hf in H. destruct (ok_readers pref g) eqn:Hok.
    + destruct (complete l SOk). inversion H; subst. cbn [set_exec g_exec] in Hf'. rewrite find_setv_same in Hf'. inversion Hf'. left. split; auto.
    + destruct d; try destruct (pool_get (g_pool g)); try destruct (complete l STimedOut); inversion H; subst; cbn [g_exec] in Hf'; congruence.
  - (* enter_rw *) unfold enter_rw in H. rewrite Hf in H. destruct (ok_writer t g) eqn:Hok.
    + destruct (complete l SOk). inversion H; subst. cbn [g_exec] in Hf'. rewrite find_setv_same in Hf'. inversion Hf'. right. split; auto.
    + destruct d; try destruct (pool_get (g_pool g)); try destruct (complete l STimedOut); inversion H; subst; cbn [g_exec] in Hf'; congruence.
  - (* unlock_ro *) unfold unlock_ro in H. rewrite Hf in H. destruct (complete l SLockFailed). inversion H; subst. congruence.
  - (* unlock_rw *) unfold unlock_rw in H. rewrite Hf in H. destruct (complete l SLockFailed). inversion H; subst. congruence.
  - destruct (find t (g_wr g)) as [[|n]|]; try discriminate. inversion H; subst. cbn [set_wr g_exec] in Hf'. congruence.
  - (* woke_ro *) unfold woke_ro in H. destruct ok; cbn [negb] in H.
    + destruct (ok_readers pref g) eqn:Hok.
      * destruct (complete l SOk). inversion H; subst. rewrite leave_wr_exec in Hf'. cbn [set_exec g_exec] in Hf'.
        rewrite find_setv_same in Hf'. inversion Hf'. left. split; auto.
      * inversion H; subst. congruence.
    + destruct (maybe_notify pref (leave_wr t g)) as [g2 ns2] eqn:E. apply maybe_leave_wr in E. destruct E as (He & _ & _).
      destruct (complete l STimedOut). inversion H; subst. rewrite He in Hf'. congruence.
  - destruct (find t (g_ww g)) as [[|n]|]; try discriminate. inversion H; subst. cbn [set_ww g_exec] in Hf'. congruence.
  - (* woke_rw *) unfold woke_rw in H. destruct ok; cbn [negb] in H.
    + destruct (ok_writer t g) eqn:Hok.
      * destruct (complete l SOk). inversion H; subst. rewrite leave_ww_exec in Hf'. cbn [g_exec] in Hf'.
        rewrite find_setv_same in Hf'. inversion Hf'. right. split; auto.
      * inversion H; subst. congruence.
    + destruct (maybe_notify pref (leave_ww t g)) as [g2 ns2] eqn:E. apply maybe_leave_ww in E. destruct E as (He & _ & _).
      destruct (complete l STimedOut). inversion H; subst. rewrite He in Hf'. congruence.
Qed.

End P.
