(* C19 -- the theorems about the ThreadPool LTS, for every run (every list of labels from the initial state). *)
From Coq Require Import List Arith Bool Lia.
From Muscle Require Import Conc.TPool Conc.TPoolLemmas Conc.TPoolInv Conc.TPoolStep Conc.TPoolTrace.
Import ListNotations.

Lemma run_reach_gen : forall n ls s0 tr0 s tr,
  reach n s0 tr0 -> run s0 ls = Some (s, tr) -> reach n s (tr0 ++ tr).
Proof.
  intros n ls. induction ls as [|l r IH]; intros s0 tr0 s tr R H; cbn in H.
  - injection H as <- <-. now rewrite app_nil_r.
  - destruct (step s0 l) as [[s1 e1]|] eqn:Hs; [|discriminate].
    destruct (run s1 r) as [[s2 e2]|] eqn:Hr; [|discriminate]. injection H as <- <-.
    rewrite app_assoc. eapply IH; eauto. eapply reach_step; eauto.
Qed.

Lemma run_reach : forall n ls s tr, run (init n) ls = Some (s, tr) -> reach n s tr.
Proof. intros n ls s tr H. apply (run_reach_gen n ls (init n) [] s tr (reach_init n) H). Qed.

(* ---------------------------------------------------------------- exactly once, in order *)

(* For every run and every client: (1) what was passed to the handler is a prefix of what was accepted -- nothing is
   handled that was not submitted, nothing twice, nothing out of order; (2) at most the last entered Message has not
   returned yet; (3) until Shutdown() has run, nothing is lost: the accepted Messages are exactly the handled ones
   followed by those the pool still holds (in handling order). *)
Theorem pool_exactly_once_in_order : forall n ls s tr, run (init n) ls = Some (s, tr) -> forall c,
  (exists rest, entered tr c ++ rest = submitted tr c) /\
  (exists cur, entered tr c = exited tr c ++ cur /\ length cur <= 1) /\
  (s_sd s <> SdDone -> submitted tr c = exited tr c ++ queued s c).
Proof.
  intros n ls s tr H c. apply run_reach in H. destruct (reach_tinv _ _ _ H c) as [T1 [T2 [T3 T4]]].
  split; [exact T4|]. split.
  - exists (runhead s c). split; auto. unfold runhead. destruct (worker s c) as [[t h]|]; cbn; auto.
    destruct (th_running h); cbn; auto. destruct (th_queue h); cbn; auto.
  - intros Hsd. symmetry. auto.
Qed.

(* ---------------------------------------------------------------- one at a time *)

Theorem pool_client_serial : forall n ls s tr, run (init n) ls = Some (s, tr) ->
  (forall c, serial tr c = true) /\
  (forall t1 t2 h1 h2 c, tget t1 (s_thr s) = Some h1 -> tget t2 (s_thr s) = Some h2 ->
                         th_client h1 = Some c -> th_client h2 = Some c -> t1 = t2) /\
  length (s_active s) <= s_max s.
Proof.
  intros n ls s tr H. apply run_reach in H. pose proof (reach_tinv _ _ _ H) as T. destruct (reach_inv _ _ _ H) as [I [U W]].
  split; [|split].
  - intros c. destruct (T c) as [_ [_ [T3 _]]]. unfold serial. apply scan_serial. congruence.
  - apply (i_thr_uniq _ I).
  - pose proof (i_count _ I). lia.
Qed.

(* ---------------------------------------------------------------- work conserving *)

(* Until Shutdown() begins: if a registered client that no thread is handling has Messages queued, then no pool thread
   is idle and the pool is at its thread limit, every one of its threads working for some (other) client. *)
Theorem pool_work_conserving : forall n ls s tr, run (init n) ls = Some (s, tr) -> s_shut s = false ->
  forall c, tget c (s_reg s) = Some false -> qof (s_pend s) c ++ qof (s_defer s) c <> [] ->
  s_avail s = [] /\ length (s_active s) = s_max s /\
  forall t, In t (s_active s) -> exists h c', tget t (s_thr s) = Some h /\ th_client h = Some c' /\ c' <> c.
Proof.
  intros n ls s tr H Hsh c Hr Hq. apply run_reach in H. destruct (reach_inv _ _ _ H) as [I [U W]].
  rewrite (defer_empty_unhandled s c I Hr), app_nil_r in Hq.
  assert (Hp : s_pend s <> []).
  { intros E. unfold qof in Hq. rewrite E in Hq. cbn in Hq. congruence. }
  destruct (W Hsh Hp) as [Hav Hmax]. pose proof (i_count _ I) as Hc. rewrite Hav in Hc. cbn in Hc.
  split; auto. split; [lia|].
  intros t Ht. destruct (i_active_busy _ I Hsh t Ht) as [h [c' [H1 H2]]]. exists h, c'. repeat split; auto.
  intros ->. rewrite (i_thr_reg _ I t h c H1 H2) in Hr. discriminate.
Qed.

(* ---------------------------------------------------------------- unregister waits *)

Lemma not_outstanding_all_handled : forall s tr c,
  Inv s -> TInv s tr -> outstanding s c = false -> s_sd s <> SdDone -> exited tr c = submitted tr c /\ worker s c = None.
Proof.
  intros s tr c [I [U W]] T Ho Hsd. destruct (not_outstanding s c I Ho) as [Hh [Hpn Hdn]].
  assert (Wn : worker s c = None).
  { apply worker_none; auto. intros t h Ht Hc. unfold handled in Hh. rewrite (i_thr_reg _ I t h c Ht Hc) in Hh. discriminate. }
  split; auto. destruct (T c) as [T1 _]. rewrite <- T1 by auto. unfold queued, inflight. rewrite Wn, Hdn. unfold qof. rewrite Hpn.
  now rewrite app_nil_r.
Qed.

(* For every run and client c: (1) _waitingForCompletion holds c exactly while c's UnregisterClient() is blocked and
   not yet notified; (2) while that is so, something of c is still outstanding (so the notification is still to come:
   pool_no_stuck shows a pool thread can move); (3) once c has been notified, or did not have to wait, nothing of c
   is outstanding and -- unless Shutdown() did the waking -- every Message c ever had accepted has been handled;
   in particular (4) SetThreadPool(NULL) returns only then. *)
Theorem unregister_waits : forall n ls s tr, run (init n) ls = Some (s, tr) -> forall c,
  (In c (s_wait s) <-> tget c (s_unreg s) = Some (UWaiting false)) /\
  (tget c (s_unreg s) = Some (UWaiting false) -> outstanding s c = true) /\
  (forall u, tget c (s_unreg s) = Some u -> u <> UWaiting false ->
             outstanding s c = false /\ (s_sd s <> SdDone -> exited tr c = submitted tr c /\ worker s c = None)) /\
  (forall s' ev, step s (LUnregEnd c) = Some (s', ev) -> s_sd s <> SdDone -> exited tr c = submitted tr c).
Proof.
  intros n ls s tr H c. apply run_reach in H. pose proof (reach_tinv _ _ _ H) as T. pose proof (reach_inv _ _ _ H) as HI.
  destruct HI as [I [[U1 U2 U3] W]].
  assert (H3 : forall u, tget c (s_unreg s) = Some u -> u <> UWaiting false ->
             outstanding s c = false /\ (s_sd s <> SdDone -> exited tr c = submitted tr c /\ worker s c = None)).
  { intros u Hu Hne. pose proof (U3 c u Hu Hne) as Ho. split; auto. intros Hsd.
    eapply not_outstanding_all_handled; eauto. split; [auto|split; [constructor; auto|auto]]. }
  split; [apply U1|]. split; [apply U2|]. split; [exact H3|].
  intros s' ev Hst Hsd. cbn [step] in Hst. destruct (tget c (s_unreg s)) as [[|]|] eqn:Hu; try discriminate.
  destruct (H3 UFinal eq_refl) as [_ H4]; [discriminate|]. now destruct (H4 Hsd).
Qed.

(* ---------------------------------------------------------------- progress *)

Definition thread_can_move (s : st) : Prop :=
  exists t, step s (LEnter t) <> None \/ step s (LExit t) <> None \/ step s (LFinish t) <> None.

Lemma busy_thread_moves : forall s t h c, SInv s -> tget t (s_thr s) = Some h -> th_client h = Some c -> thread_can_move s.
Proof.
  intros s t h c I Ht Hc. exists t. cbn [step]. rewrite Ht, Hc.
  destruct (i_thr_wf _ I t h Ht) as [W1 _].
  destruct (th_queue h) as [|m q] eqn:Hq; destruct (th_running h) eqn:Hr.
  - destruct (W1 eq_refl) as [Hne _]. congruence.
  - right. right. destruct (finished _ t c). discriminate.
  - right. left. discriminate.
  - left. discriminate.
Qed.

(* Until Shutdown() begins, whenever anything of any client is outstanding and the pool may have at least one thread,
   some pool thread has an enabled transition (handler entry, handler return or batch-finished): the pool itself never
   blocks outstanding work. *)
Theorem pool_no_stuck : forall n ls s tr, run (init n) ls = Some (s, tr) -> s_shut s = false -> 1 <= s_max s ->
  forall c, outstanding s c = true -> thread_can_move s.
Proof.
  intros n ls s tr H Hsh Hmax c Ho. apply run_reach in H. destruct (reach_inv _ _ _ H) as [I [U W]].
  unfold outstanding in Ho. apply orb_true_iff in Ho. destruct Ho as [Ho|Hd].
  apply orb_true_iff in Ho. destruct Ho as [Hh|Hp].
  - unfold handled in Hh. destruct (tget c (s_reg s)) as [[|]|] eqn:Hr; try discriminate.
    destruct (i_reg_thr _ I Hsh c Hr) as [t [h [Ht Hc]]]. eapply busy_thread_moves; eauto.
  - assert (Hpn : s_pend s <> []).
    { intros E. unfold qof in Hp. rewrite E in Hp. discriminate. }
    destruct (W Hsh Hpn) as [_ Hm]. destruct (s_active s) as [|t r] eqn:Ha; [cbn in Hm; lia|].
    destruct (i_active_busy _ I Hsh t) as [h [c' [Ht Hc]]]; [rewrite Ha; now left|]. eapply busy_thread_moves; eauto.
  - apply negb_true_iff, is_nil_false in Hd. unfold qof in Hd. destruct (tget c (s_defer s)) as [q|] eqn:E; [|congruence].
    pose proof (i_defer_ok _ I c q E Hd) as Hr.
    destruct (i_reg_thr _ I Hsh c Hr) as [t [h [Ht Hc]]]. eapply busy_thread_moves; eauto.
Qed.

(* ---------------------------------------------------------------- no MASSERT *)

Theorem pool_no_assert : forall n ls s tr, run (init n) ls = Some (s, tr) -> s_bad s = false.
Proof. intros n ls s tr H. apply run_reach in H. eapply reach_bad; eauto. Qed.

(* ---------------------------------------------------------------- Shutdown() terminates *)

(* what a pool thread still has to do before it is idle: 2 per Message of its batch, +1 to enter the next handler,
   +1 for the batch-finished call *)
Definition thr_work (h : thr) : nat :=
  match th_client h with
  | None => 0
  | Some _ => 2 * length (th_queue h) + (if th_running h then 0 else 1) + 1
  end.
Definition work (l : table thr) : nat := fold_right (fun e acc => thr_work (snd e) + acc) 0 l.

(* the number of Shutdown()'s own remaining steps *)
Definition sd_weight (s : st) : nat :=
  match s_sd s with
  | SdNone => 0
  | SdSwapAvail => length (s_avail s) + length (s_active s) + 6
  | SdJoinAvail l nz => length l + length (s_active s) + 2 + (if nz || negb (is_nil (s_active s)) then 3 else 0)
  | SdJoinActive l nz => length l + 1 + (if nz then 3 else 0)
  | SdDone => 0
  end.
Definition sd_measure (s : st) : nat := sd_weight s + work (s_thr s).

Lemma work_tset_some : forall t h h' l, tget t l = Some h -> work (tset t h' l) + thr_work h = work l + thr_work h'.
Proof.
  intros t h h' l. unfold work. induction l as [|[k v] r IH]; cbn; [discriminate|].
  destruct (Nat.eqb_spec t k) as [->|Hn]; intros H.
  - injection H as ->. cbn. lia.
  - cbn. apply IH in H. lia.
Qed.

Lemma work_tset_none : forall t h' l, tget t l = None -> work (tset t h' l) = work l + thr_work h'.
Proof.
  intros t h' l. unfold work. induction l as [|[k v] r IH]; cbn; [lia|].
  destruct (Nat.eqb_spec t k) as [->|Hn]; [discriminate|]. intros H. cbn. apply IH in H. lia.
Qed.

Lemma idle_work : forall h, thr_idle h = true -> thr_work h = 0.
Proof. intros h H. apply thr_idle_spec in H. destruct H as [H _]. unfold thr_work. now rewrite H. Qed.

Lemma join_work : forall s t, thr_idle (thr_of s t) = true ->
  work (tset t (mkThr None [] false true) (s_thr s)) = work (s_thr s).
Proof.
  intros s t H. unfold thr_of in H. destruct (tget t (s_thr s)) as [h|] eqn:E.
  - pose proof (work_tset_some t h (mkThr None [] false true) _ E) as Hw. rewrite (idle_work h H) in Hw. cbn in Hw. lia.
  - rewrite work_tset_none by auto. cbn. lia.
Qed.

Lemma pool_send_shut : forall s c m s' r, s_shut s = true -> pool_send s c m = (s', r) ->
  s_thr s' = s_thr s /\ s_sd s' = s_sd s /\ s_avail s' = s_avail s /\ s_active s' = s_active s.
Proof.
  intros s c m s' r Hsh H. unfold pool_send in H. destruct (tget c (s_reg s)) as [[|]|].
  - injection H as <- <-; repeat split.
  - unfold dispatch in H. sst. rewrite Hsh in H. destruct (_ =? 1); injection H as <- <-; repeat split.
  - injection H as <- <-; repeat split.
Qed.

(* every transition taken while Shutdown() is in progress leaves the measure alone or lowers it *)
Lemma sd_measure_mono : forall s l s' ev, Inv s -> s_sd s <> SdNone -> step s l = Some (s', ev) -> sd_measure s' <= sd_measure s.
Proof.
  intros s l s' ev [I [U W]] Hne Hst. assert (Hsh : s_shut s = true) by now apply shut_true.
  unfold sd_measure, sd_weight. destruct l as [c|c m|t|t|t|c|c|c| | | | |c m]; cbn [step] in Hst.
  - destruct (in_unreg s c); [discriminate|]. destruct (lmem c (s_cl s)); injection Hst as <- <-; sst; lia.
  - destruct (in_unreg s c); [discriminate|]. destruct (lmem c (s_cl s)); [|injection Hst as <- <-; lia].
    destruct (pool_send s c m) as [s1 r] eqn:Hs. injection Hst as <- <-.
    destruct (pool_send_shut s c m s1 r Hsh Hs) as [E1 [E2 [E3 E4]]]. rewrite E1, E2, E3, E4. lia.
  - destruct (tget t (s_thr s)) as [h|] eqn:Ht; [|discriminate].
    destruct (th_client h) as [c|] eqn:Hc; [|discriminate]. destruct (th_queue h) as [|m q] eqn:Hq; [discriminate|].
    destruct (th_running h) eqn:Hr; [discriminate|]. injection Hst as <- <-. sst.
    pose proof (work_tset_some t h (mkThr (Some c) (m :: q) true (th_exited h)) _ Ht) as Hw.
    unfold thr_work in Hw. rewrite Hc, Hq, Hr in Hw. cbn [th_client th_queue th_running length] in Hw. lia.
  - destruct (tget t (s_thr s)) as [h|] eqn:Ht; [|discriminate].
    destruct (th_client h) as [c|] eqn:Hc; [|discriminate]. destruct (th_queue h) as [|m q] eqn:Hq; [discriminate|].
    destruct (th_running h) eqn:Hr; [|discriminate]. injection Hst as <- <-. sst.
    pose proof (work_tset_some t h (mkThr (Some c) q false (th_exited h)) _ Ht) as Hw.
    unfold thr_work in Hw. rewrite Hc, Hq, Hr in Hw. cbn [th_client th_queue th_running length] in Hw. lia.
  - destruct (tget t (s_thr s)) as [h|] eqn:Ht; [|discriminate].
    destruct (th_client h) as [c|] eqn:Hc; [|discriminate]. destruct (th_queue h) as [|m q] eqn:Hq; [|discriminate].
    destruct (th_running h) eqn:Hr; [discriminate|]. unfold finished in Hst. sst. rewrite Hsh in Hst. injection Hst as <- <-. sst.
    pose proof (work_tset_some t h (mkThr None [] false (th_exited h)) _ Ht) as Hw.
    unfold thr_work in Hw. rewrite Hc, Hq, Hr in Hw. cbn [th_client th_queue th_running length] in Hw. lia.
  - destruct (in_unreg s c); [discriminate|]. destruct (lmem c (s_cl s) || sd_done (s_sd s)); [|discriminate].
    unfold unreg_begin in Hst. destruct (outstanding s c); injection Hst as <- <-; sst; lia.
  - destruct (tget c (s_unreg s)) as [[[|]|]|]; try discriminate. injection Hst as <- <-. sst. lia.
  - destruct (tget c (s_unreg s)) as [[|]|]; try discriminate. injection Hst as <- <-. unfold unreg_end; sst. lia.
  - destruct (s_sd s); try discriminate. congruence.
  - pose proof (i_sd_tabs _ I) as Htab.
    destruct (s_sd s) as [| |[|t r] nz|[|t r] [|]|] eqn:Hsd; try discriminate; injection Hst as <- <-; sst.
    + destruct (negb (is_nil (s_avail s)) || negb (is_nil (s_active s))); lia.
    + cbn [length]. destruct (nz || negb (is_nil (s_active s))); lia.
    + destruct Htab as [-> ->]. cbn. lia.
  - destruct (s_sd s) as [| |[|t r] nz|[|t r] nz|] eqn:Hsd; try discriminate; cbv zeta in Hst;
      (destruct (thr_idle (thr_of s t)) eqn:Hid; [|discriminate]); injection Hst as <- <-; sst;
      rewrite (join_work s t Hid); cbn [length]; lia.
  - destruct (s_sd s) as [| | |[|t r] [|]|] eqn:Hsd; try discriminate.
    destruct (shut_end s) as [s1 e1] eqn:He. injection Hst as <- <-.
    destruct (shut_end_fields s) as [_ [_ [_ [_ [_ [_ [_ [_ [_ [A10 [A11 _]]]]]]]]]]]. rewrite He in A10, A11. cbn [fst] in *.
    rewrite A10, A11. lia.
  - destruct (in_unreg s c); [discriminate|]. destruct (lmem c (s_cl s)); [discriminate|].
    destruct (s_sd s) eqn:Hsd; try discriminate.
    destruct (pool_send s c m) as [s1 r] eqn:Hs. injection Hst as <- <-.
    destruct (pool_send_shut s c m s1 r Hsh Hs) as [E1 [E2 [E3 E4]]]. rewrite E1, E2, E3, E4, Hsd. cbv iota beta. lia.
Qed.

(* ... and while Shutdown() is in progress some transition that lowers it is enabled: Shutdown()'s own next step, or
   a step of the pool thread it is joining (which no other party can disable).  So Shutdown() returns after at most
   [sd_measure s] such steps: it cannot deadlock. *)
Lemma sd_measure_progress : forall s, Inv s -> s_sd s <> SdNone -> s_sd s <> SdDone ->
  exists l s' ev, step s l = Some (s', ev) /\ sd_measure s' < sd_measure s.
Proof.
  intros s [I [U W]] Hne Hnd. assert (Hsh : s_shut s = true) by now apply shut_true.
  pose proof (i_sd_tabs _ I) as Htab.
  assert (Hbusy : forall t, thr_idle (thr_of s t) = false ->
                            exists l s' ev, step s l = Some (s', ev) /\ work (s_thr s') < work (s_thr s) /\
                                            s_sd s' = s_sd s /\ s_avail s' = s_avail s /\ s_active s' = s_active s).
  { intros t Hid. unfold thr_of in Hid. destruct (tget t (s_thr s)) as [h|] eqn:Ht; [|discriminate].
    destruct (i_thr_wf _ I t h Ht) as [W1 [W2 _]].
    destruct (th_client h) as [c|] eqn:Hc.
    2:{ destruct (W2 eq_refl) as [Hq Hr]. unfold thr_idle in Hid. rewrite Hc, Hq, Hr in Hid. discriminate. }
    destruct (th_queue h) as [|m q] eqn:Hq; destruct (th_running h) eqn:Hr.
    - destruct (W1 eq_refl) as [Hx _]. congruence.
    - exists (LFinish t). cbn [step]. rewrite Ht, Hc, Hq, Hr. unfold finished. sst. rewrite Hsh.
      do 2 eexists. split; [reflexivity|]. sst.
      pose proof (work_tset_some t h (mkThr None [] false (th_exited h)) _ Ht) as Hw.
      unfold thr_work in Hw. rewrite Hc, Hq, Hr in Hw. cbn [th_client th_queue th_running length] in Hw. repeat split; auto. lia.
    - exists (LExit t). cbn [step]. rewrite Ht, Hc, Hq, Hr. do 2 eexists. split; [reflexivity|]. sst.
      pose proof (work_tset_some t h (mkThr (Some c) q false (th_exited h)) _ Ht) as Hw.
      unfold thr_work in Hw. rewrite Hc, Hq, Hr in Hw. cbn [th_client th_queue th_running length] in Hw. repeat split; auto. lia.
    - exists (LEnter t). cbn [step]. rewrite Ht, Hc, Hq, Hr. do 2 eexists. split; [reflexivity|]. sst.
      pose proof (work_tset_some t h (mkThr (Some c) (m :: q) true (th_exited h)) _ Ht) as Hw.
      unfold thr_work in Hw. rewrite Hc, Hq, Hr in Hw. cbn [th_client th_queue th_running length] in Hw. repeat split; auto. lia. }
  unfold sd_measure, sd_weight.
  destruct (s_sd s) as [| |[|t r] nz|[|t r] [|]|] eqn:Hsd; try congruence.
  - exists LShutSwap. cbn [step]. rewrite Hsd. do 2 eexists. split; [reflexivity|]. sst.
    destruct (negb (is_nil (s_avail s)) || negb (is_nil (s_active s))); lia.
  - exists LShutSwap. cbn [step]. rewrite Hsd. do 2 eexists. split; [reflexivity|]. sst. cbn [length].
    destruct (nz || negb (is_nil (s_active s))); lia.
  - destruct (thr_idle (thr_of s t)) eqn:Hid.
    + exists LShutJoin. cbn [step]. rewrite Hsd. cbv zeta. rewrite Hid. do 2 eexists. split; [reflexivity|]. sst.
      rewrite (join_work s t Hid). cbn [length]. lia.
    + destruct (Hbusy t Hid) as [l [s' [ev [H1 [H2 [H3 [H4 H5]]]]]]]. exists l, s', ev. split; auto.
      rewrite H3, H5. lia.
  - exists LShutSwap. cbn [step]. rewrite Hsd. do 2 eexists. split; [reflexivity|]. sst.
    destruct Htab as [-> ->]. cbn. lia.
  - exists LShutEnd. cbn [step]. rewrite Hsd. destruct (shut_end s) as [s1 e1] eqn:He. do 2 eexists. split; [reflexivity|].
    destruct (shut_end_fields s) as [_ [_ [_ [_ [_ [_ [_ [_ [_ [A10 [A11 _]]]]]]]]]]]. rewrite He in A10, A11. cbn [fst] in *.
    rewrite A10, A11. lia.
  - destruct (thr_idle (thr_of s t)) eqn:Hid.
    + exists LShutJoin. cbn [step]. rewrite Hsd. cbv zeta. rewrite Hid. do 2 eexists. split; [reflexivity|]. sst.
      rewrite (join_work s t Hid). cbn [length]. lia.
    + destruct (Hbusy t Hid) as [l [s' [ev [H1 [H2 [H3 [H4 H5]]]]]]]. exists l, s', ev. split; auto.
      rewrite H3. lia.
  - destruct (thr_idle (thr_of s t)) eqn:Hid.
    + exists LShutJoin. cbn [step]. rewrite Hsd. cbv zeta. rewrite Hid. do 2 eexists. split; [reflexivity|]. sst.
      rewrite (join_work s t Hid). cbn [length]. lia.
    + destruct (Hbusy t Hid) as [l [s' [ev [H1 [H2 [H3 [H4 H5]]]]]]]. exists l, s', ev. split; auto.
      rewrite H3. lia.
Qed.

Theorem shutdown_no_deadlock : forall n ls s tr, run (init n) ls = Some (s, tr) -> s_sd s <> SdNone -> s_sd s <> SdDone ->
  (exists l s' ev, step s l = Some (s', ev) /\ sd_measure s' < sd_measure s) /\
  (forall l s' ev, step s l = Some (s', ev) -> sd_measure s' <= sd_measure s).
Proof.
  intros n ls s tr H Hne Hnd. apply run_reach in H. pose proof (reach_inv _ _ _ H) as HI. split.
  - now apply sd_measure_progress.
  - intros l s' ev Hst. eapply sd_measure_mono; eauto.
Qed.

(* ---------------------------------------------------------------- parallelism up to the thread limit *)

(* Until Shutdown() begins the pool threads that work for a client are exactly the keys of _activeThreads, a
   duplicate-free table of at most _maxThreadCount entries: at most that many handlers run at once. *)
Theorem pool_parallel_bound : forall n ls s tr, run (init n) ls = Some (s, tr) -> s_shut s = false ->
  NoDup (s_active s) /\ length (s_active s) <= s_max s /\
  (forall t h c, tget t (s_thr s) = Some h -> th_client h = Some c -> In t (s_active s)) /\
  (forall t, In t (s_active s) -> exists h c, tget t (s_thr s) = Some h /\ th_client h = Some c).
Proof.
  intros n ls s tr H Hsh. apply run_reach in H. destruct (reach_inv _ _ _ H) as [I [U W]].
  split; [apply (i_nd_active _ I)|]. split; [pose proof (i_count _ I); lia|]. split; [|apply (i_active_busy _ I Hsh)].
  intros t h c Ht Hc. destruct (fin_facts s t h c I Hsh Ht Hc) as [_ [_ [Hm _]]]. now apply lmem_In.
Qed.
