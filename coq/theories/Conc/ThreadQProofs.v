(* C11 -- proofs about the Thread messaging LTS (Conc/ThreadQ.v). *)
From Coq Require Import List Arith Bool Lia.
From Muscle Require Import Conc.ThreadQ.
Import ListNotations.

Section Proofs.
Variable absorb_n : nat.
Variable react : nat -> list msg * bool.

Lemma init_reachable : forall m e, reachable absorb_n react m e (sys0 m e).
Proof. intros m e. apply reach_init. Qed.

End Proofs.
