(* C11 -- the theorems about the Thread messaging LTS (Conc/ThreadQ.v), from the invariants of ThreadQWf / ThreadQWake. *)
From Coq Require Import List Arith Bool Lia NArith.
From Muscle Require Import Conc.ThreadQ Conc.ThreadQWf Conc.ThreadQWake.
Import ListNotations.

Ltac inv H := inversion H; subst; clear H.

(* ---------- enabledness: a step function result exists ---------- *)

(* the program counters at which a thread can be blocked *)
Definition blocked (g : gst) (l : local) : bool :=
  match l_pc l with
  | PRecvPark x _ => negb (wakeable g x)
  | PIEvWait => negb (readable g CI)
  | PJoinWait => match g_ist g with IExited => false | _ => true end
  | PIdle | PIDone => true
  | _ => false
  end.

Lemma readable_wakeable : forall g x, readable g x = true -> wakeable g x = true.
Proof. intros g x H. unfold wakeable. rewrite H. reflexivity. Qed.

Lemma wakeable_CI : forall g, wakeable g CI = readable g CI.
Proof. intros g. unfold wakeable. apply orb_false_r. Qed.

Section Enabled.
Variable early : bool.
Variable absorb_n : nat.
Variable no_limit : N.
Variable react : nat -> list (chanid * msg) * bool.

Lemma fin_some : forall g r k e, exists x, fin react g r k e = Some x.
Proof. intros. unfold fin. destruct (ret react (g_evd g) r k) as [[p k'] e']. eauto. Qed.

Lemma step_enabled : forall g l, blocked g l = false -> exists x, step early absorb_n no_limit react CRun g l = Some x.
Proof.
  intros g [p k] Hb. unfold blocked in Hb. simpl in Hb. unfold step. simpl.
  destruct p; try discriminate; unfold goto;
    try (apply negb_false_iff in Hb; rewrite Hb);
    repeat match goal with
    | |- exists x, (match ?y with _ => _ end) = Some x => destruct y eqn:?
    | |- exists x, (if ?y then _ else _) = Some x => destruct y eqn:?
    | |- exists x, (let (_, _) := ?y in _) = Some x => destruct y eqn:?
    end; eauto using fin_some; try discriminate.
Qed.

End Enabled.

(* ---------- the shutdown invariant ---------- *)

(* the owner is inside ShutdownInternalThread(true), the NULL Message already appended *)
Definition sh_wait (l : local) : bool :=
  match l_pc l, l_k l with
  | PSendSig CI _, [KShutdown true] => true
  | PJoinTest, [KDiscard] | PJoinWait, [KDiscard] => true
  | _, _ => false
  end.

(* the internal thread has removed a NULL Message and is on its way out *)
Definition exiting (p : pc) : bool :=
  match p with PRecvGot CI None _ | PIExit => true | _ => false end.

Definition S_inv (s : sys) : Prop :=
  sh_wait (s_l s 0) = true ->
  In None (c_q (g_ci (s_g s))) \/ g_ist (s_g s) = IExited \/ (g_ist (s_g s) = ILive /\ exiting (l_pc (g_il (s_g s))) = true).

Section Shutdown.
Variable absorb_n : nat.
Variable no_limit : N.
Variable react : nat -> list (chanid * msg) * bool.
Variable ok : label -> bool.
Variables smode emode : bool.

(* StartInternalThread as repaired *)
Notation Step := (Step false absorb_n no_limit react).
Notation sys_step := (sys_step false absorb_n no_limit react).
Notation reachable_if := (reachable_if false absorb_n no_limit react).

Ltac destr_k k := destruct k as [|[] [|? ?]]; try contradiction.
Ltac kill_ret :=
  repeat match goal with
  | Hr : ret _ _ _ _ = _ |- _ => simpl in Hr
  | Hr : (if ?w then _ else _) = (_, _, _) |- _ => destruct w
  | Hr : (_, _, _) = (_, _, _) |- _ => inv Hr
  end.

(* what a user thread's step does to the internal thread's queue and to the thread's status *)
Lemma Step_user_qi_grows : forall t c g l g' l' ev, upc_ok t l -> Step c g l g' l' ev ->
  (In None (c_q (g_ci g)) -> In None (c_q (g_ci g'))).
Proof.
  intros t c g l g' l' ev Hu HS Hin.
  destruct (Step_qi_user absorb_n no_limit react _ _ _ _ _ _ _ Hu HS) as [Q | [m Hm]]; [rewrite Q; exact Hin|].
  inversion HS; subst; simpl in Hm; try discriminate. inv Hm. simpl. apply in_or_app. left. exact Hin.
Qed.

Lemma S_init : S_inv (sys0 smode emode).
Proof. intros H. discriminate. Qed.

Lemma S_step : forall s lab s' ev, wf smode emode s -> S_inv s -> sys_step s lab = Some (s', ev) -> S_inv s'.
Proof.
  intros s lab s' ev W Sv H.
  destruct lab as [t o | [t|] c]; simpl in H.
  - (* begin *)
    destruct (begin_op t o (s_l s t)) eqn:Hb; [|discriminate]. inv H.
    unfold begin_op in Hb. destruct (l_pc (s_l s t)) eqn:Hp; try discriminate.
    destruct (l_k (s_l s t)) eqn:Hk; try discriminate.
    destruct (allowed t o) eqn:Ha; [|discriminate]. inv Hb.
    unfold S_inv in *. simpl. unfold upd. destruct (Nat.eqb_spec 0 t) as [<- | Ht].
    + unfold sh_wait. simpl. destruct (pc_of_op o); try discriminate; destruct c; discriminate.
    + exact Sv.
  - (* a user thread's step *)
    destruct (step false absorb_n no_limit react c (s_g s) (s_l s t)) as [[[g' l'] e']|] eqn:Hst; [|discriminate]. inv H.
    apply step_spec in Hst.
    destruct (s_l s t) as [p k] eqn:El.
    assert (Hu : upc_ok t (mkL p k)) by (rewrite <- El; apply (wf_upc _ _ _ W)).
    unfold S_inv in *. simpl. unfold upd. destruct (Nat.eqb_spec 0 t) as [<- | Ht].
    + (* the owner's own step *)
      intros Hw.
      inversion Hst; subst; clear Hst; unfold upc_ok in Hu; simpl in Hu; try contradiction;
        unfold sh_wait in Hw; simpl in Hw; try discriminate.
      all: repeat match goal with y : chanid |- _ => destruct y | y : msg |- _ => destruct y | y : uop |- _ => destruct y end; simpl in Hu; try contradiction;
           try (destr_k k); simpl in Hu; try contradiction; kill_ret; simpl in Hw; try discriminate;
           try (match goal with b : bool |- _ => match b with smode => fail 1 | emode => fail 1 | _ => destruct b; simpl in Hw; try discriminate end end).
      all: first
        [ (* the NULL Message is appended *)
          left; unfold enq; simpl; apply in_or_app; right; left; reflexivity
        | (* its signal *)
          match goal with Hs : signal _ _ _ = _ |- _ => apply signal_frame in Hs;
            destruct Hs as (_ & _ & _ & _ & _ & F6 & F7 & _ & F9 & _) end;
          rewrite F6, F7; destruct (F9 CI) as (Q & _); simpl in Q; rewrite Q; apply Sv; rewrite El; reflexivity
        | apply Sv; rewrite El; reflexivity ].
    + (* another thread's step: it can only be sending *)
      intros Hw. specialize (Sv Hw).
      assert (Hsame : g_ist g' = g_ist (s_g s) /\ g_il g' = g_il (s_g s)).
      { destruct (Step_running _ _ _ _ _ _ _ _ _ _ Hst) as [[n Hn] | [Hj | [Hx | (R1 & R2 & R3 & R4)]]]; simpl in *; auto;
          subst p; unfold upc_ok in Hu; simpl in Hu; try contradiction.
        - destruct k; [congruence | contradiction].
        - destruct k as [|[] [|]]; try contradiction; congruence. }
      destruct Hsame as [I1 I2]. rewrite I1, I2.
      destruct Sv as [Hin | Hx]; [left | right; exact Hx].
      eapply Step_user_qi_grows; eauto.
  - (* the internal thread's step *)
    destruct (g_ist (s_g s)) eqn:Hl; try discriminate.
    destruct (step false absorb_n no_limit react c (s_g s) (g_il (s_g s))) as [[[g' l'] e']|] eqn:Hst; [|discriminate]. inv H.
    apply step_spec in Hst.
    destruct (g_il (s_g s)) as [p k] eqn:El.
    assert (Hi : ipc_ok (mkL p k)) by (rewrite <- El; apply (wf_ipc _ _ _ W); exact Hl).
    unfold S_inv in *. simpl. intros Hw. specialize (Sv Hw).
    assert (Sv' : In None (c_q (g_ci (s_g s))) \/ exiting p = true).
    { destruct Sv as [A | [B | [_ C]]]; [left; exact A | congruence | right; rewrite El in C; exact C]. }
    clear Sv.
    inversion Hst; subst; clear Hst; unfold ipc_ok in Hi; simpl in Hi; try contradiction;
      try (destruct Sv' as [A | B]; [left; exact A | simpl in B; try discriminate]; fail).
    all: try (destruct x; simpl in Hi; try contradiction).
    all: try (destruct Sv' as [A | B]; [left; simpl; exact A | simpl in B; try discriminate]; fail).
    + (* the thread appends to its own queue *)
      destruct Sv' as [A | B]; [|simpl in B; discriminate]. left. unfold enq. simpl. apply in_or_app. left. exact A.
    + (* a signal: the queue is unchanged *)
      destruct Sv' as [A | B]; [|simpl in B; discriminate]. left.
      match goal with Hs : signal _ _ _ = _ |- _ => apply signal_frame in Hs; destruct Hs as (_&_&_&_&_&_&_&_&F9&_) end.
      destruct (F9 CI) as (Q & _). simpl in Q. rewrite Q. exact A.
    + (* a signal: the queue is unchanged *)
      destruct Sv' as [A | B]; [|simpl in B; discriminate]. left.
      match goal with Hs : signal _ _ _ = _ |- _ => apply signal_frame in Hs; destruct Hs as (_&_&_&_&_&_&_&_&F9&_) end.
      destruct (F9 CI) as (Q & _). simpl in Q. rewrite Q. exact A.
    + (* absorb *)
      destruct Sv' as [A | B]; [|simpl in B; discriminate]. left.
      pose proof (absorb_frame absorb_n CI (s_g s)) as F. simpl in F. destruct F as (_&_&_&_&_&_&_&_&F9&_).
      destruct (F9 CI) as (Q & _). simpl in Q. rewrite Q. exact A.
    + (* dequeue *)
      destruct Sv' as [A | B]; [|simpl in B; discriminate].
      match goal with Hq : c_q _ = _ :: _ |- _ => simpl in Hq; rewrite Hq in A end.
      destruct A as [-> | A]; [right; right; split; [exact Hl | reflexivity] | left; simpl; exact A].
    + (* the NULL Message is dispatched *)
      destruct Sv' as [A | B]; [left; exact A|]. simpl in B. destruct m; try discriminate.
      destr_k k. kill_ret. right. right. split; [exact Hl | reflexivity].
    + (* the start-up signal *)
      destruct Sv' as [A | B]; [|simpl in B; discriminate]. left.
      match goal with Hs : signal _ _ _ = _ |- _ => apply signal_frame in Hs; destruct Hs as (_&_&_&_&_&_&_&_&F9&_) end.
      destruct (F9 CI) as (Q & _). simpl in Q. rewrite Q. exact A.
    + (* the thread finishes *)
      right. left. reflexivity.
Qed.

Theorem reachable_S : forall s, reachable_if ok smode emode s -> S_inv s.
Proof.
  intros s H. induction H.
  - apply S_init.
  - eapply S_step; eauto. eapply reachable_wf; eauto.
Qed.

End Shutdown.

(* ---------- the pending-notification counts are uint32 values (they saturate, they never wrap) ---------- *)

Definition wcb (nl : N) (g : gst) : Prop := forall c, (c_wc (ch g c) <= nl)%N.

Lemma wc_inc_bound : forall old, (old <= 4294967295)%N -> (wc_inc 4294967295 old <= 4294967295)%N.
Proof.
  intros old H. unfold wc_inc.
  destruct (N.ltb_spec old ((old + 1) mod 4294967296)); [|lia].
  assert ((old + 1) mod 4294967296 < 4294967296)%N by (apply N.mod_lt; lia). lia.
Qed.

Section WcBound.
Variable early : bool.
Variable absorb_n : nat.
Variable react : nat -> list (chanid * msg) * bool.
Variable ok : label -> bool.
Variables smode emode : bool.
Notation NL := 4294967295%N.

Lemma signal_wcb : forall c g g' e, signal NL c g = (g', e) -> wcb NL g -> wcb NL g'.
Proof.
  intros c g g' e H B. unfold signal in H.
  destruct (g_sockets g); [destruct c; [destruct (g_alloc g); [destruct (g_iopen g)|] | destruct (g_alloc g && g_iopen g)]|];
    inv H; auto; intros c'; specialize (B c'); try (destruct c'; simpl; exact B).
  destruct c, c'; simpl in *; auto; apply wc_inc_bound; exact B.
Qed.

Lemma Step_wcb : forall c g l g' l' ev, Step early absorb_n NL react c g l g' l' ev -> wcb NL g -> wcb NL g'.
Proof.
  intros c g l g' l' ev HS B. inversion HS; subst; clear HS; auto;
    try (eapply signal_wcb; eauto; fail);
    intros c'; specialize (B c');
    try (destruct x, c'; simpl in *; try exact B; lia);
    try (unfold park_flags; repeat match goal with y : chanid |- _ => destruct y end; try destruct (u_reg (g_usr g)); simpl in *; exact B);
    try (match goal with Hu : user_step _ _ = _ |- _ => apply user_step_frame in Hu; destruct Hu as [? ->] end; destruct c'; simpl in *; exact B).
  - pose proof (absorb_frame absorb_n x g) as F. simpl in F. destruct F as (_&_&_&_&_&_&_&_&F&_).
    destruct (F c') as (_ & _ & _ & Q). rewrite Q. exact B.
  - pose proof (alloc_frame g) as F. simpl in F. destruct F as (_&_&_&_&_&_&F).
    destruct (F c') as (_ & _ & _ & Q). unfold spawned. destruct c'; simpl in *; rewrite Q; exact B.
  - pose proof (close_frame g) as F. simpl in F. destruct F as (_&_&_&_&_&_&F).
    destruct (F c') as (_ & _ & _ & Q). unfold joined. destruct c'; simpl in *; rewrite Q; exact B.
  - pose proof (alloc_frame g) as F. simpl in F. destruct F as (_&_&_&_&_&_&F).
    destruct (F c') as (_ & _ & _ & Q). rewrite Q. exact B.
  - unfold exited. destruct c'; simpl; destruct (g_sockets g); simpl; exact B.
Qed.

Theorem notification_counts_are_uint32 : forall s, reachable_if early absorb_n NL react ok smode emode s -> wcb NL (s_g s).
Proof.
  intros s H. induction H.
  - intros []; simpl; lia.
  - destruct lab as [t o | [t|] c]; simpl in H1.
    + destruct (begin_op t o (s_l s t)); [|discriminate]. inv H1. exact IHreachable_if.
    + destruct (step early absorb_n NL react c (s_g s) (s_l s t)) as [[[g' l'] e']|] eqn:Hst; [|discriminate]. inv H1.
      eapply Step_wcb; [eapply step_spec; eauto | exact IHreachable_if].
    + destruct (g_ist (s_g s)); try discriminate.
      destruct (step early absorb_n NL react c (s_g s) (g_il (s_g s))) as [[[g' l'] e']|] eqn:Hst; [|discriminate]. inv H1.
      apply step_spec in Hst. apply Step_wcb in Hst; [|exact IHreachable_if].
      intros c'. specialize (Hst c'). destruct c'; exact Hst.
Qed.

End WcBound.

(* ---------- several steps ---------- *)

Section Multi.
Variable early : bool.
Variable absorb_n : nat.
Variable no_limit : N.
Variable react : nat -> list (chanid * msg) * bool.
Variable ok : label -> bool.
Variables smode emode : bool.

Notation sys_step := (sys_step early absorb_n no_limit react).
Notation reachable_if := (reachable_if early absorb_n no_limit react).

Inductive steps_if : sys -> sys -> Prop :=
| steps_refl : forall s, steps_if s s
| steps_cons : forall s lab s' ev s'', ok lab = true -> sys_step s lab = Some (s', ev) -> steps_if s' s'' -> steps_if s s''.

Lemma steps_reachable : forall s s', steps_if s s' -> reachable_if ok smode emode s -> reachable_if ok smode emode s'.
Proof. intros s s' H. induction H; intros R; auto. apply IHsteps_if. eapply reach_step; eauto. Qed.

Lemma hist_ext_refl : forall g, hist_ext g g.
Proof. intros g c. exists [], []. rewrite !app_nil_r. auto. Qed.

Lemma hist_ext_trans : forall a b c, hist_ext a b -> hist_ext b c -> hist_ext a c.
Proof.
  intros a b c H1 H2 x. destruct (H1 x) as (u1 & v1 & E1 & F1). destruct (H2 x) as (u2 & v2 & E2 & F2).
  exists (u1 ++ u2), (v1 ++ v2). rewrite E2, E1, F2, F1, !app_assoc. auto.
Qed.

Lemma steps_hist : forall s s', steps_if s s' -> hist_ext (s_g s) (s_g s').
Proof.
  intros s s' H. induction H.
  - apply hist_ext_refl.
  - eapply hist_ext_trans; [|exact IHsteps_if]. eapply sys_step_hist; eauto.
Qed.

(* Exactly once and in order, over any stretch of execution: what is received during it is -- in this order -- what was
   queued at its beginning followed by what was appended during it; nothing else, nothing twice, nothing overtaken. *)
Theorem fifo_no_overtaking : forall s s' c,
  reachable_if ok smode emode s -> steps_if s s' ->
  exists got more,
    c_rcvd (ch (s_g s') c) = c_rcvd (ch (s_g s) c) ++ got /\
    c_sent (ch (s_g s') c) = c_sent (ch (s_g s) c) ++ more /\
    got ++ c_q (ch (s_g s') c) = c_q (ch (s_g s) c) ++ more.
Proof.
  intros s s' c R St.
  pose proof (reachable_fifo _ _ _ _ _ _ _ _ R c) as F.
  pose proof (reachable_fifo _ _ _ _ _ _ _ _ (steps_reachable _ _ St R) c) as F'.
  destruct (steps_hist _ _ St c) as (a & b & Ea & Eb).
  exists b, a. repeat split; auto.
  rewrite Ea, Eb, F in F'. rewrite <- !app_assoc in F'. apply app_inv_head in F'. auto.
Qed.

End Multi.

(* ---------- the theorems that need the wake-up invariant ---------- *)

Definition J_inv (s : sys) : Prop := l_pc (s_l s 0) = PJoinWait -> g_running (s_g s) = true.

Section Theorems.
Variable absorb_n : nat.
Variable no_limit : N.
Variable react : nat -> list (chanid * msg) * bool.
Hypothesis Hnl : (0 < no_limit)%N.
Variable ok : label -> bool.
Variables smode emode : bool.

(* StartInternalThread as repaired *)
Notation sys_step := (sys_step false absorb_n no_limit react).
Notation reachable_if := (reachable_if false absorb_n no_limit react).
Notation R := (reachable_if ok smode emode).

Lemma int_enabled : forall s, g_ist (s_g s) = ILive -> blocked (s_g s) (g_il (s_g s)) = false ->
  exists x, sys_step s (LStep I CRun) = Some x.
Proof.
  intros s Hl Hb. simpl. rewrite Hl. destruct (step_enabled false absorb_n no_limit react _ _ Hb) as [[[g' l'] e] Hx]. rewrite Hx. eauto.
Qed.

Lemma user_enabled : forall s t, blocked (s_g s) (s_l s t) = false -> exists x, sys_step s (LStep (U t) CRun) = Some x.
Proof.
  intros s t Hb. simpl. destruct (step_enabled false absorb_n no_limit react _ _ Hb) as [[[g' l'] e] Hx]. rewrite Hx. eauto.
Qed.

Lemma ipc_looks_unblocked : forall g l evd, ipc_ok l -> will_look evd (l_pc l) = true -> blocked g l = false.
Proof.
  intros g [p k] evd Hi Hw. unfold ipc_ok in Hi. unfold blocked. simpl in *.
  destruct p; try reflexivity; try contradiction; try discriminate;
    try (destruct c; try discriminate); try (destruct k as [|[] [|? ?]]; contradiction).
Qed.

Lemma ipc_readable_unblocked : forall g l, ipc_ok l -> readable g CI = true -> blocked g l = false.
Proof.
  intros g [p k] Hi Hr. unfold ipc_ok in Hi. unfold blocked. simpl in *.
  destruct p; try reflexivity; try contradiction;
    try (destruct c); try (rewrite ?wakeable_CI, Hr; reflexivity); try (destruct k as [|[] [|? ?]]; contradiction).
Qed.

Lemma pend_i_unblocked : forall g l, is_pend_i (l_pc l) = true -> blocked g l = false.
Proof. intros g [p k] H. unfold blocked. simpl in *. destruct p; try discriminate; reflexivity. Qed.

Lemma pend_o_unblocked : forall g l, is_pend_o (l_pc l) = true -> blocked g l = false.
Proof. intros g [p k] H. unfold blocked. simpl in *. destruct p; try discriminate; reflexivity. Qed.

(* No lost wake-up, internal thread: blocked (in WaitForNextMessageFromOwner or in its event loop) with a non-empty
   queue, its wait is already satisfiable or a thread still owes it the signal. *)
Theorem no_lost_wakeup_internal : forall s,
  R s -> g_ist (s_g s) = ILive ->
  (exists w, l_pc (g_il (s_g s)) = PRecvPark CI w) \/ l_pc (g_il (s_g s)) = PIEvWait ->
  c_q (g_ci (s_g s)) <> [] ->
  readable (s_g s) CI = true \/ exists t, is_pend_i (l_pc (s_l s t)) = true.
Proof.
  intros s Rs Hl Hp Hq. pose proof (reachable_wake absorb_n no_limit react Hnl ok smode emode s Rs) as Wk.
  apply (wk_ai _ Wk); auto. destruct Hp as [[w ->] | ->]; reflexivity.
Qed.

(* No lost wake-up, owner: blocked in GetNextReplyFromInternalThread with a non-empty reply queue, its wait is already
   satisfiable (signal bytes, end-of-file, notifications) or a sender still owes it the signal. *)
Theorem no_lost_wakeup_owner : forall s w,
  R s -> l_pc (s_l s 0) = PRecvPark CO w -> c_q (g_co (s_g s)) <> [] ->
  readable (s_g s) CO = true \/ (exists t, l_pc (s_l s t) = PSendSig CO true) \/
  (g_ist (s_g s) = ILive /\ l_pc (g_il (s_g s)) = PSendSig CO true).
Proof.
  intros s w Rs Hp Hq. pose proof (reachable_wake absorb_n no_limit react Hnl ok smode emode s Rs) as Wk.
  assert (P : parked_o s = true) by (unfold parked_o; rewrite Hp; reflexivity).
  destruct (wk_ao _ Wk P Hq) as [A | [[t B] | [C D]]]; auto.
  - right. left. exists t. destruct (l_pc (s_l s t)); try discriminate. destruct c; try discriminate. destruct first; [reflexivity | discriminate].
  - right. right. split; auto. destruct (l_pc (g_il (s_g s))); try discriminate. destruct c; try discriminate. destruct first; [reflexivity | discriminate].
Qed.

(* The safety form: while Messages are queued for it, the internal thread can take a step, or a thread that owes it
   a signal can -- whatever the internal thread is doing. *)
Theorem internal_never_stuck : forall s,
  R s -> g_ist (s_g s) = ILive -> c_q (g_ci (s_g s)) <> [] ->
  (exists x, sys_step s (LStep I CRun) = Some x) \/
  (exists t x, is_pend_i (l_pc (s_l s t)) = true /\ sys_step s (LStep (U t) CRun) = Some x).
Proof.
  intros s Rs Hl Hq.
  pose proof (reachable_wake absorb_n no_limit react Hnl ok smode emode s Rs) as Wk.
  pose proof (reachable_wf false absorb_n no_limit react ok smode emode s Rs) as W.
  pose proof (wf_ipc _ _ _ W Hl) as Hi.
  destruct (will_look (g_evd (s_g s)) (l_pc (g_il (s_g s)))) eqn:Hw.
  - left. apply int_enabled; auto. eapply ipc_looks_unblocked; eauto.
  - destruct (wk_ai _ Wk Hl Hw Hq) as [Rd | [t Pt]].
    + left. apply int_enabled; auto. apply ipc_readable_unblocked; auto.
    + right. destruct (user_enabled s t (pend_i_unblocked _ _ Pt)) as [x Hx]. eauto.
Qed.

Theorem owner_never_stuck : forall s w,
  R s -> l_pc (s_l s 0) = PRecvPark CO w -> c_q (g_co (s_g s)) <> [] ->
  (exists x, sys_step s (LStep (U 0) CRun) = Some x) \/
  (exists t x, l_pc (s_l s t) = PSendSig CO true /\ sys_step s (LStep (U t) CRun) = Some x) \/
  (l_pc (g_il (s_g s)) = PSendSig CO true /\ exists x, sys_step s (LStep I CRun) = Some x).
Proof.
  intros s w Rs Hp Hq.
  destruct (no_lost_wakeup_owner s w Rs Hp Hq) as [A | [[t B] | [C D]]].
  - left. apply user_enabled. unfold blocked. rewrite Hp. rewrite (readable_wakeable _ _ A). reflexivity.
  - right. left. destruct (user_enabled s t) as [x Hx]; [unfold blocked; rewrite B; reflexivity | eauto].
  - right. right. split; auto. apply int_enabled; auto. unfold blocked. rewrite D. reflexivity.
Qed.

(* ---- shutdown ---- *)

Lemma J_step : forall s lab s' ev, wf smode emode s -> J_inv s -> sys_step s lab = Some (s', ev) -> J_inv s'.
Proof.
  intros s lab s' ev W Jv H.
  destruct lab as [t o | [t|] c]; simpl in H.
  - destruct (begin_op t o (s_l s t)) eqn:Hb; [|discriminate]. inv H.
    unfold begin_op in Hb. destruct (l_pc (s_l s t)) eqn:Hp; try discriminate.
    destruct (l_k (s_l s t)) eqn:Hk; try discriminate.
    destruct (allowed t o) eqn:Ha; [|discriminate]. inv Hb.
    unfold J_inv in *. simpl. unfold upd. destruct (Nat.eqb_spec 0 t) as [<- | Ht]; [|exact Jv].
    simpl. destruct o; simpl; discriminate.
  - destruct (step false absorb_n no_limit react c (s_g s) (s_l s t)) as [[[g' l'] e']|] eqn:Hst; [|discriminate]. inv H.
    apply step_spec in Hst.
    destruct (s_l s t) as [p k] eqn:El.
    assert (Hu : upc_ok t (mkL p k)) by (rewrite <- El; apply (wf_upc _ _ _ W)).
    unfold J_inv in *. simpl. unfold upd. destruct (Nat.eqb_spec 0 t) as [<- | Ht].
    + intros Hq. inversion Hst; subst; clear Hst; simpl in Hq; try discriminate; auto;
        unfold upc_ok in Hu; simpl in Hu;
        repeat match goal with y : chanid |- _ => destruct y | y : msg |- _ => destruct y | y : uop |- _ => destruct y end; simpl in Hu; try contradiction;
        destruct k as [|[] [|? ?]]; simpl in Hu; try contradiction;
        repeat match goal with
        | Hr : ret _ _ _ _ = _ |- _ => simpl in Hr
        | Hr : (if ?w then _ else _) = (_, _, _) |- _ => destruct w
        | Hr : (_, _, _) = (_, _, _) |- _ => inv Hr
        end; try discriminate.
    + intros Hq. specialize (Jv Hq).
      destruct (Step_running _ _ _ _ _ _ _ _ _ _ Hst) as [[n Hn] | [Hj | [Hx | (R1 & _)]]]; simpl in *;
        try (subst p; unfold upc_ok in Hu; simpl in Hu; try contradiction).
      * destruct k; [congruence | contradiction].
      * destruct k as [|[] [|]]; try contradiction; congruence.
      * congruence.
  - destruct (g_ist (s_g s)) eqn:Hl; try discriminate.
    destruct (step false absorb_n no_limit react c (s_g s) (g_il (s_g s))) as [[[g' l'] e']|] eqn:Hst; [|discriminate]. inv H.
    apply step_spec in Hst.
    destruct (g_il (s_g s)) as [p k] eqn:El.
    assert (Hi : ipc_ok (mkL p k)) by (rewrite <- El; apply (wf_ipc _ _ _ W); exact Hl).
    unfold J_inv in *. simpl. intros Hq. specialize (Jv Hq).
    destruct (Step_running _ _ _ _ _ _ _ _ _ _ Hst) as [[n Hn] | [Hj | [Hx | (R1 & _)]]]; simpl in *;
      try (subst p; unfold ipc_ok in Hi; simpl in Hi; contradiction).
    * subst p. inversion Hst; subst. simpl. exact Jv.
    * congruence.
Qed.

Lemma reachable_J : forall s, R s -> J_inv s.
Proof.
  intros s H. induction H.
  - intros Hq. discriminate.
  - eapply J_step; eauto. eapply reachable_wf; eauto.
Qed.

(* ShutdownInternalThread(true), safety form: while the owner waits in the join, either the internal thread has
   finished -- and the join returns --, or the internal thread is alive and it, or a thread that owes it a signal,
   can take a step; in particular the NULL Message is still queued for it or it is already on its way out. *)
Theorem shutdown_completes : forall s,
  R s -> l_pc (s_l s 0) = PJoinWait -> l_k (s_l s 0) = [KDiscard] ->
  (g_ist (s_g s) = IExited /\ exists x, sys_step s (LStep (U 0) CRun) = Some x) \/
  (g_ist (s_g s) = ILive /\
   (In None (c_q (g_ci (s_g s))) \/ exiting (l_pc (g_il (s_g s))) = true) /\
   ((exists x, sys_step s (LStep I CRun) = Some x) \/
    (exists t x, is_pend_i (l_pc (s_l s t)) = true /\ sys_step s (LStep (U t) CRun) = Some x))).
Proof.
  intros s Rs Hp Hk.
  pose proof (reachable_wf false absorb_n no_limit react ok smode emode s Rs) as W.
  pose proof (reachable_S absorb_n no_limit react ok smode emode s Rs) as Sv.
  pose proof (reachable_J s Rs Hp) as Hr.
  assert (Hw : sh_wait (s_l s 0) = true) by (unfold sh_wait; rewrite Hp, Hk; reflexivity).
  specialize (Sv Hw).
  destruct (g_ist (s_g s)) eqn:Hl.
  - exfalso. pose proof (wf_running _ _ _ W) as Hr2. rewrite Hl, Hr in Hr2. discriminate.
  - right. split; [reflexivity|].
    assert (Hc : In None (c_q (g_ci (s_g s))) \/ exiting (l_pc (g_il (s_g s))) = true).
    { destruct Sv as [A | [B | [_ C]]]; auto. discriminate. }
    split; [exact Hc|].
    destruct Hc as [A | C].
    + apply internal_never_stuck; auto. intros E. rewrite E in A. contradiction.
    + left. apply int_enabled; auto. unfold blocked.
      destruct (l_pc (g_il (s_g s))); try discriminate; try reflexivity.
  - left. split; [reflexivity|]. apply user_enabled. unfold blocked. rewrite Hp, Hl. reflexivity.
Qed.

(* Messages queued before the thread is started are delivered once it starts: they stay queued, in order, ahead of
   everything sent later (fifo_no_overtaking), and a started thread with a non-empty queue is never stuck. *)
Theorem queued_before_start_delivered : forall s s',
  R s -> g_running (s_g s) = false -> steps_if false absorb_n no_limit react ok s s' ->
  (exists got more,
     c_rcvd (g_ci (s_g s')) = c_rcvd (g_ci (s_g s)) ++ got /\
     got ++ c_q (g_ci (s_g s')) = c_q (g_ci (s_g s)) ++ more) /\
  (g_ist (s_g s') = ILive -> c_q (g_ci (s_g s')) <> [] ->
   (exists x, sys_step s' (LStep I CRun) = Some x) \/
   (exists t x, is_pend_i (l_pc (s_l s' t)) = true /\ sys_step s' (LStep (U t) CRun) = Some x)).
Proof.
  intros s s' Rs _ St. split.
  - destruct (fifo_no_overtaking false absorb_n no_limit react ok smode emode s s' CI Rs St) as (got & more & A & _ & C).
    exists got, more. auto.
  - intros Hl Hq. apply internal_never_stuck; auto. eapply steps_reachable; eauto.
Qed.

(* A state in which no thread can take a step holds no undelivered Message for a blocked reader. *)
Theorem stuck_only_when_nothing_to_receive : forall s,
  R s -> (forall w c, sys_step s (LStep w c) = None) ->
  (g_ist (s_g s) = ILive -> c_q (g_ci (s_g s)) = []) /\
  (forall w, l_pc (s_l s 0) = PRecvPark CO w -> c_q (g_co (s_g s)) = []).
Proof.
  intros s Rs Hn. split.
  - intros Hl. destruct (c_q (g_ci (s_g s))) eqn:Eq; [reflexivity|]. exfalso.
    destruct (internal_never_stuck s Rs Hl) as [[x Hx] | (t & x & _ & Hx)]; [rewrite Eq; discriminate | |]; rewrite Hn in Hx; discriminate.
  - intros w Hp. destruct (c_q (g_co (s_g s))) eqn:Eq; [reflexivity|]. exfalso.
    destruct (owner_never_stuck s w Rs Hp) as [[x Hx] | [(t & x & _ & Hx) | [_ [x Hx]]]]; [rewrite Eq; discriminate | | |]; rewrite Hn in Hx; discriminate.
Qed.

End Theorems.

(* ---------- closed forms ---------- *)

Section Final.
Variable absorb_n : nat.
Variable no_limit : N.
Variable react : nat -> list (chanid * msg) * bool.

(* StartInternalThread as repaired *)
Notation sys_step := (sys_step false absorb_n no_limit react).
Notation reachable_if := (reachable_if false absorb_n no_limit react).

Theorem fifo_exactly_once : forall ok m e s c, reachable_if ok m e s ->
  c_sent (ch (s_g s) c) = c_rcvd (ch (s_g s) c) ++ c_q (ch (s_g s) c).
Proof. intros ok m e s c H. exact (reachable_fifo false absorb_n no_limit react ok m e s H c). Qed.

(* the life-cycle flags *)
Theorem running_iff_thread_exists : forall ok m e s, reachable_if ok m e s ->
  g_running (s_g s) = negb (ist_none (g_ist (s_g s))) /\
  (g_ist (s_g s) = ILive -> g_sockets (s_g s) = true -> g_alloc (s_g s) = true /\ g_iopen (s_g s) = true).
Proof.
  intros ok m e s H. pose proof (reachable_wf false absorb_n no_limit react ok m e s H) as W.
  split; [apply (wf_running _ _ _ W) | apply (wf_live_sock _ _ _ W)].
Qed.

End Final.

Section Runs.
Variable early : bool.
Variable absorb_n : nat.
Variable no_limit : N.
Variable react : nat -> list (chanid * msg) * bool.

Notation sys_step := (sys_step early absorb_n no_limit react).
Notation reachable_if := (reachable_if early absorb_n no_limit react).

(* ---- executable runs, for the witness and the examples ---- *)

Lemma run_reachable : forall ok m e labs s s', forallb ok labs = true -> run early absorb_n no_limit react s labs = Some s' ->
  reachable_if ok m e s -> reachable_if ok m e s'.
Proof.
  intros ok m e labs. induction labs as [|lab r IH]; intros s s' Hok H Rs; simpl in *.
  - inv H. exact Rs.
  - apply andb_true_iff in Hok. destruct Hok as [H1 H2].
    destruct (sys_step s lab) as [[s1 ev]|] eqn:Hs; [|discriminate].
    eapply IH; eauto. eapply reach_step; eauto.
Qed.

End Runs.

(* StartInternalThread as it was found ([early] = true): an event-driven internal thread can lose a wake-up.
   StartInternalThread read _messages.HasItems() before the socket pair existed; a Message that another thread appends right after that read is
   signalled into the void (the pair is not allocated yet), the initial signal is not sent (needsInitialSignal was
   computed too early), and the new thread blocks on its wake-up socket for ever with the Message queued.
   The witness: owner: Start reads HasItems() = false | thread 1: SendMessageToInternalThread(7) completely |
   owner: allocates the pair, creates the thread, returns | internal thread: runs into its select(). *)
Definition refute_labels : list label :=
  [ LBegin 0 OStart; LStep (U 0) CRun;
    LBegin 1 (OSend CI (Some 7)); LStep (U 1) CRun; LStep (U 1) CRun;
    LStep (U 0) CRun; LStep (U 0) CRun;
    LStep I CRun; LStep I CRun; LStep I CRun; LStep I CRun; LStep I CRun ].

Theorem evd_lost_wakeup_refuted : forall absorb_n no_limit react,
  exists s, reachable true absorb_n no_limit react true true s /\
    g_ist (s_g s) = ILive /\ l_pc (g_il (s_g s)) = PIEvWait /\ c_q (g_ci (s_g s)) = [Some 7] /\
    readable (s_g s) CI = false /\ (forall t, l_pc (s_l s t) = PIdle) /\
    (forall w c, sys_step true absorb_n no_limit react s (LStep w c) = None).
Proof.
  intros absorb_n no_limit react.
  destruct (run true absorb_n no_limit react (sys0 true true) refute_labels) as [s|] eqn:Hr; [|vm_compute in Hr; discriminate].
  exists s. split.
  - eapply run_reachable; [|exact Hr | apply reach_init]. reflexivity.
  - vm_compute in Hr. inv Hr. simpl. repeat split; auto.
    + intros [|[|t]]; reflexivity.
    + intros [[|[|t]]|] []; reflexivity.
Qed.

(* ---------- absorbing signal bytes makes progress (the translated buffer size is positive) ---------- *)

Lemma absorb_progress : forall n c g, 1 <= n -> fd_ok g c = true -> 0 < c_sig (ch g c) ->
  c_sig (ch (absorb n c g) c) < c_sig (ch g c).
Proof.
  intros n c g Hn Hf Hs. unfold absorb. rewrite Hf. rewrite ch_set_same. simpl. lia.
Qed.

Lemma absorb_drains : forall n c g, fd_ok g c = true -> c_sig (ch g c) <= n -> c_sig (ch (absorb n c g) c) = 0.
Proof.
  intros n c g Hf Hs. unfold absorb. rewrite Hf. rewrite ch_set_same. simpl. lia.
Qed.

(* ---------- non-vacuity: reachable states that satisfy the premises of the theorems ---------- *)

Definition react0 : nat -> list (chanid * msg) * bool := fun _ => ([], false).

Definition start_labels : list label :=
  [LBegin 0 OStart; LStep (U 0) CRun; LStep (U 0) CRun; LStep (U 0) CRun; LStep (U 0) CRun; LStep (U 0) CRun].
Definition int_park_labels : list label :=   (* the default internal thread runs into its blocking wait *)
  [LStep I CRun; LStep I CRun; LStep I CRun; LStep I CRun; LStep I CRun; LStep I CRun; LStep I CRun].

Ltac by_run labs m e :=
  match goal with
  | |- exists s, reachable_if ?ea ?a ?nl ?r ?ok ?mm ?ee s /\ _ =>
      destruct (run ea a nl r (sys0 m e) labs) as [s|] eqn:Hr; [|vm_compute in Hr; discriminate];
      exists s; split; [eapply run_reachable; [|exact Hr | apply reach_init]; reflexivity |];
      vm_compute in Hr; inv Hr; simpl
  end.

(* the internal thread is parked, a Message is queued, the sender has not signalled yet *)
Example ex_internal_parked : forall n nl, exists s, reachable_if false n nl react0 any_label true false s /\
  g_ist (s_g s) = ILive /\ l_pc (g_il (s_g s)) = PRecvPark CI WNever /\ c_q (g_ci (s_g s)) = [Some 5] /\
  readable (s_g s) CI = false /\ l_pc (s_l s 1) = PSendSig CI true.
Proof.
  intros n nl. by_run (start_labels ++ int_park_labels ++ [LBegin 1 (OSend CI (Some 5)); LStep (U 1) CRun]) true false.
  repeat split; reflexivity.
Qed.

(* the same with the wait-condition *)
Example ex_internal_parked_wc : forall n nl, exists s, reachable_if false n nl react0 any_label false false s /\
  g_ist (s_g s) = ILive /\ l_pc (g_il (s_g s)) = PRecvPark CI WNever /\ c_q (g_ci (s_g s)) = [Some 5] /\
  readable (s_g s) CI = false /\ l_pc (s_l s 1) = PSendSig CI true.
Proof.
  intros n nl. by_run (start_labels ++ int_park_labels ++ [LBegin 1 (OSend CI (Some 5)); LStep (U 1) CRun]) false false.
  repeat split; reflexivity.
Qed.

(* the owner is parked on the reply queue, a reply is queued by another thread that has not signalled yet *)
Example ex_owner_parked : forall n nl, exists s, reachable_if false n nl react0 any_label true false s /\
  l_pc (s_l s 0) = PRecvPark CO WNever /\ c_q (g_co (s_g s)) = [Some 9] /\ l_pc (s_l s 1) = PSendSig CO true.
Proof.
  intros n nl.
  by_run (start_labels ++ [LBegin 0 (ORecv WNever); LStep (U 0) CRun; LStep (U 0) CRun; LStep (U 0) CRun;
                           LBegin 1 (OSend CO (Some 9)); LStep (U 1) CRun]) true false.
  repeat split; reflexivity.
Qed.

(* the owner waits in the join of ShutdownInternalThread(true) while the NULL Message is still queued *)
Example ex_shutdown_waiting : forall n nl, exists s, reachable_if false n nl react0 any_label true false s /\
  l_pc (s_l s 0) = PJoinWait /\ l_k (s_l s 0) = [KDiscard] /\ g_ist (s_g s) = ILive /\ c_q (g_ci (s_g s)) = [None].
Proof.
  intros n nl.
  by_run (start_labels ++ [LBegin 0 (OShutdown true); LStep (U 0) CRun; LStep (U 0) CRun; LStep (U 0) CRun; LStep (U 0) CRun]) true false.
  repeat split; reflexivity.
Qed.

(* ... and after the internal thread has left *)
Example ex_shutdown_exited : forall n nl, exists s, reachable_if false n nl react0 any_label true false s /\
  l_pc (s_l s 0) = PJoinWait /\ l_k (s_l s 0) = [KDiscard] /\ g_ist (s_g s) = IExited.
Proof.
  intros n nl.
  by_run (start_labels ++ [LBegin 0 (OShutdown true); LStep (U 0) CRun; LStep (U 0) CRun; LStep (U 0) CRun; LStep (U 0) CRun] ++
          [LStep I CRun; LStep I CRun; LStep I CRun; LStep I CRun; LStep I CRun; LStep I CRun; LStep I CRun; LStep I CRun]) true false.
  repeat split; reflexivity.
Qed.

(* Messages queued while the thread is not running (their signal was dropped: no socket pair yet) *)
Example ex_queued_before_start : forall n nl, exists s, reachable_if false n nl react0 any_label true false s /\
  g_running (s_g s) = false /\ c_q (g_ci (s_g s)) = [Some 1; Some 2] /\ c_sig (g_ci (s_g s)) = 0 /\ g_alloc (s_g s) = false.
Proof.
  intros n nl.
  by_run [LBegin 0 (OSend CI (Some 1)); LStep (U 0) CRun; LStep (U 0) CRun; LBegin 0 (OSend CI (Some 2)); LStep (U 0) CRun; LStep (U 0) CRun] true false.
  repeat split; reflexivity.
Qed.

(* the event-driven thread is blocked in its select() with a Message queued before the start (its signal was dropped):
   only StartInternalThread, which has yet to look at the queue, will wake it *)
Example ex_evd_parked : forall n nl, exists s, reachable_if false n nl react0 any_label true true s /\
  g_ist (s_g s) = ILive /\ l_pc (g_il (s_g s)) = PIEvWait /\ c_q (g_ci (s_g s)) = [Some 3] /\
  readable (s_g s) CI = false /\ l_pc (s_l s 0) = PStartSpawned.
Proof.
  intros n nl.
  by_run [LBegin 0 (OSend CI (Some 3)); LStep (U 0) CRun; LStep (U 0) CRun;
          LBegin 0 OStart; LStep (U 0) CRun; LStep (U 0) CRun;
          LStep I CRun; LStep I CRun; LStep I CRun; LStep I CRun; LStep I CRun] true true.
  repeat split; reflexivity.
Qed.

(* the schedule that lost the wake-up before the repair (refute_labels), on the repaired order: the owner finds the
   Message under the lock and signals; the event-driven thread's select() is satisfiable *)
Example ex_race_repaired : forall n nl, exists s, reachable_if false n nl react0 any_label true true s /\
  g_ist (s_g s) = ILive /\ l_pc (g_il (s_g s)) = PIEvWait /\ c_q (g_ci (s_g s)) = [Some 7] /\
  readable (s_g s) CI = true.
Proof.
  intros n nl.
  by_run [LBegin 0 OStart; LStep (U 0) CRun;
          LBegin 1 (OSend CI (Some 7)); LStep (U 1) CRun; LStep (U 1) CRun;
          LStep (U 0) CRun; LStep (U 0) CRun; LStep (U 0) CRun; LStep (U 0) CRun;
          LStep I CRun; LStep I CRun; LStep I CRun; LStep I CRun; LStep I CRun] true true.
  repeat split; reflexivity.
Qed.

(* a state in which nothing can move *)
Example ex_stuck : forall n nl, exists s, reachable_if false n nl react0 any_label true false s /\
  (forall w c, sys_step false n nl react0 s (LStep w c) = None).
Proof.
  intros n nl. exists (sys0 true false). split; [apply reach_init|]. intros [t|] []; reflexivity.
Qed.


(* ---------- the owner's user-registered socket set ---------- *)

Section UserSocket.
Variable absorb_n : nat.
Variable no_limit : N.
Variable react : nat -> list (chanid * msg) * bool.

Notation sys_step := (sys_step false absorb_n no_limit react).

(* a blocked owner is woken by its registered user socket becoming ready-for-read *)
Theorem user_socket_wakes_owner : forall s w,
  g_sockets (s_g s) = true -> l_pc (s_l s 0) = PRecvPark CO w ->
  u_reg (g_usr (s_g s)) = true -> 0 < u_bytes (g_usr (s_g s)) ->
  exists x, sys_step s (LStep (U 0) CRun) = Some x.
Proof.
  intros s w Hs Hp Hr Hb. simpl.
  assert (Hbl : blocked (s_g s) (s_l s 0) = false).
  { unfold blocked. rewrite Hp. unfold wakeable, uready. rewrite Hs, Hr. apply Nat.ltb_lt in Hb. rewrite Hb.
    simpl. rewrite orb_true_r. reflexivity. }
  destruct (step_enabled false absorb_n no_limit react _ _ Hbl) as [[[g' l'] e] Hx]. rewrite Hx. eauto.
Qed.

Lemma next_reply_no_ret : forall evd rs q k p k' e' x, next_reply evd rs q k = (p, k', e') -> ~ In (ERet x) e'.
Proof. intros evd rs q k p k' e' x H. unfold next_reply in H. destruct rs as [|[c0 m0] rest]; inv H; simpl; tauto. Qed.

Lemma ret_emits : forall evd k r p k' e' x, ret react evd r k = (p, k', e') -> In (ERet x) e' -> x = r \/ x = RVoid.
Proof.
  intros evd k. induction k as [|f k IH]; intros r p k' e' x H Hin; simpl in H.
  - inv H. simpl in Hin. destruct Hin as [E | []]. inv E. auto.
  - destruct f.
    + destruct wait; [inv H; simpl in Hin; tauto|]. right. destruct (IH _ _ _ _ _ H Hin); auto.
    + right. destruct (IH _ _ _ _ _ H Hin); auto.
    + exfalso. unfold dispatch in H. destruct r as [ | [y|] n | | | | | | ]; try (inv H; simpl in Hin; intuition discriminate).
      destruct (next_reply evd (fst (react y)) (snd (react y)) k) as [[p1 k1] e1] eqn:En. inv H.
      simpl in Hin. destruct Hin as [E | Hin]; [discriminate|]. eapply next_reply_no_ret; eauto.
    + exfalso. eapply next_reply_no_ret; eauto.
Qed.

Lemma signal_no_ret : forall nl c g g' e x, signal nl c g = (g', e) -> ~ In (ERet x) e.
Proof.
  intros nl c g g' e x H. unfold signal in H.
  repeat match type of H with context [if ?b then _ else _] => destruct b | context [match ?y with CI => _ | CO => _ end] => destruct y end;
    inv H; simpl; intuition discriminate.
Qed.

(* B_IO_READY is truthful: a call returns it only when the registered user socket is ready-for-read and the signal
   socket is not, and IsOwnerThreadSocketReady() then says yes *)
Theorem io_ready_is_truthful : forall s t c s' ev,
  sys_step s (LStep (U t) c) = Some (s', ev) -> In (ERet RIoReady) ev ->
  uready (s_g s) = true /\ readable (s_g s) CO = false /\ u_flag (g_usr (s_g s')) = true.
Proof.
  intros s t c s' ev H Hin. simpl in H.
  destruct (step false absorb_n no_limit react c (s_g s) (s_l s t)) as [[[g' l'] e']|] eqn:Hst; [|discriminate]. inv H.
  apply step_spec in Hst. simpl.
  inversion Hst; subst; clear Hst;
    try (simpl in Hin; intuition discriminate; fail);
    try (exfalso; apply in_app_or in Hin; destruct Hin as [Hin | Hin];
         [ first [ eapply signal_no_ret; eassumption | simpl in Hin; intuition discriminate ]
         | simpl in Hin; intuition discriminate ]; fail);
    try (apply in_app_or in Hin; destruct Hin as [Hin | Hin];
         [ exfalso; first [ eapply signal_no_ret; eassumption | simpl in Hin; intuition discriminate ]
         | match goal with Hr : ret _ _ _ _ = _ |- _ => destruct (ret_emits _ _ _ _ _ _ _ Hr Hin) as [E | E]; try discriminate end ]).
  - (* woken by the user socket *)
    destruct x.
    + exfalso. match goal with Hw : wakeable _ CI = true, Hr : readable _ CI = false |- _ => rewrite wakeable_CI in Hw; congruence end.
    + match goal with Hw : wakeable _ CO = true, Hr : readable _ CO = false |- _ =>
        unfold wakeable in Hw; rewrite Hr in Hw; simpl in Hw; split; [exact Hw | split; [exact Hr|]];
        unfold uready in Hw; apply andb_true_iff in Hw; destruct Hw as [Hw1 Hw2]; apply andb_true_iff in Hw1; destruct Hw1 as [_ Hreg];
        unfold park_flags; rewrite Hreg; simpl; exact Hw2 end.
  - (* an operation on the user socket never returns it *)
    exfalso. subst r. match goal with Hu : user_step ?u _ = _ |- _ => destruct u; simpl in Hu;
      repeat match type of Hu with context [if ?b then _ else _] => destruct b end; inv Hu end.
Qed.

End UserSocket.

(* the owner blocked with its user socket registered; another thread makes it ready: the owner can return B_IO_READY *)
Example ex_user_socket : forall n nl, exists s, reachable_if false n nl react0 any_label true false s /\
  l_pc (s_l s 0) = PRecvPark CO WNever /\ uready (s_g s) = true /\ readable (s_g s) CO = false.
Proof.
  intros n nl.
  by_run (start_labels ++ [LBegin 0 (OUser UReg); LStep (U 0) CRun;
                           LBegin 0 (ORecv WNever); LStep (U 0) CRun; LStep (U 0) CRun; LStep (U 0) CRun;
                           LBegin 1 (OUser UPing); LStep (U 1) CRun]) true false.
  repeat split; reflexivity.
Qed.

(* a reaction that sends further work to the internal thread itself: having taken Message 5 from its queue, the thread
   has appended Message 105 to that (now empty) queue and owes itself the signal *)
Definition react_self : nat -> list (chanid * msg) * bool := fun x => ([(CI, Some (x + 100))], false).

Example ex_self_send : forall n nl, exists s, reachable_if false n nl react_self any_label true false s /\
  g_ist (s_g s) = ILive /\ l_pc (g_il (s_g s)) = PSendSig CI true /\ c_q (g_ci (s_g s)) = [Some 105] /\
  c_rcvd (g_ci (s_g s)) = [Some 5].
Proof.
  intros n nl.
  by_run ([LBegin 0 (OSend CI (Some 5)); LStep (U 0) CRun; LStep (U 0) CRun] ++ start_labels ++
          [LStep I CRun; LStep I CRun; LStep I CRun; LStep I CRun; LStep I CRun; LStep I CRun; LStep I CRun; LStep I CRun]) true false.
  repeat split; reflexivity.
Qed.

(* ---------- the WaitCondition counting contract ---------- *)

(* A Wait() entered (or pending) while the condition's notification count is positive returns at once and zeroes the count:
   in wait-condition mode no receive stays parked while its count is positive.  (This is what makes "signal only on the
   empty -> non-empty transition" sufficient even when a stale notification is left behind by a receive that found its
   Message without waiting; both WaitAux and the timed WaitUntilAux of WaitCondition.h must honour it.) *)
Theorem wait_returns_at_once_when_notified : forall early absorb_n nl react g x w k,
  g_sockets g = false -> (0 < c_wc (ch g x))%N ->
  step early absorb_n nl react CRun g (mkL (PRecvPark x w) k) =
  Some (set_ch x (with_wc (ch g x) 0%N) g, mkL (PRecvAbsorb x w) k, [EWoken]).
Proof.
  intros early absorb_n nl react g x w k Hs Hc. unfold step. simpl.
  assert (Hw : wakeable g x = true).
  { unfold wakeable, readable. rewrite Hs. apply N.ltb_lt in Hc. rewrite Hc. reflexivity. }
  rewrite Hw, Hs. destruct w; reflexivity.
Qed.

Theorem no_receive_parks_while_notified : forall early absorb_n nl react s t x w,
  g_sockets (s_g s) = false -> l_pc (s_l s t) = PRecvPark x w -> (0 < c_wc (ch (s_g s) x))%N ->
  exists s', sys_step early absorb_n nl react s (LStep (U t) CRun) = Some (s', [EWoken]) /\
             c_wc (ch (s_g s') x) = 0%N /\ l_pc (s_l s' t) = PRecvAbsorb x w.
Proof.
  intros early absorb_n nl react s t x w Hs Hp Hc. simpl.
  destruct (s_l s t) as [p k] eqn:El. simpl in Hp. subst p.
  rewrite (wait_returns_at_once_when_notified early absorb_n nl react _ x w k Hs Hc).
  eexists. split; [reflexivity|]. simpl. split; [rewrite ch_set_same; reflexivity|].
  unfold upd. rewrite Nat.eqb_refl. reflexivity.
Qed.
