(* C11 -- proofs about the Thread messaging LTS (Conc/ThreadQ.v). *)
From Coq Require Import List Arith Bool Lia.
From Muscle Require Import Conc.ThreadQ.
Import ListNotations.

Section Proofs.
Variable absorb_n : nat.
Variable react : nat -> list msg * bool.

Lemma init_reachable : forall m, reachable absorb_n react m (sys0 m).
Proof. intro m. apply reach_init. Qed.

End Proofs.
