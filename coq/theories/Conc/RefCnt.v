(* C10 -- executable model of reference counting (util/RefCount.h) over pooled and heap objects.

   An interleaving transition system.  Global state = heap of objects (each: atomic count,
   member reference slots, a payload value, a life-cycle state), threads, one ObjectPool.
   A thread = private stack of reference slots, the remaining atomic steps of the operation it is
   executing ([t_todo], a continuation), and its remaining program.  [step N s t] executes one
   atomic step of thread t: the first pending action, or - when none is pending - the local,
   thread-private beginning of the next operation (pointer reads, the IsRefPrivate test), which
   expands the operation into its atomic steps IN THE CODE'S ORDER:

     ConstRef::SetRef (repaired order, see F11)   inc new ; UnrefItem old (+ cascade) ; store
     Reset / SetStatus                            UnrefItem (+ cascade)
     dst = CastAwayConstFromRef(src)              inc (temporary) ; SwapContents ; dec old (+ cascade)
     SwapContents                                 no atomic step
     UnrefItemAux: decrement-and-test; at zero    pooled: *obj = default (member Refs released in
                                                  declaration order, each possibly cascading),
                                                  then ReleaseObject's critical section, then the
                                                  slab deletion outside the lock;
                                                  heap: ~Item (members released in reverse order), free.
   The atomic operations (AInc, ADec, ADecKeep, the pool's critical sections) are separate steps from
   the thread-local pointer moves around them (ATake: the pointer leaves its slot, AStore: a pointer
   enters a slot, AUntag: the counting bit is cleared); local moves are invisible to other threads.
   A reference slot holds a pointer and the "is ref-counting" bit; a non-counting reference
   (DummyRef, SetRef(item,false)) never touches the count and keeps nothing alive.  SetRef on the
   same item converts between the two kinds (start counting: increment; stop counting: decrement
   WITHOUT release).  Operations dereference an object only through a counting reference.
   [OAssignOld] keeps the order of the unrepaired code (UnrefItem ; store ; inc) for the refutation.

   Discipline built into the operations (the data-race freedom the Ref class documents): a thread
   writes only its own stack slots and member slots of an object that is private to it
   (IsRefPrivate: count 1, referenced from its stack), and never stores into an object a reference
   to that object itself.  Reads go to own stack slots and to members of objects referenced from the
   own stack.  Every violation of object lifetime the model can exhibit is an [EvBad] event.
   No proofs in this file. *)
From Coq Require Import List Arith Bool.
From Muscle Require Import Conc.Pool.
Import ListNotations.
Local Open Scope nat_scope.

Inductive ostate := Live | Releasing | Pooled | Dead.

Notation ref := (option (nat * bool)).   (* pointer, REF_BIT_ISREFCOUNTING *)

Record obj := mkObj {
  o_cnt : nat;                     (* RefCountable::_refCount *)
  o_mem : list ref;                (* member Ref slots *)
  o_val : nat;                     (* payload *)
  o_st : ostate;
  o_pooled : bool;                 (* lives in a slab (GetManager() != NULL while in use) *)
  o_births : nat;                  (* ghost: times constructed-for-use / obtained *)
  o_deaths : nat                   (* ghost: times released (count reached zero) *)
}.

Inductive loc := LStk (i : nat) | LMem (i j : nat).
Inductive rloc := RStk (i : nat) | RMem (o j : nat).

Inductive op :=
| ONew (i : nat) (pooled : bool)
| OAssign (dst src : loc)            (* dst = src : SetRef(src(), src.IsRefCounting()) *)
| OAlias (dst src : loc)             (* dst.SetRef(src(), false) : non-counting reference *)
| OAssignOld (dst src : loc)        (* SetRef in the unrepaired order; used by the refutation only *)
| OReset (l : loc)
| OSwap (a b : loc)
| OConstCast (dst src : loc)
| OSetVal (i v : nat)
| ODrain.

Inductive act :=
| AInc (o : nat) (src : option rloc)       (* IncrementRefCount; src = the slot the pointer was read from *)
| ADec (o : nat)                           (* DecrementRefCount and test; at zero the release of o starts *)
| ADecKeep (o : nat)                       (* UnrefItemAux(item, false): decrement, never release *)
| ATake (l : rloc)                         (* UnrefItem on a slot: the pointer leaves the slot (local), its decrement follows *)
| AUntag (l : rloc)                        (* same item, stop counting: clear the bit (local), a keep-decrement follows *)
| AStore (l : rloc) (v : ref)              (* SetPointerAndBits / SwapContents into l; a displaced counting
                                              pointer (the temporary's content after a swap) is decremented next *)
| ARel (o n : nat)                         (* releasing o: n member slots already processed *)
| APoolObt (l : rloc)                      (* ObtainObject critical section, then SetRef into l *)
| ADrain                                   (* Drain critical section *)
| ASlabDel (s : slab).                     (* delete slab, outside the lock *)

Record thread := mkThr { t_stk : list ref; t_todo : list act; t_prog : list op }.

Record state := mkSt { s_heap : list obj; s_thr : list thread; s_pool : pool }.

Inductive event :=
| EvNone                       (* nothing to do / silent local step *)
| EvBegin (ok : bool)          (* an operation began; false = skipped by its guard *)
| EvInc (o : nat)
| EvDec (o : nat) (zero : bool)
| EvFreed (o : nat)            (* heap object destroyed *)
| EvRecycled (o : nat) (slabdel : bool)  (* returned to the pool *)
| EvObtained (o : nat) (newslab : bool)
| EvDrained (n : nat)
| EvSlabDel (id base : nat)
| EvBad (why : nat).           (* 1 inc of non-live, 2 dec of non-live/zero, 4 release step on a
                                  non-releasing object, 5 slab delete with an object not pooled,
                                  6 obtained object not pooled/default *)

Definition dobj : obj := mkObj 0 [] 0 Dead false 0 0.
Definition dthr : thread := mkThr [] [] [].

Definition get_obj (h : list obj) (o : nat) : obj := nth o h dobj.
Definition set_cnt (ob : obj) (c : nat) := mkObj c (o_mem ob) (o_val ob) (o_st ob) (o_pooled ob) (o_births ob) (o_deaths ob).
Definition set_mem (ob : obj) (m : list ref) := mkObj (o_cnt ob) m (o_val ob) (o_st ob) (o_pooled ob) (o_births ob) (o_deaths ob).
Definition set_val (ob : obj) (v : nat) := mkObj (o_cnt ob) (o_mem ob) v (o_st ob) (o_pooled ob) (o_births ob) (o_deaths ob).
Definition set_st (ob : obj) (st : ostate) := mkObj (o_cnt ob) (o_mem ob) (o_val ob) st (o_pooled ob) (o_births ob) (o_deaths ob).
Definition born (ob : obj) := mkObj (o_cnt ob) (o_mem ob) (o_val ob) Live (o_pooled ob) (S (o_births ob)) (o_deaths ob).
Definition dying (ob : obj) := mkObj (o_cnt ob) (o_mem ob) (o_val ob) Releasing (o_pooled ob) (o_births ob) (S (o_deaths ob)).

Definition is_live (ob : obj) : bool := match o_st ob with Live => true | _ => false end.
Definition is_pooled_st (ob : obj) : bool := match o_st ob with Pooled => true | _ => false end.
Definition is_releasing (ob : obj) : bool := match o_st ob with Releasing => true | _ => false end.

Definition fresh_obj (K : nat) (pooled : bool) (st : ostate) : obj := mkObj 0 (repeat None K) 0 st pooled 0 0.

Definition ptr (r : ref) : option nat := match r with Some (o, _) => Some o | None => None end.
Definition counting (r : ref) : bool := match r with Some (_, c) => c | None => false end.

Definition opt_eqb (a b : option nat) : bool :=
  match a, b with
  | Some x, Some y => x =? y
  | None, None => true
  | _, _ => false
  end.

Definition all_none (l : list ref) : bool := forallb (fun x => match x with None => true | Some _ => false end) l.

(* ---------------------------------------------------------------- slots *)

Definition read_slot (h : list obj) (stk : list ref) (l : rloc) : ref :=
  match l with
  | RStk i => nth i stk None
  | RMem o j => nth j (o_mem (get_obj h o)) None
  end.

Definition write_slot (h : list obj) (stk : list ref) (l : rloc) (v : ref)
  : list obj * list ref :=
  match l with
  | RStk i => (h, upd stk i v)
  | RMem o j => (upd h o (set_mem (get_obj h o) (upd (o_mem (get_obj h o)) j v)), stk)
  end.

(* resolve a program location for reading: the slot and its current content.  A member slot is
   reached only through a counting reference on the own stack. *)
Definition resolve_r (h : list obj) (stk : list ref) (l : loc) : option (rloc * ref) :=
  match l with
  | LStk i => if i <? length stk then Some (RStk i, nth i stk None) else None
  | LMem i j =>
      match nth i stk None with
      | Some (q, true) => if j <? length (o_mem (get_obj h q)) then Some (RMem q j, nth j (o_mem (get_obj h q)) None) else None
      | _ => None
      end
  end.

(* resolve for writing the pointer v: a member slot only of an object private to this thread
   (IsRefPrivate(): counting reference, count = 1), and never a pointer to the object itself *)
Definition resolve_w (h : list obj) (stk : list ref) (l : loc) (v : option nat) : option (rloc * ref) :=
  match l with
  | LStk i => if i <? length stk then Some (RStk i, nth i stk None) else None
  | LMem i j =>
      match nth i stk None with
      | Some (q, true) =>
          if (j <? length (o_mem (get_obj h q))) && (o_cnt (get_obj h q) =? 1) && negb (opt_eqb v (Some q))
          then Some (RMem q j, nth j (o_mem (get_obj h q)) None) else None
      | _ => None
      end
  end.

Definition rloc_eqb (a b : rloc) : bool :=
  match a, b with
  | RStk i, RStk j => i =? j
  | RMem o i, RMem p j => (o =? p) && (i =? j)
  | _, _ => false
  end.

(* ---------------------------------------------------------------- expansion of operations *)

Definition take_acts (dst : rloc) (q : ref) : list act :=
  match q with Some (_, true) => [ATake dst] | _ => [] end.

(* Reset(): UnrefItem, slot becomes null *)
Definition reset_acts (dst : rloc) (q : ref) : list act :=
  match q with Some (_, true) => [ATake dst] | Some (_, false) => [AStore dst None] | None => [] end.

(* ConstRef::SetRef(item, c) on slot [dst] currently holding [q]; repaired order *)
Definition setref_acts (dst : rloc) (q : ref) (p : option nat) (c : bool) (src : option rloc) : list act :=
  match p with
  | None => reset_acts dst q            (* SetStatus -> Reset *)
  | Some o =>
      if opt_eqb (ptr q) (Some o) then
        match counting q, c with
        | false, true => [AInc o src; AStore dst (Some (o, true))]     (* start counting *)
        | true, false => [AUntag dst]                                  (* stop counting, never releases *)
        | _, _ => []
        end
      else (if c then [AInc o src] else []) ++ take_acts dst q ++ [AStore dst (Some (o, c))]
  end.

(* the unrepaired order of the switch-items branch: UnrefItem ; store ; RefItem *)
Definition setref_old_acts (dst : rloc) (q : ref) (p : option nat) (c : bool) (src : option rloc) : list act :=
  match p with
  | Some o =>
      if opt_eqb (ptr q) (Some o) then setref_acts dst q p c src
      else take_acts dst q ++ [AStore dst (Some (o, c))] ++ (if c then [AInc o src] else [])
  | None => setref_acts dst q p c src
  end.

(* dst = CastAwayConstFromRef(src): a temporary takes (p,c) (increment iff c), move assignment swaps
   it into dst, the temporary's destructor unreferences the displaced content *)
Definition castassign_acts (dst : rloc) (q : ref) (p : option nat) (c : bool) (src : option rloc) : list act :=
  match p with
  | Some o => (if c then [AInc o src] else []) ++ [AStore dst (Some (o, c))]
  | None => reset_acts dst q
  end.

(* result of the local beginning of an operation: new heap (ONew heap / OSetVal / OSwap write),
   new stack, the actions, ok flag *)
Definition begin_op (K : nat) (h : list obj) (stk : list ref) (o : op)
  : list obj * list ref * list act * bool :=
  match o with
  | ONew i pooled =>
      if i <? length stk then
        if pooled then (h, stk, [APoolObt (RStk i)], true)
        else let id := length h in
             (h ++ [born (fresh_obj K false Dead)], stk, setref_acts (RStk i) (nth i stk None) (Some id) true None, true)
      else (h, stk, [], false)
  | OAssign dst src =>
      match resolve_r h stk src with
      | Some (rs, p) =>
          match resolve_w h stk dst (ptr p) with
          | Some (rd, q) => (h, stk, setref_acts rd q (ptr p) (counting p) (Some rs), true)
          | None => (h, stk, [], false)
          end
      | None => (h, stk, [], false)
      end
  | OAlias dst src =>
      match resolve_r h stk src with
      | Some (rs, p) =>
          match resolve_w h stk dst (ptr p) with
          | Some (rd, q) => (h, stk, setref_acts rd q (ptr p) false (Some rs), true)
          | None => (h, stk, [], false)
          end
      | None => (h, stk, [], false)
      end
  | OAssignOld dst src =>
      match resolve_r h stk src with
      | Some (rs, p) =>
          match resolve_w h stk dst (ptr p) with
          | Some (rd, q) => (h, stk, setref_old_acts rd q (ptr p) (counting p) (Some rs), true)
          | None => (h, stk, [], false)
          end
      | None => (h, stk, [], false)
      end
  | OReset l =>
      match resolve_w h stk l None with
      | Some (rl, q) => (h, stk, reset_acts rl q, true)
      | None => (h, stk, [], false)
      end
  | OSwap a b =>
      match resolve_r h stk a, resolve_r h stk b with
      | Some (_, va), Some (_, vb) =>
          match resolve_w h stk a (ptr vb), resolve_w h stk b (ptr va) with
          | Some (ra, _), Some (rb, _) =>
              if rloc_eqb ra rb then (h, stk, [], true)
              else let '(h1, stk1) := write_slot h stk ra vb in
                   let '(h2, stk2) := write_slot h1 stk1 rb va in
                   (h2, stk2, [], true)
          | _, _ => (h, stk, [], false)
          end
      | _, _ => (h, stk, [], false)
      end
  | OConstCast dst src =>
      match resolve_r h stk src with
      | Some (rs, p) =>
          match resolve_w h stk dst (ptr p) with
          | Some (rd, q) => (h, stk, castassign_acts rd q (ptr p) (counting p) (Some rs), true)
          | None => (h, stk, [], false)
          end
      | None => (h, stk, [], false)
      end
  | OSetVal i v =>
      match nth i stk None with
      | Some (q, true) => if o_cnt (get_obj h q) =? 1 then (upd h q (set_val (get_obj h q) v), stk, [], true) else (h, stk, [], false)
      | _ => (h, stk, [], false)
      end
  | ODrain => (h, stk, [ADrain], true)
  end.

(* ---------------------------------------------------------------- atomic steps *)

(* decrement-and-test of object q; None = q is not live or its count is already 0 *)
Definition dec_obj (h : list obj) (q : nat) : option (list obj * bool) :=
  let ob := get_obj h q in
  if is_live ob && (0 <? o_cnt ob) then
    let c := o_cnt ob - 1 in
    if c =? 0 then Some (upd h q (dying (set_cnt ob 0)), true)
    else Some (upd h q (set_cnt ob c), false)
  else None.

(* UnrefItemAux(item, false): decrement, never release *)
Definition dec_keep (h : list obj) (q : nat) : option (list obj) :=
  let ob := get_obj h q in
  if is_live ob && (0 <? o_cnt ob) then Some (upd h q (set_cnt ob (o_cnt ob - 1))) else None.

Definition inc_obj (h : list obj) (q : nat) : option (list obj) :=
  let ob := get_obj h q in
  if is_live ob then Some (upd h q (set_cnt ob (S (o_cnt ob)))) else None.

(* index of the n-th member slot processed when releasing: declaration order for the pooled
   reset-to-default (operator=), reverse order for the destructor *)
Definition rel_index (ob : obj) (n : nat) : nat :=
  if o_pooled ob then n else length (o_mem ob) - 1 - n.

Fixpoint set_range (h : list obj) (base n : nat) (f : obj -> obj) : list obj :=
  match n with
  | O => h
  | S k => set_range (upd h (base + k) (f (get_obj h (base + k)))) base k f
  end.

Fixpoint range_all (h : list obj) (base n : nat) (f : obj -> bool) : bool :=
  match n with
  | O => true
  | S k => f (get_obj h (base + k)) && range_all h base k f
  end.

Definition is_default (ob : obj) : bool := (o_cnt ob =? 0) && all_none (o_mem ob) && (o_val ob =? 0).

(* one action of a thread whose stack is stk and whose remaining actions are rest.
   Result: heap, stack, new todo, pool, event *)
Definition do_act (N K : nat) (h : list obj) (p : pool) (stk : list ref) (a : act) (rest : list act)
  : list obj * list ref * list act * pool * event :=
  match a with
  | AInc o _ =>
      match inc_obj h o with
      | Some h' => (h', stk, rest, p, EvInc o)
      | None => (h, stk, rest, p, EvBad 1)
      end
  | ADec q =>
      match dec_obj h q with
      | Some (h2, true) => (h2, stk, ARel q 0 :: rest, p, EvDec q true)
      | Some (h2, false) => (h2, stk, rest, p, EvDec q false)
      | None => (h, stk, rest, p, EvBad 2)
      end
  | ADecKeep q =>
      match dec_keep h q with
      | Some h2 => (h2, stk, rest, p, EvDec q false)
      | None => (h, stk, rest, p, EvBad 2)
      end
  | ATake l =>
      let old := read_slot h stk l in
      let '(h1, stk1) := write_slot h stk l None in
      (h1, stk1, (match old with Some (q, true) => [ADec q] | _ => [] end) ++ rest, p, EvNone)
  | AUntag l =>
      match read_slot h stk l with
      | Some (q, true) => let '(h1, stk1) := write_slot h stk l (Some (q, false)) in (h1, stk1, ADecKeep q :: rest, p, EvNone)
      | _ => (h, stk, rest, p, EvNone)
      end
  | AStore l v =>
      let old := read_slot h stk l in
      let '(h1, stk1) := write_slot h stk l v in
      (h1, stk1, (match old with Some (q, true) => [ADec q] | _ => [] end) ++ rest, p, EvNone)
  | ARel o n =>
      let ob := get_obj h o in
      if negb (is_releasing ob) then (h, stk, rest, p, EvBad 4)
      else if n <? length (o_mem ob) then
        let j := rel_index ob n in
        (upd h o (set_mem ob (upd (o_mem ob) j None)), stk,
         (match nth j (o_mem ob) None with Some (q, true) => [ADec q] | _ => [] end) ++ ARel o (S n) :: rest, p, EvNone)
      else if o_pooled ob then
        (* ReleaseObject: payload reset, SetManager(NULL), critical section *)
        let h1 := upd h o (set_st (set_val ob 0) Pooled) in
        let '(p', del) := pool_release N p o in
        match del with
        | Some s => (h1, stk, ASlabDel s :: rest, p', EvRecycled o true)
        | None => (h1, stk, rest, p', EvRecycled o false)
        end
      else (upd h o (set_st ob Dead), stk, rest, p, EvFreed o)
  | APoolObt l =>
      let '(p', o, created) := pool_obtain N (length h) p in
      let h1 := match created with Some _ => h ++ repeat (fresh_obj K true Pooled) N | None => h end in
      let ob := get_obj h1 o in
      if is_pooled_st ob && is_default ob then
        (upd h1 o (born ob), stk, setref_acts l (read_slot h1 stk l) (Some o) true None ++ rest, p',
         EvObtained o (match created with Some _ => true | None => false end))
      else (h1, stk, rest, p', EvBad 6)
  | ADrain =>
      let '(p', dels) := pool_drain N p in
      (h, stk, map ASlabDel dels ++ rest, p', EvDrained (length dels))
  | ASlabDel s =>
      if range_all h (sl_base s) N is_pooled_st
      then (set_range h (sl_base s) N (fun ob => set_st ob Dead), stk, rest, p, EvSlabDel (sl_id s) (sl_base s))
      else (h, stk, rest, p, EvBad 5)
  end.

(* one atomic step of thread t *)
Definition step (N K : nat) (s : state) (t : nat) : state * event :=
  let th := nth t (s_thr s) dthr in
  match t_todo th with
  | a :: rest =>
      let '(h, stk, todo, p, ev) := do_act N K (s_heap s) (s_pool s) (t_stk th) a rest in
      (mkSt h (upd (s_thr s) t (mkThr stk todo (t_prog th))) p, ev)
  | [] =>
      match t_prog th with
      | [] => (s, EvNone)
      | o :: prog =>
          let '(h, stk, todo, ok) := begin_op K (s_heap s) (t_stk th) o in
          (mkSt h (upd (s_thr s) t (mkThr stk todo prog)) (s_pool s), EvBegin ok)
      end
  end.

(* run thread t until its current operation is complete (used by the single-threaded driver;
   fuel-bounded, returns the events in order and whether fuel sufficed) *)
Fixpoint run_op (N K fuel : nat) (s : state) (t : nat) (acc : list event) : state * list event * bool :=
  match fuel with
  | O => (s, rev acc, false)
  | S f =>
      match t_todo (nth t (s_thr s) dthr) with
      | [] => (s, rev acc, true)
      | _ => let '(s', ev) := step N K s t in run_op N K f s' t (ev :: acc)
      end
  end.

Definition init_state (max stksize : nat) (progs : list (list op)) : state :=
  mkSt [] (map (fun pr => mkThr (repeat None stksize) [] pr) progs) (empty_pool max).

(* a schedule = list of thread ids; events in order *)
Fixpoint run_sched (N K : nat) (s : state) (sched : list nat) : state * list event :=
  match sched with
  | [] => (s, [])
  | t :: r => let '(s1, ev) := step N K s t in let '(s2, evs) := run_sched N K s1 r in (s2, ev :: evs)
  end.

(* thread creation: the parent (thread 0, between two operations) hands every new thread a copy of
   its stack before the thread starts; each copied counting reference is one more reference *)
Fixpoint count_refs (o : nat) (l : list ref) : nat :=
  match l with
  | [] => 0
  | Some (q, true) :: t => (if q =? o then 1 else 0) + count_refs o t
  | _ :: t => count_refs o t
  end.

Fixpoint bump (h : list obj) (o : nat) (n : nat) (stk : list ref) : list obj :=
  match h with
  | [] => []
  | ob :: t => set_cnt ob (o_cnt ob + n * count_refs o stk) :: bump t (S o) n stk
  end.

Definition fork_state (s : state) (progs : list (list op)) : state :=
  let stk0 := t_stk (nth 0 (s_thr s) dthr) in
  mkSt (bump (s_heap s) 0 (length progs) stk0)
       (s_thr s ++ map (fun pr => mkThr stk0 [] pr) progs)
       (s_pool s).

(* is the next step of thread t a purely thread-local one (no atomic operation, no critical section)? *)
Definition next_silent (s : state) (t : nat) : bool :=
  let th := nth t (s_thr s) dthr in
  match t_todo th with
  | [] => match t_prog th with [] => false | _ => true end
  | a :: _ =>
      match a with
      | AInc _ _ | ADec _ | ADecKeep _ | APoolObt _ | ADrain => false
      | ATake _ | AUntag _ | AStore _ _ | ASlabDel _ => true
      | ARel o n =>
          (* pooled objects: the reset-to-default (operator=) at the start of the release is an observation point of
             the controlled scheduler, the pool's critical section at its end is a lock *)
          let ob := get_obj (s_heap s) o in negb (o_pooled ob && ((length (o_mem ob) <=? n) || (n =? 0)))
      end
  end.

Definition thread_done (s : state) (t : nat) : bool :=
  let th := nth t (s_thr s) dthr in
  match t_todo th, t_prog th with [], [] => true | _, _ => false end.

Definition ev_is_bad (e : event) : bool := match e with EvBad _ => true | _ => false end.
