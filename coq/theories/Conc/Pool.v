(* C10 -- executable model of muscle::ObjectPool<Object, SLAB> bookkeeping (util/ObjectPool.h).

   A pool is the ordered slab list (_firstSlab ... _lastSlab, kept here as a sequence; the
   harness checks that the _prev/_next/_lastSlab pointers describe the same sequence),
   _curPoolSize and _maxPoolSize.  A slab is its per-node _nextIndex array, _firstFreeNodeIndex
   and _numNodesInUse; node i of the slab holds the pooled object with id [sl_base + i]
   (the objects themselves live in the heap of Conc/RefCnt.v).  INVALID_NODE_INDEX is [None].
   Each function below is one critical section under ObjectPool::_mutex:
     pool_obtain  = ObtainObjectAux      (ObjectSlab ctor, ObtainObjectNode/PopObjectNode,
                                          Remove/Append/PrependToSlabList)
     pool_release = ReleaseObjectAux     (PushObjectNode, the slab-deletion decision; the slab
                                          itself is returned and deleted by the caller after unlock)
     pool_drain   = the locked part of Drain
   N = NUM_OBJECTS_PER_SLAB (>= 1).  Numbers are nat; SaturatingUnsignedAdd(_maxPoolSize, N) is
   written max+N (premise: max+N < 2^32).  No proofs in this file. *)
From Coq Require Import List Arith Bool.
Import ListNotations.
Local Open Scope nat_scope.

Fixpoint upd {A} (l : list A) (i : nat) (v : A) : list A :=
  match l, i with
  | [], _ => []
  | _ :: t, O => v :: t
  | h :: t, S i' => h :: upd t i' v
  end.

Record slab := mkSlab {
  sl_id : nat;                      (* creation number (identity) *)
  sl_base : nat;                    (* object id of node 0 *)
  sl_next : list (option nat);      (* ObjectNode::_nextIndex per node *)
  sl_first : option nat;            (* _firstFreeNodeIndex *)
  sl_inuse : nat                    (* _numNodesInUse *)
}.

Record pool := mkPool {
  p_slabs : list slab;              (* _firstSlab .. _lastSlab *)
  p_cur : nat;                      (* _curPoolSize *)
  p_max : nat;                      (* _maxPoolSize *)
  p_nextid : nat                    (* slabs created so far *)
}.

Definition empty_pool (max : nat) : pool := mkPool [] 0 max 0.

(* ObjectSlab::ObjectSlab : InitializeObjectNode(&_nodes[i], i) for i = 0..N-1 *)
Definition init_next (N : nat) : list (option nat) :=
  map (fun i => match i with O => None | S j => Some j end) (seq 0 N).

Definition new_slab (N id base : nat) : slab :=
  mkSlab id base (init_next N) (match N with O => None | S j => Some j end) 0.

Definition has_avail (s : slab) : bool := match sl_first s with Some _ => true | None => false end.
Definition slab_in_use (s : slab) : bool := 0 <? sl_inuse s.

(* ObtainObjectNode + PopObjectNode *)
Definition slab_pop (s : slab) : option (slab * nat) :=
  match sl_first s with
  | None => None
  | Some i => Some (mkSlab (sl_id s) (sl_base s) (upd (sl_next s) i None) (nth i (sl_next s) None) (S (sl_inuse s)), i)
  end.

(* ReleaseObjectNode + PushObjectNode *)
Definition slab_push (s : slab) (i : nat) : slab :=
  mkSlab (sl_id s) (sl_base s) (upd (sl_next s) i (sl_first s)) (Some i) (pred (sl_inuse s)).

Definition owns (N : nat) (s : slab) (o : nat) : bool := (sl_base s <=? o) && (o <? sl_base s + N).

Definition remove_slab (id : nat) (l : list slab) : list slab := filter (fun s => negb (sl_id s =? id)) l.

Definition is_nil {A} (l : list A) : bool := match l with [] => true | _ => false end.

(* ObtainObjectAux.  [hlen] = the id the first object of a newly created slab gets.
   Result: new pool, obtained object id, Some slab when a slab was created. *)
Definition pool_create (N hlen : nat) (p : pool) : pool * nat * option slab :=
  let s := new_slab N (p_nextid p) hlen in
  match slab_pop s with
  | Some (s', i) =>
      let slabs' := if has_avail s' then s' :: p_slabs p else p_slabs p ++ [s'] in
      (mkPool slabs' (p_cur p + N - 1) (p_max p) (S (p_nextid p)), hlen + i, Some s)
  | None => (p, 0, None)   (* N = 0: not a real configuration *)
  end.

Definition pool_obtain (N hlen : nat) (p : pool) : pool * nat * option slab :=
  match p_slabs p with
  | s :: rest =>
      match slab_pop s with
      | Some (s', i) =>
          let slabs' := if negb (has_avail s') && negb (is_nil rest) then rest ++ [s'] else s' :: rest in
          (mkPool slabs' (p_cur p - 1) (p_max p) (p_nextid p), sl_base s + i, None)
      | None => pool_create N hlen p
      end
  | [] => pool_create N hlen p
  end.

Fixpoint find_slab (N : nat) (l : list slab) (o : nat) : option slab :=
  match l with
  | [] => None
  | s :: t => if owns N s o then Some s else find_slab N t o
  end.

(* ReleaseObjectAux: returns the slab to delete outside the lock, if any *)
Definition pool_release (N : nat) (p : pool) (o : nat) : pool * option slab :=
  match find_slab N (p_slabs p) o with
  | None => (p, None)      (* object of no listed slab: excluded by the invariant *)
  | Some s =>
      let s' := slab_push s (o - sl_base s) in
      let cur' := S (p_cur p) in
      if (p_max p + N <? cur') && negb (slab_in_use s') then
        (mkPool (remove_slab (sl_id s) (p_slabs p)) (cur' - N) (p_max p) (p_nextid p), Some s')
      else
        (mkPool (s' :: remove_slab (sl_id s) (p_slabs p)) cur' (p_max p) (p_nextid p), None)
  end.

(* Drain, locked part: unused slabs leave the list; they are deleted (after unlock) in the
   order of the local toDelete list, i.e. last found first. *)
Definition pool_drain (N : nat) (p : pool) : pool * list slab :=
  let unused := filter (fun s => negb (slab_in_use s)) (p_slabs p) in
  (mkPool (filter slab_in_use (p_slabs p)) (p_cur p - N * length unused) (p_max p) (p_nextid p), rev unused).

(* free list of a slab as a list of node indices (fuel = N suffices under the invariant) *)
Fixpoint walk (fuel : nat) (next : list (option nat)) (cur : option nat) : list nat :=
  match fuel, cur with
  | S f, Some i => i :: walk f next (nth i next None)
  | _, _ => []
  end.
Definition free_nodes (N : nat) (s : slab) : list nat := walk N (sl_next s) (sl_first s).
