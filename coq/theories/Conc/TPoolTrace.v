(* C19 -- the invariant that ties the event trace (submissions, handler entries and returns) to the pool's state. *)
From Coq Require Import List Arith Bool Lia.
From Muscle Require Import Conc.TPool Conc.TPoolLemmas Conc.TPoolInv Conc.TPoolStep.
Import ListNotations.

(* ---------------------------------------------------------------- the thread working for a client *)

Lemma worker_some : forall s c t h, SInv s ->
  (worker s c = Some (t, h) <-> tget t (s_thr s) = Some h /\ th_client h = Some c).
Proof.
  intros s c t h I. unfold worker.
  assert (Hfwd : forall t' h', find (works_for c) (s_thr s) = Some (t', h') -> tget t' (s_thr s) = Some h' /\ th_client h' = Some c).
  { intros t' h' Hf. apply find_some in Hf. destruct Hf as [Hin Hw]. split.
    - apply In_tget; auto. apply (i_nd_thr _ I).
    - unfold works_for in Hw. cbn in Hw. destruct (th_client h') as [c'|]; [|discriminate]. apply Nat.eqb_eq in Hw. now subst. }
  split; [apply Hfwd|].
  intros [Ht Hc]. destruct (find (works_for c) (s_thr s)) as [[t' h']|] eqn:Hf.
  - destruct (Hfwd t' h' eq_refl) as [Ht' Hc'].
    assert (t' = t) by (eapply (i_thr_uniq _ I); eauto). subst. congruence.
  - exfalso. apply tget_In in Ht. eapply find_none in Hf; eauto. unfold works_for in Hf. cbn in Hf. rewrite Hc, Nat.eqb_refl in Hf. discriminate.
Qed.

Lemma worker_none : forall s c, SInv s ->
  (worker s c = None <-> forall t h, tget t (s_thr s) = Some h -> th_client h <> Some c).
Proof.
  intros s c I. split.
  - intros Hn t h Ht Hc. assert (worker s c = Some (t, h)) by (apply worker_some; auto). congruence.
  - intros H. destruct (worker s c) as [[t h]|] eqn:E; auto. apply worker_some in E; auto. destruct E as [Ht Hc]. exfalso. eapply H; eauto.
Qed.

Lemma worker_ext : forall s s' c, SInv s -> SInv s' ->
  (forall t h, (tget t (s_thr s') = Some h /\ th_client h = Some c) <-> (tget t (s_thr s) = Some h /\ th_client h = Some c)) ->
  worker s' c = worker s c.
Proof.
  intros s s' c I I' H. destruct (worker s c) as [[t h]|] eqn:E.
  - apply worker_some; auto. apply H. now apply worker_some.
  - apply worker_none; auto. intros t h Ht Hc. rewrite worker_none in E by auto. eapply E; [|exact Hc]. apply H. eauto.
Qed.

(* what the trace functions see of the state, per client *)
Definition runhead (s : st) (c : nat) : list nat :=
  match worker s c with Some (_, h) => if th_running h then firstn 1 (th_queue h) else [] | None => [] end.
Definition opencall (s : st) (c : nat) : option (nat * nat) :=
  match worker s c with
  | Some (t, h) => if th_running h then match th_queue h with m :: _ => Some (t, m) | [] => None end else None
  | None => None
  end.

Definition same_view (s s' : st) (c : nat) : Prop :=
  worker s' c = worker s c /\ qof (s_pend s') c = qof (s_pend s) c /\ qof (s_defer s') c = qof (s_defer s) c.

Lemma same_view_obs : forall s s' c, same_view s s' c ->
  queued s' c = queued s c /\ runhead s' c = runhead s c /\ opencall s' c = opencall s c.
Proof. intros s s' c [H1 [H2 H3]]. unfold queued, inflight, runhead, opencall. now rewrite H1, H2, H3. Qed.

(* moving a client's pending queue into an idle thread does not change what is queued for it *)
Definition same_obs (s s' : st) (c : nat) : Prop :=
  queued s' c = queued s c /\ runhead s' c = runhead s c /\ opencall s' c = opencall s c.

Lemma same_obs_refl : forall s c, same_obs s s c.
Proof. intros. repeat split. Qed.

Lemma same_obs_trans : forall s1 s2 s3 c, same_obs s1 s2 c -> same_obs s2 s3 c -> same_obs s1 s3 c.
Proof. intros s1 s2 s3 c [A1 [A2 A3]] [B1 [B2 B3]]. repeat split; congruence. Qed.

Lemma set_bad_obs : forall s b c, same_obs s (set_bad s b) c.
Proof. intros. repeat split. Qed.

Lemma spawn_obs : forall s c, SInv s -> SInv (spawn s) -> same_obs s (spawn s) c.
Proof.
  intros s c I I'. apply same_view_obs. split; [|split; reflexivity].
  apply worker_ext; auto. intros t h. unfold spawn; sst. rewrite tget_tset.
  destruct (Nat.eqb_spec t (s_ctr s)) as [->|Hn]; [|tauto].
  split; [intros [E Hc]; injection E as <-; discriminate|].
  intros [Ht _]. apply (i_fresh_thr _ I) in Ht. lia.
Qed.

Lemma assign_obs : forall s t c mq rest c',
  SInv s -> s_shut s = false -> last_opt (s_avail s) = Some t -> s_pend s = (c, mq) :: rest -> mq <> [] ->
  same_obs s (assign s t c mq) c'.
Proof.
  intros s t c mq rest c' I Hsh Hlast Hp Hmq.
  pose proof (assign_inv s t c mq rest I Hsh Hlast Hp Hmq) as I'. dI I.
  assert (Hin : In t (s_avail s)) by now apply last_opt_In.
  destruct (i_avail_idle0 t Hin) as [h0 [Ht0 [Hidle Hex]]].
  apply thr_idle_spec in Hidle. destruct Hidle as [Hc0 [Hq0 Hr0]].
  assert (Hpc : tget c (s_pend s) = Some mq) by (rewrite Hp; apply tget_hd).
  destruct (i_pend_ok0 c mq Hpc) as [_ Hregc].
  assert (Hnoc : forall t' h', tget t' (s_thr s) = Some h' -> th_client h' <> Some c).
  { intros t' h' Ht' Hcl. rewrite (i_thr_reg0 _ _ _ Ht' Hcl) in Hregc. discriminate. }
  assert (Ethr : s_thr (assign s t c mq) = tset t (mkThr (Some c) mq false false) (s_thr s)).
  { unfold assign, thr_of. rewrite Ht0. sst. now rewrite Hr0, Hex. }
  assert (Epend : s_pend (assign s t c mq) = rest) by (unfold assign; sst; now rewrite Hp).
  assert (Edefer : s_defer (assign s t c mq) = s_defer s) by reflexivity.
  destruct (Nat.eq_dec c' c) as [->|Hn].
  - assert (W0 : worker s c = None) by (apply worker_none; auto).
    assert (W1 : worker (assign s t c mq) c = Some (t, mkThr (Some c) mq false false)).
    { apply worker_some; auto. rewrite Ethr, tget_tset_same. auto. }
    unfold same_obs, queued, inflight, runhead, opencall. rewrite W0, W1, Epend, Edefer. cbn [th_queue th_running].
    assert (Hrc : qof rest c = []).
    { unfold qof. rewrite Hp in i_nd_pend0. apply tget_tl_same in i_nd_pend0. now rewrite i_nd_pend0. }
    rewrite Hrc. replace (qof (s_pend s) c) with mq by (unfold qof; now rewrite Hpc). cbn [app]. repeat split.
  - apply same_view_obs. split; [|split].
    + apply worker_ext; auto. intros t' h'. rewrite Ethr, tget_tset.
      destruct (Nat.eqb_spec t' t) as [->|]; [|tauto].
      split; [intros [E Hc]; injection E as <-; cbn in Hc; congruence|intros [E Hc]; congruence].
    + rewrite Epend. unfold qof. rewrite Hp. now rewrite tget_tl_other.
    + now rewrite Edefer.
Qed.

Lemma dispatch_loop_obs : forall fuel s c', SInv s -> s_shut s = false -> same_obs s (dispatch_loop fuel s) c'.
Proof.
  induction fuel as [|f IH]; intros s c' I Hsh; [apply same_obs_refl|].
  destruct (s_pend s) as [|[c mq] rest] eqn:Hp; [cbn [dispatch_loop]; rewrite Hp; apply same_obs_refl|].
  pose proof (pend_head_ok _ _ _ _ I Hp) as Hmq. destruct mq as [|m0 mq]; [congruence|].
  rewrite (dispatch_loop_unfold f s c m0 mq rest I Hp). cbv zeta.
  assert (I0 : SInv (massert true s)) by (unfold massert; now apply SInv_set_bad).
  assert (O0 : same_obs s (massert true s) c') by apply set_bad_obs.
  set (s0 := massert true s) in *.
  assert (Hsh0 : s_shut s0 = false) by exact Hsh.
  assert (Hp0 : s_pend s0 = (c, m0 :: mq) :: rest) by exact Hp.
  destruct (is_nil (s_avail s0) && (length (s_active s0) <? s_max s0)) eqn:Hsp.
  - apply andb_true_iff in Hsp. destruct Hsp as [Hnil Hlt]. apply is_nil_true in Hnil. apply Nat.ltb_lt in Hlt.
    pose proof (spawn_inv s0 I0 Hsh0 Hnil Hlt) as I1.
    pose proof (spawn_obs s0 c' I0 I1) as O1.
    destruct (spawn_frame s0) as [F1 [F2 [F3 _]]].
    destruct (last_opt (s_avail (spawn s0))) as [t|] eqn:Hl; [|eapply same_obs_trans; [exact O0|exact O1]].
    eapply same_obs_trans; [exact O0|]. eapply same_obs_trans; [exact O1|].
    eapply same_obs_trans; [eapply assign_obs; eauto; congruence|].
    apply IH.
    + eapply assign_inv; eauto; try congruence.
    + destruct (assign_frame (spawn s0) t c (m0 :: mq)) as [G1 _]. congruence.
  - destruct (last_opt (s_avail s0)) as [t|] eqn:Hl; [|exact O0].
    eapply same_obs_trans; [exact O0|].
    eapply same_obs_trans; [eapply assign_obs; eauto; congruence|].
    apply IH.
    + eapply assign_inv; eauto; congruence.
    + destruct (assign_frame s0 t c (m0 :: mq)) as [G1 _]. congruence.
Qed.

Lemma dispatch_obs : forall s c', SInv s -> same_obs s (dispatch s) c'.
Proof.
  intros s c' I. unfold dispatch. destruct (s_shut s) eqn:E; [apply same_obs_refl|now apply dispatch_loop_obs].
Qed.

(* ---------------------------------------------------------------- traces *)

(* the open handler call of client c after scanning a trace; None = two calls overlapped or a return did not match *)
Fixpoint scan (op : option (nat * nat)) (tr : list event) (c : nat) : option (option (nat * nat)) :=
  match tr with
  | [] => Some op
  | EEnter c' m t _ :: tl =>
    if Nat.eqb c c' then match op with None => scan (Some (t, m)) tl c | Some _ => None end else scan op tl c
  | EExit c' m t :: tl =>
    if Nat.eqb c c'
    then match op with
         | Some (t', m') => if Nat.eqb t t' && Nat.eqb m m' then scan None tl c else None
         | None => None
         end
    else scan op tl c
  | _ :: tl => scan op tl c
  end.

Lemma scan_serial : forall tr op c, serial_from op tr c = true <-> scan op tr c <> None.
Proof.
  induction tr as [|e tl IH]; intros op c; cbn; [split; [discriminate|auto]|].
  destruct e; try apply IH.
  - destruct (Nat.eqb c c0); [|apply IH]. destruct op; [split; [discriminate|congruence]|apply IH].
  - destruct (Nat.eqb c c0); [|apply IH]. destruct op as [[t' m']|]; [|split; [discriminate|congruence]].
    destruct (Nat.eqb t t' && Nat.eqb m m'); cbn; [apply IH|split; [discriminate|congruence]].
Qed.

Lemma scan_app : forall a b op c,
  scan op (a ++ b) c = match scan op a c with Some op' => scan op' b c | None => None end.
Proof.
  induction a as [|e tl IH]; intros b op c; cbn; auto.
  destruct e; auto.
  - destruct (Nat.eqb c c0); auto. destruct op; auto.
  - destruct (Nat.eqb c c0); auto. destruct op as [[t' m']|]; auto. destruct (Nat.eqb t t' && Nat.eqb m m'); auto.
Qed.

Definition TInv (s : st) (tr : list event) : Prop := forall c,
  (s_sd s <> SdDone -> exited tr c ++ queued s c = submitted tr c) /\
  entered tr c = exited tr c ++ runhead s c /\
  scan None tr c = Some (opencall s c) /\
  (exists rest, entered tr c ++ rest = submitted tr c).

(* events that are neither accepted submissions nor handler entries/returns *)
Definition silent (ev : list event) : Prop := forall c,
  submitted ev c = [] /\ entered ev c = [] /\ exited ev c = [] /\ forall op, scan op ev c = Some op.

Lemma silent_nil : silent [].
Proof. intros c. repeat split. Qed.

Lemma silent_app : forall a b, silent a -> silent b -> silent (a ++ b).
Proof.
  intros a b Ha Hb c. destruct (Ha c) as [A1 [A2 [A3 A4]]]. destruct (Hb c) as [B1 [B2 [B3 B4]]].
  rewrite submitted_app, entered_app, exited_app, A1, A2, A3, B1, B2, B3. repeat split.
  intros op. now rewrite scan_app, A4, B4.
Qed.

Lemma silent_notifies : forall l, silent (map ENotify l).
Proof. induction l as [|a l IH]; [apply silent_nil|]. intros c. destruct (IH c) as [A1 [A2 [A3 A4]]]. cbn. repeat split; auto. Qed.

Lemma tinv_silent : forall s tr s' ev,
  TInv s tr -> silent ev ->
  (s_sd s' <> SdDone -> s_sd s <> SdDone /\ forall c, queued s' c = queued s c) ->
  (forall c, runhead s' c = runhead s c /\ opencall s' c = opencall s c) ->
  TInv s' (tr ++ ev).
Proof.
  intros s tr s' ev T Hs Hq Hr c. destruct (T c) as [T1 [T2 [T3 T4]]]. destruct (Hs c) as [S1 [S2 [S3 S4]]].
  destruct (Hr c) as [R1 R2].
  rewrite submitted_app, entered_app, exited_app, scan_app, S1, S2, S3, T3, S4, !app_nil_r, R1, R2. repeat split; auto.
  intros Hsd. destruct (Hq Hsd) as [Hsd0 Hq0]. rewrite Hq0. auto.
Qed.

Lemma same_obs_tinv : forall s tr s' ev,
  TInv s tr -> silent ev -> (s_sd s' <> SdDone -> s_sd s <> SdDone) -> (forall c, same_obs s s' c) -> TInv s' (tr ++ ev).
Proof.
  intros s tr s' ev T Hs Hsd Ho. eapply tinv_silent; eauto.
  - intros H. split; auto. intros c. now destruct (Ho c).
  - intros c. destruct (Ho c) as [_ [H1 H2]]. auto.
Qed.

(* states with the same thread table and the same queues look the same *)
Lemma same_tables_obs : forall s s' c,
  s_thr s' = s_thr s -> qof (s_pend s') c = qof (s_pend s) c -> qof (s_defer s') c = qof (s_defer s) c -> same_obs s s' c.
Proof.
  intros s s' c E1 E2 E3. apply same_view_obs. split; [|split; auto]. unfold worker. now rewrite E1.
Qed.

(* ---------------------------------------------------------------- thread-table updates seen through [worker] *)

Lemma upd_thr_worker_keep : forall s t h h' c,
  SInv s -> SInv (upd_thr s t h') -> tget t (s_thr s) = Some h -> th_client h = Some c -> th_client h' = Some c ->
  worker s c = Some (t, h) /\ worker (upd_thr s t h') c = Some (t, h') /\
  forall c', c' <> c -> worker (upd_thr s t h') c' = worker s c'.
Proof.
  intros s t h h' c I I' Ht Hc Hc'. split; [apply worker_some; auto|]. split.
  - apply worker_some; auto. unfold upd_thr; sst. now rewrite tget_tset_same.
  - intros c' Hn. apply worker_ext; auto. intros t' x. unfold upd_thr; sst. rewrite tget_tset.
    destruct (Nat.eqb_spec t' t) as [->|]; [|tauto].
    split; intros [E Hx]; [injection E as <-|]; congruence.
Qed.

Lemma worker_drop : forall s s' t h h' c,
  SInv s -> SInv s' -> s_thr s' = tset t h' (s_thr s) ->
  tget t (s_thr s) = Some h -> th_client h = Some c -> th_client h' = None ->
  worker s c = Some (t, h) /\ worker s' c = None /\
  forall c', c' <> c -> worker s' c' = worker s c'.
Proof.
  intros s s' t h h' c I I' Ethr Ht Hc Hc'. split; [apply worker_some; auto|]. split.
  - apply worker_none; auto. intros t' x. rewrite Ethr, tget_tset.
    destruct (Nat.eqb_spec t' t) as [->|Hn]; [intros E; injection E as <-; congruence|].
    intros Hg Hx. apply Hn. eapply (i_thr_uniq _ I); eauto.
  - intros c' Hn. apply worker_ext; auto. intros t' x. rewrite Ethr, tget_tset.
    destruct (Nat.eqb_spec t' t) as [->|]; [|tauto].
    split; intros [E Hx]; [injection E as <-|]; congruence.
Qed.

Lemma upd_thr_worker_idle : forall s t h' c',
  SInv s -> SInv (upd_thr s t h') -> thr_idle (thr_of s t) = true -> th_client h' = None ->
  worker (upd_thr s t h') c' = worker s c'.
Proof.
  intros s t h' c' I I' Hid Hc'. apply worker_ext; auto. intros t' x. unfold upd_thr; sst. rewrite tget_tset.
  destruct (Nat.eqb_spec t' t) as [->|]; [|tauto].
  apply thr_idle_spec in Hid. destruct Hid as [Hid _]. unfold thr_of in Hid.
  split; intros [E Hx]; [injection E as <-; congruence|]. rewrite E in Hid. congruence.
Qed.

(* ---------------------------------------------------------------- the labels *)

Lemma tinv_submit : forall s tr s' c m,
  TInv s tr -> (s_sd s' <> SdDone -> s_sd s <> SdDone) ->
  queued s' c = queued s c ++ [m] -> (forall c', c' <> c -> queued s' c' = queued s c') ->
  (forall c', runhead s' c' = runhead s c' /\ opencall s' c' = opencall s c') ->
  TInv s' (tr ++ [ESubmit c m SendOk]).
Proof.
  intros s tr s' c m T Hsd Hq Hoth Hr c'. destruct (T c') as [T1 [T2 [T3 [rest T4]]]]. destruct (Hr c') as [R1 R2].
  rewrite submitted_app, entered_app, exited_app, scan_app, T3, R1, R2. cbn [submitted entered exited scan is_ok].
  rewrite !app_nil_r. destruct (Nat.eqb_spec c' c) as [->|Hn]; cbn [andb].
  - repeat split; auto.
    + intros H. rewrite Hq, app_assoc, T1; auto.
    + exists (rest ++ [m]). now rewrite app_assoc, T4.
  - rewrite app_nil_r. repeat split; auto.
    + intros H. rewrite Hoth; auto.
    + eauto.
Qed.

Lemma defer_empty_unhandled : forall s c, SInv s -> tget c (s_reg s) = Some false -> qof (s_defer s) c = [].
Proof.
  intros s c I Hr. unfold qof. destruct (tget c (s_defer s)) as [q|] eqn:E; auto.
  destruct q; auto. assert (tget c (s_reg s) = Some true) by (eapply (i_defer_ok _ I); eauto; discriminate). congruence.
Qed.

Lemma send_tinv : forall s tr c m s' r,
  Inv s -> TInv s tr -> pool_send s c m = (s', r) -> TInv s' (tr ++ [ESubmit c m r]).
Proof.
  intros s tr c m s' r [I [U W]] T Hs. unfold pool_send in Hs.
  destruct (tget c (s_reg s)) as [[|]|] eqn:Hr.
  - injection Hs as <- <-. apply (tinv_submit s); auto.
    + unfold queued, inflight, worker; sst. unfold tappend. rewrite qof_tset, Nat.eqb_refl. now rewrite !app_assoc.
    + intros c' Hn. unfold queued, inflight, worker; sst. unfold tappend. rewrite qof_tset.
      destruct (Nat.eqb_spec c' c); [congruence|auto].
  - set (s1 := set_pend s (tappend c m (s_pend s))) in *.
    assert (I1 : SInv s1) by now apply send_pend_inv.
    assert (Hq1 : queued s1 c = queued s c ++ [m]).
    { unfold queued, inflight, worker, s1; sst. unfold tappend. rewrite qof_tset, Nat.eqb_refl.
      rewrite (defer_empty_unhandled s c I Hr). now rewrite !app_nil_r, app_assoc. }
    assert (Hq2 : forall c', c' <> c -> queued s1 c' = queued s c').
    { intros c' Hn. unfold queued, inflight, worker, s1; sst. unfold tappend. rewrite qof_tset.
      destruct (Nat.eqb_spec c' c); [congruence|auto]. }
    destruct (length (qof (s_pend s1) c) =? 1); injection Hs as <- <-.
    + destruct (dispatch_frame s1) as [_ [_ [_ [_ [_ [_ F7]]]]]].
      apply (tinv_submit s); auto.
      * rewrite F7. auto.
      * destruct (dispatch_obs s1 c I1) as [O1 _]. congruence.
      * intros c' Hn. destruct (dispatch_obs s1 c' I1) as [O1 _]. rewrite O1. auto.
      * intros c'. destruct (dispatch_obs s1 c' I1) as [_ [O2 O3]]. rewrite O2, O3. split; reflexivity.
    + apply (tinv_submit s); auto.
  - injection Hs as <- <-. apply (same_obs_tinv s); auto.
    + intros c'. cbn. rewrite andb_false_r. repeat split.
    + intros c'. apply same_obs_refl.
Qed.

Lemma busy_not_done : forall s t h c, SInv s -> tget t (s_thr s) = Some h -> th_client h = Some c -> s_sd s <> SdDone.
Proof.
  intros s t h c I Ht Hc Hsd. dI I. rewrite Hsd in *. destruct i_sd_tabs0 as [Hav Hac]. rewrite Hav, Hac in *.
  destruct (i_place0 t h Ht) as [H|[[]|[[]|[]]]]. destruct (i_thr_wf0 t h Ht) as [_ [_ W3]]. rewrite W3 in Hc; [discriminate|auto].
Qed.

Lemma enter_tinv : forall s tr t h c m q,
  SInv s -> TInv s tr -> tget t (s_thr s) = Some h -> th_client h = Some c -> th_queue h = m :: q -> th_running h = false ->
  let s' := upd_thr s t (mkThr (Some c) (m :: q) true (th_exited h)) in
  SInv s' -> TInv s' (tr ++ [EEnter c m t (length q)]).
Proof.
  intros s tr t h c m q I T Ht Hc Hq Hr s' I' c'.
  destruct (upd_thr_worker_keep s t h (mkThr (Some c) (m :: q) true (th_exited h)) c I I' Ht Hc eq_refl) as [W0 [W1 Wo]].
  fold s' in W1, Wo.
  destruct (T c') as [T1 [T2 [T3 [rest T4]]]].
  rewrite submitted_app, entered_app, exited_app, scan_app, T3. cbn [submitted entered exited scan]. rewrite !app_nil_r.
  destruct (Nat.eqb_spec c' c) as [->|Hn].
  - unfold queued, inflight, runhead, opencall in *. rewrite W0 in *. rewrite W1. cbn [th_queue th_running firstn].
    rewrite Hq, Hr in *. rewrite app_nil_r in T2.
    assert (Hsd : s_sd s <> SdDone) by (eapply busy_not_done; eauto).
    repeat split; auto.
    + congruence.
    + exists (q ++ qof (s_pend s) c ++ qof (s_defer s) c). rewrite T2, <- T1 by auto. now rewrite <- app_assoc.
  - rewrite app_nil_r. unfold queued, inflight, runhead, opencall in *. rewrite (Wo c' Hn). repeat split; eauto.
Qed.

Lemma exit_tinv : forall s tr t h c m q,
  SInv s -> TInv s tr -> tget t (s_thr s) = Some h -> th_client h = Some c -> th_queue h = m :: q -> th_running h = true ->
  let s' := upd_thr s t (mkThr (Some c) q false (th_exited h)) in
  SInv s' -> TInv s' (tr ++ [EExit c m t]).
Proof.
  intros s tr t h c m q I T Ht Hc Hq Hr s' I' c'.
  destruct (upd_thr_worker_keep s t h (mkThr (Some c) q false (th_exited h)) c I I' Ht Hc eq_refl) as [W0 [W1 Wo]].
  fold s' in W1, Wo.
  destruct (T c') as [T1 [T2 [T3 [rest T4]]]].
  rewrite submitted_app, entered_app, exited_app, scan_app, T3. cbn [submitted entered exited scan]. rewrite !app_nil_r.
  destruct (Nat.eqb_spec c' c) as [->|Hn].
  - unfold queued, inflight, runhead, opencall in *. rewrite W0 in *. rewrite W1. cbn [th_queue th_running firstn].
    rewrite Hq, Hr in *. cbn [firstn] in T2. rewrite !Nat.eqb_refl. cbn [andb]. rewrite app_nil_r.
    repeat split; eauto.
    intros Hsd. rewrite <- T1 by auto. now rewrite <- app_assoc.
  - rewrite app_nil_r. unfold queued, inflight, runhead, opencall in *. rewrite (Wo c' Hn). repeat split; eauto.
Qed.

Lemma fin_core_thr : forall s t c, s_thr (fin_core s t c) = s_thr s.
Proof.
  intros s t c. unfold fin_core.
  destruct (tget c (s_reg s)) as [b|]; sst.
  - destruct (tget c (s_defer s)) as [[|d0 dr]|]; sst; destruct (lmem t (s_active s)); reflexivity.
  - destruct (lmem t (s_active s)); reflexivity.
Qed.

Lemma fin_notify_same : forall s c s' ev, fin_notify s c = (s', ev) ->
  s_thr s' = s_thr s /\ s_pend s' = s_pend s /\ s_defer s' = s_defer s /\ s_sd s' = s_sd s /\ silent ev.
Proof.
  intros s c s' ev H. unfold fin_notify in H.
  destruct (outstanding s c); [injection H as <- <-; repeat split; apply silent_nil|].
  destruct (lmem c (s_wait s)); injection H as <- <-; [|repeat split; apply silent_nil].
  destruct (notify_spec s c) as [_ [_ [_ [_ [_ [_ [B7 [B8 [_ [B10 [_ [B12 _]]]]]]]]]]]]. sst.
  repeat split; auto.
Qed.

Lemma finish_obs : forall s t h c s' ev,
  Inv s -> tget t (s_thr s) = Some h -> th_client h = Some c -> th_queue h = [] -> th_running h = false ->
  finished (upd_thr s t (mkThr None [] false (th_exited h))) t c = (s', ev) ->
  (forall c', same_obs s s' c') /\ silent ev /\ s_sd s' = s_sd s.
Proof.
  intros s t h c s' ev [I [U W]] Ht Hc Hq Hr Hf. unfold finished in Hf.
  change (s_shut (upd_thr s t (mkThr None [] false (th_exited h)))) with (s_shut s) in Hf.
  set (sA := upd_thr s t (mkThr None [] false (th_exited h))) in *.
  destruct (s_shut s) eqn:Hsh.
  - injection Hf as <- <-. split; [|split; [apply silent_nil|reflexivity]].
    assert (I' : SInv sA) by (apply upd_thr_drop_inv; auto; congruence).
    intros c'.
    destruct (worker_drop s sA t h (mkThr None [] false (th_exited h)) c I I' eq_refl Ht Hc eq_refl) as [W0 [W1 Wo]].
    destruct (Nat.eq_dec c' c) as [->|Hn].
    + unfold same_obs, queued, inflight, runhead, opencall. rewrite W0, W1, Hq, Hr. repeat split.
    + apply same_view_obs. split; [auto|split; reflexivity].
  - pose proof (fin_core_inv s t h c I Hsh Ht Hc Hq Hr) as I2.
    destruct (fin_core_other s t h c I Hsh Ht Hc) as [Ew [Eu [Es [Esd [Hoth [Hh2 [Hp2 Hd2]]]]]]].
    destruct (fin_facts s t h c I Hsh Ht Hc) as [Hregc [Hpn [Hm Hex]]].
    fold sA in I2, Ew, Eu, Es, Esd, Hoth, Hh2, Hp2, Hd2.
    set (s2 := fin_core sA t c) in *.
    assert (Ethr : s_thr s2 = tset t (mkThr None [] false (th_exited h)) (s_thr s)) by (unfold s2; now rewrite fin_core_thr).
    destruct (worker_drop s s2 t h (mkThr None [] false (th_exited h)) c I I2 Ethr Ht Hc eq_refl) as [W0 [W1 Wo]].
    assert (O2 : forall c', same_obs s s2 c').
    { intros c'. destruct (Nat.eq_dec c' c) as [->|Hn].
      - unfold same_obs, queued, inflight, runhead, opencall. rewrite W0, W1, Hq, Hr, Hp2, Hd2.
        unfold qof at 2. rewrite Hpn. cbn [app]. rewrite app_nil_r. repeat split.
      - apply same_view_obs. destruct (Hoth c' Hn) as [_ [H2 H3]]. split; [auto|]. unfold qof. now rewrite H2, H3. }
    destruct (dispatch_frame s2) as [_ [_ [_ [_ [_ [_ F7]]]]]].
    destruct (fin_notify_same _ _ _ _ Hf) as [N1 [N2 [N3 [N4 N5]]]].
    split; [|split; [auto|congruence]].
    intros c'. eapply same_obs_trans; [apply O2|]. eapply same_obs_trans; [apply dispatch_obs; auto|].
    apply same_tables_obs; congruence.
Qed.

Lemma init_tinv : forall n, TInv (init n) [].
Proof. intros n c. cbn. repeat split; try discriminate. now exists []. Qed.

Lemma silent_single : forall e,
  match e with ESubmit _ _ SendOk => False | EEnter _ _ _ _ => False | EExit _ _ _ => False | _ => True end -> silent [e].
Proof.
  intros e H c. destruct e; try contradiction; cbn; repeat split.
  destruct r; try contradiction; cbn; rewrite ?andb_false_r; reflexivity.
Qed.

Theorem step_tinv : forall s tr l s' ev, Inv s -> TInv s tr -> step s l = Some (s', ev) -> TInv s' (tr ++ ev).
Proof.
  intros s tr l s' ev HI T Hst. pose proof (step_inv s l s' ev HI Hst) as HI'.
  destruct HI as [I [U W]]. destruct HI' as [I' [U' W']].
  destruct l as [c|c m|t|t|t|c|c|c| | | | |c m]; cbn [step] in Hst.
  - (* LRegister *)
    destruct (in_unreg s c); [discriminate|]. destruct (lmem c (s_cl s)); injection Hst as <- <-;
      apply (same_obs_tinv s); auto using silent_nil; intros c'; apply same_tables_obs; reflexivity.
  - (* LSubmit *)
    destruct (in_unreg s c); [discriminate|]. destruct (lmem c (s_cl s)).
    + destruct (pool_send s c m) as [s1 r] eqn:Hs. injection Hst as <- <-. eapply send_tinv; eauto. unfold Inv; auto.
    + injection Hst as <- <-. apply (same_obs_tinv s); auto.
      * apply silent_single; constructor.
      * intros c'. apply same_obs_refl.
  - (* LEnter *)
    destruct (tget t (s_thr s)) as [h|] eqn:Ht; [|discriminate].
    destruct (th_client h) as [c|] eqn:Hc; [|discriminate]. destruct (th_queue h) as [|m q] eqn:Hq; [discriminate|].
    destruct (th_running h) eqn:Hr; [discriminate|]. injection Hst as <- <-. eapply enter_tinv; eauto.
  - (* LExit *)
    destruct (tget t (s_thr s)) as [h|] eqn:Ht; [|discriminate].
    destruct (th_client h) as [c|] eqn:Hc; [|discriminate]. destruct (th_queue h) as [|m q] eqn:Hq; [discriminate|].
    destruct (th_running h) eqn:Hr; [|discriminate]. injection Hst as <- <-. eapply exit_tinv; eauto.
  - (* LFinish *)
    destruct (tget t (s_thr s)) as [h|] eqn:Ht; [|discriminate].
    destruct (th_client h) as [c|] eqn:Hc; [|discriminate]. destruct (th_queue h) as [|m q] eqn:Hq; [|discriminate].
    destruct (th_running h) eqn:Hr; [discriminate|].
    destruct (finished (upd_thr s t (mkThr None [] false (th_exited h))) t c) as [s1 e1] eqn:Hfin.
    injection Hst as <- <-.
    destruct (finish_obs s t h c s1 e1 (conj I (conj U W)) Ht Hc Hq Hr Hfin) as [Ho [Hs Hsd]].
    apply (same_obs_tinv s); auto. congruence.
  - (* LUnregBegin *)
    destruct (in_unreg s c); [discriminate|]. destruct (lmem c (s_cl s) || sd_done (s_sd s)); [|discriminate].
    unfold unreg_begin in Hst. destruct (outstanding s c); injection Hst as <- <-;
      (apply (same_obs_tinv s); auto; [apply silent_single; constructor|intros c'; apply same_tables_obs; reflexivity]).
  - (* LUnregWake *)
    destruct (tget c (s_unreg s)) as [[[|]|]|]; try discriminate. injection Hst as <- <-.
    apply (same_obs_tinv s); auto using silent_nil. intros c'. apply same_tables_obs; reflexivity.
  - (* LUnregEnd *)
    destruct (tget c (s_unreg s)) as [[|]|] eqn:Hu; try discriminate. injection Hst as <- <-.
    apply (same_obs_tinv s); auto; [apply silent_single; constructor|].
    assert (Ho : outstanding s c = false) by (apply (u_done _ U c UFinal); auto; discriminate).
    destruct (not_outstanding s c I Ho) as [_ [Hpn Hdn]].
    intros c'. apply same_tables_obs; auto; unfold unreg_end; sst; rewrite qof_tdel;
      destruct (Nat.eqb_spec c' c) as [->|]; auto. unfold qof. now rewrite Hpn.
  - (* LShutBegin *)
    destruct (s_sd s) eqn:Hsd; try discriminate. injection Hst as <- <-.
    apply (same_obs_tinv s); auto using silent_nil.
    + intros _. rewrite Hsd. discriminate.
    + intros c'. apply same_tables_obs; reflexivity.
  - (* LShutSwap *)
    destruct (s_sd s) as [| |[|t r] nz|[|t r] [|]|] eqn:Hsd; try discriminate; injection Hst as <- <-;
      (apply (same_obs_tinv s); auto using silent_nil; [intros _; rewrite Hsd; discriminate|intros c'; apply same_tables_obs; reflexivity]).
  - (* LShutJoin *)
    destruct (s_sd s) as [| |[|t r] nz|[|t r] nz|] eqn:Hsd; try discriminate; cbv zeta in Hst;
      (destruct (thr_idle (thr_of s t)) eqn:Hid; [|discriminate]); injection Hst as E1 E2; subst s' ev;
      (apply (same_obs_tinv s); auto using silent_nil; [intros _; rewrite Hsd; discriminate|]);
      intros c'; apply same_view_obs; (split; [|split; reflexivity]).
    + apply (worker_ext s); auto. intros t' x. sst. rewrite tget_tset.
      destruct (Nat.eqb_spec t' t) as [->|]; [|tauto].
      apply thr_idle_spec in Hid. destruct Hid as [Hid _]. unfold thr_of in Hid.
      split; intros [E Hx]; [injection E as <-; discriminate|]. rewrite E in Hid. congruence.
    + apply (worker_ext s); auto. intros t' x. sst. rewrite tget_tset.
      destruct (Nat.eqb_spec t' t) as [->|]; [|tauto].
      apply thr_idle_spec in Hid. destruct Hid as [Hid _]. unfold thr_of in Hid.
      split; intros [E Hx]; [injection E as <-; discriminate|]. rewrite E in Hid. congruence.
  - (* LShutEnd *)
    destruct (s_sd s) as [| | |[|t r] [|]|] eqn:Hsd; try discriminate.
    destruct (shut_end s) as [s1 e1] eqn:He. injection Hst as <- <-.
    destruct (shut_end_fields s) as [_ [_ [_ [_ [_ [_ [_ [_ [_ [A10 [A11 _]]]]]]]]]]]. rewrite He in A10, A11. cbn [fst] in *.
    assert (Hev : silent e1).
    { unfold shut_end in He. injection He as _ <-. apply silent_app; [apply silent_notifies|]. apply silent_single; constructor. }
    eapply tinv_silent; eauto.
    + intros H. congruence.
    + intros c'. unfold runhead, opencall, worker. now rewrite A10.
  - (* LSubmitStale *)
    destruct (in_unreg s c); [discriminate|]. destruct (lmem c (s_cl s)); [discriminate|]. destruct (s_sd s); try discriminate.
    destruct (pool_send s c m) as [s1 r] eqn:Hs. injection Hst as <- <-. eapply send_tinv; eauto. unfold Inv; auto.
Qed.

Theorem reach_tinv : forall n s tr, reach n s tr -> TInv s tr.
Proof.
  intros n s tr H. induction H; [apply init_tinv|]. eapply step_tinv; eauto. eapply reach_inv; eauto.
Qed.
