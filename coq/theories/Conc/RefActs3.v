(* C10 -- preservation of [inv1] by each kind of atomic action (part 3: the release of an object:
   member slots one by one, then destruction or return to the pool; slab deletion). *)
From Coq Require Import List Arith Bool Lia.
From Muscle Require Import Conc.Pool Conc.PoolProofs Conc.RefCnt Conc.RefInv Conc.RefExcl Conc.RefStep Conc.RefActs Conc.RefActs2.
Import ListNotations.
Local Open Scope nat_scope.

Ltac eqcase z o :=
  let Hne := fresh "Hne" in
  destruct (Nat.eq_dec z o) as [->|Hne];
  [ rewrite ?Nat.eqb_refl in *
  | let H1 := fresh "Hn1" in let H2 := fresh "Hn2" in
    assert (H1 : (z =? o) = false) by (apply Nat.eqb_neq; auto);
    assert (H2 : (o =? z) = false) by (apply Nat.eqb_neq; auto);
    rewrite ?H1, ?H2 in * ].

Section Acts3.
Variables N K : nat.

Lemma rel_index_lt : forall ob n, n < length (o_mem ob) -> rel_index ob n < length (o_mem ob).
Proof. intros ob n H. unfold rel_index. destruct (o_pooled ob); lia. Qed.

Lemma rel_index_inj : forall ob n m, n < length (o_mem ob) -> m < length (o_mem ob) -> rel_index ob n = rel_index ob m -> n = m.
Proof. intros ob n m Hn Hm. unfold rel_index. destruct (o_pooled ob); lia. Qed.

Lemma rel_index_surj : forall ob j, j < length (o_mem ob) -> exists n, n < length (o_mem ob) /\ rel_index ob n = j.
Proof.
  intros ob j Hj. unfold rel_index. destruct (o_pooled ob).
  - exists j; auto.
  - exists (length (o_mem ob) - 1 - j). lia.
Qed.

Lemma processed_all_none : forall ob, processed_none ob (length (o_mem ob)) -> all_none (o_mem ob) = true.
Proof.
  intros ob H. unfold all_none. apply forallb_forall. intros x Hx.
  apply In_nth with (d := None) in Hx. destruct Hx as (j & Hj & E).
  destruct (rel_index_surj ob j Hj) as (n & Hn & En). specialize (H n Hn). rewrite En, E in H. subst x. reflexivity.
Qed.

Lemma act_rel_member : forall s t stk o n rest prog, ctx K s t stk (ARel o n) rest prog ->
  n < length (o_mem (hobj s o)) ->
  let ob := hobj s o in let j := rel_index ob n in
  inv1 K (with_thr s t (mkThr stk (dec_of (nth j (o_mem ob) None) ++ ARel o (S n) :: rest) prog)
            (upd (s_heap s) o (set_mem ob (upd (o_mem ob) j None))) (s_pool s)).
Proof.
  intros s t stk o n rest prog C Hn ob j.
  pose proof (ctx_shape K _ _ _ _ _ _ C) as Hsh.
  pose proof (ctx_act K _ _ _ _ _ _ (ARel o n) C (or_introl eq_refl)) as A. cbn in A. destruct A as (Arel & An & Aproc).
  destruct (frame_head (ARel o n) rest Hsh eq_refl) as (Hnodebt & Hshape).
  assert (Hj : j < length (o_mem ob)) by (apply rel_index_lt; auto).
  apply (write_core K s t stk (ARel o n) rest prog (RMem o j) None); auto.
  - cbn. split; auto. right; eauto.
  - intros z. rewrite sumf_app, dec_of_unit. unfold j, ob, hobj. cbn. lia.
  - intros z. rewrite sumf_app, dec_of_debt. pose proof (Hnodebt z) as H. cbn in H |- *. lia.
  - intros z. rewrite sumf_app, dec_of_rel. cbn. lia.
  - change (dec_of (nth j (o_mem ob) None) ++ ARel o (S n) :: rest) with (dec_of (nth j (o_mem ob) None) ++ [ARel o (S n)] ++ rest).
    rewrite app_assoc. apply Hshape. rewrite forallb_app, dec_of_frames. reflexivity.
  - intros b Hin. apply in_app_or in Hin. destruct Hin as [Hin|[<-|Hin]]; auto.
    + right. eapply dec_of_ok; eauto.
    + right. cbn [act_ok]. rewrite hobj_wt.
      assert (Ho : o < length (s_heap s)) by (apply releasing_lt; auto).
      rewrite get_upd_same by auto. cbn [o_mem set_mem o_st]. split; [exact Arel|]. split; [rewrite upd_length; unfold ob in *; lia|].
      intros m Hm. unfold rel_index. cbn [o_pooled set_mem o_mem]. rewrite upd_length.
      change (if o_pooled ob then m else length (o_mem ob) - 1 - m) with (rel_index ob m).
      destruct (Nat.eq_dec (rel_index ob m) j) as [Ej|Ej].
      * rewrite Ej. apply nth_upd_same; auto.
      * rewrite nth_upd_other by auto. apply Aproc.
        destruct (Nat.eq_dec m n) as [->|]; [exfalso; apply Ej; reflexivity|lia].
Qed.

(* ------------------------------------------------------------------ state changes of non-live objects *)

Lemma sumf_pointwise : forall A (f : A -> nat) (l l' : list A) d, length l = length l' ->
  (forall i, i < length l -> f (nth i l d) = f (nth i l' d)) -> sumf f l = sumf f l'.
Proof.
  induction l as [|h t IH]; intros [|h' t'] d Hl H; cbn in *; try lia.
  rewrite (H 0) by lia. cbn. f_equal. apply (IH t' d); [lia|]. intros i Hi. apply (H (S i)). lia.
Qed.

(* thread t, whose next action a is a release frame, changes the life-cycle state (and payload) of
   objects that are not live before and not live after; reference slots and counts are untouched *)
Lemma state_core : forall s t stk a rest prog (ch : nat -> bool) h' pre p',
  ctx K s t stk a rest prog ->
  is_frame a = true -> (forall z, act_unit z a = 0) ->
  length h' = length (s_heap s) ->
  (forall z, ch z = false -> get_obj h' z = get_obj (s_heap s) z) ->
  (forall z, ch z = true ->
     let ob := get_obj (s_heap s) z in let ob' := get_obj h' z in
     o_mem ob' = o_mem ob /\ o_cnt ob' = o_cnt ob /\ o_pooled ob' = o_pooled ob /\
     o_births ob' = o_births ob /\ o_deaths ob' = o_deaths ob /\
     is_live ob = false /\ (o_st ob' = Pooled \/ o_st ob' = Dead) /\ all_none (o_mem ob) = true /\
     (is_releasing ob = true -> exists n, a = ARel z n)) ->
  forallb is_frame pre = true -> (forall z, sumf (act_unit z) pre = 0) ->
  (forall z, sumf (rel_count z) pre = 0) ->
  (forall z, rel_count z a = if ch z && is_releasing (get_obj (s_heap s) z) then 1 else 0) ->
  inv1 K (with_thr s t (mkThr stk (pre ++ rest) prog) h' p').
Proof.
  intros s t stk a rest prog ch h' pre p' C Hfa Hua Hlen Hsame Hch Hpre Hpu Hpr Hra.
  pose proof (ctx_shape K _ _ _ _ _ _ C) as Hsh.
  pose proof C as [I Ht E].
  destruct (frame_head a rest Hsh Hfa) as (Hnodebt & Hshape).
  assert (Hpd : forall z, sumf (act_debt z) pre = 0) by (intros; apply frames_no_debt; auto).
  assert (Hfld : forall z, o_mem (get_obj h' z) = o_mem (get_obj (s_heap s) z) /\ o_cnt (get_obj h' z) = o_cnt (get_obj (s_heap s) z) /\
                           o_pooled (get_obj h' z) = o_pooled (get_obj (s_heap s) z) /\
                           o_births (get_obj h' z) = o_births (get_obj (s_heap s) z) /\ o_deaths (get_obj h' z) = o_deaths (get_obj (s_heap s) z) /\
                           is_live (get_obj h' z) = is_live (get_obj (s_heap s) z)).
  { intros z. destruct (ch z) eqn:Ez.
    - destruct (Hch z Ez) as (A1 & A2 & A3 & A4 & A5 & A6 & A7 & _). repeat split; auto.
      rewrite A6. unfold is_live. destruct A7 as [-> | ->]; reflexivity.
    - rewrite (Hsame z Ez). auto 10. }
  assert (Hheap : forall z, sumf (obj_units z) h' = sumf (obj_units z) (s_heap s)).
  { intros z. apply (sumf_pointwise _ _ h' (s_heap s) dobj); auto. intros i Hi.
    change (nth i h' dobj) with (get_obj h' i). change (nth i (s_heap s) dobj) with (get_obj (s_heap s) i).
    unfold obj_units. destruct (Hfld i) as (-> & _). reflexivity. }
  assert (Hunits : forall z, units z (with_thr s t (mkThr stk (pre ++ rest) prog) h' p') = units z s).
  { intros z. pose proof (wt_units s t (mkThr stk (pre ++ rest) prog) h' p' z Ht) as HU.
    rewrite E in HU. rewrite tu_cons, tu_mk, sumf_app, Hpu, Hua, Hheap in HU. lia. }
  assert (Hdebts : forall z, debts z (with_thr s t (mkThr stk (pre ++ rest) prog) h' p') = debts z s).
  { intros z. pose proof (wt_debts s t (mkThr stk (pre ++ rest) prog) h' p' z Ht) as HD.
    rewrite E in HD. rewrite td_cons, td_mk, sumf_app, Hpd in HD. pose proof (Hnodebt z) as Hn. cbn in Hn. lia. }
  apply assemble; [exact I|exact Ht|..].
  - intros z. rewrite Hunits, Hdebts, hobj_wt. destruct (Hfld z) as (_ & -> & _). apply (i_count K s I).
  - intros z Hz. rewrite Hunits. apply (i_nolive K s I). rewrite hobj_wt in Hz. destruct (Hfld z) as (_ & _ & _ & _ & _ & Hl).
    unfold hobj. congruence.
  - intros z Hz. rewrite Hlen in Hz. rewrite hobj_wt. destruct (i_mem K s I z Hz) as (M1 & M2). unfold hobj in *.
    destruct (Hfld z) as (Em & _). rewrite Em. split; auto.
    destruct (ch z) eqn:Ez; [|rewrite (Hsame z Ez) in *; auto].
    destruct (Hch z Ez) as (_ & _ & _ & _ & _ & _ & A7 & A8 & _). unfold quiet. rewrite Em. destruct A7 as [-> | ->]; auto.
  - cbn [t_todo]. apply Hshape; auto.
  - (* own pending actions *)
    cbn [t_todo t_stk]. intros b Hin. apply in_app_or in Hin. destruct Hin as [Hin|Hin].
    + rewrite forallb_forall in Hpre. specialize (Hpre b Hin). destruct b; cbn in Hpre; try discriminate; try exact Logic.I.
      exfalso. pose proof (Hpr o) as Hx. pose proof (in_todo_rel o _ _ Hin) as Hy. cbn in Hy. unfold eq1 in Hy. rewrite Nat.eqb_refl in Hy. lia.
    + pose proof (ctx_act K _ _ _ _ _ _ b C (or_intror Hin)) as A.
      eapply act_ok_transfer; [|exact A].
      destruct (rest_kinds a rest Hsh b Hin) as [Hf|[(l' & v' & ->)|(l' & ->)]].
      * destruct b; cbn in Hf; try discriminate; cbn [same_for]; auto. rewrite !hobj_wt.
        destruct (ch o) eqn:Eo; [|rewrite (Hsame o Eo); auto]. exfalso.
        cbn in A. destruct A as (A & _). destruct (Hch o Eo) as (_ & _ & _ & _ & _ & _ & _ & _ & A9).
        destruct (A9 A) as (m & ->). eapply (two_rels K s t o m n rest); eauto. rewrite E; reflexivity.
      * cbn [same_for]. destruct l' as [i|y j]; cbn [loc_same]; auto. rewrite !hobj_wt. destruct (Hfld y) as (-> & -> & _). auto.
      * cbn [same_for]. destruct l' as [i|y j]; cbn [loc_same]; auto. rewrite !hobj_wt. destruct (Hfld y) as (-> & -> & _). auto.
  - intros z. destruct (ch z) eqn:Ez.
    + left. right; right; right; right. destruct (Hch z Ez) as (_ & _ & _ & _ & _ & A6 & _ & _ & A9). split; auto.
      intros Hr. destruct (A9 Hr) as (n & ->). exists n. rewrite E. left; auto.
    + right. rewrite hobj_wt, (Hsame z Ez). auto.
  - intros y. right. rewrite hobj_wt. destruct (Hfld y) as (-> & _). reflexivity.
  - intros y Hy. rewrite hobj_wt. destruct (Hfld y) as (-> & _). reflexivity.
  - intros z. right. rewrite E, td_cons, td_mk, sumf_app, Hpd. pose proof (Hnodebt z) as Hn. cbn in Hn. lia.
  - intros z. pose proof (wt_rels s t (mkThr stk (pre ++ rest) prog) h' p' z Ht) as HR. rewrite E in HR. cbn [t_todo] in HR.
    rewrite rc_cons, sumf_app, Hpr, Hra in HR. rewrite hobj_wt. pose proof (i_rels K s I z) as HI. unfold hobj in HI.
    destruct (ch z) eqn:Ez.
    + destruct (Hch z Ez) as (_ & _ & _ & _ & _ & _ & A7 & _). cbn [andb] in HR.
      assert (Hnr : is_releasing (get_obj h' z) = false) by (unfold is_releasing; destruct A7 as [-> | ->]; reflexivity).
      rewrite Hnr. destruct (is_releasing (get_obj (s_heap s) z)); lia.
    + rewrite (Hsame z Ez). cbn [andb] in HR. lia.
  - intros z Hz. rewrite Hlen in Hz. rewrite hobj_wt. pose proof (i_ghost K s I z Hz) as HG. unfold hobj in HG.
    destruct (Hfld z) as (_ & _ & _ & -> & -> & ->). exact HG.
Qed.

(* removing a head action that holds no credit and changes nothing *)
Lemma pop_core : forall s t stk a rest prog p', ctx K s t stk a rest prog -> is_frame a = true ->
  (forall z, act_unit z a = 0) -> (forall z, rel_count z a = 0) ->
  inv1 K (with_thr s t (mkThr stk rest prog) (s_heap s) p').
Proof.
  intros s t stk a rest prog p' C Hfa Hua Hra. pose proof C as [I Ht E].
  pose proof (ctx_shape K _ _ _ _ _ _ C) as Hsh.
  destruct (frame_head a rest Hsh Hfa) as (Hnodebt & Hshape).
  apply (todo_core K s t stk (a :: rest) prog rest prog (fun _ => 0)); auto.
  - intros z. cbn. rewrite Hua. lia.
  - intros z. pose proof (Hnodebt z) as H. cbn in H |- *. lia.
  - intros z Hz. lia.
  - intros z. cbn. rewrite Hra. lia.
  - apply (Hshape []). reflexivity.
  - intros b Hin. pose proof (ctx_act K _ _ _ _ _ _ b C (or_intror Hin)) as A.
    apply (heap_same_ok s _ stk b); [reflexivity| |exact A].
    intros o ->. exfalso. destruct (rest_kinds a rest Hsh _ Hin) as [Hf|[(l' & v' & Hb)|(l' & Hb)]]; discriminate.
Qed.

Lemma act_rel : forall s t stk o n rest prog, ctx K s t stk (ARel o n) rest prog ->
  forall h' stk' todo' p' ev, do_act N K (s_heap s) (s_pool s) stk (ARel o n) rest = (h', stk', todo', p', ev) ->
  inv1 K (with_thr s t (mkThr stk' todo' prog) h' p') /\ bad124 ev = false.
Proof.
  intros s t stk o n rest prog C h' stk' todo' p' ev Hdo.
  pose proof (ctx_act K _ _ _ _ _ _ (ARel o n) C (or_introl eq_refl)) as A. cbn in A. destruct A as (Arel & An & Aproc).
  pose proof C as [I Ht E].
  assert (Ho : o < length (s_heap s)) by (apply releasing_lt; auto).
  cbn [do_act] in Hdo. unfold hobj in Arel, An, Aproc. rewrite Arel in Hdo. cbn [negb] in Hdo.
  destruct (n <? length (o_mem (get_obj (s_heap s) o))) eqn:En.
  - apply Nat.ltb_lt in En. inversion Hdo; subst; clear Hdo. split; [|reflexivity].
    apply (act_rel_member s t stk' o n rest prog C En).
  - apply Nat.ltb_ge in En. assert (Enn : n = length (o_mem (get_obj (s_heap s) o))) by lia.
    set (ob := get_obj (s_heap s) o) in *.
    assert (Hall : all_none (o_mem ob) = true) by (apply processed_all_none; rewrite <- Enn; auto).
    assert (Hnl : is_live ob = false) by (unfold is_live, is_releasing in *; destruct (o_st ob); auto; discriminate).
    assert (Hstate : forall ob' pre p2, o_mem ob' = o_mem ob -> o_cnt ob' = o_cnt ob -> o_pooled ob' = o_pooled ob ->
              o_births ob' = o_births ob -> o_deaths ob' = o_deaths ob -> (o_st ob' = Pooled \/ o_st ob' = Dead) ->
              forallb is_frame pre = true -> (forall z, sumf (act_unit z) pre = 0) -> (forall z, sumf (rel_count z) pre = 0) ->
              inv1 K (with_thr s t (mkThr stk (pre ++ rest) prog) (upd (s_heap s) o ob') p2)).
    { intros ob' pre p2 E1 E2 E3 E4 E5 E6 Hp1 Hp2 Hp3.
      apply (state_core s t stk (ARel o n) rest prog (fun z => z =? o)); auto.
      - apply upd_length.
      - intros z Ez. apply Nat.eqb_neq in Ez. apply get_upd_other; auto.
      - intros z Ez. apply Nat.eqb_eq in Ez. subst z. cbn zeta. rewrite get_upd_same by auto. fold ob.
        repeat split; auto. intros _. eauto.
      - intros z. cbn. unfold eq1. rewrite Nat.eqb_sym. destruct (z =? o) eqn:Ez; auto.
        apply Nat.eqb_eq in Ez. subst z. fold ob. rewrite Arel. reflexivity. }
    destruct (o_pooled ob) eqn:Epool.
    + destruct (pool_release N (s_pool s) o) as [p2 del] eqn:Hrel.
      destruct del as [sd|]; inversion Hdo; subst; clear Hdo; split; try reflexivity.
      * apply (Hstate (set_st (set_val ob 0) Pooled) [ASlabDel sd] p'); auto.
      * apply (Hstate (set_st (set_val ob 0) Pooled) [] p'); auto.
    + inversion Hdo; subst; clear Hdo; split; try reflexivity.
      apply (Hstate (set_st ob Dead) [] (s_pool s)); auto.
Qed.

(* ------------------------------------------------------------------ slab deletion *)

Lemma set_range_length : forall n h base g, length (set_range h base n g) = length h.
Proof. induction n as [|n IH]; intros; cbn; auto. rewrite IH. apply upd_length. Qed.

Lemma set_range_get : forall n h base g z, (forall ob, g (g ob) = g ob) -> g dobj = dobj ->
  get_obj (set_range h base n g) z = if (base <=? z) && (z <? base + n) then g (get_obj h z) else get_obj h z.
Proof.
  induction n as [|n IH]; intros h base g z Hg Hd; cbn [set_range].
  - destruct (base <=? z) eqn:E1; cbn [andb]; auto. apply Nat.leb_le in E1.
    replace (z <? base + 0) with false by (symmetry; apply Nat.ltb_ge; lia). reflexivity.
  - rewrite IH by auto.
    destruct (Nat.eq_dec z (base + n)) as [->|Hne].
    + assert (E1 : (base <=? base + n) = true) by (apply Nat.leb_le; lia).
      assert (E2 : (base + n <? base + n) = false) by (apply Nat.ltb_ge; lia).
      assert (E3 : (base + n <? base + S n) = true) by (apply Nat.ltb_lt; lia).
      rewrite E1, E2, E3. cbn [andb].
      destruct (lt_dec (base + n) (length h)) as [Hl|Hl].
      * apply get_upd_same; auto.
      * rewrite upd_oob by lia. unfold get_obj. rewrite nth_overflow by lia. auto.
    + rewrite get_upd_other by auto.
      destruct (base <=? z) eqn:E1; cbn [andb]; auto.
      destruct (z <? base + n) eqn:E2.
      * assert (E3 : (z <? base + S n) = true) by (apply Nat.ltb_lt; apply Nat.ltb_lt in E2; lia). rewrite E3. reflexivity.
      * assert (E3 : (z <? base + S n) = false) by (apply Nat.ltb_ge; apply Nat.ltb_ge in E2; lia). rewrite E3. reflexivity.
Qed.

Lemma range_all_spec : forall n h base f, range_all h base n f = true -> forall z, base <= z < base + n -> f (get_obj h z) = true.
Proof.
  induction n as [|n IH]; intros h base f H z Hz; [lia|]. cbn in H. apply andb_true_iff in H. destruct H as (H1 & H2).
  destruct (Nat.eq_dec z (base + n)) as [->|Hne]; auto. apply (IH h base f H2). lia.
Qed.

Lemma act_slabdel : forall s t stk sd rest prog, ctx K s t stk (ASlabDel sd) rest prog ->
  forall h' stk' todo' p' ev, do_act N K (s_heap s) (s_pool s) stk (ASlabDel sd) rest = (h', stk', todo', p', ev) ->
  inv1 K (with_thr s t (mkThr stk' todo' prog) h' p') /\ bad124 ev = false.
Proof.
  intros s t stk sd rest prog C h' stk' todo' p' ev Hdo. pose proof C as [I Ht E].
  cbn in Hdo. destruct (range_all (s_heap s) (sl_base sd) N is_pooled_st) eqn:Hr; inversion Hdo; subst; clear Hdo; split; try reflexivity.
  - pose proof (range_all_spec _ _ _ _ Hr) as Hpooled.
    apply (state_core s t stk' (ASlabDel sd) todo' prog (fun z => (sl_base sd <=? z) && (z <? sl_base sd + N)) _ []); auto.
    + apply set_range_length.
    + intros z Ez. rewrite set_range_get by auto. rewrite Ez. reflexivity.
    + intros z Ez. cbn zeta. rewrite set_range_get by auto. rewrite Ez.
      apply andb_true_iff in Ez. destruct Ez as (E1 & E2). apply Nat.leb_le in E1. apply Nat.ltb_lt in E2.
      assert (Hp : is_pooled_st (get_obj (s_heap s) z) = true) by (apply Hpooled; lia).
      unfold is_pooled_st in Hp. destruct (o_st (get_obj (s_heap s) z)) eqn:Est; try discriminate.
      assert (Hz : z < length (s_heap s)).
      { destruct (lt_dec z (length (s_heap s))); auto. unfold get_obj in Est. rewrite nth_overflow in Est by lia. discriminate. }
      destruct (i_mem K s I z Hz) as (_ & Hq). unfold quiet, hobj in Hq. rewrite Est in Hq.
      cbn. unfold is_live, is_releasing. rewrite Est. repeat split; auto. discriminate.
    + intros z. cbn [rel_count]. destruct ((sl_base sd <=? z) && (z <? sl_base sd + N)) eqn:Ez; auto.
      apply andb_true_iff in Ez. destruct Ez as (E1 & E2). apply Nat.leb_le in E1. apply Nat.ltb_lt in E2.
      assert (Hp : is_pooled_st (get_obj (s_heap s) z) = true) by (apply Hpooled; lia).
      unfold is_pooled_st in Hp. unfold is_releasing. destruct (o_st (get_obj (s_heap s) z)); try discriminate; reflexivity.
  - apply (pop_core s t stk' (ASlabDel sd) todo' prog (s_pool s) C); auto.
Qed.

End Acts3.
