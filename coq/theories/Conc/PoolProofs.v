(* C10 -- proofs about the ObjectPool bookkeeping model (Conc/Pool.v): the invariant [pool_wf]
   (the conditions ObjectPool::PerformSanityCheck tests, plus _curPoolSize = number of free nodes,
   disjoint slabs, "slabs with free nodes precede full slabs") is preserved by every critical
   section; ObtainObject returns an object that was free (or belongs to a brand-new slab) and is in
   use afterwards; a slab handed out for deletion holds only free objects. *)
From Coq Require Import List Arith Bool Lia.
From Muscle Require Import Conc.Pool.
Import ListNotations.
Local Open Scope nat_scope.

(* ------------------------------------------------------------------ upd *)

Lemma upd_length : forall A (l : list A) i v, length (upd l i v) = length l.
Proof. induction l as [|h t IH]; intros [|i] v; cbn; auto. Qed.

Lemma nth_upd_same : forall A (l : list A) i v d, i < length l -> nth i (upd l i v) d = v.
Proof. induction l as [|h t IH]; intros [|i] v d H; cbn in *; try lia; auto. apply IH; lia. Qed.

Lemma nth_upd_other : forall A (l : list A) i j v d, i <> j -> nth j (upd l i v) d = nth j l d.
Proof. induction l as [|h t IH]; intros [|i] [|j] v d H; cbn; auto; try lia. Qed.

Lemma upd_oob : forall A (l : list A) i v, length l <= i -> upd l i v = l.
Proof. induction l as [|h t IH]; intros [|i] v H; cbn in *; auto; try lia. f_equal; apply IH; lia. Qed.

(* ------------------------------------------------------------------ free-list chains *)

Inductive chain (next : list (option nat)) : option nat -> list nat -> Prop :=
| ch_nil : chain next None []
| ch_cons : forall i l, i < length next -> chain next (nth i next None) l -> chain next (Some i) (i :: l).

Lemma chain_det : forall next c l1, chain next c l1 -> forall l2, chain next c l2 -> l1 = l2.
Proof.
  induction 1 as [|i l Hi Hc IH]; intros l2 H2; inversion H2; subst; auto.
  f_equal; auto.
Qed.

Lemma chain_bound : forall next c l, chain next c l -> forall x, In x l -> x < length next.
Proof. induction 1 as [|i l Hi Hc IH]; intros x Hx; cbn in Hx; [tauto|]. destruct Hx; subst; auto. Qed.

Lemma chain_upd_notin : forall next c l, chain next c l -> forall i v, ~ In i l -> chain (upd next i v) c l.
Proof.
  induction 1 as [|k l Hk Hc IH]; intros i v Hn; constructor.
  - rewrite upd_length; auto.
  - rewrite nth_upd_other by (cbn in Hn; intuition). apply IH. cbn in Hn; intuition.
Qed.

Lemma walk_chain : forall next c l, chain next c l -> forall fuel, length l <= fuel -> walk fuel next c = l.
Proof.
  induction 1 as [|i l Hi Hc IH]; intros fuel Hf.
  - destruct fuel; reflexivity.
  - destruct fuel as [|f]; cbn in Hf; [lia|]. cbn. f_equal. apply IH; lia.
Qed.

(* ------------------------------------------------------------------ slab invariant *)

Definition slab_wf (N : nat) (s : slab) : Prop :=
  length (sl_next s) = N /\
  exists l, chain (sl_next s) (sl_first s) l /\ NoDup l /\ length l + sl_inuse s = N.

Lemma slab_wf_free : forall N s, slab_wf N s ->
  chain (sl_next s) (sl_first s) (free_nodes N s) /\ NoDup (free_nodes N s) /\ length (free_nodes N s) + sl_inuse s = N.
Proof.
  intros N s (Hl & l & Hc & Hn & Hlen). unfold free_nodes.
  rewrite (walk_chain _ _ _ Hc) by lia. auto.
Qed.

Lemma free_nodes_bound : forall N s x, slab_wf N s -> In x (free_nodes N s) -> x < N.
Proof.
  intros N s x Hw Hx. destruct (slab_wf_free _ _ Hw) as (Hc & _ & _).
  destruct Hw as (Hl & _). rewrite <- Hl. eapply chain_bound; eauto.
Qed.

Lemma init_next_length : forall N, length (init_next N) = N.
Proof. intros; unfold init_next; rewrite map_length, seq_length; auto. Qed.

Lemma init_next_nth : forall N i, i < N -> nth i (init_next N) None = match i with O => None | S j => Some j end.
Proof.
  intros N i H. unfold init_next.
  set (f := fun i => match i with O => @None nat | S j => Some j end).
  rewrite (nth_indep _ None (f 0)) by (rewrite map_length, seq_length; auto).
  rewrite map_nth. rewrite seq_nth by auto. reflexivity.
Qed.

(* the free list of a new slab is N-1, N-2, .., 0 *)
Lemma init_chain : forall N k, k <= N ->
  chain (init_next N) (match k with O => None | S j => Some j end) (rev (seq 0 k)).
Proof.
  intros N k. induction k as [|k IH]; intros Hk.
  - constructor.
  - replace (rev (seq 0 (S k))) with (k :: rev (seq 0 k)).
    2:{ rewrite seq_S. rewrite rev_app_distr. reflexivity. }
    constructor.
    + rewrite init_next_length; lia.
    + rewrite init_next_nth by lia. apply IH; lia.
Qed.

Lemma new_slab_wf : forall N id base, slab_wf N (new_slab N id base).
Proof.
  intros N id base. split; [apply init_next_length|].
  exists (rev (seq 0 N)). cbn. split; [apply init_chain; lia|]. split.
  - apply NoDup_rev. apply seq_NoDup.
  - rewrite rev_length, seq_length. lia.
Qed.

Lemma new_slab_free : forall N id base, free_nodes N (new_slab N id base) = rev (seq 0 N).
Proof.
  intros. unfold free_nodes. cbn. apply walk_chain; [apply init_chain; lia|].
  rewrite rev_length, seq_length; lia.
Qed.

(* pop: the head of the free list is taken *)
Lemma slab_pop_spec : forall N s, slab_wf N s ->
  match slab_pop s with
  | None => free_nodes N s = [] /\ sl_first s = None
  | Some (s', i) =>
      exists l, free_nodes N s = i :: l /\ free_nodes N s' = l /\ slab_wf N s' /\
                sl_id s' = sl_id s /\ sl_base s' = sl_base s /\ sl_inuse s' = S (sl_inuse s)
  end.
Proof.
  intros N s Hw. destruct (slab_wf_free _ _ Hw) as (Hc & Hnd & Hlen).
  destruct Hw as (Hl & _). unfold slab_pop.
  destruct (sl_first s) as [i|] eqn:Hf.
  - inversion Hc as [|i' l Hi Hc' E1 E2]; subst i'.
    exists l. split; [auto|].
    assert (Hni : ~ In i l) by (rewrite <- E2 in Hnd; inversion Hnd; auto).
    assert (Hc2 : chain (upd (sl_next s) i None) (nth i (sl_next s) None) l) by (apply chain_upd_notin; auto).
    assert (Hnd2 : NoDup l) by (rewrite <- E2 in Hnd; inversion Hnd; auto).
    assert (Hlen2 : length l + S (sl_inuse s) = N) by (rewrite <- E2 in Hlen; cbn in Hlen; lia).
    split.
    + unfold free_nodes; cbn. apply walk_chain; auto. lia.
    + split; [|cbn; auto]. split; cbn; [rewrite upd_length; auto|]. exists l; auto.
  - inversion Hc; subst. split; auto.
Qed.

(* push of a node that is not in the free list *)
Lemma slab_push_spec : forall N s i, slab_wf N s -> i < N -> ~ In i (free_nodes N s) ->
  slab_wf N (slab_push s i) /\ free_nodes N (slab_push s i) = i :: free_nodes N s /\ 0 < sl_inuse s.
Proof.
  intros N s i Hw Hi Hni. destruct (slab_wf_free _ _ Hw) as (Hc & Hnd & Hlen).
  destruct Hw as (Hl & _).
  assert (Hc2 : chain (upd (sl_next s) i (sl_first s)) (Some i) (i :: free_nodes N s)).
  { constructor; [rewrite upd_length; lia|]. rewrite nth_upd_same by lia. apply chain_upd_notin; auto. }
  assert (Hpos : 0 < sl_inuse s).
  { destruct (sl_inuse s) eqn:E; [|lia]. exfalso.
    (* N distinct free nodes below N, and i < N is not among them *)
    assert (Hincl : incl (i :: free_nodes N s) (seq 0 N)).
    { intros x [Hx|Hx]; apply in_seq; [subst; lia|]. pose proof (chain_bound _ _ _ Hc x Hx). lia. }
    assert (HN : NoDup (i :: free_nodes N s)) by (constructor; auto).
    pose proof (NoDup_incl_length HN Hincl) as Hle. cbn in Hle. rewrite seq_length in Hle. lia. }
  split; [|split; auto].
  - split; cbn; [rewrite upd_length; auto|]. exists (i :: free_nodes N s). split; auto. split; [constructor; auto|cbn; lia].
  - unfold free_nodes at 1; cbn [slab_push sl_next sl_first]. apply walk_chain; auto. cbn; lia.
Qed.

(* ------------------------------------------------------------------ pool invariant *)

Definition full (s : slab) : Prop := has_avail s = false.

Fixpoint abf (l : list slab) : Prop :=   (* slabs with free nodes precede full slabs *)
  match l with
  | [] => True
  | s :: t => (full s -> Forall full t) /\ abf t
  end.

Fixpoint free_total (N : nat) (l : list slab) : nat :=
  match l with
  | [] => 0
  | s :: t => length (free_nodes N s) + free_total N t
  end.

Definition disjoint (N : nat) (l : list slab) : Prop :=
  forall s1 s2 o, In s1 l -> In s2 l -> owns N s1 o = true -> owns N s2 o = true -> sl_id s1 = sl_id s2.

Record pool_wf (N hlen : nat) (p : pool) : Prop := mkPoolWf {
  pw_slabs : Forall (slab_wf N) (p_slabs p);
  pw_ids : NoDup (map sl_id (p_slabs p));
  pw_idlt : Forall (fun s => sl_id s < p_nextid p) (p_slabs p);
  pw_bound : Forall (fun s => sl_base s + N <= hlen) (p_slabs p);
  pw_disj : disjoint N (p_slabs p);
  pw_cur : p_cur p = free_total N (p_slabs p);
  pw_abf : abf (p_slabs p)
}.

Definition pfree (N : nat) (l : list slab) (o : nat) : Prop :=
  exists s, In s l /\ owns N s o = true /\ In (o - sl_base s) (free_nodes N s).
Definition pused (N : nat) (l : list slab) (o : nat) : Prop :=
  exists s, In s l /\ owns N s o = true /\ ~ In (o - sl_base s) (free_nodes N s).

Lemma empty_pool_wf : forall N hlen max, pool_wf N hlen (empty_pool max).
Proof. intros; constructor; cbn; auto; try constructor. intros s1 s2 o []. Qed.

Lemma owns_spec : forall N s o, owns N s o = true <-> sl_base s <= o < sl_base s + N.
Proof. intros; unfold owns; rewrite andb_true_iff, Nat.leb_le, Nat.ltb_lt; tauto. Qed.

Lemma nodup_map_inj : forall A B (f : A -> B) l a b, NoDup (map f l) -> In a l -> In b l -> f a = f b -> a = b.
Proof.
  induction l as [|h t IH]; intros a b Hn Ha Hb E; cbn in *; [tauto|].
  inversion Hn as [|x l' Hni Hn']; subst.
  destruct Ha as [Ha|Ha], Hb as [Hb|Hb]; subst; auto.
  - exfalso; apply Hni; rewrite E; apply in_map; auto.
  - exfalso; apply Hni; rewrite <- E; apply in_map; auto.
Qed.

Lemma in_remove_slab : forall id l s, In s (remove_slab id l) <-> In s l /\ sl_id s <> id.
Proof.
  intros; unfold remove_slab; rewrite filter_In, negb_true_iff, Nat.eqb_neq; tauto.
Qed.

Lemma abf_filter : forall f l, abf l -> abf (filter f l).
Proof.
  induction l as [|h t IH]; cbn; intros H; auto. destruct H as (H1 & H2).
  destruct (f h); cbn; auto. split; auto.
  intros Hf. specialize (H1 Hf). rewrite Forall_forall in *. intros x Hx. apply filter_In in Hx. apply H1; tauto.
Qed.

Lemma abf_app_full : forall l s, abf l -> full s -> abf (l ++ [s]).
Proof.
  induction l as [|h t IH]; cbn; intros s H Hs; [split; auto|].
  destruct H as (H1 & H2). split; auto. intros Hf. apply Forall_app; split; auto.
Qed.

Lemma abf_all_full : forall l s, abf (s :: l) -> full s -> Forall full (s :: l).
Proof. intros l s (H1 & _) Hs. constructor; auto. Qed.

Lemma free_total_app : forall N a b, free_total N (a ++ b) = free_total N a + free_total N b.
Proof. induction a as [|h t IH]; intros; cbn [free_total app]; auto. rewrite IH; lia. Qed.

Lemma free_total_full : forall N l, Forall (slab_wf N) l -> Forall full l -> free_total N l = 0.
Proof.
  induction l as [|h t IH]; intros Hw Hf; cbn [free_total]; auto.
  inversion Hw; inversion Hf; subst. rewrite IH by auto.
  assert (free_nodes N h = []).
  { unfold free_nodes. unfold full, has_avail in *. destruct (sl_first h); [discriminate|]. destruct N; reflexivity. }
  rewrite H; auto.
Qed.

Lemma filter_all : forall A (f : A -> bool) l, (forall x, In x l -> f x = true) -> filter f l = l.
Proof.
  induction l as [|h t IH]; intros H; cbn; auto.
  rewrite (H h) by (left; auto). f_equal. apply IH. intros; apply H; right; auto.
Qed.

Lemma free_total_remove : forall N id l s, NoDup (map sl_id l) -> In s l -> sl_id s = id ->
  free_total N l = length (free_nodes N s) + free_total N (remove_slab id l).
Proof.
  induction l as [|h t IH]; intros s Hn Hin Hid; cbn [free_total remove_slab filter map In] in *; [tauto|].
  inversion Hn as [|x l' Hni Hn']; subst.
  destruct Hin as [Hin|Hin].
  - subst h. rewrite Nat.eqb_refl; cbn [negb].
    rewrite filter_all; auto.
    intros x Hx. apply negb_true_iff, Nat.eqb_neq. intros E. apply Hni. rewrite <- E. apply in_map; auto.
  - destruct (sl_id h =? sl_id s) eqn:E; cbn [negb free_total].
    + apply Nat.eqb_eq in E. exfalso. apply Hni. rewrite E. apply in_map; auto.
    + fold (remove_slab (sl_id s) t). rewrite (IH s) by auto. lia.
Qed.

(* ------------------------------------------------------------------ the order-independent part *)
From Coq Require Import Permutation.

Definition cwf (N hlen nid : nat) (l : list slab) : Prop :=
  Forall (slab_wf N) l /\ NoDup (map sl_id l) /\ Forall (fun s => sl_id s < nid) l /\
  Forall (fun s => sl_base s + N <= hlen) l /\ disjoint N l.

Lemma pool_wf_cwf : forall N hlen p, pool_wf N hlen p -> cwf N hlen (p_nextid p) (p_slabs p).
Proof. intros N hlen p []; repeat split; auto. Qed.

Lemma cwf_perm : forall N hlen nid l l', Permutation l l' -> cwf N hlen nid l -> cwf N hlen nid l'.
Proof.
  intros N hlen nid l l' HP (H1 & H2 & H3 & H4 & H5). repeat split.
  - eapply Permutation_Forall; eauto.
  - eapply Permutation_NoDup; [apply Permutation_map; eauto|auto].
  - eapply Permutation_Forall; eauto.
  - eapply Permutation_Forall; eauto.
  - intros s1 s2 o I1 I2. apply H5; eapply Permutation_in; try eassumption; apply Permutation_sym; auto.
Qed.

Lemma free_total_perm : forall N l l', Permutation l l' -> free_total N l = free_total N l'.
Proof. induction 1; cbn [free_total]; lia. Qed.

Lemma pfree_perm : forall N l l' o, Permutation l l' -> pfree N l o -> pfree N l' o.
Proof. intros N l l' o HP (s & Hi & H). exists s; split; auto. eapply Permutation_in; eauto. Qed.
Lemma pused_perm : forall N l l' o, Permutation l l' -> pused N l o -> pused N l' o.
Proof. intros N l l' o HP (s & Hi & H). exists s; split; auto. eapply Permutation_in; eauto. Qed.

Lemma cwf_unique : forall N hlen nid l s1 s2 o, cwf N hlen nid l -> In s1 l -> In s2 l ->
  owns N s1 o = true -> owns N s2 o = true -> s1 = s2.
Proof.
  intros N hlen nid l s1 s2 o (_ & Hn & _ & _ & Hd) I1 I2 O1 O2.
  eapply nodup_map_inj; eauto.
Qed.

Lemma pfree_pused_excl : forall N hlen nid l o, cwf N hlen nid l -> pfree N l o -> pused N l o -> False.
Proof.
  intros N hlen nid l o Hc (s1 & I1 & O1 & F1) (s2 & I2 & O2 & F2).
  assert (s1 = s2) by (eapply cwf_unique; eauto). subst. auto.
Qed.

Lemma remove_head : forall s rest, NoDup (map sl_id (s :: rest)) -> remove_slab (sl_id s) (s :: rest) = rest.
Proof.
  intros s rest Hn. cbn. rewrite Nat.eqb_refl; cbn. inversion Hn as [|x l' Hni Hn']; subst.
  apply filter_all. intros x Hx. apply negb_true_iff, Nat.eqb_neq. intros E. apply Hni. rewrite <- E. apply in_map; auto.
Qed.

Lemma cwf_remove : forall N hlen nid l id, cwf N hlen nid l -> cwf N hlen nid (remove_slab id l).
Proof.
  intros N hlen nid l id (H1 & H2 & H3 & H4 & H5). unfold remove_slab. repeat split.
  - rewrite Forall_forall in *. intros x Hx. apply filter_In in Hx. apply H1; tauto.
  - clear - H2. induction l as [|h t IH]; cbn; auto. inversion H2; subst.
    destruct (negb (sl_id h =? id)); cbn; auto. constructor; auto.
    intros Hin. apply H1. apply in_map_iff in Hin. destruct Hin as (x & E & Hx). apply filter_In in Hx.
    rewrite <- E. apply in_map; tauto.
  - rewrite Forall_forall in *. intros x Hx. apply filter_In in Hx. apply H3; tauto.
  - rewrite Forall_forall in *. intros x Hx. apply filter_In in Hx. apply H4; tauto.
  - intros s1 s2 o I1 I2. apply filter_In in I1, I2. apply H5; tauto.
Qed.

(* replacing slab s by an updated copy s' (same id, same base) *)
Lemma cwf_replace : forall N hlen nid l s s', cwf N hlen nid l -> In s l ->
  sl_id s' = sl_id s -> sl_base s' = sl_base s -> slab_wf N s' ->
  cwf N hlen nid (s' :: remove_slab (sl_id s) l).
Proof.
  intros N hlen nid l s s' Hc Hin Eid Ebase Hw'.
  pose proof (cwf_remove _ _ _ _ (sl_id s) Hc) as (R1 & R2 & R3 & R4 & R5).
  destruct Hc as (H1 & H2 & H3 & H4 & H5).
  repeat split.
  - constructor; auto.
  - cbn. constructor; auto. rewrite Eid. intros Hx. apply in_map_iff in Hx. destruct Hx as (x & E & Hx).
    apply in_remove_slab in Hx. tauto.
  - constructor; auto. rewrite Eid. rewrite Forall_forall in H3. apply H3; auto.
  - constructor; auto. rewrite Ebase. rewrite Forall_forall in H4. apply (H4 s); auto.
  - intros s1 s2 o I1 I2 O1 O2.
    assert (Hown : forall x, owns N s' x = owns N s x) by (intros; unfold owns; rewrite Ebase; auto).
    destruct I1 as [I1|I1], I2 as [I2|I2]; subst; auto.
    + rewrite Eid. apply in_remove_slab in I2. apply (H5 s s2 o); try tauto. rewrite <- Hown; auto.
    + rewrite Eid. apply in_remove_slab in I1. apply (H5 s1 s o); try tauto. rewrite <- Hown; auto.
    + apply R5 with o; auto.
Qed.

Lemma free_total_replace : forall N l s s', NoDup (map sl_id l) -> In s l ->
  free_total N (s' :: remove_slab (sl_id s) l) + length (free_nodes N s) = free_total N l + length (free_nodes N s').
Proof.
  intros N l s s' Hn Hin. cbn [free_total]. rewrite (free_total_remove N (sl_id s) l s) by auto. lia.
Qed.

(* membership after a replacement, for objects of the replaced slab and for all others *)
Lemma pfree_replace : forall N hlen nid l s s' x, cwf N hlen nid l -> In s l ->
  sl_id s' = sl_id s -> sl_base s' = sl_base s ->
  (pfree N (s' :: remove_slab (sl_id s) l) x <->
   (owns N s x = true /\ In (x - sl_base s) (free_nodes N s')) \/ (owns N s x = false /\ pfree N l x)).
Proof.
  intros N hlen nid l s s' x Hc Hin Eid Ebase.
  assert (Hown : forall y, owns N s' y = owns N s y) by (intros; unfold owns; rewrite Ebase; auto).
  split.
  - intros (s1 & I1 & O1 & F1). destruct I1 as [I1|I1].
    + subst s1. left. rewrite <- Hown, <- Ebase. auto.
    + apply in_remove_slab in I1. destruct I1 as (I1 & Hne). right. split.
      * destruct (owns N s x) eqn:E; auto. exfalso. apply Hne. f_equal. eapply cwf_unique; eauto.
      * exists s1; auto.
  - intros [(O & F)|(O & (s1 & I1 & O1 & F1))].
    + exists s'. split; [left; auto|]. rewrite Hown, Ebase. auto.
    + exists s1. split; auto. right. apply in_remove_slab. split; auto. intros E.
      assert (s1 = s) by (destruct Hc as (_ & Hn & _); eapply nodup_map_inj; eauto). subst. congruence.
Qed.

Lemma pused_replace : forall N hlen nid l s s' x, cwf N hlen nid l -> In s l ->
  sl_id s' = sl_id s -> sl_base s' = sl_base s ->
  (pused N (s' :: remove_slab (sl_id s) l) x <->
   (owns N s x = true /\ ~ In (x - sl_base s) (free_nodes N s')) \/ (owns N s x = false /\ pused N l x)).
Proof.
  intros N hlen nid l s s' x Hc Hin Eid Ebase.
  assert (Hown : forall y, owns N s' y = owns N s y) by (intros; unfold owns; rewrite Ebase; auto).
  split.
  - intros (s1 & I1 & O1 & F1). destruct I1 as [I1|I1].
    + subst s1. left. rewrite <- Hown, <- Ebase. auto.
    + apply in_remove_slab in I1. destruct I1 as (I1 & Hne). right. split.
      * destruct (owns N s x) eqn:E; auto. exfalso. apply Hne. f_equal. eapply cwf_unique; eauto.
      * exists s1; auto.
  - intros [(O & F)|(O & (s1 & I1 & O1 & F1))].
    + exists s'. split; [left; auto|]. rewrite Hown, Ebase. auto.
    + exists s1. split; auto. right. apply in_remove_slab. split; auto. intros E.
      assert (s1 = s) by (destruct Hc as (_ & Hn & _); eapply nodup_map_inj; eauto). subst. congruence.
Qed.

Lemma pfree_remove : forall N hlen nid l s x, cwf N hlen nid l -> In s l ->
  (pfree N (remove_slab (sl_id s) l) x <-> owns N s x = false /\ pfree N l x).
Proof.
  intros N hlen nid l s x Hc Hin. split.
  - intros (s1 & I1 & O1 & F1). apply in_remove_slab in I1. destruct I1 as (I1 & Hne). split.
    + destruct (owns N s x) eqn:E; auto. exfalso. apply Hne. f_equal. eapply cwf_unique; eauto.
    + exists s1; auto.
  - intros (O & (s1 & I1 & O1 & F1)). exists s1. split; auto. apply in_remove_slab. split; auto. intros E.
    assert (s1 = s) by (destruct Hc as (_ & Hn & _); eapply nodup_map_inj; eauto). subst. congruence.
Qed.

Lemma pused_remove : forall N hlen nid l s x, cwf N hlen nid l -> In s l ->
  (pused N (remove_slab (sl_id s) l) x <-> owns N s x = false /\ pused N l x).
Proof.
  intros N hlen nid l s x Hc Hin. split.
  - intros (s1 & I1 & O1 & F1). apply in_remove_slab in I1. destruct I1 as (I1 & Hne). split.
    + destruct (owns N s x) eqn:E; auto. exfalso. apply Hne. f_equal. eapply cwf_unique; eauto.
    + exists s1; auto.
  - intros (O & (s1 & I1 & O1 & F1)). exists s1. split; auto. apply in_remove_slab. split; auto. intros E.
    assert (s1 = s) by (destruct Hc as (_ & Hn & _); eapply nodup_map_inj; eauto). subst. congruence.
Qed.
