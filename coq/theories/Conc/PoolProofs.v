(* C10 -- proofs about the ObjectPool bookkeeping model (Conc/Pool.v): the invariant [pool_wf]
   (the conditions ObjectPool::PerformSanityCheck tests, plus _curPoolSize = number of free nodes,
   disjoint slabs, "slabs with free nodes precede full slabs") is preserved by every critical
   section; ObtainObject returns an object that was free (or belongs to a brand-new slab) and is in
   use afterwards; a slab handed out for deletion holds only free objects. *)
From Coq Require Import List Arith Bool Lia.
From Muscle Require Import Conc.Pool.
Import ListNotations.
Local Open Scope nat_scope.

(* ------------------------------------------------------------------ upd *)

Lemma upd_length : forall A (l : list A) i v, length (upd l i v) = length l.
Proof. induction l as [|h t IH]; intros [|i] v; cbn; auto. Qed.

Lemma nth_upd_same : forall A (l : list A) i v d, i < length l -> nth i (upd l i v) d = v.
Proof. induction l as [|h t IH]; intros [|i] v d H; cbn in *; try lia; auto. apply IH; lia. Qed.

Lemma nth_upd_other : forall A (l : list A) i j v d, i <> j -> nth j (upd l i v) d = nth j l d.
Proof. induction l as [|h t IH]; intros [|i] [|j] v d H; cbn; auto; try lia. Qed.

Lemma upd_oob : forall A (l : list A) i v, length l <= i -> upd l i v = l.
Proof. induction l as [|h t IH]; intros [|i] v H; cbn in *; auto; try lia. f_equal; apply IH; lia. Qed.

(* ------------------------------------------------------------------ free-list chains *)

Inductive chain (next : list (option nat)) : option nat -> list nat -> Prop :=
| ch_nil : chain next None []
| ch_cons : forall i l, i < length next -> chain next (nth i next None) l -> chain next (Some i) (i :: l).

Lemma chain_det : forall next c l1, chain next c l1 -> forall l2, chain next c l2 -> l1 = l2.
Proof.
  induction 1 as [|i l Hi Hc IH]; intros l2 H2; inversion H2; subst; auto.
  f_equal; auto.
Qed.

Lemma chain_bound : forall next c l, chain next c l -> forall x, In x l -> x < length next.
Proof. induction 1 as [|i l Hi Hc IH]; intros x Hx; cbn in Hx; [tauto|]. destruct Hx; subst; auto. Qed.

Lemma chain_upd_notin : forall next c l, chain next c l -> forall i v, ~ In i l -> chain (upd next i v) c l.
Proof.
  induction 1 as [|k l Hk Hc IH]; intros i v Hn; constructor.
  - rewrite upd_length; auto.
  - rewrite nth_upd_other by (cbn in Hn; intuition). apply IH. cbn in Hn; intuition.
Qed.

Lemma walk_chain : forall next c l, chain next c l -> forall fuel, length l <= fuel -> walk fuel next c = l.
Proof.
  induction 1 as [|i l Hi Hc IH]; intros fuel Hf.
  - destruct fuel; reflexivity.
  - destruct fuel as [|f]; cbn in Hf; [lia|]. cbn. f_equal. apply IH; lia.
Qed.

(* ------------------------------------------------------------------ slab invariant *)

Definition slab_wf (N : nat) (s : slab) : Prop :=
  length (sl_next s) = N /\
  exists l, chain (sl_next s) (sl_first s) l /\ NoDup l /\ length l + sl_inuse s = N.

Lemma slab_wf_free : forall N s, slab_wf N s ->
  chain (sl_next s) (sl_first s) (free_nodes N s) /\ NoDup (free_nodes N s) /\ length (free_nodes N s) + sl_inuse s = N.
Proof.
  intros N s (Hl & l & Hc & Hn & Hlen). unfold free_nodes.
  rewrite (walk_chain _ _ _ Hc) by lia. auto.
Qed.

Lemma free_nodes_bound : forall N s x, slab_wf N s -> In x (free_nodes N s) -> x < N.
Proof.
  intros N s x Hw Hx. destruct (slab_wf_free _ _ Hw) as (Hc & _ & _).
  destruct Hw as (Hl & _). rewrite <- Hl. eapply chain_bound; eauto.
Qed.

Lemma init_next_length : forall N, length (init_next N) = N.
Proof. intros; unfold init_next; rewrite map_length, seq_length; auto. Qed.

Lemma init_next_nth : forall N i, i < N -> nth i (init_next N) None = match i with O => None | S j => Some j end.
Proof.
  intros N i H. unfold init_next.
  set (f := fun i => match i with O => @None nat | S j => Some j end).
  rewrite (nth_indep _ None (f 0)) by (rewrite map_length, seq_length; auto).
  rewrite map_nth. rewrite seq_nth by auto. reflexivity.
Qed.

(* the free list of a new slab is N-1, N-2, .., 0 *)
Lemma init_chain : forall N k, k <= N ->
  chain (init_next N) (match k with O => None | S j => Some j end) (rev (seq 0 k)).
Proof.
  intros N k. induction k as [|k IH]; intros Hk.
  - constructor.
  - replace (rev (seq 0 (S k))) with (k :: rev (seq 0 k)).
    2:{ rewrite seq_S. rewrite rev_app_distr. reflexivity. }
    constructor.
    + rewrite init_next_length; lia.
    + rewrite init_next_nth by lia. apply IH; lia.
Qed.

Lemma new_slab_wf : forall N id base, slab_wf N (new_slab N id base).
Proof.
  intros N id base. split; [apply init_next_length|].
  exists (rev (seq 0 N)). cbn. split; [apply init_chain; lia|]. split.
  - apply NoDup_rev. apply seq_NoDup.
  - rewrite rev_length, seq_length. lia.
Qed.

Lemma new_slab_free : forall N id base, free_nodes N (new_slab N id base) = rev (seq 0 N).
Proof.
  intros. unfold free_nodes. cbn. apply walk_chain; [apply init_chain; lia|].
  rewrite rev_length, seq_length; lia.
Qed.

(* pop: the head of the free list is taken *)
Lemma slab_pop_spec : forall N s, slab_wf N s ->
  match slab_pop s with
  | None => free_nodes N s = [] /\ sl_first s = None
  | Some (s', i) =>
      exists l, free_nodes N s = i :: l /\ free_nodes N s' = l /\ slab_wf N s' /\
                sl_id s' = sl_id s /\ sl_base s' = sl_base s /\ sl_inuse s' = S (sl_inuse s)
  end.
Proof.
  intros N s Hw. destruct (slab_wf_free _ _ Hw) as (Hc & Hnd & Hlen).
  destruct Hw as (Hl & _). unfold slab_pop.
  destruct (sl_first s) as [i|] eqn:Hf.
  - inversion Hc as [|i' l Hi Hc' E1 E2]; subst i'.
    exists l. split; [auto|].
    assert (Hni : ~ In i l) by (rewrite <- E2 in Hnd; inversion Hnd; auto).
    assert (Hc2 : chain (upd (sl_next s) i None) (nth i (sl_next s) None) l) by (apply chain_upd_notin; auto).
    assert (Hnd2 : NoDup l) by (rewrite <- E2 in Hnd; inversion Hnd; auto).
    assert (Hlen2 : length l + S (sl_inuse s) = N) by (rewrite <- E2 in Hlen; cbn in Hlen; lia).
    split.
    + unfold free_nodes; cbn. apply walk_chain; auto. lia.
    + split; [|cbn; auto]. split; cbn; [rewrite upd_length; auto|]. exists l; auto.
  - inversion Hc; subst. split; auto.
Qed.

(* push of a node that is not in the free list *)
Lemma slab_push_spec : forall N s i, slab_wf N s -> i < N -> ~ In i (free_nodes N s) ->
  slab_wf N (slab_push s i) /\ free_nodes N (slab_push s i) = i :: free_nodes N s /\ 0 < sl_inuse s.
Proof.
  intros N s i Hw Hi Hni. destruct (slab_wf_free _ _ Hw) as (Hc & Hnd & Hlen).
  destruct Hw as (Hl & _).
  assert (Hc2 : chain (upd (sl_next s) i (sl_first s)) (Some i) (i :: free_nodes N s)).
  { constructor; [rewrite upd_length; lia|]. rewrite nth_upd_same by lia. apply chain_upd_notin; auto. }
  assert (Hpos : 0 < sl_inuse s).
  { destruct (sl_inuse s) eqn:E; [|lia]. exfalso.
    (* N distinct free nodes below N, and i < N is not among them *)
    assert (Hincl : incl (i :: free_nodes N s) (seq 0 N)).
    { intros x [Hx|Hx]; apply in_seq; [subst; lia|]. pose proof (chain_bound _ _ _ Hc x Hx). lia. }
    assert (HN : NoDup (i :: free_nodes N s)) by (constructor; auto).
    pose proof (NoDup_incl_length HN Hincl) as Hle. cbn in Hle. rewrite seq_length in Hle. lia. }
  split; [|split; auto].
  - split; cbn; [rewrite upd_length; auto|]. exists (i :: free_nodes N s). split; auto. split; [constructor; auto|cbn; lia].
  - unfold free_nodes at 1; cbn [slab_push sl_next sl_first]. apply walk_chain; auto. cbn; lia.
Qed.

(* ------------------------------------------------------------------ pool invariant *)

Definition full (s : slab) : Prop := has_avail s = false.

Fixpoint abf (l : list slab) : Prop :=   (* slabs with free nodes precede full slabs *)
  match l with
  | [] => True
  | s :: t => (full s -> Forall full t) /\ abf t
  end.

Fixpoint free_total (N : nat) (l : list slab) : nat :=
  match l with
  | [] => 0
  | s :: t => length (free_nodes N s) + free_total N t
  end.

Definition disjoint (N : nat) (l : list slab) : Prop :=
  forall s1 s2 o, In s1 l -> In s2 l -> owns N s1 o = true -> owns N s2 o = true -> sl_id s1 = sl_id s2.

Record pool_wf (N hlen : nat) (p : pool) : Prop := mkPoolWf {
  pw_slabs : Forall (slab_wf N) (p_slabs p);
  pw_ids : NoDup (map sl_id (p_slabs p));
  pw_idlt : Forall (fun s => sl_id s < p_nextid p) (p_slabs p);
  pw_bound : Forall (fun s => sl_base s + N <= hlen) (p_slabs p);
  pw_disj : disjoint N (p_slabs p);
  pw_cur : p_cur p = free_total N (p_slabs p);
  pw_abf : abf (p_slabs p)
}.

Definition pfree (N : nat) (l : list slab) (o : nat) : Prop :=
  exists s, In s l /\ owns N s o = true /\ In (o - sl_base s) (free_nodes N s).
Definition pused (N : nat) (l : list slab) (o : nat) : Prop :=
  exists s, In s l /\ owns N s o = true /\ ~ In (o - sl_base s) (free_nodes N s).

Lemma empty_pool_wf : forall N hlen max, pool_wf N hlen (empty_pool max).
Proof. intros; constructor; cbn; auto; try constructor. intros s1 s2 o []. Qed.

Lemma owns_spec : forall N s o, owns N s o = true <-> sl_base s <= o < sl_base s + N.
Proof. intros; unfold owns; rewrite andb_true_iff, Nat.leb_le, Nat.ltb_lt; tauto. Qed.

Lemma nodup_map_inj : forall A B (f : A -> B) l a b, NoDup (map f l) -> In a l -> In b l -> f a = f b -> a = b.
Proof.
  induction l as [|h t IH]; intros a b Hn Ha Hb E; cbn in *; [tauto|].
  inversion Hn as [|x l' Hni Hn']; subst.
  destruct Ha as [Ha|Ha], Hb as [Hb|Hb]; subst; auto.
  - exfalso; apply Hni; rewrite E; apply in_map; auto.
  - exfalso; apply Hni; rewrite <- E; apply in_map; auto.
Qed.

Lemma in_remove_slab : forall id l s, In s (remove_slab id l) <-> In s l /\ sl_id s <> id.
Proof.
  intros; unfold remove_slab; rewrite filter_In, negb_true_iff, Nat.eqb_neq; tauto.
Qed.

Lemma abf_filter : forall f l, abf l -> abf (filter f l).
Proof.
  induction l as [|h t IH]; cbn; intros H; auto. destruct H as (H1 & H2).
  destruct (f h); cbn; auto. split; auto.
  intros Hf. specialize (H1 Hf). rewrite Forall_forall in *. intros x Hx. apply filter_In in Hx. apply H1; tauto.
Qed.

Lemma abf_app_full : forall l s, abf l -> full s -> abf (l ++ [s]).
Proof.
  induction l as [|h t IH]; cbn; intros s H Hs; [split; auto|].
  destruct H as (H1 & H2). split; auto. intros Hf. apply Forall_app; split; auto.
Qed.

Lemma abf_all_full : forall l s, abf (s :: l) -> full s -> Forall full (s :: l).
Proof. intros l s (H1 & _) Hs. constructor; auto. Qed.

Lemma free_total_app : forall N a b, free_total N (a ++ b) = free_total N a + free_total N b.
Proof. induction a as [|h t IH]; intros; cbn [free_total app]; auto. rewrite IH; lia. Qed.

Lemma free_total_full : forall N l, Forall (slab_wf N) l -> Forall full l -> free_total N l = 0.
Proof.
  induction l as [|h t IH]; intros Hw Hf; cbn [free_total]; auto.
  inversion Hw; inversion Hf; subst. rewrite IH by auto.
  assert (free_nodes N h = []).
  { unfold free_nodes. unfold full, has_avail in *. destruct (sl_first h); [discriminate|]. destruct N; reflexivity. }
  rewrite H; auto.
Qed.

Lemma filter_all : forall A (f : A -> bool) l, (forall x, In x l -> f x = true) -> filter f l = l.
Proof.
  induction l as [|h t IH]; intros H; cbn; auto.
  rewrite (H h) by (left; auto). f_equal. apply IH. intros; apply H; right; auto.
Qed.

Lemma free_total_remove : forall N id l s, NoDup (map sl_id l) -> In s l -> sl_id s = id ->
  free_total N l = length (free_nodes N s) + free_total N (remove_slab id l).
Proof.
  induction l as [|h t IH]; intros s Hn Hin Hid; cbn [free_total remove_slab filter map In] in *; [tauto|].
  inversion Hn as [|x l' Hni Hn']; subst.
  destruct Hin as [Hin|Hin].
  - subst h. rewrite Nat.eqb_refl; cbn [negb].
    rewrite filter_all; auto.
    intros x Hx. apply negb_true_iff, Nat.eqb_neq. intros E. apply Hni. rewrite <- E. apply in_map; auto.
  - destruct (sl_id h =? sl_id s) eqn:E; cbn [negb free_total].
    + apply Nat.eqb_eq in E. exfalso. apply Hni. rewrite E. apply in_map; auto.
    + fold (remove_slab (sl_id s) t). rewrite (IH s) by auto. lia.
Qed.

(* ------------------------------------------------------------------ the order-independent part *)
From Coq Require Import Permutation.

Definition cwf (N hlen nid : nat) (l : list slab) : Prop :=
  Forall (slab_wf N) l /\ NoDup (map sl_id l) /\ Forall (fun s => sl_id s < nid) l /\
  Forall (fun s => sl_base s + N <= hlen) l /\ disjoint N l.

Lemma pool_wf_cwf : forall N hlen p, pool_wf N hlen p -> cwf N hlen (p_nextid p) (p_slabs p).
Proof. intros N hlen p []; repeat split; auto. Qed.

Lemma cwf_perm : forall N hlen nid l l', Permutation l l' -> cwf N hlen nid l -> cwf N hlen nid l'.
Proof.
  intros N hlen nid l l' HP (H1 & H2 & H3 & H4 & H5). repeat split.
  - eapply Permutation_Forall; eauto.
  - eapply Permutation_NoDup; [apply Permutation_map; eauto|auto].
  - eapply Permutation_Forall; eauto.
  - eapply Permutation_Forall; eauto.
  - intros s1 s2 o I1 I2. apply H5; eapply Permutation_in; try eassumption; apply Permutation_sym; auto.
Qed.

Lemma free_total_perm : forall N l l', Permutation l l' -> free_total N l = free_total N l'.
Proof. induction 1; cbn [free_total]; lia. Qed.

Lemma pfree_perm : forall N l l' o, Permutation l l' -> pfree N l o -> pfree N l' o.
Proof. intros N l l' o HP (s & Hi & H). exists s; split; auto. eapply Permutation_in; eauto. Qed.
Lemma pused_perm : forall N l l' o, Permutation l l' -> pused N l o -> pused N l' o.
Proof. intros N l l' o HP (s & Hi & H). exists s; split; auto. eapply Permutation_in; eauto. Qed.

Lemma cwf_unique : forall N hlen nid l s1 s2 o, cwf N hlen nid l -> In s1 l -> In s2 l ->
  owns N s1 o = true -> owns N s2 o = true -> s1 = s2.
Proof.
  intros N hlen nid l s1 s2 o (_ & Hn & _ & _ & Hd) I1 I2 O1 O2.
  eapply nodup_map_inj; eauto.
Qed.

Lemma pfree_pused_excl : forall N hlen nid l o, cwf N hlen nid l -> pfree N l o -> pused N l o -> False.
Proof.
  intros N hlen nid l o Hc (s1 & I1 & O1 & F1) (s2 & I2 & O2 & F2).
  assert (s1 = s2) by (eapply cwf_unique; eauto). subst. auto.
Qed.

Lemma remove_head : forall s rest, NoDup (map sl_id (s :: rest)) -> remove_slab (sl_id s) (s :: rest) = rest.
Proof.
  intros s rest Hn. cbn. rewrite Nat.eqb_refl; cbn. inversion Hn as [|x l' Hni Hn']; subst.
  apply filter_all. intros x Hx. apply negb_true_iff, Nat.eqb_neq. intros E. apply Hni. rewrite <- E. apply in_map; auto.
Qed.

Lemma cwf_remove : forall N hlen nid l id, cwf N hlen nid l -> cwf N hlen nid (remove_slab id l).
Proof.
  intros N hlen nid l id (H1 & H2 & H3 & H4 & H5). unfold remove_slab. repeat split.
  - rewrite Forall_forall in *. intros x Hx. apply filter_In in Hx. apply H1; tauto.
  - clear - H2. induction l as [|h t IH]; cbn; auto. inversion H2; subst.
    destruct (negb (sl_id h =? id)); cbn; auto. constructor; auto.
    intros Hin. apply H1. apply in_map_iff in Hin. destruct Hin as (x & E & Hx). apply filter_In in Hx.
    rewrite <- E. apply in_map; tauto.
  - rewrite Forall_forall in *. intros x Hx. apply filter_In in Hx. apply H3; tauto.
  - rewrite Forall_forall in *. intros x Hx. apply filter_In in Hx. apply H4; tauto.
  - intros s1 s2 o I1 I2. apply filter_In in I1, I2. apply H5; tauto.
Qed.

(* replacing slab s by an updated copy s' (same id, same base) *)
Lemma cwf_replace : forall N hlen nid l s s', cwf N hlen nid l -> In s l ->
  sl_id s' = sl_id s -> sl_base s' = sl_base s -> slab_wf N s' ->
  cwf N hlen nid (s' :: remove_slab (sl_id s) l).
Proof.
  intros N hlen nid l s s' Hc Hin Eid Ebase Hw'.
  pose proof (cwf_remove _ _ _ _ (sl_id s) Hc) as (R1 & R2 & R3 & R4 & R5).
  destruct Hc as (H1 & H2 & H3 & H4 & H5).
  repeat split.
  - constructor; auto.
  - cbn. constructor; auto. rewrite Eid. intros Hx. apply in_map_iff in Hx. destruct Hx as (x & E & Hx).
    apply in_remove_slab in Hx. tauto.
  - constructor; auto. rewrite Eid. rewrite Forall_forall in H3. apply H3; auto.
  - constructor; auto. rewrite Ebase. rewrite Forall_forall in H4. apply (H4 s); auto.
  - intros s1 s2 o I1 I2 O1 O2.
    assert (Hown : forall x, owns N s' x = owns N s x) by (intros; unfold owns; rewrite Ebase; auto).
    destruct I1 as [I1|I1], I2 as [I2|I2]; subst; auto.
    + rewrite Eid. apply in_remove_slab in I2. apply (H5 s s2 o); try tauto. rewrite <- Hown; auto.
    + rewrite Eid. apply in_remove_slab in I1. apply (H5 s1 s o); try tauto. rewrite <- Hown; auto.
    + apply R5 with o; auto.
Qed.

Lemma free_total_replace : forall N l s s', NoDup (map sl_id l) -> In s l ->
  free_total N (s' :: remove_slab (sl_id s) l) + length (free_nodes N s) = free_total N l + length (free_nodes N s').
Proof.
  intros N l s s' Hn Hin. cbn [free_total]. rewrite (free_total_remove N (sl_id s) l s) by auto. lia.
Qed.

(* membership after a replacement, for objects of the replaced slab and for all others *)
Lemma pfree_replace : forall N hlen nid l s s' x, cwf N hlen nid l -> In s l ->
  sl_id s' = sl_id s -> sl_base s' = sl_base s ->
  (pfree N (s' :: remove_slab (sl_id s) l) x <->
   (owns N s x = true /\ In (x - sl_base s) (free_nodes N s')) \/ (owns N s x = false /\ pfree N l x)).
Proof.
  intros N hlen nid l s s' x Hc Hin Eid Ebase.
  assert (Hown : forall y, owns N s' y = owns N s y) by (intros; unfold owns; rewrite Ebase; auto).
  split.
  - intros (s1 & I1 & O1 & F1). destruct I1 as [I1|I1].
    + subst s1. left. rewrite <- Hown, <- Ebase. auto.
    + apply in_remove_slab in I1. destruct I1 as (I1 & Hne). right. split.
      * destruct (owns N s x) eqn:E; auto. exfalso. apply Hne. f_equal. eapply cwf_unique; eauto.
      * exists s1; auto.
  - intros [(O & F)|(O & (s1 & I1 & O1 & F1))].
    + exists s'. split; [left; auto|]. rewrite Hown, Ebase. auto.
    + exists s1. split; auto. right. apply in_remove_slab. split; auto. intros E.
      assert (s1 = s) by (destruct Hc as (_ & Hn & _); eapply nodup_map_inj; eauto). subst. congruence.
Qed.

Lemma pused_replace : forall N hlen nid l s s' x, cwf N hlen nid l -> In s l ->
  sl_id s' = sl_id s -> sl_base s' = sl_base s ->
  (pused N (s' :: remove_slab (sl_id s) l) x <->
   (owns N s x = true /\ ~ In (x - sl_base s) (free_nodes N s')) \/ (owns N s x = false /\ pused N l x)).
Proof.
  intros N hlen nid l s s' x Hc Hin Eid Ebase.
  assert (Hown : forall y, owns N s' y = owns N s y) by (intros; unfold owns; rewrite Ebase; auto).
  split.
  - intros (s1 & I1 & O1 & F1). destruct I1 as [I1|I1].
    + subst s1. left. rewrite <- Hown, <- Ebase. auto.
    + apply in_remove_slab in I1. destruct I1 as (I1 & Hne). right. split.
      * destruct (owns N s x) eqn:E; auto. exfalso. apply Hne. f_equal. eapply cwf_unique; eauto.
      * exists s1; auto.
  - intros [(O & F)|(O & (s1 & I1 & O1 & F1))].
    + exists s'. split; [left; auto|]. rewrite Hown, Ebase. auto.
    + exists s1. split; auto. right. apply in_remove_slab. split; auto. intros E.
      assert (s1 = s) by (destruct Hc as (_ & Hn & _); eapply nodup_map_inj; eauto). subst. congruence.
Qed.

Lemma pfree_remove : forall N hlen nid l s x, cwf N hlen nid l -> In s l ->
  (pfree N (remove_slab (sl_id s) l) x <-> owns N s x = false /\ pfree N l x).
Proof.
  intros N hlen nid l s x Hc Hin. split.
  - intros (s1 & I1 & O1 & F1). apply in_remove_slab in I1. destruct I1 as (I1 & Hne). split.
    + destruct (owns N s x) eqn:E; auto. exfalso. apply Hne. f_equal. eapply cwf_unique; eauto.
    + exists s1; auto.
  - intros (O & (s1 & I1 & O1 & F1)). exists s1. split; auto. apply in_remove_slab. split; auto. intros E.
    assert (s1 = s) by (destruct Hc as (_ & Hn & _); eapply nodup_map_inj; eauto). subst. congruence.
Qed.

Lemma pused_remove : forall N hlen nid l s x, cwf N hlen nid l -> In s l ->
  (pused N (remove_slab (sl_id s) l) x <-> owns N s x = false /\ pused N l x).
Proof.
  intros N hlen nid l s x Hc Hin. split.
  - intros (s1 & I1 & O1 & F1). apply in_remove_slab in I1. destruct I1 as (I1 & Hne). split.
    + destruct (owns N s x) eqn:E; auto. exfalso. apply Hne. f_equal. eapply cwf_unique; eauto.
    + exists s1; auto.
  - intros (O & (s1 & I1 & O1 & F1)). exists s1. split; auto. apply in_remove_slab. split; auto. intros E.
    assert (s1 = s) by (destruct Hc as (_ & Hn & _); eapply nodup_map_inj; eauto). subst. congruence.
Qed.

Lemma pfree_in_slab : forall N hlen nid l s x, cwf N hlen nid l -> In s l -> owns N s x = true ->
  (pfree N l x <-> In (x - sl_base s) (free_nodes N s)).
Proof.
  intros N hlen nid l s x Hc Hin Ho. split.
  - intros (s1 & I1 & O1 & F1). assert (s1 = s) by (eapply cwf_unique; eauto). subst; auto.
  - intros F. exists s; auto.
Qed.

Lemma pused_in_slab : forall N hlen nid l s x, cwf N hlen nid l -> In s l -> owns N s x = true ->
  (pused N l x <-> ~ In (x - sl_base s) (free_nodes N s)).
Proof.
  intros N hlen nid l s x Hc Hin Ho. split.
  - intros (s1 & I1 & O1 & F1). assert (s1 = s) by (eapply cwf_unique; eauto). subst; auto.
  - intros F. exists s; auto.
Qed.

Lemma owned_lt_hlen : forall N hlen nid l s x, cwf N hlen nid l -> In s l -> owns N s x = true -> x < hlen.
Proof.
  intros N hlen nid l s x (_ & _ & _ & Hb & _) Hin Ho. rewrite Forall_forall in Hb. specialize (Hb s Hin).
  apply owns_spec in Ho. lia.
Qed.

(* ------------------------------------------------------------------ ObtainObjectAux *)

Definition obtain_spec (N hlen : nat) (p p' : pool) (o : nat) (cr : option slab) : Prop :=
  match cr with
  | None =>
      pool_wf N hlen p' /\ pfree N (p_slabs p) o /\ pused N (p_slabs p') o /\ p_max p' = p_max p /\
      (forall x, x <> o -> (pfree N (p_slabs p') x <-> pfree N (p_slabs p) x) /\
                           (pused N (p_slabs p') x <-> pused N (p_slabs p) x))
  | Some sn =>
      pool_wf N (hlen + N) p' /\ p_cur p = 0 /\ hlen <= o < hlen + N /\ sl_base sn = hlen /\
      pused N (p_slabs p') o /\ p_max p' = p_max p /\
      (forall x, x <> o -> (pfree N (p_slabs p') x <-> pfree N (p_slabs p) x \/ hlen <= x < hlen + N) /\
                           (pused N (p_slabs p') x <-> pused N (p_slabs p) x))
  end.

Lemma pool_wf_weaken : forall N hlen hlen' p, hlen <= hlen' -> pool_wf N hlen p -> pool_wf N hlen' p.
Proof.
  intros N hlen hlen' p Hle []. constructor; auto.
  rewrite Forall_forall in *. intros s Hs. specialize (pw_bound0 s Hs). lia.
Qed.

Lemma obtain_existing : forall N hlen p s rest s' i,
  pool_wf N hlen p -> p_slabs p = s :: rest -> slab_pop s = Some (s', i) ->
  obtain_spec N hlen p
    (mkPool (if negb (has_avail s') && negb (is_nil rest) then rest ++ [s'] else s' :: rest) (p_cur p - 1) (p_max p) (p_nextid p))
    (sl_base s + i) None.
Proof.
  intros N hlen p s rest s' i Hw Hs Hpop.
  pose proof (pool_wf_cwf _ _ _ Hw) as Hc. rewrite Hs in Hc.
  destruct Hw as [W1 W2 W3 W4 W5 W6 W7]. rewrite Hs in *.
  assert (Hsw : slab_wf N s) by (inversion W1; auto).
  pose proof (slab_pop_spec N s Hsw) as Hp. rewrite Hpop in Hp.
  destruct Hp as (l & Hf & Hf' & Hw' & Eid & Ebase & Einuse).
  assert (Hin : In s (s :: rest)) by (left; auto).
  assert (Hrem : remove_slab (sl_id s) (s :: rest) = rest) by (apply remove_head; auto).
  assert (Hc' : cwf N hlen (p_nextid p) (s' :: rest)).
  { rewrite <- Hrem. eapply cwf_replace; eauto. }
  set (slabs' := if negb (has_avail s') && negb (is_nil rest) then rest ++ [s'] else s' :: rest).
  assert (HP : Permutation (s' :: rest) slabs').
  { unfold slabs'. destruct (negb (has_avail s') && negb (is_nil rest)); auto.
    change (s' :: rest) with ([s'] ++ rest). apply Permutation_app_comm. }
  assert (Hc2 : cwf N hlen (p_nextid p) slabs') by (eapply cwf_perm; eauto).
  assert (Hi : i < N) by (apply (free_nodes_bound N s i Hsw); rewrite Hf; left; auto).
  assert (Hown : owns N s (sl_base s + i) = true) by (apply owns_spec; lia).
  assert (Hni : ~ In i l).
  { destruct (slab_wf_free _ _ Hsw) as (_ & Hnd & _). rewrite Hf in Hnd. inversion Hnd; auto. }
  unfold obtain_spec. cbn [p_slabs p_cur p_max p_nextid]. rewrite Hs. fold slabs'. split; [|split; [|split; [|split]]].
  - destruct Hc2 as (C1 & C2 & C3 & C4 & C5). constructor; cbn [p_slabs p_cur p_max p_nextid]; auto.
    + rewrite <- (free_total_perm N _ _ HP). cbn [free_total]. rewrite Hf'.
      rewrite W6. cbn [free_total]. rewrite Hf. cbn [length]. lia.
    + unfold slabs'. cbn in W7. destruct W7 as (A1 & A2).
      destruct (has_avail s') eqn:Ha; cbn [negb andb].
      * cbn. split; auto. unfold full. congruence.
      * destruct rest as [|r rest']; cbn [is_nil negb].
        -- cbn. split; auto.
        -- apply abf_app_full; auto.
  - exists s. split; auto. split; auto. replace (sl_base s + i - sl_base s) with i by lia. rewrite Hf. left; auto.
  - eapply pused_perm; eauto. exists s'. split; [left; auto|]. split.
    + unfold owns. rewrite Ebase. exact Hown.
    + rewrite Ebase. replace (sl_base s + i - sl_base s) with i by lia. rewrite Hf'. auto.
  - reflexivity.
  - intros x Hx. cbn [p_slabs].
    assert (E1 : pfree N slabs' x <-> pfree N (s' :: rest) x).
    { split; apply pfree_perm; auto. apply Permutation_sym; auto. }
    assert (E2 : pused N slabs' x <-> pused N (s' :: rest) x).
    { split; apply pused_perm; auto. apply Permutation_sym; auto. }
    rewrite E1, E2.
    pose proof (pfree_replace N hlen (p_nextid p) (s :: rest) s s' x Hc Hin Eid Ebase) as R1.
    pose proof (pused_replace N hlen (p_nextid p) (s :: rest) s s' x Hc Hin Eid Ebase) as R2.
    rewrite Hrem in R1, R2. rewrite R1, R2. rewrite Hf'.
    destruct (owns N s x) eqn:Ho.
    + rewrite (pfree_in_slab N hlen _ _ s x Hc Hin Ho). rewrite (pused_in_slab N hlen _ _ s x Hc Hin Ho).
      rewrite Hf. apply owns_spec in Ho.
      assert (x - sl_base s <> i) by lia.
      cbn [In]. split; split; intros; intuition (try congruence).
    + split; split; intros; intuition (try congruence).
Qed.

Lemma obtain_create : forall N hlen p, 1 <= N -> pool_wf N hlen p ->
  Forall full (p_slabs p) ->
  let '(p', o, cr) := pool_create N hlen p in obtain_spec N hlen p p' o cr.
Proof.
  intros N hlen p HN Hw Hfull.
  pose proof (pool_wf_cwf _ _ _ Hw) as Hc.
  destruct Hw as [W1 W2 W3 W4 W5 W6 W7].
  unfold pool_create.
  set (s := new_slab N (p_nextid p) hlen).
  pose proof (new_slab_wf N (p_nextid p) hlen) as Hsw. fold s in Hsw.
  pose proof (slab_pop_spec N s Hsw) as Hp.
  destruct (slab_pop s) as [[s' i]|] eqn:Hpop.
  2:{ exfalso. destruct Hp as (Hp & _). unfold s in Hp. rewrite new_slab_free in Hp.
      destruct N; [lia|]. rewrite seq_S, rev_app_distr in Hp. discriminate. }
  destruct Hp as (l & Hf & Hf' & Hw' & Eid & Ebase & Einuse).
  assert (Eid' : sl_id s' = p_nextid p) by (rewrite Eid; reflexivity).
  assert (Ebase' : sl_base s' = hlen) by (rewrite Ebase; reflexivity).
  assert (Hi : i < N) by (apply (free_nodes_bound N s i Hsw); rewrite Hf; left; auto).
  assert (Hni : ~ In i l).
  { destruct (slab_wf_free _ _ Hsw) as (_ & Hnd & _). rewrite Hf in Hnd. inversion Hnd; auto. }
  assert (Hlen : length l = N - 1).
  { destruct (slab_wf_free _ _ Hsw) as (_ & _ & Hl). rewrite Hf in Hl. cbn in Hl. lia. }
  assert (Hcur : p_cur p = 0) by (rewrite W6; apply free_total_full; auto).
  set (slabs' := if has_avail s' then s' :: p_slabs p else p_slabs p ++ [s']).
  assert (HP : Permutation (s' :: p_slabs p) slabs').
  { unfold slabs'. destruct (has_avail s'); auto.
    change (s' :: p_slabs p) with ([s'] ++ p_slabs p). apply Permutation_app_comm. }
  assert (Hown' : forall x, owns N s' x = true <-> hlen <= x < hlen + N).
  { intros x. rewrite owns_spec. rewrite Ebase'. tauto. }
  assert (Hold : forall s0 x, In s0 (p_slabs p) -> owns N s0 x = true -> x < hlen).
  { intros s0 x I0 O0. eapply owned_lt_hlen; eauto. }
  assert (Hc1 : cwf N (hlen + N) (S (p_nextid p)) (s' :: p_slabs p)).
  { destruct Hc as (C1 & C2 & C3 & C4 & C5). repeat split.
    - constructor; auto.
    - cbn. constructor; auto. rewrite Eid'. intros Hx. apply in_map_iff in Hx. destruct Hx as (y & E & Hy).
      rewrite Forall_forall in C3. specialize (C3 y Hy). lia.
    - constructor; [lia|]. rewrite Forall_forall in *. intros y Hy. specialize (C3 y Hy). lia.
    - constructor; [lia|]. rewrite Forall_forall in *. intros y Hy. specialize (C4 y Hy). lia.
    - intros s1 s2 x I1 I2 O1 O2. destruct I1 as [I1|I1], I2 as [I2|I2]; subst; auto.
      + apply Hown' in O1. pose proof (Hold _ _ I2 O2). lia.
      + apply Hown' in O2. pose proof (Hold _ _ I1 O1). lia.
      + eapply C5; eauto. }
  assert (Hc2 : cwf N (hlen + N) (S (p_nextid p)) slabs') by (eapply cwf_perm; eauto).
  unfold obtain_spec. cbn [p_slabs p_cur p_max p_nextid]. fold slabs'.
  split; [|split; [|split; [|split; [|split; [|split]]]]]; auto.
  - destruct Hc2 as (C1 & C2 & C3 & C4 & C5). constructor; cbn [p_slabs p_cur p_max p_nextid]; auto.
    + rewrite <- (free_total_perm N _ _ HP). cbn [free_total]. rewrite Hf'. rewrite <- W6. lia.
    + unfold slabs'. destruct (has_avail s') eqn:Ha.
      * cbn. split; auto.
      * apply abf_app_full; auto.
  - lia.
  - eapply pused_perm; eauto. exists s'. split; [left; auto|]. split.
    + apply Hown'. lia.
    + rewrite Ebase'. replace (hlen + i - hlen) with i by lia. rewrite Hf'. auto.
  - intros x Hx.
    assert (E1 : pfree N slabs' x <-> pfree N (s' :: p_slabs p) x).
    { split; apply pfree_perm; auto. apply Permutation_sym; auto. }
    assert (E2 : pused N slabs' x <-> pused N (s' :: p_slabs p) x).
    { split; apply pused_perm; auto. apply Permutation_sym; auto. }
    rewrite E1, E2. split; split.
    + intros (s1 & I1 & O1 & F1). destruct I1 as [I1|I1].
      * subst s1. right. apply Hown'; auto.
      * left. exists s1; auto.
    + intros [(s1 & I1 & O1 & F1)|Hr].
      * exists s1. split; [right; auto|auto].
      * exists s'. split; [left; auto|]. split; [apply Hown'; auto|].
        rewrite Ebase', Hf'.
        (* every index below N other than i is in l *)
        assert (Hx2 : x - hlen < N) by lia.
        assert (Hall : forall k, k < N -> In k (i :: l)).
        { intros k Hk. rewrite <- Hf. unfold s. rewrite new_slab_free. apply -> in_rev. apply in_seq. lia. }
        destruct (Hall (x - hlen) Hx2) as [E|E]; auto. exfalso. lia.
    + intros (s1 & I1 & O1 & F1). destruct I1 as [I1|I1].
      * subst s1. exfalso. apply F1. rewrite Ebase', Hf'. apply Hown' in O1.
        assert (Hall : forall k, k < N -> In k (i :: l)).
        { intros k Hk. rewrite <- Hf. unfold s. rewrite new_slab_free. apply -> in_rev. apply in_seq. lia. }
        destruct (Hall (x - hlen)) as [E|E]; auto; [lia|]. exfalso. lia.
      * exists s1; auto.
    + intros (s1 & I1 & O1 & F1). exists s1. split; [right; auto|auto].
Qed.

Theorem pool_obtain_spec : forall N hlen p, 1 <= N -> pool_wf N hlen p ->
  let '(p', o, cr) := pool_obtain N hlen p in obtain_spec N hlen p p' o cr.
Proof.
  intros N hlen p HN Hw. unfold pool_obtain.
  destruct (p_slabs p) as [|s rest] eqn:Hs.
  - apply obtain_create; auto. rewrite Hs; constructor.
  - destruct (slab_pop s) as [[s' i]|] eqn:Hpop.
    + apply obtain_existing; auto.
    + apply obtain_create; auto.
      (* the first slab is full, hence every slab is *)
      destruct Hw as [W1 W2 W3 W4 W5 W6 W7]. rewrite Hs in *.
      apply abf_all_full; auto. unfold full, has_avail. unfold slab_pop in Hpop. destruct (sl_first s); [discriminate|auto].
Qed.

(* ------------------------------------------------------------------ ReleaseObjectAux *)

Lemma find_slab_some : forall N l o s, find_slab N l o = Some s -> In s l /\ owns N s o = true.
Proof.
  induction l as [|h t IH]; cbn; intros o s H; [discriminate|].
  destruct (owns N h o) eqn:E.
  - inversion H; subst; auto.
  - destruct (IH _ _ H); auto.
Qed.

Lemma find_slab_none : forall N l o, find_slab N l o = None -> forall s, In s l -> owns N s o = false.
Proof.
  induction l as [|h t IH]; cbn; intros o H s Hin; [tauto|].
  destruct (owns N h o) eqn:E; [discriminate|]. destruct Hin; subst; auto.
Qed.

Lemma full_cover : forall N l, NoDup l -> (forall x, In x l -> x < N) -> length l = N -> forall k, k < N -> In k l.
Proof.
  intros N l Hnd Hb Hlen k Hk.
  assert (Hincl : incl l (seq 0 N)) by (intros x Hx; apply in_seq; specialize (Hb x Hx); lia).
  assert (Hle : length (seq 0 N) <= length l) by (rewrite seq_length; lia).
  pose proof (NoDup_length_incl Hnd Hle Hincl) as H. apply H. apply in_seq. lia.
Qed.

Lemma unused_all_free : forall N s, slab_wf N s -> sl_inuse s = 0 -> forall k, k < N -> In k (free_nodes N s).
Proof.
  intros N s Hw H0 k Hk. destruct (slab_wf_free _ _ Hw) as (Hc & Hnd & Hlen).
  apply (full_cover N); auto; [|lia]. intros x Hx. eapply free_nodes_bound; eauto.
Qed.

Definition release_spec (N hlen : nat) (p p' : pool) (o : nat) (del : option slab) : Prop :=
  pool_wf N hlen p' /\ p_max p' = p_max p /\
  match del with
  | None =>
      pfree N (p_slabs p') o /\
      (forall x, x <> o -> (pfree N (p_slabs p') x <-> pfree N (p_slabs p) x) /\
                           (pused N (p_slabs p') x <-> pused N (p_slabs p) x))
  | Some sd =>
      owns N sd o = true /\ sl_base sd + N <= hlen /\
      (forall x, owns N sd x = true -> x = o \/ pfree N (p_slabs p) x) /\
      (forall x, owns N sd x = true -> ~ pfree N (p_slabs p') x /\ ~ pused N (p_slabs p') x) /\
      (forall x, owns N sd x = false -> (pfree N (p_slabs p') x <-> pfree N (p_slabs p) x) /\
                                        (pused N (p_slabs p') x <-> pused N (p_slabs p) x))
  end.

Theorem pool_release_spec : forall N hlen p o, 1 <= N -> pool_wf N hlen p -> pused N (p_slabs p) o ->
  let '(p', del) := pool_release N p o in release_spec N hlen p p' o del.
Proof.
  intros N hlen p o HN Hw Hu.
  pose proof (pool_wf_cwf _ _ _ Hw) as Hc.
  destruct Hw as [W1 W2 W3 W4 W5 W6 W7].
  destruct Hu as (s & Hin & Ho & Hnf).
  unfold pool_release.
  destruct (find_slab N (p_slabs p) o) as [s0|] eqn:Hfs.
  2:{ pose proof (find_slab_none _ _ _ Hfs s Hin). congruence. }
  destruct (find_slab_some _ _ _ _ Hfs) as (Hin0 & Ho0).
  assert (s0 = s) by (eapply cwf_unique; eauto). subst s0.
  assert (Hsw : slab_wf N s) by (rewrite Forall_forall in W1; auto).
  pose proof Ho as Ho'. apply owns_spec in Ho'.
  set (i := o - sl_base s) in *.
  assert (Hi : i < N) by (unfold i; lia).
  destruct (slab_push_spec N s i Hsw Hi Hnf) as (Hw' & Hf' & Hpos).
  set (s' := slab_push s i) in *.
  assert (Eid : sl_id s' = sl_id s) by reflexivity.
  assert (Ebase : sl_base s' = sl_base s) by reflexivity.
  assert (Hown : forall x, owns N s' x = owns N s x) by reflexivity.
  destruct (slab_wf_free _ _ Hsw) as (_ & Hnd & Hlen).
  assert (Hft : free_total N (p_slabs p) = length (free_nodes N s) + free_total N (remove_slab (sl_id s) (p_slabs p))).
  { apply free_total_remove; auto. }
  destruct ((p_max p + N <? S (p_cur p)) && negb (slab_in_use s')) eqn:Hcond.
  - (* the slab leaves the list and is handed out for deletion *)
    apply andb_true_iff in Hcond. destruct Hcond as (_ & Hnu).
    apply negb_true_iff in Hnu. unfold slab_in_use in Hnu. apply Nat.ltb_ge in Hnu.
    assert (Hinuse1 : sl_inuse s = 1) by (cbn in Hnu; lia).
    assert (Hall : forall k, k < N -> In k (free_nodes N s')).
    { apply unused_all_free; auto. cbn. lia. }
    unfold release_spec. cbn [p_slabs p_cur p_max p_nextid].
    split; [|split; [reflexivity|]].
    + pose proof (cwf_remove _ _ _ _ (sl_id s) Hc) as (R1 & R2 & R3 & R4 & R5).
      constructor; cbn [p_slabs p_cur p_max p_nextid]; auto.
      * rewrite W6, Hft. lia.
      * apply abf_filter; auto.
    + split; [rewrite Hown; auto|]. split; [rewrite Ebase; rewrite Forall_forall in W4; apply (W4 s); auto|].
      split; [|split].
      * intros x Hx. rewrite Hown in Hx. pose proof Hx as Hx'. apply owns_spec in Hx'.
        destruct (Nat.eq_dec x o) as [|Hne]; auto. right.
        apply (pfree_in_slab N hlen _ _ s x Hc Hin Hx).
        assert (Hk : x - sl_base s < N) by lia.
        specialize (Hall _ Hk). rewrite Hf' in Hall. destruct Hall as [E|E]; auto. unfold i in E. lia.
      * intros x Hx. rewrite Hown in Hx.
        rewrite (pfree_remove N hlen _ _ s x Hc Hin), (pused_remove N hlen _ _ s x Hc Hin). split; intros (E & _); congruence.
      * intros x Hx. rewrite Hown in Hx.
        rewrite (pfree_remove N hlen _ _ s x Hc Hin), (pused_remove N hlen _ _ s x Hc Hin). tauto.
  - (* the slab stays, moved to the front *)
    unfold release_spec. cbn [p_slabs p_cur p_max p_nextid].
    pose proof (cwf_replace N hlen (p_nextid p) (p_slabs p) s s' Hc Hin Eid Ebase Hw') as Hc'.
    split; [|split; [reflexivity|split]].
    + destruct Hc' as (C1 & C2 & C3 & C4 & C5). constructor; cbn [p_slabs p_cur p_max p_nextid]; auto.
      * cbn [free_total]. rewrite Hf'. cbn [length]. rewrite W6, Hft. lia.
      * cbn. split; [|apply abf_filter; auto]. unfold full, has_avail. cbn. discriminate.
    + apply (pfree_replace N hlen _ _ s s' o Hc Hin Eid Ebase). left. split; auto. fold i. rewrite Hf'. left; auto.
    + intros x Hx.
      rewrite (pfree_replace N hlen _ _ s s' x Hc Hin Eid Ebase), (pused_replace N hlen _ _ s s' x Hc Hin Eid Ebase).
      rewrite Hf'. destruct (owns N s x) eqn:Hox.
      * rewrite (pfree_in_slab N hlen _ _ s x Hc Hin Hox), (pused_in_slab N hlen _ _ s x Hc Hin Hox).
        apply owns_spec in Hox. assert (i <> x - sl_base s) by (unfold i; lia).
        cbn [In]. split; split; intros; intuition (try congruence).
      * split; split; intros; intuition (try congruence).
Qed.

(* ------------------------------------------------------------------ Drain *)

Lemma cwf_filter : forall N hlen nid l f, cwf N hlen nid l -> cwf N hlen nid (filter f l).
Proof.
  intros N hlen nid l f (H1 & H2 & H3 & H4 & H5). repeat split.
  - rewrite Forall_forall in *. intros x Hx. apply filter_In in Hx. apply H1; tauto.
  - clear - H2. induction l as [|h t IH]; cbn; auto. inversion H2; subst.
    destruct (f h); cbn; auto. constructor; auto.
    intros Hin. apply H1. apply in_map_iff in Hin. destruct Hin as (x & E & Hx). apply filter_In in Hx.
    rewrite <- E. apply in_map; tauto.
  - rewrite Forall_forall in *. intros x Hx. apply filter_In in Hx. apply H3; tauto.
  - rewrite Forall_forall in *. intros x Hx. apply filter_In in Hx. apply H4; tauto.
  - intros s1 s2 o I1 I2. apply filter_In in I1, I2. apply H5; tauto.
Qed.

Lemma free_total_filter : forall N l, Forall (slab_wf N) l ->
  free_total N l = free_total N (filter slab_in_use l) + N * length (filter (fun s => negb (slab_in_use s)) l).
Proof.
  induction l as [|h t IH]; intros Hw; cbn [free_total filter length]; [lia|].
  inversion Hw as [|x l' Hh Ht]; subst. specialize (IH Ht).
  destruct (slab_in_use h) eqn:E; cbn [negb free_total length].
  - lia.
  - unfold slab_in_use in E. apply Nat.ltb_ge in E.
    destruct (slab_wf_free _ _ Hh) as (_ & _ & Hlen). lia.
Qed.

Definition drain_spec (N hlen : nat) (p p' : pool) (dels : list slab) : Prop :=
  pool_wf N hlen p' /\ p_max p' = p_max p /\
  (forall sd, In sd dels -> sl_base sd + N <= hlen /\ forall x, owns N sd x = true -> pfree N (p_slabs p) x) /\
  (forall x, pused N (p_slabs p') x <-> pused N (p_slabs p) x) /\
  (forall x, pfree N (p_slabs p') x <-> pfree N (p_slabs p) x /\ forall sd, In sd dels -> owns N sd x = false) /\
  (forall x, pfree N (p_slabs p) x -> pfree N (p_slabs p') x \/ exists sd, In sd dels /\ owns N sd x = true) /\
  NoDup (map sl_id dels) /\
  (forall s1 s2 x, In s1 dels -> In s2 dels -> owns N s1 x = true -> owns N s2 x = true -> s1 = s2).

Theorem pool_drain_spec : forall N hlen p, 1 <= N -> pool_wf N hlen p ->
  let '(p', dels) := pool_drain N p in drain_spec N hlen p p' dels.
Proof.
  intros N hlen p HN Hw.
  pose proof (pool_wf_cwf _ _ _ Hw) as Hc.
  destruct Hw as [W1 W2 W3 W4 W5 W6 W7].
  unfold pool_drain, drain_spec. cbn [p_slabs p_cur p_max p_nextid].
  set (unused := filter (fun s => negb (slab_in_use s)) (p_slabs p)).
  assert (Hun : forall sd, In sd (rev unused) <-> In sd (p_slabs p) /\ slab_in_use sd = false).
  { intros sd. rewrite <- in_rev. unfold unused. rewrite filter_In, negb_true_iff. tauto. }
  assert (Hfree : forall sd x, In sd (p_slabs p) -> slab_in_use sd = false -> owns N sd x = true -> pfree N (p_slabs p) x).
  { intros sd x I U O. exists sd. split; auto. split; auto.
    apply unused_all_free; [rewrite Forall_forall in W1; auto| |apply owns_spec in O; lia].
    unfold slab_in_use in U. apply Nat.ltb_ge in U. lia. }
  assert (Hused : forall s x, In s (p_slabs p) -> owns N s x = true -> ~ In (x - sl_base s) (free_nodes N s) -> slab_in_use s = true).
  { intros s x I O F. destruct (slab_in_use s) eqn:E; auto. exfalso. apply F.
    apply unused_all_free; [rewrite Forall_forall in W1; auto| |apply owns_spec in O; lia].
    unfold slab_in_use in E. apply Nat.ltb_ge in E. lia. }
  pose proof (cwf_filter N hlen (p_nextid p) (p_slabs p) slab_in_use Hc) as Hc'.
  split; [|split; [reflexivity|split; [|split; [|split; [|split; [|split]]]]]].
  - destruct Hc' as (C1 & C2 & C3 & C4 & C5). constructor; cbn [p_slabs p_cur p_max p_nextid]; auto.
    + rewrite W6. rewrite (free_total_filter N (p_slabs p) W1). fold unused. lia.
    + apply abf_filter; auto.
  - intros sd Hsd. apply Hun in Hsd. destruct Hsd as (I & U). split.
    + rewrite Forall_forall in W4. apply W4; auto.
    + intros x O. eapply Hfree; eauto.
  - intros x. split.
    + intros (s & I & O & F). apply filter_In in I. exists s; tauto.
    + intros (s & I & O & F). exists s. split; auto. apply filter_In. split; auto. eapply Hused; eauto.
  - intros x. split.
    + intros (s & I & O & F). apply filter_In in I. destruct I as (I & U). split; [exists s; auto|].
      intros sd Hsd. apply Hun in Hsd. destruct Hsd as (I2 & U2).
      destruct (owns N sd x) eqn:E; auto. assert (sd = s) by (apply (cwf_unique N hlen (p_nextid p) (p_slabs p) sd s x); auto). subst. congruence.
    + intros ((s & I & O & F) & Hno). exists s. split; auto. apply filter_In. split; auto.
      destruct (slab_in_use s) eqn:E; auto. assert (Hs : In s (rev unused)) by (apply Hun; auto).
      specialize (Hno s Hs). congruence.
  - intros x (s & I & O & F). destruct (slab_in_use s) eqn:E.
    + left. exists s. split; auto. apply filter_In; auto.
    + right. exists s. split; auto. apply Hun; auto.
  - pose proof (cwf_filter N hlen (p_nextid p) (p_slabs p) (fun s => negb (slab_in_use s)) Hc) as (_ & C2 & _).
    fold unused in C2. rewrite map_rev. apply NoDup_rev; auto.
  - intros s1 s2 x I1 I2 O1 O2. apply Hun in I1, I2. apply (cwf_unique N hlen (p_nextid p) (p_slabs p) s1 s2 x); tauto.
Qed.

(* ------------------------------------------------------------------ consequences *)

(* bookkeeping consistency as the sanity check sees it, spelled out *)
Theorem pool_wf_sanity : forall N hlen p, pool_wf N hlen p ->
  p_cur p = free_total N (p_slabs p) /\
  Forall (fun s => length (sl_next s) = N /\ sl_inuse s <= N /\
                   length (free_nodes N s) = N - sl_inuse s /\ NoDup (free_nodes N s) /\
                   (forall i, In i (free_nodes N s) -> i < N)) (p_slabs p).
Proof.
  intros N hlen p [W1 W2 W3 W4 W5 W6 W7]. split; auto.
  rewrite Forall_forall in *. intros s Hs. specialize (W1 s Hs).
  destruct (slab_wf_free _ _ W1) as (Hc & Hnd & Hlen). pose proof W1 as (Hl & _).
  split; [auto|]. split; [lia|]. split; [lia|]. split; [auto|].
  intros i Hi. eapply free_nodes_bound; eauto.
Qed.

(* a slab is created only when no listed slab has a free node *)
Theorem obtain_creates_only_when_exhausted : forall N hlen p p' o sn, 1 <= N -> pool_wf N hlen p ->
  pool_obtain N hlen p = (p', o, Some sn) -> p_cur p = 0.
Proof.
  intros N hlen p p' o sn HN Hw E. pose proof (pool_obtain_spec N hlen p HN Hw) as H. rewrite E in H.
  destruct H as (_ & H & _); auto.
Qed.

(* ------------------------------------------------------------------ INVALID_NODE_INDEX (translated constants) *)
From Coq Require Import NArith.
From Muscle Require Import Gen.Consts.

(* the model writes INVALID_NODE_INDEX as [None]; that is sound as long as no valid node index can
   equal ((uintNN)-1): slabs never hold more than c_pool_max_objects_per_slab objects (the
   static_assert in ObjectPool's constructor) and that bound does not exceed the invalid index *)
Lemma invalid_index_bound : (c_pool_max_objects_per_slab <= 2 ^ c_pool_node_index_bits - 1)%N.
Proof. vm_compute. discriminate. Qed.

Theorem valid_index_not_invalid : forall N i, (N.of_nat N <= c_pool_max_objects_per_slab)%N -> i < N ->
  N.of_nat i <> (2 ^ c_pool_node_index_bits - 1)%N.
Proof. intros N i HN Hi. pose proof invalid_index_bound. lia. Qed.
