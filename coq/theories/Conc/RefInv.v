(* C10 -- the invariant of the reference-count transition system (Conc/RefCnt.v) and the
   bookkeeping lemmas (sums over threads / objects under point updates) used to prove it. *)
From Coq Require Import List Arith Bool Lia.
From Muscle Require Import Conc.Pool Conc.PoolProofs Conc.RefCnt.
Import ListNotations.
Local Open Scope nat_scope.

(* ------------------------------------------------------------------ sums *)

Fixpoint sumf {A} (f : A -> nat) (l : list A) : nat :=
  match l with
  | [] => 0
  | x :: t => f x + sumf f t
  end.

Lemma sumf_app : forall A (f : A -> nat) a b, sumf f (a ++ b) = sumf f a + sumf f b.
Proof. induction a as [|h t IH]; intros; cbn; auto. rewrite IH; lia. Qed.

Lemma sumf_upd : forall A (f : A -> nat) l i x d, i < length l ->
  sumf f (upd l i x) + f (nth i l d) = sumf f l + f x.
Proof.
  induction l as [|h t IH]; intros [|i] x d H; cbn in *; try lia.
  specialize (IH i x d). lia.
Qed.

Lemma sumf_nth_le : forall A (f : A -> nat) l i d, i < length l -> f (nth i l d) <= sumf f l.
Proof.
  induction l as [|h t IH]; intros [|i] d H; cbn in *; try lia.
  specialize (IH i d). lia.
Qed.

Lemma sumf_nth2_le : forall A (f : A -> nat) l i j d, i < length l -> j < length l -> i <> j ->
  f (nth i l d) + f (nth j l d) <= sumf f l.
Proof.
  induction l as [|h t IH]; intros [|i] [|j] d Hi Hj Hn; cbn in *; try lia.
  - pose proof (sumf_nth_le A f t j d). lia.
  - pose proof (sumf_nth_le A f t i d). lia.
  - specialize (IH i j d). lia.
Qed.

Lemma sumf_ext : forall A (f g : A -> nat) l, (forall x, In x l -> f x = g x) -> sumf f l = sumf g l.
Proof.
  induction l as [|h t IH]; intros H; cbn; auto.
  rewrite (H h) by (left; auto). rewrite IH; auto. intros; apply H; right; auto.
Qed.

Lemma sumf_zero : forall A (f : A -> nat) l, sumf f l = 0 <-> forall x, In x l -> f x = 0.
Proof.
  induction l as [|h t IH]; cbn.
  - split; [intros _ x []|auto].
  - split.
    + intros H x [E|E]; subst; [lia|]. apply IH; auto. lia.
    + intros H. rewrite (H h) by auto. apply IH. intros; apply H; auto.
Qed.

Lemma sumf_repeat : forall A (f : A -> nat) x n, sumf f (repeat x n) = n * f x.
Proof. induction n as [|n IH]; cbn; [reflexivity|]. rewrite IH. lia. Qed.

Lemma sumf_le : forall A (f g : A -> nat) l, (forall x, In x l -> f x <= g x) -> sumf f l <= sumf g l.
Proof.
  induction l as [|h t IH]; intros H; cbn; auto.
  pose proof (H h (or_introl eq_refl)). assert (sumf f t <= sumf g t) by (apply IH; intros; apply H; right; auto). lia.
Qed.

(* nth / upd on lists (reexported names from PoolProofs: upd_length nth_upd_same nth_upd_other upd_oob) *)

Lemma nth_app_new : forall A (l : list A) x d, nth (length l) (l ++ [x]) d = x.
Proof. intros. rewrite app_nth2 by lia. rewrite Nat.sub_diag. reflexivity. Qed.

Lemma nth_app_old : forall A (l : list A) x i d, i < length l -> nth i (l ++ [x]) d = nth i l d.
Proof. intros. rewrite app_nth1 by lia. reflexivity. Qed.

(* ------------------------------------------------------------------ counting references *)

Definition cref (o : nat) (r : ref) : nat :=
  match r with Some (q, true) => if q =? o then 1 else 0 | _ => 0 end.

Definition refs_in (o : nat) (l : list ref) : nat := sumf (cref o) l.

Definition eq1 (q o : nat) : nat := if q =? o then 1 else 0.

Definition act_unit (o : nat) (a : act) : nat :=
  match a with
  | AStore _ v => cref o v
  | AIncSwap _ q true _ => eq1 q o
  | ADec q => eq1 q o
  | _ => 0
  end.

Definition act_debt (o : nat) (a : act) : nat :=
  match a with
  | AInc q _ => eq1 q o
  | AIncSwap _ q true _ => eq1 q o
  | _ => 0
  end.

Definition thr_units (o : nat) (t : thread) : nat := refs_in o (t_stk t) + sumf (act_unit o) (t_todo t).
Definition thr_debts (o : nat) (t : thread) : nat := sumf (act_debt o) (t_todo t).
Definition obj_units (o : nat) (ob : obj) : nat := refs_in o (o_mem ob).

Definition units (o : nat) (s : state) : nat := sumf (thr_units o) (s_thr s) + sumf (obj_units o) (s_heap s).
Definition debts (o : nat) (s : state) : nat := sumf (thr_debts o) (s_thr s).

Lemma cref_some : forall o q c, cref o (Some (q, c)) = if c then eq1 q o else 0.
Proof. intros; destruct c; reflexivity. Qed.

Lemma refs_in_upd : forall o l i v, i < length l ->
  refs_in o (upd l i v) + cref o (nth i l None) = refs_in o l + cref o v.
Proof. intros; unfold refs_in; apply sumf_upd; auto. Qed.

Lemma refs_in_nth : forall o l i, nth i l None = Some (o, true) -> 1 <= refs_in o l.
Proof.
  intros o l i H. destruct (lt_dec i (length l)) as [Hl|Hl].
  - pose proof (sumf_nth_le _ (cref o) l i None Hl) as Hle. rewrite H in Hle. cbn in Hle. rewrite Nat.eqb_refl in Hle. exact Hle.
  - rewrite nth_overflow in H by lia. discriminate.
Qed.

Lemma refs_in_nth2 : forall o l i j, i <> j -> nth i l None = Some (o, true) -> nth j l None = Some (o, true) -> 2 <= refs_in o l.
Proof.
  intros o l i j Hn Hi Hj.
  assert (i < length l) by (destruct (lt_dec i (length l)); auto; rewrite nth_overflow in Hi by lia; discriminate).
  assert (j < length l) by (destruct (lt_dec j (length l)); auto; rewrite nth_overflow in Hj by lia; discriminate).
  pose proof (sumf_nth2_le _ (cref o) l i j None H H0 Hn) as Hle. rewrite Hi, Hj in Hle. cbn in Hle. rewrite Nat.eqb_refl in Hle. exact Hle.
Qed.

Lemma refs_in_none : forall o n, refs_in o (repeat None n) = 0.
Proof. intros; unfold refs_in; rewrite sumf_repeat; cbn; lia. Qed.

Lemma all_none_refs : forall o l, all_none l = true -> refs_in o l = 0.
Proof.
  intros o l H. unfold refs_in. apply sumf_zero. intros x Hx. unfold all_none in H. rewrite forallb_forall in H.
  specialize (H x Hx). destruct x; [discriminate|reflexivity].
Qed.
