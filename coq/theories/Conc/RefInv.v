(* C10 -- the invariant of the reference-count transition system (Conc/RefCnt.v) and the
   bookkeeping lemmas (sums over threads / objects under point updates) used to prove it. *)
From Coq Require Import List Arith Bool Lia.
From Muscle Require Import Conc.Pool Conc.PoolProofs Conc.RefCnt.
Import ListNotations.
Local Open Scope nat_scope.

(* ------------------------------------------------------------------ sums *)

Fixpoint sumf {A} (f : A -> nat) (l : list A) : nat :=
  match l with
  | [] => 0
  | x :: t => f x + sumf f t
  end.

Lemma sumf_app : forall A (f : A -> nat) a b, sumf f (a ++ b) = sumf f a + sumf f b.
Proof. induction a as [|h t IH]; intros; cbn; auto. rewrite IH; lia. Qed.

Lemma sumf_upd : forall A (f : A -> nat) l i x d, i < length l ->
  sumf f (upd l i x) + f (nth i l d) = sumf f l + f x.
Proof.
  induction l as [|h t IH]; intros [|i] x d H; cbn in *; try lia.
  specialize (IH i x d). lia.
Qed.

Lemma sumf_nth_le : forall A (f : A -> nat) l i d, i < length l -> f (nth i l d) <= sumf f l.
Proof.
  induction l as [|h t IH]; intros [|i] d H; cbn in *; try lia.
  specialize (IH i d). lia.
Qed.

Lemma sumf_nth2_le : forall A (f : A -> nat) l i j d, i < length l -> j < length l -> i <> j ->
  f (nth i l d) + f (nth j l d) <= sumf f l.
Proof.
  induction l as [|h t IH]; intros [|i] [|j] d Hi Hj Hn; cbn in *; try lia.
  - pose proof (sumf_nth_le A f t j d). lia.
  - pose proof (sumf_nth_le A f t i d). lia.
  - specialize (IH i j d). lia.
Qed.

Lemma sumf_ext : forall A (f g : A -> nat) l, (forall x, In x l -> f x = g x) -> sumf f l = sumf g l.
Proof.
  induction l as [|h t IH]; intros H; cbn; auto.
  rewrite (H h) by (left; auto). rewrite IH; auto. intros; apply H; right; auto.
Qed.

Lemma sumf_zero : forall A (f : A -> nat) l, sumf f l = 0 <-> forall x, In x l -> f x = 0.
Proof.
  induction l as [|h t IH]; cbn.
  - split; [intros _ x []|auto].
  - split.
    + intros H x [E|E]; subst; [lia|]. apply IH; auto. lia.
    + intros H. rewrite (H h) by auto. apply IH. intros; apply H; auto.
Qed.

Lemma sumf_repeat : forall A (f : A -> nat) x n, sumf f (repeat x n) = n * f x.
Proof. induction n as [|n IH]; cbn; [reflexivity|]. rewrite IH. lia. Qed.

Lemma sumf_le : forall A (f g : A -> nat) l, (forall x, In x l -> f x <= g x) -> sumf f l <= sumf g l.
Proof.
  induction l as [|h t IH]; intros H; cbn; auto.
  pose proof (H h (or_introl eq_refl)). assert (sumf f t <= sumf g t) by (apply IH; intros; apply H; right; auto). lia.
Qed.

(* nth / upd on lists (reexported names from PoolProofs: upd_length nth_upd_same nth_upd_other upd_oob) *)

Lemma nth_app_new : forall A (l : list A) x d, nth (length l) (l ++ [x]) d = x.
Proof. intros. rewrite app_nth2 by lia. rewrite Nat.sub_diag. reflexivity. Qed.

Lemma nth_app_old : forall A (l : list A) x i d, i < length l -> nth i (l ++ [x]) d = nth i l d.
Proof. intros. rewrite app_nth1 by lia. reflexivity. Qed.

(* ------------------------------------------------------------------ counting references *)

Definition cref (o : nat) (r : ref) : nat :=
  match r with Some (q, true) => if q =? o then 1 else 0 | _ => 0 end.

Definition refs_in (o : nat) (l : list ref) : nat := sumf (cref o) l.

Definition eq1 (q o : nat) : nat := if q =? o then 1 else 0.

Definition act_unit (o : nat) (a : act) : nat :=
  match a with
  | AStore _ v => cref o v
  | ADec q | ADecKeep q => eq1 q o
  | _ => 0
  end.

Definition act_debt (o : nat) (a : act) : nat :=
  match a with
  | AInc q _ => eq1 q o
  | _ => 0
  end.

Definition thr_units (o : nat) (t : thread) : nat := refs_in o (t_stk t) + sumf (act_unit o) (t_todo t).
Definition thr_debts (o : nat) (t : thread) : nat := sumf (act_debt o) (t_todo t).
Definition obj_units (o : nat) (ob : obj) : nat := refs_in o (o_mem ob).

Definition units (o : nat) (s : state) : nat := sumf (thr_units o) (s_thr s) + sumf (obj_units o) (s_heap s).
Definition debts (o : nat) (s : state) : nat := sumf (thr_debts o) (s_thr s).

Lemma cref_some : forall o q c, cref o (Some (q, c)) = if c then eq1 q o else 0.
Proof. intros; destruct c; reflexivity. Qed.

Lemma refs_in_upd : forall o l i v, i < length l ->
  refs_in o (upd l i v) + cref o (nth i l None) = refs_in o l + cref o v.
Proof. intros; unfold refs_in; apply sumf_upd; auto. Qed.

Lemma refs_in_nth : forall o l i, nth i l None = Some (o, true) -> 1 <= refs_in o l.
Proof.
  intros o l i H. destruct (lt_dec i (length l)) as [Hl|Hl].
  - pose proof (sumf_nth_le _ (cref o) l i None Hl) as Hle. rewrite H in Hle. cbn in Hle. rewrite Nat.eqb_refl in Hle. exact Hle.
  - rewrite nth_overflow in H by lia. discriminate.
Qed.

Lemma refs_in_nth2 : forall o l i j, i <> j -> nth i l None = Some (o, true) -> nth j l None = Some (o, true) -> 2 <= refs_in o l.
Proof.
  intros o l i j Hn Hi Hj.
  assert (i < length l) by (destruct (lt_dec i (length l)); auto; rewrite nth_overflow in Hi by lia; discriminate).
  assert (j < length l) by (destruct (lt_dec j (length l)); auto; rewrite nth_overflow in Hj by lia; discriminate).
  pose proof (sumf_nth2_le _ (cref o) l i j None H H0 Hn) as Hle. rewrite Hi, Hj in Hle. cbn in Hle. rewrite Nat.eqb_refl in Hle. exact Hle.
Qed.

Lemma refs_in_none : forall o n, refs_in o (repeat None n) = 0.
Proof. intros; unfold refs_in; rewrite sumf_repeat; cbn; lia. Qed.

Lemma all_none_refs : forall o l, all_none l = true -> refs_in o l = 0.
Proof.
  intros o l H. unfold refs_in. apply sumf_zero. intros x Hx. unfold all_none in H. rewrite forallb_forall in H.
  specialize (H x Hx). destruct x; [discriminate|reflexivity].
Qed.

(* ------------------------------------------------------------------ shapes of pending work *)

Definition is_frame (a : act) : bool :=
  match a with ARel _ _ | ASlabDel _ | ADec _ | ADecKeep _ => true | _ => false end.

Definition single_ok (a : act) : Prop :=
  match a with
  | AUntag _ | APoolObt _ | ADrain => True
  | _ => False
  end.

(* the possible forms of a thread's pending work: a cascade (release frames and pending
   decrements) optionally followed by the final store of a SetRef; or an operation that has not
   yet passed its first atomic step *)
Inductive shape : list act -> Prop :=
| sh_frames : forall fr, forallb is_frame fr = true -> shape fr
| sh_store : forall fr l v, forallb is_frame fr = true -> shape (fr ++ [AStore l v])
| sh_inc1 : forall o src l, shape [AInc o src; AStore l (Some (o, true))]
| sh_inc2 : forall o src l, shape [AInc o src; ATake l; AStore l (Some (o, true))]
| sh_take1 : forall l, shape [ATake l]
| sh_take2 : forall l v, shape [ATake l; AStore l v]
| sh_single : forall a, single_ok a -> shape [a].

Lemma frames_no_debt : forall o fr, forallb is_frame fr = true -> sumf (act_debt o) fr = 0.
Proof.
  induction fr as [|a fr IH]; cbn; intros H; auto.
  apply andb_true_iff in H. destruct H as (Ha & Hf). rewrite (IH Hf).
  destruct a; cbn in Ha; try discriminate; cbn; auto.
Qed.

Lemma shape_net : forall o todo, shape todo -> sumf (act_debt o) todo <= sumf (act_unit o) todo.
Proof.
  intros o todo H. destruct H as [fr Hf|fr l v Hf|q src l|q src l|l|l v|a Ha].
  - rewrite (frames_no_debt o fr Hf). lia.
  - rewrite !sumf_app. rewrite (frames_no_debt o fr Hf). cbn. lia.
  - cbn. unfold eq1. destruct (q =? o); lia.
  - cbn. unfold eq1. destruct (q =? o); lia.
  - cbn. lia.
  - cbn. lia.
  - destruct a; cbn in Ha; try tauto; cbn; try lia.
Qed.

(* ------------------------------------------------------------------ the invariant *)

Section Inv.
Variable K : nat.

Definition hobj (s : state) (o : nat) : obj := get_obj (s_heap s) o.
Definition thr (s : state) (t : nat) : thread := nth t (s_thr s) dthr.

Definition wloc_ok (h : list obj) (stk : list ref) (l : rloc) : Prop :=
  match l with
  | RStk i => i < length stk
  | RMem q j => j < length (o_mem (get_obj h q)) /\ o_cnt (get_obj h q) = 1 /\ exists i, nth i stk None = Some (q, true)
  end.

Definition not_self (l : rloc) (p : option nat) : Prop :=
  match l with RMem q _ => p <> Some q | RStk _ => True end.

Definition src_ok (s : state) (stk : list ref) (o : nat) (src : option rloc) : Prop :=
  match src with
  | Some (RStk i) => nth i stk None = Some (o, true)
  | Some (RMem q j) => nth j (o_mem (hobj s q)) None = Some (o, true) /\ exists i, nth i stk None = Some (q, true)
  | None => is_live (hobj s o) = true /\ o_cnt (hobj s o) = 0 /\ units o s = 1
  end.

Definition processed_none (ob : obj) (n : nat) : Prop :=
  forall m, m < n -> nth (rel_index ob m) (o_mem ob) None = None.

Definition act_ok (s : state) (stk : list ref) (a : act) : Prop :=
  match a with
  | AInc o src => src_ok s stk o src
  | ATake l | AUntag l | APoolObt l => wloc_ok (s_heap s) stk l
  | AStore l v => wloc_ok (s_heap s) stk l /\ not_self l (ptr v)
  | ARel o n => is_releasing (hobj s o) = true /\ n <= length (o_mem (hobj s o)) /\ processed_none (hobj s o) n
  | ADec _ | ADecKeep _ | ADrain | ASlabDel _ => True
  end.

Definition rel_count (o : nat) (a : act) : nat := match a with ARel q _ => eq1 q o | _ => 0 end.
Definition rels (o : nat) (s : state) : nat := sumf (fun t => sumf (rel_count o) (t_todo t)) (s_thr s).

Definition quiet (ob : obj) : Prop := match o_st ob with Pooled | Dead => all_none (o_mem ob) = true | _ => True end.

Record inv1 (s : state) : Prop := mkInv1 {
  i_count : forall o, units o s = o_cnt (hobj s o) + debts o s;
  i_nolive : forall o, is_live (hobj s o) = false -> units o s = 0;
  i_mem : forall o, o < length (s_heap s) -> length (o_mem (hobj s o)) = K /\ quiet (hobj s o);
  i_shape : forall t, t < length (s_thr s) -> shape (t_todo (thr s t));
  i_acts : forall t a, t < length (s_thr s) -> In a (t_todo (thr s t)) -> act_ok s (t_stk (thr s t)) a;
  i_rels : forall o, rels o s = if is_releasing (hobj s o) then 1 else 0;
  i_ghost : forall o, o < length (s_heap s) -> o_births (hobj s o) = o_deaths (hobj s o) + (if is_live (hobj s o) then 1 else 0)
}.

(* ------------------------------------------------------------------ what the count bounds *)

Definition slots (o : nat) (s : state) : nat :=
  sumf (fun t => refs_in o (t_stk t)) (s_thr s) + sumf (obj_units o) (s_heap s).

Definition net (o : nat) (t : thread) : nat := sumf (act_unit o) (t_todo t) - sumf (act_debt o) (t_todo t).

Lemma sumf_plus : forall A (f g : A -> nat) l, sumf (fun x => f x + g x) l = sumf f l + sumf g l.
Proof. induction l as [|h t IH]; cbn; auto. rewrite IH; lia. Qed.

Lemma shapes_all : forall s, (forall t, t < length (s_thr s) -> shape (t_todo (thr s t))) ->
  forall th, In th (s_thr s) -> shape (t_todo th).
Proof.
  intros s H th Hin. apply In_nth with (d := dthr) in Hin. destruct Hin as (t & Ht & E). rewrite <- E. apply H; auto.
Qed.

Lemma count_bound : forall s o, inv1 s ->
  o_cnt (hobj s o) = slots o s + sumf (net o) (s_thr s).
Proof.
  intros s o I. pose proof (i_count s I o) as HC. unfold units, debts in HC.
  assert (E : sumf (thr_units o) (s_thr s) = sumf (fun t => refs_in o (t_stk t)) (s_thr s) + sumf (fun t => sumf (act_unit o) (t_todo t)) (s_thr s)).
  { unfold thr_units. apply sumf_plus. }
  assert (E2 : sumf (fun t => sumf (act_unit o) (t_todo t)) (s_thr s) = sumf (net o) (s_thr s) + sumf (thr_debts o) (s_thr s)).
  { rewrite <- sumf_plus. apply sumf_ext. intros th Hin. unfold net, thr_debts.
    pose proof (shape_net o (t_todo th) (shapes_all s (i_shape s I) th Hin)). lia. }
  unfold slots. lia.
Qed.

Lemma cnt_ge_slots : forall s o, inv1 s -> slots o s <= o_cnt (hobj s o).
Proof. intros s o I. rewrite (count_bound s o I). lia. Qed.

Lemma live_of_units : forall s o, inv1 s -> 1 <= units o s -> is_live (hobj s o) = true.
Proof.
  intros s o I H. destruct (is_live (hobj s o)) eqn:E; auto. pose proof (i_nolive s I o E). lia.
Qed.

Lemma slots_le_units : forall s o, slots o s <= units o s.
Proof.
  intros s o. unfold slots, units. assert (sumf (fun t => refs_in o (t_stk t)) (s_thr s) <= sumf (thr_units o) (s_thr s)).
  { apply sumf_le. intros; unfold thr_units; lia. }
  lia.
Qed.

(* a counting reference in a stack slot *)
Lemma stk_slot : forall s t i o, t < length (s_thr s) -> nth i (t_stk (thr s t)) None = Some (o, true) -> 1 <= slots o s.
Proof.
  intros s t i o Ht H. unfold slots.
  pose proof (sumf_nth_le _ (fun t => refs_in o (t_stk t)) (s_thr s) t dthr Ht) as Hle. cbn beta in Hle.
  pose proof (refs_in_nth o _ i H). unfold thr in H0. lia.
Qed.

(* a counting reference in a member slot *)
Lemma mem_slot : forall s q j o, nth j (o_mem (hobj s q)) None = Some (o, true) -> 1 <= slots o s.
Proof.
  intros s q j o H. unfold slots.
  assert (Hq : q < length (s_heap s)).
  { destruct (lt_dec q (length (s_heap s))); auto. unfold hobj, get_obj in H. rewrite (nth_overflow (s_heap s)) in H by lia.
    cbn in H. destruct j; discriminate. }
  pose proof (sumf_nth_le _ (obj_units o) (s_heap s) q dobj Hq) as Hle.
  pose proof (refs_in_nth o _ j H). unfold obj_units at 1 in Hle. unfold hobj, get_obj in H0. lia.
Qed.

Lemma stk_mem_slots : forall s t i q j o, t < length (s_thr s) ->
  nth i (t_stk (thr s t)) None = Some (o, true) -> nth j (o_mem (hobj s q)) None = Some (o, true) -> 2 <= slots o s.
Proof.
  intros s t i q j o Ht H1 H2. unfold slots.
  pose proof (sumf_nth_le _ (fun t => refs_in o (t_stk t)) (s_thr s) t dthr Ht) as Hle. cbn beta in Hle.
  pose proof (refs_in_nth o _ i H1). unfold thr in H.
  assert (Hq : q < length (s_heap s)).
  { destruct (lt_dec q (length (s_heap s))); auto. unfold hobj, get_obj in H2. rewrite (nth_overflow (s_heap s)) in H2 by lia.
    cbn in H2. destruct j; discriminate. }
  pose proof (sumf_nth_le _ (obj_units o) (s_heap s) q dobj Hq) as Hle2.
  pose proof (refs_in_nth o _ j H2). unfold obj_units at 1 in Hle2. unfold hobj, get_obj in H0. lia.
Qed.

Lemma stk_stk_slots : forall s t u i i' o, t < length (s_thr s) -> u < length (s_thr s) -> t <> u ->
  nth i (t_stk (thr s t)) None = Some (o, true) -> nth i' (t_stk (thr s u)) None = Some (o, true) -> 2 <= slots o s.
Proof.
  intros s t u i i' o Ht Hu Hne H1 H2. unfold slots.
  pose proof (sumf_nth2_le _ (fun t => refs_in o (t_stk t)) (s_thr s) t u dthr Ht Hu Hne) as Hle. cbn beta in Hle.
  pose proof (refs_in_nth o _ i H1). pose proof (refs_in_nth o _ i' H2). unfold thr in *. lia.
Qed.

Lemma stk_stk_same_slots : forall s t i i' o, t < length (s_thr s) -> i <> i' ->
  nth i (t_stk (thr s t)) None = Some (o, true) -> nth i' (t_stk (thr s t)) None = Some (o, true) -> 2 <= slots o s.
Proof.
  intros s t i i' o Ht Hne H1 H2. unfold slots.
  pose proof (sumf_nth_le _ (fun t => refs_in o (t_stk t)) (s_thr s) t dthr Ht) as Hle. cbn beta in Hle.
  pose proof (refs_in_nth2 o _ i i' Hne H1 H2). unfold thr in *. lia.
Qed.

Lemma mem_mem_slots : forall s q q' j j' o, (q <> q' \/ j <> j') ->
  nth j (o_mem (hobj s q)) None = Some (o, true) -> nth j' (o_mem (hobj s q')) None = Some (o, true) -> 2 <= slots o s.
Proof.
  intros s q q' j j' o Hne H1 H2. unfold slots.
  assert (Hq : forall q j, nth j (o_mem (hobj s q)) None = Some (o, true) -> q < length (s_heap s)).
  { intros q0 j0 H. destruct (lt_dec q0 (length (s_heap s))); auto. unfold hobj, get_obj in H. rewrite (nth_overflow (s_heap s)) in H by lia.
    cbn in H. destruct j0; discriminate. }
  pose proof (Hq _ _ H1). pose proof (Hq _ _ H2).
  destruct (Nat.eq_dec q q') as [E|E].
  - subst q'. assert (j <> j') by tauto.
    pose proof (sumf_nth_le _ (obj_units o) (s_heap s) q dobj H) as Hle.
    pose proof (refs_in_nth2 o _ j j' H3 H1 H2). unfold obj_units at 1 in Hle. unfold hobj, get_obj in *. lia.
  - pose proof (sumf_nth2_le _ (obj_units o) (s_heap s) q q' dobj H H0 E) as Hle.
    pose proof (refs_in_nth o _ j H1). pose proof (refs_in_nth o _ j' H2). unfold obj_units at 1 2 in Hle. unfold hobj, get_obj in *. lia.
Qed.

End Inv.
