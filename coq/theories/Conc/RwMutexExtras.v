(* C18 -- further facts: the association lists never hold a key twice (they are faithful images of Hashtables); the paths of
   the upgrade code that the model leaves out (error returns of the inner UnlockReadOnly()/LockReadOnly() calls) are never
   taken; the thread the hand-off favours is admitted when it runs. *)
From Coq Require Import List Arith Bool Lia.
Import ListNotations.
From Muscle Require Import Conc.RwMutexModel Conc.RwMutexProofs Conc.RwMutexInv Conc.RwMutexLive.

Definition keys {A} (l : list (tid * A)) : list tid := map fst l.

Lemma nodup_snoc : forall (l : list tid) t, NoDup l -> ~ In t l -> NoDup (l ++ [t]).
Proof.
  induction l as [|a r IH]; cbn [app]; intros t Hn Hi.
  - constructor; auto.
  - inversion Hn; subst. constructor.
    + intros Hc. apply in_app_or in Hc. destruct Hc as [Hc|[Hc|[]]]; [contradiction|]. subst. apply Hi. left. reflexivity.
    + apply IH; auto. intros Hc. apply Hi. right. exact Hc.
Qed.

Lemma keys_setv : forall A t (v : A) l, keys (setv t v l) = keys l \/ (~ In t (keys l) /\ keys (setv t v l) = keys l ++ [t]).
Proof.
  induction l as [|[k w] r IH]; cbn [setv keys map fst app].
  - right. split; auto.
  - destruct (Nat.eqb k t) eqn:E; cbn [keys map fst]; [left; auto|].
    apply Nat.eqb_neq in E. destruct IH as [IH|[Hn IH]]; unfold keys in *; [left; rewrite IH; auto|right].
    split; [intros [Hc|Hc]; auto|]. rewrite IH. reflexivity.
Qed.

Lemma nodup_setv : forall A t (v : A) l, NoDup (keys l) -> NoDup (keys (setv t v l)).
Proof.
  intros A t v l H. destruct (keys_setv A t v l) as [->|[Hn ->]]; auto. apply nodup_snoc; auto.
Qed.

Lemma in_keys_remove : forall A t (l : list (tid * A)) k, In k (keys (remove t l)) -> In k (keys l).
Proof.
  induction l as [|[k' w] r IH]; cbn [remove keys map fst]; intros k H; auto.
  destruct (Nat.eqb k' t); [right; apply IH; exact H|]. destruct H as [H|H]; [left; auto|right; apply IH; exact H].
Qed.

Lemma nodup_remove : forall A t (l : list (tid * A)), NoDup (keys l) -> NoDup (keys (remove t l)).
Proof.
  induction l as [|[k w] r IH]; cbn [remove keys map fst]; intros H; auto.
  inversion H; subst. destruct (Nat.eqb k t); [apply IH; auto|].
  cbn [keys map fst]. constructor; [|apply IH; auto]. intros Hc. apply in_keys_remove in Hc. contradiction.
Qed.

Lemma keys_bump : forall l, keys (map bump l) = keys l.
Proof. induction l as [|[k c] r IH]; cbn [map keys fst bump]; auto. unfold keys in IH. rewrite IH. reflexivity. Qed.

Lemma nodup_setc : forall t c l, NoDup (keys l) -> NoDup (keys (setc t c l)).
Proof. intros t c l H. unfold setc. destruct (find t l); auto. apply nodup_setv; auto. Qed.

Definition nodup (g : gst) : Prop := NoDup (keys (g_exec g)) /\ NoDup (keys (g_wr g)) /\ NoDup (keys (g_ww g)).

Lemma nodup_all_readers : forall g, nodup g -> nodup (fst (notify_all_readers g)).
Proof. intros g (H1 & H2 & H3). unfold notify_all_readers, nodup. cbn [fst set_wr g_exec g_wr g_ww]. repeat split; auto. rewrite keys_bump. auto. Qed.

Lemma nodup_next_writer : forall g, nodup g -> nodup (fst (notify_next_writer g)).
Proof.
  intros g (H1 & H2 & H3). unfold notify_next_writer, nodup. destruct (g_ww g) as [|[t c] r] eqn:E; cbn [fst set_ww g_exec g_wr g_ww]; repeat split; auto.
  rewrite E. auto.
Qed.

Section P.
Variable pref : bool.

Lemma nodup_some : forall g, nodup g -> nodup (fst (notify_some pref g)).
Proof.
  intros g H. unfold notify_some.
  destruct (negb (is_nil (g_wr g)) && negb (is_nil (g_ww g))); [destruct pref; auto using nodup_all_readers, nodup_next_writer|].
  destruct (negb (is_nil (g_wr g))); [auto using nodup_all_readers|].
  destruct (negb (is_nil (g_ww g))); auto using nodup_next_writer.
Qed.

Lemma nodup_maybe : forall g, nodup g -> nodup (fst (maybe_notify pref g)).
Proof. intros g H. unfold maybe_notify. destruct (Nat.eqb (g_total g) 0 && is_nil (g_exec g)); auto using nodup_some. Qed.

Lemma nodup_leave_wr : forall t g, nodup g -> nodup (leave_wr t g).
Proof. intros t g (H1 & H2 & H3). unfold leave_wr. destruct (find t (g_wr g)); unfold nodup; cbn [g_exec g_wr g_ww]; repeat split; auto using nodup_remove. Qed.

Lemma nodup_leave_ww : forall t g, nodup g -> nodup (leave_ww t g).
Proof. intros t g (H1 & H2 & H3). unfold leave_ww. destruct (find t (g_ww g)); unfold nodup; cbn [g_exec g_wr g_ww]; repeat split; auto using nodup_remove. Qed.

Lemma nodup_mk : forall g tot ex wr ww p, nodup g ->
  (ex = g_exec g \/ (exists t v, ex = setv t v (g_exec g)) \/ exists t, ex = remove t (g_exec g)) ->
  (wr = g_wr g \/ exists t c, wr = setv t c (g_wr g)) ->
  (ww = g_ww g \/ exists t c, ww = setv t c (g_ww g)) ->
  nodup (mkG tot ex wr ww p).
Proof.
  intros g tot ex wr ww p (H1 & H2 & H3) He Hr Hw. unfold nodup. cbn [g_exec g_wr g_ww]. repeat split.
  - destruct He as [->|[(t & v & ->)|(t & ->)]]; auto using nodup_setv, nodup_remove.
  - destruct Hr as [->|(t & c & ->)]; auto using nodup_setv.
  - destruct Hw as [->|(t & c & ->)]; auto using nodup_setv.
Qed.

Lemma cs_nodup : forall t a g g' ns out, nodup g -> cs pref t a g = Some (g', ns, out) -> nodup g'.
Proof.
  intros t a g g' ns out Hn H. destruct a; cbn [cs] in H; try discriminate; inversion H as [H1]; clear H.
  - break_cs H1; auto; unfold set_exec; apply (nodup_mk g); eauto 6.
  - break_cs H1; auto; apply (nodup_mk g); eauto 6.
  - unfold unlock_ro in H1. destruct (find t (g_exec g)) as [e|]; [|inversion H1; subst; auto].
    destruct (e_ro e) as [|r]; [inversion H1; subst; auto|].
    destruct (Nat.eqb r 0 && Nat.eqb (e_rw e) 0).
    + destruct (maybe_notify pref (set_exec g (remove t (g_exec g)))) as [g2 ns2] eqn:E. inversion H1; subst.
      change g' with (fst (g', ns)). rewrite <- E. apply nodup_maybe. unfold set_exec. apply (nodup_mk g); eauto 6.
    + inversion H1; subst. unfold set_exec. apply (nodup_mk g); eauto 6.
  - unfold unlock_rw in H1. destruct (find t (g_exec g)) as [e|]; [|inversion H1; subst; auto].
    destruct (e_rw e) as [|w]; [inversion H1; subst; auto|].
    match type of H1 with context [mkG ?a ?b ?c ?d ?e0] => assert (Hf : nodup (mkG a b c d e0)) end.
    { apply (nodup_mk g); auto. destruct (Nat.eqb w 0 && Nat.eqb (e_ro e) 0); eauto 6. }
    match type of H1 with context [if Nat.eqb (pred (g_total g)) 0 then ?x else ?y] =>
      destruct (if Nat.eqb (pred (g_total g)) 0 then x else y) as [g2 ns2] eqn:E end.
    inversion H1; subst. clear H1.
    destruct (Nat.eqb (pred (g_total g)) 0).
    + destruct (Nat.ltb 0 (e_ro e)).
      * change g' with (fst (g', ns)). rewrite <- E. apply nodup_all_readers. auto.
      * match type of E with (if ?c then _ else _) = _ => destruct c end.
        -- change g' with (fst (g', ns)). rewrite <- E. apply nodup_some. auto.
        -- inversion E; subst. auto.
    + inversion E; subst. auto.
  - unfold woke_ro in H1. destruct (negb ok).
    + destruct (maybe_notify pref (leave_wr t g)) as [g2 ns2] eqn:E. inversion H1; subst.
      change g' with (fst (g', ns)). rewrite <- E. apply nodup_maybe, nodup_leave_wr, Hn.
    + destruct (ok_readers pref g); inversion H1; subst; auto.
      apply nodup_leave_wr. unfold set_exec. apply (nodup_mk g); eauto 6.
  - unfold woke_rw in H1. destruct (negb ok).
    + destruct (maybe_notify pref (leave_ww t g)) as [g2 ns2] eqn:E. inversion H1; subst.
      change g' with (fst (g', ns)). rewrite <- E. apply nodup_maybe, nodup_leave_ww, Hn.
    + destruct (ok_writer t g); inversion H1; subst; auto.
      apply nodup_leave_ww. apply (nodup_mk g); eauto 6.
Qed.

Lemma step_nodup : forall t c g l g' l' o, nodup g -> step pref t c g l = Some (g', l', o) -> nodup g'.
Proof.
  intros t c g l g' l' o Hn. unfold step. destruct c.
  - destruct (l_act l) eqn:Ha;
      try (unfold run_cs; rewrite Ha;
           match goal with |- context [cs pref ?tt ?a ?gg] => destruct (cs pref tt a gg) as [[[g1 ns] out]|] eqn:E end;
           [|discriminate]; apply cs_nodup in E; auto;
           destruct out; [destruct (complete l s)|..]; intros H; inversion H; subst; auto).
    + destruct (find t (g_wr g)) as [[|n]|]; try discriminate. intros H; inversion H; subst.
      destruct Hn as (H1 & H2 & H3). unfold nodup. cbn [set_wr set_ww g_exec g_wr g_ww]. repeat split; auto using nodup_setc.
    + destruct (find t (g_ww g)) as [[|n]|]; try discriminate. intros H; inversion H; subst.
      destruct Hn as (H1 & H2 & H3). unfold nodup. cbn [set_wr set_ww g_exec g_wr g_ww]. repeat split; auto using nodup_setc.
  - destruct (l_act l); try discriminate; destruct d; try discriminate; intros H; inversion H; subst; auto.
Qed.

(* the tables never hold a thread twice: the lists are faithful images of the Hashtables *)
Theorem nodup_reachable : forall s, reachable pref s -> nodup (s_g s).
Proof.
  intros s H. induction H as [|s lab s' o Hr IH Hs].
  - repeat split; constructor.
  - destruct lab as [t op|t c|p]; cbn [sys_step] in Hs.
    + destruct (begin_op op (s_l s t)); inversion Hs; subst; auto.
    + destruct (step pref t c (s_g s) (s_l s t)) as [[[g' l'] o']|] eqn:E; inversion Hs; subst. eapply step_nodup; eauto.
    + inversion Hs; subst. exact IH.
Qed.

(* the error returns inside the upgrade path that the model does not follow (MRETURN_ON_ERROR of the inner UnlockReadOnly(),
   failure of the inner LockReadOnly()) are never taken: those inner calls always return B_NO_ERROR *)
Theorem upgrade_inner_calls_succeed : forall s, reachable pref s -> forall t f k g' ns st,
  l_stk (s_l s t) = f :: k -> (match f with FInner _ => False | _ => True end) ->
  cs pref t (l_act (s_l s t)) (s_g s) = Some (g', ns, Done st) -> st = SOk.
Proof.
  intros s Hr t f k g' ns st Hs Hf H. destruct (inv_reachable pref s Hr) as [_ Hl]. destruct (Hl t) as [Hwf Hex _ _].
  unfold wf in Hwf. unfold exp_ent, hold in Hex. rewrite Hs in Hwf, Hex. cbn [fst snd] in Hex.
  destruct f as [n i d|n|n i lrw]; [| contradiction |]; destruct k; try contradiction; cbn [fst snd] in Hex.
  - destruct Hwf as (Ha & Hin & _). rewrite Ha in H. cbn [cs] in H. unfold unlock_ro in H.
    rewrite mk_ent_pos in Hex by lia. rewrite Hex in H. cbn [e_ro e_rw] in H.
    destruct (n - i) as [|r] eqn:E; [lia|].
    destruct (Nat.eqb r 0 && Nat.eqb 0 0); [destruct (maybe_notify pref (set_exec (s_g s) (remove t (g_exec (s_g s)))))|]; inversion H; auto.
  - destruct Hwf as (_ & _ & _ & _ & _ & [Ha|(_ & _ & [Ha|Ha])]); rewrite Ha in H; cbn [cs] in H.
    + unfold enter_ro in H. destruct (find t (g_exec (s_g s))); [inversion H; auto|].
      destruct (ok_readers pref (s_g s)); [inversion H; auto|]. destruct (pool_get (g_pool (s_g s))). inversion H.
    + discriminate.
    + unfold woke_ro in H. cbn [negb] in H. destruct (ok_readers pref (s_g s)); inversion H; auto.
Qed.

(* the thread the hand-off favours is admitted when its critical section runs (unless somebody else took the lock first) *)
Theorem handoff_admits_writer : forall s, reachable pref s -> g_exec (s_g s) = [] ->
  forall h c r d, g_ww (s_g s) = (h, c) :: r -> l_act (s_l s h) = AWokeRW d true ->
  exists g' l' o, step pref h CRun (s_g s) (s_l s h) = Some (g', l', o) /\ find h (g_exec g') = Some (mkEnt 0 1) /\ memk h (g_ww g') = false.
Proof.
  intros s Hr Hn h c r d Ew Ha. unfold step, run_cs. rewrite Ha. cbn [cs]. unfold woke_rw. cbn [negb].
  assert (Hok : ok_writer h (s_g s) = true) by (unfold ok_writer; rewrite Hn, Ew, Nat.eqb_refl; reflexivity).
  rewrite Hok. destruct (complete (s_l s h) SOk) as [l' r']. do 3 eexists. split; [reflexivity|].
  rewrite leave_ww_exec, leave_ww_memk. cbn [g_exec]. rewrite find_setv_same. auto.
Qed.

Theorem handoff_admits_reader : forall s, reachable pref s -> g_exec (s_g s) = [] -> (pref = true -> g_ww (s_g s) = []) ->
  forall k d, l_act (s_l s k) = AWokeRO d true ->
  exists g' l' o, step pref k CRun (s_g s) (s_l s k) = Some (g', l', o) /\ find k (g_exec g') = Some (mkEnt 1 0) /\ memk k (g_wr g') = false.
Proof.
  intros s Hr Hn Hp k d Ha. destruct (inv_reachable pref s Hr) as [Hm _].
  unfold step, run_cs. rewrite Ha. cbn [cs]. unfold woke_ro. cbn [negb].
  assert (Hok : ok_readers pref (s_g s) = true).
  { unfold ok_readers. rewrite (exec_nil_total _ Hm Hn). cbn [Nat.eqb andb]. destruct pref; auto. rewrite Hp; auto. }
  rewrite Hok. destruct (complete (s_l s k) SOk) as [l' r']. do 3 eexists. split; [reflexivity|].
  rewrite leave_wr_exec, leave_wr_memk. cbn [set_exec g_exec]. rewrite find_setv_same. auto.
Qed.

End P.

(* writer preference at the level of the whole system: with preference on, as long as some writer waits, no transition of
   any thread turns a thread that holds nothing into a reader -- a reader that arrives after a waiting writer cannot be
   admitted before that writer has left the queue (by acquiring or by timing out) *)
Theorem writer_pref_sys : forall s lab s' o w,
  sys_step true s lab = Some (s', o) -> memk w (g_ww (s_g s)) = true ->
  forall r e, find r (g_exec (s_g s)) = None -> find r (g_exec (s_g s')) = Some e -> e = mkEnt 0 1.
Proof.
  intros s lab s' o w H Hw r e Hf Hf'. destruct lab as [t op|t c|p]; cbn [sys_step] in H.
  3: { inversion H; subst. cbn [s_g set_pool g_exec] in Hf'. congruence. }
  - destruct (begin_op op (s_l s t)); inversion H; subst. cbn [s_g] in Hf'. congruence.
  - destruct (step true t c (s_g s) (s_l s t)) as [[[g' l'] o']|] eqn:E; inversion H; subst. cbn [s_g] in Hf'.
    destruct (Nat.eq_dec r t) as [->|Hne].
    + destruct c.
      * destruct (admission true _ _ _ _ _ _ _ E Hf Hf') as [(_ & _ & Hq)|(He & _)]; auto.
        rewrite Hq in Hw by reflexivity. discriminate.
      * unfold step in E. destruct (l_act (s_l s t)); try discriminate; destruct d; try discriminate; inversion E; subst; congruence.
    + pose proof (step_frame true _ _ _ _ _ _ _ E) as [Fe _ _]. rewrite Fe in Hf' by auto. congruence.
Qed.

(* writers are served first-come first-served: while writers wait, only the head of the writer queue can become a writer *)
Theorem writer_fifo_sys : forall pref s lab s' o h c r,
  sys_step pref s lab = Some (s', o) -> g_ww (s_g s) = (h, c) :: r ->
  forall t, find t (g_exec (s_g s)) = None -> find t (g_exec (s_g s')) = Some (mkEnt 0 1) -> t = h.
Proof.
  intros pref s lab s' o h c r H Ew t Hf Hf'. destruct lab as [k op|k ch|p]; cbn [sys_step] in H.
  3: { inversion H; subst. cbn [s_g set_pool g_exec] in Hf'. congruence. }
  - destruct (begin_op op (s_l s k)); inversion H; subst. cbn [s_g] in Hf'. congruence.
  - destruct (step pref k ch (s_g s) (s_l s k)) as [[[g' l'] o']|] eqn:E; inversion H; subst. cbn [s_g] in Hf'.
    destruct (Nat.eq_dec t k) as [->|Hne].
    + destruct ch.
      * destruct (admission pref _ _ _ _ _ _ _ E Hf Hf') as [(He & _)|(_ & _ & [Hq|(c0 & r0 & Hq)])]; try discriminate; rewrite Ew in Hq; [discriminate|].
        inversion Hq. reflexivity.
      * unfold step in E. destruct (l_act (s_l s k)); try discriminate; destruct d; try discriminate; inversion E; subst; congruence.
    + pose proof (step_frame pref _ _ _ _ _ _ _ E) as [Fe _ _]. rewrite Fe in Hf' by auto. congruence.
Qed.
