(* C11 -- structural invariants of the Thread messaging LTS (Conc/ThreadQ.v): who can be where (roles), the life-cycle
   flags, and the FIFO history invariant.  Everything here holds for every label contract [ok]. *)
From Coq Require Import List Arith Bool Lia NArith.
From Muscle Require Import Conc.ThreadQ.
Import ListNotations.

(* ---------- small facts about the state helpers ---------- *)

Lemma ch_set_ch : forall c c' x g, ch (set_ch c x g) c' = if match c, c' with CI, CI | CO, CO => true | _, _ => false end then x else ch g c'.
Proof. intros [] [] x g; reflexivity. Qed.

Lemma ch_set_same : forall c x g, ch (set_ch c x g) c = x.
Proof. intros [] x g; reflexivity. Qed.

Definition chan_eqb (a b : chanid) : bool := match a, b with CI, CI | CO, CO => true | _, _ => false end.

Lemma chan_eqb_spec : forall a b, reflect (a = b) (chan_eqb a b).
Proof. intros [] []; simpl; constructor; congruence. Qed.

Lemma ch_set_other : forall c c' x g, c <> c' -> ch (set_ch c x g) c' = ch g c'.
Proof. intros [] [] x g H; try reflexivity; congruence. Qed.

Ltac fin_frame :=
  simpl; repeat split; intros;
  repeat match goal with c : chanid |- _ => destruct c end; simpl; auto; try congruence; try lia.

(* the fields a signal can change *)
Lemma signal_frame : forall nl c g g' e, signal nl c g = (g', e) ->
  g_sockets g' = g_sockets g /\ g_evd g' = g_evd g /\ g_alloc g' = g_alloc g /\ g_running g' = g_running g /\
  g_iopen g' = g_iopen g /\ g_ist g' = g_ist g /\ g_il g' = g_il g /\ g_gen g' = g_gen g /\
  (forall c', c_q (ch g' c') = c_q (ch g c') /\ c_sent (ch g' c') = c_sent (ch g c') /\ c_rcvd (ch g' c') = c_rcvd (ch g c')) /\
  (forall c', c' <> c -> ch g' c' = ch g c') /\
  c_sig (ch g c) <= c_sig (ch g' c) /\ True.
Proof.
  intros nl c g g' e H. unfold signal in H.
  destruct (g_sockets g) eqn:Hs;
    [destruct c; [destruct (g_alloc g) eqn:Ha; [destruct (g_iopen g) eqn:Ho|] | destruct (g_alloc g && g_iopen g) eqn:Ha] | destruct c];
    inversion H; subst; clear H; fin_frame.
Qed.

Lemma absorb_frame : forall n c g,
  let g' := absorb n c g in
  g_sockets g' = g_sockets g /\ g_evd g' = g_evd g /\ g_alloc g' = g_alloc g /\ g_running g' = g_running g /\
  g_iopen g' = g_iopen g /\ g_ist g' = g_ist g /\ g_il g' = g_il g /\ g_gen g' = g_gen g /\
  (forall c', c_q (ch g' c') = c_q (ch g c') /\ c_sent (ch g' c') = c_sent (ch g c') /\ c_rcvd (ch g' c') = c_rcvd (ch g c')
              /\ c_wc (ch g' c') = c_wc (ch g c')) /\
  (forall c', c' <> c -> ch g' c' = ch g c').
Proof.
  intros n c g. unfold absorb. destruct (fd_ok g c) eqn:Hs; destruct c; fin_frame.
Qed.

Lemma alloc_frame : forall g,
  let g' := alloc_sockets g in
  g_sockets g' = g_sockets g /\ g_evd g' = g_evd g /\ g_running g' = g_running g /\
  g_ist g' = g_ist g /\ g_il g' = g_il g /\ g_gen g' = g_gen g /\
  (forall c', c_q (ch g' c') = c_q (ch g c') /\ c_sent (ch g' c') = c_sent (ch g c') /\ c_rcvd (ch g' c') = c_rcvd (ch g c')
              /\ c_wc (ch g' c') = c_wc (ch g c')).
Proof.
  intros g. unfold alloc_sockets. destruct (g_sockets g && negb (g_alloc g)) eqn:Hs; fin_frame.
Qed.

Lemma close_frame : forall g,
  let g' := close_sockets g in
  g_sockets g' = g_sockets g /\ g_evd g' = g_evd g /\ g_running g' = g_running g /\
  g_ist g' = g_ist g /\ g_il g' = g_il g /\ g_gen g' = g_gen g /\
  (forall c', c_q (ch g' c') = c_q (ch g c') /\ c_sent (ch g' c') = c_sent (ch g c') /\ c_rcvd (ch g' c') = c_rcvd (ch g c')
              /\ c_wc (ch g' c') = c_wc (ch g c')).
Proof.
  intros g. unfold close_sockets. destruct (g_sockets g) eqn:Hs; fin_frame.
Qed.

(* ---------- roles: which thread can be at which program counter, with which continuation ---------- *)

Definition upc_ok (t : tid) (l : local) : Prop :=
  match l_pc l, l_k l with
  | PIdle, [] => True
  | PSendCS CI None, [KShutdown _] => t = 0
  | PSendSig CI _, [KShutdown _] => t = 0
  | PSendCS _ _, [] => True
  | PSendSig _ _, [] => True
  | PRecvAbsorb CO _, [] | PRecvCS CO _, [] | PRecvGot CO _ _, [] | PRecvNone CO _, [] | PRecvPark CO _, [] => t = 0
  | PStartRead, [] | PStartSpawn _, [] | PStartSpawned, [] | PStartCheck, [] | PStartSig _, [] | PShutdown _, [] | PGetSock, [] => t = 0
  | PJoinTest, [] | PJoinWait, [] | PJoinTest, [KDiscard] | PJoinWait, [KDiscard] => t = 0
  | PUser UPing, [] => True
  | PUser _, [] => t = 0
  | _, _ => False
  end.

Definition ipc_ok (l : local) : Prop :=
  match l_pc l, l_k l with
  | PIEntry, [] | PIStartupCS, [] | PIAfterStartup, [] | PILoop, [] | PIEvLoop, [] | PIEvWait, [] | PIEvPoll, [] | PIExit, [] => True
  | PRecvAbsorb CI _, [KLoop] | PRecvCS CI _, [KLoop] | PRecvGot CI _ _, [KLoop] | PRecvNone CI _, [KLoop] | PRecvPark CI _, [KLoop] => True
  | PSendCS _ _, [KReplies _ _] | PSendSig _ _, [KReplies _ _] => True
  | _, _ => False
  end.

Definition ist_none (i : istat) : bool := match i with INone => true | _ => false end.

Record wf (m e : bool) (s : sys) : Prop := mkWf {
  wf_sockets : g_sockets (s_g s) = m;
  wf_evd : g_evd (s_g s) = e;
  wf_running : g_running (s_g s) = negb (ist_none (g_ist (s_g s)));
  wf_live_sock : g_ist (s_g s) = ILive -> g_sockets (s_g s) = true -> g_alloc (s_g s) = true /\ g_iopen (s_g s) = true;
  wf_wc_alloc : g_sockets (s_g s) = false -> g_alloc (s_g s) = true;
  wf_none_open : g_ist (s_g s) = INone -> g_sockets (s_g s) = true -> g_alloc (s_g s) = true -> g_iopen (s_g s) = true;
  wf_upc : forall t, upc_ok t (s_l s t);
  wf_ipc : g_ist (s_g s) = ILive -> ipc_ok (g_il (s_g s));
  wf_start_idle : forall n, l_pc (s_l s 0) = PStartSpawn n -> g_running (s_g s) = false
}.

(* normalises goals about the result of a wake-up with refreshed socket-set flags / of a user-socket operation: those
   touch nothing but g_usr *)
Ltac usr_norm :=
  unfold park_flags in *;
  repeat match goal with
  | |- context [match ?x with CI => _ | CO => _ end] => destruct x
  | |- context [if u_reg ?u then _ else _] => destruct (u_reg u) eqn:?
  end; simpl in *.

Section Wf.
Variable early : bool.
Variable absorb_n : nat.
Variable no_limit : N.
Variable react : nat -> list (chanid * msg) * bool.
Variable ok : label -> bool.
Variables smode emode : bool.

Notation step := (step early absorb_n no_limit react).
Notation sys_step := (sys_step early absorb_n no_limit react).
Notation reachable_if := (reachable_if early absorb_n no_limit react).

Lemma upd_same : forall f t v, upd f t v t = v.
Proof. intros. unfold upd. rewrite Nat.eqb_refl. reflexivity. Qed.

Lemma upd_other : forall f t v x, x <> t -> upd f t v x = f x.
Proof. intros. unfold upd. destruct (Nat.eqb_spec x t); congruence. Qed.

(* what [ret] can produce, by the shape of the continuation *)
Lemma ret_nil : forall ev r, ret react ev r [] = (PIdle, [], [ERet r]).
Proof. reflexivity. Qed.

Lemma next_reply_ipc : forall ev rs q p k' e', next_reply ev rs q [] = (p, k', e') -> ipc_ok (mkL p k').
Proof.
  intros ev rs q p k' e' H. unfold next_reply in H. destruct rs as [|[c m] rest].
  - inversion H; subst. destruct q; [|destruct ev]; exact Coq.Init.Logic.I.
  - inversion H; subst. exact Coq.Init.Logic.I.
Qed.

Lemma ret_internal : forall ev r k p k' e', (k = [KLoop] \/ exists rs q, k = [KReplies rs q]) ->
  ret react ev r k = (p, k', e') -> ipc_ok (mkL p k').
Proof.
  intros ev r k p k' e' [Hk | [rs [q Hk]]] H; subst; simpl in H.
  - unfold dispatch in H. destruct r as [ | [x|] n | | | | | | ]; try (inversion H; subst; exact Coq.Init.Logic.I).
    + destruct (next_reply ev (fst (react x)) (snd (react x)) []) as [[p0 k0] e0] eqn:Hn. inversion H; subst.
      eapply next_reply_ipc; eauto.
    + inversion H; subst. destruct ev; exact Coq.Init.Logic.I.
  - eapply next_reply_ipc; eauto.
Qed.

Ltac inv H := inversion H; subst; clear H.

(* ---------- the step function as a relation, one constructor per behaviour (the big case analysis is done once) ---------- *)

Definition enq (x : chan) (m : msg) : chan := mkCh (c_q x ++ [m]) (c_sig x) (c_wc x) (c_sent x ++ [m]) (c_rcvd x).
Definition deq (x : chan) (m : msg) (r : list msg) : chan := mkCh r (c_sig x) (c_wc x) (c_sent x) (c_rcvd x ++ [m]).
Definition spawned (g : gst) : gst :=
  mkG (g_sockets g) (g_evd g) (g_alloc g) true (g_iopen g) (g_ci g) (g_co g) ILive (mkL PIEntry []) (S (g_gen g)) (g_usr g).
Definition joined (g : gst) : gst :=
  mkG (g_sockets g) (g_evd g) (g_alloc g) false (g_iopen g) (g_ci g) (g_co g) INone (g_il g) (g_gen g) (g_usr g).
Definition exited (g : gst) : gst :=
  mkG (g_sockets g) (g_evd g) (g_alloc g) (g_running g) (if g_sockets g then false else g_iopen g)
      (if g_sockets g then with_sig (g_ci g) 0 else g_ci g) (g_co g) IExited (g_il g) (g_gen g) (g_usr g).

(* the operations on the owner's user-registered socket: new state and result *)
Definition user_step (u : uop) (g : gst) : gst * res :=
  match u with
  | UReg => if g_sockets g then (set_usr (mkU true (u_bytes (g_usr g)) false) g, ROk) else (g, RBadObject)
  | UUnreg => if g_sockets g
              then (if u_reg (g_usr g) then (set_usr (mkU false (u_bytes (g_usr g)) false) g, ROk) else (g, RNotFound))
              else (g, RBadObject)
  | UPing => (set_usr (mkU (u_reg (g_usr g)) (S (u_bytes (g_usr g))) (u_flag (g_usr g))) g, RVoid)
  | UEat => (set_usr (mkU (u_reg (g_usr g)) 0 (u_flag (g_usr g))) g, RVoid)
  end.

Lemma wakeable_wc : forall g x, g_sockets g = false -> wakeable g x = readable g x.
Proof. intros g x H. unfold wakeable, uready. rewrite H. destruct x; simpl; apply orb_false_r. Qed.

Lemma user_step_frame : forall u g g' r, user_step u g = (g', r) -> exists x, g' = set_usr x g.
Proof.
  intros u g g' r H. destruct u; simpl in H;
    repeat match type of H with context [if ?b then _ else _] => destruct b end; inv H; eauto;
    exists (g_usr g'); destruct g'; reflexivity.
Qed.

Inductive Step : choice -> gst -> local -> gst -> local -> list ev -> Prop :=
| S_SendCS : forall g k x m,
    Step CRun g (mkL (PSendCS x m) k) (set_ch x (enq (ch g x) m) g)
         (mkL (PSendSig x (Nat.eqb (length (c_q (ch g x) ++ [m])) 1)) k) [EDump]
| S_SendSig_first : forall g k x g' e p k' e',
    signal no_limit x g = (g', e) -> ret react (g_evd g') ROk k = (p, k', e') ->
    Step CRun g (mkL (PSendSig x true) k) g' (mkL p k') (e ++ e')
| S_SendSig_not : forall g k x p k' e',
    ret react (g_evd g) ROk k = (p, k', e') ->
    Step CRun g (mkL (PSendSig x false) k) g (mkL p k') ([] ++ e')
| S_Absorb : forall g k x w,
    Step CRun g (mkL (PRecvAbsorb x w) k) (absorb absorb_n x g) (mkL (PRecvCS x w) k) []
| S_RecvCS_none : forall g k x w,
    c_q (ch g x) = [] ->
    Step CRun g (mkL (PRecvCS x w) k) g (mkL (PRecvNone x w) k) [EDump]
| S_RecvCS_some : forall g k x w m r,
    c_q (ch g x) = m :: r ->
    Step CRun g (mkL (PRecvCS x w) k) (set_ch x (deq (ch g x) m r) g) (mkL (PRecvGot x m (length r)) k) [EDump]
| S_RecvGot : forall g k x m n p k' e',
    ret react (g_evd g) (RMsg m n) k = (p, k', e') ->
    Step CRun g (mkL (PRecvGot x m n) k) g (mkL p k') ([] ++ e')
| S_RecvNone_poll : forall g k x p k' e',
    ret react (g_evd g) RTimedOut k = (p, k', e') ->
    Step CRun g (mkL (PRecvNone x WPoll) k) g (mkL p k') ([] ++ e')
| S_RecvNone_park : forall g k x w n,
    w <> WPoll -> (g_sockets g = true -> fd_ok g x = true) ->
    Step CRun g (mkL (PRecvNone x w) k) g (mkL (PRecvPark x w) k) [EPark x n]
| S_RecvNone_bad : forall g k x w p k' e',
    w <> WPoll -> g_sockets g = true -> fd_ok g x = false ->
    ret react (g_evd g) RBadObject k = (p, k', e') ->
    Step CRun g (mkL (PRecvNone x w) k) g (mkL p k') ([] ++ e')
| S_Park_wake_sock : forall g k x w,
    readable g x = true -> g_sockets g = true ->
    Step CRun g (mkL (PRecvPark x w) k) (park_flags x g) (mkL (PRecvAbsorb x WPoll) k) [EWoken]
| S_Park_wake_wc : forall g k x w,
    wakeable g x = true -> g_sockets g = false ->
    Step CRun g (mkL (PRecvPark x w) k) (set_ch x (with_wc (ch g x) 0%N) g) (mkL (PRecvAbsorb x w) k) [EWoken]
| S_Park_timeout : forall g k x p k' e',
    ret react (g_evd g) RTimedOut k = (p, k', e') ->
    Step CTimeout g (mkL (PRecvPark x WTimed) k) g (mkL p k') ([ETimeout] ++ e')
| S_StartRead_running : forall g k p k' e',
    g_running g = true -> ret react (g_evd g) RAlreadyRunning k = (p, k', e') ->
    Step CRun g (mkL PStartRead k) g (mkL p k') ([] ++ e')
| S_StartRead_go : forall g k,
    g_running g = false ->
    Step CRun g (mkL PStartRead k) g (mkL (PStartSpawn (if early then negb (is_nil (c_q (g_ci g))) else false)) k) []
| S_StartSpawn : forall g k needs,
    Step CRun g (mkL (PStartSpawn needs) k) (spawned (alloc_sockets g))
         (mkL (if early then PStartSig needs else PStartSpawned) k) [EFork]
| S_StartSpawned : forall g k, Step CRun g (mkL PStartSpawned k) g (mkL PStartCheck k) []
| S_StartCheck : forall g k,
    Step CRun g (mkL PStartCheck k) g (mkL (PStartSig (negb (is_nil (c_q (g_ci g))))) k) [EDump]
| S_StartSig_yes : forall g k g' e p k' e',
    signal no_limit CI g = (g', e) -> ret react (g_evd g') ROk k = (p, k', e') ->
    Step CRun g (mkL (PStartSig true) k) g' (mkL p k') (e ++ e')
| S_StartSig_no : forall g k p k' e',
    ret react (g_evd g) ROk k = (p, k', e') ->
    Step CRun g (mkL (PStartSig false) k) g (mkL p k') ([] ++ e')
| S_Shutdown_running : forall g k w,
    g_running g = true ->
    Step CRun g (mkL (PShutdown w) k) g (mkL (PSendCS CI None) (KShutdown w :: k)) []
| S_Shutdown_not : forall g k w p k' e',
    g_running g = false -> ret react (g_evd g) RVoid k = (p, k', e') ->
    Step CRun g (mkL (PShutdown w) k) g (mkL p k') ([] ++ e')
| S_JoinTest_running : forall g k,
    g_running g = true ->
    Step CRun g (mkL PJoinTest k) g (mkL PJoinWait k) [EJoin]
| S_JoinTest_not : forall g k p k' e',
    g_running g = false -> ret react (g_evd g) RBadObject k = (p, k', e') ->
    Step CRun g (mkL PJoinTest k) g (mkL p k') ([] ++ e')
| S_JoinWait : forall g k p k' e',
    g_ist g = IExited -> ret react (g_evd (joined (close_sockets g))) ROk k = (p, k', e') ->
    Step CRun g (mkL PJoinWait k) (joined (close_sockets g)) (mkL p k') ([] ++ e')
| S_GetSock : forall g k p k' e',
    ret react (g_evd (alloc_sockets g)) RVoid k = (p, k', e') ->
    Step CRun g (mkL PGetSock k) (alloc_sockets g) (mkL p k') ([] ++ e')
| S_IEntry : forall g k, Step CRun g (mkL PIEntry k) g (mkL PIStartupCS k) [EBegin]
| S_IStartupCS_empty : forall g k,
    c_q (g_co g) = [] -> Step CRun g (mkL PIStartupCS k) g (mkL PIAfterStartup k) [EDump]
| S_IStartupCS_signal : forall g k g' e,
    c_q (g_co g) <> [] -> signal no_limit CO g = (g', e) ->
    Step CRun g (mkL PIStartupCS k) g' (mkL PIAfterStartup k) (e ++ [EDump])
| S_IAfterStartup : forall g k, Step CRun g (mkL PIAfterStartup k) g (mkL PILoop k) []
| S_ILoop_default : forall g k,
    g_evd g = false -> Step CRun g (mkL PILoop k) g (mkL (PRecvAbsorb CI WNever) (KLoop :: k)) []
| S_ILoop_evd : forall g k,
    g_evd g = true -> Step CRun g (mkL PILoop k) g (mkL PIEvLoop k) []
| S_IEvLoop_park : forall g k,
    fd_ok g CI = true -> Step CRun g (mkL PIEvLoop k) g (mkL PIEvWait k) [EPark CI (c_sig (g_ci g))]
| S_IEvLoop_exit : forall g k,
    fd_ok g CI = false -> Step CRun g (mkL PIEvLoop k) g (mkL PIExit k) []
| S_IEvWait : forall g k,
    readable g CI = true -> Step CRun g (mkL PIEvWait k) g (mkL PIEvPoll k) [EWoken]
| S_IEvPoll : forall g k, Step CRun g (mkL PIEvPoll k) g (mkL (PRecvAbsorb CI WPoll) (KLoop :: k)) []
| S_IExit : forall g k, Step CRun g (mkL PIExit k) (exited g) (mkL PIDone k) [EEnd]
| S_Park_wake_io : forall g k x w p k' e',
    wakeable g x = true -> readable g x = false -> g_sockets g = true ->
    ret react (g_evd (park_flags x g)) RIoReady k = (p, k', e') ->
    Step CRun g (mkL (PRecvPark x w) k) (park_flags x g) (mkL p k') ([EWoken] ++ e')
| S_User : forall g k u g' r p k' e',
    user_step u g = (g', r) -> ret react (g_evd g') r k = (p, k', e') ->
    Step CRun g (mkL (PUser u) k) g' (mkL p k') ([] ++ e').

Lemma step_spec : forall c g l g' l' ev, step c g l = Some (g', l', ev) -> Step c g l g' l' ev.
Proof.
  intros c g [p k] g' l' ev H.
  unfold ThreadQ.step, goto, fin in H. simpl in H.
  destruct p; destruct c; try discriminate;
    try (inv H; apply S_IExit; fail);
    try (inv H; apply S_StartSpawn; fail);
    repeat match type of H with
    | context [match ?x with _ => _ end] => lazymatch x with early => fail | _ => destruct x eqn:? end
    | context [if ?x then _ else _] => lazymatch x with early => fail | _ => destruct x eqn:? end
    end; try discriminate; inv H;
    try (econstructor; eauto; congruence);
    try (eapply S_User; [unfold user_step; repeat match goal with Hb : _ = true |- _ => rewrite Hb | Hb : _ = false |- _ => rewrite Hb end; reflexivity
                        | simpl; eassumption]).
  - apply S_IStartupCS_empty. destruct (c_q (g_co g')); [reflexivity | discriminate].
  - eapply S_IStartupCS_signal; eauto. destruct (c_q (g_co g)); [discriminate | congruence].
Qed.

Ltac destr_k k := destruct k as [|[] [|? ?]]; try contradiction.

Ltac kill_ret :=
  repeat match goal with
  | Hr : ret _ _ _ _ = _ |- _ => simpl in Hr
  | Hr : (if ?w then _ else _) = (_, _, _) |- _ => destruct w
  | Hr : (_, _, _) = (_, _, _) |- _ => inv Hr
  end.

(* a step of a user thread keeps it inside its role *)
Lemma step_upc : forall t c g l g' l' ev, upc_ok t l -> Step c g l g' l' ev -> upc_ok t l'.
Proof.
  intros t c g l g' l' ev Hok HS.
  inversion HS; subst; clear HS; unfold upc_ok in *; simpl in *;
    repeat match goal with
    | x : chanid |- _ => destruct x
    | x : msg |- _ => destruct x
    | x : uop |- _ => destruct x
    end; try contradiction;
    destr_k k; kill_ret; simpl; auto;
    try (destruct early; simpl; auto).
Qed.

(* a step of the internal thread keeps it inside its role, until it finishes *)
Lemma step_ipc : forall c g l g' l' ev, ipc_ok l -> Step c g l g' l' ev ->
  ipc_ok l' \/ (l_pc l' = PIDone /\ g' = exited g).
Proof.
  intros c g l g' l' ev Hok HS.
  inversion HS; subst; clear HS; unfold ipc_ok in Hok; simpl in Hok;
    repeat match goal with
    | x : chanid |- _ => destruct x
    end; try contradiction;
    destr_k k;
    try (right; split; reflexivity);
    left;
    try (match goal with Hr : ret _ _ _ _ = _ |- _ => eapply ret_internal; [| exact Hr]; eauto end);
    try exact Coq.Init.Logic.I.
Qed.

Lemma is_nil_true : forall A (l : list A), is_nil l = true -> l = [].
Proof. intros A [|x l] H; [reflexivity | discriminate]. Qed.

(* the constant fields *)
Lemma Step_const : forall c g l g' l' ev, Step c g l g' l' ev -> g_sockets g' = g_sockets g /\ g_evd g' = g_evd g.
Proof.
  intros c g l g' l' ev HS. inversion HS; subst; clear HS; auto;
    try (match goal with Hs : signal _ _ _ = _ |- _ => apply signal_frame in Hs; tauto end);
    try (destruct x; simpl; auto; fail);
    try (usr_norm; auto; fail);
    try (match goal with Hu : user_step _ _ = _ |- _ => apply user_step_frame in Hu; destruct Hu as [? ->]; simpl; auto end).
  - pose proof (absorb_frame absorb_n x g). simpl in *. tauto.
  - unfold spawned; simpl. pose proof (alloc_frame g). simpl in *. tauto.
  - unfold joined; simpl. pose proof (close_frame g). simpl in *. tauto.
  - pose proof (alloc_frame g). simpl in *. tauto.
Qed.

(* the part of wf that speaks about the Thread object's flags only *)
Definition wfg (g : gst) : Prop :=
  g_running g = negb (ist_none (g_ist g)) /\
  (g_ist g = ILive -> g_sockets g = true -> g_alloc g = true /\ g_iopen g = true) /\
  (g_sockets g = false -> g_alloc g = true) /\
  (g_ist g = INone -> g_sockets g = true -> g_alloc g = true -> g_iopen g = true).

Lemma wfg_set_ch : forall c x g, wfg (set_ch c x g) <-> wfg g.
Proof. intros [] x g; unfold wfg; simpl; tauto. Qed.

Lemma wfg_set_usr : forall u g, wfg (set_usr u g) <-> wfg g.
Proof. intros u g; unfold wfg; simpl; tauto. Qed.

Lemma wfg_park_flags : forall x g, wfg g -> wfg (park_flags x g).
Proof. intros x g W. unfold park_flags. destruct x; auto. destruct (u_reg (g_usr g)); auto. Qed.

Lemma wfg_user_step : forall u g g' r, user_step u g = (g', r) -> wfg g -> wfg g'.
Proof. intros u g g' r H W. apply user_step_frame in H. destruct H as [x ->]. apply wfg_set_usr. exact W. Qed.

Lemma wfg_signal : forall nl c g g' e, signal nl c g = (g', e) -> wfg g -> wfg g'.
Proof.
  intros nl c g g' e H W. apply signal_frame in H.
  destruct H as (H1 & _ & H3 & H4 & H5 & H6 & _). unfold wfg in *. rewrite H1, H3, H4, H5, H6. exact W.
Qed.

Lemma wfg_absorb : forall c g, wfg g -> wfg (absorb absorb_n c g).
Proof.
  intros c g W. pose proof (absorb_frame absorb_n c g) as H. simpl in H.
  destruct H as (H1 & _ & H3 & H4 & H5 & H6 & _). unfold wfg in *. rewrite H1, H3, H4, H5, H6. exact W.
Qed.

Lemma wfg_alloc : forall g, wfg g -> g_ist g <> IExited -> wfg (alloc_sockets g).
Proof.
  intros g W Hx. unfold alloc_sockets. destruct (g_sockets g && negb (g_alloc g)) eqn:Hc; [|exact W].
  apply andb_true_iff in Hc. destruct Hc as [Hs Ha]. apply negb_true_iff in Ha.
  unfold wfg in *; simpl. destruct W as (W1 & W2 & W3 & W4). repeat split; auto.
Qed.

Lemma wfg_spawn : forall g, wfg g -> g_ist g = INone -> wfg (spawned (alloc_sockets g)).
Proof.
  intros g (W1 & W2 & W3 & W4) Hn. unfold wfg, spawned, alloc_sockets.
  destruct (g_sockets g) eqn:Hs; destruct (g_alloc g) eqn:Ha; simpl; rewrite ?Hs, ?Ha; simpl;
    repeat split; intros; auto; try congruence.
Qed.

Lemma Step_wfg_user : forall t c g l g' l' ev,
  wfg g -> upc_ok t l -> (forall n, l_pc l = PStartSpawn n -> g_running g = false) ->
  Step c g l g' l' ev -> wfg g'.
Proof.
  intros t c g l g' l' ev W Hok Hsp HS.
  inversion HS; subst; clear HS; auto;
    try (unfold upc_ok in Hok; simpl in Hok; contradiction);
    try (eapply wfg_signal; eauto; fail);
    try (apply wfg_park_flags; assumption);
    try (eapply wfg_user_step; eauto; fail).
  - apply wfg_set_ch; exact W.
  - apply wfg_absorb; exact W.
  - apply wfg_set_ch; exact W.
  - apply wfg_set_ch; exact W.
  - (* spawn *)
    assert (Hr : g_running g = false) by (eapply Hsp; reflexivity).
    assert (Hn : g_ist g = INone).
    { destruct W as (W1 & _). rewrite Hr in W1. destruct (g_ist g); simpl in W1; congruence. }
    apply wfg_spawn; assumption.
  - (* join *)
    unfold wfg in *. unfold joined, close_sockets; destruct (g_sockets g) eqn:Hs; simpl; rewrite ?Hs;
      destruct W as (W1 & W2 & W3 & W4); repeat split; auto; try congruence.
  - (* get socket *)
    destruct (g_ist g) eqn:Hi.
    + apply wfg_alloc; [exact W | congruence].
    + unfold alloc_sockets. destruct (g_sockets g && negb (g_alloc g)) eqn:Hc; [|exact W].
      apply andb_true_iff in Hc. destruct Hc as [Hs Ha]. apply negb_true_iff in Ha.
      destruct W as (_ & W2 & _). destruct (W2 Hi Hs). congruence.
    + (* the thread has exited but was not joined: the pair is still allocated *)
      unfold alloc_sockets. destruct (g_sockets g && negb (g_alloc g)) eqn:Hc; [|exact W].
      (* not excluded by wfg alone: treated below with the stronger invariant *)
      apply andb_true_iff in Hc. destruct Hc as [Hs Ha]. apply negb_true_iff in Ha.
      unfold wfg in *; simpl. rewrite Hi in *. destruct W as (W1 & W2 & W3 & W4). repeat split; auto; congruence.
Qed.

Lemma wfg_exited : forall g, wfg g -> g_ist g = ILive -> wfg (exited g).
Proof.
  intros g (W1 & W2 & W3 & W4) Hl. unfold wfg, exited; simpl. rewrite Hl in W1. simpl in W1.
  repeat split; intros; auto; try congruence.
Qed.

Lemma Step_wfg_int : forall c g l g' l' ev,
  wfg g -> g_ist g = ILive -> ipc_ok l -> Step c g l g' l' ev -> wfg g'.
Proof.
  intros c g l g' l' ev W Hl Hok HS.
  inversion HS; subst; clear HS; auto;
    try (unfold ipc_ok in Hok; simpl in Hok; contradiction);
    try (eapply wfg_signal; eauto; fail);
    try (apply wfg_park_flags; assumption);
    try (eapply wfg_user_step; eauto; fail).
  - apply wfg_set_ch; exact W.
  - apply wfg_absorb; exact W.
  - apply wfg_set_ch; exact W.
  - apply wfg_set_ch; exact W.
  - apply wfg_exited; assumption.
Qed.

(* which steps touch _threadRunning / the native thread *)
Lemma Step_running : forall c g l g' l' ev, Step c g l g' l' ev ->
  (exists n, l_pc l = PStartSpawn n) \/ l_pc l = PJoinWait \/ l_pc l = PIExit \/
  (g_running g' = g_running g /\ g_ist g' = g_ist g /\ g_il g' = g_il g /\ g_gen g' = g_gen g).
Proof.
  intros c g l g' l' ev HS. inversion HS; subst; clear HS; simpl; eauto;
    try (right; right; right;
         try match goal with Hs : signal _ _ _ = _ |- _ => apply signal_frame in Hs end;
         try match goal with Hu : user_step _ _ = _ |- _ => apply user_step_frame in Hu; destruct Hu as [? ->] end;
         unfold park_flags;
         try match goal with x : chanid |- _ => destruct x end;
         try match goal with |- context [if u_reg ?u then _ else _] => destruct (u_reg u) end; simpl; tauto).
  - right; right; right. pose proof (absorb_frame absorb_n x g). simpl in *. tauto.
  - right; right; right. pose proof (alloc_frame g). simpl in *. tauto.
Qed.

Lemma wf_wfg : forall s, wf smode emode s -> wfg (s_g s).
Proof. intros s W. destruct W. unfold wfg. auto. Qed.

Lemma wf_init : wf smode emode (sys0 smode emode).
Proof.
  constructor; simpl; auto; try discriminate.
  - intros H. rewrite H. reflexivity.
  - intros _ H1 H2. rewrite H1 in H2. discriminate.
  - intros t. exact Coq.Init.Logic.I.
Qed.

Lemma wf_step : forall s lab s' ev, wf smode emode s -> sys_step s lab = Some (s', ev) -> wf smode emode s'.
Proof.
  intros s lab s' ev W H. pose proof (wf_wfg s W) as Wg.
  destruct lab as [t o | [t|] c]; simpl in H.
  - (* begin *)
    destruct (begin_op t o (s_l s t)) eqn:Hb; [|discriminate]. inv H.
    unfold begin_op in Hb. destruct (l_pc (s_l s t)) eqn:Hp; try discriminate.
    destruct (l_k (s_l s t)) eqn:Hk; try discriminate.
    destruct (allowed t o) eqn:Ha; [|discriminate]. inv Hb.
    destruct W. constructor; simpl; auto.
    + intros x. unfold upd. destruct (Nat.eqb_spec x t); [subst x | auto].
      unfold upc_ok; simpl. destruct o as [[] [?|] | | | | | | []]; simpl in *; auto; apply Nat.eqb_eq; exact Ha.
    + intros n. unfold upd. destruct (Nat.eqb_spec 0 t); [subst t | eauto].
      simpl. destruct o; simpl; try discriminate.
  - (* a user thread's step *)
    destruct (step c (s_g s) (s_l s t)) as [[[g' l'] e']|] eqn:Hst; [|discriminate]. inv H.
    apply step_spec in Hst.
    pose proof (Step_const _ _ _ _ _ _ Hst) as [Hc1 Hc2].
    assert (Hu : upc_ok t (s_l s t)) by (apply (wf_upc _ _ _ W)).
    assert (Hsp0 := wf_start_idle _ _ _ W). assert (Hup := wf_upc _ _ _ W). assert (Hip := wf_ipc _ _ _ W).
    assert (Hws := wf_sockets _ _ _ W). assert (Hwe := wf_evd _ _ _ W). clear W.
    destruct (s_l s t) as [p k] eqn:El.
    assert (Hsp : forall n, l_pc (mkL p k) = PStartSpawn n -> g_running (s_g s) = false).
    { simpl. intros n Hn. subst p.
      assert (t = 0) by (unfold upc_ok in Hu; simpl in Hu; destruct k; [exact Hu | contradiction]).
      subst t. apply (Hsp0 n). rewrite El. reflexivity. }
    pose proof (Step_wfg_user _ _ _ _ _ _ _ Wg Hu Hsp Hst) as Wg'.
    destruct Wg' as (G1 & G2 & G3 & G4).
    constructor; simpl; auto; try congruence.
    + intros x. unfold upd. destruct (Nat.eqb_spec x t); [subst x | apply Hup].
      eapply step_upc; eauto.
    + (* the internal thread's place *)
      intros Hl'. destruct (Step_running _ _ _ _ _ _ Hst) as [[n Hn] | [Hj | [Hx | (R1 & R2 & R3 & R4)]]]; simpl in *.
      * subst p. inversion Hst; subst. simpl. exact Coq.Init.Logic.I.
      * subst p. inversion Hst; subst. simpl in Hl'. discriminate.
      * subst p. unfold upc_ok in Hu. simpl in Hu. contradiction.
      * rewrite R3. apply Hip. congruence.
    + (* a pending spawn means the thread is not running *)
      intros n. unfold upd. destruct (Nat.eqb_spec 0 t) as [Ht | Ht].
      * subst t. intros Hn. inversion Hst; subst; simpl in Hn; try discriminate;
          try (destruct early; discriminate);
          try (apply (Hsp false); reflexivity); try assumption;
          unfold upc_ok in Hu; simpl in Hu;
          repeat match goal with x : chanid |- _ => destruct x | x : msg |- _ => destruct x | x : uop |- _ => destruct x end;
          try contradiction; destr_k k; kill_ret; discriminate.
      * intros Hn. destruct (Step_running _ _ _ _ _ _ Hst) as [[n' Hn'] | [Hj | [Hx | (R1 & R2 & R3 & R4)]]]; simpl in *.
        -- exfalso. apply Ht. subst p. unfold upc_ok in Hu. simpl in Hu. destruct k; [auto | contradiction].
        -- exfalso. apply Ht. subst p. unfold upc_ok in Hu. simpl in Hu. destruct k as [|[] [|]]; try contradiction; auto.
        -- subst p. unfold upc_ok in Hu. simpl in Hu. contradiction.
        -- rewrite R1. eapply Hsp0; eauto.
  - (* the internal thread's step *)
    destruct (g_ist (s_g s)) eqn:Hl; try discriminate.
    destruct (step c (s_g s) (g_il (s_g s))) as [[[g' l'] e']|] eqn:Hst; [|discriminate]. inv H.
    apply step_spec in Hst.
    pose proof (Step_const _ _ _ _ _ _ Hst) as [Hc1 Hc2].
    assert (Hi : ipc_ok (g_il (s_g s))) by (apply (wf_ipc _ _ _ W); exact Hl).
    assert (Hsp0 := wf_start_idle _ _ _ W). assert (Hup := wf_upc _ _ _ W).
    assert (Hws := wf_sockets _ _ _ W). assert (Hwe := wf_evd _ _ _ W). clear W.
    pose proof (Step_wfg_int _ _ _ _ _ _ Wg Hl Hi Hst) as Wg'.
    destruct Wg' as (G1 & G2 & G3 & G4).
    destruct (g_il (s_g s)) as [p k] eqn:El.
    constructor; simpl; auto; try congruence.
    + intros Hl'. destruct (step_ipc _ _ _ _ _ _ Hi Hst) as [Hok | [_ Hx]]; [exact Hok|].
      subst g'. simpl in Hl'. discriminate.
    + intros n Hn. destruct (Step_running _ _ _ _ _ _ Hst) as [[n' Hn'] | [Hj | [Hx | (R1 & R2 & R3 & R4)]]]; simpl in *.
      * subst p. unfold ipc_ok in Hi. simpl in Hi. contradiction.
      * subst p. unfold ipc_ok in Hi. simpl in Hi. contradiction.
      * subst p. inversion Hst; subst. simpl. eapply Hsp0; eauto.
      * rewrite R1. eapply Hsp0; eauto.
Qed.

Theorem reachable_wf : forall s, reachable_if ok smode emode s -> wf smode emode s.
Proof.
  intros s H. induction H.
  - apply wf_init.
  - eapply wf_step; eauto.
Qed.

(* ---------- the FIFO history invariant ---------- *)

Definition fifo (g : gst) : Prop := forall c, c_sent (ch g c) = c_rcvd (ch g c) ++ c_q (ch g c).

(* every step extends the two histories of every queue (by nothing, or by the Message appended / removed) *)
Definition hist_ext (g g' : gst) : Prop :=
  forall c, exists a b, c_sent (ch g' c) = c_sent (ch g c) ++ a /\ c_rcvd (ch g' c) = c_rcvd (ch g c) ++ b.

Lemma hist_same : forall g g',
  (forall c, c_q (ch g' c) = c_q (ch g c) /\ c_sent (ch g' c) = c_sent (ch g c) /\ c_rcvd (ch g' c) = c_rcvd (ch g c)) ->
  (fifo g -> fifo g') /\ hist_ext g g'.
Proof.
  intros g g' H. split.
  - intros F c. destruct (H c) as (H1 & H2 & H3). rewrite H1, H2, H3. apply F.
  - intros c. destruct (H c) as (H1 & H2 & H3). exists [], []. rewrite !app_nil_r. auto.
Qed.

Lemma Step_hist : forall c g l g' l' ev, Step c g l g' l' ev -> (fifo g -> fifo g') /\ hist_ext g g'.
Proof.
  intros c g l g' l' ev HS. inversion HS; subst; clear HS;
    try (apply hist_same; intros c'; auto; fail);
    try (apply hist_same; intros c'; unfold park_flags; repeat match goal with y : chanid |- _ => destruct y end; try destruct (u_reg (g_usr g)); simpl; auto; fail);
    try (apply hist_same; intros c'; match goal with Hu : user_step _ _ = _ |- _ => apply user_step_frame in Hu; destruct Hu as [? ->] end;
         destruct c'; simpl; auto; fail);
    try (apply hist_same; intros c';
         match goal with Hs : signal _ _ _ = _ |- _ => apply signal_frame in Hs; destruct Hs as (_&_&_&_&_&_&_&_&Hs&_); apply Hs end).
  - (* enqueue *)
    split.
    + intros F c'. destruct (chan_eqb_spec x c') as [->|Hn].
      * rewrite ch_set_same. simpl. rewrite (F c'). rewrite app_assoc. reflexivity.
      * rewrite ch_set_other by exact Hn. apply F.
    + intros c'. destruct (chan_eqb_spec x c') as [->|Hn].
      * rewrite ch_set_same. simpl. exists [m], []. rewrite app_nil_r. auto.
      * rewrite ch_set_other by exact Hn. exists [], []. rewrite !app_nil_r. auto.
  - apply hist_same. intros c'. pose proof (absorb_frame absorb_n x g) as F. simpl in F.
    destruct F as (_&_&_&_&_&_&_&_&F&_). destruct (F c') as (F1 & F2 & F3 & _). auto.
  - (* dequeue *)
    split.
    + intros F c'. destruct (chan_eqb_spec x c') as [->|Hn].
      * rewrite ch_set_same. simpl. rewrite (F c'). rewrite H. rewrite <- app_assoc. reflexivity.
      * rewrite ch_set_other by exact Hn. apply F.
    + intros c'. destruct (chan_eqb_spec x c') as [->|Hn].
      * rewrite ch_set_same. simpl. exists [], [m]. rewrite app_nil_r. auto.
      * rewrite ch_set_other by exact Hn. exists [], []. rewrite !app_nil_r. auto.
  - apply hist_same. intros c'. pose proof (alloc_frame g) as F. simpl in F.
    destruct F as (_&_&_&_&_&_&F). destruct (F c') as (F1 & F2 & F3 & _).
    unfold spawned. destruct c'; simpl in *; auto.
  - apply hist_same. intros c'. pose proof (close_frame g) as F. simpl in F.
    destruct F as (_&_&_&_&_&_&F). destruct (F c') as (F1 & F2 & F3 & _).
    unfold joined. destruct c'; simpl in *; auto.
  - apply hist_same. intros c'. pose proof (alloc_frame g) as F. simpl in F.
    destruct F as (_&_&_&_&_&_&F). destruct (F c') as (F1 & F2 & F3 & _). auto.
  - apply hist_same. intros c'. unfold exited. destruct c'; simpl; destruct (g_sockets g); auto.
Qed.

Lemma sys_step_hist : forall s lab s' ev, sys_step s lab = Some (s', ev) ->
  (fifo (s_g s) -> fifo (s_g s')) /\ hist_ext (s_g s) (s_g s').
Proof.
  intros s lab s' ev H. destruct lab as [t o | [t|] c]; simpl in H.
  - destruct (begin_op t o (s_l s t)); [|discriminate]. inv H. simpl. apply hist_same. auto.
  - destruct (step c (s_g s) (s_l s t)) as [[[g' l'] e']|] eqn:Hst; [|discriminate]. inv H.
    simpl. eapply Step_hist. eapply step_spec; eauto.
  - destruct (g_ist (s_g s)); try discriminate.
    destruct (step c (s_g s) (g_il (s_g s))) as [[[g' l'] e']|] eqn:Hst; [|discriminate]. inv H.
    apply step_spec in Hst. apply Step_hist in Hst. destruct Hst as [F E]. simpl. split.
    + intros F0 c'. specialize (F F0 c'). destruct c'; exact F.
    + intros c'. specialize (E c'). destruct c'; exact E.
Qed.

Theorem reachable_fifo : forall s, reachable_if ok smode emode s -> fifo (s_g s).
Proof.
  intros s H. induction H.
  - intros []; reflexivity.
  - eapply sys_step_hist; eauto.
Qed.

End Wf.
