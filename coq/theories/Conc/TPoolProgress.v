(* C19 -- a bound on the work the pool still has to do: every step of a pool thread lowers it, only accepted
   submissions raise it, it is positive while anything is outstanding.  Together with pool_no_stuck (a pool thread can
   always move while something is outstanding) this is the termination argument behind "every accepted Message is
   handled" and "a blocked UnregisterClient() is woken": no transition the pool waits for can be disabled, and only
   finitely many of them fit between two submissions. *)
From Coq Require Import List Arith Bool Lia.
From Muscle Require Import Conc.TPool Conc.TPoolLemmas Conc.TPoolInv Conc.TPoolStep Conc.TPoolTrace Conc.TPoolProofs.
Import ListNotations.

Definition qsum (t : table (list nat)) : nat := fold_right (fun e acc => length (snd e) + acc) 0 t.
Definition pool_work (s : st) : nat := work (s_thr s) + 4 * (qsum (s_pend s) + qsum (s_defer s)).

Lemma qsum_cons : forall k q r, qsum ((k, q) :: r) = length q + qsum r.
Proof. reflexivity. Qed.

Lemma qsum_tset_some : forall k q q' t, tget k t = Some q -> qsum (tset k q' t) + length q = qsum t + length q'.
Proof.
  intros k q q' t. unfold qsum. induction t as [|[k0 v] r IH]; cbn; [discriminate|].
  destruct (Nat.eqb_spec k k0) as [->|Hn]; intros H.
  - injection H as ->. cbn. lia.
  - cbn. apply IH in H. lia.
Qed.

Lemma qsum_tset_none : forall k q' t, tget k t = None -> qsum (tset k q' t) = qsum t + length q'.
Proof.
  intros k q' t. unfold qsum. induction t as [|[k0 v] r IH]; cbn; [lia|].
  destruct (Nat.eqb_spec k k0) as [->|Hn]; [discriminate|]. intros H. cbn. apply IH in H. lia.
Qed.

Lemma qsum_tdel_le : forall k t, qsum (tdel k t) <= qsum t.
Proof.
  intros k t. unfold qsum. induction t as [|[k0 v] r IH]; cbn; [lia|].
  destruct (Nat.eqb k k0); cbn; lia.
Qed.

Lemma qsum_pos : forall k q t, tget k t = Some q -> q <> [] -> 0 < qsum t.
Proof.
  intros k q t. unfold qsum. induction t as [|[k0 v] r IH]; cbn; [discriminate|].
  destruct (Nat.eqb_spec k k0) as [->|Hn]; intros H Hq.
  - injection H as ->. destruct q; [congruence|cbn; lia].
  - pose proof (IH H Hq). lia.
Qed.

Lemma work_pos : forall t h c l, tget t l = Some h -> th_client h = Some c -> 0 < work l.
Proof.
  intros t h c l. unfold work. induction l as [|[k v] r IH]; cbn; [discriminate|].
  destruct (Nat.eqb_spec t k) as [->|Hn]; intros H Hc.
  - injection H as ->. unfold thr_work. rewrite Hc. lia.
  - pose proof (IH H Hc). lia.
Qed.

(* ---------------------------------------------------------------- a relational induction principle for the dispatch loop *)

Lemma dispatch_loop_rel : forall (R : st -> st -> Prop),
  (forall s, R s s) -> (forall s1 s2 s3, R s1 s2 -> R s2 s3 -> R s1 s3) ->
  (forall s b, R s (set_bad s b)) ->
  (forall s, SInv s -> s_shut s = false -> s_avail s = [] -> length (s_active s) < s_max s -> R s (spawn s)) ->
  (forall s t c mq rest, SInv s -> s_shut s = false -> last_opt (s_avail s) = Some t -> s_pend s = (c, mq) :: rest -> mq <> [] ->
                         R s (assign s t c mq)) ->
  forall fuel s, SInv s -> s_shut s = false -> R s (dispatch_loop fuel s).
Proof.
  intros R Hrefl Htrans Hbad Hspawn Hassign.
  induction fuel as [|f IH]; intros s I Hsh; [apply Hrefl|].
  destruct (s_pend s) as [|[c mq] rest] eqn:Hp; [cbn [dispatch_loop]; rewrite Hp; apply Hrefl|].
  pose proof (pend_head_ok _ _ _ _ I Hp) as Hmq. destruct mq as [|m0 mq]; [congruence|].
  rewrite (dispatch_loop_unfold f s c m0 mq rest I Hp). cbv zeta.
  assert (I0 : SInv (massert true s)) by (unfold massert; now apply SInv_set_bad).
  assert (O0 : R s (massert true s)) by apply Hbad.
  set (s0 := massert true s) in *.
  assert (Hsh0 : s_shut s0 = false) by exact Hsh.
  assert (Hp0 : s_pend s0 = (c, m0 :: mq) :: rest) by exact Hp.
  destruct (is_nil (s_avail s0) && (length (s_active s0) <? s_max s0)) eqn:Hsp.
  - apply andb_true_iff in Hsp. destruct Hsp as [Hnil Hlt]. apply is_nil_true in Hnil. apply Nat.ltb_lt in Hlt.
    pose proof (spawn_inv s0 I0 Hsh0 Hnil Hlt) as I1.
    pose proof (Hspawn s0 I0 Hsh0 Hnil Hlt) as O1.
    destruct (spawn_frame s0) as [F1 [F2 [F3 _]]].
    destruct (last_opt (s_avail (spawn s0))) as [t|] eqn:Hl; [|eapply Htrans; [exact O0|exact O1]].
    eapply Htrans; [exact O0|]. eapply Htrans; [exact O1|].
    eapply Htrans; [eapply Hassign; eauto; congruence|].
    apply IH.
    + eapply assign_inv; eauto; try congruence.
    + destruct (assign_frame (spawn s0) t c (m0 :: mq)) as [G1 _]. congruence.
  - destruct (last_opt (s_avail s0)) as [t|] eqn:Hl; [|exact O0].
    eapply Htrans; [exact O0|].
    eapply Htrans; [eapply Hassign; eauto; congruence|].
    apply IH.
    + eapply assign_inv; eauto; congruence.
    + destruct (assign_frame s0 t c (m0 :: mq)) as [G1 _]. congruence.
Qed.

Lemma dispatch_work_le : forall s, SInv s -> pool_work (dispatch s) <= pool_work s.
Proof.
  intros s I. unfold dispatch. destruct (s_shut s) eqn:Hsh; [lia|].
  apply (dispatch_loop_rel (fun a b => pool_work b <= pool_work a)); auto; try (intros; lia).
  - (* spawn: an idle thread *)
    intros s0 I0 _ _ _. unfold pool_work, spawn; sst. rewrite work_tset_none; [cbn; lia|].
    destruct (tget (s_ctr s0) (s_thr s0)) eqn:E; auto. apply (i_fresh_thr _ I0) in E. lia.
  - (* assign: 4 per pending Message become 2 per Message in the thread, + 2 *)
    intros s0 t c mq rest I0 _ Hl Hp Hmq.
    assert (Hin : In t (s_avail s0)) by now apply last_opt_In.
    destruct (i_avail_idle _ I0 t Hin) as [h0 [Ht0 [Hidle Hex]]].
    pose proof (idle_work h0 Hidle) as Hw0.
    apply thr_idle_spec in Hidle. destruct Hidle as [Hc0 [Hq0 Hr0]].
    unfold pool_work, assign, thr_of. rewrite Ht0. sst. rewrite Hp. cbn [tl].
    pose proof (work_tset_some t h0 (mkThr (Some c) mq (th_running h0) (th_exited h0)) _ Ht0) as Hw.
    unfold thr_work in Hw at 2. cbn [th_client th_queue th_running] in Hw. rewrite Hr0, Hw0 in Hw.
    rewrite qsum_cons, Hr0.
    destruct mq as [|m0 mq]; [congruence|]. cbn [length] in *. lia.
Qed.

(* ---------------------------------------------------------------- the measure along the transitions *)

Definition is_thread_label (l : label) : bool :=
  match l with LEnter _ | LExit _ | LFinish _ => true | _ => false end.
Definition is_submit (l : label) : bool := match l with LSubmit _ _ | LSubmitStale _ _ => true | _ => false end.

Lemma finish_work_lt : forall s t h c s' ev,
  Inv s -> tget t (s_thr s) = Some h -> th_client h = Some c -> th_queue h = [] -> th_running h = false ->
  finished (upd_thr s t (mkThr None [] false (th_exited h))) t c = (s', ev) -> pool_work s' < pool_work s.
Proof.
  intros s t h c s' ev [I [U W]] Ht Hc Hq Hr Hf. unfold finished in Hf.
  change (s_shut (upd_thr s t (mkThr None [] false (th_exited h)))) with (s_shut s) in Hf.
  pose proof (work_tset_some t h (mkThr None [] false (th_exited h)) _ Ht) as Hw.
  unfold thr_work in Hw. rewrite Hc, Hq, Hr in Hw. cbn [th_client th_queue th_running length] in Hw.
  destruct (s_shut s) eqn:Hsh.
  - injection Hf as <- <-. unfold pool_work; sst. lia.
  - pose proof (fin_core_inv s t h c I Hsh Ht Hc Hq Hr) as I2.
    destruct (fin_facts s t h c I Hsh Ht Hc) as [Hregc [Hpn [Hm Hex]]].
    set (s2 := fin_core (upd_thr s t (mkThr None [] false (th_exited h))) t c) in *.
    assert (H2 : pool_work s2 + 2 = pool_work s).
    { unfold s2, pool_work, fin_core; sst; rewrite Hregc; sst.
      destruct (tget c (s_defer s)) as [[|d0 dr]|] eqn:Hd; sst; rewrite ?Hm; sst; try lia.
      unfold qof. rewrite Hpn.
      pose proof (qsum_tset_none c (d0 :: dr) _ Hpn) as Q1.
      pose proof (qsum_tset_some c (d0 :: dr) [] _ Hd) as Q2. cbn [length] in *. lia. }
    pose proof (dispatch_work_le s2 I2) as H3.
    destruct (fin_notify_same _ _ _ _ Hf) as [N1 [N2 [N3 _]]].
    unfold pool_work in *. rewrite N1, N2, N3. lia.
Qed.

Theorem pool_work_step : forall n ls s tr, run (init n) ls = Some (s, tr) -> forall l s' ev, step s l = Some (s', ev) ->
  (is_thread_label l = true -> pool_work s' < pool_work s) /\
  (is_submit l = false -> pool_work s' <= pool_work s) /\
  (is_submit l = true -> pool_work s' <= pool_work s + 4).
Proof.
  intros n ls s tr H l s' ev Hst. apply run_reach in H. pose proof (reach_inv _ _ _ H) as HI. destruct HI as [I [U W]].
  destruct l as [c|c m|t|t|t|c|c|c| | | | |c m]; cbn [step is_thread_label is_submit] in *;
    (split; [try discriminate|split; try discriminate]); intros _.
  - destruct (in_unreg s c); [discriminate|]. destruct (lmem c (s_cl s)); injection Hst as <- <-; unfold pool_work; sst; lia.
  - destruct (in_unreg s c); [discriminate|]. destruct (lmem c (s_cl s)); [|injection Hst as <- <-; lia].
    destruct (pool_send s c m) as [s1 r] eqn:Hs. injection Hst as <- <-. unfold pool_send in Hs.
    destruct (tget c (s_reg s)) as [[|]|] eqn:Hr.
    + injection Hs as <- <-. unfold pool_work, tappend; sst. unfold qof.
      destruct (tget c (s_defer s)) as [q|] eqn:E.
      * pose proof (qsum_tset_some c q (q ++ [m]) _ E) as Q. rewrite app_length in Q. cbn [length] in Q. lia.
      * cbn [app]. pose proof (qsum_tset_none c [m] _ E) as Q. cbn [length] in Q. lia.
    + set (s1' := set_pend s (tappend c m (s_pend s))) in *.
      assert (H1 : pool_work s1' <= pool_work s + 4).
      { unfold s1', pool_work, tappend; sst. unfold qof.
        destruct (tget c (s_pend s)) as [q|] eqn:E.
        * pose proof (qsum_tset_some c q (q ++ [m]) _ E) as Q. rewrite app_length in Q. cbn [length] in Q. lia.
        * cbn [app]. pose proof (qsum_tset_none c [m] _ E) as Q. cbn [length] in Q. lia. }
      destruct (_ =? 1); injection Hs as <- <-; auto.
      pose proof (dispatch_work_le s1' (send_pend_inv s c m I Hr)). lia.
    + injection Hs as <- <-. lia.
  - destruct (tget t (s_thr s)) as [h|] eqn:Ht; [|discriminate].
    destruct (th_client h) as [c|] eqn:Hc; [|discriminate]. destruct (th_queue h) as [|m q] eqn:Hq; [discriminate|].
    destruct (th_running h) eqn:Hr; [discriminate|]. injection Hst as <- <-. unfold pool_work; sst.
    pose proof (work_tset_some t h (mkThr (Some c) (m :: q) true (th_exited h)) _ Ht) as Hw.
    unfold thr_work in Hw. rewrite Hc, Hq, Hr in Hw. cbn [th_client th_queue th_running length] in Hw. lia.
  - destruct (tget t (s_thr s)) as [h|] eqn:Ht; [|discriminate].
    destruct (th_client h) as [c|] eqn:Hc; [|discriminate]. destruct (th_queue h) as [|m q] eqn:Hq; [discriminate|].
    destruct (th_running h) eqn:Hr; [discriminate|]. injection Hst as <- <-. unfold pool_work; sst.
    pose proof (work_tset_some t h (mkThr (Some c) (m :: q) true (th_exited h)) _ Ht) as Hw.
    unfold thr_work in Hw. rewrite Hc, Hq, Hr in Hw. cbn [th_client th_queue th_running length] in Hw. lia.
  - destruct (tget t (s_thr s)) as [h|] eqn:Ht; [|discriminate].
    destruct (th_client h) as [c|] eqn:Hc; [|discriminate]. destruct (th_queue h) as [|m q] eqn:Hq; [discriminate|].
    destruct (th_running h) eqn:Hr; [|discriminate]. injection Hst as <- <-. unfold pool_work; sst.
    pose proof (work_tset_some t h (mkThr (Some c) q false (th_exited h)) _ Ht) as Hw.
    unfold thr_work in Hw. rewrite Hc, Hq, Hr in Hw. cbn [th_client th_queue th_running length] in Hw. lia.
  - destruct (tget t (s_thr s)) as [h|] eqn:Ht; [|discriminate].
    destruct (th_client h) as [c|] eqn:Hc; [|discriminate]. destruct (th_queue h) as [|m q] eqn:Hq; [discriminate|].
    destruct (th_running h) eqn:Hr; [|discriminate]. injection Hst as <- <-. unfold pool_work; sst.
    pose proof (work_tset_some t h (mkThr (Some c) q false (th_exited h)) _ Ht) as Hw.
    unfold thr_work in Hw. rewrite Hc, Hq, Hr in Hw. cbn [th_client th_queue th_running length] in Hw. lia.
  - destruct (tget t (s_thr s)) as [h|] eqn:Ht; [|discriminate].
    destruct (th_client h) as [c|] eqn:Hc; [|discriminate]. destruct (th_queue h) as [|m q] eqn:Hq; [|discriminate].
    destruct (th_running h) eqn:Hr; [discriminate|].
    destruct (finished (upd_thr s t (mkThr None [] false (th_exited h))) t c) as [s1 e1] eqn:Hfin.
    injection Hst as <- <-. eapply finish_work_lt; eauto. unfold Inv; auto.
  - destruct (tget t (s_thr s)) as [h|] eqn:Ht; [|discriminate].
    destruct (th_client h) as [c|] eqn:Hc; [|discriminate]. destruct (th_queue h) as [|m q] eqn:Hq; [|discriminate].
    destruct (th_running h) eqn:Hr; [discriminate|].
    destruct (finished (upd_thr s t (mkThr None [] false (th_exited h))) t c) as [s1 e1] eqn:Hfin.
    injection Hst as <- <-. apply Nat.lt_le_incl. eapply finish_work_lt; eauto. unfold Inv; auto.
  - destruct (in_unreg s c); [discriminate|]. destruct (lmem c (s_cl s) || sd_done (s_sd s)); [|discriminate].
    unfold unreg_begin in Hst. destruct (outstanding s c); injection Hst as <- <-; unfold pool_work; sst; lia.
  - destruct (tget c (s_unreg s)) as [[[|]|]|]; try discriminate. injection Hst as <- <-. unfold pool_work; sst. lia.
  - destruct (tget c (s_unreg s)) as [[|]|]; try discriminate. injection Hst as <- <-. unfold pool_work, unreg_end; sst.
    pose proof (qsum_tdel_le c (s_pend s)). pose proof (qsum_tdel_le c (s_defer s)). lia.
  - destruct (s_sd s); try discriminate. injection Hst as <- <-. unfold pool_work; sst. lia.
  - destruct (s_sd s) as [| |[|t r] nz|[|t r] [|]|]; try discriminate; injection Hst as <- <-; unfold pool_work; sst; lia.
  - destruct (s_sd s) as [| |[|t r] nz|[|t r] nz|]; try discriminate; cbv zeta in Hst;
      (destruct (thr_idle (thr_of s t)) eqn:Hid; [|discriminate]); injection Hst as <- <-; unfold pool_work; sst;
      rewrite (join_work s t Hid); lia.
  - destruct (s_sd s) as [| | |[|t r] [|]|]; try discriminate.
    destruct (shut_end s) as [s1 e1] eqn:He. injection Hst as <- <-.
    destruct (shut_end_fields s) as [_ [_ [_ [_ [_ [_ [A7 [A8 [_ [A10 _]]]]]]]]]]. rewrite He in A7, A8, A10. cbn [fst] in *.
    unfold pool_work. rewrite A7, A8, A10. cbn. lia.
  - destruct (in_unreg s c); [discriminate|]. destruct (lmem c (s_cl s)); [discriminate|]. destruct (s_sd s); try discriminate.
    destruct (pool_send s c m) as [s1 r] eqn:Hs. injection Hst as <- <-. unfold pool_send in Hs.
    destruct (tget c (s_reg s)) as [[|]|] eqn:Hr.
    + injection Hs as <- <-. unfold pool_work, tappend; sst. unfold qof.
      destruct (tget c (s_defer s)) as [q|] eqn:E.
      * pose proof (qsum_tset_some c q (q ++ [m]) _ E) as Q. rewrite app_length in Q. cbn [length] in Q. lia.
      * cbn [app]. pose proof (qsum_tset_none c [m] _ E) as Q. cbn [length] in Q. lia.
    + set (s1' := set_pend s (tappend c m (s_pend s))) in *.
      assert (H1 : pool_work s1' <= pool_work s + 4).
      { unfold s1', pool_work, tappend; sst. unfold qof.
        destruct (tget c (s_pend s)) as [q|] eqn:E.
        * pose proof (qsum_tset_some c q (q ++ [m]) _ E) as Q. rewrite app_length in Q. cbn [length] in Q. lia.
        * cbn [app]. pose proof (qsum_tset_none c [m] _ E) as Q. cbn [length] in Q. lia. }
      destruct (_ =? 1); injection Hs as <- <-; auto.
      pose proof (dispatch_work_le s1' (send_pend_inv s c m I Hr)). lia.
    + injection Hs as <- <-. lia.
Qed.

(* while anything of a client is outstanding (and Shutdown() has not begun) the measure is positive *)
Theorem pool_work_pos : forall n ls s tr, run (init n) ls = Some (s, tr) -> s_shut s = false ->
  forall c, outstanding s c = true -> 0 < pool_work s.
Proof.
  intros n ls s tr H Hsh c Ho. apply run_reach in H. destruct (reach_inv _ _ _ H) as [I [U W]].
  unfold pool_work. unfold outstanding in Ho. apply orb_true_iff in Ho. destruct Ho as [Ho|Hd].
  apply orb_true_iff in Ho. destruct Ho as [Hh|Hp].
  - unfold handled in Hh. destruct (tget c (s_reg s)) as [[|]|] eqn:Hr; try discriminate.
    destruct (i_reg_thr _ I Hsh c Hr) as [t [h [Ht Hc]]]. pose proof (work_pos t h c _ Ht Hc). lia.
  - apply negb_true_iff, is_nil_false in Hp. unfold qof in Hp. destruct (tget c (s_pend s)) as [q|] eqn:E; [|congruence].
    pose proof (qsum_pos c q _ E Hp). lia.
  - apply negb_true_iff, is_nil_false in Hd. unfold qof in Hd. destruct (tget c (s_defer s)) as [q|] eqn:E; [|congruence].
    pose proof (qsum_pos c q _ E Hd). lia.
Qed.
