(* C19 -- the state invariant of the ThreadPool LTS and its preservation by the elementary operations
   (spawn, assign, the dispatch loop).  The per-label preservation is in TPoolStep.v. *)
From Coq Require Import List Arith Bool Lia.
From Muscle Require Import Conc.TPool Conc.TPoolLemmas.
Import ListNotations.

Ltac sst := cbn [s_max s_shut s_ctr s_avail s_active s_reg s_pend s_defer s_wait s_thr s_cl s_unreg s_sd s_bad
                 set_shut set_ctr set_avail set_active set_reg set_pend set_defer set_wait set_thr set_cl set_unreg
                 set_sd set_bad massert upd_thr th_client th_queue th_running th_exited] in *.

Definition joinlist (p : sdpc) : list tid :=
  match p with SdJoinAvail l _ => l | SdJoinActive l _ => l | _ => [] end.

(* a ThreadPoolThread's own fields are consistent *)
Definition thr_wf (h : thr) : Prop :=
  (th_running h = true -> th_queue h <> [] /\ th_client h <> None) /\
  (th_client h = None -> th_queue h = [] /\ th_running h = false) /\
  (th_exited h = true -> th_client h = None).

Record SInv (s : st) : Prop := {
  i_nd_pend : NoDup (tkeys (s_pend s));
  i_nd_thr : NoDup (tkeys (s_thr s));
  i_nd_avail : NoDup (s_avail s);
  i_nd_active : NoDup (s_active s);
  i_disj : forall t, In t (s_avail s) -> In t (s_active s) -> False;
  i_fresh_thr : forall t h, tget t (s_thr s) = Some h -> t < s_ctr s;
  i_fresh_tab : forall t, In t (s_avail s) \/ In t (s_active s) \/ In t (joinlist (s_sd s)) -> t < s_ctr s;
  (* a client waits in _pendingMessages only with something to do, registered and not being handled *)
  i_pend_ok : forall c q, tget c (s_pend s) = Some q -> q <> [] /\ tget c (s_reg s) = Some false;
  (* deferred Messages exist only while the client is being handled *)
  i_defer_ok : forall c q, tget c (s_defer s) = Some q -> q <> [] -> tget c (s_reg s) = Some true;
  (* a pool thread works only for a client that is flagged as being handled; no two threads for one client *)
  i_thr_reg : forall t h c, tget t (s_thr s) = Some h -> th_client h = Some c -> tget c (s_reg s) = Some true;
  i_thr_uniq : forall t1 t2 h1 h2 c, tget t1 (s_thr s) = Some h1 -> tget t2 (s_thr s) = Some h2 ->
                                     th_client h1 = Some c -> th_client h2 = Some c -> t1 = t2;
  (* until Shutdown() begins, the flag means that some pool thread really works for the client *)
  i_reg_thr : s_shut s = false -> forall c, tget c (s_reg s) = Some true ->
                                            exists t h, tget t (s_thr s) = Some h /\ th_client h = Some c;
  i_avail_idle : forall t, In t (s_avail s) -> exists h, tget t (s_thr s) = Some h /\ thr_idle h = true /\ th_exited h = false;
  i_active_busy : s_shut s = false -> forall t, In t (s_active s) -> exists h c, tget t (s_thr s) = Some h /\ th_client h = Some c;
  i_thr_wf : forall t h, tget t (s_thr s) = Some h -> thr_wf h;
  (* every thread object is in exactly the place the code keeps it *)
  i_place : forall t h, tget t (s_thr s) = Some h ->
                        th_exited h = true \/ In t (s_avail s) \/ In t (s_active s) \/ In t (joinlist (s_sd s));
  i_count : length (s_avail s) + length (s_active s) <= s_max s;
  i_reg_cl : forall c, ~ In c (s_cl s) -> tget c (s_reg s) = None;
  i_shut_sd : s_shut s = false <-> s_sd s = SdNone;
  i_sd_tabs : match s_sd s with
              | SdJoinAvail _ _ => s_avail s = []
              | SdJoinActive _ _ | SdDone => s_avail s = [] /\ s_active s = []
              | _ => True
              end
}.

(* the clients inside UnregisterClient() *)
Record UInv (s : st) : Prop := {
  (* _waitingForCompletion holds exactly the clients blocked in Wait() that were not notified yet *)
  u_wait : forall c, In c (s_wait s) <-> tget c (s_unreg s) = Some (UWaiting false);
  u_out : forall c, tget c (s_unreg s) = Some (UWaiting false) -> outstanding s c = true;
  u_done : forall c u, tget c (s_unreg s) = Some u -> u <> UWaiting false -> outstanding s c = false
}.

(* no idle capacity while a client waits for a thread (established by every dispatch) *)
Definition WC (s : st) : Prop :=
  s_shut s = false -> s_pend s <> [] -> s_avail s = [] /\ s_max s <= length (s_active s).

Lemma thr_wf_idle : thr_wf idle_thr.
Proof. unfold thr_wf, idle_thr; cbn. repeat split; try discriminate; auto. Qed.

Lemma thr_idle_spec : forall h, thr_idle h = true <-> th_client h = None /\ th_queue h = [] /\ th_running h = false.
Proof.
  intros [c q r e]; unfold thr_idle; cbn. destruct c; [split; [discriminate|intros [H _]; discriminate]|].
  destruct q; cbn; [|split; [discriminate|intros [_ [H _]]; discriminate]].
  destruct r; cbn; split; auto; intros [_ [_ H]]; auto; discriminate.
Qed.

Lemma outstanding_eq : forall s s' c,
  tget c (s_reg s') = tget c (s_reg s) -> tget c (s_pend s') = tget c (s_pend s) -> tget c (s_defer s') = tget c (s_defer s) ->
  outstanding s' c = outstanding s c.
Proof. intros s s' c H1 H2 H3. unfold outstanding, handled, qof. now rewrite H1, H2, H3. Qed.

(* the assertion flag is not part of the invariant *)
Lemma SInv_set_bad : forall s b, SInv s -> SInv (set_bad s b).
Proof. intros s b H. destruct H. constructor; sst; auto. Qed.

(* ---------------------------------------------------------------- spawn *)

Lemma spawn_inv : forall s, SInv s -> s_shut s = false -> s_avail s = [] -> length (s_active s) < s_max s -> SInv (spawn s).
Proof.
  intros s I Hsh Hav Hlt. pose proof I as I0. destruct I. unfold spawn. rewrite Hav in *.
  assert (Hfr : tget (s_ctr s) (s_thr s) = None).
  { destruct (tget (s_ctr s) (s_thr s)) eqn:E; auto. apply i_fresh_thr0 in E. lia. }
  constructor; sst; auto.
  - now apply tkeys_tset_nodup.
  - repeat constructor. cbn. tauto.
  - intros t [<-|[]] Hin. assert (s_ctr s < s_ctr s) by (apply i_fresh_tab0; tauto). lia.
  - intros t h. rewrite tget_tset. destruct (Nat.eqb_spec t (s_ctr s)); [lia|]. intros H. apply i_fresh_thr0 in H. lia.
  - intros t [[<-|[]]|H]; [lia|]. assert (t < s_ctr s) by (apply i_fresh_tab0; tauto). lia.
  - intros t h c. rewrite tget_tset. destruct (Nat.eqb_spec t (s_ctr s)); [intros H; injection H as <-; discriminate|]. apply i_thr_reg0.
  - intros t1 t2 h1 h2 c. rewrite !tget_tset.
    destruct (Nat.eqb_spec t1 (s_ctr s)); [intros H; injection H as <-; discriminate|].
    destruct (Nat.eqb_spec t2 (s_ctr s)); [intros _ H; injection H as <-; discriminate|]. apply i_thr_uniq0.
  - intros _ c Hc. destruct (i_reg_thr0 Hsh c Hc) as [t [h [Ht Hcl]]]. exists t, h. split; auto.
    rewrite tget_tset. destruct (Nat.eqb_spec t (s_ctr s)); auto. subst. congruence.
  - intros t [<-|[]]. exists idle_thr. rewrite tget_tset_same. auto.
  - intros _ t Hin. destruct (i_active_busy0 Hsh t Hin) as [h [c [Ht Hc]]]. exists h, c. split; auto.
    rewrite tget_tset. destruct (Nat.eqb_spec t (s_ctr s)); auto. subst. congruence.
  - intros t h. rewrite tget_tset. destruct (Nat.eqb_spec t (s_ctr s)); [intros H; injection H as <-; apply thr_wf_idle|]. apply i_thr_wf0.
  - intros t h. rewrite tget_tset. destruct (Nat.eqb_spec t (s_ctr s)) as [->|Hn]; [cbn; tauto|].
    intros H. apply i_place0 in H. cbn in *. tauto.
  - apply i_shut_sd0 in Hsh. now rewrite Hsh.
Qed.

(* ---------------------------------------------------------------- assign *)

Lemma assign_inv : forall s t c mq rest,
  SInv s -> s_shut s = false -> last_opt (s_avail s) = Some t -> s_pend s = (c, mq) :: rest -> mq <> [] ->
  SInv (assign s t c mq).
Proof.
  intros s t c mq rest I Hsh Hlast Hp Hmq. pose proof I as I0. destruct I.
  assert (Hin : In t (s_avail s)) by now apply last_opt_In.
  destruct (i_avail_idle0 t Hin) as [h0 [Ht0 [Hidle Hex]]].
  apply thr_idle_spec in Hidle. destruct Hidle as [Hc0 [Hq0 Hr0]].
  assert (Hpc : tget c (s_pend s) = Some mq) by (rewrite Hp; apply tget_hd).
  destruct (i_pend_ok0 c mq Hpc) as [_ Hregc].
  assert (Hnoc : forall t' h', tget t' (s_thr s) = Some h' -> th_client h' <> Some c).
  { intros t' h' Ht' Hcl. rewrite (i_thr_reg0 _ _ _ Ht' Hcl) in Hregc. discriminate. }
  assert (Hrest : forall c', c' <> c -> tget c' rest = tget c' (s_pend s)).
  { intros c' Hn. rewrite Hp. now rewrite tget_tl_other. }
  assert (Hrc : tget c rest = None).
  { rewrite Hp in i_nd_pend0. now apply tget_tl_same in i_nd_pend0. }
  assert (Hsd : s_sd s = SdNone) by now apply i_shut_sd0.
  unfold assign, thr_of. rewrite Ht0. sst. rewrite Hp. cbn [tl]. rewrite Hr0, Hex.
  assert (Hout : forall c', c' <> c -> forall s', s_reg s' = tset c true (s_reg s) -> s_pend s' = rest -> s_defer s' = s_defer s ->
                                    outstanding s' c' = outstanding s c').
  { intros c' Hn s' E1 E2 E3. apply outstanding_eq; rewrite ?E1, ?E2, ?E3; auto. now apply tget_tset_other. }
  constructor; sst; auto.
  - rewrite Hp in i_nd_pend0. now inversion i_nd_pend0.
  - now apply tkeys_tset_nodup.
  - now apply lrem_nodup.
  - apply NoDup_app_single; auto. intros H. eapply i_disj0; eauto.
  - intros t'. rewrite lrem_In, In_app_single. intros [Hn Ha] [Hb|Hb]; [eapply i_disj0; eauto|congruence].
  - intros t' h'. rewrite tget_tset. destruct (Nat.eqb_spec t' t) as [->|Hn]; [intros _; apply i_fresh_tab0; tauto|apply i_fresh_thr0].
  - intros t'. rewrite lrem_In, In_app_single. intros H. apply i_fresh_tab0.
    destruct H as [[_ H]|[[H| ->]|H]]; tauto.
  - intros c' q Hg. destruct (Nat.eq_dec c' c) as [->|Hn]; [congruence|].
    rewrite Hrest in Hg by auto. apply i_pend_ok0 in Hg. destruct Hg as [Hq Hr]. split; auto.
    now rewrite tget_tset_other.
  - intros c' q Hg Hq. rewrite tget_tset. destruct (Nat.eqb_spec c' c); auto. eapply i_defer_ok0; eauto.
  - intros t' h' c'. rewrite !tget_tset. destruct (Nat.eqb_spec t' t) as [->|Hn].
    + intros H; injection H as <-. cbn. intros H; injection H as <-. now rewrite Nat.eqb_refl.
    + intros Hg Hcl. destruct (Nat.eqb_spec c' c); auto. eapply i_thr_reg0; eauto.
  - intros t1 t2 h1 h2 c'. rewrite !tget_tset.
    destruct (Nat.eqb_spec t1 t) as [->|Hn1]; destruct (Nat.eqb_spec t2 t) as [->|Hn2]; auto.
    + intros H Hg; injection H as <-. cbn. intros H; injection H as <-. intros Hcl. exfalso. eapply Hnoc; eauto.
    + intros Hg H; injection H as <-. cbn. intros Hcl H; injection H as <-. exfalso. eapply Hnoc; eauto.
    + apply i_thr_uniq0.
  - intros _ c'. rewrite tget_tset. destruct (Nat.eqb_spec c' c) as [->|Hn].
    + intros _. exists t. eexists. rewrite tget_tset_same. split; [reflexivity|reflexivity].
    + intros Hc'. destruct (i_reg_thr0 Hsh c' Hc') as [t' [h' [Ht' Hcl']]]. exists t', h'. split; auto.
      rewrite tget_tset. destruct (Nat.eqb_spec t' t) as [->|]; auto. congruence.
  - intros t'. rewrite lrem_In. intros [Hn Ha]. destruct (i_avail_idle0 t' Ha) as [h' [H1 H2]].
    exists h'. split; auto. now rewrite tget_tset_other.
  - intros _ t'. rewrite In_app_single. intros [Ha| ->].
    + destruct (i_active_busy0 Hsh t' Ha) as [h' [c' [H1 H2]]]. exists h', c'. split; auto.
      rewrite tget_tset_other; auto. intros ->. eapply i_disj0; eauto.
    + eexists. exists c. rewrite tget_tset_same. split; reflexivity.
  - intros t' h'. rewrite tget_tset. destruct (Nat.eqb_spec t' t) as [->|Hn]; [|apply i_thr_wf0].
    intros H; injection H as <-. unfold thr_wf; cbn. repeat split; intros; discriminate.
  - intros t' h'. rewrite tget_tset. destruct (Nat.eqb_spec t' t) as [->|Hn].
    + intros _. right. right. left. rewrite In_app_single. tauto.
    + intros H. apply i_place0 in H. rewrite lrem_In, In_app_single. tauto.
  - rewrite app_length. cbn [length]. pose proof (lrem_length t (s_avail s) i_nd_avail0 Hin). lia.
  - intros c' Hn. rewrite tget_tset. destruct (Nat.eqb_spec c' c) as [->|]; auto.
    rewrite (i_reg_cl0 c Hn) in Hregc. discriminate.
  - now rewrite Hsd.
Qed.

(* ---------------------------------------------------------------- the dispatch loop *)

Lemma spawn_frame : forall s,
  s_shut (spawn s) = s_shut s /\ s_max (spawn s) = s_max s /\ s_pend (spawn s) = s_pend s /\ s_reg (spawn s) = s_reg s /\
  s_defer (spawn s) = s_defer s /\ s_wait (spawn s) = s_wait s /\ s_cl (spawn s) = s_cl s /\ s_unreg (spawn s) = s_unreg s /\
  s_sd (spawn s) = s_sd s /\ s_active (spawn s) = s_active s /\ s_avail (spawn s) = s_avail s ++ [s_ctr s].
Proof. intros. unfold spawn; sst. repeat split. Qed.

Lemma assign_frame : forall s t c mq,
  s_shut (assign s t c mq) = s_shut s /\ s_max (assign s t c mq) = s_max s /\ s_pend (assign s t c mq) = tl (s_pend s) /\
  s_defer (assign s t c mq) = s_defer s /\ s_wait (assign s t c mq) = s_wait s /\ s_cl (assign s t c mq) = s_cl s /\
  s_unreg (assign s t c mq) = s_unreg s /\ s_sd (assign s t c mq) = s_sd s.
Proof. intros. unfold assign; sst. repeat split. Qed.

(* one iteration of the while loop, seen from outside: what the loop does with a well-formed state *)
Lemma dispatch_loop_unfold : forall f s c m0 mq rest,
  SInv s -> s_pend s = (c, m0 :: mq) :: rest ->
  dispatch_loop (S f) s =
  let s0 := massert true s in
  let s1 := if is_nil (s_avail s0) && (length (s_active s0) <? s_max s0) then spawn s0 else s0 in
  match last_opt (s_avail s1) with
  | Some t => dispatch_loop f (assign s1 t c (m0 :: mq))
  | None => s1
  end.
Proof.
  intros f s c m0 mq rest I Hp. cbn [dispatch_loop]. rewrite Hp.
  assert (Hg : tget c (s_pend s) = Some (m0 :: mq)) by (rewrite Hp; apply tget_hd).
  destruct (i_pend_ok _ I _ _ Hg) as [_ Hr]. rewrite Hr. reflexivity.
Qed.

Lemma pend_head_ok : forall s c mq rest, SInv s -> s_pend s = (c, mq) :: rest -> mq <> [].
Proof.
  intros s c mq rest I Hp. assert (Hg : tget c (s_pend s) = Some mq) by (rewrite Hp; apply tget_hd).
  now destruct (i_pend_ok _ I _ _ Hg).
Qed.

Lemma dispatch_loop_inv : forall fuel s, SInv s -> s_shut s = false -> SInv (dispatch_loop fuel s).
Proof.
  induction fuel as [|f IH]; intros s I Hsh; [exact I|].
  destruct (s_pend s) as [|[c mq] rest] eqn:Hp; [cbn [dispatch_loop]; now rewrite Hp|].
  pose proof (pend_head_ok _ _ _ _ I Hp) as Hmq. destruct mq as [|m0 mq]; [congruence|].
  rewrite (dispatch_loop_unfold f s c m0 mq rest I Hp). cbv zeta.
  assert (I0 : SInv (massert true s)) by (unfold massert; now apply SInv_set_bad).
  set (s0 := massert true s) in *.
  assert (Hsh0 : s_shut s0 = false) by exact Hsh.
  assert (Hp0 : s_pend s0 = (c, m0 :: mq) :: rest) by exact Hp.
  destruct (is_nil (s_avail s0) && (length (s_active s0) <? s_max s0)) eqn:Hsp.
  - apply andb_true_iff in Hsp. destruct Hsp as [Hnil Hlt]. apply is_nil_true in Hnil. apply Nat.ltb_lt in Hlt.
    pose proof (spawn_inv s0 I0 Hsh0 Hnil Hlt) as I1.
    destruct (spawn_frame s0) as [F1 [F2 [F3 _]]].
    destruct (last_opt (s_avail (spawn s0))) as [t|] eqn:Hl; auto.
    apply IH.
    + eapply assign_inv; eauto; try congruence.
    + destruct (assign_frame (spawn s0) t c (m0 :: mq)) as [G1 _]. congruence.
  - destruct (last_opt (s_avail s0)) as [t|] eqn:Hl; auto.
    apply IH.
    + eapply assign_inv; eauto; congruence.
    + destruct (assign_frame s0 t c (m0 :: mq)) as [G1 _]. congruence.
Qed.

Lemma dispatch_loop_wc : forall fuel s, SInv s -> s_shut s = false -> length (s_pend s) <= fuel ->
  s_pend (dispatch_loop fuel s) = [] \/
  (s_avail (dispatch_loop fuel s) = [] /\ s_max (dispatch_loop fuel s) <= length (s_active (dispatch_loop fuel s))).
Proof.
  induction fuel as [|f IH]; intros s I Hsh Hlen.
  - left. cbn. destruct (s_pend s); auto. cbn in Hlen. lia.
  - destruct (s_pend s) as [|[c mq] rest] eqn:Hp; [left; cbn [dispatch_loop]; now rewrite Hp|].
    pose proof (pend_head_ok _ _ _ _ I Hp) as Hmq. destruct mq as [|m0 mq]; [congruence|].
    rewrite (dispatch_loop_unfold f s c m0 mq rest I Hp). cbv zeta.
    assert (I0 : SInv (massert true s)) by (unfold massert; now apply SInv_set_bad).
    set (s0 := massert true s) in *.
    assert (Hsh0 : s_shut s0 = false) by exact Hsh.
    assert (Hp0 : s_pend s0 = (c, m0 :: mq) :: rest) by exact Hp.
    cbn [length] in Hlen.
    destruct (is_nil (s_avail s0) && (length (s_active s0) <? s_max s0)) eqn:Hsp.
    + apply andb_true_iff in Hsp. destruct Hsp as [Hnil Hlt]. apply is_nil_true in Hnil. apply Nat.ltb_lt in Hlt.
      pose proof (spawn_inv s0 I0 Hsh0 Hnil Hlt) as I1.
      destruct (spawn_frame s0) as [F1 [F2 [F3 _]]].
      destruct (last_opt (s_avail (spawn s0))) as [t|] eqn:Hl.
      * destruct (assign_frame (spawn s0) t c (m0 :: mq)) as [G1 [G2 [G3 _]]].
        apply IH.
        -- eapply assign_inv; eauto; try congruence.
        -- congruence.
        -- rewrite G3, F3, Hp0. cbn [tl]. lia.
      * exfalso. apply last_opt_None in Hl. destruct (spawn_frame s0) as [_ [_ [_ [_ [_ [_ [_ [_ [_ [_ F]]]]]]]]]].
        rewrite F in Hl. destruct (s_avail s0); discriminate.
    + destruct (last_opt (s_avail s0)) as [t|] eqn:Hl.
      * destruct (assign_frame s0 t c (m0 :: mq)) as [G1 [G2 [G3 _]]].
        apply IH.
        -- eapply assign_inv; eauto; congruence.
        -- congruence.
        -- rewrite G3, Hp0. cbn [tl]. lia.
      * right. apply last_opt_None in Hl. split; auto. rewrite Hl in Hsp. cbn in Hsp.
        apply Nat.ltb_ge in Hsp. exact Hsp.
Qed.

Lemma dispatch_inv : forall s, SInv s -> SInv (dispatch s) /\ WC (dispatch s).
Proof.
  intros s I. unfold dispatch. destruct (s_shut s) eqn:Hsh.
  - split; auto. intros H. congruence.
  - split; [now apply dispatch_loop_inv|].
    intros _ Hne. destruct (dispatch_loop_wc (length (s_pend s)) s I Hsh (le_n _)) as [H|H]; [congruence|exact H].
Qed.

(* what the loop leaves alone *)
Lemma dispatch_loop_frame : forall fuel s,
  s_shut (dispatch_loop fuel s) = s_shut s /\ s_max (dispatch_loop fuel s) = s_max s /\
  s_defer (dispatch_loop fuel s) = s_defer s /\ s_wait (dispatch_loop fuel s) = s_wait s /\
  s_cl (dispatch_loop fuel s) = s_cl s /\ s_unreg (dispatch_loop fuel s) = s_unreg s /\ s_sd (dispatch_loop fuel s) = s_sd s.
Proof.
  induction fuel as [|f IH]; intros s; [cbn; repeat split|].
  cbn [dispatch_loop]. destruct (s_pend s) as [|[c mq] rest] eqn:Hp; [repeat split|].
  destruct (tget c (s_reg s)) as [b|].
  - destruct mq as [|m0 mq].
    + destruct (IH (set_pend s rest)) as [A1 [A2 [A3 [A4 [A5 [A6 A7]]]]]]. rewrite A1, A2, A3, A4, A5, A6, A7. repeat split.
    + set (s1 := if is_nil (s_avail (massert (negb b) s)) && (length (s_active (massert (negb b) s)) <? s_max (massert (negb b) s))
                 then spawn (massert (negb b) s) else massert (negb b) s).
      assert (F : s_shut s1 = s_shut s /\ s_max s1 = s_max s /\ s_defer s1 = s_defer s /\ s_wait s1 = s_wait s /\
                  s_cl s1 = s_cl s /\ s_unreg s1 = s_unreg s /\ s_sd s1 = s_sd s).
      { unfold s1. destruct (_ && _); unfold spawn; sst; repeat split. }
      destruct F as [F1 [F2 [F3 [F4 [F5 [F6 F7]]]]]].
      destruct (last_opt (s_avail s1)) as [t|]; [|repeat split; auto].
      destruct (IH (assign s1 t c (m0 :: mq))) as [A1 [A2 [A3 [A4 [A5 [A6 A7]]]]]].
      destruct (assign_frame s1 t c (m0 :: mq)) as [G1 [G2 [_ [G4 [G5 [G6 [G7 G8]]]]]]].
      rewrite A1, A2, A3, A4, A5, A6, A7, G1, G2, G4, G5, G6, G7, G8. repeat split; auto.
  - destruct (IH (set_pend s rest)) as [A1 [A2 [A3 [A4 [A5 [A6 A7]]]]]]. rewrite A1, A2, A3, A4, A5, A6, A7. repeat split.
Qed.

Lemma dispatch_frame : forall s,
  s_shut (dispatch s) = s_shut s /\ s_max (dispatch s) = s_max s /\
  s_defer (dispatch s) = s_defer s /\ s_wait (dispatch s) = s_wait s /\
  s_cl (dispatch s) = s_cl s /\ s_unreg (dispatch s) = s_unreg s /\ s_sd (dispatch s) = s_sd s.
Proof.
  intros s. unfold dispatch. destruct (s_shut s) eqn:E; [rewrite E; repeat split|].
  pose proof (dispatch_loop_frame (length (s_pend s)) s) as H. rewrite E in H. exact H.
Qed.

(* dispatching never changes whether a client has something outstanding (it moves pending work to a thread) *)
Lemma assign_outstanding : forall s t c mq rest c',
  SInv s -> s_pend s = (c, mq) :: rest -> mq <> [] ->
  outstanding (assign s t c mq) c' = outstanding s c'.
Proof.
  intros s t c mq rest c' I Hp Hmq.
  assert (Hpc : tget c (s_pend s) = Some mq) by (rewrite Hp; apply tget_hd).
  destruct (Nat.eq_dec c' c) as [->|Hn].
  - unfold outstanding at 2. unfold qof. rewrite Hpc. destruct mq; [congruence|]. cbn [is_nil negb]. rewrite orb_true_r. cbn [orb].
    unfold outstanding, handled, assign; sst. now rewrite tget_tset_same.
  - apply outstanding_eq; unfold assign; sst; auto.
    + now apply tget_tset_other.
    + rewrite Hp. cbn [tl]. symmetry. now apply tget_tl_other.
Qed.

Lemma dispatch_loop_outstanding : forall fuel s c', SInv s -> s_shut s = false ->
  outstanding (dispatch_loop fuel s) c' = outstanding s c'.
Proof.
  induction fuel as [|f IH]; intros s c' I Hsh; [reflexivity|].
  destruct (s_pend s) as [|[c mq] rest] eqn:Hp; [cbn [dispatch_loop]; now rewrite Hp|].
  pose proof (pend_head_ok _ _ _ _ I Hp) as Hmq. destruct mq as [|m0 mq]; [congruence|].
  rewrite (dispatch_loop_unfold f s c m0 mq rest I Hp). cbv zeta.
  assert (I0 : SInv (massert true s)) by (unfold massert; now apply SInv_set_bad).
  set (s0 := massert true s) in *.
  assert (Hsh0 : s_shut s0 = false) by exact Hsh.
  assert (Hp0 : s_pend s0 = (c, m0 :: mq) :: rest) by exact Hp.
  assert (Ho0 : outstanding s0 c' = outstanding s c') by reflexivity.
  destruct (is_nil (s_avail s0) && (length (s_active s0) <? s_max s0)) eqn:Hsp.
  - apply andb_true_iff in Hsp. destruct Hsp as [Hnil Hlt]. apply is_nil_true in Hnil. apply Nat.ltb_lt in Hlt.
    pose proof (spawn_inv s0 I0 Hsh0 Hnil Hlt) as I1.
    destruct (spawn_frame s0) as [F1 [F2 [F3 _]]].
    assert (Ho1 : outstanding (spawn s0) c' = outstanding s0 c') by reflexivity.
    destruct (last_opt (s_avail (spawn s0))) as [t|] eqn:Hl; [|congruence].
    rewrite IH.
    + erewrite assign_outstanding; eauto; try congruence.
    + eapply assign_inv; eauto; try congruence.
    + destruct (assign_frame (spawn s0) t c (m0 :: mq)) as [G1 _]. congruence.
  - destruct (last_opt (s_avail s0)) as [t|] eqn:Hl; [|congruence].
    rewrite IH.
    + erewrite assign_outstanding; eauto; congruence.
    + eapply assign_inv; eauto; congruence.
    + destruct (assign_frame s0 t c (m0 :: mq)) as [G1 _]. congruence.
Qed.

Lemma dispatch_outstanding : forall s c', SInv s -> outstanding (dispatch s) c' = outstanding s c'.
Proof.
  intros s c' I. unfold dispatch. destruct (s_shut s) eqn:E; auto. now apply dispatch_loop_outstanding.
Qed.

Lemma dispatch_uinv : forall s, SInv s -> UInv s -> UInv (dispatch s).
Proof.
  intros s I [U1 U2 U3]. destruct (dispatch_frame s) as [_ [_ [_ [F4 [_ [F6 _]]]]]].
  constructor; intros c; rewrite ?F4, ?F6, ?dispatch_outstanding by auto; auto. apply U3.
Qed.

(* the assertion flag stays down through a dispatch *)
Lemma dispatch_loop_bad : forall fuel s, SInv s -> s_shut s = false -> s_bad s = false -> s_bad (dispatch_loop fuel s) = false.
Proof.
  induction fuel as [|f IH]; intros s I Hsh Hb; [exact Hb|].
  destruct (s_pend s) as [|[c mq] rest] eqn:Hp; [cbn [dispatch_loop]; now rewrite Hp|].
  pose proof (pend_head_ok _ _ _ _ I Hp) as Hmq. destruct mq as [|m0 mq]; [congruence|].
  rewrite (dispatch_loop_unfold f s c m0 mq rest I Hp). cbv zeta.
  assert (I0 : SInv (massert true s)) by (unfold massert; now apply SInv_set_bad).
  set (s0 := massert true s) in *.
  assert (Hsh0 : s_shut s0 = false) by exact Hsh.
  assert (Hp0 : s_pend s0 = (c, m0 :: mq) :: rest) by exact Hp.
  assert (Hb0 : s_bad s0 = false) by (unfold s0; sst; now rewrite Hb).
  assert (Hab : forall s1 t, SInv s1 -> s_bad s1 = false -> last_opt (s_avail s1) = Some t -> s_bad (assign s1 t c (m0 :: mq)) = false).
  { intros s1 t I1 Hb1 Hl. apply last_opt_In in Hl. destruct (i_avail_idle _ I1 t Hl) as [h [Ht [Hid _]]].
    apply thr_idle_spec in Hid. destruct Hid as [Hc [Hq _]].
    unfold assign, thr_of. rewrite Ht. sst. rewrite Hb1, Hc, Hq. reflexivity. }
  destruct (is_nil (s_avail s0) && (length (s_active s0) <? s_max s0)) eqn:Hsp.
  - apply andb_true_iff in Hsp. destruct Hsp as [Hnil Hlt]. apply is_nil_true in Hnil. apply Nat.ltb_lt in Hlt.
    pose proof (spawn_inv s0 I0 Hsh0 Hnil Hlt) as I1.
    destruct (spawn_frame s0) as [F1 [F2 [F3 _]]].
    assert (Hb1 : s_bad (spawn s0) = false) by exact Hb0.
    destruct (last_opt (s_avail (spawn s0))) as [t|] eqn:Hl; auto.
    apply IH; [eapply assign_inv; eauto; try congruence| |apply Hab; auto].
    destruct (assign_frame (spawn s0) t c (m0 :: mq)) as [G1 _]. congruence.
  - destruct (last_opt (s_avail s0)) as [t|] eqn:Hl; auto.
    apply IH; [eapply assign_inv; eauto; congruence| |apply Hab; auto].
    destruct (assign_frame s0 t c (m0 :: mq)) as [G1 _]. congruence.
Qed.

Lemma dispatch_bad : forall s, SInv s -> s_bad s = false -> s_bad (dispatch s) = false.
Proof.
  intros s I Hb. unfold dispatch. destruct (s_shut s) eqn:E; auto. now apply dispatch_loop_bad.
Qed.

(* name every clause of SInv (robust against the auto-naming of [destruct]) *)
Ltac dI I :=
  pose proof (i_nd_pend _ I) as i_nd_pend0; pose proof (i_nd_thr _ I) as i_nd_thr0;
  pose proof (i_nd_avail _ I) as i_nd_avail0; pose proof (i_nd_active _ I) as i_nd_active0;
  pose proof (i_disj _ I) as i_disj0; pose proof (i_fresh_thr _ I) as i_fresh_thr0;
  pose proof (i_fresh_tab _ I) as i_fresh_tab0; pose proof (i_pend_ok _ I) as i_pend_ok0;
  pose proof (i_defer_ok _ I) as i_defer_ok0; pose proof (i_thr_reg _ I) as i_thr_reg0;
  pose proof (i_thr_uniq _ I) as i_thr_uniq0; pose proof (i_reg_thr _ I) as i_reg_thr0;
  pose proof (i_avail_idle _ I) as i_avail_idle0; pose proof (i_active_busy _ I) as i_active_busy0;
  pose proof (i_thr_wf _ I) as i_thr_wf0; pose proof (i_place _ I) as i_place0;
  pose proof (i_count _ I) as i_count0; pose proof (i_reg_cl _ I) as i_reg_cl0;
  pose proof (i_shut_sd _ I) as i_shut_sd0; pose proof (i_sd_tabs _ I) as i_sd_tabs0.
