(* C10 -- the theorems about the reference-count transition system (Conc/RefCnt.v):
   every atomic step of any thread preserves the counting invariant [inv1] and raises no lifetime
   violation; hence in every reachable state of any number of threads running any programs the
   count of an object equals the number of counting references to it (slots plus the references in
   flight), a released object is referenced by nothing, and each object is released exactly as
   often as it was brought to life. *)
From Coq Require Import List Arith Bool Lia.
From Muscle Require Import Conc.Pool Conc.PoolProofs Conc.RefCnt Conc.RefInv Conc.RefExcl Conc.RefStep
  Conc.RefActs Conc.RefActs2 Conc.RefActs3 Conc.RefActs4 Conc.RefActs5.
Import ListNotations.
Local Open Scope nat_scope.

Definition prog_ok (o : op) : bool := match o with OAssignOld _ _ => false | _ => true end.

Section Main.
Variables N K : nat.

Lemma upd_app_last : forall A (h : list A) x y, upd (h ++ [x]) (length h) y = h ++ [y].
Proof. induction h as [|a h IH]; intros; cbn; auto. rewrite IH. reflexivity. Qed.

Lemma ok_single : forall s t stk a, single_ok a -> (forall l, a = APoolObt l -> wloc_ok (s_heap s) stk l) ->
  (forall l, a <> AUntag l) -> acts_ok s t stk [a].
Proof.
  intros s t stk a Ha Hl Hn. constructor.
  - apply sh_single; auto.
  - intros b [<-|[]]. destruct a; cbn in Ha |- *; try tauto; auto. exfalso. eapply Hn; eauto.
  - intros o' [H|[]]. subst a. cbn in Ha. tauto.
  - intros z. destruct a; cbn in Ha |- *; try tauto; reflexivity.
  - intros z. destruct a; cbn in Ha |- *; try tauto; reflexivity.
  - intros z Hz. destruct a; cbn in Ha, Hz; try tauto; lia.
Qed.

Lemma resolve_rw : forall h stk l x r1 v1 r2 v2, resolve_r h stk l = Some (r1, v1) -> resolve_w h stk l x = Some (r2, v2) ->
  r1 = r2 /\ v1 = v2.
Proof.
  intros h stk [i|i j] x r1 v1 r2 v2 H1 H2; cbn [resolve_r resolve_w] in *.
  - destruct (i <? length stk); inversion H1; inversion H2; subst; auto.
  - destruct (nth i stk None) as [[y [|]]|]; try discriminate.
    destruct (j <? length (o_mem (get_obj h y))); cbn [andb] in *; try discriminate.
    destruct ((o_cnt (get_obj h y) =? 1) && negb (opt_eqb x (Some y))); inversion H1; inversion H2; subst; auto.
Qed.

Lemma begin_inv : forall s t stk op prog, inv1 K s -> t < length (s_thr s) ->
  thr s t = mkThr stk [] (op :: prog) -> prog_ok op = true ->
  forall h' stk' todo' ok, begin_op K (s_heap s) stk op = (h', stk', todo', ok) ->
  inv1 K (with_thr s t (mkThr stk' todo' prog) h' (s_pool s)).
Proof.
  intros s t stk op prog I Ht E Hop h' stk' todo' ok Hb.
  assert (Es : t_stk (thr s t) = stk) by (rewrite E; auto).
  assert (Hskip : inv1 K (with_thr s t (mkThr stk [] prog) (s_heap s) (s_pool s))).
  { apply (begin_core K s t stk op prog []); auto. apply acts_nil. }
  destruct op as [i pooled|dst src|dst src|dst src|l|a b|dst src|i v|]; cbn [begin_op] in Hb; try discriminate.
  - (* ONew *)
    destruct (i <? length stk) eqn:Ei; [|injection Hb as <- <- <- <-; exact Hskip]. apply Nat.ltb_lt in Ei.
    destruct pooled.
    + injection Hb as <- <- <- <-. apply (begin_core K s t stk (ONew i true) prog); auto.
      apply ok_single; [exact Logic.I| |discriminate]. intros l Hl. inversion Hl; subst. exact Ei.
    + injection Hb as <- <- <- <-. set (x := fresh_obj K false Dead). set (o := length (s_heap s)).
      pose proof (append_core K s [x] (s_pool s) I) as I1.
      assert (Hx : Forall (inert K) [x]) by (constructor; [apply fresh_inert; auto|constructor]).
      specialize (I1 Hx). set (s1 := mkSt (s_heap s ++ [x]) (s_thr s) (s_pool s)) in *.
      assert (Hox : hobj s1 o = x) by (unfold hobj, s1, get_obj, o; cbn [s_heap]; apply nth_app_new).
      assert (Hcur : nth i stk None <> Some (o, true)).
      { intros Hc. assert (Hc' : nth i (t_stk (thr s t)) None = Some (o, true)) by (rewrite E; auto).
        destruct (held_live K s t i o I Ht Hc') as (Hl & _). apply live_lt in Hl. unfold o in Hl. lia. }
      destruct (setref_fresh (RStk i) _ o Hcur) as (mid & Eacts & Hmid). fold o.
      match goal with |- inv1 _ (with_thr _ _ {| t_stk := _; t_todo := ?T; t_prog := _ |} _ _) =>
        change T with (setref_acts (RStk i) (nth i stk None) (Some o) true None) end.
      rewrite Eacts.
      pose proof (birth_core K s1 t stk [] (ONew i false :: prog) prog o (RStk i) mid (s_pool s) I1 Ht E) as HB.
      rewrite Hox in HB. replace (upd (s_heap s1) o (born x)) with (s_heap s ++ [born x]) in HB
        by (unfold s1, o; cbn [s_heap]; symmetry; apply upd_app_last).
      apply HB; auto.
      * unfold s1, o; cbn [s_heap]. rewrite app_length. cbn. lia.
  - (* OAssign *)
    destruct (resolve_r (s_heap s) stk src) as [[rs p]|] eqn:Er; [|injection Hb as <- <- <- <-; exact Hskip].
    destruct (resolve_w (s_heap s) stk dst (ptr p)) as [[rd q]|] eqn:Ew; injection Hb as <- <- <- <-; [|exact Hskip].
    destruct (resolve_r_spec _ _ _ _ _ Er) as (Ep & Hv). destruct (resolve_w_spec _ _ _ _ _ _ Ew) as (Eq & W & NS).
    apply (begin_core K s t stk (OAssign dst src) prog); auto.
    destruct p as [[o c]|]; cbn [ptr counting].
    + apply setref_ok; auto. intros ->. apply (src_justifies K s t stk rs o I Ht Es); auto.
    + apply reset_ok; auto.
  - (* OAlias *)
    destruct (resolve_r (s_heap s) stk src) as [[rs p]|] eqn:Er; [|injection Hb as <- <- <- <-; exact Hskip].
    destruct (resolve_w (s_heap s) stk dst (ptr p)) as [[rd q]|] eqn:Ew; injection Hb as <- <- <- <-; [|exact Hskip].
    destruct (resolve_w_spec _ _ _ _ _ _ Ew) as (Eq & W & NS).
    apply (begin_core K s t stk (OAlias dst src) prog); auto.
    destruct p as [[o c]|]; cbn [ptr counting].
    + apply setref_ok; auto. discriminate.
    + apply reset_ok; auto.
  - (* OReset *)
    destruct (resolve_w (s_heap s) stk l None) as [[rd q]|] eqn:Ew; injection Hb as <- <- <- <-; [|exact Hskip].
    destruct (resolve_w_spec _ _ _ _ _ _ Ew) as (Eq & W & NS).
    apply (begin_core K s t stk (OReset l) prog); auto. apply reset_ok; auto.
  - (* OSwap *)
    destruct (resolve_r (s_heap s) stk a) as [[ra0 va]|] eqn:Era; [|injection Hb as <- <- <- <-; exact Hskip].
    destruct (resolve_r (s_heap s) stk b) as [[rb0 vb]|] eqn:Erb; [|injection Hb as <- <- <- <-; exact Hskip].
    destruct (resolve_w (s_heap s) stk a (ptr vb)) as [[ra qa]|] eqn:Ewa; [|injection Hb as <- <- <- <-; exact Hskip].
    destruct (resolve_w (s_heap s) stk b (ptr va)) as [[rb qb]|] eqn:Ewb; [|injection Hb as <- <- <- <-; exact Hskip].
    destruct (resolve_rw _ _ _ _ _ _ _ _ Era Ewa) as (<- & <-). destruct (resolve_rw _ _ _ _ _ _ _ _ Erb Ewb) as (<- & <-).
    destruct (resolve_r_spec _ _ _ _ _ Era) as (Eva & _). destruct (resolve_r_spec _ _ _ _ _ Erb) as (Evb & _).
    destruct (resolve_w_spec _ _ _ _ _ _ Ewa) as (_ & Wa & _). destruct (resolve_w_spec _ _ _ _ _ _ Ewb) as (_ & Wb & _).
    destruct (rloc_eqb ra0 rb0) eqn:Eab; [injection Hb as <- <- <- <-; exact Hskip|].
    destruct (write_slot (s_heap s) stk ra0 vb) as [h1 stk1] eqn:Hw1.
    destruct (write_slot h1 stk1 rb0 va) as [h2 stk2] eqn:Hw2. injection Hb as <- <- <- <-.
    destruct (wloc_valid K s t stk ra0 I Ht Es Wa) as (Va & Ta). destruct (wloc_valid K s t stk rb0 I Ht Es Wb) as (Vb & Tb).
    destruct (write_facts _ _ _ _ _ _ Hw1 Va) as (L1 & S1 & F1 & G1 & B1 & R1 & O1).
    assert (Vb1 : loc_valid h1 stk1 rb0).
    { destruct rb0 as [i|q j]; cbn in Vb |- *; [lia|]. destruct (F1 q) as (_ & _ & _ & _ & _ & ->). lia. }
    destruct (write_facts _ _ _ _ _ _ Hw2 Vb1) as (L2 & S2 & F2 & G2 & B2 & R2 & O2).
    apply (heapeq_core K s t stk (OSwap a b) prog h2 stk2); auto.
    + lia.
    + intros z. destruct (F1 z) as (A1 & A2 & A3 & A4 & A5 & A6). destruct (F2 z) as (C1 & C2 & C3 & C4 & C5 & C6).
      rewrite C1, C2, C3, C4, C5, C6. auto 10.
    + intros z. destruct (mem_of ra0 z) eqn:Ea; [left; apply Ta; auto|].
      destruct (mem_of rb0 z) eqn:Eb; [left; apply Tb; auto|]. right. rewrite (G2 z Eb), (G1 z Ea). reflexivity.
    + intros o. pose proof (B1 o) as X1. pose proof (B2 o) as X2. rewrite (O1 rb0 Eab) in X2. rewrite <- Eva, <- Evb in *. lia.
  - (* OConstCast *)
    destruct (resolve_r (s_heap s) stk src) as [[rs p]|] eqn:Er; [|injection Hb as <- <- <- <-; exact Hskip].
    destruct (resolve_w (s_heap s) stk dst (ptr p)) as [[rd q]|] eqn:Ew; injection Hb as <- <- <- <-; [|exact Hskip].
    destruct (resolve_r_spec _ _ _ _ _ Er) as (Ep & Hv). destruct (resolve_w_spec _ _ _ _ _ _ Ew) as (Eq & W & NS).
    apply (begin_core K s t stk (OConstCast dst src) prog); auto.
    destruct p as [[o c]|]; cbn [ptr counting castassign_acts].
    + apply cast_ok; auto. intros ->. apply (src_justifies K s t stk rs o I Ht Es); auto.
    + apply reset_ok; auto.
  - (* OSetVal *)
    destruct (nth i stk None) as [[q [|]]|] eqn:Eq; try (injection Hb as <- <- <- <-; exact Hskip).
    destruct (o_cnt (get_obj (s_heap s) q) =? 1) eqn:Ec; injection Hb as <- <- <- <-; [|exact Hskip].
    assert (Hq' : nth i (t_stk (thr s t)) None = Some (q, true)) by (rewrite E; auto).
    destruct (held_live K s t i q I Ht Hq') as (Hl & _). pose proof (live_lt _ _ Hl) as Hlt.
    assert (Hget : forall z, get_obj (upd (s_heap s) q (set_val (get_obj (s_heap s) q) v)) z =
                             if z =? q then set_val (get_obj (s_heap s) q) v else get_obj (s_heap s) z).
    { intros z. destruct (z =? q) eqn:Ez.
      - apply Nat.eqb_eq in Ez. subst z. apply get_upd_same; auto.
      - apply Nat.eqb_neq in Ez. apply get_upd_other; auto. }
    apply (heapeq_core K s t stk (OSetVal i v) prog); auto.
    + apply upd_length.
    + intros z. rewrite Hget. destruct (z =? q) eqn:Ez; auto 10. apply Nat.eqb_eq in Ez. subst z. cbn. auto 10.
    + intros z. right. rewrite Hget. destruct (z =? q) eqn:Ez; auto. apply Nat.eqb_eq in Ez. subst z. reflexivity.
    + intros o. pose proof (heap_units_upd (s_heap s) q (set_val (get_obj (s_heap s) q) v) o Hlt) as HH.
      change (obj_units o (set_val (get_obj (s_heap s) q) v)) with (obj_units o (get_obj (s_heap s) q)) in HH. lia.
  - (* ODrain *)
    injection Hb as <- <- <- <-. apply (begin_core K s t stk ODrain prog); auto.
    apply ok_single; [exact Logic.I|discriminate|discriminate].
Qed.

(* ------------------------------------------------------------------ one step *)

Definition progs_ok (s : state) : Prop := forall th, In th (s_thr s) -> forallb prog_ok (t_prog th) = true.

Lemma in_upd : forall A (l : list A) i x y, In y (upd l i x) -> y = x \/ In y l.
Proof.
  induction l as [|h t IH]; intros [|i] x y H; cbn in *; auto.
  - destruct H; auto.
  - destruct H as [H|H]; auto. destruct (IH _ _ _ H); auto.
Qed.

Lemma thr_in : forall s t, t < length (s_thr s) -> In (thr s t) (s_thr s).
Proof. intros. unfold thr. apply nth_In; auto. Qed.

Theorem step_inv1 : forall s t, inv1 K s -> progs_ok s -> t < length (s_thr s) ->
  inv1 K (fst (step N K s t)) /\ progs_ok (fst (step N K s t)) /\ bad124 (snd (step N K s t)) = false.
Proof.
  intros s t I HP Ht. unfold step. fold (thr s t).
  pose proof (HP _ (thr_in s t Ht)) as Hprog.
  destruct (thr s t) as [stk todo prog] eqn:E. cbn [t_todo t_stk t_prog] in *.
  destruct todo as [|a rest].
  - destruct prog as [|op prog].
    + cbn. auto.
    + destruct (begin_op K (s_heap s) stk op) as [[[h' stk'] todo'] ok] eqn:Hb. cbn [fst snd].
      cbn in Hprog. apply andb_true_iff in Hprog. destruct Hprog as (Hop & Hrest).
      split; [|split; [|reflexivity]].
      * apply (begin_inv s t stk op prog I Ht E Hop h' stk' todo' ok Hb).
      * intros th Hin. cbn [s_thr] in Hin. apply in_upd in Hin. destruct Hin as [->|Hin]; auto.
  - assert (C : ctx K s t stk a rest prog) by (constructor; auto).
    destruct (do_act N K (s_heap s) (s_pool s) stk a rest) as [[[[h' stk'] todo'] p'] ev] eqn:Hdo. cbn [fst snd].
    assert (HPP : progs_ok (mkSt h' (upd (s_thr s) t (mkThr stk' todo' prog)) p')).
    { intros th Hin. cbn [s_thr] in Hin. apply in_upd in Hin. destruct Hin as [->|Hin]; auto. }
    assert (Hgoal : inv1 K (with_thr s t (mkThr stk' todo' prog) h' p') /\ bad124 ev = false).
    { destruct a.
      - eapply act_inc; eauto.
      - eapply act_dec; eauto.
      - eapply act_deckeep; eauto.
      - eapply act_take; eauto.
      - eapply act_untag; eauto.
      - eapply act_store; eauto.
      - eapply act_rel; eauto.
      - eapply act_poolobt; eauto.
      - eapply act_drain; eauto.
      - eapply act_slabdel; eauto. }
    destruct Hgoal as (G1 & G2). split; [exact G1|split; auto].
Qed.

(* ------------------------------------------------------------------ all reachable states *)

Inductive reachable (s0 : state) : state -> Prop :=
| r_refl : reachable s0 s0
| r_step : forall s t, reachable s0 s -> t < length (s_thr s) -> reachable s0 (fst (step N K s t)).

Theorem reachable_inv1 : forall s0 s, inv1 K s0 -> progs_ok s0 -> reachable s0 s -> inv1 K s /\ progs_ok s.
Proof.
  intros s0 s I0 P0 H. induction H as [|s t H IH Ht]; auto.
  destruct IH as (I & P). destruct (step_inv1 s t I P Ht) as (A & B & _). auto.
Qed.

Lemma init_sums : forall stksize progs o,
  sumf (thr_units o) (map (fun pr => mkThr (repeat None stksize) [] pr) progs) = 0 /\
  sumf (thr_debts o) (map (fun pr => mkThr (repeat None stksize) [] pr) progs) = 0 /\
  sumf (fun t => sumf (rel_count o) (t_todo t)) (map (fun pr => mkThr (repeat None stksize) [] pr) progs) = 0.
Proof.
  intros stksize progs o. induction progs as [|p ps (IH1 & IH2 & IH3)]; [cbn; auto|].
  cbn [map sumf]. rewrite IH1, IH2, IH3. unfold thr_units. cbn [t_stk t_todo sumf]. rewrite refs_in_none. auto.
Qed.

Lemma init_inv1 : forall max stksize progs, inv1 K (init_state max stksize progs).
Proof.
  intros max stksize progs. unfold init_state.
  assert (Hu : forall o, sumf (thr_units o) (map (fun pr => mkThr (repeat None stksize) [] pr) progs) = 0) by (intros; apply init_sums).
  assert (Hd : forall o, sumf (thr_debts o) (map (fun pr => mkThr (repeat None stksize) [] pr) progs) = 0) by (intros; apply init_sums).
  assert (Hr : forall o, sumf (fun t => sumf (rel_count o) (t_todo t)) (map (fun pr => mkThr (repeat None stksize) [] pr) progs) = 0) by (intros; apply init_sums).
  assert (Hget : forall o, get_obj [] o = dobj) by (intros [|o]; reflexivity).
  assert (Hth : forall t, t < length (map (fun pr => mkThr (repeat None stksize) [] pr) progs) ->
            t_todo (nth t (map (fun pr => mkThr (repeat None stksize) [] pr) progs) dthr) = []).
  { intros t Ht. rewrite map_length in Ht.
    rewrite (nth_indep _ dthr (mkThr (repeat None stksize) [] [])) by (rewrite map_length; auto).
    rewrite (map_nth (fun pr => mkThr (repeat None stksize) [] pr)). reflexivity. }
  constructor; cbn [s_heap s_thr s_pool]; unfold units, debts, rels, hobj, thr; cbn [s_heap s_thr].
  - intros o. rewrite Hu, Hd, Hget. reflexivity.
  - intros o _. rewrite Hu. reflexivity.
  - intros o Ho. cbn in Ho. lia.
  - intros t Ht. rewrite (Hth t Ht). apply (sh_frames []). reflexivity.
  - intros t a Ht Hin. rewrite (Hth t Ht) in Hin. destruct Hin.
  - intros o. rewrite Hr, Hget. reflexivity.
  - intros o Ho. cbn in Ho. lia.
Qed.

(* C10, the counting protocol: for any number of threads running any programs (of the repaired
   operations), from any state satisfying the invariant - in particular the initial one - every
   reachable state satisfies:
     (1) count o + increments in flight for o = counting references to o (stack slots of all threads,
         member slots of all objects, references held by operations in flight);
     (2) an object that is not live (being released, in the pool, destroyed) is referenced by no
         counting reference at all;
     (3) no step of any thread increments or decrements a non-live object, decrements below zero, or
         runs a release step on an object that is not being released (so nothing is released twice);
     (4) each object has been brought to life exactly once more than it was released iff it is live. *)
Theorem free_once_after_last : forall s0 s, inv1 K s0 -> progs_ok s0 -> reachable s0 s ->
  (forall o, o_cnt (hobj s o) + debts o s = units o s) /\
  (forall o, is_live (hobj s o) = false -> units o s = 0 /\ o_cnt (hobj s o) = 0) /\
  (forall t, t < length (s_thr s) -> bad124 (snd (step N K s t)) = false) /\
  (forall o, o < length (s_heap s) -> o_births (hobj s o) = o_deaths (hobj s o) + (if is_live (hobj s o) then 1 else 0)).
Proof.
  intros s0 s I0 P0 H. destruct (reachable_inv1 s0 s I0 P0 H) as (I & P).
  split; [|split; [|split]].
  - intros o. symmetry. apply (i_count K s I).
  - intros o Ho. pose proof (i_nolive K s I o Ho). pose proof (i_count K s I o). lia.
  - intros t Ht. destruct (step_inv1 s t I P Ht) as (_ & _ & B). exact B.
  - intros o Ho. apply (i_ghost K s I o Ho).
Qed.

(* a counting reference in any slot points to a live object whose count is at least the number of
   counting slots that hold it: nothing is released while a reference to it exists *)
Theorem never_early : forall s0 s, inv1 K s0 -> progs_ok s0 -> reachable s0 s ->
  forall o, slots o s <= o_cnt (hobj s o) /\ (1 <= slots o s -> is_live (hobj s o) = true).
Proof.
  intros s0 s I0 P0 H o. destruct (reachable_inv1 s0 s I0 P0 H) as (I & P).
  split; [apply (cnt_ge_slots K); auto|]. intros Hs. apply (live_of_units K); auto. pose proof (slots_le_units s o). lia.
Qed.

(* ------------------------------------------------------------------ schedules *)

Lemma step_len : forall s t, length (s_thr (fst (step N K s t))) = length (s_thr s).
Proof.
  intros s t. unfold step. destruct (t_todo (nth t (s_thr s) dthr)) as [|a rest].
  - destruct (t_prog (nth t (s_thr s) dthr)) as [|op prog]; auto.
    destruct (begin_op K (s_heap s) (t_stk (nth t (s_thr s) dthr)) op) as [[[h' stk'] todo'] ok]. cbn. apply upd_length.
  - destruct (do_act N K (s_heap s) (s_pool s) (t_stk (nth t (s_thr s) dthr)) a rest) as [[[[h' stk'] todo'] p'] ev]. cbn. apply upd_length.
Qed.

Lemma run_sched_reachable : forall sched s0 s, reachable s0 s -> Forall (fun t => t < length (s_thr s)) sched ->
  reachable s0 (fst (run_sched N K s sched)).
Proof.
  induction sched as [|t r IH]; intros s0 s H Hs; cbn [run_sched]; auto.
  inversion Hs as [|x l Ht Hr]; subst.
  destruct (step N K s t) as [s1 ev] eqn:E1. destruct (run_sched N K s1 r) as [s2 evs] eqn:E2. cbn [fst].
  assert (Hs1 : s1 = fst (step N K s t)) by (rewrite E1; auto).
  assert (R1 : reachable s0 s1) by (rewrite Hs1; apply r_step; auto).
  specialize (IH s0 s1 R1). rewrite E2 in IH. apply IH.
  rewrite Hs1, step_len. exact Hr.
Qed.

(* no schedule of a program of repaired operations produces a lifetime violation event *)
Theorem run_sched_safe : forall sched s, inv1 K s -> progs_ok s -> Forall (fun t => t < length (s_thr s)) sched ->
  forallb (fun e => negb (bad124 e)) (snd (run_sched N K s sched)) = true.
Proof.
  induction sched as [|t r IH]; intros s I P Hs; cbn [run_sched]; auto.
  inversion Hs as [|x l Ht Hr]; subst.
  destruct (step_inv1 s t I P Ht) as (I1 & P1 & B1).
  destruct (step N K s t) as [s1 ev] eqn:E1. destruct (run_sched N K s1 r) as [s2 evs] eqn:E2. cbn [snd fst] in *.
  specialize (IH s1 I1 P1). rewrite E2 in IH. cbn [snd] in IH. cbn [forallb]. rewrite B1. cbn [negb andb]. apply IH.
  replace s1 with (fst (step N K s t)) by (rewrite E1; auto). rewrite step_len. exact Hr.
Qed.

End Main.

(* ------------------------------------------------------------------ the unrepaired order (F11), refuted *)

(* two objects X (slot 0) and Y (slot 1); X.m0 := Y; the stack reference to Y is dropped;
   then  slot0 = slot0()->m0  with SetRef in the unrepaired order: the release of X cascades into Y,
   and Y is then incremented although it has been destroyed *)
Definition f11_prog (repaired : bool) : list op :=
  [ONew 0 false; ONew 1 false; OAssign (LMem 0 0) (LStk 1); OReset (LStk 1);
   if repaired then OAssign (LStk 0) (LMem 0 0) else OAssignOld (LStk 0) (LMem 0 0)].

Lemma old_order_refuted :
  exists sched, existsb ev_is_bad (snd (run_sched 1 2 (init_state 0 4 [f11_prog false]) sched)) = true.
Proof. exists (repeat 0 40). vm_compute. reflexivity. Qed.

Lemma repaired_order_same_history_fine :
  existsb ev_is_bad (snd (run_sched 1 2 (init_state 0 4 [f11_prog true]) (repeat 0 40))) = false.
Proof. vm_compute. reflexivity. Qed.

(* non-vacuity: a reachable state with two threads sharing objects, counts above one, a pooled
   object recycled and a slab created *)
Definition demo_progs : list (list op) :=
  [ [ONew 0 true; ONew 1 false; OAssign (LMem 0 0) (LStk 1); OAssign (LStk 2) (LStk 0); OAlias (LStk 3) (LStk 1); OReset (LStk 1)];
    [ONew 0 true; OAssign (LStk 1) (LStk 0); OConstCast (LStk 2) (LStk 1); OReset (LStk 0); OReset (LStk 1); OReset (LStk 2); ONew 3 true] ].

Definition demo_sched : list nat := [0;1;0;1;0;1;0;1;0;1;0;1;0;1;0;1;0;1;0;1;0;1;0;1;0;1;0;1;0;1;1;1;1;1;1;1;1;1;1;1;1;1;1;1;0;0;0;0;0;0].

Example demo_reachable :
  let s0 := init_state 1 4 demo_progs in
  let s := fst (run_sched 2 2 s0 demo_sched) in
  inv1 2 s0 /\ progs_ok s0 /\ reachable 2 2 s0 s /\
  2 <= length (s_heap s) /\ o_cnt (hobj s 1) = 2 /\ existsb (fun ob => 1 <=? o_deaths ob) (s_heap s) = true.
Proof.
  cbn zeta. split; [apply init_inv1|]. split.
  - intros th Hin. cbn in Hin. destruct Hin as [<-|[<-|[]]]; reflexivity.
  - split.
    + apply run_sched_reachable; [apply r_refl|]. apply Forall_forall. intros t Ht. cbn.
      unfold demo_sched in Ht. repeat (destruct Ht as [<-|Ht]; [lia|]). destruct Ht.
    + vm_compute. repeat split; auto.
Qed.
