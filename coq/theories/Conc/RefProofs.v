(* C10 -- the theorems about the reference-count transition system (Conc/RefCnt.v):
   every atomic step of any thread preserves the counting invariant [inv1] and raises no lifetime
   violation; hence in every reachable state of any number of threads running any programs the
   count of an object equals the number of counting references to it (slots plus the references in
   flight), a released object is referenced by nothing, and each object is released exactly as
   often as it was brought to life. *)
From Coq Require Import List Arith Bool Lia.
From Muscle Require Import Conc.Pool Conc.PoolProofs Conc.RefCnt Conc.RefInv Conc.RefExcl Conc.RefStep
  Conc.RefActs Conc.RefActs2 Conc.RefActs3 Conc.RefActs4 Conc.RefActs5.
Import ListNotations.
Local Open Scope nat_scope.

Definition prog_ok (o : op) : bool := match o with OAssignOld _ _ => false | _ => true end.

Section Main.
Variables N K : nat.

Lemma upd_app_last : forall A (h : list A) x y, upd (h ++ [x]) (length h) y = h ++ [y].
Proof. induction h as [|a h IH]; intros; cbn; auto. rewrite IH. reflexivity. Qed.

Lemma ok_single : forall s t stk a, single_ok a -> (forall l, a = APoolObt l -> wloc_ok (s_heap s) stk l) ->
  (forall l, a <> AUntag l) -> acts_ok s t stk [a].
Proof.
  intros s t stk a Ha Hl Hn. constructor.
  - apply sh_single; auto.
  - intros b [<-|[]]. destruct a; cbn in Ha |- *; try tauto; auto. exfalso. eapply Hn; eauto.
  - intros o' [H|[]]. subst a. cbn in Ha. tauto.
  - intros z. destruct a; cbn in Ha |- *; try tauto; reflexivity.
  - intros z. destruct a; cbn in Ha |- *; try tauto; reflexivity.
  - intros z Hz. destruct a; cbn in Ha, Hz; try tauto; lia.
Qed.

Lemma resolve_rw : forall h stk l x r1 v1 r2 v2, resolve_r h stk l = Some (r1, v1) -> resolve_w h stk l x = Some (r2, v2) ->
  r1 = r2 /\ v1 = v2.
Proof.
  intros h stk [i|i j] x r1 v1 r2 v2 H1 H2; cbn [resolve_r resolve_w] in *.
  - destruct (i <? length stk); inversion H1; inversion H2; subst; auto.
  - destruct (nth i stk None) as [[y [|]]|]; try discriminate.
    destruct (j <? length (o_mem (get_obj h y))); cbn [andb] in *; try discriminate.
    destruct ((o_cnt (get_obj h y) =? 1) && negb (opt_eqb x (Some y))); inversion H1; inversion H2; subst; auto.
Qed.

Lemma begin_inv : forall s t stk op prog, inv1 K s -> t < length (s_thr s) ->
  thr s t = mkThr stk [] (op :: prog) -> prog_ok op = true ->
  forall h' stk' todo' ok, begin_op K (s_heap s) stk op = (h', stk', todo', ok) ->
  inv1 K (with_thr s t (mkThr stk' todo' prog) h' (s_pool s)).
Proof.
  intros s t stk op prog I Ht E Hop h' stk' todo' ok Hb.
  assert (Es : t_stk (thr s t) = stk) by (rewrite E; auto).
  assert (Hskip : inv1 K (with_thr s t (mkThr stk [] prog) (s_heap s) (s_pool s))).
  { apply (begin_core K s t stk op prog []); auto. apply acts_nil. }
  destruct op as [i pooled|dst src|dst src|dst src|l|a b|dst src|i v|]; cbn [begin_op] in Hb; try discriminate.
  - (* ONew *)
    destruct (i <? length stk) eqn:Ei; [|injection Hb as <- <- <- <-; exact Hskip]. apply Nat.ltb_lt in Ei.
    destruct pooled.
    + injection Hb as <- <- <- <-. apply (begin_core K s t stk (ONew i true) prog); auto.
      apply ok_single; [exact Logic.I| |discriminate]. intros l Hl. inversion Hl; subst. exact Ei.
    + injection Hb as <- <- <- <-. set (x := fresh_obj K false Dead). set (o := length (s_heap s)).
      pose proof (append_core K s [x] (s_pool s) I) as I1.
      assert (Hx : Forall (inert K) [x]) by (constructor; [apply fresh_inert; auto|constructor]).
      specialize (I1 Hx). set (s1 := mkSt (s_heap s ++ [x]) (s_thr s) (s_pool s)) in *.
      assert (Hox : hobj s1 o = x) by (unfold hobj, s1, get_obj, o; cbn [s_heap]; apply nth_app_new).
      assert (Hcur : nth i stk None <> Some (o, true)).
      { intros Hc. assert (Hc' : nth i (t_stk (thr s t)) None = Some (o, true)) by (rewrite E; auto).
        destruct (held_live K s t i o I Ht Hc') as (Hl & _). apply live_lt in Hl. unfold o in Hl. lia. }
      destruct (setref_fresh (RStk i) _ o Hcur) as (mid & Eacts & Hmid). fold o.
      match goal with |- inv1 _ (with_thr _ _ {| t_stk := _; t_todo := ?T; t_prog := _ |} _ _) =>
        change T with (setref_acts (RStk i) (nth i stk None) (Some o) true None) end.
      rewrite Eacts.
      pose proof (birth_core K s1 t stk [] (ONew i false :: prog) prog o (RStk i) mid (s_pool s) I1 Ht E) as HB.
      rewrite Hox in HB. replace (upd (s_heap s1) o (born x)) with (s_heap s ++ [born x]) in HB
        by (unfold s1, o; cbn [s_heap]; symmetry; apply upd_app_last).
      apply HB; auto.
      * unfold s1, o; cbn [s_heap]. rewrite app_length. cbn. lia.
  - (* OAssign *)
    destruct (resolve_r (s_heap s) stk src) as [[rs p]|] eqn:Er; [|injection Hb as <- <- <- <-; exact Hskip].
    destruct (resolve_w (s_heap s) stk dst (ptr p)) as [[rd q]|] eqn:Ew; injection Hb as <- <- <- <-; [|exact Hskip].
    destruct (resolve_r_spec _ _ _ _ _ Er) as (Ep & Hv). destruct (resolve_w_spec _ _ _ _ _ _ Ew) as (Eq & W & NS).
    apply (begin_core K s t stk (OAssign dst src) prog); auto.
    destruct p as [[o c]|]; cbn [ptr counting].
    + apply setref_ok; auto. intros ->. apply (src_justifies K s t stk rs o I Ht Es); auto.
    + apply reset_ok; auto.
  - (* OAlias *)
    destruct (resolve_r (s_heap s) stk src) as [[rs p]|] eqn:Er; [|injection Hb as <- <- <- <-; exact Hskip].
    destruct (resolve_w (s_heap s) stk dst (ptr p)) as [[rd q]|] eqn:Ew; injection Hb as <- <- <- <-; [|exact Hskip].
    destruct (resolve_w_spec _ _ _ _ _ _ Ew) as (Eq & W & NS).
    apply (begin_core K s t stk (OAlias dst src) prog); auto.
    destruct p as [[o c]|]; cbn [ptr counting].
    + apply setref_ok; auto. discriminate.
    + apply reset_ok; auto.
  - (* OReset *)
    destruct (resolve_w (s_heap s) stk l None) as [[rd q]|] eqn:Ew; injection Hb as <- <- <- <-; [|exact Hskip].
    destruct (resolve_w_spec _ _ _ _ _ _ Ew) as (Eq & W & NS).
    apply (begin_core K s t stk (OReset l) prog); auto. apply reset_ok; auto.
  - (* OSwap *)
    destruct (resolve_r (s_heap s) stk a) as [[ra0 va]|] eqn:Era; [|injection Hb as <- <- <- <-; exact Hskip].
    destruct (resolve_r (s_heap s) stk b) as [[rb0 vb]|] eqn:Erb; [|injection Hb as <- <- <- <-; exact Hskip].
    destruct (resolve_w (s_heap s) stk a (ptr vb)) as [[ra qa]|] eqn:Ewa; [|injection Hb as <- <- <- <-; exact Hskip].
    destruct (resolve_w (s_heap s) stk b (ptr va)) as [[rb qb]|] eqn:Ewb; [|injection Hb as <- <- <- <-; exact Hskip].
    destruct (resolve_rw _ _ _ _ _ _ _ _ Era Ewa) as (<- & <-). destruct (resolve_rw _ _ _ _ _ _ _ _ Erb Ewb) as (<- & <-).
    destruct (resolve_r_spec _ _ _ _ _ Era) as (Eva & _). destruct (resolve_r_spec _ _ _ _ _ Erb) as (Evb & _).
    destruct (resolve_w_spec _ _ _ _ _ _ Ewa) as (_ & Wa & _). destruct (resolve_w_spec _ _ _ _ _ _ Ewb) as (_ & Wb & _).
    destruct (rloc_eqb ra0 rb0) eqn:Eab; [injection Hb as <- <- <- <-; exact Hskip|].
    destruct (write_slot (s_heap s) stk ra0 vb) as [h1 stk1] eqn:Hw1.
    destruct (write_slot h1 stk1 rb0 va) as [h2 stk2] eqn:Hw2. injection Hb as <- <- <- <-.
    destruct (wloc_valid K s t stk ra0 I Ht Es Wa) as (Va & Ta). destruct (wloc_valid K s t stk rb0 I Ht Es Wb) as (Vb & Tb).
    destruct (write_facts _ _ _ _ _ _ Hw1 Va) as (L1 & S1 & F1 & G1 & B1 & R1 & O1).
    assert (Vb1 : loc_valid h1 stk1 rb0).
    { destruct rb0 as [i|q j]; cbn in Vb |- *; [lia|]. destruct (F1 q) as (_ & _ & _ & _ & _ & ->). lia. }
    destruct (write_facts _ _ _ _ _ _ Hw2 Vb1) as (L2 & S2 & F2 & G2 & B2 & R2 & O2).
    apply (heapeq_core K s t stk (OSwap a b) prog h2 stk2); auto.
    + lia.
    + intros z. destruct (F1 z) as (A1 & A2 & A3 & A4 & A5 & A6). destruct (F2 z) as (C1 & C2 & C3 & C4 & C5 & C6).
      rewrite C1, C2, C3, C4, C5, C6. auto 10.
    + intros z. destruct (mem_of ra0 z) eqn:Ea; [left; apply Ta; auto|].
      destruct (mem_of rb0 z) eqn:Eb; [left; apply Tb; auto|]. right. rewrite (G2 z Eb), (G1 z Ea). reflexivity.
    + intros o. pose proof (B1 o) as X1. pose proof (B2 o) as X2. rewrite (O1 rb0 Eab) in X2. rewrite <- Eva, <- Evb in *. lia.
  - (* OConstCast *)
    destruct (resolve_r (s_heap s) stk src) as [[rs p]|] eqn:Er; [|injection Hb as <- <- <- <-; exact Hskip].
    destruct (resolve_w (s_heap s) stk dst (ptr p)) as [[rd q]|] eqn:Ew; injection Hb as <- <- <- <-; [|exact Hskip].
    destruct (resolve_r_spec _ _ _ _ _ Er) as (Ep & Hv). destruct (resolve_w_spec _ _ _ _ _ _ Ew) as (Eq & W & NS).
    apply (begin_core K s t stk (OConstCast dst src) prog); auto.
    destruct p as [[o c]|]; cbn [ptr counting castassign_acts].
    + apply cast_ok; auto. intros ->. apply (src_justifies K s t stk rs o I Ht Es); auto.
    + apply reset_ok; auto.
  - (* OSetVal *)
    destruct (nth i stk None) as [[q [|]]|] eqn:Eq; try (injection Hb as <- <- <- <-; exact Hskip).
    destruct (o_cnt (get_obj (s_heap s) q) =? 1) eqn:Ec; injection Hb as <- <- <- <-; [|exact Hskip].
    assert (Hq' : nth i (t_stk (thr s t)) None = Some (q, true)) by (rewrite E; auto).
    destruct (held_live K s t i q I Ht Hq') as (Hl & _). pose proof (live_lt _ _ Hl) as Hlt.
    assert (Hget : forall z, get_obj (upd (s_heap s) q (set_val (get_obj (s_heap s) q) v)) z =
                             if z =? q then set_val (get_obj (s_heap s) q) v else get_obj (s_heap s) z).
    { intros z. destruct (z =? q) eqn:Ez.
      - apply Nat.eqb_eq in Ez. subst z. apply get_upd_same; auto.
      - apply Nat.eqb_neq in Ez. apply get_upd_other; auto. }
    apply (heapeq_core K s t stk (OSetVal i v) prog); auto.
    + apply upd_length.
    + intros z. rewrite Hget. destruct (z =? q) eqn:Ez; auto 10. apply Nat.eqb_eq in Ez. subst z. cbn. auto 10.
    + intros z. right. rewrite Hget. destruct (z =? q) eqn:Ez; auto. apply Nat.eqb_eq in Ez. subst z. reflexivity.
    + intros o. pose proof (heap_units_upd (s_heap s) q (set_val (get_obj (s_heap s) q) v) o Hlt) as HH.
      change (obj_units o (set_val (get_obj (s_heap s) q) v)) with (obj_units o (get_obj (s_heap s) q)) in HH. lia.
  - (* ODrain *)
    injection Hb as <- <- <- <-. apply (begin_core K s t stk ODrain prog); auto.
    apply ok_single; [exact Logic.I|discriminate|discriminate].
Qed.

End Main.
