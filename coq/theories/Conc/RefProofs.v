(* C10 -- proofs about the reference-count / pool model (stage 1: basic facts). *)
From Coq Require Import List Arith Bool Lia.
From Muscle Require Import Conc.Pool Conc.RefCnt.
Import ListNotations.

Lemma upd_length : forall A (l : list A) i v, length (upd l i v) = length l.
Proof. induction l as [|h t IH]; intros [|i] v; cbn; auto. Qed.
