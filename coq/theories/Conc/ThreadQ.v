(* C11 -- model of the Message exchange between a muscle::Thread's owner and its internal thread
   (system/Thread.h/.cpp on top of Mutex.h, WaitCondition.h and a connected socket pair) as an interleaving
   labelled transition system.  Model only (no proofs); the proofs are in ThreadQProofs*.v.

   What is modelled (names of the C++ in parentheses):
     - the two ThreadSpecificData records (_threadData[MESSAGE_THREAD_INTERNAL] = channel CI, the queue the internal
       thread reads; _threadData[MESSAGE_THREAD_OWNER] = channel CO, the reply queue the owner reads): the FIFO
       _messages under _queueLock, the number of signal bytes readable on its _messageSocket, the pending-notification
       count of its _waitCondition (a uint32 that saturates at MUSCLE_NO_LIMIT);
     - both signalling mechanisms (_useMessagingSockets): SignalAux writes one byte on the *other* side's socket (dropped
       while the pair is not allocated or that socket has been closed; lost when the peer end has been closed) or calls
       WaitCondition::Notify();
     - SendMessageAux: { lock; AddTail; sendNotification := (GetNumItems() == 1); unlock }; if (sendNotification) signal;
     - WaitForNextMessageAux: absorb up to [absorb_n] signal bytes (only if the socket is valid); { lock; RemoveHead;
       unlock }; got one -> return it; wakeupTime == 0 -> B_TIMED_OUT; else block (select on the socket, which does not
       consume the bytes and also returns at end-of-file / Wait() on the wait-condition, which flushes its counter) and
       recurse -- with wakeupTime 0 in socket mode, with the same wakeupTime in wait-condition mode;
     - StartInternalThread (demand-allocation of the socket pair, _threadRunning, thread creation, then -- under
       _queueLock -- needsInitialSignal := _messages.HasItems(), then the initial signal; [early] = true gives the
       order the code had before the repair: the unlocked HasItems() read came first), ShutdownInternalThread (NULL Message, optional join),
       WaitForInternalThreadToExit (join, _threadRunning := false, CloseSockets), GetOwnerWakeupSocket (demand
       allocation only);
     - InternalThreadEntryAux / InternalThreadEntry: signal the owner if replies are already queued (under the reply
       queue's lock), then loop { WaitForNextMessageFromOwner(NEVER); B_TIMED_OUT -> continue; other error -> exit;
       MessageReceivedFromOwner }, then close the internal end of the socket pair and finish.
     - the other documented way to write InternalThreadEntry (g_evd; MessageTransceiverThread, AsyncDataIO): an event
       loop that blocks in select() on GetInternalThreadWakeupSocket() *first* and, when that socket is readable, polls
       WaitForNextMessageFromOwner(ref, 0) until B_TIMED_OUT.  Such a thread never looks at its queue unless it is
       signalled -- which is what StartInternalThread's initial signal is for.  MessageReceivedFromOwner
       is the default one (NULL -> B_SHUTTING_DOWN) extended by an arbitrary reaction [react] of the subclass: a list of
       Messages sent with SendMessageToOwner (replies) or SendMessageToInternalThread (to itself), and whether it then
       asks to exit.

     - one user-registered socket in the owner's SOCKET_SET_READ: the blocking wait of GetNextReplyFromInternalThread also
       returns when that socket is readable; the isFlagged values are refreshed; the signal socket has precedence
       (readable -> poll the queue), otherwise B_IO_READY.  (A timeout fired by the controlled scheduler returns
       B_TIMED_OUT before the flags are refreshed: that is the hook site's behaviour.)

   What one transition is: one atomic step of one thread -- a whole critical section under _queueLock, one signal, one
   absorb, one return.  The program counters that are *decision points* of the controlled scheduler (is_dp) are the ones
   at which a thread is about to take / has just released _queueLock, is inside a blocking wait, has just created the
   thread, or is about to join it; the driver runs a thread from one decision point to the next, the theorems quantify
   over the finer interleaving of all atomic steps.

   Any number of threads; thread 0 is the owner (the only one allowed to receive replies and to start / shut down /
   join, as documented in Thread.h), every thread may send in either direction. *)
From Coq Require Import List Arith Bool NArith.
Import ListNotations.

Definition tid := nat.

(* a MessageRef: None = the NULL reference (the request to exit), Some k = a Message whose 'what' code is k *)
Definition msg := option nat.

Inductive chanid := CI | CO.
Inductive wake := WPoll | WNever | WTimed.       (* wakeupTime: 0 | MUSCLE_TIME_NEVER | a finite time in the future *)
Inductive choice := CRun | CTimeout.

(* status_t / results seen by the caller *)
Inductive res :=
| ROk
| RMsg (m : msg) (left : nat)     (* B_NO_ERROR from a receive: the Message and *optRetNumMessagesLeftInQueue *)
| RTimedOut                       (* B_TIMED_OUT *)
| RBadObject                      (* B_BAD_OBJECT *)
| RAlreadyRunning                 (* B_ALREADY_RUNNING *)
| RIoReady                        (* B_IO_READY: a socket of a user-registered socket set is ready *)
| RNotFound                       (* B_DATA_NOT_FOUND *)
| RVoid.                          (* a void method returned *)

(* the owner's user-registered socket (SOCKET_SET_READ of GetOwnerThreadSocketSet): register / unregister it,
   make it readable (somebody writes a byte to its other end), read it empty *)
Inductive uop := UReg | UUnreg | UPing | UEat.

Inductive op :=
| OSend (c : chanid) (m : msg)    (* SendMessageToInternalThread (CI) / SendMessageToOwner (CO) *)
| ORecv (w : wake)                (* GetNextReplyFromInternalThread(ref, w, &numLeft) *)
| OStart                          (* StartInternalThread *)
| OShutdown (wait : bool)         (* ShutdownInternalThread(wait) *)
| OJoin                           (* WaitForInternalThreadToExit *)
| OGetSock                        (* GetOwnerWakeupSocket *)
| OUser (u : uop).                (* RegisterOwnerThreadSocket / UnregisterOwnerThreadSocket / write to / read from that socket *)

(* what a thread still has to do after the call in flight returns *)
Inductive frame :=
| KShutdown (wait : bool)                    (* ShutdownInternalThread: the NULL Message is being sent *)
| KDiscard                                   (* the result of the inner call is dropped, the outer one returns void *)
| KLoop                                      (* InternalThreadEntry: WaitForNextMessageFromOwner is in flight *)
| KReplies (rs : list (chanid * msg)) (quit : bool).   (* MessageReceivedFromOwner: Messages still to send, then continue / exit *)

Inductive pc :=
| PIdle
(* SendMessageAux *)
| PSendCS (c : chanid) (m : msg)             (* about to lock _queueLock *)
| PSendSig (c : chanid) (first : bool)       (* lock released; sendNotification = first *)
(* WaitForNextMessageAux *)
| PRecvAbsorb (c : chanid) (w : wake)        (* top of the function *)
| PRecvCS (c : chanid) (w : wake)            (* about to lock _queueLock *)
| PRecvGot (c : chanid) (m : msg) (left : nat)   (* lock released, a Message was removed *)
| PRecvNone (c : chanid) (w : wake)          (* lock released, the queue was empty *)
| PRecvPark (c : chanid) (w : wake)          (* blocked in select() / Wait() *)
(* StartInternalThread *)
| PStartRead
| PStartSpawn (needs : bool)
| PStartSpawned                              (* the thread was created *)
| PStartCheck                                (* about to lock _queueLock to read _messages.HasItems() *)
| PStartSig (needs : bool)                   (* needsInitialSignal is known, the lock (if any) released *)
(* ShutdownInternalThread / WaitForInternalThreadToExit / GetOwnerWakeupSocket *)
| PShutdown (wait : bool)
| PJoinTest
| PJoinWait                                  (* blocked in join() *)
| PGetSock
| PUser (u : uop)
(* InternalThreadEntryAux *)
| PIEntry                                    (* created, has not run yet *)
| PIStartupCS                                (* about to lock the reply queue's lock *)
| PIAfterStartup                             (* that lock released *)
| PILoop                                     (* top of the while(true) of InternalThreadEntry *)
| PIEvLoop                                   (* event-driven InternalThreadEntry: top of the outer loop *)
| PIEvWait                                   (* ... blocked in select() on the internal wake-up socket *)
| PIEvPoll                                   (* ... about to poll WaitForNextMessageFromOwner(ref, 0) again *)
| PIExit                                     (* left the loop *)
| PIDone.

Record local := mkL { l_pc : pc; l_k : list frame }.

Definition l_idle : local := mkL PIdle [].

(* what a step shows to the outside (compared with the controlled run of the real code) *)
Inductive ev :=
| EDump                           (* a critical section under a _queueLock ended: the whole state is compared *)
| ESig (c : chanid)               (* a signal byte was written for the reader of channel c *)
| ENotify (c : chanid)            (* Notify() on channel c's wait-condition *)
| EPark (c : chanid) (n : nat)    (* entering the blocking wait; n = signal bytes / notifications pending *)
| EWoken
| ETimeout
| EFork
| EJoin
| EBegin
| EEnd
| EGot (m : msg) (left : nat)     (* MessageReceivedFromOwner(m, left) was called *)
| ERet (r : res).                 (* the API call returned to the user *)

(* one ThreadSpecificData, plus the ghost history of its queue *)
Record chan := mkCh {
  c_q    : list msg;              (* _messages *)
  c_sig  : nat;                   (* bytes readable on _messageSocket *)
  c_wc   : N;                     (* _waitCondition._pendingNotificationsCount (a uint32) *)
  c_sent : list msg;              (* ghost: every Message ever appended, in order *)
  c_rcvd : list msg               (* ghost: every Message ever removed, in order *)
}.

Definition ch0 : chan := mkCh [] 0 0%N [] [].

Inductive istat := INone | ILive | IExited.    (* the native internal thread: none / running / past its last statement *)

(* the owner's socket set: is the user socket registered, how many bytes are readable on it, the table's isFlagged value
   (what IsOwnerThreadSocketReady returns) *)
Record usr := mkU { u_reg : bool; u_bytes : nat; u_flag : bool }.

Definition usr0 : usr := mkU false 0 false.

Record gst := mkG {
  g_sockets : bool;               (* _useMessagingSockets (constant) *)
  g_evd     : bool;               (* the subclass's InternalThreadEntry is the event-driven one (constant) *)
  g_alloc   : bool;               (* _messageSocketsAllocated *)
  g_running : bool;               (* _threadRunning *)
  g_iopen   : bool;               (* _threadData[MESSAGE_THREAD_INTERNAL]._messageSocket is valid *)
  g_ci      : chan;
  g_co      : chan;
  g_ist     : istat;
  g_il      : local;              (* where the internal thread is (meaningful while g_ist = ILive) *)
  g_gen     : nat;                (* number of internal threads created so far *)
  g_usr     : usr
}.

Definition g0 (sockets evd : bool) : gst := mkG sockets evd (negb sockets) false false ch0 ch0 INone (mkL PIDone []) 0 usr0.

Definition ch (g : gst) (c : chanid) : chan := match c with CI => g_ci g | CO => g_co g end.

Definition set_ch (c : chanid) (x : chan) (g : gst) : gst :=
  match c with
  | CI => mkG (g_sockets g) (g_evd g) (g_alloc g) (g_running g) (g_iopen g) x (g_co g) (g_ist g) (g_il g) (g_gen g) (g_usr g)
  | CO => mkG (g_sockets g) (g_evd g) (g_alloc g) (g_running g) (g_iopen g) (g_ci g) x (g_ist g) (g_il g) (g_gen g) (g_usr g)
  end.

Definition set_il (l : local) (g : gst) : gst :=
  mkG (g_sockets g) (g_evd g) (g_alloc g) (g_running g) (g_iopen g) (g_ci g) (g_co g) (g_ist g) l (g_gen g) (g_usr g).

Definition with_sig (x : chan) (n : nat) : chan := mkCh (c_q x) n (c_wc x) (c_sent x) (c_rcvd x).
Definition with_wc (x : chan) (n : N) : chan := mkCh (c_q x) (c_sig x) n (c_sent x) (c_rcvd x).

Definition is_nil {A} (l : list A) : bool := match l with [] => true | _ => false end.

(* the file descriptor of channel c's _messageSocket is valid *)
Definition fd_ok (g : gst) (c : chanid) : bool :=
  g_sockets g && g_alloc g && match c with CO => true | CI => g_iopen g end.

(* the blocking wait of channel c's reader would return: bytes are pending or the other end has been closed
   (end-of-file: only the internal end is ever closed on its own) / notifications are pending *)
Definition readable (g : gst) (c : chanid) : bool :=
  if g_sockets g
  then Nat.ltb 0 (c_sig (ch g c)) || match c with CO => g_alloc g && negb (g_iopen g) | CI => false end
  else N.ltb 0 (c_wc (ch g c)).

Definition set_usr (u : usr) (g : gst) : gst :=
  mkG (g_sockets g) (g_evd g) (g_alloc g) (g_running g) (g_iopen g) (g_ci g) (g_co g) (g_ist g) (g_il g) (g_gen g) u.

(* the owner's registered user socket selects as ready-for-read *)
Definition uready (g : gst) : bool := g_sockets g && u_reg (g_usr g) && Nat.ltb 0 (u_bytes (g_usr g)).

(* the blocking wait of channel c's reader would return: its signal socket / wait-condition, or (owner) a user socket *)
Definition wakeable (g : gst) (c : chanid) : bool :=
  readable g c || match c with CO => uready g | CI => false end.

(* after select() returned: the isFlagged values of the socket-set tables are refreshed *)
Definition park_flags (c : chanid) (g : gst) : gst :=
  match c with
  | CO => if u_reg (g_usr g) then set_usr (mkU true (u_bytes (g_usr g)) (Nat.ltb 0 (u_bytes (g_usr g)))) g else g
  | CI => g
  end.

(* GetThreadWakeupSocketAux: demand-allocate the connected pair *)
Definition alloc_sockets (g : gst) : gst :=
  if g_sockets g && negb (g_alloc g)
  then mkG (g_sockets g) (g_evd g) true (g_running g) true (with_sig (g_ci g) 0) (with_sig (g_co g) 0) (g_ist g) (g_il g) (g_gen g) (g_usr g)
  else g.

(* CloseSockets *)
Definition close_sockets (g : gst) : gst :=
  if g_sockets g
  then mkG (g_sockets g) (g_evd g) false (g_running g) false (with_sig (g_ci g) 0) (with_sig (g_co g) 0) (g_ist g) (g_il g) (g_gen g) (g_usr g)
  else g.

(* SignalInternalThread (c = CI: a byte on the owner's socket comes out on the internal one) /
   SignalOwner (c = CO: a byte on the internal socket comes out on the owner's one) *)
(* WaitCondition::IncreaseNotificationsCount(1): uint32 addition, saturating at MUSCLE_NO_LIMIT instead of wrapping *)
Definition wc_inc (no_limit old : N) : N :=
  let newCount := ((old + 1) mod 4294967296)%N in
  if (old <? newCount)%N then newCount else no_limit.

Definition signal (no_limit : N) (c : chanid) (g : gst) : gst * list ev :=
  if g_sockets g then
    match c with
    | CI => if g_alloc g
            then ((if g_iopen g then set_ch CI (with_sig (g_ci g) (S (c_sig (g_ci g)))) g else g), [ESig CI])
            else (g, [])
    | CO => if g_alloc g && g_iopen g
            then (set_ch CO (with_sig (g_co g) (S (c_sig (g_co g)))) g, [ESig CO])
            else (g, [])
    end
  else (set_ch c (with_wc (ch g c) (wc_inc no_limit (c_wc (ch g c)))) g, [ENotify c]).

Section Model.

Variable early : bool.                         (* true: StartInternalThread as found (HasItems() read first, unlocked) *)
Variable absorb_n : nat.                       (* sizeof(bytes) in WaitForNextMessageAux *)
Variable no_limit : N.                         (* MUSCLE_NO_LIMIT *)
(* the subclass's MessageReceivedFromOwner: the Messages it sends -- replies to the owner (CO), or further work to itself
   with SendMessageToInternalThread (CI) -- and "exit now" *)
Variable react : nat -> list (chanid * msg) * bool.

Definition absorb (c : chanid) (g : gst) : gst :=
  if fd_ok g c then set_ch c (with_sig (ch g c) (c_sig (ch g c) - Nat.min (c_sig (ch g c)) absorb_n)) g else g.

Definition next_reply (evd : bool) (rs : list (chanid * msg)) (quit : bool) (k : list frame) : pc * list frame * list ev :=
  match rs with
  | [] => ((if quit then PIExit else if evd then PIEvPoll else PILoop), k, [])
  | (c, m) :: rest => (PSendCS c m, KReplies rest quit :: k, [])
  end.

(* InternalThreadEntry: what the loop does with the result of WaitForNextMessageFromOwner *)
Definition dispatch (evd : bool) (r : res) (k : list frame) : pc * list frame * list ev :=
  match r with
  | RMsg None n => (PIExit, k, [EGot None n])
  | RMsg (Some x) n => let '(p, k', e) := next_reply evd (fst (react x)) (snd (react x)) k in (p, k', EGot (Some x) n :: e)
  | RTimedOut => ((if evd then PIEvLoop else PILoop), k, [])
  | _ => (PIExit, k, [])
  end.

(* the call in flight returns r *)
Fixpoint ret (evd : bool) (r : res) (k : list frame) : pc * list frame * list ev :=
  match k with
  | [] => (PIdle, [], [ERet r])
  | KShutdown w :: k' => if w then (PJoinTest, KDiscard :: k', []) else ret evd RVoid k'
  | KDiscard :: k' => ret evd RVoid k'
  | KLoop :: k' => dispatch evd r k'
  | KReplies rs quit :: k' => next_reply evd rs quit k'
  end.

Definition fin (g : gst) (r : res) (k : list frame) (e : list ev) : option (gst * local * list ev) :=
  let '(p, k', e') := ret (g_evd g) r k in Some (g, mkL p k', e ++ e').

Definition goto (g : gst) (p : pc) (k : list frame) (e : list ev) : option (gst * local * list ev) :=
  Some (g, mkL p k, e).

Definition step (c : choice) (g : gst) (l : local) : option (gst * local * list ev) :=
  let k := l_k l in
  match l_pc l, c with
  | PSendCS x m, CRun =>
      let cx := ch g x in
      let q' := c_q cx ++ [m] in
      goto (set_ch x (mkCh q' (c_sig cx) (c_wc cx) (c_sent cx ++ [m]) (c_rcvd cx)) g)
           (PSendSig x (Nat.eqb (length q') 1)) k [EDump]
  | PSendSig x first, CRun =>
      if first then let (g', e) := signal no_limit x g in fin g' ROk k e else fin g ROk k []
  | PRecvAbsorb x w, CRun => goto (absorb x g) (PRecvCS x w) k []
  | PRecvCS x w, CRun =>
      let cx := ch g x in
      match c_q cx with
      | [] => goto g (PRecvNone x w) k [EDump]
      | m :: r => goto (set_ch x (mkCh r (c_sig cx) (c_wc cx) (c_sent cx) (c_rcvd cx ++ [m])) g)
                       (PRecvGot x m (length r)) k [EDump]
      end
  | PRecvGot x m n, CRun => fin g (RMsg m n) k []
  | PRecvNone x w, CRun =>
      match w with
      | WPoll => fin g RTimedOut k []
      | _ => if g_sockets g
             then (if fd_ok g x then goto g (PRecvPark x w) k [EPark x (c_sig (ch g x))] else fin g RBadObject k [])
             else goto g (PRecvPark x w) k [EPark x (N.to_nat (c_wc (ch g x)))]
      end
  | PRecvPark x w, CRun =>
      if wakeable g x
      then (if g_sockets g
            then (if readable g x then goto (park_flags x g) (PRecvAbsorb x WPoll) k [EWoken]
                  else fin (park_flags x g) RIoReady k [EWoken])
            else goto (set_ch x (with_wc (ch g x) 0%N) g) (PRecvAbsorb x w) k [EWoken])
      else None
  | PRecvPark x WTimed, CTimeout => fin g RTimedOut k [ETimeout]
  | PStartRead, CRun =>
      if g_running g then fin g RAlreadyRunning k []
      else goto g (PStartSpawn (if early then negb (is_nil (c_q (g_ci g))) else false)) k []
  | PStartSpawn needs, CRun =>
      let g1 := alloc_sockets g in
      goto (mkG (g_sockets g1) (g_evd g1) (g_alloc g1) true (g_iopen g1) (g_ci g1) (g_co g1) ILive (mkL PIEntry []) (S (g_gen g1)) (g_usr g1))
           (if early then PStartSig needs else PStartSpawned) k [EFork]
  | PStartSpawned, CRun => goto g PStartCheck k []
  | PStartCheck, CRun => goto g (PStartSig (negb (is_nil (c_q (g_ci g))))) k [EDump]
  | PStartSig needs, CRun =>
      if needs then let (g', e) := signal no_limit CI g in fin g' ROk k e else fin g ROk k []
  | PShutdown w, CRun =>
      if g_running g then goto g (PSendCS CI None) (KShutdown w :: k) [] else fin g RVoid k []
  | PJoinTest, CRun =>
      if g_running g then goto g PJoinWait k [EJoin] else fin g RBadObject k []
  | PJoinWait, CRun =>
      match g_ist g with
      | IExited =>
          let g1 := close_sockets g in
          fin (mkG (g_sockets g1) (g_evd g1) (g_alloc g1) false (g_iopen g1) (g_ci g1) (g_co g1) INone (g_il g1) (g_gen g1) (g_usr g1)) ROk k []
      | _ => None
      end
  | PGetSock, CRun => fin (alloc_sockets g) RVoid k []
  | PUser UReg, CRun =>
      if g_sockets g then fin (set_usr (mkU true (u_bytes (g_usr g)) false) g) ROk k [] else fin g RBadObject k []
  | PUser UUnreg, CRun =>
      if g_sockets g
      then (if u_reg (g_usr g) then fin (set_usr (mkU false (u_bytes (g_usr g)) false) g) ROk k [] else fin g RNotFound k [])
      else fin g RBadObject k []
  | PUser UPing, CRun => fin (set_usr (mkU (u_reg (g_usr g)) (S (u_bytes (g_usr g))) (u_flag (g_usr g))) g) RVoid k []
  | PUser UEat, CRun => fin (set_usr (mkU (u_reg (g_usr g)) 0 (u_flag (g_usr g))) g) RVoid k []
  | PIEntry, CRun => goto g PIStartupCS k [EBegin]
  | PIStartupCS, CRun =>
      if is_nil (c_q (g_co g)) then goto g PIAfterStartup k [EDump]
      else let (g', e) := signal no_limit CO g in goto g' PIAfterStartup k (e ++ [EDump])
  | PIAfterStartup, CRun => goto g PILoop k []
  | PILoop, CRun => if g_evd g then goto g PIEvLoop k [] else goto g (PRecvAbsorb CI WNever) (KLoop :: k) []
  | PIEvLoop, CRun => if fd_ok g CI then goto g PIEvWait k [EPark CI (c_sig (g_ci g))] else goto g PIExit k []
  | PIEvWait, CRun => if readable g CI then goto g PIEvPoll k [EWoken] else None
  | PIEvPoll, CRun => goto g (PRecvAbsorb CI WPoll) (KLoop :: k) []
  | PIExit, CRun =>
      goto (mkG (g_sockets g) (g_evd g) (g_alloc g) (g_running g) (if g_sockets g then false else g_iopen g)
                (if g_sockets g then with_sig (g_ci g) 0 else g_ci g) (g_co g) IExited (g_il g) (g_gen g) (g_usr g)) PIDone k [EEnd]
  | _, _ => None
  end.

(* program counters at which the controlled scheduler takes a decision (the thread is about to lock / has just
   unlocked a _queueLock, is blocked, has just created the thread, has not run yet) *)
Definition is_dp (p : pc) : bool :=
  match p with
  | PSendCS _ _ | PSendSig _ _ | PRecvCS _ _ | PRecvGot _ _ _ | PRecvNone _ _ | PRecvPark _ _
  | PStartSpawned | PStartCheck | PStartSig _ | PJoinWait | PIEntry | PIStartupCS | PIAfterStartup | PIEvWait => true
  | _ => false
  end.

Definition pc_of_op (o : op) : pc :=
  match o with
  | OSend c m => PSendCS c m
  | ORecv w => PRecvAbsorb CO w
  | OStart => PStartRead
  | OShutdown w => PShutdown w
  | OJoin => PJoinTest
  | OGetSock => PGetSock
  | OUser u => PUser u
  end.

(* only the owner (thread 0) receives replies and controls the internal thread's life cycle *)
Definition allowed (t : tid) (o : op) : bool :=
  match o with
  | OSend _ _ => true
  | OUser UPing => true
  | _ => Nat.eqb t 0
  end.

Definition begin_op (t : tid) (o : op) (l : local) : option local :=
  match l_pc l, l_k l with
  | PIdle, [] => if allowed t o then Some (mkL (pc_of_op o) []) else None
  | _, _ => None
  end.

(* ---- the system: the Thread object, any number of user threads, the internal thread ---- *)
Record sys := mkS { s_g : gst; s_l : tid -> local }.

Definition upd (f : tid -> local) (t : tid) (v : local) : tid -> local := fun x => if Nat.eqb x t then v else f x.

Definition sys0 (sockets evd : bool) : sys := mkS (g0 sockets evd) (fun _ => l_idle).

Inductive who := U (t : tid) | I.
Inductive label := LBegin (t : tid) (o : op) | LStep (w : who) (c : choice).

Definition sys_step (s : sys) (lab : label) : option (sys * list ev) :=
  match lab with
  | LBegin t o =>
      match begin_op t o (s_l s t) with
      | Some l' => Some (mkS (s_g s) (upd (s_l s) t l'), [])
      | None => None
      end
  | LStep (U t) c =>
      match step c (s_g s) (s_l s t) with
      | Some (g', l', e) => Some (mkS g' (upd (s_l s) t l'), e)
      | None => None
      end
  | LStep I c =>
      match g_ist (s_g s) with
      | ILive =>
          match step c (s_g s) (g_il (s_g s)) with
          | Some (g', l', e) => Some (mkS (set_il l' g') (s_l s), e)
          | None => None
          end
      | _ => None
      end
  end.

(* states reachable by steps whose labels satisfy [ok] (a contract on the threads' programs; [fun _ => true] = none) *)
Inductive reachable_if (ok : label -> bool) (sockets evd : bool) : sys -> Prop :=
| reach_init : reachable_if ok sockets evd (sys0 sockets evd)
| reach_step : forall s lab s' e, reachable_if ok sockets evd s -> ok lab = true -> sys_step s lab = Some (s', e) ->
                                  reachable_if ok sockets evd s'.

Definition any_label (_ : label) : bool := true.
Definition reachable := reachable_if any_label.

(* executable form, for the examples and the driver *)
Fixpoint run (s : sys) (labs : list label) : option sys :=
  match labs with
  | [] => Some s
  | lab :: r => match sys_step s lab with Some (s', _) => run s' r | None => None end
  end.

End Model.
