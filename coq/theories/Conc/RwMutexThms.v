(* C18 -- property-level statements about the ReaderWriterMutex LTS, derived from the inductive invariant
   (RwMutexInv.inv_reachable) or directly from the transition function. *)
From Coq Require Import List Arith Bool Lia.
Import ListNotations.
From Muscle Require Import Conc.RwMutexModel Conc.RwMutexProofs Conc.RwMutexInv.

Section P.
Variable pref : bool.

(* ---- exclusion ---- *)

(* table level: an executing thread with write recursion is the only executing thread *)
Lemma exclusion_table : forall s, reachable pref s ->
  forall t e t' e', In (t, e) (g_exec (s_g s)) -> 0 < e_rw e -> In (t', e') (g_exec (s_g s)) -> t' = t /\ e' = e.
Proof.
  intros s Hr t e t' e' Hin Hw Hin'. destruct (inv_reachable pref s Hr) as [[[_ Hz]|(t0 & e0 & Hx & _ & _)] _].
  - apply Hz in Hin. lia.
  - rewrite Hx in Hin, Hin'. destruct Hin as [Hin|[]]. destruct Hin' as [Hin'|[]]. inversion Hin; inversion Hin'; subst. auto.
Qed.

(* thread level *)
Lemma exclusion_threads : forall s, reachable pref s ->
  forall t t' e, find t (g_exec (s_g s)) = Some e -> 0 < e_rw e -> t' <> t -> find t' (g_exec (s_g s)) = None.
Proof.
  intros s Hr t t' e Hf Hw Hne. destruct (inv_reachable pref s Hr) as [[Hrm|Hwm] _].
  - pose proof (read_find _ _ _ Hrm Hf). lia.
  - destruct (write_find _ _ _ Hwm Hf) as (Hx & _ & _). rewrite Hx. cbn [find].
    destruct (Nat.eqb t t') eqn:E; auto. apply Nat.eqb_eq in E. congruence.
Qed.

(* user level: what the calls that have returned entitle the threads to.  A thread whose completed calls hold the lock for
   writing excludes every other thread, except one that is inside an upgrading LockReadWrite call (which has given its read
   locks up for the duration of the call, as documented). *)
Lemma exclusion_user : forall s, reachable pref s ->
  forall t t', t' <> t -> 0 < l_hrw (s_l s t) ->
  (l_hro (s_l s t') = 0 /\ l_hrw (s_l s t') = 0) \/ l_stk (s_l s t') <> [].
Proof.
  intros s Hr t t' Hne Hw. destruct (inv_reachable pref s Hr) as [Hm Hl].
  destruct (Hl t) as [Hwf Hex _ _]. destruct (Hl t') as [Hwf' Hex' _ _].
  destruct (l_stk (s_l s t')) eqn:Hs'; [left|right; discriminate].
  assert (Hst : l_stk (s_l s t) = []).
  { unfold wf in Hwf. destruct (l_stk (s_l s t)) as [|[n i d|n|n i lrw] [|]]; auto; try contradiction.
    - destruct Hwf as (_ & _ & _ & H0 & _). lia.
    - destruct Hwf as (_ & _ & H0 & _). lia.
    - destruct Hwf as (_ & _ & H0 & _). lia. }
  unfold exp_ent, hold in Hex, Hex'. rewrite Hst in Hex. rewrite Hs' in Hex'. cbn [fst snd] in Hex, Hex'.
  rewrite mk_ent_pos in Hex by lia.
  pose proof (exclusion_threads s Hr t t' _ Hex) as Hx. cbn [e_rw] in Hx. specialize (Hx Hw Hne).
  rewrite Hx in Hex'. symmetry in Hex'. apply mk_ent_none in Hex'. exact Hex'.
Qed.

(* ---- counts: each release undoes exactly one acquire; failed calls change nothing ---- *)

(* outside any call the table holds exactly what the thread's completed calls entitle it to, and it is not queued *)
Lemma counts_idle : forall s, reachable pref s -> forall t, l_act (s_l s t) = AIdle ->
  find t (g_exec (s_g s)) = mk_ent (l_hro (s_l s t)) (l_hrw (s_l s t)) /\
  memk t (g_wr (s_g s)) = false /\ memk t (g_ww (s_g s)) = false.
Proof.
  intros s Hr t Ha. destruct (inv_reachable pref s Hr) as [_ Hl]. destruct (Hl t) as [Hwf Hex Hwr Hww].
  unfold inwr in Hwr. unfold inww in Hww. rewrite Ha in Hwr, Hww. split; [|auto].
  unfold wf in Hwf. unfold exp_ent, hold in Hex.
  destruct (l_stk (s_l s t)) as [|[n i d|n|n i lrw] [|]]; auto; try contradiction.
  - destruct Hwf as (Hc & _). congruence.
  - destruct Hwf as (_ & _ & _ & d & _ & [Hc|(_ & [Hc|(ok & Hc & _)])]); congruence.
  - destruct Hwf as (_ & _ & _ & _ & _ & [Hc|(_ & _ & [Hc|Hc])]); congruence.
Qed.

(* an unlock without a matching lock fails with B_LOCK_FAILED and changes nothing; otherwise it succeeds *)
Lemma unlock_ro_status : forall s, reachable pref s -> forall t g' l' o,
  l_act (s_l s t) = AEnterUnRO -> l_stk (s_l s t) = [] ->
  step pref t CRun (s_g s) (s_l s t) = Some (g', l', o) ->
  (l_hro (s_l s t) = 0 -> o_ret o = Some SLockFailed /\ g' = s_g s) /\
  (0 < l_hro (s_l s t) -> o_ret o = Some SOk /\ l_hro l' = pred (l_hro (s_l s t)) /\ l_hrw l' = l_hrw (s_l s t)).
Proof.
  intros s Hr t g' l' o Ha Hs H. destruct (inv_reachable pref s Hr) as [_ Hl]. destruct (Hl t) as [Hwf Hex _ _].
  unfold exp_ent, hold in Hex. unfold wf in Hwf. rewrite Hs in Hex, Hwf. rewrite Ha in Hwf. cbn [fst snd] in Hex.
  unfold step, run_cs in H. rewrite Ha in H. cbn [cs] in H. unfold unlock_ro in H. rewrite Hex in H.
  unfold complete in H. rewrite Hs, Hwf in H. cbn [finish ghost_ro ghost_rw] in H.
  destruct (l_hro (s_l s t)) as [|a] eqn:Hro.
  - split; [intros _|lia]. destruct (l_hrw (s_l s t)); cbn [mk_ent e_ro] in H; inversion H; subst; auto.
  - split; [lia|intros _]. cbn [mk_ent e_ro e_rw] in H.
    destruct (Nat.eqb a 0 && Nat.eqb (l_hrw (s_l s t)) 0).
    + destruct (maybe_notify pref (set_exec (s_g s) (remove t (g_exec (s_g s))))). inversion H; subst; auto.
    + inversion H; subst; auto.
Qed.

Lemma unlock_rw_status : forall s, reachable pref s -> forall t g' l' o,
  l_act (s_l s t) = AEnterUnRW -> l_stk (s_l s t) = [] ->
  step pref t CRun (s_g s) (s_l s t) = Some (g', l', o) ->
  (l_hrw (s_l s t) = 0 -> o_ret o = Some SLockFailed /\ g' = s_g s) /\
  (0 < l_hrw (s_l s t) -> o_ret o = Some SOk /\ l_hrw l' = pred (l_hrw (s_l s t)) /\ l_hro l' = l_hro (s_l s t)).
Proof.
  intros s Hr t g' l' o Ha Hs H. destruct (inv_reachable pref s Hr) as [_ Hl]. destruct (Hl t) as [Hwf Hex _ _].
  unfold exp_ent, hold in Hex. unfold wf in Hwf. rewrite Hs in Hex, Hwf. rewrite Ha in Hwf. cbn [fst snd] in Hex.
  unfold step, run_cs in H. rewrite Ha in H. cbn [cs] in H. unfold unlock_rw in H. rewrite Hex in H.
  unfold complete in H. rewrite Hs, Hwf in H. cbn [finish ghost_ro ghost_rw] in H.
  destruct (l_hrw (s_l s t)) as [|b] eqn:Hrw.
  - split; [intros _|lia]. destruct (l_hro (s_l s t)); cbn [mk_ent e_rw] in H; inversion H; subst; auto.
  - split; [lia|intros _]. rewrite mk_ent_S_r in H. cbn [e_ro e_rw] in H.
    match type of H with context [if Nat.eqb (pred (g_total (s_g s))) 0 then ?a else ?b] =>
      destruct (if Nat.eqb (pred (g_total (s_g s))) 0 then a else b) end.
    inversion H; subst; auto.
Qed.

(* ---- try acquisitions: one transition, never parked, nothing changed on failure ---- *)

Lemma try_ro_one_step : forall t g l, l_act l = AEnterRO Try -> l_stk l = [] ->
  exists g' l' o, step pref t CRun g l = Some (g', l', o) /\
    (o_ret o = Some SOk \/ (o_ret o = Some STimedOut /\ g' = g)) /\ o_park o = None /\ l_act l' = AIdle.
Proof.
  intros t g l Ha Hs. unfold step, run_cs. rewrite Ha. cbn [cs]. unfold enter_ro, complete. rewrite Hs. cbn [finish].
  destruct (find t (g_exec g)); [|destruct (ok_readers pref g)]; do 3 eexists; (split; [reflexivity|]); cbn; auto.
Qed.

Lemma try_rw_one_step : forall t g l, l_act l = AEnterRW Try -> l_stk l = [] ->
  exists g' l' o, step pref t CRun g l = Some (g', l', o) /\
    (o_ret o = Some SOk \/ (o_ret o = Some STimedOut /\ g' = g)) /\ o_park o = None /\ l_act l' = AIdle.
Proof.
  intros t g l Ha Hs. unfold step, run_cs. rewrite Ha. cbn [cs]. unfold enter_rw, complete. rewrite Hs. cbn [finish].
  destruct (find t (g_exec g)) as [e|].
  - destruct (Nat.ltb 0 (e_rw e) || Nat.eqb (length (g_exec g)) 1); do 3 eexists; (split; [reflexivity|]); cbn; auto.
  - destruct (ok_writer t g); do 3 eexists; (split; [reflexivity|]); cbn; auto.
Qed.

(* a timed waiter can time out at any moment it is parked, and the critical section that follows returns B_TIMED_OUT *)
Lemma timeout_always_enabled : forall t g l, (l_act l = AParkRO Timed \/ l_act l = AParkRW Timed) ->
  exists l', step pref t CTimeout g l = Some (g, l', wake_out false) /\
             (l_act l' = AWokeRO Timed false \/ l_act l' = AWokeRW Timed false) /\ l_stk l' = l_stk l.
Proof.
  intros t g l [Ha|Ha]; unfold step; rewrite Ha; eexists; (split; [reflexivity|]); cbn; auto.
Qed.

Lemma timed_out_returns : forall t g l d, (l_act l = AWokeRO d false \/ l_act l = AWokeRW d false) -> l_stk l = [] ->
  exists g' l' o, step pref t CRun g l = Some (g', l', o) /\ o_ret o = Some STimedOut /\ l_act l' = AIdle /\
                  l_hro l' = l_hro l /\ l_hrw l' = l_hrw l.
Proof.
  intros t g l d [Ha|Ha] Hs; unfold step, run_cs; rewrite Ha; cbn [cs]; unfold woke_ro, woke_rw, complete; cbn [negb]; rewrite Hs.
  - destruct (maybe_notify pref (leave_wr t g)). cbn [finish]. do 3 eexists. split; [reflexivity|]. cbn.
    destruct (l_op l) as [[| | |]|]; auto.
  - destruct (maybe_notify pref (leave_ww t g)). cbn [finish]. do 3 eexists. split; [reflexivity|]. cbn.
    destruct (l_op l) as [[| | |]|]; auto.
Qed.

(* ---- readers share ---- *)

Lemma readers_share : forall t d g l, l_act l = AEnterRO d -> l_stk l = [] ->
  g_total g = 0 -> (pref = false \/ g_ww g = []) ->
  exists g' l' o, step pref t CRun g l = Some (g', l', o) /\ o_ret o = Some SOk /\ o_park o = None /\
                  (forall k, k <> t -> find k (g_exec g') = find k (g_exec g)) /\
                  exists e, find t (g_exec g') = Some e /\ 0 < e_ro e.
Proof.
  intros t d g l Ha Hs Ht Hp. unfold step, run_cs. rewrite Ha. cbn [cs]. unfold enter_ro, complete. rewrite Hs. cbn [finish].
  assert (Hok : ok_readers pref g = true).
  { unfold ok_readers. rewrite Ht. cbn. destruct Hp as [->| ->]; auto. destruct pref; auto. }
  destruct (find t (g_exec g)) as [e|] eqn:Hf; [|rewrite Hok]; do 3 eexists; (split; [reflexivity|]); cbn [o_ret o_park set_exec g_exec];
    (split; [reflexivity|]); (split; [reflexivity|]); (split; [intros k Hk; apply find_setv_other; auto|]);
    eexists; (split; [apply find_setv_same|]); cbn; lia.
Qed.

End P.

(* ---- executions: running a list of labels from a state (used for the non-vacuity examples and the refutations) ---- *)
Fixpoint run (pref : bool) (labs : list label) (s : sys) : option sys :=
  match labs with
  | [] => Some s
  | a :: r => match sys_step pref s a with Some (s', _) => run pref r s' | None => None end
  end.

Lemma run_reachable : forall pref labs s s', reachable pref s -> run pref labs s = Some s' -> reachable pref s'.
Proof.
  induction labs as [|a r IH]; cbn [run]; intros s s' Hr H.
  - inversion H; subst; auto.
  - destruct (sys_step pref s a) as [[s1 o]|] eqn:E; [|discriminate]. eapply IH; [|eauto]. eapply reach_step; eauto.
Qed.

Definition B (t : tid) (o : op) : label := LBegin t o.
Definition R (t : tid) : label := LStep t CRun.
Definition T (t : tid) : label := LStep t CTimeout.

(* (known finding F22) a TIMED LockReadWrite() that has to upgrade can end up parked in a wait that has no timeout:
   thread 0 and 1 read; 0 asks for a timed upgrade, gives its read lock up, times out behind 1; 1 upgrades (it is now the
   only reader); 0 re-takes its read lock with LockReadOnly() -- untimed -- and parks behind writer 1: no timeout transition
   is enabled for it, although the call in flight is LockReadWrite(deadline). *)
Definition f22_trace : list label :=
  [B 0 (OLockRO Never); R 0; B 1 (OLockRO Never); R 1;
   B 0 (OLockRW Timed); R 0; R 0; R 0; T 0; R 0;
   B 1 (OLockRW Never); R 1; R 0].

Lemma timed_upgrade_deadline_refuted : forall pref,
  exists s, reachable pref s /\ l_op (s_l s 0) = Some (OLockRW Timed) /\ l_act (s_l s 0) = AParkRO Never /\
            step pref 0 CTimeout (s_g s) (s_l s 0) = None /\ step pref 0 CRun (s_g s) (s_l s 0) = None.
Proof.
  intros pref. destruct (run pref f22_trace sys0) as [s|] eqn:E.
  - exists s. split; [eapply run_reachable; [apply reach_init|exact E]|].
    destruct pref; vm_compute in E; inversion E; subst; vm_compute; auto.
  - destruct pref; vm_compute in E; discriminate.
Qed.
