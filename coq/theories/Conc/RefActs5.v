(* C10 -- preservation of [inv1] (part 5): the local beginning of an operation. *)
From Coq Require Import List Arith Bool Lia.
From Muscle Require Import Conc.Pool Conc.PoolProofs Conc.RefCnt Conc.RefInv Conc.RefExcl Conc.RefStep Conc.RefActs Conc.RefActs2 Conc.RefActs3 Conc.RefActs4.
Import ListNotations.
Local Open Scope nat_scope.

Section Acts5.
Variables N K : nat.

(* what resolution of a program location yields *)
Lemma resolve_r_spec : forall h stk l rs p, resolve_r h stk l = Some (rs, p) ->
  p = read_slot h stk rs /\
  match rs with
  | RStk i => i < length stk
  | RMem q j => j < length (o_mem (get_obj h q)) /\ exists i, nth i stk None = Some (q, true)
  end.
Proof.
  intros h stk [i|i j] rs p H; cbn [resolve_r] in H.
  - destruct (i <? length stk) eqn:Ei; inversion H; subst. apply Nat.ltb_lt in Ei. cbn. split; auto.
  - destruct (nth i stk None) as [[q [|]]|] eqn:Eq; try discriminate.
    destruct (j <? length (o_mem (get_obj h q))) eqn:Ej; inversion H; subst. apply Nat.ltb_lt in Ej. cbn. split; auto. split; eauto.
Qed.

Lemma resolve_w_spec : forall h stk l v rd q, resolve_w h stk l v = Some (rd, q) ->
  q = read_slot h stk rd /\ wloc_ok h stk rd /\ not_self rd v.
Proof.
  intros h stk [i|i j] v rd q H; cbn [resolve_w] in H.
  - destruct (i <? length stk) eqn:Ei; inversion H; subst. apply Nat.ltb_lt in Ei. cbn. auto.
  - destruct (nth i stk None) as [[y [|]]|] eqn:Ey; try discriminate.
    destruct ((j <? length (o_mem (get_obj h y))) && (o_cnt (get_obj h y) =? 1) && negb (opt_eqb v (Some y))) eqn:Ec; inversion H; subst.
    apply andb_true_iff in Ec. destruct Ec as (Ec & E3). apply andb_true_iff in Ec. destruct Ec as (E1 & E2).
    apply Nat.ltb_lt in E1. apply Nat.eqb_eq in E2. apply negb_true_iff in E3. cbn. split; auto. split; [split; auto; split; eauto|].
    intros ->. cbn in E3. rewrite Nat.eqb_refl in E3. discriminate.
Qed.

(* the pending work an operation starts with: shape, justification, balance *)
Record acts_ok (s : state) (t : nat) (stk : list ref) (acts : list act) : Prop := mkActsOk {
  ao_shape : shape acts;
  ao_ok : forall b, In b acts -> act_ok s stk b;
  ao_nofresh : forall o, ~ In (AInc o None) acts;
  ao_bal : forall z, sumf (act_unit z) acts = sumf (act_debt z) acts;
  ao_rel : forall z, sumf (rel_count z) acts = 0;
  ao_debt : forall z, 0 < sumf (act_debt z) acts -> touch_c s t z /\ is_live (hobj s z) = true
}.

Lemma begin_core : forall s t stk op prog acts, inv1 K s -> t < length (s_thr s) ->
  thr s t = mkThr stk [] (op :: prog) -> acts_ok s t stk acts ->
  inv1 K (with_thr s t (mkThr stk acts prog) (s_heap s) (s_pool s)).
Proof.
  intros s t stk op prog acts I Ht E [A1 A2 A3 A4 A5 A6].
  apply (todo_core K s t stk [] (op :: prog) acts prog (fun z => sumf (act_debt z) acts)); auto.
  intros b Hb. apply (heap_same_ok s _ stk b); [reflexivity| |auto].
  intros o ->. exfalso. eapply A3; eauto.
Qed.

Lemma acts_nil : forall s t stk, acts_ok s t stk [].
Proof. intros. constructor; cbn; auto; try lia. apply (sh_frames []); reflexivity. Qed.

(* a counting source slot justifies the increment *)
Lemma src_justifies : forall s t stk rs o, inv1 K s -> t < length (s_thr s) -> t_stk (thr s t) = stk ->
  read_slot (s_heap s) stk rs = Some (o, true) ->
  match rs with
  | RStk i => i < length stk
  | RMem q j => j < length (o_mem (get_obj (s_heap s) q)) /\ exists i, nth i stk None = Some (q, true)
  end ->
  src_ok s stk o (Some rs) /\ touch_c s t o /\ is_live (hobj s o) = true.
Proof.
  intros s t stk rs o I Ht Es Hr Hv. destruct rs as [i|q j]; cbn in Hr, Hv |- *.
  - split; auto. rewrite <- Es in Hr. destruct (held_live K s t i o I Ht Hr). split; auto. left. eauto.
  - destruct Hv as (Hj & Hi). split; [split; auto|]. destruct (member_live K s q j o I Hr). split; auto.
    right; left. exists q, j. exact Hr.
Qed.

Definition just (s : state) (t : nat) (stk : list ref) (o : nat) (rs : rloc) : Prop :=
  src_ok s stk o (Some rs) /\ touch_c s t o /\ is_live (hobj s o) = true.

Lemma ok_untag : forall s t stk l, wloc_ok (s_heap s) stk l -> acts_ok s t stk [AUntag l].
Proof.
  intros s t stk l W. constructor.
  - apply sh_single. exact Logic.I.
  - intros b [<-|[]]. exact W.
  - intros o' [H|[]]; discriminate.
  - intros z. reflexivity.
  - intros z. reflexivity.
  - intros z Hz. cbn in Hz. lia.
Qed.

Lemma ok_take : forall s t stk l, wloc_ok (s_heap s) stk l -> acts_ok s t stk [ATake l].
Proof.
  intros s t stk l W. constructor.
  - apply sh_take1.
  - intros b [<-|[]]. exact W.
  - intros o' [H|[]]; discriminate.
  - intros z. reflexivity.
  - intros z. reflexivity.
  - intros z Hz. cbn in Hz. lia.
Qed.

Lemma ok_store : forall s t stk l v, wloc_ok (s_heap s) stk l -> not_self l (ptr v) -> counting v = false ->
  acts_ok s t stk [AStore l v].
Proof.
  intros s t stk l v W NS Hc. constructor.
  - apply (sh_store []). reflexivity.
  - intros b [<-|[]]. split; auto.
  - intros o' [H|[]]; discriminate.
  - intros z. cbn. destruct v as [[y [|]]|]; cbn in *; try discriminate; reflexivity.
  - intros z. reflexivity.
  - intros z Hz. cbn in Hz. lia.
Qed.

Lemma ok_take_store : forall s t stk l v, wloc_ok (s_heap s) stk l -> not_self l (ptr v) -> counting v = false ->
  acts_ok s t stk [ATake l; AStore l v].
Proof.
  intros s t stk l v W NS Hc. constructor.
  - apply sh_take2.
  - intros b [<-|[<-|[]]]; [exact W|split; auto].
  - intros o' [H|[H|[]]]; discriminate.
  - intros z. cbn. destruct v as [[y [|]]|]; cbn in *; try discriminate; reflexivity.
  - intros z. reflexivity.
  - intros z Hz. cbn in Hz. lia.
Qed.

Lemma ok_inc_store : forall s t stk l o rs, wloc_ok (s_heap s) stk l -> not_self l (Some o) -> just s t stk o rs ->
  acts_ok s t stk [AInc o (Some rs); AStore l (Some (o, true))].
Proof.
  intros s t stk l o rs W NS (J1 & J2 & J3). constructor.
  - apply sh_inc1.
  - intros b [<-|[<-|[]]]; [exact J1|split; auto].
  - intros o' [H|[H|[]]]; discriminate.
  - intros z. cbn. unfold eq1. lia.
  - intros z. reflexivity.
  - intros z Hz. cbn in Hz. unfold eq1 in Hz. destruct (o =? z) eqn:Ez; [|lia]. apply Nat.eqb_eq in Ez. subst z. auto.
Qed.

Lemma ok_inc_take_store : forall s t stk l o rs, wloc_ok (s_heap s) stk l -> not_self l (Some o) -> just s t stk o rs ->
  acts_ok s t stk [AInc o (Some rs); ATake l; AStore l (Some (o, true))].
Proof.
  intros s t stk l o rs W NS (J1 & J2 & J3). constructor.
  - apply sh_inc2.
  - intros b [<-|[<-|[<-|[]]]]; [exact J1|exact W|split; auto].
  - intros o' [H|[H|[H|[]]]]; discriminate.
  - intros z. cbn. unfold eq1. lia.
  - intros z. reflexivity.
  - intros z Hz. cbn in Hz. unfold eq1 in Hz. destruct (o =? z) eqn:Ez; [|lia]. apply Nat.eqb_eq in Ez. subst z. auto.
Qed.

Lemma setref_ok : forall s t stk rd q o c rs,
  wloc_ok (s_heap s) stk rd -> not_self rd (Some o) -> (c = true -> just s t stk o rs) ->
  acts_ok s t stk (setref_acts rd q (Some o) c (Some rs)).
Proof.
  intros s t stk rd q o c rs W NS Hc. unfold setref_acts.
  destruct (opt_eqb (ptr q) (Some o)) eqn:Ep.
  - destruct (counting q) eqn:Eq; destruct c; try apply acts_nil.
    + apply ok_untag; auto.
    + apply ok_inc_store; auto.
  - unfold take_acts. destruct c.
    + destruct q as [[y [|]]|]; cbn [app]; [apply ok_inc_take_store|apply ok_inc_store|apply ok_inc_store]; auto.
    + destruct q as [[y [|]]|]; cbn [app]; [apply ok_take_store|apply ok_store|apply ok_store]; auto.
Qed.

Lemma reset_ok : forall s t stk rd q, wloc_ok (s_heap s) stk rd -> acts_ok s t stk (reset_acts rd q).
Proof.
  intros s t stk rd q W. unfold reset_acts. destruct q as [[y [|]]|]; try apply acts_nil.
  - apply ok_take; auto.
  - apply ok_store; auto. destruct rd; cbn; auto. discriminate.
Qed.

Lemma cast_ok : forall s t stk rd o c rs,
  wloc_ok (s_heap s) stk rd -> not_self rd (Some o) -> (c = true -> just s t stk o rs) ->
  acts_ok s t stk ((if c then [AInc o (Some rs)] else []) ++ [AStore rd (Some (o, c))]).
Proof.
  intros s t stk rd o c rs W NS Hc. destruct c; cbn [app].
  - apply ok_inc_store; auto.
  - apply ok_store; auto.
Qed.

(* ------------------------------------------------------------------ local operations that rearrange slots or payload at once *)

Lemma heapeq_core : forall s t stk op prog h' stk',
  inv1 K s -> t < length (s_thr s) -> thr s t = mkThr stk [] (op :: prog) ->
  length h' = length (s_heap s) ->
  (forall z, o_cnt (get_obj h' z) = o_cnt (get_obj (s_heap s) z) /\ o_st (get_obj h' z) = o_st (get_obj (s_heap s) z) /\
             o_pooled (get_obj h' z) = o_pooled (get_obj (s_heap s) z) /\ o_births (get_obj h' z) = o_births (get_obj (s_heap s) z) /\
             o_deaths (get_obj h' z) = o_deaths (get_obj (s_heap s) z) /\ length (o_mem (get_obj h' z)) = length (o_mem (get_obj (s_heap s) z))) ->
  (forall z, (touch_m s t z /\ is_live (hobj s z) = true) \/ o_mem (get_obj h' z) = o_mem (get_obj (s_heap s) z)) ->
  (forall o, refs_in o stk' + sumf (obj_units o) h' = refs_in o stk + sumf (obj_units o) (s_heap s)) ->
  inv1 K (with_thr s t (mkThr stk' [] prog) h' (s_pool s)).
Proof.
  intros s t stk op prog h' stk' I Ht E Hlen Hfld Hmem Hbal.
  assert (Hunits : forall z, units z (with_thr s t (mkThr stk' [] prog) h' (s_pool s)) = units z s).
  { intros z. pose proof (wt_units s t (mkThr stk' [] prog) h' (s_pool s) z Ht) as HU. rewrite E in HU.
    rewrite !tu_mk in HU. cbn [sumf] in HU. pose proof (Hbal z). lia. }
  assert (Hdebts : forall z, debts z (with_thr s t (mkThr stk' [] prog) h' (s_pool s)) = debts z s).
  { intros z. pose proof (wt_debts s t (mkThr stk' [] prog) h' (s_pool s) z Ht) as HD. rewrite E in HD.
    rewrite !td_mk in HD. cbn [sumf] in HD. lia. }
  apply assemble; [exact I|exact Ht|..].
  - intros z. rewrite Hunits, Hdebts, hobj_wt. destruct (Hfld z) as (-> & _). apply (i_count K s I).
  - intros z Hz. rewrite Hunits. apply (i_nolive K s I). rewrite hobj_wt in Hz. unfold is_live, hobj in *.
    destruct (Hfld z) as (_ & <- & _). auto.
  - intros z Hz. rewrite Hlen in Hz. rewrite hobj_wt. destruct (i_mem K s I z Hz) as (M1 & M2). unfold hobj in *.
    destruct (Hfld z) as (_ & Est & _ & _ & _ & El). split; [rewrite El; auto|]. unfold quiet in *. rewrite Est.
    destruct (Hmem z) as [(_ & Hl)|Em]; [|rewrite Em; auto].
    unfold is_live, hobj in Hl. destruct (o_st (get_obj (s_heap s) z)); auto; discriminate.
  - cbn. apply (sh_frames []). reflexivity.
  - intros a [].
  - intros z. right. rewrite !hobj_wt. destruct (Hfld z) as (-> & -> & -> & _). auto.
  - intros y. destruct (Hmem y) as [(Hy & _)|Em]; [left; auto|right; rewrite hobj_wt; auto].
  - intros y Hy. rewrite hobj_wt. destruct (Hfld y) as (_ & _ & _ & _ & _ & ->). reflexivity.
  - intros z. right. rewrite E. reflexivity.
  - intros z. pose proof (wt_rels s t (mkThr stk' [] prog) h' (s_pool s) z Ht) as HR. rewrite E in HR. cbn [t_todo sumf] in HR.
    rewrite hobj_wt. pose proof (i_rels K s I z) as HI. unfold hobj, is_releasing in *. destruct (Hfld z) as (_ & -> & _). lia.
  - intros z Hz. rewrite Hlen in Hz. rewrite hobj_wt. pose proof (i_ghost K s I z Hz) as HG. unfold hobj, is_live in *.
    destruct (Hfld z) as (_ & -> & _ & -> & -> & _). auto.
Qed.

(* facts about one slot write *)
Definition loc_valid (h : list obj) (stk : list ref) (l : rloc) : Prop :=
  match l with
  | RStk i => i < length stk
  | RMem q j => q < length h /\ j < length (o_mem (get_obj h q))
  end.

Definition mem_of (l : rloc) (z : nat) : bool := match l with RMem q _ => z =? q | RStk _ => false end.

Lemma write_facts : forall h stk l v h1 stk1, write_slot h stk l v = (h1, stk1) -> loc_valid h stk l ->
  length h1 = length h /\ length stk1 = length stk /\
  (forall z, o_cnt (get_obj h1 z) = o_cnt (get_obj h z) /\ o_st (get_obj h1 z) = o_st (get_obj h z) /\
             o_pooled (get_obj h1 z) = o_pooled (get_obj h z) /\ o_births (get_obj h1 z) = o_births (get_obj h z) /\
             o_deaths (get_obj h1 z) = o_deaths (get_obj h z) /\ length (o_mem (get_obj h1 z)) = length (o_mem (get_obj h z))) /\
  (forall z, mem_of l z = false -> get_obj h1 z = get_obj h z) /\
  (forall o, refs_in o stk1 + sumf (obj_units o) h1 + cref o (read_slot h stk l) = refs_in o stk + sumf (obj_units o) h + cref o v) /\
  read_slot h1 stk1 l = v /\
  (forall l', rloc_eqb l l' = false -> read_slot h1 stk1 l' = read_slot h stk l').
Proof.
  intros h stk [i|q j] v h1 stk1 Hw Hv; cbn in Hw, Hv; injection Hw as <- <-.
  - split; auto. split; [apply upd_length|]. split; auto 10. split; auto. split.
    + intros o. pose proof (refs_in_upd o stk i v Hv). cbn. lia.
    + split.
      * cbn. apply nth_upd_same; auto.
      * intros [i'|q' j'] Hne; cbn in *; auto. apply Nat.eqb_neq in Hne. apply nth_upd_other; auto.
  - destruct Hv as (Hq & Hj). split; [apply upd_length|]. split; auto.
    assert (Hget : forall z, get_obj (upd h q (set_mem (get_obj h q) (upd (o_mem (get_obj h q)) j v))) z =
                             if z =? q then set_mem (get_obj h q) (upd (o_mem (get_obj h q)) j v) else get_obj h z).
    { intros z. destruct (z =? q) eqn:Ez.
      - apply Nat.eqb_eq in Ez. subst z. apply get_upd_same; auto.
      - apply Nat.eqb_neq in Ez. apply get_upd_other; auto. }
    split; [|split; [|split; [|split]]].
    + intros z. rewrite Hget. destruct (z =? q) eqn:Ez; auto 10. apply Nat.eqb_eq in Ez. subst z. cbn. rewrite upd_length. auto 10.
    + intros z Ez. cbn in Ez. rewrite Hget, Ez. reflexivity.
    + intros o. pose proof (heap_units_upd h q (set_mem (get_obj h q) (upd (o_mem (get_obj h q)) j v)) o Hq) as HH.
      change (obj_units o (set_mem (get_obj h q) (upd (o_mem (get_obj h q)) j v))) with (refs_in o (upd (o_mem (get_obj h q)) j v)) in HH.
      change (obj_units o (get_obj h q)) with (refs_in o (o_mem (get_obj h q))) in HH.
      pose proof (refs_in_upd o (o_mem (get_obj h q)) j v Hj). cbn [read_slot]. lia.
    + cbn [read_slot]. rewrite Hget, Nat.eqb_refl. cbn. apply nth_upd_same; auto.
    + intros [i'|q' j'] Hne; cbn [read_slot]; auto. rewrite Hget. cbn in Hne.
      destruct (q' =? q) eqn:Eq; auto. apply Nat.eqb_eq in Eq. subst q'. rewrite Nat.eqb_refl in Hne. cbn in Hne.
      apply Nat.eqb_neq in Hne. cbn. apply nth_upd_other; auto.
Qed.

Lemma wloc_valid : forall s t stk l, inv1 K s -> t < length (s_thr s) -> t_stk (thr s t) = stk ->
  wloc_ok (s_heap s) stk l -> loc_valid (s_heap s) stk l /\
  (forall z, mem_of l z = true -> touch_m s t z /\ is_live (hobj s z) = true).
Proof.
  intros s t stk [i|q j] I Ht Es W; cbn in W |- *.
  - split; auto. discriminate.
  - destruct W as (W1 & W2 & (i & W3)). rewrite <- Es in W3. destruct (held_live K s t i q I Ht W3) as (Hl & _).
    split; [split; auto; apply live_lt; auto|]. intros z Ez. apply Nat.eqb_eq in Ez. subst z. split; auto. left. split; eauto.
Qed.

End Acts5.
