(* C10 -- no leaks: the reference graph (counting member references) of every reachable state is acyclic,
   because a reference is only ever stored into an object nobody else refers to and never points to
   that object itself; and in an acyclic graph nothing can keep itself alive: once no thread holds a
   counting reference or has work pending, every object that is still live hangs (directly or
   transitively) from an object with count zero -- so if there is none (no reference was ever
   converted to non-counting, which by contract leaves an unreleased object behind), every object
   has been released. *)
From Coq Require Import List Arith Bool Lia.
From Muscle Require Import Conc.Pool Conc.PoolProofs Conc.RefCnt Conc.RefInv Conc.RefExcl Conc.RefStep Conc.RefActs Conc.RefActs3 Conc.RefActs4 Conc.RefActs5 Conc.RefProofs Conc.RefFork.
Import ListNotations.
Local Open Scope nat_scope.

Section Acyc.
Variables N K : nat.

Definition edge (s : state) (a b : nat) : Prop := exists j, nth j (o_mem (hobj s a)) None = Some (b, true).

Inductive path (s : state) : nat -> nat -> Prop :=
| p_one : forall a b, edge s a b -> path s a b
| p_cons : forall a b c, edge s a b -> path s b c -> path s a c.

Definition acyclic (s : state) : Prop := forall a, ~ path s a a.

Lemma path_last : forall s a b, path s a b -> exists x, edge s x b.
Proof. induction 1 as [a b H|a b c H Hp IH]; eauto. Qed.

Lemma path_sub : forall s s', (forall a b, edge s' a b -> edge s a b) -> forall a b, path s' a b -> path s a b.
Proof. intros s s' Hsub a b Hp. induction Hp as [a b H|a b c H Hp IH]; [apply p_one; auto|eapply p_cons; eauto]. Qed.

Lemma path_app_edge : forall s a b c, path s a b -> edge s b c -> path s a c.
Proof. induction 1 as [a b H|a b c' H Hp IH]; intros H2; [eapply p_cons; [eauto|apply p_one; auto]|eapply p_cons; eauto]. Qed.

(* adding edges whose sources have no incoming edge afterwards keeps the graph acyclic *)
Lemma acyclic_add : forall s s' (Q : nat -> Prop),
  (forall a b, edge s' a b -> edge s a b \/ Q a) ->
  (forall q x, Q q -> ~ edge s' x q) ->
  acyclic s -> acyclic s'.
Proof.
  intros s s' Q Hnew Hnoin Ha.
  assert (G : forall a b, path s' a b -> path s a b \/ exists q, Q q /\ (q = a \/ path s' a q)).
  { induction 1 as [a b H|a b c H Hp IH].
    - destruct (Hnew a b H) as [E|Hq]; [left; apply p_one; auto|right; exists a; auto].
    - destruct (Hnew a b H) as [E|Hq]; [|right; exists a; auto].
      destruct IH as [P|(q & Hq & [->|P])].
      + left. eapply p_cons; eauto.
      + right. exists b. split; auto. right. apply p_one; auto.
      + right. exists q. split; auto. right. eapply p_cons; eauto. }
  intros a Hp. destruct (G a a Hp) as [P|(q & Hq & [->|P])].
  - apply (Ha a P).
  - destruct (path_last _ _ _ Hp) as (x & Hx). apply (Hnoin a x Hq Hx).
  - destruct (path_last _ _ _ P) as (x & Hx). apply (Hnoin q x Hq Hx).
Qed.

(* ------------------------------------------------------------------ quiescent states *)

Definition quiescent (s : state) : Prop :=
  forall th, In th (s_thr s) -> t_todo th = [] /\ forall o, refs_in o (t_stk th) = 0.

Lemma refs_in_pos : forall o l, 0 < refs_in o l -> exists j, nth j l None = Some (o, true).
Proof.
  induction l as [|r t IH]; unfold refs_in; cbn; intros H; [lia|].
  destruct (cref o r) eqn:E.
  - destruct IH as (j & Hj); [unfold refs_in; lia|]. exists (S j). auto.
  - exists 0. cbn. destruct r as [[q [|]]|]; cbn in E; try discriminate. unfold eq1 in *.
    destruct (q =? o) eqn:Eq; [|discriminate]. apply Nat.eqb_eq in Eq. subst. reflexivity.
Qed.

Lemma sumf_pos_ex : forall A (f : A -> nat) l, 0 < sumf f l -> exists x, In x l /\ 0 < f x.
Proof.
  induction l as [|h t IH]; cbn; intros H; [lia|].
  destruct (f h) eqn:E.
  - destruct IH as (x & Hx & Hp); [lia|]. exists x; auto.
  - exists h. split; auto. lia.
Qed.

(* in a quiescent state a live object with a positive count is referenced by a live object *)
Lemma live_pred : forall s o, inv1 K s -> quiescent s -> is_live (hobj s o) = true -> 1 <= o_cnt (hobj s o) ->
  exists a, is_live (hobj s a) = true /\ edge s a o.
Proof.
  intros s o I Q Hl Hc. pose proof (i_count K s I o) as HC.
  assert (Hthr : sumf (thr_units o) (s_thr s) = 0).
  { apply sumf_zero. intros th Hin. destruct (Q th Hin) as (E1 & E2). unfold thr_units. rewrite E1, E2. reflexivity. }
  unfold units in HC. rewrite Hthr in HC.
  destruct (sumf_pos_ex _ (obj_units o) (s_heap s)) as (ob & Hin & Hp); [lia|].
  apply In_nth with (d := dobj) in Hin. destruct Hin as (a & Ha & Ea).
  unfold obj_units in Hp. destruct (refs_in_pos o (o_mem ob) Hp) as (j & Hj).
  assert (Hob : hobj s a = ob) by exact Ea.
  exists a. split; [|exists j; rewrite Hob; exact Hj].
  destruct (is_live (hobj s a)) eqn:El; auto. exfalso.
  destruct (i_mem K s I a Ha) as (_ & Hq). unfold quiet in Hq. unfold is_live in El. rewrite Hob in *.
  destruct (o_st ob) eqn:Est; try discriminate.
  - (* releasing: some thread would have to be carrying the release *)
    pose proof (i_rels K s I a) as HR. unfold is_releasing in HR. rewrite Hob, Est in HR. unfold rels in HR.
    assert (Z : sumf (fun t => sumf (rel_count a) (t_todo t)) (s_thr s) = 0).
    { apply sumf_zero. intros th Hin. destruct (Q th Hin) as (E1 & _). rewrite E1. reflexivity. }
    lia.
  - pose proof (all_none_refs o _ Hq). unfold refs_in in *. lia.
  - pose proof (all_none_refs o _ Hq). unfold refs_in in *. lia.
Qed.

(* leak-freedom: acyclic graph, nothing pending, no thread holds a counting reference, and no live object
   is sitting at count zero (which only a stop-counting conversion can cause): then nothing is live,
   i.e. every object has been released *)
Theorem leak_free : forall s, inv1 K s -> acyclic s -> quiescent s ->
  (forall o, is_live (hobj s o) = true -> 1 <= o_cnt (hobj s o)) ->
  forall o, is_live (hobj s o) = false.
Proof.
  intros s I A Q Hpos o. destruct (is_live (hobj s o)) eqn:Hl; auto. exfalso.
  assert (G : forall n, exists x0 rest, length rest = n /\ NoDup (x0 :: rest) /\
                (forall x, In x (x0 :: rest) -> is_live (hobj s x) = true) /\ (forall y, In y rest -> path s x0 y)).
  { induction n as [|n (x0 & rest & Hlen & Hnd & Hlive & Hpath)].
    - exists o, []. split; auto. split; [constructor; [intros []|constructor]|]. split; [intros x [<-|[]]; auto|intros y []].
    - destruct (live_pred s x0 I Q (Hlive x0 (or_introl eq_refl)) (Hpos x0 (Hlive x0 (or_introl eq_refl)))) as (a & Hla & Hea).
      exists a, (x0 :: rest). split; [cbn; lia|]. split; [|split].
      + constructor; auto. intros [E|Hin].
        * rewrite E in Hea. apply (A a). apply p_one; auto.
        * apply (A x0). eapply path_app_edge; eauto.
      + intros x [<-|Hin]; auto.
      + intros y [<-|Hin]; [apply p_one; auto|]. eapply p_cons; eauto. }
  destruct (G (length (s_heap s))) as (x0 & rest & Hlen & Hnd & Hlive & _).
  assert (Hincl : incl (x0 :: rest) (seq 0 (length (s_heap s)))).
  { intros x Hx. apply in_seq. specialize (Hlive x Hx). apply live_lt in Hlive. lia. }
  pose proof (NoDup_incl_length Hnd Hincl) as Hle. rewrite seq_length in Hle. cbn in Hle. lia.
Qed.


(* ------------------------------------------------------------------ how a step changes member slots *)

Definition mem_le (m' m : list ref) : Prop := forall j b, nth j m' None = Some (b, true) -> nth j m None = Some (b, true).

Lemma mem_le_refl : forall m, mem_le m m.
Proof. intros m j b H; auto. Qed.

Definition heap_le (h' h : list obj) : Prop := forall y, mem_le (o_mem (get_obj h' y)) (o_mem (get_obj h y)).

Lemma heap_le_refl : forall h, heap_le h h.
Proof. intros h y. apply mem_le_refl. Qed.

Lemma heap_le_trans : forall a b c, heap_le a b -> heap_le b c -> heap_le a c.
Proof. intros a b c H1 H2 y j x H. apply H2. apply H1. auto. Qed.

Lemma upd_keepmem : forall h x ob', o_mem ob' = o_mem (get_obj h x) -> heap_le (upd h x ob') h.
Proof.
  intros h x ob' E y. destruct (Nat.eq_dec x y) as [->|Hne].
  - destruct (lt_dec y (length h)) as [Hl|Hl]; [rewrite get_upd_same by auto; rewrite E|rewrite upd_oob by lia]; apply mem_le_refl.
  - rewrite get_upd_other by auto. apply mem_le_refl.
Qed.

Lemma upd_slot_le : forall h q j v, counting v = false ->
  heap_le (upd h q (set_mem (get_obj h q) (upd (o_mem (get_obj h q)) j v))) h.
Proof.
  intros h q j v Hv y. destruct (Nat.eq_dec q y) as [->|Hne]; [|rewrite get_upd_other by auto; apply mem_le_refl].
  destruct (lt_dec y (length h)) as [Hl|Hl]; [rewrite get_upd_same by auto|rewrite upd_oob by lia; apply mem_le_refl].
  cbn [o_mem set_mem]. intros j' b H. destruct (Nat.eq_dec j j') as [->|Hj]; [|rewrite nth_upd_other in H by auto; auto].
  destruct (lt_dec j' (length (o_mem (get_obj h y)))) as [Hlj|Hlj]; [|rewrite upd_oob in H by lia; auto].
  rewrite nth_upd_same in H by auto. subst v. discriminate.
Qed.

Lemma write_le : forall h stk l v h1 stk1, write_slot h stk l v = (h1, stk1) -> counting v = false -> heap_le h1 h.
Proof.
  intros h stk [i|q j] v h1 stk1 H Hv; cbn in H; inversion H; subst; [apply heap_le_refl|apply upd_slot_le; auto].
Qed.

Lemma app_le : forall h new, (forall ob, In ob new -> all_none (o_mem ob) = true) -> heap_le (h ++ new) h.
Proof.
  intros h new Hn y j b H. destruct (lt_dec y (length h)) as [Hl|Hl].
  - rewrite get_app_old in H by auto. auto.
  - exfalso. rewrite get_app_new in H by lia.
    destruct (lt_dec (y - length h) (length new)) as [Hl2|Hl2].
    + assert (Hin : In (nth (y - length h) new dobj) new) by (apply nth_In; auto).
      specialize (Hn _ Hin). unfold all_none in Hn. rewrite forallb_forall in Hn.
      destruct (lt_dec j (length (o_mem (nth (y - length h) new dobj)))) as [Hj|Hj].
      * specialize (Hn _ (nth_In _ None Hj)). rewrite H in Hn. discriminate.
      * rewrite (nth_overflow (o_mem (nth (y - length h) new dobj))) in H by lia. discriminate.
    + rewrite (nth_overflow new) in H by lia. cbn in H. destruct j; discriminate.
Qed.

Lemma inc_le : forall h o h', inc_obj h o = Some h' -> heap_le h' h.
Proof. intros h o h' H. unfold inc_obj in H. destruct (is_live (get_obj h o)); inversion H; subst. apply upd_keepmem. reflexivity. Qed.

Lemma dec_le : forall h q h' z, dec_obj h q = Some (h', z) -> heap_le h' h.
Proof.
  intros h q h' z H. unfold dec_obj in H. destruct (is_live (get_obj h q) && (0 <? o_cnt (get_obj h q))); [|discriminate].
  destruct (o_cnt (get_obj h q) - 1 =? 0); inversion H; subst; apply upd_keepmem; reflexivity.
Qed.

Lemma deckeep_le : forall h q h', dec_keep h q = Some h' -> heap_le h' h.
Proof.
  intros h q h' H. unfold dec_keep in H. destruct (is_live (get_obj h q) && (0 <? o_cnt (get_obj h q))); inversion H; subst.
  apply upd_keepmem. reflexivity.
Qed.

Lemma set_range_le : forall h base n, heap_le (set_range h base n (fun ob => set_st ob Dead)) h.
Proof.
  intros h base n y. rewrite set_range_get by auto. destruct ((base <=? y) && (y <? base + n)); apply mem_le_refl.
Qed.

Definition stores_counting_member (a : act) : Prop :=
  match a with AStore (RMem _ _) (Some (_, true)) => True | _ => False end.

Lemma do_act_le : forall h p stk a rest h' stk' todo' p' ev, ~ stores_counting_member a ->
  do_act N K h p stk a rest = (h', stk', todo', p', ev) -> heap_le h' h.
Proof.
  intros h p stk a rest h' stk' todo' p' ev Hns H. destruct a; cbn [do_act] in H.
  - destruct (inc_obj h o) eqn:E; inversion H; subst; [eapply inc_le; eauto|apply heap_le_refl].
  - destruct (dec_obj h o) as [[h2 [|]]|] eqn:E; inversion H; subst; first [eapply dec_le; eassumption|apply heap_le_refl].
  - destruct (dec_keep h o) eqn:E; inversion H; subst; [eapply deckeep_le; eauto|apply heap_le_refl].
  - destruct (write_slot h stk l None) as [h1 stk1] eqn:E. inversion H; subst. eapply write_le; eauto.
  - destruct (read_slot h stk l) as [[q [|]]|]; try (inversion H; subst; apply heap_le_refl).
    destruct (write_slot h stk l (Some (q, false))) as [h1 stk1] eqn:E. inversion H; subst. eapply write_le; eauto.
  - destruct (write_slot h stk l v) as [h1 stk1] eqn:E. inversion H; subst.
    destruct l as [i|q j]; [cbn in E; inversion E; subst; apply heap_le_refl|].
    destruct v as [[b [|]]|]; [exfalso; apply Hns; exact Logic.I| |]; eapply write_le; eauto.
  - destruct (negb (is_releasing (get_obj h o))); [inversion H; subst; apply heap_le_refl|].
    destruct (n <? length (o_mem (get_obj h o))).
    + inversion H; subst. apply upd_slot_le. reflexivity.
    + destruct (o_pooled (get_obj h o)).
      * destruct (pool_release N p o) as [p2 [sd|]]; inversion H; subst; apply upd_keepmem; reflexivity.
      * inversion H; subst. apply upd_keepmem. reflexivity.
  - destruct (pool_obtain N (length h) p) as [[p2 o] created].
    set (h1 := match created with Some _ => h ++ repeat (fresh_obj K true Pooled) N | None => h end) in *.
    assert (L1 : heap_le h1 h).
    { unfold h1. destruct created; [|apply heap_le_refl]. apply app_le. intros ob Hob. apply repeat_spec in Hob. subst.
      unfold all_none. apply forallb_forall. intros x Hx. cbn in Hx. apply repeat_spec in Hx. subst. reflexivity. }
    destruct (is_pooled_st (get_obj h1 o) && is_default (get_obj h1 o)); inversion H; subst; auto.
    eapply heap_le_trans; [|exact L1]. apply upd_keepmem. reflexivity.
  - destruct (pool_drain N p) as [p2 dels]. inversion H; subst. apply heap_le_refl.
  - destruct (range_all h (sl_base s) N is_pooled_st); inversion H; subst; [apply set_range_le|apply heap_le_refl].
Qed.


Lemma edge_le : forall s s', heap_le (s_heap s') (s_heap s) -> forall a b, edge s' a b -> edge s a b.
Proof. intros s s' H a b (j & Hj). exists j. apply (H a j b Hj). Qed.

Lemma acyclic_le : forall s s', heap_le (s_heap s') (s_heap s) -> acyclic s -> acyclic s'.
Proof. intros s s' H A a Hp. apply (A a). eapply path_sub; [apply edge_le; eauto|eauto]. Qed.

(* writes into member slots of objects without incoming edges, none of the new values pointing into the written set *)
Lemma acyclic_writes : forall s s' (W : nat -> Prop),
  (forall a, W a \/ ~ W a) ->
  (forall w x, W w -> ~ edge s x w) ->
  (forall y, ~ W y -> mem_le (o_mem (hobj s' y)) (o_mem (hobj s y))) ->
  (forall x j b, W x -> nth j (o_mem (hobj s' x)) None = Some (b, true) -> edge s x b \/ ~ W b) ->
  acyclic s -> acyclic s'.
Proof.
  intros s s' W Hdec Hnoin Hout Hin A. apply (acyclic_add s s' W); auto.
  - intros a b (j & Hj). destruct (Hdec a) as [Wa|Wa]; auto. left. exists j. apply (Hout a Wa j b Hj).
  - intros q x Wq (j & Hj). destruct (Hdec x) as [Wx|Wx].
    + destruct (Hin x j q Wx Hj) as [E|E]; [apply (Hnoin q x Wq E)|auto].
    + apply (Hnoin q x Wq). exists j. apply (Hout x Wx j q Hj).
Qed.

Lemma rloc_eqb_false : forall a b, rloc_eqb a b = false -> a <> b.
Proof.
  intros [i|q j] [i'|q' j'] H E; inversion E; subst; cbn in H.
  - rewrite Nat.eqb_refl in H. discriminate.
  - rewrite !Nat.eqb_refl in H. discriminate.
Qed.

Lemma rloc_eqb_true : forall a b, rloc_eqb a b = true -> a = b.
Proof.
  intros [i|q j] [i'|q' j'] H; cbn in H; try discriminate.
  - apply Nat.eqb_eq in H. subst. reflexivity.
  - apply andb_true_iff in H. destruct H as (H1 & H2). apply Nat.eqb_eq in H1, H2. subst. reflexivity.
Qed.

(* an object private to thread t has no incoming edge *)
Lemma private_no_in : forall s t stk l, inv1 K s -> t < length (s_thr s) -> t_stk (thr s t) = stk ->
  wloc_ok (s_heap s) stk l -> forall w x, mem_of l w = true -> ~ edge s x w.
Proof.
  intros s t stk [i|q j] I Ht Es W w x Hw (j0 & Hj); cbn in Hw; [discriminate|]. apply Nat.eqb_eq in Hw. subst w.
  cbn in W. destruct W as (_ & Hc & (i & Hi)). rewrite <- Es in Hi.
  apply (private_no_member K s t i q I Ht Hi Hc x j0 Hj).
Qed.


(* ------------------------------------------------------------------ the two kinds of steps that add edges *)

Lemma store_acyclic : forall s t stk q j p rest prog h1 stk1, inv1 K s -> t < length (s_thr s) ->
  thr s t = mkThr stk (AStore (RMem q j) (Some (p, true)) :: rest) prog ->
  write_slot (s_heap s) stk (RMem q j) (Some (p, true)) = (h1, stk1) ->
  forall s', s_heap s' = h1 -> acyclic s -> acyclic s'.
Proof.
  intros s t stk q j p rest prog h1 stk1 I Ht E Hw s' Hs' A.
  assert (Es : t_stk (thr s t) = stk) by (rewrite E; auto).
  pose proof (i_acts K s I t (AStore (RMem q j) (Some (p, true))) Ht) as Hok. rewrite E in Hok. specialize (Hok (or_introl eq_refl)).
  cbn [act_ok t_stk] in Hok. destruct Hok as (W & NS).
  destruct (wloc_valid K s t stk (RMem q j) I Ht Es W) as ((Hq & Hj) & _).
  cbn in Hw. injection Hw as Eh Est. rewrite <- Eh in Hs'. clear Eh Est.
  apply (acyclic_writes s s' (fun a => a = q)); auto.
  - intros a. destruct (Nat.eq_dec a q); auto.
  - intros w x -> . apply (private_no_in s t stk (RMem q j) I Ht Es W q x). cbn. apply Nat.eqb_refl.
  - intros y Hy. unfold hobj. rewrite Hs'. rewrite get_upd_other by auto. apply mem_le_refl.
  - intros x j0 b -> Hv. unfold hobj in Hv. rewrite Hs' in Hv. rewrite get_upd_same in Hv by auto. cbn [o_mem set_mem] in Hv.
    destruct (Nat.eq_dec j j0) as [->|Hne].
    + rewrite nth_upd_same in Hv by auto. inversion Hv; subst. right. intros ->. apply NS. reflexivity.
    + rewrite nth_upd_other in Hv by auto. left. exists j0. exact Hv.
Qed.

Lemma swap_acyclic : forall s t stk ra rb h1 stk1 h2 stk2, inv1 K s -> t < length (s_thr s) -> t_stk (thr s t) = stk ->
  wloc_ok (s_heap s) stk ra -> wloc_ok (s_heap s) stk rb ->
  not_self ra (ptr (read_slot (s_heap s) stk rb)) -> not_self rb (ptr (read_slot (s_heap s) stk ra)) ->
  rloc_eqb ra rb = false ->
  write_slot (s_heap s) stk ra (read_slot (s_heap s) stk rb) = (h1, stk1) ->
  write_slot h1 stk1 rb (read_slot (s_heap s) stk ra) = (h2, stk2) ->
  forall s', s_heap s' = h2 -> acyclic s -> acyclic s'.
Proof.
  intros s t stk ra rb h1 stk1 h2 stk2 I Ht Es Wa Wb NSa NSb Hab Hw1 Hw2 s' Hs' A.
  set (va := read_slot (s_heap s) stk ra) in *. set (vb := read_slot (s_heap s) stk rb) in *.
  destruct (wloc_valid K s t stk ra I Ht Es Wa) as (Va & _). destruct (wloc_valid K s t stk rb I Ht Es Wb) as (Vb & _).
  destruct (write_facts _ _ _ _ _ _ Hw1 Va) as (L1 & S1 & F1 & G1 & B1 & R1 & O1).
  assert (Vb1 : loc_valid h1 stk1 rb).
  { destruct rb as [i|q j]; cbn in Vb |- *; [lia|]. destruct (F1 q) as (_ & _ & _ & _ & _ & ->). lia. }
  destruct (write_facts _ _ _ _ _ _ Hw2 Vb1) as (L2 & S2 & F2 & G2 & B2 & R2 & O2).
  (* the content of any member slot afterwards *)
  assert (Hval : forall x j0, nth j0 (o_mem (hobj s' x)) None =
            if rloc_eqb rb (RMem x j0) then va else if rloc_eqb ra (RMem x j0) then vb else nth j0 (o_mem (hobj s x)) None).
  { intros x j0. unfold hobj. rewrite Hs'. change (nth j0 (o_mem (get_obj h2 x)) None) with (read_slot h2 stk2 (RMem x j0)).
    destruct (rloc_eqb rb (RMem x j0)) eqn:Eb.
    - apply rloc_eqb_true in Eb. rewrite <- Eb. exact R2.
    - rewrite (O2 _ Eb). destruct (rloc_eqb ra (RMem x j0)) eqn:Ea.
      + apply rloc_eqb_true in Ea. rewrite <- Ea. exact R1.
      + rewrite (O1 _ Ea). reflexivity. }
  apply (acyclic_writes s s' (fun a => mem_of ra a = true \/ mem_of rb a = true)); auto.
  - intros a. destruct (mem_of ra a); auto. destruct (mem_of rb a); auto. right. intros [H|H]; discriminate.
  - intros w x [Hw|Hw]; [apply (private_no_in s t stk ra I Ht Es Wa w x Hw)|apply (private_no_in s t stk rb I Ht Es Wb w x Hw)].
  - intros y Hy j0 b Hv. rewrite Hval in Hv.
    destruct (rloc_eqb rb (RMem y j0)) eqn:Eb.
    { exfalso. apply Hy. right. apply rloc_eqb_true in Eb. rewrite Eb. cbn. apply Nat.eqb_refl. }
    destruct (rloc_eqb ra (RMem y j0)) eqn:Ea.
    { exfalso. apply Hy. left. apply rloc_eqb_true in Ea. rewrite Ea. cbn. apply Nat.eqb_refl. }
    exact Hv.
  - intros x j0 b Wx Hv. rewrite Hval in Hv.
    assert (Hself : forall l c, wloc_ok (s_heap s) stk l -> mem_of l c = true -> read_slot (s_heap s) stk l <> Some (c, true)).
    { intros [i|q j] c Wl Hc Hr; cbn in Hc; [discriminate|]. apply Nat.eqb_eq in Hc. subst c.
      apply (private_no_in s t stk (RMem q j) I Ht Es Wl q q); [cbn; apply Nat.eqb_refl|]. exists j. exact Hr. }
    assert (Hns : forall l v c, not_self l (ptr v) -> mem_of l c = true -> v <> Some (c, true)).
    { intros [i|q j] v c NS Hc Hr; cbn in Hc; [discriminate|]. apply Nat.eqb_eq in Hc. subst c v. apply NS. reflexivity. }
    destruct (rloc_eqb rb (RMem x j0)) eqn:Eb.
    { right. intros [Hb|Hb].
      - apply (Hself ra b Wa Hb). exact Hv.
      - apply (Hns rb va b NSb Hb). exact Hv. }
    destruct (rloc_eqb ra (RMem x j0)) eqn:Ea.
    { right. intros [Hb|Hb].
      - apply (Hns ra vb b NSa Hb). exact Hv.
      - apply (Hself rb b Wb Hb). exact Hv. }
    left. exists j0. exact Hv.
Qed.


(* ------------------------------------------------------------------ every step *)

Lemma begin_le : forall h stk op h' stk' todo' ok, (forall a b, op <> OSwap a b) ->
  begin_op K h stk op = (h', stk', todo', ok) -> heap_le h' h.
Proof.
  intros h stk op h' stk' todo' ok Hns Hb.
  destruct op as [i pooled|dst src|dst src|dst src|l|a b|dst src|i v|]; cbn [begin_op] in Hb.
  - destruct (i <? length stk); [|injection Hb as <- <- <- <-; apply heap_le_refl].
    destruct pooled; injection Hb as <- <- <- <-; [apply heap_le_refl|].
    apply app_le. intros ob [<-|[]]. cbn. unfold all_none. apply forallb_forall. intros x Hx. apply repeat_spec in Hx. subst. reflexivity.
  - destruct (resolve_r h stk src) as [[rs p]|]; [|injection Hb as <- <- <- <-; apply heap_le_refl].
    destruct (resolve_w h stk dst (ptr p)) as [[rd q]|]; injection Hb as <- <- <- <-; apply heap_le_refl.
  - destruct (resolve_r h stk src) as [[rs p]|]; [|injection Hb as <- <- <- <-; apply heap_le_refl].
    destruct (resolve_w h stk dst (ptr p)) as [[rd q]|]; injection Hb as <- <- <- <-; apply heap_le_refl.
  - destruct (resolve_r h stk src) as [[rs p]|]; [|injection Hb as <- <- <- <-; apply heap_le_refl].
    destruct (resolve_w h stk dst (ptr p)) as [[rd q]|]; injection Hb as <- <- <- <-; apply heap_le_refl.
  - destruct (resolve_w h stk l None) as [[rd q]|]; injection Hb as <- <- <- <-; apply heap_le_refl.
  - exfalso. apply (Hns a b). reflexivity.
  - destruct (resolve_r h stk src) as [[rs p]|]; [|injection Hb as <- <- <- <-; apply heap_le_refl].
    destruct (resolve_w h stk dst (ptr p)) as [[rd q]|]; injection Hb as <- <- <- <-; apply heap_le_refl.
  - destruct (nth i stk None) as [[q [|]]|]; try (injection Hb as <- <- <- <-; apply heap_le_refl).
    destruct (o_cnt (get_obj h q) =? 1); injection Hb as <- <- <- <-; [apply upd_keepmem; reflexivity|apply heap_le_refl].
  - injection Hb as <- <- <- <-. apply heap_le_refl.
Qed.

Theorem step_acyclic : forall s t, inv1 K s -> t < length (s_thr s) -> acyclic s -> acyclic (fst (step N K s t)).
Proof.
  intros s t I Ht A. unfold step. fold (thr s t).
  destruct (thr s t) as [stk todo prog] eqn:E. cbn [t_todo t_stk t_prog].
  assert (Es : t_stk (thr s t) = stk) by (rewrite E; auto).
  destruct todo as [|a rest].
  - destruct prog as [|op prog]; [exact A|].
    destruct (begin_op K (s_heap s) stk op) as [[[h' stk'] todo'] ok] eqn:Hb. cbn [fst].
    assert (Hgen : (forall a b, op <> OSwap a b) -> acyclic (mkSt h' (upd (s_thr s) t (mkThr stk' todo' prog)) (s_pool s))).
    { intros Hns. apply (acyclic_le s); auto. cbn [s_heap]. eapply begin_le; eauto. }
    destruct op; try (apply Hgen; intros; discriminate).
    (* OSwap *)
    cbn [begin_op] in Hb.
    destruct (resolve_r (s_heap s) stk a) as [[ra0 va]|] eqn:Era; [|injection Hb as <- <- <- <-; apply (acyclic_le s); [apply heap_le_refl|exact A]].
    destruct (resolve_r (s_heap s) stk b) as [[rb0 vb]|] eqn:Erb; [|injection Hb as <- <- <- <-; apply (acyclic_le s); [apply heap_le_refl|exact A]].
    destruct (resolve_w (s_heap s) stk a (ptr vb)) as [[ra qa]|] eqn:Ewa; [|injection Hb as <- <- <- <-; apply (acyclic_le s); [apply heap_le_refl|exact A]].
    destruct (resolve_w (s_heap s) stk b (ptr va)) as [[rb qb]|] eqn:Ewb; [|injection Hb as <- <- <- <-; apply (acyclic_le s); [apply heap_le_refl|exact A]].
    destruct (resolve_rw _ _ _ _ _ _ _ _ Era Ewa) as (<- & <-). destruct (resolve_rw _ _ _ _ _ _ _ _ Erb Ewb) as (<- & <-).
    destruct (resolve_r_spec _ _ _ _ _ Era) as (Eva & _). destruct (resolve_r_spec _ _ _ _ _ Erb) as (Evb & _).
    destruct (resolve_w_spec _ _ _ _ _ _ Ewa) as (_ & Wa & NSa). destruct (resolve_w_spec _ _ _ _ _ _ Ewb) as (_ & Wb & NSb).
    destruct (rloc_eqb ra0 rb0) eqn:Eab; [injection Hb as <- <- <- <-; apply (acyclic_le s); [apply heap_le_refl|exact A]|].
    destruct (write_slot (s_heap s) stk ra0 vb) as [h1 stk1] eqn:Hw1.
    destruct (write_slot h1 stk1 rb0 va) as [h2 stk2] eqn:Hw2. injection Hb as <- <- <- <-.
    subst va vb.
    exact (swap_acyclic s t stk ra0 rb0 h1 stk1 h2 stk2 I Ht Es Wa Wb NSa NSb Eab Hw1 Hw2 (mkSt h2 _ _) eq_refl A).
  - destruct (do_act N K (s_heap s) (s_pool s) stk a rest) as [[[[h' stk'] todo'] p'] ev] eqn:Hdo. cbn [fst].
    assert (Hgen : ~ stores_counting_member a -> acyclic (mkSt h' (upd (s_thr s) t (mkThr stk' todo' prog)) p')).
    { intros Hns. apply (acyclic_le s); auto. cbn [s_heap]. eapply do_act_le; eauto. }
    destruct a; try (apply Hgen; intros []).
    destruct l as [i|q j]; [apply Hgen; intros []|].
    destruct v as [[p [|]]|]; [|apply Hgen; intros []|apply Hgen; intros []].
    cbn [do_act] in Hdo.
    destruct (write_slot (s_heap s) stk (RMem q j) (Some (p, true))) as [h1 stk1] eqn:Hw. injection Hdo as <- <- <- <- <-.
    exact (store_acyclic s t stk q j p rest prog h1 stk1 I Ht E Hw (mkSt h1 _ _) eq_refl A).
Qed.

Lemma init_acyclic : forall max stksize progs, acyclic (init_state max stksize progs).
Proof.
  intros max stksize progs a Hp. destruct (path_last _ _ _ Hp) as (x & (j & Hj)).
  unfold hobj, init_state, get_obj in Hj. cbn in Hj. destruct x; destruct j; discriminate.
Qed.

Theorem reachable_acyclic : forall s0 s, inv1 K s0 -> progs_ok s0 -> acyclic s0 -> reachable N K s0 s -> acyclic s.
Proof.
  intros s0 s I0 P0 A0 H. induction H as [|s t H IH Ht]; auto.
  destruct (reachable_inv1 N K s0 s I0 P0 H) as (I & _). apply step_acyclic; auto.
Qed.

(* C10, no leaks: from the initial state, in any quiescent reachable state in which no live object sits
   at count zero, nothing is live: every object ever created has been released. *)
Theorem no_leak : forall max stksize progs s, progs_ok (init_state max stksize progs) ->
  reachable N K (init_state max stksize progs) s -> quiescent s ->
  (forall o, is_live (hobj s o) = true -> 1 <= o_cnt (hobj s o)) ->
  forall o, is_live (hobj s o) = false.
Proof.
  intros max stksize progs s P0 H Q Hpos.
  destruct (reachable_inv1 N K _ s (init_inv1 K max stksize progs) P0 H) as (I & _).
  apply leak_free; auto.
  apply (reachable_acyclic (init_state max stksize progs) s (init_inv1 K max stksize progs) P0 (init_acyclic max stksize progs) H).
Qed.

(* thread creation only changes counts *)
Lemma fork_acyclic : forall s progs, acyclic s -> acyclic (fork_state s progs).
Proof.
  intros s progs A. apply (acyclic_le s); auto. unfold fork_state; cbn [s_heap]. intros y.
  unfold get_obj. destruct (lt_dec y (length (s_heap s))) as [Hl|Hl].
  - rewrite bump_nth by auto. apply mem_le_refl.
  - rewrite nth_overflow by (rewrite bump_length; lia). rewrite (nth_overflow (s_heap s)) by lia. apply mem_le_refl.
Qed.

End Acyc.

(* non-vacuity: a history that builds a two-object chain (pooled parent, heap child) and drops it ends in a
   quiescent state with two objects on the heap, none of them live *)
Definition leak_demo_prog : list op :=
  [ONew 0 true; ONew 1 false; OAssign (LMem 0 0) (LStk 1); OReset (LStk 1); OAssign (LStk 2) (LStk 0); OReset (LStk 0); OReset (LStk 2)].

Example leak_demo :
  let s0 := init_state 0 4 [leak_demo_prog] in
  let s := fst (run_sched 2 2 s0 (repeat 0 60)) in
  progs_ok s0 /\ reachable 2 2 s0 s /\ quiescent s /\ 3 <= length (s_heap s) /\
  forallb (fun ob => negb (is_live ob)) (s_heap s) = true.
Proof.
  cbn zeta. split; [|split; [|split; [|split]]].
  - intros th Hin. cbn in Hin. destruct Hin as [<-|[]]; reflexivity.
  - apply run_sched_reachable; [apply r_refl|]. apply Forall_forall. intros t Ht. apply repeat_spec in Ht. subst. cbn. lia.
  - intros th Hin. vm_compute in Hin. destruct Hin as [<-|[]]. split; [reflexivity|]. intros o. reflexivity.
  - vm_compute. lia.
  - vm_compute. reflexivity.
Qed.
