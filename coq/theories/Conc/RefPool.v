(* C10 -- the link between the heap's life-cycle states and the pool's bookkeeping, as an invariant
   of the transition system: a node is in a free list exactly when its object is in the pooled
   (default) state, the objects of a slab waiting for deletion are all pooled, slabs (listed or
   waiting for deletion) are pairwise disjoint. *)
From Coq Require Import List Arith Bool Lia Permutation.
From Muscle Require Import Conc.Pool Conc.PoolProofs Conc.RefCnt Conc.RefInv Conc.RefExcl Conc.RefStep Conc.RefActs Conc.RefActs3 Conc.RefProofs.
Import ListNotations.
Local Open Scope nat_scope.

Section PoolLink.
Variables N K : nat.

Fixpoint slabs_of (todo : list act) : list slab :=
  match todo with
  | [] => []
  | ASlabDel sd :: r => sd :: slabs_of r
  | _ :: r => slabs_of r
  end.

Definition pend (s : state) : list slab := concat (map (fun t => slabs_of (t_todo t)) (s_thr s)).

Definition owned_by (l : list slab) (x : nat) : Prop := exists sd, In sd l /\ owns N sd x = true.

Definition pend_ok (hlen : nat) (l : list slab) : Prop :=
  Forall (fun sd => sl_base sd + N <= hlen) l /\ NoDup (map sl_base l) /\
  (forall sd sd' x, In sd l -> In sd' l -> owns N sd x = true -> owns N sd' x = true -> sl_base sd = sl_base sd').

Record plink (s : state) : Prop := mkPlink {
  pl_wf : pool_wf N (length (s_heap s)) (s_pool s);
  pl_pendok : pend_ok (length (s_heap s)) (pend s);
  pl_cross : forall x, owned_by (pend s) x -> ~ owned_by (p_slabs (s_pool s)) x;
  pl_free : forall x, pfree N (p_slabs (s_pool s)) x -> o_st (hobj s x) = Pooled /\ o_val (hobj s x) = 0;
  pl_used : forall x, pused N (p_slabs (s_pool s)) x -> o_st (hobj s x) = Live \/ o_st (hobj s x) = Releasing;
  pl_pend : forall x, owned_by (pend s) x -> o_st (hobj s x) = Pooled;
  pl_cover : forall x, x < length (s_heap s) -> o_pooled (hobj s x) = true -> o_st (hobj s x) <> Dead ->
             owned_by (pend s ++ p_slabs (s_pool s)) x;
  pl_flag : forall x, owned_by (pend s ++ p_slabs (s_pool s)) x -> o_pooled (hobj s x) = true
}.

Lemma owned_perm : forall l l' x, Permutation l l' -> owned_by l x -> owned_by l' x.
Proof. intros l l' x HP (sd & Hin & Ho). exists sd. split; auto. eapply Permutation_in; eauto. Qed.

Lemma owned_app : forall a b x, owned_by (a ++ b) x <-> owned_by a x \/ owned_by b x.
Proof.
  intros a b x. split.
  - intros (sd & Hin & Ho). apply in_app_or in Hin. destruct Hin; [left|right]; exists sd; auto.
  - intros [(sd & Hin & Ho)|(sd & Hin & Ho)]; exists sd; split; auto; apply in_or_app; auto.
Qed.

Lemma pfree_owned : forall l x, pfree N l x -> owned_by l x.
Proof. intros l x (sd & Hin & Ho & _). exists sd; auto. Qed.
Lemma pused_owned : forall l x, pused N l x -> owned_by l x.
Proof. intros l x (sd & Hin & Ho & _). exists sd; auto. Qed.

Lemma owned_free_or_used : forall l x, owned_by l x -> pfree N l x \/ pused N l x.
Proof.
  intros l x (sd & Hin & Ho).
  destruct (in_dec Nat.eq_dec (x - sl_base sd) (free_nodes N sd)); [left|right]; exists sd; auto.
Qed.

Lemma cwf_weaken : forall hlen hlen' nid l, hlen <= hlen' -> cwf N hlen nid l -> cwf N hlen' nid l.
Proof.
  intros hlen hlen' nid l Hle (H1 & H2 & H3 & H4 & H5). repeat split; auto.
  rewrite Forall_forall in *. intros sd Hs. specialize (H4 sd Hs). lia.
Qed.

Lemma cwf_owned_lt : forall hlen nid l x, cwf N hlen nid l -> owned_by l x -> x < hlen.
Proof. intros hlen nid l x Hc (sd & Hin & Ho). eapply owned_lt_hlen; eauto. Qed.

(* ------------------------------------------------------------------ pending slabs under a thread update *)

Lemma concat_map_upd : forall A B (f : A -> list B) l i x d, i < length l ->
  Permutation (concat (map f (upd l i x)) ++ f (nth i l d)) (concat (map f l) ++ f x).
Proof.
  induction l as [|h t IH]; intros [|i] x d Hi; cbn in *; try lia.
  - rewrite <- app_assoc. apply Permutation_trans with ((concat (map f t) ++ f h) ++ f x); [apply Permutation_app_comm|].
    apply Permutation_app_tail. apply Permutation_app_comm.
  - rewrite <- !app_assoc. apply Permutation_app_head. apply IH. lia.
Qed.

Lemma pend_with : forall s t th' h' p', t < length (s_thr s) ->
  Permutation (pend (with_thr s t th' h' p') ++ slabs_of (t_todo (thr s t))) (pend s ++ slabs_of (t_todo th')).
Proof. intros. unfold pend, with_thr, thr; cbn [s_thr]. apply (concat_map_upd _ _ (fun t => slabs_of (t_todo t))); auto. Qed.

Lemma pend_same : forall s t th' h' p', t < length (s_thr s) ->
  slabs_of (t_todo th') = slabs_of (t_todo (thr s t)) -> Permutation (pend (with_thr s t th' h' p')) (pend s).
Proof.
  intros s t th' h' p' Ht E. pose proof (pend_with s t th' h' p' Ht) as HP. rewrite E in HP.
  eapply Permutation_app_inv_r; eauto.
Qed.

Lemma slabs_of_app : forall a b, slabs_of (a ++ b) = slabs_of a ++ slabs_of b.
Proof. induction a as [|x a IH]; intros; cbn; auto. destruct x; cbn; rewrite ?IH; auto. Qed.

(* ------------------------------------------------------------------ steps that do not involve the pool *)

Definition obj_frame (ob ob' : obj) : Prop :=
  o_pooled ob' = o_pooled ob /\
  (o_pooled ob = true ->
     (o_st ob' = o_st ob \/ (o_st ob = Live /\ o_st ob' = Releasing)) /\
     (is_live ob = false -> o_val ob' = o_val ob)).

Lemma pend_ok_perm : forall hlen l l', Permutation l l' -> pend_ok hlen l -> pend_ok hlen l'.
Proof.
  intros hlen l l' HP (H1 & H2 & H3). split; [|split].
  - eapply Permutation_Forall; eauto.
  - eapply Permutation_NoDup; [apply Permutation_map; eauto|auto].
  - intros sd sd' x I1 I2. apply H3; eapply Permutation_in; try eassumption; apply Permutation_sym; auto.
Qed.

Lemma pend_ok_weaken : forall hlen hlen' l, hlen <= hlen' -> pend_ok hlen l -> pend_ok hlen' l.
Proof.
  intros hlen hlen' l Hle (H1 & H2 & H3). split; [|split]; auto.
  rewrite Forall_forall in *. intros sd Hs. specialize (H1 sd Hs). lia.
Qed.

Lemma pend_owned_lt : forall hlen l x, pend_ok hlen l -> owned_by l x -> x < hlen.
Proof.
  intros hlen l x (H1 & _) (sd & Hin & Ho). rewrite Forall_forall in H1. specialize (H1 sd Hin). apply owns_spec in Ho. lia.
Qed.

Lemma all_owned_lt : forall s x, plink s -> owned_by (pend s ++ p_slabs (s_pool s)) x -> x < length (s_heap s).
Proof.
  intros s x P Hx. apply owned_app in Hx. destruct Hx as [Hx|Hx].
  - eapply pend_owned_lt; eauto. apply (pl_pendok s P).
  - eapply cwf_owned_lt; [apply pool_wf_cwf; apply (pl_wf s P)|auto].
Qed.

Lemma plink_frame : forall s s', plink s ->
  s_pool s' = s_pool s -> Permutation (pend s') (pend s) ->
  length (s_heap s) <= length (s_heap s') ->
  (forall x, length (s_heap s) <= x -> o_pooled (hobj s' x) = false) ->
  (forall x, x < length (s_heap s) -> obj_frame (hobj s x) (hobj s' x)) ->
  plink s'.
Proof.
  intros s s' P Ep HP Hlen Hnew Hold. pose proof P as [P1 P2 P2b P3 P4 P5 P6 P7].
  assert (HPall : Permutation (pend s' ++ p_slabs (s_pool s)) (pend s ++ p_slabs (s_pool s))) by (apply Permutation_app_tail; auto).
  assert (Hpooled : forall x, owned_by (pend s ++ p_slabs (s_pool s)) x ->
            o_pooled (hobj s x) = true /\ obj_frame (hobj s x) (hobj s' x)).
  { intros x Hx. split; auto. apply Hold. eapply all_owned_lt; eauto. }
  constructor; rewrite ?Ep.
  - eapply pool_wf_weaken; eauto.
  - eapply pend_ok_weaken; eauto. eapply pend_ok_perm; [apply Permutation_sym; eauto|auto].
  - intros x Hx. apply P2b. eapply owned_perm; eauto.
  - intros x Hx. destruct (P3 x Hx) as (A1 & A2).
    destruct (Hpooled x) as (B1 & (B2 & B3)); [apply owned_app; right; apply pfree_owned; auto|].
    destruct (B3 B1) as ([E|(E & _)] & Ev); [|congruence]. rewrite E, Ev; auto. unfold is_live. rewrite A1. reflexivity.
  - intros x Hx. destruct (Hpooled x) as (B1 & (B2 & B3)); [apply owned_app; right; apply pused_owned; auto|].
    destruct (B3 B1) as ([E|(E1 & E2)] & _); [rewrite E; auto|auto].
  - intros x Hx. assert (Hx' : owned_by (pend s) x) by (eapply owned_perm; eauto).
    destruct (Hpooled x) as (B1 & (B2 & B3)); [apply owned_app; left; auto|].
    specialize (P5 x Hx'). destruct (B3 B1) as ([E|(E & _)] & _); congruence.
  - intros x Hx Hp Hd. destruct (lt_dec x (length (s_heap s))) as [Hl|Hl]; [|rewrite Hnew in Hp by lia; discriminate].
    destruct (Hold x Hl) as (B2 & B3). rewrite B2 in Hp. destruct (B3 Hp) as ([E|(E1 & E2)] & _).
    + eapply owned_perm; [apply Permutation_sym; eauto|]. apply P6; auto. congruence.
    + eapply owned_perm; [apply Permutation_sym; eauto|]. apply P6; auto. congruence.
  - intros x Hx. assert (Hx' : owned_by (pend s ++ p_slabs (s_pool s)) x) by (eapply owned_perm; eauto).
    destruct (Hpooled x Hx') as (B1 & (B2 & _)). congruence.
Qed.


(* ------------------------------------------------------------------ heap changes that leave the pool's view intact *)

Definition heap_frame (h h' : list obj) : Prop :=
  length h <= length h' /\
  (forall x, length h <= x -> o_pooled (get_obj h' x) = false) /\
  (forall x, x < length h -> obj_frame (get_obj h x) (get_obj h' x)).

Lemma obj_frame_refl : forall ob, obj_frame ob ob.
Proof. intros ob. split; auto. Qed.

Lemma obj_frame_trans : forall a b c, obj_frame a b -> obj_frame b c -> obj_frame a c.
Proof.
  intros a b c (A1 & A2) (B1 & B2). split; [congruence|]. intros Hp.
  destruct (A2 Hp) as (A3 & A4). assert (Hpb : o_pooled b = true) by congruence. destruct (B2 Hpb) as (B3 & B4).
  split.
  - destruct A3 as [E|(E1 & E2)]; destruct B3 as [F|(F1 & F2)]; try (left; congruence); try (right; split; congruence).
  - intros Hl. rewrite B4; auto. unfold is_live in *. destruct A3 as [E|(E1 & E2)]; [rewrite E; auto|rewrite E1 in Hl; discriminate].
Qed.

Lemma heap_frame_refl : forall h, heap_frame h h.
Proof.
  intros h. split; auto. split.
  - intros x Hx. unfold get_obj. rewrite nth_overflow by auto. reflexivity.
  - intros; apply obj_frame_refl.
Qed.

Lemma heap_frame_trans : forall a b c, heap_frame a b -> heap_frame b c -> heap_frame a c.
Proof.
  intros a b c (A1 & A2 & A3) (B1 & B2 & B3). split; [lia|]. split.
  - intros x Hx. destruct (lt_dec x (length b)) as [Hl|Hl]; [|apply B2; lia].
    destruct (B3 x Hl) as (E & _). rewrite E. apply A2; auto.
  - intros x Hx. eapply obj_frame_trans; [apply A3; auto|apply B3; lia].
Qed.

Lemma frame_upd : forall h o ob', obj_frame (get_obj h o) ob' -> heap_frame h (upd h o ob').
Proof.
  intros h o ob' Hf. split; [rewrite upd_length; auto|]. split.
  - intros x Hx. destruct (Nat.eq_dec o x) as [->|Hne].
    + rewrite upd_oob by lia. unfold get_obj. rewrite nth_overflow by lia. reflexivity.
    + rewrite get_upd_other by auto. unfold get_obj. rewrite nth_overflow by lia. reflexivity.
  - intros x Hx. destruct (Nat.eq_dec o x) as [->|Hne].
    + rewrite get_upd_same by auto. auto.
    + rewrite get_upd_other by auto. apply obj_frame_refl.
Qed.

Lemma frame_inc : forall h o h', inc_obj h o = Some h' -> heap_frame h h'.
Proof.
  intros h o h' H. unfold inc_obj in H. destruct (is_live (get_obj h o)); inversion H; subst.
  apply frame_upd. split; auto.
Qed.

Lemma frame_dec : forall h q h' z, dec_obj h q = Some (h', z) -> heap_frame h h'.
Proof.
  intros h q h' z H. unfold dec_obj in H. destruct (is_live (get_obj h q)) eqn:El; cbn [andb] in H; [|discriminate].
  destruct (0 <? o_cnt (get_obj h q)); [|discriminate].
  destruct (o_cnt (get_obj h q) - 1 =? 0); inversion H; subst; apply frame_upd; split; auto; intros Hp; cbn.
  split; [right; split; auto; unfold is_live in El; destruct (o_st (get_obj h q)); auto; discriminate|auto].
Qed.

Lemma frame_dec_keep : forall h q h', dec_keep h q = Some h' -> heap_frame h h'.
Proof.
  intros h q h' H. unfold dec_keep in H. destruct (is_live (get_obj h q) && (0 <? o_cnt (get_obj h q))); inversion H; subst.
  apply frame_upd. split; auto.
Qed.

Lemma frame_write : forall h stk l v h1 stk1, write_slot h stk l v = (h1, stk1) -> heap_frame h h1.
Proof.
  intros h stk [i|q j] v h1 stk1 H; cbn in H; inversion H; subst; [apply heap_frame_refl|].
  apply frame_upd. split; auto.
Qed.

Lemma slabs_of_dec_of : forall old, slabs_of (dec_of old) = [].
Proof. intros [[q [|]]|]; reflexivity. Qed.

Definition bad56 (e : event) : bool := match e with EvBad w => (w =? 5) || (w =? 6) | _ => false end.

(* the actions that do not involve the pool *)
Definition pool_free_act (h : list obj) (a : act) : Prop :=
  match a with
  | APoolObt _ | ADrain | ASlabDel _ => False
  | ARel o n => is_releasing (get_obj h o) = true -> n < length (o_mem (get_obj h o)) \/ o_pooled (get_obj h o) = false
  | _ => True
  end.

Lemma do_act_frame : forall h p stk a rest h' stk' todo' p' ev, pool_free_act h a ->
  do_act N K h p stk a rest = (h', stk', todo', p', ev) ->
  p' = p /\ heap_frame h h' /\ slabs_of todo' = slabs_of (a :: rest) /\ bad56 ev = false.
Proof.
  intros h p stk a rest h' stk' todo' p' ev Hpf H. destruct a; cbn [do_act] in H; cbn in Hpf; try tauto.
  - destruct (inc_obj h o) eqn:E; inversion H; subst; (split; [reflexivity|split; [|split; [reflexivity|reflexivity]]]);
      first [eapply frame_inc; eassumption | apply heap_frame_refl].
  - destruct (dec_obj h o) as [[h2 [|]]|] eqn:E; inversion H; subst; (split; [reflexivity|split; [|split; [reflexivity|reflexivity]]]);
      first [eapply frame_dec; eassumption | apply heap_frame_refl].
  - destruct (dec_keep h o) eqn:E; inversion H; subst; (split; [reflexivity|split; [|split; [reflexivity|reflexivity]]]);
      first [eapply frame_dec_keep; eassumption | apply heap_frame_refl].
  - destruct (write_slot h stk l None) as [h1 stk1] eqn:E. inversion H; subst. fold (dec_of (read_slot h stk l)).
    split; [reflexivity|split; [eapply frame_write; eauto|split; [|reflexivity]]]. rewrite slabs_of_app, slabs_of_dec_of. reflexivity.
  - destruct (read_slot h stk l) as [[q [|]]|] eqn:Er.
    + destruct (write_slot h stk l (Some (q, false))) as [h1 stk1] eqn:E. inversion H; subst.
      split; [reflexivity|split; [eapply frame_write; eauto|split; reflexivity]].
    + inversion H; subst. split; [reflexivity|split; [apply heap_frame_refl|split; reflexivity]].
    + inversion H; subst. split; [reflexivity|split; [apply heap_frame_refl|split; reflexivity]].
  - destruct (write_slot h stk l v) as [h1 stk1] eqn:E. inversion H; subst. fold (dec_of (read_slot h stk l)).
    split; [reflexivity|split; [eapply frame_write; eauto|split; [|reflexivity]]]. rewrite slabs_of_app, slabs_of_dec_of. reflexivity.
  - destruct (is_releasing (get_obj h o)) eqn:Er; cbn [negb] in H;
      [|inversion H; subst; split; [reflexivity|split; [apply heap_frame_refl|split; reflexivity]]].
    destruct (n <? length (o_mem (get_obj h o))) eqn:En.
    + inversion H; subst. fold (dec_of (nth (rel_index (get_obj h o) n) (o_mem (get_obj h o)) None)).
      split; [reflexivity|split; [apply frame_upd; split; auto|split; [|reflexivity]]]. rewrite slabs_of_app, slabs_of_dec_of. reflexivity.
    + apply Nat.ltb_ge in En. destruct (Hpf eq_refl) as [Hx|Hx]; [lia|]. rewrite Hx in H. inversion H; subst.
      split; [reflexivity|split; [|split; reflexivity]]. apply frame_upd. split; auto. intros Hp. cbn in Hp. congruence.
Qed.


Lemma slabs_of_reset : forall l q, slabs_of (reset_acts l q) = [].
Proof. intros l [[y [|]]|]; reflexivity. Qed.

Lemma slabs_of_setref : forall l q p c src, slabs_of (setref_acts l q p c src) = [].
Proof.
  intros l q p c src. unfold setref_acts. destruct p as [o|]; [|apply slabs_of_reset].
  destruct (opt_eqb (ptr q) (Some o)).
  - destruct (counting q), c; reflexivity.
  - unfold take_acts. destruct c; destruct q as [[y [|]]|]; reflexivity.
Qed.

Lemma slabs_of_cast : forall l q p c src, slabs_of (castassign_acts l q p c src) = [].
Proof. intros l q p c src. unfold castassign_acts. destruct p as [o|]; [destruct c; reflexivity|apply slabs_of_reset]. Qed.

Lemma begin_frame : forall s t stk op prog h' stk' todo' ok, inv1 K s -> t < length (s_thr s) ->
  thr s t = mkThr stk [] (op :: prog) -> prog_ok op = true ->
  begin_op K (s_heap s) stk op = (h', stk', todo', ok) ->
  heap_frame (s_heap s) h' /\ slabs_of todo' = [].
Proof.
  intros s t stk op prog h' stk' todo' ok I Ht E Hop Hb.
  destruct op as [i pooled|dst src|dst src|dst src|l|a b|dst src|i v|]; cbn [begin_op] in Hb; try discriminate.
  - destruct (i <? length stk); [|injection Hb as <- <- <- <-; split; [apply heap_frame_refl|reflexivity]].
    destruct pooled; injection Hb as <- <- <- <-.
    + split; [apply heap_frame_refl|reflexivity].
    + split; [|exact (slabs_of_setref (RStk i) (nth i stk None) (Some (length (s_heap s))) true None)]. split; [rewrite app_length; lia|]. split.
      * intros x Hx. destruct (Nat.eq_dec x (length (s_heap s))) as [->|Hne].
        -- unfold get_obj. rewrite nth_app_new. reflexivity.
        -- unfold get_obj. rewrite nth_overflow by (rewrite app_length; cbn; lia). reflexivity.
      * intros x Hx. unfold get_obj. rewrite app_nth1 by auto. apply obj_frame_refl.
  - destruct (resolve_r (s_heap s) stk src) as [[rs p]|]; [|injection Hb as <- <- <- <-; split; [apply heap_frame_refl|reflexivity]].
    destruct (resolve_w (s_heap s) stk dst (ptr p)) as [[rd q]|]; injection Hb as <- <- <- <-; split; try apply heap_frame_refl; auto.
    apply slabs_of_setref.
  - destruct (resolve_r (s_heap s) stk src) as [[rs p]|]; [|injection Hb as <- <- <- <-; split; [apply heap_frame_refl|reflexivity]].
    destruct (resolve_w (s_heap s) stk dst (ptr p)) as [[rd q]|]; injection Hb as <- <- <- <-; split; try apply heap_frame_refl; auto.
    apply slabs_of_setref.
  - destruct (resolve_w (s_heap s) stk l None) as [[rd q]|]; injection Hb as <- <- <- <-; split; try apply heap_frame_refl; auto.
    apply slabs_of_reset.
  - destruct (resolve_r (s_heap s) stk a) as [[ra0 va]|]; [|injection Hb as <- <- <- <-; split; [apply heap_frame_refl|reflexivity]].
    destruct (resolve_r (s_heap s) stk b) as [[rb0 vb]|]; [|injection Hb as <- <- <- <-; split; [apply heap_frame_refl|reflexivity]].
    destruct (resolve_w (s_heap s) stk a (ptr vb)) as [[ra qa]|]; [|injection Hb as <- <- <- <-; split; [apply heap_frame_refl|reflexivity]].
    destruct (resolve_w (s_heap s) stk b (ptr va)) as [[rb qb]|]; [|injection Hb as <- <- <- <-; split; [apply heap_frame_refl|reflexivity]].
    destruct (rloc_eqb ra rb); [injection Hb as <- <- <- <-; split; [apply heap_frame_refl|reflexivity]|].
    destruct (write_slot (s_heap s) stk ra vb) as [h1 stk1] eqn:Hw1.
    destruct (write_slot h1 stk1 rb va) as [h2 stk2] eqn:Hw2. injection Hb as <- <- <- <-.
    split; [|reflexivity]. eapply heap_frame_trans; eapply frame_write; eauto.
  - destruct (resolve_r (s_heap s) stk src) as [[rs p]|]; [|injection Hb as <- <- <- <-; split; [apply heap_frame_refl|reflexivity]].
    destruct (resolve_w (s_heap s) stk dst (ptr p)) as [[rd q]|]; injection Hb as <- <- <- <-; split; try apply heap_frame_refl; auto.
    apply slabs_of_cast.
  - destruct (nth i stk None) as [[q [|]]|] eqn:Eq; try (injection Hb as <- <- <- <-; split; [apply heap_frame_refl|reflexivity]).
    destruct (o_cnt (get_obj (s_heap s) q) =? 1); injection Hb as <- <- <- <-; (split; [|reflexivity]); [|apply heap_frame_refl].
    assert (Hq' : nth i (t_stk (thr s t)) None = Some (q, true)) by (rewrite E; auto).
    destruct (held_live K s t i q I Ht Hq') as (Hl & _).
    apply frame_upd. split; auto. intros Hp. cbn. split; auto. intros Hnl. unfold hobj in Hl. congruence.
  - injection Hb as <- <- <- <-. split; [apply heap_frame_refl|reflexivity].
Qed.


(* ------------------------------------------------------------------ the pool-free steps *)

Lemma plink_of_frame : forall s t stk todo prog stk' todo' prog' h',
  plink s -> t < length (s_thr s) -> thr s t = mkThr stk todo prog ->
  heap_frame (s_heap s) h' -> slabs_of todo' = slabs_of todo ->
  plink (with_thr s t (mkThr stk' todo' prog') h' (s_pool s)).
Proof.
  intros s t stk todo prog stk' todo' prog' h' P Ht E (F1 & F2 & F3) Hs.
  apply (plink_frame s); auto.
  apply pend_same; auto. rewrite E. exact Hs.
Qed.

(* ------------------------------------------------------------------ slab deletion *)

Lemma pend_ok_tail : forall hlen sd l, pend_ok hlen (sd :: l) -> pend_ok hlen l.
Proof.
  intros hlen sd l (H1 & H2 & H3). split; [inversion H1; auto|]. split; [inversion H2; auto|].
  intros a b x Ia Ib. apply H3; right; auto.
Qed.

Lemma pend_head_disjoint : forall hlen sd l x, 1 <= N -> pend_ok hlen (sd :: l) -> owns N sd x = true -> ~ owned_by l x.
Proof.
  intros hlen sd l x HN (H1 & H2 & H3) Ho (sd' & Hin & Ho'). cbn in H2. inversion H2 as [|b bs Hni Hnd]; subst.
  apply Hni. rewrite (H3 sd sd' x (or_introl eq_refl) (or_intror Hin) Ho Ho'). apply in_map; auto.
Qed.

Lemma plink_slabdel : forall s t stk sd rest prog, 1 <= N ->
  plink s -> t < length (s_thr s) -> thr s t = mkThr stk (ASlabDel sd :: rest) prog ->
  range_all (s_heap s) (sl_base sd) N is_pooled_st = true /\
  plink (with_thr s t (mkThr stk rest prog) (set_range (s_heap s) (sl_base sd) N (fun ob => set_st ob Dead)) (s_pool s)).
Proof.
  intros s t stk sd rest prog HN P Ht E. pose proof P as [P1 P2 P2b P3 P4 P5 P6 P7].
  set (s' := with_thr s t (mkThr stk rest prog) (set_range (s_heap s) (sl_base sd) N (fun ob => set_st ob Dead)) (s_pool s)).
  assert (HP : Permutation (pend s) (sd :: pend s')).
  { pose proof (pend_with s t (mkThr stk rest prog) (set_range (s_heap s) (sl_base sd) N (fun ob => set_st ob Dead)) (s_pool s) Ht) as H.
    fold s' in H. rewrite E in H. cbn [t_todo slabs_of] in H.
    assert (H2 : Permutation ((sd :: pend s') ++ slabs_of rest) (pend s ++ slabs_of rest)).
    { eapply Permutation_trans; [|exact H]. cbn [app]. apply Permutation_middle. }
    apply Permutation_app_inv_r in H2. apply Permutation_sym. exact H2. }
  assert (Hin : In sd (pend s)) by (eapply Permutation_in; [apply Permutation_sym; eauto|left; auto]).
  assert (Hown_pooled : forall x, owns N sd x = true -> o_st (hobj s x) = Pooled) by (intros x Hx; apply P5; exists sd; auto).
  assert (Hrange : forall x, owns N sd x = ((sl_base sd <=? x) && (x <? sl_base sd + N))) by reflexivity.
  split.
  - (* every object of the slab is pooled *)
    assert (G : forall n, n <= N -> range_all (s_heap s) (sl_base sd) n is_pooled_st = true).
    { induction n as [|n IH]; intros Hn; cbn; auto. rewrite IH by lia. rewrite andb_true_r.
      unfold is_pooled_st. rewrite (Hown_pooled (sl_base sd + n)); auto. apply owns_spec. lia. }
    apply G; auto.
  - assert (Hget : forall x, hobj s' x = if owns N sd x then set_st (hobj s x) Dead else hobj s x).
    { intros x. unfold hobj, s'; cbn [s_heap with_thr]. rewrite set_range_get by auto. rewrite Hrange. reflexivity. }
    assert (P2' : pend_ok (length (s_heap s)) (sd :: pend s')) by (eapply pend_ok_perm; eauto).
    assert (Hsub : forall x, owned_by (pend s') x -> owned_by (pend s) x /\ owns N sd x = false).
    { intros x Hx. split.
      - eapply owned_perm; [apply Permutation_sym; eauto|]. destruct Hx as (a & Ia & Oa). exists a; split; auto. right; auto.
      - destruct (owns N sd x) eqn:Eo; auto. exfalso. eapply (pend_head_disjoint _ sd (pend s') x); eauto. }
    assert (Hlisted : forall x, owned_by (p_slabs (s_pool s)) x -> owns N sd x = false).
    { intros x Hx. destruct (owns N sd x) eqn:Eo; auto. exfalso. apply (P2b x); auto. exists sd; auto. }
    constructor; unfold s'; cbn [s_pool s_heap with_thr]; rewrite ?set_range_length; fold s'.
    + exact P1.
    + eapply pend_ok_tail; eauto.
    + intros x Hx. apply P2b. apply Hsub; auto.
    + intros x Hx. rewrite Hget, (Hlisted x (pfree_owned _ _ Hx)). auto.
    + intros x Hx. rewrite Hget, (Hlisted x (pused_owned _ _ Hx)). auto.
    + intros x Hx. destruct (Hsub x Hx) as (A & B). rewrite Hget, B. auto.
    + intros x Hx Hp Hd. rewrite Hget in Hp, Hd. destruct (owns N sd x) eqn:Eo; [cbn in Hd; congruence|].
      specialize (P6 x Hx Hp Hd). apply owned_app in P6. apply owned_app. destruct P6 as [A|A]; auto. left.
      destruct A as (a & Ia & Oa). eapply Permutation_in in Ia; [|eauto]. destruct Ia as [<-|Ia]; [congruence|]. exists a; auto.
    + intros x Hx. rewrite Hget. assert (Hx' : owned_by (pend s ++ p_slabs (s_pool s)) x).
      { apply owned_app in Hx. apply owned_app. destruct Hx as [A|A]; auto. left. apply Hsub; auto. }
      specialize (P7 x Hx'). destruct (owns N sd x); auto.
Qed.

End PoolLink.
