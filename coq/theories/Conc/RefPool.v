(* C10 -- the link between the heap's life-cycle states and the pool's bookkeeping, as an invariant
   of the transition system: a node is in a free list exactly when its object is in the pooled
   (default) state, the objects of a slab waiting for deletion are all pooled, slabs (listed or
   waiting for deletion) are pairwise disjoint. *)
From Coq Require Import List Arith Bool Lia Permutation.
From Muscle Require Import Conc.Pool Conc.PoolProofs Conc.RefCnt Conc.RefInv Conc.RefExcl Conc.RefStep Conc.RefActs.
Import ListNotations.
Local Open Scope nat_scope.

Section PoolLink.
Variables N K : nat.

Fixpoint slabs_of (todo : list act) : list slab :=
  match todo with
  | [] => []
  | ASlabDel sd :: r => sd :: slabs_of r
  | _ :: r => slabs_of r
  end.

Definition pend (s : state) : list slab := concat (map (fun t => slabs_of (t_todo t)) (s_thr s)).

Definition owned_by (l : list slab) (x : nat) : Prop := exists sd, In sd l /\ owns N sd x = true.

Record plink (s : state) : Prop := mkPlink {
  pl_wf : pool_wf N (length (s_heap s)) (s_pool s);
  pl_all : cwf N (length (s_heap s)) (p_nextid (s_pool s)) (pend s ++ p_slabs (s_pool s));
  pl_free : forall x, pfree N (p_slabs (s_pool s)) x -> o_st (hobj s x) = Pooled /\ o_val (hobj s x) = 0;
  pl_used : forall x, pused N (p_slabs (s_pool s)) x -> o_st (hobj s x) = Live \/ o_st (hobj s x) = Releasing;
  pl_pend : forall x, owned_by (pend s) x -> o_st (hobj s x) = Pooled;
  pl_cover : forall x, x < length (s_heap s) -> o_pooled (hobj s x) = true -> o_st (hobj s x) <> Dead ->
             owned_by (pend s ++ p_slabs (s_pool s)) x;
  pl_flag : forall x, owned_by (pend s ++ p_slabs (s_pool s)) x -> o_pooled (hobj s x) = true
}.

Lemma owned_perm : forall l l' x, Permutation l l' -> owned_by l x -> owned_by l' x.
Proof. intros l l' x HP (sd & Hin & Ho). exists sd. split; auto. eapply Permutation_in; eauto. Qed.

Lemma owned_app : forall a b x, owned_by (a ++ b) x <-> owned_by a x \/ owned_by b x.
Proof.
  intros a b x. split.
  - intros (sd & Hin & Ho). apply in_app_or in Hin. destruct Hin; [left|right]; exists sd; auto.
  - intros [(sd & Hin & Ho)|(sd & Hin & Ho)]; exists sd; split; auto; apply in_or_app; auto.
Qed.

Lemma pfree_owned : forall l x, pfree N l x -> owned_by l x.
Proof. intros l x (sd & Hin & Ho & _). exists sd; auto. Qed.
Lemma pused_owned : forall l x, pused N l x -> owned_by l x.
Proof. intros l x (sd & Hin & Ho & _). exists sd; auto. Qed.

Lemma owned_free_or_used : forall l x, owned_by l x -> pfree N l x \/ pused N l x.
Proof.
  intros l x (sd & Hin & Ho).
  destruct (in_dec Nat.eq_dec (x - sl_base sd) (free_nodes N sd)); [left|right]; exists sd; auto.
Qed.

Lemma cwf_weaken : forall hlen hlen' nid l, hlen <= hlen' -> cwf N hlen nid l -> cwf N hlen' nid l.
Proof.
  intros hlen hlen' nid l Hle (H1 & H2 & H3 & H4 & H5). repeat split; auto.
  rewrite Forall_forall in *. intros sd Hs. specialize (H4 sd Hs). lia.
Qed.

Lemma cwf_owned_lt : forall hlen nid l x, cwf N hlen nid l -> owned_by l x -> x < hlen.
Proof. intros hlen nid l x Hc (sd & Hin & Ho). eapply owned_lt_hlen; eauto. Qed.

(* ------------------------------------------------------------------ pending slabs under a thread update *)

Lemma concat_map_upd : forall A B (f : A -> list B) l i x d, i < length l ->
  Permutation (concat (map f (upd l i x)) ++ f (nth i l d)) (concat (map f l) ++ f x).
Proof.
  induction l as [|h t IH]; intros [|i] x d Hi; cbn in *; try lia.
  - rewrite <- app_assoc. apply Permutation_trans with ((concat (map f t) ++ f h) ++ f x); [apply Permutation_app_comm|].
    apply Permutation_app_tail. apply Permutation_app_comm.
  - rewrite <- !app_assoc. apply Permutation_app_head. apply IH. lia.
Qed.

Lemma pend_with : forall s t th' h' p', t < length (s_thr s) ->
  Permutation (pend (with_thr s t th' h' p') ++ slabs_of (t_todo (thr s t))) (pend s ++ slabs_of (t_todo th')).
Proof. intros. unfold pend, with_thr, thr; cbn [s_thr]. apply (concat_map_upd _ _ (fun t => slabs_of (t_todo t))); auto. Qed.

Lemma pend_same : forall s t th' h' p', t < length (s_thr s) ->
  slabs_of (t_todo th') = slabs_of (t_todo (thr s t)) -> Permutation (pend (with_thr s t th' h' p')) (pend s).
Proof.
  intros s t th' h' p' Ht E. pose proof (pend_with s t th' h' p' Ht) as HP. rewrite E in HP.
  eapply Permutation_app_inv_r; eauto.
Qed.

Lemma slabs_of_app : forall a b, slabs_of (a ++ b) = slabs_of a ++ slabs_of b.
Proof. induction a as [|x a IH]; intros; cbn; auto. destruct x; cbn; rewrite ?IH; auto. Qed.

(* ------------------------------------------------------------------ steps that do not involve the pool *)

Definition obj_frame (ob ob' : obj) : Prop :=
  o_pooled ob' = o_pooled ob /\
  (o_pooled ob = true ->
     (o_st ob' = o_st ob \/ (o_st ob = Live /\ o_st ob' = Releasing)) /\
     (is_live ob = false -> o_val ob' = o_val ob)).

Lemma plink_frame : forall s s', plink s ->
  s_pool s' = s_pool s -> Permutation (pend s') (pend s) ->
  length (s_heap s) <= length (s_heap s') ->
  (forall x, length (s_heap s) <= x -> o_pooled (hobj s' x) = false) ->
  (forall x, x < length (s_heap s) -> obj_frame (hobj s x) (hobj s' x)) ->
  plink s'.
Proof.
  intros s s' [P1 P2 P3 P4 P5 P6 P7] Ep HP Hlen Hnew Hold.
  assert (HPall : Permutation (pend s' ++ p_slabs (s_pool s)) (pend s ++ p_slabs (s_pool s))) by (apply Permutation_app_tail; auto).
  assert (Hlt : forall x, owned_by (pend s ++ p_slabs (s_pool s)) x -> x < length (s_heap s)) by (intros; eapply cwf_owned_lt; eauto).
  assert (Hpooled : forall x, owned_by (pend s ++ p_slabs (s_pool s)) x ->
            o_pooled (hobj s x) = true /\ obj_frame (hobj s x) (hobj s' x)).
  { intros x Hx. split; auto. }
  constructor; rewrite ?Ep.
  - eapply pool_wf_weaken; eauto.
  - eapply cwf_weaken; eauto. eapply cwf_perm; [apply Permutation_sym; eauto|auto].
  - intros x Hx. destruct (P3 x Hx) as (A1 & A2).
    destruct (Hpooled x) as (B1 & (B2 & B3)); [apply owned_app; right; apply pfree_owned; auto|].
    destruct (B3 B1) as ([E|(E & _)] & Ev); [|congruence]. rewrite E, Ev; auto. unfold is_live. rewrite A1. reflexivity.
  - intros x Hx. destruct (Hpooled x) as (B1 & (B2 & B3)); [apply owned_app; right; apply pused_owned; auto|].
    destruct (B3 B1) as ([E|(E1 & E2)] & _); [rewrite E; auto|auto].
  - intros x Hx. assert (Hx' : owned_by (pend s) x) by (eapply owned_perm; eauto).
    destruct (Hpooled x) as (B1 & (B2 & B3)); [apply owned_app; left; auto|].
    specialize (P5 x Hx'). destruct (B3 B1) as ([E|(E & _)] & _); congruence.
  - intros x Hx Hp Hd. destruct (lt_dec x (length (s_heap s))) as [Hl|Hl]; [|rewrite Hnew in Hp by lia; discriminate].
    destruct (Hold x Hl) as (B2 & B3). rewrite B2 in Hp. destruct (B3 Hp) as ([E|(E1 & E2)] & _).
    + eapply owned_perm; [apply Permutation_sym; eauto|]. apply P6; auto. congruence.
    + eapply owned_perm; [apply Permutation_sym; eauto|]. apply P6; auto. congruence.
  - intros x Hx. assert (Hx' : owned_by (pend s ++ p_slabs (s_pool s)) x) by (eapply owned_perm; eauto).
    destruct (Hpooled x Hx') as (B1 & (B2 & _)). congruence.
Qed.

End PoolLink.
